(* Proofs about the header stage of Model/Chain.v [execute_block] (chain/processor.go: Processor.Execute,
   createBlockContext, verifyParentRoot, writeBlockContext) and about chains of executed blocks
   (Model/ChainHistory.v).  Used by Props/C11.v and Proofs/Supply_proofs.v. *)
From stdpp Require Import gmap.
From Coq Require Import NArith ZArith Lia ZifyN ZifyNat ZifyBool.
From HV Require Import Lib.Bytes Lib.U64 Model.Keys Model.Tstate Model.Fees Model.Chain Model.ChainHistory.
Local Open Scope N_scope.

(* ------------------------------------------------------------------ the conditions of the property *)

(* the conditions checked BEFORE the transactions are executed, against the values stored in the parent STATE *)
Definition pre_header_ok (r : rules) (p : parent_state) (b : block) : Prop :=
  b_too_late b = false
  /\ (exists ph, p_height p = Some ph /\ b_height b = ph + 1)
  /\ (Z.of_N (p_ts p) + r_min_gap r <= b_ts b)%Z
  /\ (b_txs b = [] -> (Z.of_N (p_ts p) + r_min_empty_gap r <= b_ts b)%Z).

(* ... and the parent-root check, made after the transactions were executed *)
Definition header_ok (r : rules) (p : parent_state) (b : block) : Prop :=
  pre_header_ok r p b /\ b_root_ok b = true.

(* the transactions of the block execute: no repeat in the validity window, units fit, no task fails *)
Definition block_fm (r : rules) (p : parent_state) (b : block) : manager :=
  compute_next (p_fee p) (b_ts b) (r_target r) (r_denom r) (r_min_price r).

Definition body_runs (r : rules) (p : parent_state) (b : block) : Prop :=
  b_vw_dup b = false /\
  exists ptxs fm' st results,
    prepare r (block_fm r p b) (b_txs b) = inl (ptxs, fm')
    /\ run_txs r fm' (p_data p) (b_ts b) ts_new ptxs = (st, results, []).

(* the first failing pre-execution check, in the order of the code *)
Definition pre_class (r : rules) (p : parent_state) (b : block) : option N :=
  if b_too_late b then Some clsTooLate else
  match p_height p with
  | None => Some clsFetchHeight
  | Some ph =>
      if negb (b_height b =? ph + 1) then Some clsBadHeight else
      if (b_ts b <? Z.of_N (p_ts p) + r_min_gap r)%Z then Some clsTooEarly else
      if (match b_txs b with [] => true | _ => false end) && (b_ts b <? Z.of_N (p_ts p) + r_min_empty_gap r)%Z
      then Some clsTooEarlyEmpty else None
  end.

Definition err_class (x : out_ok + (N * N)) : option N :=
  match x with inl _ => None | inr (c, _) => Some c end.

Definition pre_header_classes : list N := [clsTooLate; clsFetchHeight; clsBadHeight; clsTooEarly; clsTooEarlyEmpty].
Definition header_classes : list N := pre_header_classes ++ [clsRootMismatch].

Definition class_in (l : list N) (x : out_ok + (N * N)) : Prop :=
  match err_class x with Some c => In c l | None => False end.

(* ------------------------------------------------------------------ inversion of an accepted block *)

Lemma execute_block_inv r mk p b o : execute_block r mk p b = inl o ->
  b_too_late b = false
  /\ (exists ph, p_height p = Some ph /\ b_height b = ph + 1)
  /\ (Z.of_N (p_ts p) + r_min_gap r <= b_ts b)%Z
  /\ (b_txs b = [] -> (Z.of_N (p_ts p) + r_min_empty_gap r <= b_ts b)%Z)
  /\ b_root_ok b = true /\ b_vw_dup b = false /\ forallb t_auth_ok (b_txs b) = true
  /\ exists ptxs fm' st results,
       prepare r (block_fm r p b) (b_txs b) = inl (ptxs, fm')
       /\ run_txs r fm' (p_data p) (b_ts b) ts_new ptxs = (st, results, [])
       /\ o = mkOut results (ts_changed st) (b_height b) (Z.to_N (b_ts b mod Z.of_N W64)%Z) fm'
                    (unit_prices fm') (units_consumed fm').
Proof.
  unfold execute_block, block_fm. intros H.
  destruct (b_too_late b) eqn:E1; [discriminate|].
  destruct (is_fail b (mk_height mk)) eqn:E2; [discriminate|].
  destruct (p_height p) as [ph|] eqn:E3; [|discriminate].
  destruct (b_height b =? ph + 1) eqn:E4; cbn [negb] in H; [|discriminate].
  destruct (is_fail b (mk_ts mk)) eqn:E5; [discriminate|].
  destruct (b_ts b <? Z.of_N (p_ts p) + r_min_gap r)%Z eqn:E6; [discriminate|].
  destruct ((match b_txs b with [] => true | _ => false end)
            && (b_ts b <? Z.of_N (p_ts p) + r_min_empty_gap r)%Z) eqn:E7; [discriminate|].
  destruct (is_fail b (mk_fee mk)) eqn:E8; [discriminate|].
  cbv zeta in H.
  destruct (b_vw_dup b) eqn:E9; [discriminate|].
  destruct (fail_hits b _) eqn:E10; [discriminate|].
  destruct (prepare r _ (b_txs b)) as [[ptxs fm']|e] eqn:E11; [|discriminate].
  destruct (run_txs r fm' (p_data p) (b_ts b) ts_new ptxs) as [[st results] fails] eqn:E12.
  destruct fails as [|e1 [|e2 fails]]; try discriminate.
  destruct (b_root_ok b) eqn:E13; cbn [negb] in H; [|discriminate].
  destruct (forallb t_auth_ok (b_txs b)) eqn:E14; cbn [negb] in H; [|discriminate].
  inversion H; subst o. clear H.
  split; [reflexivity|]. split; [exists ph; split; [reflexivity | lia]|].
  split; [lia|]. split.
  { intros Hnil. rewrite Hnil in E7. cbn [andb] in E7. lia. }
  split; [reflexivity|]. split; [reflexivity|]. split; [reflexivity|].
  exists ptxs, fm', st, results. auto.
Qed.

Lemma accepted_header_ok r mk p b o : execute_block r mk p b = inl o ->
  header_ok r p b /\ body_runs r p b /\ o_height o = b_height b /\ o_ts o = Z.to_N (b_ts b mod Z.of_N W64)%Z.
Proof.
  intros H. destruct (execute_block_inv _ _ _ _ _ H) as (H1 & H2 & H3 & H4 & H5 & H6 & H7 & ptxs & fm' & st & rs & P & R & ->).
  split; [split; [split; [|split; [|split]]|]; assumption|].
  split; [split; [assumption | exists ptxs, fm', st, rs; auto]|].
  split; reflexivity.
Qed.

(* ------------------------------------------------------------------ classification *)

Lemma is_fail_none b k : b_fail_key b = None -> is_fail b k = false.
Proof. intros H. unfold is_fail. rewrite H. reflexivity. Qed.
Lemma fail_hits_none b l : b_fail_key b = None -> fail_hits b l = false.
Proof. intros H. unfold fail_hits. rewrite H. reflexivity. Qed.

Lemma pre_class_None_iff r p b : pre_class r p b = None <-> pre_header_ok r p b.
Proof.
  unfold pre_class, pre_header_ok. destruct (b_too_late b).
  { split; [discriminate | intros [H _]; discriminate]. }
  destruct (p_height p) as [ph|].
  2:{ split; [discriminate | intros (_ & [ph [H _]] & _); discriminate]. }
  destruct (N.eqb_spec (b_height b) (ph + 1)) as [Eh|Eh]; cbn [negb].
  2:{ split; [discriminate | intros (_ & [ph' [H H']] & _); inversion H; subst; contradiction]. }
  destruct (Z.ltb_spec (b_ts b) (Z.of_N (p_ts p) + r_min_gap r)) as [L|L].
  { split; [discriminate | intros (_ & _ & H & _); lia]. }
  destruct (b_txs b) as [|t txs]; cbn [andb].
  - destruct (Z.ltb_spec (b_ts b) (Z.of_N (p_ts p) + r_min_empty_gap r)) as [L2|L2].
    + split; [discriminate | intros (_ & _ & _ & H); specialize (H eq_refl); lia].
    + split; [intros _ | reflexivity]. repeat split; eauto.
  - split; [intros _ | reflexivity]. repeat split; eauto. discriminate.
Qed.

(* a failing pre-execution check gives its own error class, whatever the rest of the block *)
Lemma pre_class_Some r mk p b c : b_fail_key b = None ->
  pre_class r p b = Some c -> execute_block r mk p b = inr (c, 0).
Proof.
  intros Hnf. unfold pre_class, execute_block. rewrite !(is_fail_none b _ Hnf).
  destruct (b_too_late b); [intros H; inversion H; reflexivity|].
  destruct (p_height p) as [ph|]; [|intros H; inversion H; reflexivity].
  destruct (negb (b_height b =? ph + 1)); [intros H; inversion H; reflexivity|].
  destruct (b_ts b <? Z.of_N (p_ts p) + r_min_gap r)%Z; [intros H; inversion H; reflexivity|].
  destruct ((match b_txs b with [] => true | _ => false end)
            && (b_ts b <? Z.of_N (p_ts p) + r_min_empty_gap r)%Z); [intros H; inversion H; reflexivity|].
  discriminate.
Qed.

(* when every pre-execution check passes, the outcome is decided by the body, then the root, then the signatures *)
Lemma pre_class_None r mk p b : b_fail_key b = None -> pre_class r p b = None ->
  execute_block r mk p b =
    if b_vw_dup b then inr (clsDuplicate, 0) else
    match prepare r (block_fm r p b) (b_txs b) with
    | inr e => inr (clsExecuteTxs, e)
    | inl (ptxs, fm') =>
        let '(st, results, fails) := run_txs r fm' (p_data p) (b_ts b) ts_new ptxs in
        match fails with
        | [e] => inr (clsExecuteTxs, e)
        | _ :: _ :: _ => inr (clsExecuteTxs, 0)
        | [] =>
            if negb (b_root_ok b) then inr (clsRootMismatch, 0) else
            if negb (forallb t_auth_ok (b_txs b)) then inr (clsSignature, 0) else
            inl (mkOut results (ts_changed st) (b_height b) (Z.to_N (b_ts b mod Z.of_N W64)%Z) fm'
                       (unit_prices fm') (units_consumed fm'))
        end
    end.
Proof.
  intros Hnf. unfold pre_class, execute_block, block_fm. rewrite !(is_fail_none b _ Hnf).
  destruct (b_too_late b); [discriminate|].
  destruct (p_height p) as [ph|]; [|discriminate].
  destruct (negb (b_height b =? ph + 1)); [discriminate|].
  destruct (b_ts b <? Z.of_N (p_ts p) + r_min_gap r)%Z; [discriminate|].
  destruct ((match b_txs b with [] => true | _ => false end)
            && (b_ts b <? Z.of_N (p_ts p) + r_min_empty_gap r)%Z); [discriminate|].
  intros _. cbv zeta. rewrite (fail_hits_none b _ Hnf). reflexivity.
Qed.

(* no pre-header class can come out of the body *)
Lemma pre_class_None_not_pre r mk p b : b_fail_key b = None -> pre_class r p b = None ->
  ~ class_in pre_header_classes (execute_block r mk p b).
Proof.
  intros Hnf Hn. rewrite (pre_class_None r mk p b Hnf Hn). unfold class_in, pre_header_classes.
  destruct (b_vw_dup b); [cbn; intuition discriminate|].
  destruct (prepare r (block_fm r p b) (b_txs b)) as [[ptxs fm']|e]; [|cbn; intuition discriminate].
  destruct (run_txs r fm' (p_data p) (b_ts b) ts_new ptxs) as [[st results] fails].
  destruct fails as [|e1 [|e2 fails]]; try (cbn; intuition discriminate).
  destruct (negb (b_root_ok b)); [cbn; intuition discriminate|].
  destruct (negb (forallb t_auth_ok (b_txs b))); cbn; intuition discriminate.
Qed.

Lemma pre_header_iff r mk p b : b_fail_key b = None ->
  (pre_header_ok r p b <-> ~ class_in pre_header_classes (execute_block r mk p b)).
Proof.
  intros Hnf. rewrite <- pre_class_None_iff. split.
  - apply pre_class_None_not_pre, Hnf.
  - intros H. destruct (pre_class r p b) as [c|] eqn:E; [|reflexivity]. exfalso. apply H.
    rewrite (pre_class_Some r mk p b c Hnf E). unfold class_in, err_class, pre_header_classes.
    revert E. unfold pre_class.
    destruct (b_too_late b); [intros E; inversion E; cbn; auto|].
    destruct (p_height p) as [ph|]; [|intros E; inversion E; cbn; auto].
    destruct (negb (b_height b =? ph + 1)); [intros E; inversion E; cbn; auto|].
    destruct (b_ts b <? Z.of_N (p_ts p) + r_min_gap r)%Z; [intros E; inversion E; cbn; auto|].
    destruct ((match b_txs b with [] => true | _ => false end)
              && (b_ts b <? Z.of_N (p_ts p) + r_min_empty_gap r)%Z); [intros E; inversion E; cbn; auto 10|].
    discriminate.
Qed.

(* the root check: a block whose body executes is rejected with clsRootMismatch iff the recorded root is wrong *)
Lemma root_mismatch_class r mk p b : b_fail_key b = None -> pre_header_ok r p b -> body_runs r p b ->
  b_root_ok b = false -> execute_block r mk p b = inr (clsRootMismatch, 0).
Proof.
  intros Hnf Hpre (Hdup & ptxs & fm' & st & rs & P & R) Hroot.
  rewrite (pre_class_None r mk p b Hnf (proj2 (pre_class_None_iff r p b) Hpre)).
  rewrite Hdup, P, R, Hroot. reflexivity.
Qed.

Lemma root_mismatch_only_if r mk p b sub : execute_block r mk p b = inr (clsRootMismatch, sub) ->
  b_root_ok b = false.
Proof.
  unfold execute_block. intros H.
  destruct (b_too_late b); [inversion H|].
  destruct (is_fail b (mk_height mk)); [inversion H|].
  destruct (p_height p) as [ph|]; [|inversion H].
  destruct (negb (b_height b =? ph + 1)); [inversion H|].
  destruct (is_fail b (mk_ts mk)); [inversion H|].
  destruct (b_ts b <? Z.of_N (p_ts p) + r_min_gap r)%Z; [inversion H|].
  destruct ((match b_txs b with [] => true | _ => false end)
            && (b_ts b <? Z.of_N (p_ts p) + r_min_empty_gap r)%Z); [inversion H|].
  destruct (is_fail b (mk_fee mk)); [inversion H|].
  cbv zeta in H.
  destruct (b_vw_dup b); [inversion H|].
  destruct (fail_hits b _); [inversion H|].
  destruct (prepare r _ (b_txs b)) as [[ptxs fm']|e]; [|inversion H].
  destruct (run_txs r fm' (p_data p) (b_ts b) ts_new ptxs) as [[st results] fails].
  destruct fails as [|e1 [|e2 fails]]; try (inversion H; fail).
  destruct (b_root_ok b); cbn [negb] in H; [|reflexivity].
  destruct (negb (forallb t_auth_ok (b_txs b))); inversion H.
Qed.

(* the full equivalence, for blocks whose transactions execute *)
Lemma header_iff r mk p b : b_fail_key b = None -> body_runs r p b ->
  (header_ok r p b <-> ~ class_in header_classes (execute_block r mk p b)).
Proof.
  intros Hnf Hbody. unfold header_ok. split.
  - intros [Hpre Hroot] Hin.
    pose proof (proj2 (pre_class_None_iff r p b) Hpre) as Hn.
    destruct Hbody as (Hdup & ptxs & fm' & st & rs & P & R).
    rewrite (pre_class_None r mk p b Hnf Hn), Hdup, P, R, Hroot in Hin. cbn [negb] in Hin.
    destruct (negb (forallb t_auth_ok (b_txs b))); cbn in Hin; intuition discriminate.
  - intros H.
    assert (Hpre : pre_header_ok r p b).
    { apply (pre_header_iff r mk p b Hnf). intros Hin. apply H. unfold class_in, header_classes in *.
      destruct (err_class (execute_block r mk p b)); [apply in_or_app; left; exact Hin | exact Hin]. }
    split; [exact Hpre|]. destruct (b_root_ok b) eqn:Hroot; [reflexivity|]. exfalso. apply H.
    rewrite (root_mismatch_class r mk p b Hnf Hpre Hbody Hroot). cbn. auto 10.
Qed.

(* ------------------------------------------------------------------ chains of executed blocks *)

Lemma post_data_lookup p o k : post_data p o !! k = post_value p o k.
Proof.
  unfold post_data, post_value. rewrite lookup_union, lookup_omap, map_filter_lookup.
  destruct (o_diff o !! k) as [[v|]|] eqn:E; cbn.
  - destruct (p_data p !! k); cbn; [|reflexivity].
    rewrite option_guard_False by (cbn; congruence). reflexivity.
  - destruct (p_data p !! k); cbn; [|reflexivity].
    rewrite option_guard_False by (cbn; congruence). reflexivity.
  - destruct (p_data p !! k); cbn; [|reflexivity].
    rewrite option_guard_True by (cbn; exact E). reflexivity.
Qed.

(* writeBlockContext: the state left by a verified block records the block's own height and timestamp *)
Lemma next_parent_meta r mk p b o : execute_block r mk p b = inl o ->
  (0 <= r_min_gap r)%Z -> (b_ts b < Z.of_N W64)%Z ->
  p_height (next_parent p o) = Some (b_height b) /\ Z.of_N (p_ts (next_parent p o)) = b_ts b.
Proof.
  intros H Hgap Hlt. destruct (execute_block_inv _ _ _ _ _ H) as (_ & _ & H3 & _ & _ & _ & _ & ptxs & fm' & st & rs & _ & _ & ->).
  unfold next_parent. cbn [p_height p_ts o_height o_ts]. split; [reflexivity|].
  rewrite Z2N.id by (apply Z.mod_pos_bound; reflexivity).
  apply Z.mod_small. lia.
Qed.

(* consecutive blocks of a chain: height + 1, timestamps at least the gaps apart *)
Definition extends (r : rules) (a b : block) : Prop :=
  b_height b = b_height a + 1
  /\ (b_ts a + r_min_gap r <= b_ts b)%Z
  /\ (b_txs b = [] -> (b_ts a + r_min_empty_gap r <= b_ts b)%Z)
  /\ b_too_late b = false /\ b_root_ok b = true.

Fixpoint linked (r : rules) (a : block) (bs : list block) : Prop :=
  match bs with
  | [] => True
  | b :: rest => extends r a b /\ linked r b rest
  end.

Lemma chain_linked r mk : (0 <= r_min_gap r)%Z ->
  forall bs p a oa res, Forall (fun b => (b_ts b < Z.of_N W64)%Z) (a :: bs) ->
  execute_block r mk p a = inl oa ->
  run_chain r mk (next_parent p oa) bs = Some res ->
  linked r a bs.
Proof.
  intros Hgap. induction bs as [|b bs IH]; intros p a oa res Hts Ha Hrun; cbn [linked]; [exact I|].
  cbn [run_chain] in Hrun.
  destruct (execute_block r mk (next_parent p oa) b) as [ob|e] eqn:Hb; [|discriminate].
  destruct (run_chain r mk (next_parent (next_parent p oa) ob) bs) as [[p' os]|] eqn:Hrest; [|discriminate].
  inversion Hts as [|? ? Hta Htb]; subst.
  destruct (next_parent_meta r mk p a oa Ha Hgap Hta) as [Mh Mt].
  destruct (execute_block_inv _ _ _ _ _ Hb) as (H1 & (ph & Hph & Hh) & H3 & H4 & H5 & _).
  rewrite Mh in Hph. inversion Hph; subst ph. rewrite Mt in H3, H4.
  split.
  - unfold extends. auto.
  - eapply IH; [exact Htb | exact Hb | exact Hrest].
Qed.

Lemma linked_sorted r a bs : (0 <= r_min_gap r)%Z -> linked r a bs ->
  Forall (fun b => (b_ts a <= b_ts b)%Z /\ b_height a < b_height b) bs.
Proof.
  intros Hgap. revert a. induction bs as [|b bs IH]; intros a H; [constructor|].
  destruct H as [(Hh & Ht & _) Hl]. constructor; [split; lia|].
  eapply Forall_impl; [apply (IH b Hl)|]. cbn. intros c [? ?]. split; lia.
Qed.
