(* Proofs about Model/LargestSet.v (C33). *)
From Coq Require Import List NArith ZArith Bool Lia ZifyN ZifyNat ZifyBool Permutation Sorted.
Import ListNotations.
From HV Require Import Lib.U64 Model.Fees Model.LargestSet Proofs.Fees_proofs.
Local Open Scope N_scope.

Definition item (items : list dims) (i : nat) : dims := nth i items [].
Definition vadd (a b : dims) : dims := map (fun k => dget a k + dget b k) idx5.

(* ------------------------------------------------------------------ Dimensions helpers *)
Lemma opt_traverse_map {A B} (f : A -> option B) (g : A -> B) l :
  (forall x, In x l -> f x = Some (g x)) -> opt_traverse f l = Some (map g l).
Proof.
  induction l as [|x l IH]; intros H; cbn [opt_traverse map]; [reflexivity|].
  rewrite (H x (or_introl eq_refl)), IH; [reflexivity|]. intros y Hy. apply H. right. exact Hy.
Qed.

(* a vector fits on top of an accumulator: no overflow and within the limit, in every dimension *)
Definition fits_on (acc d l : dims) : Prop :=
  forall k, (k < 5)%nat -> dget acc k + dget d k <= MaxU64 /\ dget acc k + dget d k <= dget l k.

Lemma can_add_true acc d l : can_add acc d l = true <-> fits_on acc d l.
Proof.
  unfold can_add, fits_on. rewrite forallb_forall. split.
  - intros H k Hk. specialize (H k (proj2 (in_idx5 k) Hk)).
    destruct (add_chk (dget acc k) (dget d k)) as [c|] eqn:E; [|discriminate H].
    apply add_chk_Some in E. destruct E as [-> Hc]. apply negb_true_iff, N.ltb_ge in H. split; assumption.
  - intros H k Hk. apply in_idx5 in Hk. destruct (H k Hk) as [H1 H2].
    assert (E : add_chk (dget acc k) (dget d k) = Some (dget acc k + dget d k)) by (apply add_chk_Some; auto).
    rewrite E. apply negb_true_iff, N.ltb_ge. exact H2.
Qed.

Lemma forallb_false {A} (f : A -> bool) l : forallb f l = false -> exists x, In x l /\ f x = false.
Proof.
  induction l as [|x l IH]; cbn [forallb]; [discriminate|].
  destruct (f x) eqn:E; cbn [andb].
  - intros H. destruct (IH H) as [y [Hy Hf]]. exists y. split; [right; exact Hy | exact Hf].
  - intros _. exists x. split; [left; reflexivity | exact E].
Qed.

Lemma can_add_false acc d l :
  can_add acc d l = false <-> exists k, (k < 5)%nat /\ N.min MaxU64 (dget l k) < dget acc k + dget d k.
Proof.
  split.
  - intros H. unfold can_add in H. apply forallb_false in H. destruct H as [k [Hk Hb]].
    exists k. split; [apply in_idx5, Hk|].
    destruct (add_chk (dget acc k) (dget d k)) as [c|] eqn:E.
    + apply add_chk_Some in E. destruct E as [-> Hc]. apply negb_false_iff, N.ltb_lt in Hb. lia.
    + apply add_chk_None in E. lia.
  - intros [k [Hk Hlt]]. apply not_true_is_false. intros Ht. apply can_add_true in Ht. destruct (Ht k Hk). lia.
Qed.

Lemma can_add_dims_add acc d l : can_add acc d l = true -> dims_add acc d = Some (vadd acc d).
Proof.
  intros H. apply can_add_true in H. unfold dims_add, vadd. apply opt_traverse_map.
  intros k Hk. apply in_idx5 in Hk. apply add_chk_Some. split; [reflexivity | apply H, Hk].
Qed.

Lemma dget_vadd a b k : (k < 5)%nat -> dget (vadd a b) k = dget a k + dget b k.
Proof. intros Hk. unfold vadd, dget. do 5 (destruct k as [|k]; [reflexivity|]). lia. Qed.

(* ------------------------------------------------------------------ the order *)
Lemma insert_stable_perm wt i l : Permutation (insert_stable wt i l) (i :: l).
Proof.
  induction l as [|j l IH]; cbn [insert_stable]; [apply Permutation_refl|].
  destruct (wt i <? wt j)%Z; [apply Permutation_refl|].
  eapply Permutation_trans; [apply perm_skip, IH | apply perm_swap].
Qed.

Lemma fold_insert_perm wt l acc :
  Permutation (fold_left (fun a i => insert_stable wt i a) l acc) (l ++ acc).
Proof.
  revert acc. induction l as [|x l IH]; intros acc; cbn [fold_left app]; [apply Permutation_refl|].
  eapply Permutation_trans; [apply IH|].
  eapply Permutation_trans; [apply Permutation_app_head, insert_stable_perm|].
  apply Permutation_sym, Permutation_middle.
Qed.

Lemma sorted_indices_perm wt n : Permutation (sorted_indices wt n) (seq 0 n).
Proof. unfold sorted_indices. eapply Permutation_trans; [apply fold_insert_perm|]. rewrite app_nil_r. apply Permutation_refl. Qed.

Lemma sorted_indices_NoDup wt n : NoDup (sorted_indices wt n).
Proof. eapply Permutation_NoDup; [apply Permutation_sym, sorted_indices_perm | apply seq_NoDup]. Qed.

Lemma sorted_indices_lt wt n i : In i (sorted_indices wt n) <-> (i < n)%nat.
Proof.
  split; intros H.
  - eapply Permutation_in in H; [|apply sorted_indices_perm]. apply in_seq in H. lia.
  - eapply Permutation_in; [apply Permutation_sym, sorted_indices_perm|]. apply in_seq. lia.
Qed.

(* the order is sorted by (weight, index): ascending weights, equal weights in input order (stability) *)
Definition precedes (wt : nat -> Z) (i j : nat) : Prop := (wt i < wt j)%Z \/ (wt i = wt j /\ (i < j)%nat).

Lemma insert_stable_sorted wt i l :
  StronglySorted (precedes wt) l -> (forall j, In j l -> (j < i)%nat) ->
  StronglySorted (precedes wt) (insert_stable wt i l).
Proof.
  induction l as [|j l IH]; intros Hs Hlt; cbn [insert_stable].
  - constructor; constructor.
  - inversion Hs as [|? ? Hs' Hall]; subst.
    destruct (Z.ltb_spec (wt i) (wt j)) as [Hij|Hij].
    + constructor; [exact Hs|]. constructor.
      * left. exact Hij.
      * rewrite Forall_forall in *. intros x Hx. specialize (Hall x Hx). unfold precedes in *. lia.
    + constructor.
      * apply IH; [exact Hs'|]. intros x Hx. apply Hlt. right. exact Hx.
      * rewrite Forall_forall in *. intros x Hx.
        eapply Permutation_in in Hx; [|apply insert_stable_perm]. destruct Hx as [<-|Hx].
        -- assert ((j < i)%nat) by (apply Hlt; left; reflexivity). unfold precedes. lia.
        -- apply Hall, Hx.
Qed.

Lemma fold_insert_sorted wt l acc :
  StronglySorted (precedes wt) acc -> StronglySorted lt l -> (forall a x, In a acc -> In x l -> (a < x)%nat) ->
  StronglySorted (precedes wt) (fold_left (fun a i => insert_stable wt i a) l acc).
Proof.
  revert acc. induction l as [|x l IH]; intros acc Hacc Hl Hlt; cbn [fold_left]; [exact Hacc|].
  inversion Hl as [|? ? Hl' Hall]; subst. apply IH; [|exact Hl'|].
  - apply insert_stable_sorted; [exact Hacc|]. intros j Hj. apply Hlt; [exact Hj | left; reflexivity].
  - intros a y Ha Hy. eapply Permutation_in in Ha; [|apply insert_stable_perm]. destruct Ha as [<-|Ha].
    + rewrite Forall_forall in Hall. apply Hall, Hy.
    + apply Hlt; [exact Ha | right; exact Hy].
Qed.

Lemma seq_sorted a n : StronglySorted lt (seq a n).
Proof.
  revert a. induction n as [|n IH]; intros a; cbn [seq]; constructor; [apply IH|].
  apply Forall_forall. intros x Hx. apply in_seq in Hx. lia.
Qed.

Lemma sorted_indices_sorted wt n : StronglySorted (precedes wt) (sorted_indices wt n).
Proof.
  unfold sorted_indices. apply fold_insert_sorted; [constructor | apply seq_sorted | intros a x []].
Qed.

Lemma NoDup_app_l {A} (a b : list A) : NoDup (a ++ b) -> NoDup a.
Proof.
  induction a as [|x a IH]; intros H; [constructor|]. cbn [app] in H. inversion H as [|? ? Hn Hnd]; subst.
  constructor; [|apply IH, Hnd]. intros Hin. apply Hn. apply in_or_app. left. exact Hin.
Qed.

(* ------------------------------------------------------------------ the greedy pass *)
Section Greedy.
Variables (items : list dims) (limit : dims).

Fixpoint greedy_sel (order : list nat) (acc : dims) : list nat :=
  match order with
  | [] => []
  | i :: rest =>
      if can_add acc (item items i) limit then i :: greedy_sel rest (vadd acc (item items i))
      else greedy_sel rest acc
  end.
Fixpoint greedy_total (order : list nat) (acc : dims) : dims :=
  match order with
  | [] => acc
  | i :: rest =>
      if can_add acc (item items i) limit then greedy_total rest (vadd acc (item items i))
      else greedy_total rest acc
  end.

Lemma greedy_eq n order acc :
  (forall i, In i order -> i <> n) ->
  exists slots, greedy items limit n order acc = Some (slots, greedy_total order acc) /\
                compact n slots = greedy_sel order acc.
Proof.
  revert acc. induction order as [|i rest IH]; intros acc Hne; cbn [greedy greedy_total greedy_sel].
  - exists []. split; reflexivity.
  - fold (item items i).
    assert (Hi : i <> n) by (apply Hne; left; reflexivity).
    assert (Hrest : forall j, In j rest -> j <> n) by (intros j Hj; apply Hne; right; exact Hj).
    destruct (can_add acc (item items i) limit) eqn:Eca.
    + rewrite (can_add_dims_add _ _ _ Eca).
      destruct (IH (vadd acc (item items i)) Hrest) as [slots [-> Hc]].
      exists (i :: slots). split; [reflexivity|]. unfold compact in *. cbn [filter].
      destruct (Nat.eqb_spec i n); [contradiction|]. cbn [negb]. f_equal. exact Hc.
    + destruct (IH acc Hrest) as [slots [-> Hc]].
      exists (n :: slots). split; [reflexivity|]. unfold compact in *. cbn [filter].
      rewrite Nat.eqb_refl. cbn [negb]. exact Hc.
Qed.

Lemma greedy_sel_incl order acc i : In i (greedy_sel order acc) -> In i order.
Proof.
  revert acc. induction order as [|j rest IH]; intros acc H; cbn [greedy_sel] in H; [contradiction|].
  destruct (can_add acc (item items j) limit).
  - destruct H as [<-|H]; [left; reflexivity | right; eapply IH; exact H].
  - right. eapply IH; exact H.
Qed.

Lemma greedy_sel_NoDup order acc : NoDup order -> NoDup (greedy_sel order acc).
Proof.
  revert acc. induction order as [|j rest IH]; intros acc Hnd; cbn [greedy_sel]; [constructor|].
  inversion Hnd as [|? ? Hnotin Hnd']; subst.
  destruct (can_add acc (item items j) limit); [|apply IH, Hnd'].
  constructor; [|apply IH, Hnd']. intros Hin. apply Hnotin. eapply greedy_sel_incl; exact Hin.
Qed.

(* exact sum of the selected vectors *)
Definition vsum (k : nat) (sel : list nat) : N := dsum k (map (item items) sel).

Lemma greedy_total_sum order acc k : (k < 5)%nat ->
  dget (greedy_total order acc) k = dget acc k + vsum k (greedy_sel order acc).
Proof.
  intros Hk. revert acc. induction order as [|i rest IH]; intros acc; cbn [greedy_total greedy_sel].
  - unfold vsum. cbn [map dsum fold_right]. lia.
  - destruct (can_add acc (item items i) limit).
    + rewrite IH, dget_vadd by exact Hk. unfold vsum. cbn [map dsum fold_right]. fold (dsum k (map (item items) (greedy_sel rest (vadd acc (item items i))))). lia.
    + apply IH.
Qed.

Lemma greedy_total_fits order acc :
  (forall k, (k < 5)%nat -> dget acc k <= MaxU64 /\ dget acc k <= dget limit k) ->
  forall k, (k < 5)%nat -> dget (greedy_total order acc) k <= MaxU64 /\ dget (greedy_total order acc) k <= dget limit k.
Proof.
  revert acc. induction order as [|i rest IH]; intros acc Hacc; cbn [greedy_total]; [exact Hacc|].
  destruct (can_add acc (item items i) limit) eqn:Eca; [|apply IH, Hacc].
  apply IH. intros k Hk. rewrite dget_vadd by exact Hk. apply can_add_true in Eca. apply Eca, Hk.
Qed.

(* the accumulator when an item is considered = initial accumulator + the items selected before it *)
Lemma greedy_sel_app pre post acc :
  greedy_sel (pre ++ post) acc = greedy_sel pre acc ++ greedy_sel post (greedy_total pre acc).
Proof.
  revert acc. induction pre as [|i pre IH]; intros acc; cbn [app greedy_sel greedy_total]; [reflexivity|].
  destruct (can_add acc (item items i) limit); [cbn [app]; f_equal|]; apply IH.
Qed.

Definition memb (l : list nat) (i : nat) : bool := existsb (Nat.eqb i) l.
Lemma memb_In l i : memb l i = true <-> In i l.
Proof.
  unfold memb. rewrite existsb_exists. split.
  - intros [x [Hx He]]. apply Nat.eqb_eq in He. subst. exact Hx.
  - intros H. exists i. split; [exact H | apply Nat.eqb_refl].
Qed.

Lemma filter_greedy_sel X l acc :
  NoDup l -> (forall x, In x l -> (memb X x = true <-> In x (greedy_sel l acc))) ->
  filter (memb X) l = greedy_sel l acc.
Proof.
  revert acc. induction l as [|i rest IH]; intros acc Hnd HX; cbn [filter greedy_sel]; [reflexivity|].
  inversion Hnd as [|? ? Hnotin Hnd']; subst.
  assert (Hi := HX i (or_introl eq_refl)). cbn [greedy_sel] in Hi.
  destruct (can_add acc (item items i) limit) eqn:Eca.
  - assert (Hm : memb X i = true) by (apply Hi; left; reflexivity). rewrite Hm. f_equal.
    apply IH; [exact Hnd'|]. intros x Hx. specialize (HX x (or_intror Hx)). cbn [greedy_sel] in HX. rewrite Eca in HX.
    rewrite HX. split; [intros [->|H]; [contradiction|exact H] | intros H; right; exact H].
  - assert (Hm : memb X i = false).
    { apply not_true_is_false. intros Hm. apply Hi in Hm. apply greedy_sel_incl in Hm. contradiction. }
    rewrite Hm. apply IH; [exact Hnd'|]. intros x Hx. specialize (HX x (or_intror Hx)). cbn [greedy_sel] in HX.
    rewrite Eca in HX. exact HX.
Qed.

(* key lemma: when j is considered (order = pre ++ j :: post), the accumulator holds exactly the selected
   items of [pre]; j is selected iff it fits on top of it *)
Lemma greedy_decision order acc pre j post :
  NoDup order -> order = pre ++ j :: post ->
  let sel := greedy_sel order acc in
  let seen := filter (memb sel) pre in
  (forall k, (k < 5)%nat -> dget (greedy_total pre acc) k = dget acc k + vsum k seen) /\
  (In j sel <-> can_add (greedy_total pre acc) (item items j) limit = true).
Proof.
  intros Hnd Ho. cbv zeta. subst order.
  rewrite greedy_sel_app. cbn [greedy_sel].
  assert (Hnd1 : NoDup pre) by (apply NoDup_app_l in Hnd; exact Hnd).
  assert (Hdisj : forall x, In x pre -> ~ In x (j :: post)).
  { intros x Hx Hx'. revert Hnd Hx Hx'. clear. induction pre as [|p pre IH]; intros Hnd Hx Hx'; [contradiction|].
    cbn [app] in Hnd. inversion Hnd as [|? ? Hn Hnd']; subst. destruct Hx as [->|Hx].
    - apply Hn. apply in_or_app. right. exact Hx'.
    - apply IH; assumption. }
  assert (Hjpost : ~ In j post /\ ~ In j pre).
  { split.
    - apply NoDup_remove_2 in Hnd. intros H. apply Hnd. apply in_or_app. right. exact H.
    - intros H. apply (Hdisj j H). left. reflexivity. }
  set (acc' := greedy_total pre acc).
  set (tail := if can_add acc' (item items j) limit
               then j :: greedy_sel post (vadd acc' (item items j)) else greedy_sel post acc').
  assert (Htail : forall x, In x tail -> In x (j :: post)).
  { intros x Hx. unfold tail in Hx. destruct (can_add acc' (item items j) limit).
    - destruct Hx as [<-|Hx]; [left; reflexivity | right; eapply greedy_sel_incl; exact Hx].
    - right. eapply greedy_sel_incl; exact Hx. }
  assert (Hseen : filter (memb (greedy_sel pre acc ++ tail)) pre = greedy_sel pre acc).
  { apply filter_greedy_sel; [exact Hnd1|]. intros x Hx. rewrite memb_In, in_app_iff. split.
    - intros [H|H]; [exact H|]. exfalso. apply (Hdisj x Hx), Htail, H.
    - intros H. left. exact H. }
  split.
  - intros k Hk. rewrite Hseen. apply greedy_total_sum, Hk.
  - rewrite in_app_iff. unfold tail. destruct (can_add acc' (item items j) limit) eqn:Eca.
    + split; [reflexivity|]. intros _. right. left. reflexivity.
    + split; [|discriminate]. intros [H|H].
      * apply greedy_sel_incl in H. destruct Hjpost as [_ Hjp]. contradiction.
      * apply greedy_sel_incl in H. destruct Hjpost as [Hjp _]. contradiction.
Qed.
End Greedy.

(* ------------------------------------------------------------------ the selector *)
Definition weights (items : list dims) (limit : dims) : nat -> Z := fun i => weight (nth i items []) limit.
Definition order_of (items : list dims) (limit : dims) : list nat := sorted_indices (weights items limit) (length items).

Lemma largest_set_eq items limit :
  largest_set items limit =
  (greedy_sel items limit (order_of items limit) dzero, greedy_total items limit (order_of items limit) dzero).
Proof.
  unfold largest_set, order_of, weights.
  set (order := sorted_indices (fun i => weight (nth i items []) limit) (length items)).
  destruct (greedy_eq items limit (length items) order dzero) as [slots [-> Hc]].
  - intros i Hi. apply sorted_indices_lt in Hi. lia.
  - rewrite Hc. reflexivity.
Qed.

Lemma dzero_fits limit k : (k < 5)%nat -> dget dzero k <= MaxU64 /\ dget dzero k <= dget limit k.
Proof. intros Hk. unfold dget, dzero. do 5 (destruct k as [|k]; [cbn; unfold MaxU64; lia|]). lia. Qed.
Lemma dget_dzero k : dget dzero k = 0.
Proof. unfold dget, dzero. do 5 (destruct k as [|k]; [reflexivity|]). destruct k; reflexivity. Qed.

Theorem largest_set_sound items limit :
  let n := length items in
  let idx := fst (largest_set items limit) in
  let total := snd (largest_set items limit) in
  let order := order_of items limit in
  NoDup idx /\
  (forall i, In i idx -> (i < n)%nat) /\
  (forall k, (k < 5)%nat -> dget total k = vsum items k idx) /\
  (forall k, (k < 5)%nat -> dget total k <= MaxU64 /\ dget total k <= dget limit k) /\
  Permutation order (seq 0 n) /\
  StronglySorted (precedes (weights items limit)) order /\
  (exists rest, Permutation order (idx ++ rest)) /\
  (forall pre j post, order = pre ++ j :: post ->
     let seen := filter (memb idx) pre in
     let acc := map (fun k => vsum items k seen) idx5 in
     (In j idx -> fits_on acc (item items j) limit) /\
     (~ In j idx -> exists k, (k < 5)%nat /\ N.min MaxU64 (dget limit k) < dget acc k + dget (item items j) k)).
Proof.
  cbv zeta. rewrite largest_set_eq. cbn [fst snd].
  set (order := order_of items limit).
  assert (Hnd : NoDup order) by apply sorted_indices_NoDup.
  split; [apply greedy_sel_NoDup, Hnd|].
  split; [intros i Hi; apply greedy_sel_incl in Hi; apply sorted_indices_lt in Hi; exact Hi|].
  split; [intros k Hk; rewrite greedy_total_sum by exact Hk; rewrite dget_dzero; lia|].
  split; [apply greedy_total_fits; intros k Hk; apply dzero_fits, Hk|].
  split; [apply sorted_indices_perm|].
  split; [apply sorted_indices_sorted|].
  split.
  { (* the selection is a sub-multiset of the order *)
    clear Hnd. generalize dzero. induction order as [|i rest IH]; intros acc; cbn [greedy_sel].
    - exists []. apply Permutation_refl.
    - destruct (can_add acc (item items i) limit).
      + destruct (IH (vadd acc (item items i))) as [r Hr]. exists r. cbn [app]. apply perm_skip, Hr.
      + destruct (IH acc) as [r Hr]. exists (i :: r).
        eapply Permutation_trans; [apply perm_skip, Hr | apply Permutation_middle]. }
  intros pre j post Ho. cbv zeta.
  destruct (greedy_decision items limit order dzero pre j post Hnd Ho) as [Hacc Hdec].
  set (sel := greedy_sel items limit order dzero) in *.
  set (seen := filter (memb sel) pre) in *.
  assert (Heq : forall k, (k < 5)%nat ->
            dget (map (fun k => vsum items k seen) idx5) k = dget (greedy_total items limit pre dzero) k).
  { intros k Hk. rewrite Hacc by exact Hk. rewrite dget_dzero.
    unfold dget. do 5 (destruct k as [|k]; [reflexivity|]). lia. }
  split.
  - intros Hin. apply Hdec, can_add_true in Hin. intros k Hk. rewrite Heq by exact Hk. apply Hin, Hk.
  - intros Hnot. assert (Hf : can_add (greedy_total items limit pre dzero) (item items j) limit = false).
    { apply not_true_is_false. intros Ht. apply Hnot, Hdec, Ht. }
    apply can_add_false in Hf. destruct Hf as [k [Hk Hlt]]. exists k. split; [exact Hk|].
    rewrite Heq by exact Hk. exact Hlt.
Qed.
