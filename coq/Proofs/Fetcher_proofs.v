(* Fetcher_proofs.v — invariants of the fetcher LTS (Model/Fetcher.v) over all interleavings. *)
From stdpp Require Import gmap.
From Coq Require Import NArith ZArith Lia.
From HV Require Import Model.Keys Model.Fetcher.

(* ------------------------------------------------------------------------------------------ basics *)
Lemma upd_eq {A B} `{EqDecision A} (f : A -> B) x v : upd f x v x = v.
Proof. unfold upd. destruct (decide (x = x)); congruence. Qed.
Lemma upd_ne {A B} `{EqDecision A} (f : A -> B) x y v : x <> y -> upd f x v y = f y.
Proof. unfold upd. destruct (decide (x = y)); congruence. Qed.

Lemma steps_app_inv c s tr l s2 : steps c s (tr ++ [l]) s2 -> exists s1, steps c s tr s1 /\ step c s1 l = Some s2.
Proof.
  intros H. remember (tr ++ [l]) as tr0 eqn:E. destruct H as [|s tr' s1 l' s2 Hs Hst].
  - destruct tr; discriminate.
  - apply app_inj_tail in E as [-> ->]. eauto.
Qed.

(* induction principle for reachable states carrying the trace *)
Lemma steps_ind_inv c (P : list label -> state -> Prop) :
  P [] (init c) ->
  (forall tr s l s', steps c (init c) tr s -> P tr s -> step c s l = Some s' -> P (tr ++ [l]) s') ->
  forall tr s, steps c (init c) tr s -> P tr s.
Proof.
  intros H0 HS tr s H. remember (init c) as s0 eqn:E. induction H; subst; eauto.
Qed.

(* ---- pop_first ---- *)
Lemma pop_first_perm i l k r : pop_first i l = Some (k, r) -> l ≡ₚ (i, k) :: r.
Proof.
  revert k r. induction l as [|[j k'] l IH]; intros k r H; cbn in H; [discriminate|].
  unfold mine in H. cbn in H. destruct (Nat.eqb_spec j i) as [->|Hne].
  - inversion H; subst. reflexivity.
  - destruct (pop_first i l) as [[k2 r2]|] eqn:E; [|discriminate]. inversion H; subst.
    rewrite (IH _ _ eq_refl). apply Permutation_swap.
Qed.
Lemma pop_first_none i l : pop_first i l = None -> forall k, (i, k) ∉ l.
Proof.
  induction l as [|[j k'] l IH]; intros H k Hin; [inversion Hin|].
  cbn in H. unfold mine in H. cbn in H. destruct (Nat.eqb_spec j i) as [->|Hne]; [discriminate|].
  destruct (pop_first i l) as [[? ?]|] eqn:E; [discriminate|].
  apply elem_of_cons in Hin as [Heq|Hin]; [inversion Heq; congruence|]. eapply IH; eauto.
Qed.
Lemma pop_first_some i l k : (i, k) ∈ l -> pop_first i l <> None.
Proof.
  intros Hin Hn. eapply pop_first_none; eauto.
Qed.

(* ---- counting occurrences of a key ---- *)
Fixpoint cn (l : list key) (k : key) : nat :=
  match l with [] => 0 | x :: l' => (if decide (x = k) then 1 else 0) + cn l' k end.
Lemma cn_app l1 l2 k : cn (l1 ++ l2) k = cn l1 k + cn l2 k.
Proof. induction l1; cbn; lia. Qed.
Lemma cn_pos l k : 0 < cn l k <-> k ∈ l.
Proof.
  induction l as [|x l IH]; cbn.
  - split; [lia|]. intros H. inversion H.
  - rewrite elem_of_cons. destruct (decide (x = k)); split; intros; auto; try lia.
    + right. apply IH. lia.
    + destruct H as [->|H]; [congruence|]. apply IH in H. lia.
Qed.
Lemma cn_0 l k : k ∉ l -> cn l k = 0.
Proof. intros H. destruct (cn l k) eqn:E; [reflexivity|]. exfalso. apply H, cn_pos. lia. Qed.
Lemma cn_nodup l : (forall k, cn l k <= 1) -> NoDup l.
Proof.
  induction l as [|x l IH]; intros H; constructor.
  - intros Hin. apply cn_pos in Hin. specialize (H x). cbn in H. destruct (decide (x = x)); [lia|congruence].
  - apply IH. intros k. specialize (H k). cbn in H. lia.
Qed.
Lemma nodup_cn l k : NoDup l -> cn l k <= 1.
Proof.
  induction 1 as [|x l Hni Hnd IH]; cbn; [lia|]. destruct (decide (x = k)) as [->|]; [|lia].
  rewrite (cn_0 _ _ Hni). lia.
Qed.
Lemma cn_single x k : cn [x] k = if decide (x = k) then 1 else 0.
Proof. cbn. lia. Qed.

(* ---- the key loop of Fetch ---- *)
Fixpoint cntb {A} (f : A -> bool) (l : list A) : nat :=
  match l with [] => 0 | x :: l' => (if f x then 1 else 0) + cntb f l' end.
Lemma cntb_app {A} (f : A -> bool) l1 l2 : cntb f (l1 ++ l2) = cntb f l1 + cntb f l2.
Proof. induction l1; cbn; lia. Qed.
Lemma cntb_ext {A} (f g : A -> bool) l : (forall x, x ∈ l -> f x = g x) -> cntb f l = cntb g l.
Proof.
  induction l as [|x l IH]; intros H; cbn; [reflexivity|].
  rewrite (H x) by constructor. rewrite IH; [reflexivity|]. intros y Hy. apply H. constructor. exact Hy.
Qed.
Definition cachedK (K : key -> option krec) (k : key) : bool :=
  match K k with Some kr => match cache kr with Some _ => true | None => false end | None => false end.
Definition pendK (K : key -> option krec) (k : key) : bool :=
  match K k with Some kr => match cache kr with Some _ => false | None => true end | None => false end.

Lemma fetch_keys_snoc t K ks k : fetch_keys t K (ks ++ [k]) = fetch_key t (fetch_keys t K ks) k.
Proof. unfold fetch_keys. rewrite fold_left_app. reflexivity. Qed.

(* complete description of the result of the loop *)
Record fk_spec (t : id) (K : key -> option krec) (ks : list key) (K' : key -> option krec) (tasks : list key) (b : Z) : Prop := {
  fk_other : forall k, k ∉ ks -> K' k = K k;
  fk_cached : forall k, cachedK K k = true -> K' k = K k;
  fk_new : forall k, k ∈ ks -> K k = None -> K' k = Some (mkK None (replicate (cn ks k) t));
  fk_pend : forall k kr, k ∈ ks -> K k = Some kr -> cache kr = None ->
            K' k = Some (mkK None (blocked kr ++ replicate (cn ks k) t));
  fk_tasks : forall k, k ∈ tasks <-> k ∈ ks /\ K k = None;
  fk_nodup : NoDup tasks;
  fk_b : b = Z.of_nat (cntb (fun k => negb (cachedK K k)) ks)
}.

Lemma count_occ_snoc_eq (ks : list key) k : cn (ks ++ [k]) k = S (cn ks k).
Proof. rewrite cn_app. cbn. destruct (decide (k = k)); [lia|congruence]. Qed.
Lemma count_occ_snoc_ne (ks : list key) k k' : k <> k' -> cn (ks ++ [k]) k' = cn ks k'.
Proof. intros. rewrite cn_app. cbn. destruct (decide (k = k')); [congruence|lia]. Qed.
Lemma replicate_S_snoc {A} n (x : A) : replicate (S n) x = replicate n x ++ [x].
Proof. induction n; cbn; [reflexivity|]. f_equal. exact IHn. Qed.
Lemma count_occ_0_notin (ks : list key) k : k ∉ ks -> cn ks k = 0.
Proof. apply cn_0. Qed.

Lemma fetch_keys_spec t K ks :
  let '(K', tasks, b) := fetch_keys t K ks in fk_spec t K ks K' tasks b.
Proof.
  induction ks as [|k ks IH] using rev_ind.
  - cbn. split; intros; try reflexivity; try (exfalso; eapply not_elem_of_nil; eassumption).
    + split; [intros H; inversion H|intros [H _]; inversion H].
    + constructor.
  - rewrite fetch_keys_snoc. destruct (fetch_keys t K ks) as [[K1 tasks1] b1].
    destruct IH as [Ho Hc Hn Hp Ht Hnd Hb]. unfold fetch_key.
    destruct (K1 k) as [kr1|] eqn:EK1.
    + destruct (cache kr1) as [v|] eqn:Ec.
      * (* cached in K1: then cached in K (entries created by the loop are pending) *)
        assert (HcK : cachedK K k = true).
        { unfold cachedK. destruct (K k) as [kr|] eqn:EK.
          - destruct (cache kr) eqn:Ec0; [reflexivity|].
            destruct (decide (k ∈ ks)) as [Hin|Hni].
            + rewrite (Hp _ _ Hin EK Ec0) in EK1. inversion EK1; subst. discriminate.
            + rewrite (Ho _ Hni), EK in EK1. inversion EK1; subst. congruence.
          - destruct (decide (k ∈ ks)) as [Hin|Hni].
            + rewrite (Hn _ Hin EK) in EK1. inversion EK1; subst. discriminate.
            + rewrite (Ho _ Hni), EK in EK1. discriminate. }
        split.
        -- intros k' H. apply Ho. intros Hin. apply H. apply elem_of_app. auto.
        -- exact Hc.
        -- intros k' Hin HK. apply elem_of_app in Hin as [Hin|Hin].
           ++ assert (k <> k') by (intros ->; unfold cachedK in HcK; rewrite HK in HcK; discriminate).
              rewrite count_occ_snoc_ne by assumption. auto.
           ++ apply elem_of_list_singleton in Hin as ->. unfold cachedK in HcK. rewrite HK in HcK. discriminate.
        -- intros k' kr Hin HK Hcn. apply elem_of_app in Hin as [Hin|Hin].
           ++ assert (k <> k') by (intros ->; unfold cachedK in HcK; rewrite HK, Hcn in HcK; discriminate).
              rewrite count_occ_snoc_ne by assumption. eauto.
           ++ apply elem_of_list_singleton in Hin as ->. unfold cachedK in HcK. rewrite HK, Hcn in HcK. discriminate.
        -- intros k'. rewrite Ht. split; intros [H1 H2]; split; auto.
           ++ apply elem_of_app; auto.
           ++ apply elem_of_app in H1 as [H1|H1]; [assumption|].
              apply elem_of_list_singleton in H1 as ->. unfold cachedK in HcK. rewrite H2 in HcK. discriminate.
        -- exact Hnd.
        -- rewrite cntb_app. cbn. rewrite HcK. cbn. rewrite Hb. lia.
      * (* pending in K1 *)
        assert (HcK : cachedK K k = false).
        { unfold cachedK. destruct (K k) as [kr|] eqn:EK; [|reflexivity].
          destruct (cache kr) eqn:Ec0; [|reflexivity].
          assert (Hx : cachedK K k = true) by (unfold cachedK; rewrite EK, Ec0; reflexivity).
          rewrite (Hc _ Hx), EK in EK1. inversion EK1; subst. congruence. }
        assert (HK1 : K1 k = Some (mkK None (blocked kr1))).
        { rewrite EK1. destruct kr1; cbn in *; subst; reflexivity. }
        split.
        -- intros k' H. assert (k <> k') by (intros ->; apply H; apply elem_of_app; right; constructor).
           rewrite upd_ne by assumption. apply Ho. intros Hin. apply H. apply elem_of_app. auto.
        -- intros k' H. assert (k <> k') by (intros ->; congruence).
           rewrite upd_ne by assumption. auto.
        -- intros k' Hin HK. destruct (decide (k = k')) as [<-|Hne].
           ++ rewrite upd_eq, count_occ_snoc_eq, replicate_S_snoc. do 2 f_equal.
              destruct (decide (k ∈ ks)) as [Hi|Hni].
              ** rewrite (Hn _ Hi HK) in EK1. inversion EK1; subst. reflexivity.
              ** rewrite (Ho _ Hni), HK in EK1. discriminate.
           ++ rewrite upd_ne, count_occ_snoc_ne by assumption. apply Hn; auto.
              apply elem_of_app in Hin as [?|Hin]; [assumption|]. apply elem_of_list_singleton in Hin. congruence.
        -- intros k' kr Hin HK Hcn. destruct (decide (k = k')) as [<-|Hne].
           ++ rewrite upd_eq, count_occ_snoc_eq, replicate_S_snoc, app_assoc. do 2 f_equal.
              destruct (decide (k ∈ ks)) as [Hi|Hni].
              ** rewrite (Hp _ _ Hi HK Hcn) in EK1. inversion EK1; subst. reflexivity.
              ** rewrite (Ho _ Hni), HK in EK1. inversion EK1; subst.
                 rewrite count_occ_0_notin by assumption. cbn. rewrite app_nil_r. reflexivity.
           ++ rewrite upd_ne, count_occ_snoc_ne by assumption. apply Hp; auto.
              apply elem_of_app in Hin as [?|Hin]; [assumption|]. apply elem_of_list_singleton in Hin. congruence.
        -- intros k'. rewrite Ht. split; intros [H1 H2]; split; auto.
           ++ apply elem_of_app; auto.
           ++ apply elem_of_app in H1 as [H1|H1]; [assumption|].
              apply elem_of_list_singleton in H1 as ->.
              destruct (decide (k ∈ ks)) as [Hi|Hni]; [assumption|].
              rewrite (Ho _ Hni), H2 in EK1. discriminate.
        -- exact Hnd.
        -- rewrite cntb_app. cbn. rewrite HcK. cbn. rewrite Hb. lia.
    + (* unknown in K1: unknown in K and not seen before *)
      assert (HK : K k = None).
      { destruct (K k) as [kr|] eqn:EK; [|reflexivity].
        destruct (cache kr) eqn:Ec0.
        - assert (Hx : cachedK K k = true) by (unfold cachedK; rewrite EK, Ec0; reflexivity).
          rewrite (Hc _ Hx), EK in EK1. discriminate.
        - destruct (decide (k ∈ ks)) as [Hi|Hni].
          + rewrite (Hp _ _ Hi EK Ec0) in EK1. discriminate.
          + rewrite (Ho _ Hni), EK in EK1. discriminate. }
      assert (Hni : k ∉ ks).
      { intros Hi. rewrite (Hn _ Hi HK) in EK1. discriminate. }
      assert (HcK : cachedK K k = false) by (unfold cachedK; rewrite HK; reflexivity).
      split.
      -- intros k' H. assert (k <> k') by (intros ->; apply H; apply elem_of_app; right; constructor).
         rewrite upd_ne by assumption. apply Ho. intros Hin. apply H. apply elem_of_app. auto.
      -- intros k' H. assert (k <> k') by (intros ->; congruence).
         rewrite upd_ne by assumption. auto.
      -- intros k' Hin HK'. destruct (decide (k = k')) as [<-|Hne].
         ++ rewrite upd_eq, count_occ_snoc_eq, count_occ_0_notin by assumption. reflexivity.
         ++ rewrite upd_ne, count_occ_snoc_ne by assumption. apply Hn; auto.
            apply elem_of_app in Hin as [?|Hin]; [assumption|]. apply elem_of_list_singleton in Hin. congruence.
      -- intros k' kr Hin HK' Hcn. destruct (decide (k = k')) as [<-|Hne]; [congruence|].
         rewrite upd_ne, count_occ_snoc_ne by assumption. apply Hp; auto.
         apply elem_of_app in Hin as [?|Hin]; [assumption|]. apply elem_of_list_singleton in Hin. congruence.
      -- intros k'. rewrite elem_of_app, Ht, elem_of_app, elem_of_list_singleton. split.
         ++ intros [[H1 H2]|H1]; [auto|]. subst k'. auto.
         ++ intros [[H1|H1] H2]; [auto|]. subst k'. auto.
      -- apply NoDup_app. split; [exact Hnd|]. split; [|apply NoDup_singleton].
         intros k' H1 H2. apply elem_of_list_singleton in H2 as ->. apply Ht in H1 as [H1 _]. contradiction.
      -- rewrite cntb_app. cbn. rewrite HcK. cbn. rewrite Hb. lia.
Qed.

(* ---- the loop of set ---- *)
Definition cnt (bl : list id) (t : id) : nat := count_occ N.eq_dec bl t.

Definition notified (r : trec) (n : nat) : trec :=
  match n with
  | O => r
  | _ => mkT (blockers r - Z.of_nat n) (if (blockers r - Z.of_nat n =? 0)%Z then WClosed else waiter r) (tkeys r)
  end.

Lemma notify_gen bl : forall T brk,
  (forall t, In t bl -> exists r, T t = Some r /\ waiter r = WOpen /\ (Z.of_nat (cnt bl t) <= blockers r)%Z) ->
  exists T', fold_left dec_one bl (T, brk) = (T', brk) /\
             forall t, T' t = match T t with Some r => Some (notified r (cnt bl t)) | None => None end.
Proof.
  induction bl as [|t0 bl IH]; intros T brk Hpre.
  - exists T. split; [reflexivity|]. intros t. cbn. destruct (T t); reflexivity.
  - destruct (Hpre t0 (or_introl eq_refl)) as (r0 & HT0 & Hw0 & Hc0).
    assert (Hc0' : (Z.of_nat (cnt bl t0) + 1 <= blockers r0)%Z).
    { unfold cnt in *. cbn in Hc0. destruct (N.eq_dec t0 t0); [lia|congruence]. }
    cbn [fold_left]. unfold dec_one at 2. rewrite HT0, Hw0.
    set (T1 := upd T t0 (Some (mkT (blockers r0 - 1) (if (blockers r0 - 1 =? 0)%Z then WClosed else WOpen) (tkeys r0)))).
    assert (Hstep : (if (blockers r0 - 1 =? 0)%Z
                     then (upd T t0 (Some (mkT (blockers r0 - 1) WClosed (tkeys r0))), brk)
                     else (upd T t0 (Some (mkT (blockers r0 - 1) WOpen (tkeys r0))), brk)) = (T1, brk)).
    { unfold T1. destruct (blockers r0 - 1 =? 0)%Z; reflexivity. }
    rewrite Hstep. clear Hstep.
    destruct (IH T1 brk) as (T' & Hf & HT').
    { intros t Hin. destruct (N.eq_dec t0 t) as [<-|Hne].
      - unfold T1. rewrite upd_eq. eexists. split; [reflexivity|]. cbn.
        assert (0 < cnt bl t0) by (unfold cnt; apply count_occ_In; exact Hin).
        destruct (Z.eqb_spec (blockers r0 - 1) 0); [lia|]. split; [reflexivity|lia].
      - unfold T1. rewrite upd_ne by assumption.
        destruct (Hpre t (or_intror Hin)) as (r & HT & Hw & Hc). exists r. split; [exact HT|]. split; [exact Hw|].
        unfold cnt in *. cbn in Hc. destruct (N.eq_dec t0 t); [congruence|lia]. }
    exists T'. split; [exact Hf|]. intros t. rewrite HT'. destruct (N.eq_dec t0 t) as [<-|Hne].
    + unfold T1. rewrite upd_eq, HT0. f_equal. unfold cnt. cbn [count_occ]. destruct (N.eq_dec t0 t0); [|congruence].
      fold (cnt bl t0). unfold notified. cbn [blockers waiter tkeys].
      destruct (cnt bl t0) as [|n] eqn:En.
      * change (Z.of_nat 1) with 1%Z. rewrite Hw0. reflexivity.
      * destruct (Z.eqb_spec (blockers r0 - 1) 0); [lia|]. rewrite Hw0.
        replace (blockers r0 - 1 - Z.of_nat (S n))%Z with (blockers r0 - Z.of_nat (S (S n)))%Z by lia. reflexivity.
    + unfold T1. rewrite upd_ne by assumption. destruct (T t); [|reflexivity]. f_equal.
      unfold cnt. cbn [count_occ]. destruct (N.eq_dec t0 t); [congruence|reflexivity].
Qed.

Lemma notify_spec T bl :
  (forall t, In t bl -> exists r, T t = Some r /\ waiter r = WOpen /\ (Z.of_nat (cnt bl t) <= blockers r)%Z) ->
  exists T', notify T bl = (T', false) /\
             forall t, T' t = match T t with Some r => Some (notified r (cnt bl t)) | None => None end.
Proof. apply notify_gen. Qed.

(* ============================================================================ tactics *)
Ltac des_step H :=
  repeat match type of H with
  | match ?x with _ => _ end = Some _ => let E := fresh "E" in destruct x eqn:E; try discriminate H
  | (if ?x then _ else _) = Some _ => let E := fresh "E" in destruct x eqn:E; try discriminate H
  end;
  try (injection H as H; subst).

Lemma all_exited_spec l : all_exited l = true <-> forall w p, l !! w = Some p -> p = WExit.
Proof.
  unfold all_exited. rewrite forallb_forall. split.
  - intros H w p Hl. apply elem_of_list_lookup_2, elem_of_list_In in Hl. specialize (H _ Hl). destruct p; congruence.
  - intros H p Hin. apply elem_of_list_In, elem_of_list_lookup_1 in Hin as [w Hl]. rewrite (H _ _ Hl). reflexivity.
Qed.

Lemma all_exited_not l w p : l !! w = Some p -> p <> WExit -> all_exited l = true -> False.
Proof. intros Hl Hp H. apply Hp. eapply all_exited_spec; eauto. Qed.

Lemma ins_lookup (l : list wphase) w p w' q :
  <[w := p]> l !! w' = Some q -> (w = w' /\ q = p /\ w < length l) \/ (w <> w' /\ l !! w' = Some q).
Proof.
  intros H. destruct (decide (w = w')) as [<-|Hne].
  - left. assert (w < length l). { apply lookup_lt_Some in H. rewrite insert_length in H. exact H. }
    rewrite list_lookup_insert in H by assumption. inversion H. auto.
  - right. rewrite list_lookup_insert_ne in H by assumption. auto.
Qed.

(* ============================================================================ group A: error machinery *)
Record InvA (c : cfg) (s : state) : Prop := {
  a_len : length (ws s) = c_nw c;
  a_stop : stop s = true -> err s <> None /\ onc s = ODone;
  a_run : forall o, onc s = ORun o -> err s <> None /\ forall w, o = Some w -> ws s !! w = Some WClosing;
  a_closing : forall w, ws s !! w = Some WClosing -> onc s = ORun (Some w);
  a_new : onc s = ONew -> err s = None;
  a_done : onc s = ODone -> stop s = true \/ all_exited (ws s) = true;
  a_exit : forall w, ws s !! w = Some WExit -> stop s = true \/ (tclosed s = true /\ queue s = []);
  a_tclosed : tclosed s = true -> unsent s = [];
  a_unsent : forall i k, (i, k) ∈ unsent s -> exists t, fph s i = FSend t
}.

Lemma invA_init c : InvA c (init c).
Proof.
  split; cbn; try discriminate; try congruence.
  - apply replicate_length.
  - intros w H. apply lookup_replicate in H as [H _]. discriminate.
  - intros w H. apply lookup_replicate in H as [H _]. discriminate.
  - intros i k H. inversion H.
Qed.

Ltac ins_cases :=
  repeat match goal with
  | H : <[_ := _]> _ !! _ = Some _ |- _ => apply ins_lookup in H as [(? & ? & ?)|(? & H)]
  end.

Ltac solveA IA :=
  destruct IA as [Hlen Hstop Hrun Hclosing Hnew Hdone Hexit Htc Hun];
  split; cbn [keys txs err onc stop tclosed queue unsent fph gph ws dupid broken log set_w set_ws set_fph set_gph] in *.

Ltac not_exited :=
  exfalso; match goal with
  | Hx : all_exited (ws ?s) = true, E : ws ?s !! _ = Some _ |- _ =>
      eapply all_exited_not; [exact E | discriminate | exact Hx]
  end.

Lemma invA_step c s l s' : InvA c s -> step c s l = Some s' -> InvA c s'.
Proof.
  intros IA H. destruct l; cbn [step] in H; des_step H; solveA IA.
  all: try (rewrite insert_length; exact Hlen).
  all: try exact Hlen.
  all: try exact Hstop. all: try exact Hnew. all: try exact Htc. all: try exact Hdone. all: try exact Hexit.
  all: try exact Hrun. all: try exact Hclosing. all: try exact Hun.
  all: try (intros; discriminate).
  (* a_done with a worker that was not exited *)
  all: try (intros Hd; first [destruct (Hdone Hd) as [?|Hx] | destruct (Hdone eq_refl) as [?|Hx]];
            [left; assumption|not_exited]).
  (* a_run / a_closing / a_exit after a worker moved *)
  all: try (intros o Ho; destruct (Hrun o Ho) as [He Hw]; split; [exact He|]; intros w0 ->;
            specialize (Hw _ eq_refl);
            match goal with E : ws _ !! ?w = Some _ |- _ =>
              assert (w <> w0) by (intros ->; rewrite Hw in E; discriminate E) end;
            rewrite list_lookup_insert_ne by assumption; exact Hw).
  all: try (intros w0 Hw0; ins_cases; subst; try discriminate; try (destruct (is_fail c k); discriminate);
            first [apply Hclosing; assumption
                  | destruct (Hexit _ Hw0) as [?|[? Hq]]; [left; assumption|right; split; congruence]
                  | destruct (Hexit _ Hw0) as [?|[? Hq]]; [left; assumption|congruence] ]).
  (* LFetch refused *)
  - intros i0 k0 Hin. destruct (Hun _ _ Hin) as [t0 Ht0]. exists t0. rewrite upd_ne; [exact Ht0|]. intros ->. congruence.
  (* LFetch *)
  - rewrite E1 in Hstop. exact Hstop.
  - rewrite E1 in Hrun. exact Hrun.
  - reflexivity.
  - intros i0 k0 Hin. apply elem_of_app in Hin as [Hin|Hin].
    + destruct (Hun _ _ Hin) as [t0 Ht0]. destruct (decide (i = i0)) as [<-|Hne].
      * exists t. apply upd_eq.
      * exists t0. rewrite upd_ne by assumption. exact Ht0.
    + apply elem_of_list_fmap in Hin as (k1 & Heq & _). inversion Heq; subst. exists t. apply upd_eq.
  (* LSend *)
  - intros w0 Hw0. destruct (Hexit _ Hw0) as [?|[Htc' _]]; [left; assumption|].
    match goal with Hp : pop_first _ _ = Some _ |- _ => rewrite (Htc Htc') in Hp; discriminate Hp end.
  - intros Htc'. match goal with Hp : pop_first _ _ = Some _ |- _ => rewrite (Htc Htc') in Hp; discriminate Hp end.
  - intros i0 k0 Hin. apply (Hun i0 k0).
    match goal with Hp : pop_first _ _ = Some _ |- _ => rewrite (pop_first_perm _ _ _ _ Hp) end. right. exact Hin.
  (* LSendStop *)
  - intros _. apply Hstop. assumption.
  - intros _. left. reflexivity.
  - intros w0 _. left. reflexivity.
  - intros Htc'. rewrite (Htc Htc'). reflexivity.
  - intros i0 k0 Hin. apply elem_of_list_filter in Hin as [Hm Hin]. unfold mine in Hm. cbn in Hm.
    destruct (Hun _ _ Hin) as [t0 Ht0]. exists t0. rewrite upd_ne; [exact Ht0|].
    intros <-. rewrite Nat.eqb_refl in Hm. exact Hm.
  (* LFetchRet *)
  - intros i0 k0 Hin. destruct (Hun _ _ Hin) as [t0 Ht0]. exists t0. rewrite upd_ne; [exact Ht0|].
    intros <-. eapply pop_first_none; eauto.
  (* LExit *)
  - intros w0 Hw0. ins_cases; subst.
    + match goal with Hc : (_ || _) = true |- _ => apply orb_true_iff in Hc as [?|Hc]; [left; assumption|];
        apply andb_true_iff in Hc as [? Hq] end.
      right. split; [assumption|]. destruct (queue s); [reflexivity|discriminate].
    + apply Hexit in Hw0. exact Hw0.
  (* LSet *)
  - intros o0 Ho. destruct (Hrun o0 Ho) as [He Hw]. split; [exact He|]. intros w0 ->. specialize (Hw _ eq_refl).
    rewrite list_lookup_insert_ne; [exact Hw|]. intros ->.
    match goal with E : ws s !! _ = Some (WGot _ _) |- _ => rewrite Hw in E; discriminate E end.
  (* LErrSet *)
  - intros Hs. destruct (Hstop Hs) as [_ Ho]. congruence.
  - intros o Ho. inversion Ho; subst. split; [discriminate|]. intros w0 Hw0. inversion Hw0; subst.
    apply list_lookup_insert. eapply lookup_lt_Some; eassumption.
  - intros w0 Hw0. ins_cases; subst; [reflexivity|]. apply Hclosing in Hw0. congruence.
  (* LErrSkip *)
  - intros w0 Hw0. ins_cases; subst.
    + match goal with Ho : onc s = ODone |- _ => destruct (Hdone Ho) as [?|Hx] end; [left; assumption|not_exited].
    + apply Hexit in Hw0. exact Hw0.
  (* LErrClose *)
  - destruct o; [rewrite insert_length|]; exact Hlen.
  - intros _. split; [|reflexivity]. match goal with Ho : onc s = ORun _ |- _ => apply (Hrun _ Ho) end.
  - intros w0 Hw0. exfalso. destruct o as [w1|].
    + ins_cases; subst; [discriminate|]. apply Hclosing in Hw0. congruence.
    + apply Hclosing in Hw0. congruence.
  - intros _. left. reflexivity.
  - intros w0 _. left. reflexivity.
  (* LStop *)
  - intros Hs. destruct (Hstop Hs) as [_ Ho]. congruence.
  - intros o Ho. inversion Ho; subst. split; discriminate.
  - intros w0 Hw0. apply Hclosing in Hw0. congruence.
  (* LWaitClose *)
  - reflexivity.
  - intros i0 k0 Hin. inversion Hin.
  (* LWaitRet *)
  - intros Hs. split; [apply Hstop; exact Hs|reflexivity].
  - intros w0 Hw0. apply Hclosing in Hw0. congruence.
  - intros _. right. match goal with Hc : (_ && _) = true |- _ => apply andb_true_iff in Hc as [_ Hc]; exact Hc end.
  - intros Hs. split; [apply Hstop; exact Hs|reflexivity].
  - intros w0 Hw0. apply Hclosing in Hw0. congruence.
  - intros _. right. match goal with Hc : (_ && _) = true |- _ => apply andb_true_iff in Hc as [_ Hc]; exact Hc end.
Qed.

(* ============================================================================ group B: task tokens *)
Definition pre (p : wphase) : list key := match p with WHas k => [k] | _ => [] end.
Definition readsl (l : list event) : list key :=
  rev (omap (fun e => match e with EvRead k => Some k | _ => None end) l).
Lemma reads_readsl s : reads s = readsl (log s).
Proof. reflexivity. Qed.
Lemma readsl_cons e l : readsl (e :: l) = readsl l ++ match e with EvRead k => [k] | _ => [] end.
Proof. unfold readsl. cbn. destruct e; cbn; rewrite ?app_nil_r; reflexivity. Qed.

Definition tc (s : state) (k : key) : nat :=
  cn (map snd (unsent s)) k + cn (queue s) k + cn (flat_map pre (ws s)) k + cn (readsl (log s)) k.

Lemma cn_pop i l k r k' : pop_first i l = Some (k, r) ->
  cn (map snd l) k' = (if decide (k = k') then 1 else 0) + cn (map snd r) k'.
Proof.
  revert k r. induction l as [|[j x] l IH]; intros k r H; cbn in H; [discriminate|].
  unfold mine in H. cbn in H. destruct (Nat.eqb_spec j i) as [->|Hne].
  - inversion H; subst. reflexivity.
  - destruct (pop_first i l) as [[k2 r2]|] eqn:E; [|discriminate]. inversion H; subst.
    cbn. rewrite (IH _ _ eq_refl). lia.
Qed.
Lemma cn_filter_le (f : nat * key -> bool) l k : cn (map snd (filter f l)) k <= cn (map snd l) k.
Proof.
  induction l as [|x l IH]; [reflexivity|]. rewrite filter_cons. destruct (decide (f x)); cbn; lia.
Qed.
Lemma flat_map_app' {A B} (f : A -> list B) l1 l2 : flat_map f (l1 ++ l2) = flat_map f l1 ++ flat_map f l2.
Proof. induction l1; cbn; [reflexivity|]. rewrite IHl1, app_assoc. reflexivity. Qed.
Lemma cn_ws_insert (l : list wphase) w q p k : l !! w = Some q ->
  cn (flat_map pre (<[w := p]> l)) k + cn (pre q) k = cn (flat_map pre l) k + cn (pre p) k.
Proof.
  intros H. assert (Hlt : w < length l) by (eapply lookup_lt_Some; eassumption).
  rewrite insert_take_drop by assumption. rewrite <- (take_drop_middle _ _ _ H) at 3.
  rewrite !flat_map_app'. cbn [flat_map]. rewrite !cn_app. lia.
Qed.
Lemma cn_ws_insert_le (l : list wphase) w p k : pre p = [] ->
  cn (flat_map pre (<[w := p]> l)) k <= cn (flat_map pre l) k.
Proof.
  intros Hp. destruct (l !! w) as [q|] eqn:E.
  - pose proof (cn_ws_insert l w q p k E) as H. rewrite Hp in H. cbn in H. lia.
  - rewrite list_insert_ge; [lia|]. apply lookup_ge_None. exact E.
Qed.

Lemma fk_mono t K ks K' tasks b k : fk_spec t K ks K' tasks b -> K' k = None -> K k = None.
Proof.
  intros [Ho Hc Hn Hp Ht Hnd Hb] H. destruct (K k) as [kr|] eqn:EK; [|reflexivity]. exfalso.
  destruct (cache kr) eqn:Ec.
  - assert (Hx : cachedK K k = true) by (unfold cachedK; rewrite EK, Ec; reflexivity).
    rewrite (Hc _ Hx), EK in H. discriminate.
  - destruct (decide (k ∈ ks)) as [Hi|Hni].
    + rewrite (Hp _ _ Hi EK Ec) in H. discriminate.
    + rewrite (Ho _ Hni), EK in H. discriminate.
Qed.
Lemma fk_cache_inv t K ks K' tasks b k kr r : fk_spec t K ks K' tasks b ->
  K' k = Some kr -> cache kr = Some r -> K k = Some kr.
Proof.
  intros [Ho Hc Hn Hp Ht Hnd Hb] H Hr. destruct (decide (k ∈ ks)) as [Hi|Hni]; [|rewrite <- (Ho _ Hni); exact H].
  destruct (K k) as [kr0|] eqn:EK.
  - destruct (cache kr0) eqn:Ec.
    + assert (Hx : cachedK K k = true) by (unfold cachedK; rewrite EK, Ec; reflexivity).
      rewrite (Hc _ Hx), EK in H. exact H.
    + rewrite (Hp _ _ Hi EK Ec) in H. inversion H; subst. discriminate.
  - rewrite (Hn _ Hi EK) in H. inversion H; subst. discriminate.
Qed.

Record InvB (c : cfg) (s : state) : Prop := {
  b_nd : forall k, tc s k <= 1;
  b_ent : forall k, keys s k = None -> tc s k = 0;
  b_wgot : forall w k r, ws s !! w = Some (WGot k r) -> k ∈ readsl (log s) /\ r = c_parent c !! k /\ is_fail c k = false;
  b_wfail : forall w k, ws s !! w = Some (WFail k) -> k ∈ readsl (log s) /\ is_fail c k = true;
  b_cache : forall k kr r, keys s k = Some kr -> cache kr = Some r ->
            k ∈ readsl (log s) /\ r = c_parent c !! k /\ is_fail c k = false
}.

Lemma flat_map_pre_idle n : flat_map pre (replicate n WIdle) = [].
Proof. induction n; cbn; auto. Qed.

Lemma invB_init c : InvB c (init c).
Proof.
  split; unfold tc; cbn; intros; try discriminate; rewrite ?flat_map_pre_idle; try reflexivity.
  - cbn. lia.
  - apply lookup_replicate in H as [H _]. discriminate.
  - apply lookup_replicate in H as [H _]. discriminate.
Qed.

Ltac solveB IB :=
  destruct IB as [Hnd Hent Hwgot Hwfail Hcache];
  split; unfold tc in *;
  cbn [keys txs err onc stop tclosed queue unsent fph gph ws dupid broken log set_w set_ws set_fph set_gph] in *.

Lemma map_snd_pair (i : nat) (l : list key) : map snd (map (fun k0 : key => (i, k0)) l) = l.
Proof. induction l; cbn; congruence. Qed.

Ltac ws_le k0 :=
  match goal with |- context [flat_map pre (<[?w := ?p]> ?l)] => pose proof (cn_ws_insert_le l w p k0 eq_refl) end.
Ltac tB_nd Hnd := let k0 := fresh "k0" in intros k0; ws_le k0; specialize (Hnd k0); lia.
Ltac tB_ent Hent := let k0 := fresh "k0" in let Hk := fresh "Hk" in
  intros k0 Hk; ws_le k0; specialize (Hent k0 Hk); lia.
Ltac tB_w Hwgot Hwfail := intros; ins_cases; subst; try discriminate;
  first [eapply Hwgot; eassumption | eapply Hwfail; eassumption].

Lemma invB_step c s l s' : InvB c s -> step c s l = Some s' -> InvB c s'.
Proof.
  intros IB H. destruct l; cbn [step] in H; des_step H; solveB IB.
  all: rewrite ?app_nil_l, ?readsl_cons, ?app_nil_r.
  all: try exact Hnd. all: try exact Hent. all: try exact Hwgot. all: try exact Hwfail. all: try exact Hcache.
  all: try tB_nd Hnd. all: try tB_ent Hent. all: try tB_w Hwgot Hwfail.
  (* LFetch *)
  - pose proof (fetch_keys_spec t (keys s) ks) as Hfk.
    match goal with E : fetch_keys _ _ _ = _ |- _ => rewrite E in Hfk end.
    intros k. rewrite map_app, map_snd_pair, cn_app.
    specialize (Hnd k). pose proof (nodup_cn l k (fk_nodup _ _ _ _ _ _ Hfk)).
    destruct (decide (k ∈ l)) as [Hi|Hni].
    + apply (fk_tasks _ _ _ _ _ _ Hfk) in Hi as [_ HK]. specialize (Hent k HK). lia.
    + rewrite (cn_0 _ _ Hni). lia.
  - pose proof (fetch_keys_spec t (keys s) ks) as Hfk.
    match goal with E : fetch_keys _ _ _ = _ |- _ => rewrite E in Hfk end.
    intros k Hk. rewrite map_app, map_snd_pair, cn_app.
    pose proof (fk_mono _ _ _ _ _ _ k Hfk Hk) as HK. specialize (Hent k HK).
    rewrite (cn_0 l k); [lia|]. intros Hi. apply (fk_tasks _ _ _ _ _ _ Hfk) in Hi as [Hi _].
    rewrite (fk_new _ _ _ _ _ _ Hfk _ Hi HK) in Hk. discriminate.
  - pose proof (fetch_keys_spec t (keys s) ks) as Hfk.
    match goal with E : fetch_keys _ _ _ = _ |- _ => rewrite E in Hfk end.
    intros k kr r Hk Hr. eapply Hcache; [|exact Hr]. eapply fk_cache_inv; eassumption.
  (* LSend *)
  - intros k0. specialize (Hnd k0).
    match goal with Hp : pop_first _ _ = Some _ |- _ => rewrite (cn_pop _ _ _ _ k0 Hp) in Hnd end.
    rewrite cn_app, cn_single. lia.
  - intros k0 Hk. specialize (Hent k0 Hk).
    match goal with Hp : pop_first _ _ = Some _ |- _ => rewrite (cn_pop _ _ _ _ k0 Hp) in Hent end.
    rewrite cn_app, cn_single. lia.
  (* LSendStop *)
  - intros k0. specialize (Hnd k0). pose proof (cn_filter_le (fun p => negb (mine i p)) (unsent s) k0) as Hf. cbn beta in Hf. lia.
  - intros k0 Hk. specialize (Hent k0 Hk). pose proof (cn_filter_le (fun p => negb (mine i p)) (unsent s) k0) as Hf. cbn beta in Hf. lia.
  (* LTake *)
  - intros k0. specialize (Hnd k0).
    match goal with Hq : queue s = _ |- _ => rewrite Hq in Hnd end.
    match goal with Hw : ws s !! _ = Some WIdle |- _ => pose proof (cn_ws_insert _ _ _ (WHas k) k0 Hw) as Hi end.
    cbn [pre cn] in *. lia.
  - intros k0 Hk. specialize (Hent k0 Hk).
    match goal with Hq : queue s = _ |- _ => rewrite Hq in Hent end.
    match goal with Hw : ws s !! _ = Some WIdle |- _ => pose proof (cn_ws_insert _ _ _ (WHas k) k0 Hw) as Hi end.
    cbn [pre cn] in *. lia.
  (* LRead *)
  - intros k0. specialize (Hnd k0).
    match goal with Hw : ws s !! _ = Some (WHas _) |- _ =>
      pose proof (cn_ws_insert _ _ _ (if is_fail c k then WFail k else WGot k (c_parent c !! k)) k0 Hw) as Hi end.
    rewrite cn_app. destruct (is_fail c k); cbn [pre cn] in *; lia.
  - intros k0 Hk. specialize (Hent k0 Hk).
    match goal with Hw : ws s !! _ = Some (WHas _) |- _ =>
      pose proof (cn_ws_insert _ _ _ (if is_fail c k then WFail k else WGot k (c_parent c !! k)) k0 Hw) as Hi end.
    rewrite cn_app. destruct (is_fail c k); cbn [pre cn] in *; lia.
  - intros w1 k1 r1 Hw1. ins_cases; subst.
    + destruct (is_fail c k) eqn:Ef; [discriminate|].
      match goal with Hq : WGot _ _ = WGot _ _ |- _ => inversion Hq; subst end.
      split; [apply elem_of_app; right; constructor|]. split; [reflexivity|exact Ef].
    + destruct (Hwgot _ _ _ Hw1) as (? & ? & ?). split; [apply elem_of_app; left; assumption|]. split; assumption.
  - intros w1 k1 Hw1. ins_cases; subst.
    + destruct (is_fail c k) eqn:Ef; [|discriminate].
      match goal with Hq : WFail _ = WFail _ |- _ => inversion Hq; subst end.
      split; [apply elem_of_app; right; constructor|exact Ef].
    + destruct (Hwfail _ _ Hw1) as (? & ?). split; [apply elem_of_app; left; assumption|assumption].
  - intros k1 kr1 r1 Hk Hr. destruct (Hcache _ _ _ Hk Hr) as (? & ? & ?).
    split; [apply elem_of_app; left; assumption|]. split; assumption.
  (* LSet *)
  - intros k1 Hk. unfold upd in Hk. destruct (decide (k = k1)); [discriminate|].
    ws_le k1. specialize (Hent k1 Hk). lia.
  - intros k1 kr1 r1 Hk Hr. unfold upd in Hk. destruct (decide (k = k1)) as [<-|Hne].
    + inversion Hk; subst. cbn in Hr. inversion Hr; subst. eapply Hwgot. eassumption.
    + eapply Hcache; eassumption.
  (* LErrClose *)
  - destruct o; [tB_nd Hnd|exact Hnd].
  - destruct o; [tB_ent Hent|exact Hent].
  - destruct o; [tB_w Hwgot Hwfail|exact Hwgot].
  - destruct o; [tB_w Hwgot Hwfail|exact Hwfail].
  (* LWaitClose *)
  - match goal with Hq : unsent s = [] |- _ => rewrite Hq in Hnd end. exact Hnd.
  - match goal with Hq : unsent s = [] |- _ => rewrite Hq in Hent end. exact Hent.
Qed.

(* ============================================================================ reachable states *)
Lemma reach_AB c tr s : steps c (init c) tr s -> InvA c s /\ InvB c s.
Proof.
  revert tr s. apply (steps_ind_inv c (fun _ s => InvA c s /\ InvB c s)).
  - split; [apply invA_init|apply invB_init].
  - intros tr s l s' _ [IA IB] Hst. split; [eapply invA_step|eapply invB_step]; eassumption.
Qed.

(* every key with an entry was listed by a Fetch call of the trace *)
Lemma keys_listed c tr s : steps c (init c) tr s ->
  forall k, keys s k <> None -> exists i t ks, LFetch i t ks ∈ tr /\ k ∈ ks.
Proof.
  revert tr s.
  apply (steps_ind_inv c (fun tr s => forall k, keys s k <> None -> exists i t ks, LFetch i t ks ∈ tr /\ k ∈ ks)).
  - intros k H. exfalso. apply H. reflexivity.
  - intros tr s l s' _ IH Hst k Hk.
    assert (Hold : keys s k <> None -> exists i t ks, LFetch i t ks ∈ tr ++ [l] /\ k ∈ ks).
    { intros H. destruct (IH k H) as (i & t & ks & Hin & Hks). exists i, t, ks. split; [|exact Hks].
      apply elem_of_app. left. exact Hin. }
    destruct l; cbn [step] in Hst; des_step Hst;
      cbn [keys set_w set_ws set_fph set_gph] in Hk; try (apply Hold; exact Hk).
    + (* LFetch *)
      pose proof (fetch_keys_spec t (keys s) ks) as Hfk.
      match goal with E : fetch_keys _ _ _ = _ |- _ => rewrite E in Hfk end.
      destruct (decide (k ∈ ks)) as [Hi|Hni].
      * exists i, t, ks. split; [|exact Hi]. apply elem_of_app. right. constructor.
      * apply Hold. rewrite <- (fk_other _ _ _ _ _ _ Hfk _ Hni). exact Hk.
    + (* LSet *)
      apply Hold. unfold upd in Hk. destruct (decide (k0 = k)) as [<-|]; [congruence|exact Hk].
Qed.

Lemma reads_once c tr s : steps c (init c) tr s ->
  NoDup (reads s) /\ forall k, k ∈ reads s -> exists i t ks, LFetch i t ks ∈ tr /\ k ∈ ks.
Proof.
  intros Hs. destruct (reach_AB _ _ _ Hs) as [_ IB]. rewrite reads_readsl. split.
  - apply cn_nodup. intros k. pose proof (b_nd _ _ IB k) as H. unfold tc in H. lia.
  - intros k Hk. eapply keys_listed; [exact Hs|]. intros Hn.
    pose proof (b_ent _ _ IB k Hn) as H. unfold tc in H. apply cn_pos in Hk. lia.
Qed.
