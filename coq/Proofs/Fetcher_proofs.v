(* Fetcher_proofs.v — invariants of the fetcher LTS (Model/Fetcher.v) over all interleavings. *)
From stdpp Require Import gmap.
From Coq Require Import NArith ZArith Lia.
From HV Require Import Model.Keys Model.Fetcher.

(* ------------------------------------------------------------------------------------------ basics *)
Lemma upd_eq {A B} `{EqDecision A} (f : A -> B) x v : upd f x v x = v.
Proof. unfold upd. destruct (decide (x = x)); congruence. Qed.
Lemma upd_ne {A B} `{EqDecision A} (f : A -> B) x y v : x <> y -> upd f x v y = f y.
Proof. unfold upd. destruct (decide (x = y)); congruence. Qed.

Lemma steps_app_inv c s tr l s2 : steps c s (tr ++ [l]) s2 -> exists s1, steps c s tr s1 /\ step c s1 l = Some s2.
Proof.
  intros H. remember (tr ++ [l]) as tr0 eqn:E. destruct H as [|s tr' s1 l' s2 Hs Hst].
  - destruct tr; discriminate.
  - apply app_inj_tail in E as [-> ->]. eauto.
Qed.

(* induction principle for reachable states carrying the trace *)
Lemma steps_ind_inv c (P : list label -> state -> Prop) :
  P [] (init c) ->
  (forall tr s l s', steps c (init c) tr s -> P tr s -> step c s l = Some s' -> P (tr ++ [l]) s') ->
  forall tr s, steps c (init c) tr s -> P tr s.
Proof.
  intros H0 HS tr s H. remember (init c) as s0 eqn:E. induction H; subst; eauto.
Qed.

(* ---- pop_first ---- *)
Lemma pop_first_perm i l k r : pop_first i l = Some (k, r) -> l ≡ₚ (i, k) :: r.
Proof.
  revert k r. induction l as [|[j k'] l IH]; intros k r H; cbn in H; [discriminate|].
  unfold mine in H. cbn in H. destruct (Nat.eqb_spec j i) as [->|Hne].
  - inversion H; subst. reflexivity.
  - destruct (pop_first i l) as [[k2 r2]|] eqn:E; [|discriminate]. inversion H; subst.
    rewrite (IH _ _ eq_refl). apply Permutation_swap.
Qed.
Lemma pop_first_none i l : pop_first i l = None -> forall k, (i, k) ∉ l.
Proof.
  induction l as [|[j k'] l IH]; intros H k Hin; [inversion Hin|].
  cbn in H. unfold mine in H. cbn in H. destruct (Nat.eqb_spec j i) as [->|Hne]; [discriminate|].
  destruct (pop_first i l) as [[? ?]|] eqn:E; [discriminate|].
  apply elem_of_cons in Hin as [Heq|Hin]; [inversion Heq; congruence|]. eapply IH; eauto.
Qed.
Lemma pop_first_some i l k : (i, k) ∈ l -> pop_first i l <> None.
Proof.
  intros Hin Hn. eapply pop_first_none; eauto.
Qed.

(* ---- counting occurrences of a key ---- *)
Fixpoint cn (l : list key) (k : key) : nat :=
  match l with [] => 0 | x :: l' => (if decide (x = k) then 1 else 0) + cn l' k end.
Lemma cn_app l1 l2 k : cn (l1 ++ l2) k = cn l1 k + cn l2 k.
Proof. induction l1; cbn; lia. Qed.
Lemma cn_pos l k : 0 < cn l k <-> k ∈ l.
Proof.
  induction l as [|x l IH]; cbn.
  - split; [lia|]. intros H. inversion H.
  - rewrite elem_of_cons. destruct (decide (x = k)); split; intros; auto; try lia.
    + right. apply IH. lia.
    + destruct H as [->|H]; [congruence|]. apply IH in H. lia.
Qed.
Lemma cn_0 l k : k ∉ l -> cn l k = 0.
Proof. intros H. destruct (cn l k) eqn:E; [reflexivity|]. exfalso. apply H, cn_pos. lia. Qed.
Lemma cn_nodup l : (forall k, cn l k <= 1) -> NoDup l.
Proof.
  induction l as [|x l IH]; intros H; constructor.
  - intros Hin. apply cn_pos in Hin. specialize (H x). cbn in H. destruct (decide (x = x)); [lia|congruence].
  - apply IH. intros k. specialize (H k). cbn in H. lia.
Qed.
Lemma nodup_cn l k : NoDup l -> cn l k <= 1.
Proof.
  induction 1 as [|x l Hni Hnd IH]; cbn; [lia|]. destruct (decide (x = k)) as [->|]; [|lia].
  rewrite (cn_0 _ _ Hni). lia.
Qed.
Lemma cn_single x k : cn [x] k = if decide (x = k) then 1 else 0.
Proof. cbn. lia. Qed.

(* ---- the key loop of Fetch ---- *)
Fixpoint cntb {A} (f : A -> bool) (l : list A) : nat :=
  match l with [] => 0 | x :: l' => (if f x then 1 else 0) + cntb f l' end.
Lemma cntb_app {A} (f : A -> bool) l1 l2 : cntb f (l1 ++ l2) = cntb f l1 + cntb f l2.
Proof. induction l1; cbn; lia. Qed.
Lemma cntb_ext {A} (f g : A -> bool) l : (forall x, x ∈ l -> f x = g x) -> cntb f l = cntb g l.
Proof.
  induction l as [|x l IH]; intros H; cbn; [reflexivity|].
  rewrite (H x) by constructor. rewrite IH; [reflexivity|]. intros y Hy. apply H. constructor. exact Hy.
Qed.
Definition cachedK (K : key -> option krec) (k : key) : bool :=
  match K k with Some kr => match cache kr with Some _ => true | None => false end | None => false end.
Definition pendK (K : key -> option krec) (k : key) : bool :=
  match K k with Some kr => match cache kr with Some _ => false | None => true end | None => false end.

Lemma fetch_keys_snoc t K ks k : fetch_keys t K (ks ++ [k]) = fetch_key t (fetch_keys t K ks) k.
Proof. unfold fetch_keys. rewrite fold_left_app. reflexivity. Qed.

(* complete description of the result of the loop *)
Record fk_spec (t : id) (K : key -> option krec) (ks : list key) (K' : key -> option krec) (tasks : list key) (b : Z) : Prop := {
  fk_other : forall k, k ∉ ks -> K' k = K k;
  fk_cached : forall k, cachedK K k = true -> K' k = K k;
  fk_new : forall k, k ∈ ks -> K k = None -> K' k = Some (mkK None (replicate (cn ks k) t));
  fk_pend : forall k kr, k ∈ ks -> K k = Some kr -> cache kr = None ->
            K' k = Some (mkK None (blocked kr ++ replicate (cn ks k) t));
  fk_tasks : forall k, k ∈ tasks <-> k ∈ ks /\ K k = None;
  fk_nodup : NoDup tasks;
  fk_b : b = Z.of_nat (cntb (fun k => negb (cachedK K k)) ks)
}.

Lemma count_occ_snoc_eq (ks : list key) k : cn (ks ++ [k]) k = S (cn ks k).
Proof. rewrite cn_app. cbn. destruct (decide (k = k)); [lia|congruence]. Qed.
Lemma count_occ_snoc_ne (ks : list key) k k' : k <> k' -> cn (ks ++ [k]) k' = cn ks k'.
Proof. intros. rewrite cn_app. cbn. destruct (decide (k = k')); [congruence|lia]. Qed.
Lemma replicate_S_snoc {A} n (x : A) : replicate (S n) x = replicate n x ++ [x].
Proof. induction n; cbn; [reflexivity|]. f_equal. exact IHn. Qed.
Lemma count_occ_0_notin (ks : list key) k : k ∉ ks -> cn ks k = 0.
Proof. apply cn_0. Qed.

Lemma fetch_keys_spec t K ks :
  let '(K', tasks, b) := fetch_keys t K ks in fk_spec t K ks K' tasks b.
Proof.
  induction ks as [|k ks IH] using rev_ind.
  - cbn. split; intros; try reflexivity; try (exfalso; eapply not_elem_of_nil; eassumption).
    + split; [intros H; inversion H|intros [H _]; inversion H].
    + constructor.
  - rewrite fetch_keys_snoc. destruct (fetch_keys t K ks) as [[K1 tasks1] b1].
    destruct IH as [Ho Hc Hn Hp Ht Hnd Hb]. unfold fetch_key.
    destruct (K1 k) as [kr1|] eqn:EK1.
    + destruct (cache kr1) as [v|] eqn:Ec.
      * (* cached in K1: then cached in K (entries created by the loop are pending) *)
        assert (HcK : cachedK K k = true).
        { unfold cachedK. destruct (K k) as [kr|] eqn:EK.
          - destruct (cache kr) eqn:Ec0; [reflexivity|].
            destruct (decide (k ∈ ks)) as [Hin|Hni].
            + rewrite (Hp _ _ Hin EK Ec0) in EK1. inversion EK1; subst. discriminate.
            + rewrite (Ho _ Hni), EK in EK1. inversion EK1; subst. congruence.
          - destruct (decide (k ∈ ks)) as [Hin|Hni].
            + rewrite (Hn _ Hin EK) in EK1. inversion EK1; subst. discriminate.
            + rewrite (Ho _ Hni), EK in EK1. discriminate. }
        split.
        -- intros k' H. apply Ho. intros Hin. apply H. apply elem_of_app. auto.
        -- exact Hc.
        -- intros k' Hin HK. apply elem_of_app in Hin as [Hin|Hin].
           ++ assert (k <> k') by (intros ->; unfold cachedK in HcK; rewrite HK in HcK; discriminate).
              rewrite count_occ_snoc_ne by assumption. auto.
           ++ apply elem_of_list_singleton in Hin as ->. unfold cachedK in HcK. rewrite HK in HcK. discriminate.
        -- intros k' kr Hin HK Hcn. apply elem_of_app in Hin as [Hin|Hin].
           ++ assert (k <> k') by (intros ->; unfold cachedK in HcK; rewrite HK, Hcn in HcK; discriminate).
              rewrite count_occ_snoc_ne by assumption. eauto.
           ++ apply elem_of_list_singleton in Hin as ->. unfold cachedK in HcK. rewrite HK, Hcn in HcK. discriminate.
        -- intros k'. rewrite Ht. split; intros [H1 H2]; split; auto.
           ++ apply elem_of_app; auto.
           ++ apply elem_of_app in H1 as [H1|H1]; [assumption|].
              apply elem_of_list_singleton in H1 as ->. unfold cachedK in HcK. rewrite H2 in HcK. discriminate.
        -- exact Hnd.
        -- rewrite cntb_app. cbn. rewrite HcK. cbn. rewrite Hb. lia.
      * (* pending in K1 *)
        assert (HcK : cachedK K k = false).
        { unfold cachedK. destruct (K k) as [kr|] eqn:EK; [|reflexivity].
          destruct (cache kr) eqn:Ec0; [|reflexivity].
          assert (Hx : cachedK K k = true) by (unfold cachedK; rewrite EK, Ec0; reflexivity).
          rewrite (Hc _ Hx), EK in EK1. inversion EK1; subst. congruence. }
        assert (HK1 : K1 k = Some (mkK None (blocked kr1))).
        { rewrite EK1. destruct kr1; cbn in *; subst; reflexivity. }
        split.
        -- intros k' H. assert (k <> k') by (intros ->; apply H; apply elem_of_app; right; constructor).
           rewrite upd_ne by assumption. apply Ho. intros Hin. apply H. apply elem_of_app. auto.
        -- intros k' H. assert (k <> k') by (intros ->; congruence).
           rewrite upd_ne by assumption. auto.
        -- intros k' Hin HK. destruct (decide (k = k')) as [<-|Hne].
           ++ rewrite upd_eq, count_occ_snoc_eq, replicate_S_snoc. do 2 f_equal.
              destruct (decide (k ∈ ks)) as [Hi|Hni].
              ** rewrite (Hn _ Hi HK) in EK1. inversion EK1; subst. reflexivity.
              ** rewrite (Ho _ Hni), HK in EK1. discriminate.
           ++ rewrite upd_ne, count_occ_snoc_ne by assumption. apply Hn; auto.
              apply elem_of_app in Hin as [?|Hin]; [assumption|]. apply elem_of_list_singleton in Hin. congruence.
        -- intros k' kr Hin HK Hcn. destruct (decide (k = k')) as [<-|Hne].
           ++ rewrite upd_eq, count_occ_snoc_eq, replicate_S_snoc, app_assoc. do 2 f_equal.
              destruct (decide (k ∈ ks)) as [Hi|Hni].
              ** rewrite (Hp _ _ Hi HK Hcn) in EK1. inversion EK1; subst. reflexivity.
              ** rewrite (Ho _ Hni), HK in EK1. inversion EK1; subst.
                 rewrite count_occ_0_notin by assumption. cbn. rewrite app_nil_r. reflexivity.
           ++ rewrite upd_ne, count_occ_snoc_ne by assumption. apply Hp; auto.
              apply elem_of_app in Hin as [?|Hin]; [assumption|]. apply elem_of_list_singleton in Hin. congruence.
        -- intros k'. rewrite Ht. split; intros [H1 H2]; split; auto.
           ++ apply elem_of_app; auto.
           ++ apply elem_of_app in H1 as [H1|H1]; [assumption|].
              apply elem_of_list_singleton in H1 as ->.
              destruct (decide (k ∈ ks)) as [Hi|Hni]; [assumption|].
              rewrite (Ho _ Hni), H2 in EK1. discriminate.
        -- exact Hnd.
        -- rewrite cntb_app. cbn. rewrite HcK. cbn. rewrite Hb. lia.
    + (* unknown in K1: unknown in K and not seen before *)
      assert (HK : K k = None).
      { destruct (K k) as [kr|] eqn:EK; [|reflexivity].
        destruct (cache kr) eqn:Ec0.
        - assert (Hx : cachedK K k = true) by (unfold cachedK; rewrite EK, Ec0; reflexivity).
          rewrite (Hc _ Hx), EK in EK1. discriminate.
        - destruct (decide (k ∈ ks)) as [Hi|Hni].
          + rewrite (Hp _ _ Hi EK Ec0) in EK1. discriminate.
          + rewrite (Ho _ Hni), EK in EK1. discriminate. }
      assert (Hni : k ∉ ks).
      { intros Hi. rewrite (Hn _ Hi HK) in EK1. discriminate. }
      assert (HcK : cachedK K k = false) by (unfold cachedK; rewrite HK; reflexivity).
      split.
      -- intros k' H. assert (k <> k') by (intros ->; apply H; apply elem_of_app; right; constructor).
         rewrite upd_ne by assumption. apply Ho. intros Hin. apply H. apply elem_of_app. auto.
      -- intros k' H. assert (k <> k') by (intros ->; congruence).
         rewrite upd_ne by assumption. auto.
      -- intros k' Hin HK'. destruct (decide (k = k')) as [<-|Hne].
         ++ rewrite upd_eq, count_occ_snoc_eq, count_occ_0_notin by assumption. reflexivity.
         ++ rewrite upd_ne, count_occ_snoc_ne by assumption. apply Hn; auto.
            apply elem_of_app in Hin as [?|Hin]; [assumption|]. apply elem_of_list_singleton in Hin. congruence.
      -- intros k' kr Hin HK' Hcn. destruct (decide (k = k')) as [<-|Hne]; [congruence|].
         rewrite upd_ne, count_occ_snoc_ne by assumption. apply Hp; auto.
         apply elem_of_app in Hin as [?|Hin]; [assumption|]. apply elem_of_list_singleton in Hin. congruence.
      -- intros k'. rewrite elem_of_app, Ht, elem_of_app, elem_of_list_singleton. split.
         ++ intros [[H1 H2]|H1]; [auto|]. subst k'. auto.
         ++ intros [[H1|H1] H2]; [auto|]. subst k'. auto.
      -- apply NoDup_app. split; [exact Hnd|]. split; [|apply NoDup_singleton].
         intros k' H1 H2. apply elem_of_list_singleton in H2 as ->. apply Ht in H1 as [H1 _]. contradiction.
      -- rewrite cntb_app. cbn. rewrite HcK. cbn. rewrite Hb. lia.
Qed.

(* ---- the loop of set ---- *)
Definition cnt (bl : list id) (t : id) : nat := count_occ N.eq_dec bl t.

Definition notified (r : trec) (n : nat) : trec :=
  match n with
  | O => r
  | _ => mkT (blockers r - Z.of_nat n) (if (blockers r - Z.of_nat n =? 0)%Z then WClosed else waiter r) (tkeys r)
  end.

Lemma notify_gen bl : forall T brk,
  (forall t, In t bl -> exists r, T t = Some r /\ waiter r = WOpen /\ (Z.of_nat (cnt bl t) <= blockers r)%Z) ->
  exists T', fold_left dec_one bl (T, brk) = (T', brk) /\
             forall t, T' t = match T t with Some r => Some (notified r (cnt bl t)) | None => None end.
Proof.
  induction bl as [|t0 bl IH]; intros T brk Hpre.
  - exists T. split; [reflexivity|]. intros t. cbn. destruct (T t); reflexivity.
  - destruct (Hpre t0 (or_introl eq_refl)) as (r0 & HT0 & Hw0 & Hc0).
    assert (Hc0' : (Z.of_nat (cnt bl t0) + 1 <= blockers r0)%Z).
    { unfold cnt in *. cbn in Hc0. destruct (N.eq_dec t0 t0); [lia|congruence]. }
    cbn [fold_left]. unfold dec_one at 2. rewrite HT0, Hw0.
    set (T1 := upd T t0 (Some (mkT (blockers r0 - 1) (if (blockers r0 - 1 =? 0)%Z then WClosed else WOpen) (tkeys r0)))).
    assert (Hstep : (if (blockers r0 - 1 =? 0)%Z
                     then (upd T t0 (Some (mkT (blockers r0 - 1) WClosed (tkeys r0))), brk)
                     else (upd T t0 (Some (mkT (blockers r0 - 1) WOpen (tkeys r0))), brk)) = (T1, brk)).
    { unfold T1. destruct (blockers r0 - 1 =? 0)%Z; reflexivity. }
    rewrite Hstep. clear Hstep.
    destruct (IH T1 brk) as (T' & Hf & HT').
    { intros t Hin. destruct (N.eq_dec t0 t) as [<-|Hne].
      - unfold T1. rewrite upd_eq. eexists. split; [reflexivity|]. cbn.
        assert (0 < cnt bl t0) by (unfold cnt; apply count_occ_In; exact Hin).
        destruct (Z.eqb_spec (blockers r0 - 1) 0); [lia|]. split; [reflexivity|lia].
      - unfold T1. rewrite upd_ne by assumption.
        destruct (Hpre t (or_intror Hin)) as (r & HT & Hw & Hc). exists r. split; [exact HT|]. split; [exact Hw|].
        unfold cnt in *. cbn in Hc. destruct (N.eq_dec t0 t); [congruence|lia]. }
    exists T'. split; [exact Hf|]. intros t. rewrite HT'. destruct (N.eq_dec t0 t) as [<-|Hne].
    + unfold T1. rewrite upd_eq, HT0. f_equal. unfold cnt. cbn [count_occ]. destruct (N.eq_dec t0 t0); [|congruence].
      fold (cnt bl t0). unfold notified. cbn [blockers waiter tkeys].
      destruct (cnt bl t0) as [|n] eqn:En.
      * change (Z.of_nat 1) with 1%Z. rewrite Hw0. reflexivity.
      * destruct (Z.eqb_spec (blockers r0 - 1) 0); [lia|]. rewrite Hw0.
        replace (blockers r0 - 1 - Z.of_nat (S n))%Z with (blockers r0 - Z.of_nat (S (S n)))%Z by lia. reflexivity.
    + unfold T1. rewrite upd_ne by assumption. destruct (T t); [|reflexivity]. f_equal.
      unfold cnt. cbn [count_occ]. destruct (N.eq_dec t0 t); [congruence|reflexivity].
Qed.

Lemma notify_spec T bl :
  (forall t, In t bl -> exists r, T t = Some r /\ waiter r = WOpen /\ (Z.of_nat (cnt bl t) <= blockers r)%Z) ->
  exists T', notify T bl = (T', false) /\
             forall t, T' t = match T t with Some r => Some (notified r (cnt bl t)) | None => None end.
Proof. apply notify_gen. Qed.

(* ============================================================================ tactics *)
Ltac des_step H :=
  repeat match type of H with
  | match ?x with _ => _ end = Some _ => let E := fresh "E" in destruct x eqn:E; try discriminate H
  | (if ?x then _ else _) = Some _ => let E := fresh "E" in destruct x eqn:E; try discriminate H
  end;
  try (injection H as H; subst).

Lemma all_exited_spec l : all_exited l = true <-> forall w p, l !! w = Some p -> p = WExit.
Proof.
  unfold all_exited. rewrite forallb_forall. split.
  - intros H w p Hl. apply elem_of_list_lookup_2, elem_of_list_In in Hl. specialize (H _ Hl). destruct p; congruence.
  - intros H p Hin. apply elem_of_list_In, elem_of_list_lookup_1 in Hin as [w Hl]. rewrite (H _ _ Hl). reflexivity.
Qed.

Lemma all_exited_not l w p : l !! w = Some p -> p <> WExit -> all_exited l = true -> False.
Proof. intros Hl Hp H. apply Hp. eapply all_exited_spec; eauto. Qed.

Lemma ins_lookup (l : list wphase) w p w' q :
  <[w := p]> l !! w' = Some q -> (w = w' /\ q = p /\ w < length l) \/ (w <> w' /\ l !! w' = Some q).
Proof.
  intros H. destruct (decide (w = w')) as [<-|Hne].
  - left. assert (w < length l). { apply lookup_lt_Some in H. rewrite insert_length in H. exact H. }
    rewrite list_lookup_insert in H by assumption. inversion H. auto.
  - right. rewrite list_lookup_insert_ne in H by assumption. auto.
Qed.

(* ============================================================================ group A: error machinery *)
Record InvA (c : cfg) (s : state) : Prop := {
  a_len : length (ws s) = c_nw c;
  a_stop : stop s = true -> err s <> None /\ onc s = ODone;
  a_run : forall o, onc s = ORun o -> err s <> None /\ forall w, o = Some w -> ws s !! w = Some WClosing;
  a_closing : forall w, ws s !! w = Some WClosing -> onc s = ORun (Some w);
  a_new : onc s = ONew -> err s = None;
  a_done : onc s = ODone -> stop s = true \/ all_exited (ws s) = true;
  a_exit : forall w, ws s !! w = Some WExit -> stop s = true \/ (tclosed s = true /\ queue s = []);
  a_tclosed : tclosed s = true -> unsent s = [];
  a_unsent : forall i k, (i, k) ∈ unsent s -> exists t, fph s i = FSend t
}.

Lemma invA_init c : InvA c (init c).
Proof.
  split; cbn; try discriminate; try congruence.
  - apply replicate_length.
  - intros w H. apply lookup_replicate in H as [H _]. discriminate.
  - intros w H. apply lookup_replicate in H as [H _]. discriminate.
  - intros i k H. inversion H.
Qed.

Ltac ins_cases :=
  repeat match goal with
  | H : <[_ := _]> _ !! _ = Some _ |- _ => apply ins_lookup in H as [(? & ? & ?)|(? & H)]
  end.

Ltac solveA IA :=
  destruct IA as [Hlen Hstop Hrun Hclosing Hnew Hdone Hexit Htc Hun];
  split; cbn [keys txs err onc stop tclosed queue unsent fph gph ws dupid broken log set_w set_ws set_fph set_gph] in *.

Ltac not_exited :=
  exfalso; match goal with
  | Hx : all_exited (ws ?s) = true, E : ws ?s !! _ = Some _ |- _ =>
      eapply all_exited_not; [exact E | discriminate | exact Hx]
  end.

Lemma invA_step c s l s' : InvA c s -> step c s l = Some s' -> InvA c s'.
Proof.
  intros IA H. destruct l; cbn [step] in H; des_step H; solveA IA.
  all: try (rewrite insert_length; exact Hlen).
  all: try exact Hlen.
  all: try exact Hstop. all: try exact Hnew. all: try exact Htc. all: try exact Hdone. all: try exact Hexit.
  all: try exact Hrun. all: try exact Hclosing. all: try exact Hun.
  all: try (intros; discriminate).
  (* a_done with a worker that was not exited *)
  all: try (intros Hd; first [destruct (Hdone Hd) as [?|Hx] | destruct (Hdone eq_refl) as [?|Hx]];
            [left; assumption|not_exited]).
  (* a_run / a_closing / a_exit after a worker moved *)
  all: try (intros o Ho; destruct (Hrun o Ho) as [He Hw]; split; [exact He|]; intros w0 ->;
            specialize (Hw _ eq_refl);
            match goal with E : ws _ !! ?w = Some _ |- _ =>
              assert (w <> w0) by (intros ->; rewrite Hw in E; discriminate E) end;
            rewrite list_lookup_insert_ne by assumption; exact Hw).
  all: try (intros w0 Hw0; ins_cases; subst; try discriminate; try (destruct (is_fail c k); discriminate);
            first [apply Hclosing; assumption
                  | destruct (Hexit _ Hw0) as [?|[? Hq]]; [left; assumption|right; split; congruence]
                  | destruct (Hexit _ Hw0) as [?|[? Hq]]; [left; assumption|congruence] ]).
  (* LFetch refused *)
  - intros i0 k0 Hin. destruct (Hun _ _ Hin) as [t0 Ht0]. exists t0. rewrite upd_ne; [exact Ht0|]. intros ->. congruence.
  (* LFetch *)
  - rewrite E1 in Hstop. exact Hstop.
  - rewrite E1 in Hrun. exact Hrun.
  - reflexivity.
  - intros i0 k0 Hin. apply elem_of_app in Hin as [Hin|Hin].
    + destruct (Hun _ _ Hin) as [t0 Ht0]. destruct (decide (i = i0)) as [<-|Hne].
      * exists t. apply upd_eq.
      * exists t0. rewrite upd_ne by assumption. exact Ht0.
    + apply elem_of_list_fmap in Hin as (k1 & Heq & _). inversion Heq; subst. exists t. apply upd_eq.
  (* LSend *)
  - intros w0 Hw0. destruct (Hexit _ Hw0) as [?|[Htc' _]]; [left; assumption|].
    match goal with Hp : pop_first _ _ = Some _ |- _ => rewrite (Htc Htc') in Hp; discriminate Hp end.
  - intros Htc'. match goal with Hp : pop_first _ _ = Some _ |- _ => rewrite (Htc Htc') in Hp; discriminate Hp end.
  - intros i0 k0 Hin. apply (Hun i0 k0).
    match goal with Hp : pop_first _ _ = Some _ |- _ => rewrite (pop_first_perm _ _ _ _ Hp) end. right. exact Hin.
  (* LSendStop *)
  - intros _. apply Hstop. assumption.
  - intros _. left. reflexivity.
  - intros w0 _. left. reflexivity.
  - intros Htc'. rewrite (Htc Htc'). reflexivity.
  - intros i0 k0 Hin. apply elem_of_list_filter in Hin as [Hm Hin]. unfold mine in Hm. cbn in Hm.
    destruct (Hun _ _ Hin) as [t0 Ht0]. exists t0. rewrite upd_ne; [exact Ht0|].
    intros <-. rewrite Nat.eqb_refl in Hm. exact Hm.
  (* LFetchRet *)
  - intros i0 k0 Hin. destruct (Hun _ _ Hin) as [t0 Ht0]. exists t0. rewrite upd_ne; [exact Ht0|].
    intros <-. eapply pop_first_none; eauto.
  (* LExit *)
  - intros w0 Hw0. ins_cases; subst.
    + match goal with Hc : (_ || _) = true |- _ => apply orb_true_iff in Hc as [?|Hc]; [left; assumption|];
        apply andb_true_iff in Hc as [? Hq] end.
      right. split; [assumption|]. destruct (queue s); [reflexivity|discriminate].
    + apply Hexit in Hw0. exact Hw0.
  (* LSet *)
  - intros o0 Ho. destruct (Hrun o0 Ho) as [He Hw]. split; [exact He|]. intros w0 ->. specialize (Hw _ eq_refl).
    rewrite list_lookup_insert_ne; [exact Hw|]. intros ->.
    match goal with E : ws s !! _ = Some (WGot _ _) |- _ => rewrite Hw in E; discriminate E end.
  (* LErrSet *)
  - intros Hs. destruct (Hstop Hs) as [_ Ho]. congruence.
  - intros o Ho. inversion Ho; subst. split; [discriminate|]. intros w0 Hw0. inversion Hw0; subst.
    apply list_lookup_insert. eapply lookup_lt_Some; eassumption.
  - intros w0 Hw0. ins_cases; subst; [reflexivity|]. apply Hclosing in Hw0. congruence.
  (* LErrSkip *)
  - intros w0 Hw0. ins_cases; subst.
    + match goal with Ho : onc s = ODone |- _ => destruct (Hdone Ho) as [?|Hx] end; [left; assumption|not_exited].
    + apply Hexit in Hw0. exact Hw0.
  (* LErrClose *)
  - destruct o; [rewrite insert_length|]; exact Hlen.
  - intros _. split; [|reflexivity]. match goal with Ho : onc s = ORun _ |- _ => apply (Hrun _ Ho) end.
  - intros w0 Hw0. exfalso. destruct o as [w1|].
    + ins_cases; subst; [discriminate|]. apply Hclosing in Hw0. congruence.
    + apply Hclosing in Hw0. congruence.
  - intros _. left. reflexivity.
  - intros w0 _. left. reflexivity.
  (* LStop *)
  - intros Hs. destruct (Hstop Hs) as [_ Ho]. congruence.
  - intros o Ho. inversion Ho; subst. split; discriminate.
  - intros w0 Hw0. apply Hclosing in Hw0. congruence.
  (* LWaitClose *)
  - reflexivity.
  - intros i0 k0 Hin. inversion Hin.
  (* LWaitRet *)
  - intros Hs. split; [apply Hstop; exact Hs|reflexivity].
  - intros w0 Hw0. apply Hclosing in Hw0. congruence.
  - intros _. right. match goal with Hc : (_ && _) = true |- _ => apply andb_true_iff in Hc as [_ Hc]; exact Hc end.
  - intros Hs. split; [apply Hstop; exact Hs|reflexivity].
  - intros w0 Hw0. apply Hclosing in Hw0. congruence.
  - intros _. right. match goal with Hc : (_ && _) = true |- _ => apply andb_true_iff in Hc as [_ Hc]; exact Hc end.
Qed.

(* ============================================================================ group B: task tokens *)
Definition pre (p : wphase) : list key := match p with WHas k => [k] | _ => [] end.
Definition readsl (l : list event) : list key :=
  rev (omap (fun e => match e with EvRead k => Some k | _ => None end) l).
Lemma reads_readsl s : reads s = readsl (log s).
Proof. reflexivity. Qed.
Lemma readsl_cons e l : readsl (e :: l) = readsl l ++ match e with EvRead k => [k] | _ => [] end.
Proof. unfold readsl. cbn. destruct e; cbn; rewrite ?app_nil_r; reflexivity. Qed.

Definition tc (s : state) (k : key) : nat :=
  cn (map snd (unsent s)) k + cn (queue s) k + cn (flat_map pre (ws s)) k + cn (readsl (log s)) k.

Lemma cn_pop i l k r k' : pop_first i l = Some (k, r) ->
  cn (map snd l) k' = (if decide (k = k') then 1 else 0) + cn (map snd r) k'.
Proof.
  revert k r. induction l as [|[j x] l IH]; intros k r H; cbn in H; [discriminate|].
  unfold mine in H. cbn in H. destruct (Nat.eqb_spec j i) as [->|Hne].
  - inversion H; subst. reflexivity.
  - destruct (pop_first i l) as [[k2 r2]|] eqn:E; [|discriminate]. inversion H; subst.
    cbn. rewrite (IH _ _ eq_refl). lia.
Qed.
Lemma cn_filter_le (f : nat * key -> bool) l k : cn (map snd (filter f l)) k <= cn (map snd l) k.
Proof.
  induction l as [|x l IH]; [reflexivity|]. rewrite filter_cons. destruct (decide (f x)); cbn; lia.
Qed.
Lemma flat_map_app' {A B} (f : A -> list B) l1 l2 : flat_map f (l1 ++ l2) = flat_map f l1 ++ flat_map f l2.
Proof. induction l1; cbn; [reflexivity|]. rewrite IHl1, app_assoc. reflexivity. Qed.
Lemma cn_ws_insert (l : list wphase) w q p k : l !! w = Some q ->
  cn (flat_map pre (<[w := p]> l)) k + cn (pre q) k = cn (flat_map pre l) k + cn (pre p) k.
Proof.
  intros H. assert (Hlt : w < length l) by (eapply lookup_lt_Some; eassumption).
  rewrite insert_take_drop by assumption. rewrite <- (take_drop_middle _ _ _ H) at 3.
  rewrite !flat_map_app'. cbn [flat_map]. rewrite !cn_app. lia.
Qed.
Lemma cn_ws_insert_le (l : list wphase) w p k : pre p = [] ->
  cn (flat_map pre (<[w := p]> l)) k <= cn (flat_map pre l) k.
Proof.
  intros Hp. destruct (l !! w) as [q|] eqn:E.
  - pose proof (cn_ws_insert l w q p k E) as H. rewrite Hp in H. cbn in H. lia.
  - rewrite list_insert_ge; [lia|]. apply lookup_ge_None. exact E.
Qed.

Lemma fk_mono t K ks K' tasks b k : fk_spec t K ks K' tasks b -> K' k = None -> K k = None.
Proof.
  intros [Ho Hc Hn Hp Ht Hnd Hb] H. destruct (K k) as [kr|] eqn:EK; [|reflexivity]. exfalso.
  destruct (cache kr) eqn:Ec.
  - assert (Hx : cachedK K k = true) by (unfold cachedK; rewrite EK, Ec; reflexivity).
    rewrite (Hc _ Hx), EK in H. discriminate.
  - destruct (decide (k ∈ ks)) as [Hi|Hni].
    + rewrite (Hp _ _ Hi EK Ec) in H. discriminate.
    + rewrite (Ho _ Hni), EK in H. discriminate.
Qed.
Lemma fk_cache_inv t K ks K' tasks b k kr r : fk_spec t K ks K' tasks b ->
  K' k = Some kr -> cache kr = Some r -> K k = Some kr.
Proof.
  intros [Ho Hc Hn Hp Ht Hnd Hb] H Hr. destruct (decide (k ∈ ks)) as [Hi|Hni]; [|rewrite <- (Ho _ Hni); exact H].
  destruct (K k) as [kr0|] eqn:EK.
  - destruct (cache kr0) eqn:Ec.
    + assert (Hx : cachedK K k = true) by (unfold cachedK; rewrite EK, Ec; reflexivity).
      rewrite (Hc _ Hx), EK in H. exact H.
    + rewrite (Hp _ _ Hi EK Ec) in H. inversion H; subst. discriminate.
  - rewrite (Hn _ Hi EK) in H. inversion H; subst. discriminate.
Qed.

Record InvB (c : cfg) (s : state) : Prop := {
  b_nd : forall k, tc s k <= 1;
  b_ent : forall k, keys s k = None -> tc s k = 0;
  b_wgot : forall w k r, ws s !! w = Some (WGot k r) -> k ∈ readsl (log s) /\ r = c_parent c !! k /\ is_fail c k = false;
  b_wfail : forall w k, ws s !! w = Some (WFail k) -> k ∈ readsl (log s) /\ is_fail c k = true;
  b_cache : forall k kr r, keys s k = Some kr -> cache kr = Some r ->
            k ∈ readsl (log s) /\ r = c_parent c !! k /\ is_fail c k = false
}.

Lemma flat_map_pre_idle n : flat_map pre (replicate n WIdle) = [].
Proof. induction n; cbn; auto. Qed.

Lemma invB_init c : InvB c (init c).
Proof.
  split; unfold tc; cbn; intros; try discriminate; rewrite ?flat_map_pre_idle; try reflexivity.
  - cbn. lia.
  - apply lookup_replicate in H as [H _]. discriminate.
  - apply lookup_replicate in H as [H _]. discriminate.
Qed.

Ltac solveB IB :=
  destruct IB as [Hnd Hent Hwgot Hwfail Hcache];
  split; unfold tc in *;
  cbn [keys txs err onc stop tclosed queue unsent fph gph ws dupid broken log set_w set_ws set_fph set_gph] in *.

Lemma map_snd_pair (i : nat) (l : list key) : map snd (map (fun k0 : key => (i, k0)) l) = l.
Proof. induction l; cbn; congruence. Qed.

Ltac ws_le k0 :=
  match goal with |- context [flat_map pre (<[?w := ?p]> ?l)] => pose proof (cn_ws_insert_le l w p k0 eq_refl) end.
Ltac tB_nd Hnd := let k0 := fresh "k0" in intros k0; ws_le k0; specialize (Hnd k0); lia.
Ltac tB_ent Hent := let k0 := fresh "k0" in let Hk := fresh "Hk" in
  intros k0 Hk; ws_le k0; specialize (Hent k0 Hk); lia.
Ltac tB_w Hwgot Hwfail := intros; ins_cases; subst; try discriminate;
  first [eapply Hwgot; eassumption | eapply Hwfail; eassumption].

Lemma invB_step c s l s' : InvB c s -> step c s l = Some s' -> InvB c s'.
Proof.
  intros IB H. destruct l; cbn [step] in H; des_step H; solveB IB.
  all: rewrite ?app_nil_l, ?readsl_cons, ?app_nil_r.
  all: try exact Hnd. all: try exact Hent. all: try exact Hwgot. all: try exact Hwfail. all: try exact Hcache.
  all: try tB_nd Hnd. all: try tB_ent Hent. all: try tB_w Hwgot Hwfail.
  (* LFetch *)
  - pose proof (fetch_keys_spec t (keys s) ks) as Hfk.
    match goal with E : fetch_keys _ _ _ = _ |- _ => rewrite E in Hfk end.
    intros k. rewrite map_app, map_snd_pair, cn_app.
    specialize (Hnd k). pose proof (nodup_cn l k (fk_nodup _ _ _ _ _ _ Hfk)).
    destruct (decide (k ∈ l)) as [Hi|Hni].
    + apply (fk_tasks _ _ _ _ _ _ Hfk) in Hi as [_ HK]. specialize (Hent k HK). lia.
    + rewrite (cn_0 _ _ Hni). lia.
  - pose proof (fetch_keys_spec t (keys s) ks) as Hfk.
    match goal with E : fetch_keys _ _ _ = _ |- _ => rewrite E in Hfk end.
    intros k Hk. rewrite map_app, map_snd_pair, cn_app.
    pose proof (fk_mono _ _ _ _ _ _ k Hfk Hk) as HK. specialize (Hent k HK).
    rewrite (cn_0 l k); [lia|]. intros Hi. apply (fk_tasks _ _ _ _ _ _ Hfk) in Hi as [Hi _].
    rewrite (fk_new _ _ _ _ _ _ Hfk _ Hi HK) in Hk. discriminate.
  - pose proof (fetch_keys_spec t (keys s) ks) as Hfk.
    match goal with E : fetch_keys _ _ _ = _ |- _ => rewrite E in Hfk end.
    intros k kr r Hk Hr. eapply Hcache; [|exact Hr]. eapply fk_cache_inv; eassumption.
  (* LSend *)
  - intros k0. specialize (Hnd k0).
    match goal with Hp : pop_first _ _ = Some _ |- _ => rewrite (cn_pop _ _ _ _ k0 Hp) in Hnd end.
    rewrite cn_app, cn_single. lia.
  - intros k0 Hk. specialize (Hent k0 Hk).
    match goal with Hp : pop_first _ _ = Some _ |- _ => rewrite (cn_pop _ _ _ _ k0 Hp) in Hent end.
    rewrite cn_app, cn_single. lia.
  (* LSendStop *)
  - intros k0. specialize (Hnd k0). pose proof (cn_filter_le (fun p => negb (mine i p)) (unsent s) k0) as Hf. cbn beta in Hf. lia.
  - intros k0 Hk. specialize (Hent k0 Hk). pose proof (cn_filter_le (fun p => negb (mine i p)) (unsent s) k0) as Hf. cbn beta in Hf. lia.
  (* LTake *)
  - intros k0. specialize (Hnd k0).
    match goal with Hq : queue s = _ |- _ => rewrite Hq in Hnd end.
    match goal with Hw : ws s !! _ = Some WIdle |- _ => pose proof (cn_ws_insert _ _ _ (WHas k) k0 Hw) as Hi end.
    cbn [pre cn] in *. lia.
  - intros k0 Hk. specialize (Hent k0 Hk).
    match goal with Hq : queue s = _ |- _ => rewrite Hq in Hent end.
    match goal with Hw : ws s !! _ = Some WIdle |- _ => pose proof (cn_ws_insert _ _ _ (WHas k) k0 Hw) as Hi end.
    cbn [pre cn] in *. lia.
  (* LRead *)
  - intros k0. specialize (Hnd k0).
    match goal with Hw : ws s !! _ = Some (WHas _) |- _ =>
      pose proof (cn_ws_insert _ _ _ (if is_fail c k then WFail k else WGot k (c_parent c !! k)) k0 Hw) as Hi end.
    rewrite cn_app. destruct (is_fail c k); cbn [pre cn] in *; lia.
  - intros k0 Hk. specialize (Hent k0 Hk).
    match goal with Hw : ws s !! _ = Some (WHas _) |- _ =>
      pose proof (cn_ws_insert _ _ _ (if is_fail c k then WFail k else WGot k (c_parent c !! k)) k0 Hw) as Hi end.
    rewrite cn_app. destruct (is_fail c k); cbn [pre cn] in *; lia.
  - intros w1 k1 r1 Hw1. ins_cases; subst.
    + destruct (is_fail c k) eqn:Ef; [discriminate|].
      match goal with Hq : WGot _ _ = WGot _ _ |- _ => inversion Hq; subst end.
      split; [apply elem_of_app; right; constructor|]. split; [reflexivity|exact Ef].
    + destruct (Hwgot _ _ _ Hw1) as (? & ? & ?). split; [apply elem_of_app; left; assumption|]. split; assumption.
  - intros w1 k1 Hw1. ins_cases; subst.
    + destruct (is_fail c k) eqn:Ef; [|discriminate].
      match goal with Hq : WFail _ = WFail _ |- _ => inversion Hq; subst end.
      split; [apply elem_of_app; right; constructor|exact Ef].
    + destruct (Hwfail _ _ Hw1) as (? & ?). split; [apply elem_of_app; left; assumption|assumption].
  - intros k1 kr1 r1 Hk Hr. destruct (Hcache _ _ _ Hk Hr) as (? & ? & ?).
    split; [apply elem_of_app; left; assumption|]. split; assumption.
  (* LSet *)
  - intros k1 Hk. unfold upd in Hk. destruct (decide (k = k1)); [discriminate|].
    ws_le k1. specialize (Hent k1 Hk). lia.
  - intros k1 kr1 r1 Hk Hr. unfold upd in Hk. destruct (decide (k = k1)) as [<-|Hne].
    + inversion Hk; subst. cbn in Hr. inversion Hr; subst. eapply Hwgot. eassumption.
    + eapply Hcache; eassumption.
  (* LErrClose *)
  - destruct o; [tB_nd Hnd|exact Hnd].
  - destruct o; [tB_ent Hent|exact Hent].
  - destruct o; [tB_w Hwgot Hwfail|exact Hwgot].
  - destruct o; [tB_w Hwgot Hwfail|exact Hwfail].
  (* LWaitClose *)
  - match goal with Hq : unsent s = [] |- _ => rewrite Hq in Hnd end. exact Hnd.
  - match goal with Hq : unsent s = [] |- _ => rewrite Hq in Hent end. exact Hent.
Qed.

(* ============================================================================ reachable states *)
Lemma reach_AB c tr s : steps c (init c) tr s -> InvA c s /\ InvB c s.
Proof.
  revert tr s. apply (steps_ind_inv c (fun _ s => InvA c s /\ InvB c s)).
  - split; [apply invA_init|apply invB_init].
  - intros tr s l s' _ [IA IB] Hst. split; [eapply invA_step|eapply invB_step]; eassumption.
Qed.

(* every key with an entry was listed by a Fetch call of the trace *)
Lemma keys_listed c tr s : steps c (init c) tr s ->
  forall k, keys s k <> None -> exists i t ks, LFetch i t ks ∈ tr /\ k ∈ ks.
Proof.
  revert tr s.
  apply (steps_ind_inv c (fun tr s => forall k, keys s k <> None -> exists i t ks, LFetch i t ks ∈ tr /\ k ∈ ks)).
  - intros k H. exfalso. apply H. reflexivity.
  - intros tr s l s' _ IH Hst k Hk.
    assert (Hold : keys s k <> None -> exists i t ks, LFetch i t ks ∈ tr ++ [l] /\ k ∈ ks).
    { intros H. destruct (IH k H) as (i & t & ks & Hin & Hks). exists i, t, ks. split; [|exact Hks].
      apply elem_of_app. left. exact Hin. }
    destruct l; cbn [step] in Hst; des_step Hst;
      cbn [keys set_w set_ws set_fph set_gph] in Hk; try (apply Hold; exact Hk).
    + (* LFetch *)
      pose proof (fetch_keys_spec t (keys s) ks) as Hfk.
      match goal with E : fetch_keys _ _ _ = _ |- _ => rewrite E in Hfk end.
      destruct (decide (k ∈ ks)) as [Hi|Hni].
      * exists i, t, ks. split; [|exact Hi]. apply elem_of_app. right. constructor.
      * apply Hold. rewrite <- (fk_other _ _ _ _ _ _ Hfk _ Hni). exact Hk.
    + (* LSet *)
      apply Hold. unfold upd in Hk. destruct (decide (k0 = k)) as [<-|]; [congruence|exact Hk].
Qed.

Lemma reads_once c tr s : steps c (init c) tr s ->
  NoDup (reads s) /\ forall k, k ∈ reads s -> exists i t ks, LFetch i t ks ∈ tr /\ k ∈ ks.
Proof.
  intros Hs. destruct (reach_AB _ _ _ Hs) as [_ IB]. rewrite reads_readsl. split.
  - apply cn_nodup. intros k. pose proof (b_nd _ _ IB k) as H. unfold tc in H. lia.
  - intros k Hk. eapply keys_listed; [exact Hs|]. intros Hn.
    pose proof (b_ent _ _ IB k Hn) as H. unfold tc in H. apply cn_pos in Hk. lia.
Qed.

(* ============================================================================ group C: blockers accounting *)
Lemma cnt_app l1 l2 t : cnt (l1 ++ l2) t = cnt l1 t + cnt l2 t.
Proof. unfold cnt. apply count_occ_app. Qed.
Lemma cnt_replicate n t t' : cnt (replicate n t) t' = if N.eq_dec t t' then n else 0.
Proof.
  unfold cnt. induction n; cbn; [destruct (N.eq_dec t t'); reflexivity|].
  rewrite IHn. destruct (N.eq_dec t t'); lia.
Qed.
Lemma cnt_pos_in l t : 0 < cnt l t -> In t l.
Proof. unfold cnt. apply count_occ_In. Qed.
Lemma cnt_in_pos l t : In t l -> 0 < cnt l t.
Proof. unfold cnt. apply count_occ_In. Qed.

Lemma cn_le_cntb (f : key -> bool) l k : f k = true -> cn l k <= cntb f l.
Proof.
  intros Hf. induction l as [|x l IH]; cbn; [lia|]. destruct (decide (x = k)) as [->|]; [rewrite Hf|]; lia.
Qed.
Lemma cntb_0 {A} (f : A -> bool) l : cntb f l = 0 -> forall x, x ∈ l -> f x = false.
Proof.
  induction l as [|y l IH]; intros H x Hin; [inversion Hin|]. cbn in H.
  apply elem_of_cons in Hin as [->|Hin]; [destruct (f y); [lia|reflexivity]|]. apply IH; [lia|exact Hin].
Qed.
Lemma pendK_upd_cached K k v bl k' :
  pendK (upd K k (Some (mkK (Some v) bl))) k' = if decide (k = k') then false else pendK K k'.
Proof. unfold pendK, upd. destruct (decide (k = k')); reflexivity. Qed.
Lemma cachedK_upd_cached K k v bl k' :
  cachedK (upd K k (Some (mkK (Some v) bl))) k' = if decide (k = k') then true else cachedK K k'.
Proof. unfold cachedK, upd. destruct (decide (k = k')); reflexivity. Qed.
Lemma cntb_pend_upd K k v bl l : pendK K k = true ->
  cntb (pendK (upd K k (Some (mkK (Some v) bl)))) l + cn l k = cntb (pendK K) l.
Proof.
  intros Hp. induction l as [|x l IH]; cbn; [reflexivity|]. rewrite pendK_upd_cached.
  destruct (decide (k = x)) as [<-|Hne].
  - rewrite Hp. destruct (decide (k = k)); [lia|congruence].
  - destruct (decide (x = k)); [congruence|]. lia.
Qed.
Lemma cntb_pend_upd_same K k v bl l : pendK K k = false ->
  cntb (pendK (upd K k (Some (mkK (Some v) bl)))) l = cntb (pendK K) l.
Proof.
  intros Hp. apply cntb_ext. intros x _. rewrite pendK_upd_cached. destruct (decide (k = x)) as [<-|]; auto.
Qed.

Lemma notified_tkeys r n : tkeys (notified r n) = tkeys r.
Proof. destruct n; reflexivity. Qed.
Lemma notified_blockers r n : blockers (notified r n) = (blockers r - Z.of_nat n)%Z.
Proof. destruct n; cbn [notified blockers]; lia. Qed.
Lemma notified_waiter r n : (Z.of_nat n <= blockers r)%Z -> (waiter r = WOpen <-> (0 < blockers r)%Z) ->
  (waiter (notified r n) = WOpen <-> (0 < blockers r - Z.of_nat n)%Z).
Proof.
  intros Hle Hw. destruct n; cbn [notified waiter].
  - rewrite Hw. lia.
  - destruct (Z.eqb_spec (blockers r - Z.of_nat (S n)) 0).
    + split; [discriminate|lia].
    + rewrite Hw. lia.
Qed.

Lemma collect_get_map parent K ks :
  (forall k, k ∈ ks -> exists kr, K k = Some kr /\ cache kr = Some (parent !! k)) ->
  collect K ks = get_map parent ks.
Proof.
  induction ks as [|k ks IH]; intros H; [reflexivity|]. unfold collect, get_map in *. cbn [foldr].
  destruct (H k) as (kr & HK & Hc); [constructor|]. rewrite HK, Hc.
  rewrite IH; [destruct (parent !! k); reflexivity|]. intros k' Hk'. apply H. constructor. exact Hk'.
Qed.

Record InvC (c : cfg) (s : state) : Prop := {
  c_brk : broken s = false;
  c_cblk : forall k kr r, keys s k = Some kr -> cache kr = Some r -> blocked kr = [];
  c_txkeys : forall t r, txs s t = Some r -> forall k, k ∈ tkeys r -> keys s k <> None;
  c_blk : forall t r, txs s t = Some r -> blockers r = Z.of_nat (cntb (pendK (keys s)) (tkeys r));
  c_wait : forall t r, txs s t = Some r -> (waiter r = WOpen <-> (0 < blockers r)%Z);
  c_bcnt : forall k kr, keys s k = Some kr -> cache kr = None ->
           forall t, cnt (blocked kr) t = match txs s t with Some r => cn (tkeys r) k | None => 0 end;
  c_gread : forall g t, gph s g = GRead t ->
            exists r, txs s t = Some r /\ forall k, k ∈ tkeys r -> cachedK (keys s) k = true;
  c_gwait : forall g t, gph s g = GWait t -> txs s t <> None;
  c_logget : forall g t m, EvGetRet g t (GMap m) ∈ log s ->
             exists r, txs s t = Some r /\ m = get_map (c_parent c) (tkeys r) /\
                       forall k, k ∈ tkeys r -> is_fail c k = false
}.

Lemma invC_init c : InvC c (init c).
Proof.
  split; cbn; intros; try discriminate; try reflexivity.
  match goal with H : _ ∈ [] |- _ => inversion H end.
Qed.

Ltac solveC IC :=
  destruct IC as [Hbrk Hcblk Htxkeys Hblk Hwait Hbcnt Hgread Hgwait Hlogget];
  split;
  cbn [keys txs err onc stop tclosed queue unsent fph gph ws dupid broken log set_w set_ws set_fph set_gph] in *.

Ltac log_old Hlogget :=
  let g0 := fresh "g" in let t0 := fresh "t" in let m0 := fresh "m" in let Hin := fresh "Hin" in
  intros g0 t0 m0 Hin; cbn [app] in Hin;
  apply elem_of_cons in Hin as [Hin|Hin]; [discriminate Hin|]; exact (Hlogget _ _ _ Hin).

Ltac gph_old Hg :=
  let g0 := fresh "g" in let t0 := fresh "t" in let Hq := fresh "Hq" in
  intros g0 t0 Hq; unfold upd in Hq;
  match type of Hq with (if decide (?a = ?b) then _ else _) = _ =>
    destruct (decide (a = b)); [discriminate Hq|exact (Hg _ _ Hq)] end.

Lemma fk_listed t K ks K' tasks b k : fk_spec t K ks K' tasks b -> k ∈ ks -> K' k <> None.
Proof.
  intros Hfk Hi. destruct (K k) as [kr|] eqn:EK.
  - destruct (cache kr) eqn:Ec.
    + assert (Hx : cachedK K k = true) by (unfold cachedK; rewrite EK, Ec; reflexivity).
      rewrite (fk_cached _ _ _ _ _ _ Hfk _ Hx), EK. discriminate.
    + rewrite (fk_pend _ _ _ _ _ _ Hfk _ _ Hi EK Ec). discriminate.
  - rewrite (fk_new _ _ _ _ _ _ Hfk _ Hi EK). discriminate.
Qed.
Lemma fk_pend_listed t K ks K' tasks b k : fk_spec t K ks K' tasks b -> k ∈ ks -> pendK K' k = negb (cachedK K k).
Proof.
  intros Hfk Hi. unfold pendK, cachedK. destruct (K k) as [kr|] eqn:EK.
  - destruct (cache kr) eqn:Ec.
    + assert (Hx : cachedK K k = true) by (unfold cachedK; rewrite EK, Ec; reflexivity).
      rewrite (fk_cached _ _ _ _ _ _ Hfk _ Hx), EK, Ec. reflexivity.
    + rewrite (fk_pend _ _ _ _ _ _ Hfk _ _ Hi EK Ec). reflexivity.
  - rewrite (fk_new _ _ _ _ _ _ Hfk _ Hi EK). reflexivity.
Qed.
Lemma fk_pend_same t K ks K' tasks b k : fk_spec t K ks K' tasks b -> K k <> None -> pendK K' k = pendK K k.
Proof.
  intros Hfk Hn. unfold pendK. destruct (K k) as [kr|] eqn:EK; [|congruence].
  destruct (cache kr) eqn:Ec.
  - assert (Hx : cachedK K k = true) by (unfold cachedK; rewrite EK, Ec; reflexivity).
    rewrite (fk_cached _ _ _ _ _ _ Hfk _ Hx), EK, Ec. reflexivity.
  - destruct (decide (k ∈ ks)) as [Hi|Hni].
    + rewrite (fk_pend _ _ _ _ _ _ Hfk _ _ Hi EK Ec). reflexivity.
    + rewrite (fk_other _ _ _ _ _ _ Hfk _ Hni), EK, Ec. reflexivity.
Qed.
Lemma fk_cached_mono t K ks K' tasks b k : fk_spec t K ks K' tasks b -> cachedK K k = true -> cachedK K' k = true.
Proof. intros Hfk Hx. unfold cachedK at 1. rewrite (fk_cached _ _ _ _ _ _ Hfk _ Hx). exact Hx. Qed.
Lemma fk_blocked t K ks K' tasks b k kr : fk_spec t K ks K' tasks b -> K' k = Some kr -> cache kr = None ->
  (K k = None /\ blocked kr = replicate (cn ks k) t) \/
  (exists kr0, K k = Some kr0 /\ cache kr0 = None /\ blocked kr = blocked kr0 ++ replicate (cn ks k) t).
Proof.
  intros Hfk HK' Hc. destruct (K k) as [kr0|] eqn:EK.
  - right. exists kr0. destruct (cache kr0) eqn:Ec.
    + assert (Hx : cachedK K k = true) by (unfold cachedK; rewrite EK, Ec; reflexivity).
      rewrite (fk_cached _ _ _ _ _ _ Hfk _ Hx), EK in HK'. inversion HK'; subst. congruence.
    + split; [reflexivity|]. split; [reflexivity|]. destruct (decide (k ∈ ks)) as [Hi|Hni].
      * rewrite (fk_pend _ _ _ _ _ _ Hfk _ _ Hi EK Ec) in HK'. inversion HK'; subst. reflexivity.
      * rewrite (fk_other _ _ _ _ _ _ Hfk _ Hni), EK in HK'. inversion HK'; subst.
        rewrite (cn_0 _ _ Hni). cbn. rewrite app_nil_r. reflexivity.
  - left. split; [reflexivity|]. destruct (decide (k ∈ ks)) as [Hi|Hni].
    + rewrite (fk_new _ _ _ _ _ _ Hfk _ Hi EK) in HK'. inversion HK'; subst. reflexivity.
    + rewrite (fk_other _ _ _ _ _ _ Hfk _ Hni), EK in HK'. discriminate.
Qed.

(* the loop of set, under the accounting invariant *)
Lemma set_spec c s k kr : InvC c s -> keys s k = Some kr ->
  exists T', notify (txs s) (blocked kr) = (T', false) /\
    forall t, T' t = match txs s t with
                     | Some r => Some (notified r (if pendK (keys s) k then cn (tkeys r) k else 0))
                     | None => None
                     end.
Proof.
  intros IC HK. destruct (cache kr) as [v|] eqn:Ec.
  - rewrite (c_cblk _ _ IC _ _ _ HK Ec). exists (txs s). split; [reflexivity|]. intros t.
    unfold pendK. rewrite HK, Ec. destruct (txs s t); reflexivity.
  - assert (Hp : pendK (keys s) k = true) by (unfold pendK; rewrite HK, Ec; reflexivity).
    destruct (notify_spec (txs s) (blocked kr)) as (T' & HT & Hsp).
    { intros t Hin. apply cnt_in_pos in Hin. rewrite (c_bcnt _ _ IC _ _ HK Ec t) in Hin |- *.
      destruct (txs s t) as [r|] eqn:ET; [|lia]. exists r. split; [reflexivity|].
      pose proof (c_blk _ _ IC _ _ ET) as Hb. pose proof (cn_le_cntb (pendK (keys s)) (tkeys r) k Hp).
      split; [apply (c_wait _ _ IC _ _ ET)|]; lia. }
    exists T'. split; [exact HT|]. intros t. rewrite Hsp, Hp, (c_bcnt _ _ IC _ _ HK Ec t).
    destruct (txs s t); reflexivity.
Qed.

Ltac set_pre c Hbrk Hcblk Htxkeys Hblk Hwait Hbcnt Hgread Hgwait Hlogget :=
  match goal with HK : keys _ _ = Some ?kr, HN : notify _ _ = _ |- _ =>
    destruct (set_spec c _ _ _ (Build_InvC _ _ Hbrk Hcblk Htxkeys Hblk Hwait Hbcnt Hgread Hgwait Hlogget) HK)
      as (T' & HT & Hsp); rewrite HN in HT; inversion HT; subst; clear HT end.

Lemma invC_step c s l s' : InvA c s -> InvB c s -> InvC c s -> dupid s' = false ->
  step c s l = Some s' -> InvC c s'.
Proof.
  intros IA IB IC Hdup H. destruct l; cbn [step] in H; des_step H; solveC IC.
  all: try exact Hbrk. all: try exact Hcblk. all: try exact Htxkeys. all: try exact Hblk. all: try exact Hwait.
  all: try exact Hbcnt. all: try exact Hgread. all: try exact Hgwait. all: try exact Hlogget.
  all: try (log_old Hlogget).
  all: try (gph_old Hgread). all: try (gph_old Hgwait).
  (* ---- LFetch ---- *)
  all: try (pose proof (fetch_keys_spec t (keys s) ks) as Hfk;
            match goal with E : fetch_keys _ _ _ = _ |- _ => rewrite E in Hfk end;
            assert (Htn : txs s t = None)
              by (apply orb_false_iff in Hdup as [_ Hd]; destruct (txs s t); [discriminate|reflexivity])).
  - intros k kr r Hk Hr. eapply Hcblk; [eapply fk_cache_inv; eassumption|exact Hr].
  - intros t1 r Hr k Hk. unfold upd in Hr. destruct (decide (t = t1)).
    + inversion Hr; subst. cbn in Hk. eapply fk_listed; eassumption.
    + intros Hn. eapply Htxkeys; [exact Hr|exact Hk|]. eapply fk_mono; eassumption.
  - intros t1 r Hr. unfold upd in Hr. destruct (decide (t = t1)).
    + inversion Hr; subst. cbn. rewrite (fk_b _ _ _ _ _ _ Hfk). f_equal. apply cntb_ext.
      intros x Hx. symmetry. eapply fk_pend_listed; eassumption.
    + rewrite (Hblk _ _ Hr). f_equal. apply cntb_ext. intros x Hx. symmetry.
      eapply fk_pend_same; [eassumption|]. eapply Htxkeys; eassumption.
  - intros t1 r Hr. unfold upd in Hr. destruct (decide (t = t1)).
    + inversion Hr; subst. cbn. destruct (Z.ltb_spec 0 z); split; intros; try discriminate; try lia; reflexivity.
    + eapply Hwait; eassumption.
  - intros k kr Hk Hc t1.
    destruct (fk_blocked _ _ _ _ _ _ _ _ Hfk Hk Hc) as [[HK Hb]|(kr0 & HK & Hc0 & Hb)]; rewrite Hb.
    + rewrite cnt_replicate. unfold upd. destruct (decide (t = t1)) as [<-|Hne].
      * destruct (N.eq_dec t t); [reflexivity|congruence].
      * destruct (N.eq_dec t t1); [congruence|]. destruct (txs s t1) as [r1|] eqn:Etx1; [|reflexivity].
        symmetry. apply cn_0. intros Hin. eapply Htxkeys; eassumption.
    + rewrite cnt_app, cnt_replicate, (Hbcnt _ _ HK Hc0 t1). unfold upd. destruct (decide (t = t1)) as [<-|Hne].
      * rewrite Htn. destruct (N.eq_dec t t); [reflexivity|congruence].
      * destruct (N.eq_dec t t1); [congruence|]. lia.
  - intros g t1 Hg. destruct (Hgread _ _ Hg) as (r & Hr & Hc). exists r. split.
    + rewrite upd_ne; [exact Hr|]. intros ->. congruence.
    + intros k Hk. eapply fk_cached_mono; eauto.
  - intros g t1 Hg. unfold upd. destruct (decide (t = t1)); [discriminate|]. eapply Hgwait; eassumption.
  - intros g t1 m Hin. destruct (Hlogget _ _ _ Hin) as (r & Hr & Hm). exists r. split; [|exact Hm].
    rewrite upd_ne; [exact Hr|]. intros ->. congruence.
  (* ---- LSend ---- *)
  - rewrite Hbrk. cbn. destruct (tclosed s) eqn:Etc; [|reflexivity].
    match goal with Hp : pop_first _ _ = Some _ |- _ => rewrite (a_tclosed _ _ IA Etc) in Hp; discriminate Hp end.
  (* ---- LSet ---- *)
  - set_pre c Hbrk Hcblk Htxkeys Hblk Hwait Hbcnt Hgread Hgwait Hlogget.
    rewrite Hbrk. reflexivity.
  - set_pre c Hbrk Hcblk Htxkeys Hblk Hwait Hbcnt Hgread Hgwait Hlogget.
    intros k1 kr1 r1 Hk Hr. unfold upd in Hk. destruct (decide (k = k1)).
    + inversion Hk; subst. reflexivity.
    + eapply Hcblk; eassumption.
  - set_pre c Hbrk Hcblk Htxkeys Hblk Hwait Hbcnt Hgread Hgwait Hlogget.
    intros t1 r1 Hr k1 Hk. rewrite Hsp in Hr. destruct (txs s t1) as [r0|] eqn:Etx0; [|discriminate].
    inversion Hr; subst. rewrite notified_tkeys in Hk. unfold upd. destruct (decide (k = k1)); [discriminate|].
    eapply Htxkeys; eassumption.
  - set_pre c Hbrk Hcblk Htxkeys Hblk Hwait Hbcnt Hgread Hgwait Hlogget.
    intros t1 r1 Hr. rewrite Hsp in Hr. destruct (txs s t1) as [r0|] eqn:Etx0; [|discriminate].
    inversion Hr; subst. rewrite notified_blockers, notified_tkeys, (Hblk _ _ Etx0).
    destruct (pendK (keys s) k) eqn:Ep.
    + pose proof (cntb_pend_upd (keys s) k r [] (tkeys r0) Ep). lia.
    + rewrite (cntb_pend_upd_same (keys s) k r [] (tkeys r0) Ep). lia.
  - set_pre c Hbrk Hcblk Htxkeys Hblk Hwait Hbcnt Hgread Hgwait Hlogget.
    intros t1 r1 Hr. rewrite Hsp in Hr. destruct (txs s t1) as [r0|] eqn:Etx0; [|discriminate].
    inversion Hr; subst. rewrite notified_blockers. apply notified_waiter; [|eapply Hwait; eassumption].
    rewrite (Hblk _ _ Etx0). destruct (pendK (keys s) k) eqn:Ep; [|lia].
    pose proof (cn_le_cntb (pendK (keys s)) (tkeys r0) k Ep). lia.
  - set_pre c Hbrk Hcblk Htxkeys Hblk Hwait Hbcnt Hgread Hgwait Hlogget.
    intros k1 kr1 Hk Hc t1. unfold upd in Hk. destruct (decide (k = k1)).
    + inversion Hk; subst. discriminate.
    + rewrite (Hbcnt _ _ Hk Hc t1), Hsp. destruct (txs s t1); [rewrite notified_tkeys|]; reflexivity.
  - set_pre c Hbrk Hcblk Htxkeys Hblk Hwait Hbcnt Hgread Hgwait Hlogget.
    intros g t1 Hg. destruct (Hgread _ _ Hg) as (r0 & Hr & Hc). eexists. split; [rewrite Hsp, Hr; reflexivity|].
    intros k1 Hk. rewrite notified_tkeys in Hk. rewrite cachedK_upd_cached. destruct (decide (k = k1)); auto.
  - set_pre c Hbrk Hcblk Htxkeys Hblk Hwait Hbcnt Hgread Hgwait Hlogget.
    intros g t1 Hg. rewrite Hsp. pose proof (Hgwait _ _ Hg). destruct (txs s t1); [discriminate|congruence].
  - set_pre c Hbrk Hcblk Htxkeys Hblk Hwait Hbcnt Hgread Hgwait Hlogget.
    intros g t1 m Hin. destruct (Hlogget _ _ _ Hin) as (r0 & Hr & Hm). eexists. split; [rewrite Hsp, Hr; reflexivity|].
    rewrite notified_tkeys. exact Hm.
  - exfalso. match goal with Hw : ws s !! _ = Some (WGot _ _) |- _ => destruct (b_wgot _ _ IB _ _ _ Hw) as [Hin _] end.
    apply cn_pos in Hin. match goal with HK : keys s _ = None |- _ => pose proof (b_ent _ _ IB _ HK) as Ht end.
    unfold tc in Ht. lia.
  (* ---- LGetBegin ---- *)
  - intros g1 t1 Hq. unfold upd in Hq. destruct (decide (g = g1)).
    + inversion Hq; subst. congruence.
    + eapply Hgwait; eassumption.
  (* ---- LGetWake false: waiter nil / closed ---- *)
  - intros g1 t1 Hq. unfold upd in Hq. destruct (decide (g = g1)); [|eapply Hgread; eassumption].
    inversion Hq; subst.
    match goal with Ht : txs _ _ = Some ?r |- _ =>
      exists r; split; [exact Ht|];
      pose proof (Hblk _ _ Ht) as Hb; pose proof (proj1 (Hwait _ _ Ht)) as Hw1;
      pose proof (proj2 (Hwait _ _ Ht)) as Hw2;
      assert (Hz : cntb (pendK (keys s)) (tkeys r) = 0)
        by (destruct (cntb (pendK (keys s)) (tkeys r)); [reflexivity|];
            assert (waiter r = WOpen) by (apply Hw2; lia); congruence);
      intros k1 Hk1; pose proof (cntb_0 _ _ Hz _ Hk1) as Hp; pose proof (Htxkeys _ _ Ht _ Hk1) as He;
      unfold pendK in Hp; unfold cachedK; destruct (keys s k1) as [kr1|]; [|congruence];
      destruct (cache kr1); [reflexivity|discriminate]
    end.
  - intros g1 t1 Hq. unfold upd in Hq. destruct (decide (g = g1)); [|eapply Hgread; eassumption].
    inversion Hq; subst.
    match goal with Ht : txs _ _ = Some ?r |- _ =>
      exists r; split; [exact Ht|];
      pose proof (Hblk _ _ Ht) as Hb; pose proof (proj1 (Hwait _ _ Ht)) as Hw1;
      pose proof (proj2 (Hwait _ _ Ht)) as Hw2;
      assert (Hz : cntb (pendK (keys s)) (tkeys r) = 0)
        by (destruct (cntb (pendK (keys s)) (tkeys r)); [reflexivity|];
            assert (waiter r = WOpen) by (apply Hw2; lia); congruence);
      intros k1 Hk1; pose proof (cntb_0 _ _ Hz _ Hk1) as Hp; pose proof (Htxkeys _ _ Ht _ Hk1) as He;
      unfold pendK in Hp; unfold cachedK; destruct (keys s k1) as [kr1|]; [|congruence];
      destruct (cache kr1); [reflexivity|discriminate]
    end.
  (* ---- LGetRead ---- *)
  - intros g1 t2 m Hin. cbn [app] in Hin. apply elem_of_cons in Hin as [Hin|Hin]; [|eapply Hlogget; eassumption].
    inversion Hin; subst.
    match goal with Hg : gph s _ = GRead _ |- _ => destruct (Hgread _ _ Hg) as (r0 & Hr & Hc) end.
    match goal with Ht : txs s _ = Some t0 |- _ => rewrite Ht in Hr; inversion Hr; subst end.
    exists r0. split; [assumption|]. split.
    + f_equal. apply collect_get_map. intros k Hk. specialize (Hc _ Hk). unfold cachedK in Hc.
      destruct (keys s k) as [kr|] eqn:EK; [|discriminate]. destruct (cache kr) as [v|] eqn:Ec; [|discriminate].
      exists kr. split; [reflexivity|]. destruct (b_cache _ _ IB _ _ _ EK Ec) as (_ & -> & _). exact Ec.
    + intros k Hk. specialize (Hc _ Hk). unfold cachedK in Hc.
      destruct (keys s k) as [kr|] eqn:EK; [|discriminate]. destruct (cache kr) as [v|] eqn:Ec; [|discriminate].
      apply (b_cache _ _ IB _ _ _ EK Ec).
Qed.

(* ============================================================================ results over all traces *)
Lemma dupid_mono c s l s' : step c s l = Some s' -> dupid s' = false -> dupid s = false.
Proof.
  intros H Hd. destruct l; cbn [step] in H; des_step H;
    cbn [dupid set_w set_ws set_fph set_gph] in Hd; try exact Hd.
  apply orb_false_iff in Hd as [Hd _]. exact Hd.
Qed.

Lemma reach_C c tr s : steps c (init c) tr s -> dupid s = false -> InvC c s.
Proof.
  revert tr s. apply (steps_ind_inv c (fun _ s => dupid s = false -> InvC c s)).
  - intros _. apply invC_init.
  - intros tr s l s' Hs IH Hst Hd. destruct (reach_AB _ _ _ Hs) as [IA IB].
    eapply invC_step; eauto. apply IH. eapply dupid_mono; eassumption.
Qed.

Lemma notify_tkeys bl : forall T brk T' brk', fold_left dec_one bl (T, brk) = (T', brk') ->
  forall t, option_map tkeys (T' t) = option_map tkeys (T t).
Proof.
  induction bl as [|t0 bl IH]; intros T brk T' brk' H t; cbn in H; [inversion H; reflexivity|].
  destruct (T t0) as [r0|] eqn:E0.
  - destruct (blockers r0 - 1 =? 0)%Z; [destruct (waiter r0)|]; rewrite (IH _ _ _ _ H t); unfold upd;
      destruct (decide (t0 = t)) as [<-|]; try reflexivity; rewrite E0; reflexivity.
  - apply (IH _ _ _ _ H t).
Qed.

(* every tx record stems from a Fetch call of the trace with that id and key list *)
Lemma tx_listed c tr s : steps c (init c) tr s ->
  forall t r, txs s t = Some r -> exists i, LFetch i t (tkeys r) ∈ tr.
Proof.
  revert tr s.
  apply (steps_ind_inv c (fun tr s => forall t r, txs s t = Some r -> exists i, LFetch i t (tkeys r) ∈ tr)).
  - intros t r H. discriminate H.
  - intros tr s l s' _ IH Hst t1 r1 Hr.
    assert (Hold : forall r0, txs s t1 = Some r0 -> tkeys r0 = tkeys r1 -> exists i, LFetch i t1 (tkeys r1) ∈ tr ++ [l]).
    { intros r0 H0 He. destruct (IH _ _ H0) as [i Hi]. exists i. rewrite <- He. apply elem_of_app. left. exact Hi. }
    destruct l; cbn [step] in Hst; des_step Hst;
      cbn [txs set_w set_ws set_fph set_gph] in Hr; try (eapply Hold; [exact Hr|reflexivity]).
    + (* LFetch *)
      unfold upd in Hr. destruct (decide (t = t1)) as [<-|].
      * inversion Hr; subst. cbn. exists i. apply elem_of_app. right. constructor.
      * eapply Hold; [exact Hr|reflexivity].
    + (* LSet *)
      match goal with HN : notify _ _ = _ |- _ => pose proof (notify_tkeys _ _ _ _ _ HN t1) as Hk end.
      rewrite Hr in Hk. cbn in Hk. destruct (txs s t1) as [r0|] eqn:E0; [|discriminate].
      cbn in Hk. inversion Hk. eapply Hold; [reflexivity|congruence].
Qed.

Lemma get_results_log s g t r : (g, t, r) ∈ get_results s <-> EvGetRet g t r ∈ log s.
Proof.
  unfold get_results. rewrite elem_of_list_In, <- in_rev, <- elem_of_list_In, elem_of_list_omap. split.
  - intros (e & He & Hq). destruct e; try discriminate. inversion Hq; subst. exact He.
  - intros H. exists (EvGetRet g t r). split; [exact H|reflexivity].
Qed.

Lemma get_values c tr s : steps c (init c) tr s -> dupid s = false ->
  forall g t m, (g, t, GMap m) ∈ get_results s ->
  exists i ks, LFetch i t ks ∈ tr /\ m = get_map (c_parent c) ks /\ forall k, k ∈ ks -> is_fail c k = false.
Proof.
  intros Hs Hd g t m Hin. apply get_results_log in Hin.
  destruct (c_logget _ _ (reach_C _ _ _ Hs Hd) _ _ _ Hin) as (r & Hr & Hm & Hf).
  destruct (tx_listed _ _ _ Hs _ _ Hr) as [i Hi]. exists i, (tkeys r). auto.
Qed.

Lemma get_map_lookup (parent : gmap key val) ks k :
  get_map parent ks !! k = if decide (k ∈ ks) then parent !! k else None.
Proof.
  unfold get_map. induction ks as [|x ks IH]; cbn [foldr].
  - rewrite lookup_empty. destruct (decide (k ∈ [])) as [H|]; [inversion H|reflexivity].
  - destruct (decide (x = k)) as [->|Hne].
    + destruct (decide (k ∈ k :: ks)) as [_|Hn]; [|exfalso; apply Hn; constructor].
      destruct (parent !! k) as [v|] eqn:E; [apply lookup_insert|].
      rewrite IH. destruct (decide (k ∈ ks)); [try exact E; reflexivity|reflexivity].
    + assert (Hiff : k ∈ x :: ks <-> k ∈ ks).
      { rewrite elem_of_cons. split; [intros [?|?]; [congruence|assumption]|auto]. }
      destruct (parent !! x); [rewrite lookup_insert_ne by assumption|]; rewrite IH;
        destruct (decide (k ∈ ks)), (decide (k ∈ x :: ks)); tauto || reflexivity.
Qed.

(* blockers = number of listed key occurrences still uncached; the waiter is open exactly while it is > 0;
   no Go panic (double close, close of nil, nil dereference, send on the closed channel) is reachable *)
Lemma accounting c tr s : steps c (init c) tr s -> dupid s = false ->
  broken s = false /\
  forall t r, txs s t = Some r ->
    blockers r = Z.of_nat (cntb (pendK (keys s)) (tkeys r)) /\
    (waiter r = WOpen <-> (0 < blockers r)%Z) /\
    (waiter r = WClosed -> blockers r = 0%Z).
Proof.
  intros Hs Hd. pose proof (reach_C _ _ _ Hs Hd) as IC. split; [apply (c_brk _ _ IC)|].
  intros t r Hr. pose proof (c_blk _ _ IC _ _ Hr) as Hb. pose proof (c_wait _ _ IC _ _ Hr) as Hw.
  split; [exact Hb|]. split; [exact Hw|]. intros Hc.
  destruct (Z.eq_dec (blockers r) 0) as [|Hne]; [assumption|].
  assert (waiter r = WOpen) by (apply Hw; lia). congruence.
Qed.

(* no lost wake-up (local form): a Get waiting for a tx whose keys are all cached can proceed *)
Lemma wake_enabled c tr s g t r : steps c (init c) tr s -> dupid s = false ->
  gph s g = GWait t -> txs s t = Some r ->
  (forall k, k ∈ tkeys r -> cachedK (keys s) k = true) \/ stop s = true ->
  exists b s', step c s (LGetWake g b) = Some s'.
Proof.
  intros Hs Hd Hg Hr Hor. destruct (accounting _ _ _ Hs Hd) as [_ Hacc].
  destruct (Hacc _ _ Hr) as (Hb & Hw & _).
  destruct (waiter r) eqn:Ew.
  - exists false. cbn [step]. rewrite Hg, Hr, Ew. eauto.
  - destruct Hor as [Hall|Hst].
    + exfalso. assert (Hz : cntb (pendK (keys s)) (tkeys r) = 0).
      { apply Nat.eq_add_0 with (m := 0). rewrite Nat.add_0_r.
        clear -Hall. induction (tkeys r) as [|x l IH]; [reflexivity|]. cbn.
        assert (Hx : cachedK (keys s) x = true) by (apply Hall; constructor).
        unfold cachedK in Hx. unfold pendK. destruct (keys s x) as [kr|]; [|discriminate].
        destruct (cache kr); [|discriminate]. cbn. apply IH. intros k Hk. apply Hall. constructor. exact Hk. }
      assert (0 < blockers r)%Z by (apply Hw; reflexivity). lia.
    + exists true. cbn [step]. rewrite Hg, Hr, Ew, Hst. eauto.
  - exists false. cbn [step]. rewrite Hg, Hr, Ew. eauto.
Qed.

(* ============================================================================ group E: the sticky error *)
Record InvE (c : cfg) (s : state) : Prop := {
  e_get : forall g t e, EvGetRet g t (GErr e) ∈ log s -> e = err s /\ e <> None;
  e_fetch : forall i e, EvFetchRet i (Some e) ∈ log s -> err s = Some e;
  e_wait : forall e, EvWaitRet e ∈ log s -> e = err s /\ onc s = ODone;
  e_surf : forall k, is_fail c k = true -> k ∈ readsl (log s) ->
           err s <> None \/ exists w, ws s !! w = Some (WFail k)
}.

Lemma invE_init c : InvE c (init c).
Proof. split; cbn; intros; match goal with H : _ ∈ [] |- _ => inversion H end. Qed.

Ltac solveE IE :=
  destruct IE as [Hget Hfetch Hwaitr Hsurf];
  split; rewrite ?readsl_cons;
  cbn [keys txs err onc stop tclosed queue unsent fph gph ws dupid broken log set_w set_ws set_fph set_gph app] in *;
  rewrite ?readsl_cons, ?app_nil_r.

Ltac ev_old H := intros; match goal with Hin : _ ∈ _ :: _ |- _ =>
  apply elem_of_cons in Hin as [Hin|Hin]; [discriminate Hin|]; eapply H; eassumption end.

Ltac surf_move Hsurf :=
  let k1 := fresh "k" in let Hf := fresh "Hf" in let Hin := fresh "Hin" in
  intros k1 Hf Hin; destruct (Hsurf k1 Hf Hin) as [?|[w1 Hw1]]; [left; assumption|];
  right; exists w1;
  match goal with E : ws _ !! ?w = Some _ |- _ =>
    rewrite list_lookup_insert_ne; [exact Hw1|]; intros ->; rewrite Hw1 in E; discriminate E end.

Lemma invE_step c s l s' : InvA c s -> InvE c s -> step c s l = Some s' -> InvE c s'.
Proof.
  intros IA IE H. destruct l; cbn [step] in H; des_step H; solveE IE.
  all: try exact Hget. all: try exact Hfetch. all: try exact Hwaitr. all: try exact Hsurf.
  all: try (ev_old Hget). all: try (ev_old Hfetch). all: try (ev_old Hwaitr).
  all: try (surf_move Hsurf).
  (* LFetch refused *)
  - intros i1 e1 Hin. apply elem_of_cons in Hin as [Hin|Hin]; [inversion Hin; subst; assumption|eauto].
  (* LFetch *)
  - match goal with E : err s = None |- _ => rewrite E in Hget end. exact Hget.
  - match goal with E : err s = None |- _ => rewrite E in Hfetch end. exact Hfetch.
  - match goal with E : err s = None |- _ => rewrite E in Hwaitr end. exact Hwaitr.
  - match goal with E : err s = None |- _ => rewrite E in Hsurf end. exact Hsurf.
  (* LSendStop *)
  - intros i1 e1 Hin. apply elem_of_cons in Hin as [Hin|Hin]; [inversion Hin; subst; congruence|eauto].
  (* LRead *)
  - intros k1 Hf Hin. apply elem_of_app in Hin as [Hin|Hin].
    + destruct (Hsurf k1 Hf Hin) as [?|[w1 Hw1]]; [left; assumption|]. right. exists w1.
      rewrite list_lookup_insert_ne; [exact Hw1|]. intros ->.
      match goal with E : ws s !! _ = Some (WHas _) |- _ => rewrite Hw1 in E; discriminate E end.
    + apply elem_of_list_singleton in Hin as ->. rewrite Hf. right. exists w. apply list_lookup_insert.
      eapply lookup_lt_Some; eassumption.
  (* LErrSet *)
  - intros g1 t1 e1 Hin. destruct (Hget _ _ _ Hin) as [He Hn]. exfalso. apply Hn. rewrite He. apply (a_new _ _ IA). assumption.
  - intros i1 e1 Hin. pose proof (Hfetch _ _ Hin) as He. rewrite (a_new _ _ IA) in He by assumption. discriminate.
  - intros e1 Hin. destruct (Hwaitr _ Hin) as [_ Ho]. congruence.
  - intros; left; discriminate.
  (* LErrSkip *)
  - intros k1 Hf Hin. left.
    match goal with Ho : onc s = ODone |- _ => destruct (a_done _ _ IA Ho) as [Hs|Hx] end.
    + apply (a_stop _ _ IA Hs).
    + not_exited.
  (* LErrClose *)
  - intros e1 Hin. split; [apply (Hwaitr _ Hin)|reflexivity].
  - intros k1 Hf Hin. left. match goal with Ho : onc s = ORun _ |- _ => apply (a_run _ _ IA _ Ho) end.
  (* LStop *)
  - intros g1 t1 e1 Hin. destruct (Hget _ _ _ Hin) as [He Hn]. exfalso. apply Hn. rewrite He. apply (a_new _ _ IA). assumption.
  - intros i1 e1 Hin. pose proof (Hfetch _ _ Hin) as He. rewrite (a_new _ _ IA) in He by assumption. discriminate.
  - intros e1 Hin. destruct (Hwaitr _ Hin) as [_ Ho]. congruence.
  - intros; left; discriminate.
  (* LGetWake true *)
  - intros g1 t1 e1 Hin. apply elem_of_cons in Hin as [Hin|Hin]; [|eauto].
    inversion Hin; subst. split; [reflexivity|]. apply (a_stop _ _ IA). assumption.
  - intros g1 t1 e1 Hin. apply elem_of_cons in Hin as [Hin|Hin]; [|eauto].
    inversion Hin; subst. split; [reflexivity|]. apply (a_stop _ _ IA). assumption.
  (* LWaitRet *)
  - intros e1 Hin. apply elem_of_cons in Hin as [Hin|Hin]; [inversion Hin; subst; split; reflexivity|].
    split; [apply (Hwaitr _ Hin)|reflexivity].
  - intros e1 Hin. apply elem_of_cons in Hin as [Hin|Hin]; [inversion Hin; subst; split; reflexivity|].
    split; [apply (Hwaitr _ Hin)|reflexivity].
Qed.

Lemma reach_E c tr s : steps c (init c) tr s -> InvE c s.
Proof.
  revert tr s. apply (steps_ind_inv c (fun _ s => InvE c s)).
  - apply invE_init.
  - intros tr s l s' Hs IH Hst. destruct (reach_AB _ _ _ Hs) as [IA _]. eapply invE_step; eassumption.
Qed.

(* the error is sticky: once set it never changes *)
Lemma err_sticky c s l s' e : InvA c s -> step c s l = Some s' -> err s = Some e -> err s' = Some e.
Proof.
  intros IA H He. destruct l; cbn [step] in H; des_step H; cbn [err set_w set_ws set_fph set_gph]; try exact He.
  all: try discriminate He; try congruence.
  all: match goal with Ho : onc _ = ONew |- _ => rewrite (a_new _ _ IA Ho) in He; discriminate He end.
Qed.

(* Fetch refuses new transactions once the error is set: nothing is registered, the error is returned *)
Lemma fetch_refused c s i t ks e s' : err s = Some e -> step c s (LFetch i t ks) = Some s' ->
  keys s' = keys s /\ txs s' = txs s /\ unsent s' = unsent s /\ fph s' i = FRet (Some e).
Proof.
  intros He H. cbn [step] in H. destruct (fph s i); try discriminate. destruct (tclosed s); [discriminate|].
  rewrite He in H. inversion H; subst. cbn. rewrite upd_eq. auto.
Qed.

Lemma error_not_absence c tr s : steps c (init c) tr s ->
  (* a Get that returns an error returns the (non-nil, sticky) error of the fetcher *)
  (forall g t e, (g, t, GErr e) ∈ get_results s -> e = err s /\ e <> None) /\
  (* a failing read that happened cannot go unnoticed: the error is set, or the worker is about to set it *)
  (forall k, is_fail c k = true -> k ∈ reads s -> err s <> None \/ exists w, ws s !! w = Some (WFail k)) /\
  (* what Fetch / Wait returned is the final error *)
  (forall i e, EvFetchRet i (Some e) ∈ log s -> err s = Some e) /\
  (forall e, EvWaitRet e ∈ log s -> e = err s).
Proof.
  intros Hs. pose proof (reach_E _ _ _ Hs) as IE. split; [|split; [|split]].
  - intros g t e Hin. apply get_results_log in Hin. eapply e_get; eassumption.
  - intros k Hf Hin. rewrite reads_readsl in Hin. eapply e_surf; eassumption.
  - intros i e Hin. eapply e_fetch; eassumption.
  - intros e Hin. apply (e_wait _ _ IE _ Hin).
Qed.

(* ============================================================================ group D: liveness of tasks *)
Definition hold (p : wphase) : list key := match p with WHas k | WGot k _ => [k] | _ => [] end.
Definition lv (s : state) (k : key) : nat :=
  cn (map snd (unsent s)) k + cn (queue s) k + cn (flat_map hold (ws s)) k.
Definition errpath (s : state) : Prop :=
  stop s = true \/ (exists o, onc s = ORun o) \/ exists w k, ws s !! w = Some (WFail k).
Definition InvD (s : state) : Prop :=
  forall k kr, keys s k = Some kr -> cache kr = None -> 0 < lv s k \/ errpath s.

Lemma cn_fm_insert (f : wphase -> list key) (l : list wphase) w q p k : l !! w = Some q ->
  cn (flat_map f (<[w := p]> l)) k + cn (f q) k = cn (flat_map f l) k + cn (f p) k.
Proof.
  intros H. assert (Hlt : w < length l) by (eapply lookup_lt_Some; eassumption).
  rewrite insert_take_drop by assumption. rewrite <- (take_drop_middle _ _ _ H) at 3.
  rewrite !flat_map_app'. cbn [flat_map]. rewrite !cn_app. lia.
Qed.

Lemma invD_init c : InvD (init c).
Proof. intros k kr H. discriminate H. Qed.

Lemma errpath_ws_other s (x : list wphase) :
  (stop s = true \/ (exists o, onc s = ORun o)) -> errpath (set_ws s x).
Proof. intros [H|H]; [left|right; left]; exact H. Qed.

Ltac ep_move Hw He :=
  let Hs := fresh "Hs" in let Ho := fresh "Ho" in let w1 := fresh "w" in let k1 := fresh "k" in let Hw1 := fresh "Hw" in
  destruct He as [Hs|[Ho|(w1 & k1 & Hw1)]];
  [right; left; exact Hs | right; right; left; exact Ho
  |right; right; right; exists w1, k1; rewrite list_lookup_insert_ne;
     [exact Hw1 | intros ->; rewrite Hw1 in Hw; discriminate Hw]].

Lemma invD_step c s l s' : InvA c s -> InvD s -> step c s l = Some s' -> InvD s'.
Proof.
  intros IA ID H. destruct l; cbn [step] in H; des_step H; unfold InvD, lv, errpath in *;
  cbn [keys txs err onc stop tclosed queue unsent fph gph ws dupid broken log set_w set_ws set_fph set_gph] in *.
  all: try exact ID.
  (* LFetch *)
  - pose proof (fetch_keys_spec t (keys s) ks) as Hfk.
    match goal with E : fetch_keys _ _ _ = _ |- _ => rewrite E in Hfk end.
    intros k kr Hk Hc. rewrite map_app, map_snd_pair, cn_app.
    destruct (fk_blocked _ _ _ _ _ _ _ _ Hfk Hk Hc) as [[HK _]|(kr0 & HK & Hc0 & _)].
    + left. assert (Hin : k ∈ l).
      { apply (fk_tasks _ _ _ _ _ _ Hfk). split; [|exact HK]. destruct (decide (k ∈ ks)) as [|Hni]; [assumption|].
        rewrite (fk_other _ _ _ _ _ _ Hfk _ Hni), HK in Hk. discriminate. }
      apply cn_pos in Hin. lia.
    + destruct (ID _ _ HK Hc0) as [Hl|He]; [left; lia|right; exact He].
  (* LSend *)
  - intros k1 kr Hk Hc. destruct (ID _ _ Hk Hc) as [Hl|He]; [left|right; exact He].
    match goal with Hp : pop_first _ _ = Some _ |- _ => rewrite (cn_pop _ _ _ _ k1 Hp) in Hl end.
    rewrite cn_app, cn_single. lia.
  (* LSendStop *)
  - intros; right; left; reflexivity.
  (* LTake *)
  - intros k1 kr Hk Hc.
    match goal with Hw : ws s !! _ = Some WIdle |- _ =>
      pose proof (cn_fm_insert hold _ _ _ (WHas k) k1 Hw) as Hi;
      destruct (ID _ _ Hk Hc) as [Hl|He]; [left|ep_move Hw He] end.
    match goal with Hq : queue s = _ |- _ => rewrite Hq in Hl end. cbn [hold cn] in *. lia.
  (* LExit *)
  - intros k1 kr Hk Hc.
    match goal with Hw : ws s !! _ = Some WIdle |- _ =>
      pose proof (cn_fm_insert hold _ _ _ WExit k1 Hw) as Hi;
      destruct (ID _ _ Hk Hc) as [Hl|He]; [left|ep_move Hw He] end.
    cbn [hold cn] in *. lia.
  (* LRead *)
  - intros k1 kr Hk Hc. destruct (is_fail c k) eqn:Ef.
    + right. right. right. exists w, k. apply list_lookup_insert. eapply lookup_lt_Some; eassumption.
    + match goal with Hw : ws s !! _ = Some (WHas _) |- _ =>
        pose proof (cn_fm_insert hold _ _ _ (WGot k (c_parent c !! k)) k1 Hw) as Hi;
        destruct (ID _ _ Hk Hc) as [Hl|He]; [left|ep_move Hw He] end.
      cbn [hold cn] in *. lia.
  (* LSet *)
  - intros k1 kr Hk Hc. unfold upd in Hk. destruct (decide (k = k1)) as [<-|Hne]; [inversion Hk; subst; discriminate|].
    match goal with Hw : ws s !! _ = Some (WGot _ _) |- _ =>
      pose proof (cn_fm_insert hold _ _ _ WIdle k1 Hw) as Hi;
      destruct (ID _ _ Hk Hc) as [Hl|He]; [left|ep_move Hw He] end.
    cbn [hold cn] in *. destruct (decide (k = k1)); [congruence|]. lia.
  - intros k1 kr Hk Hc. assert (Hne : k <> k1) by (intros ->; congruence).
    match goal with Hw : ws s !! _ = Some (WGot _ _) |- _ =>
      pose proof (cn_fm_insert hold _ _ _ WIdle k1 Hw) as Hi;
      destruct (ID _ _ Hk Hc) as [Hl|He]; [left|ep_move Hw He] end.
    cbn [hold cn] in *. destruct (decide (k = k1)); [congruence|]. lia.
  (* LErrSet *)
  - intros; right; right; left; eexists; reflexivity.
  (* LErrSkip *)
  - intros. right. left.
    match goal with Ho : onc s = ODone |- _ => destruct (a_done _ _ IA Ho) as [Hs|Hx] end; [exact Hs|not_exited].
  (* LErrClose *)
  - intros; right; left; reflexivity.
  (* LStop *)
  - intros; right; right; left; eexists; reflexivity.
  (* LWaitClose *)
  - intros k1 kr Hk Hc. specialize (ID _ _ Hk Hc).
    match goal with Hq : unsent s = [] |- _ => rewrite Hq in ID end. exact ID.
  (* LWaitRet *)
  - intros k1 kr Hk Hc. destruct (ID _ _ Hk Hc) as [Hl|[Hs|[[o Ho]|He]]]; [left; exact Hl|right; left; exact Hs|congruence|].
    right. right. right. exact He.
  - intros k1 kr Hk Hc. destruct (ID _ _ Hk Hc) as [Hl|[Hs|[[o Ho]|He]]]; [left; exact Hl|right; left; exact Hs|congruence|].
    right. right. right. exact He.
Qed.

Lemma reach_D c tr s : steps c (init c) tr s -> InvD s.
Proof.
  revert tr s. apply (steps_ind_inv c (fun _ s => InvD s)).
  - apply invD_init.
  - intros tr s l s' Hs IH Hst. destruct (reach_AB _ _ _ Hs) as [IA _]. eapply invD_step; eassumption.
Qed.

(* ============================================================================ progress *)
(* labels of the fetcher's own threads and of callers already inside Fetch / Get *)
Definition is_internal (l : label) : bool :=
  match l with
  | LFetch _ _ _ | LGetBegin _ _ | LStop | LWaitClose | LWaitRet => false
  | _ => true
  end.

Lemma hold_nil_cn (l : list wphase) k :
  (forall w p, l !! w = Some p -> p = WIdle \/ p = WExit) -> cn (flat_map hold l) k = 0.
Proof.
  induction l as [|p l IH]; intros H; [reflexivity|]. cbn [flat_map]. rewrite cn_app, IH.
  - destruct (H 0 p eq_refl) as [->| ->]; reflexivity.
  - intros w q Hq. apply (H (S w) q). exact Hq.
Qed.

Lemma progress c tr s : steps c (init c) tr s -> dupid s = false -> 1 <= c_nw c -> 1 <= c_cap c ->
  (forall l, is_internal l = true -> step c s l = None) ->
  (forall w p, ws s !! w = Some p -> p = WIdle \/ p = WExit) /\
  unsent s = [] /\
  (forall i, fph s i = FNone \/ exists e, fph s i = FRet e) /\
  (forall g, gph s g = GNone \/ exists r, gph s g = GRet r).
Proof.
  intros Hs Hd Hnw Hcap Hq.
  destruct (reach_AB _ _ _ Hs) as [IA IB]. pose proof (reach_C _ _ _ Hs Hd) as IC. pose proof (reach_D _ _ _ Hs) as ID.
  (* 1: sync.Once is not running *)
  assert (Honc : forall o, onc s <> ORun o).
  { intros o Ho. specialize (Hq LErrClose eq_refl). cbn [step] in Hq. rewrite Ho in Hq. discriminate. }
  (* 2: every worker is idle or gone *)
  assert (Hws : forall w p, ws s !! w = Some p -> p = WIdle \/ p = WExit).
  { intros w p Hw. destruct p as [|k|k r|k| |]; auto; exfalso.
    - specialize (Hq (LRead w) eq_refl). cbn [step] in Hq. rewrite Hw in Hq. discriminate.
    - specialize (Hq (LSet w) eq_refl). cbn [step] in Hq. rewrite Hw in Hq.
      destruct (keys s k); [destruct (notify (txs s) (blocked k0))|]; discriminate.
    - destruct (onc s) eqn:Eo.
      + specialize (Hq (LErrSet w) eq_refl). cbn [step] in Hq. rewrite Hw, Eo in Hq. discriminate.
      + first [eapply Honc; eassumption | eapply Honc; reflexivity].
      + specialize (Hq (LErrSkip w) eq_refl). cbn [step] in Hq. rewrite Hw, Eo in Hq. discriminate.
    - eapply Honc. apply (a_closing _ _ IA _ Hw). }
  (* 3: a non-empty task channel is impossible, and so is a closed stop channel with an idle worker *)
  assert (Hex : (exists w, ws s !! w = Some WIdle) \/ (exists w, ws s !! w = Some WExit)).
  { assert (Hl : 0 < length (ws s)) by (rewrite (a_len _ _ IA); lia).
    destruct (ws s) as [|p l] eqn:E; [cbn in Hl; lia|]. destruct (Hws 0 p) as [->| ->]; [reflexivity| |];
      [left|right]; exists 0; reflexivity. }
  assert (Hqueue : stop s = false -> queue s = []).
  { intros Hst. destruct (queue s) as [|k q] eqn:Eq; [reflexivity|]. exfalso. destruct Hex as [[w Hw]|[w Hw]].
    - specialize (Hq (LTake w) eq_refl). cbn [step] in Hq. rewrite Hw, Eq in Hq. discriminate.
    - destruct (a_exit _ _ IA _ Hw) as [?|[_ ?]]; congruence. }
  assert (Hidle : stop s = true -> forall w, ws s !! w <> Some WIdle).
  { intros Hst w Hw. specialize (Hq (LExit w) eq_refl). cbn [step] in Hq. rewrite Hw, Hst in Hq. discriminate. }
  (* 4: no Fetch call is in its send loop *)
  assert (Hf : forall i, fph s i = FNone \/ exists e, fph s i = FRet e).
  { intros i. destruct (fph s i) as [|t|e] eqn:Ef; [left; reflexivity| |right; eexists; reflexivity]. exfalso.
    destruct (pop_first i (unsent s)) as [[k rest]|] eqn:Ep.
    - destruct (stop s) eqn:Est.
      + specialize (Hq (LSendStop i) eq_refl). cbn [step] in Hq. rewrite Ef, Ep, Est in Hq. discriminate.
      + specialize (Hq (LSend i) eq_refl). cbn [step] in Hq. rewrite Ef, Ep, (Hqueue eq_refl) in Hq.
        cbn [length] in Hq. destruct (Nat.ltb_spec 0 (c_cap c)); [discriminate|lia].
    - specialize (Hq (LFetchRet i) eq_refl). cbn [step] in Hq. rewrite Ef, Ep in Hq. discriminate. }
  assert (Hun : unsent s = []).
  { destruct (unsent s) as [|[i k] u] eqn:Eu; [reflexivity|]. exfalso.
    destruct (a_unsent _ _ IA i k) as [t Ht]; [rewrite Eu; constructor|].
    destruct (Hf i) as [H|[e H]]; congruence. }
  split; [exact Hws|]. split; [exact Hun|]. split; [exact Hf|].
  (* 5: no Get call is blocked *)
  intros g. destruct (gph s g) as [|t|t|r] eqn:Eg; [left; reflexivity| | |right; eexists; reflexivity]; exfalso.
  - (* waiting *)
    destruct (txs s t) as [r|] eqn:Et; [|exact (c_gwait _ _ IC _ _ Eg Et)].
    destruct (wake_enabled c tr s g t r Hs Hd Eg Et) as (b & s2 & Hst).
    + destruct (stop s) eqn:Est; [right; reflexivity|left].
      intros k Hk. pose proof (c_txkeys _ _ IC _ _ Et _ Hk) as Hent.
      unfold cachedK. destruct (keys s k) as [kr|] eqn:EK; [|congruence].
      destruct (cache kr) eqn:Ec; [reflexivity|]. exfalso.
      destruct (ID _ _ EK Ec) as [Hl|[Hst|[[o Ho]|(w & k' & Hw)]]].
      * unfold lv in Hl. rewrite Hun, (Hqueue eq_refl), (hold_nil_cn _ _ Hws) in Hl. cbn in Hl. lia.
      * congruence.
      * eapply Honc; eassumption.
      * destruct (Hws _ _ Hw); discriminate.
    + rewrite (Hq (LGetWake g b) eq_refl) in Hst. discriminate.
  - (* reading *)
    destruct (c_gread _ _ IC _ _ Eg) as (r & Hr & _).
    specialize (Hq (LGetRead g) eq_refl). cbn [step] in Hq. rewrite Eg, Hr in Hq. discriminate.
Qed.
