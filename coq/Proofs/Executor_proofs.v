(* Executor_proofs.v — invariants of the executor LTS (Model/Executor.v) over ALL traces. *)
From Coq Require Import List NArith ZArith Bool Arith Lia ZifyNat ZifyN ZifyBool.
Import ListNotations.
From HV Require Import Model.Executor.

Set Implicit Arguments.

(* ------------------------------------------------------------------------------------------------ *)
(* 1. list-as-set helpers                                                                            *)
(* ------------------------------------------------------------------------------------------------ *)

Lemma mem_In : forall x l, mem x l = true <-> In x l.
Proof.
  intros x l. unfold mem. rewrite existsb_exists. split.
  - intros (y & Hy & He). apply Nat.eqb_eq in He. subst. exact Hy.
  - intros H. exists x. split; [exact H | apply Nat.eqb_refl].
Qed.

Lemma mem_nIn : forall x l, mem x l = false <-> ~ In x l.
Proof.
  intros x l. rewrite <- mem_In. destruct (mem x l); split; intros H; congruence.
Qed.

Lemma In_addset : forall x y l, In x (addset y l) <-> x = y \/ In x l.
Proof.
  intros x y l. unfold addset. destruct (mem y l) eqn:E.
  - apply mem_In in E. split; [tauto|]. intros [->|H]; assumption.
  - rewrite in_app_iff. cbn. split; intros H; [destruct H as [H|[H|[]]]|destruct H as [H|H]]; auto.
Qed.

Lemma NoDup_snoc : forall (y : nat) l, NoDup l -> ~ In y l -> NoDup (l ++ [y]).
Proof.
  intros y l H. induction H as [|a l Ha Hl IH]; intros Hy; cbn.
  - constructor; [intros []|constructor].
  - constructor.
    + rewrite in_app_iff. cbn. intros [H|[H|[]]]; [auto|]. subst. apply Hy. left. reflexivity.
    + apply IH. intros H. apply Hy. right. exact H.
Qed.

Lemma NoDup_addset : forall y l, NoDup l -> NoDup (addset y l).
Proof.
  intros y l H. unfold addset. destruct (mem y l) eqn:E; [exact H|].
  apply mem_nIn in E. apply NoDup_snoc; assumption.
Qed.

Lemma In_delset : forall x y l, In x (delset y l) <-> x <> y /\ In x l.
Proof.
  intros x y l. unfold delset. rewrite filter_In. split.
  - intros (H & E). split; [|exact H]. intros ->. rewrite Nat.eqb_refl in E. discriminate.
  - intros (H & E). split; [exact E|]. destruct (Nat.eqb y x) eqn:E'; [|reflexivity].
    apply Nat.eqb_eq in E'. congruence.
Qed.

Lemma NoDup_delset : forall y l, NoDup l -> NoDup (delset y l).
Proof. intros. apply NoDup_filter. assumption. Qed.

Lemma unionset_cons : forall l x a, unionset l (x :: a) = unionset (addset x l) a.
Proof. reflexivity. Qed.

Lemma In_unionset : forall a l x, In x (unionset l a) <-> In x l \/ In x a.
Proof.
  induction a as [|y a IH]; intros l x.
  - cbn. tauto.
  - rewrite unionset_cons, IH, In_addset. cbn. intuition.
Qed.

Lemma NoDup_unionset : forall a l, NoDup l -> NoDup (unionset l a).
Proof.
  induction a as [|y a IH]; intros l H; [exact H|].
  rewrite unionset_cons. apply IH. apply NoDup_addset. exact H.
Qed.

(* counting *)
Definition cnt (g : nat -> bool) (l : list nat) : nat := length (filter g l).

Lemma cnt_app : forall g l1 l2, cnt g (l1 ++ l2) = cnt g l1 + cnt g l2.
Proof. intros. unfold cnt. rewrite filter_app, app_length. reflexivity. Qed.

Lemma cnt_ext_in : forall g g' l, (forall x, In x l -> g x = g' x) -> cnt g l = cnt g' l.
Proof. intros. unfold cnt. f_equal. apply filter_ext_in. assumption. Qed.

Lemma cnt_le : forall g l, cnt g l <= length l.
Proof. intros g l. unfold cnt. induction l as [|a l IH]; cbn; [lia|]. destruct (g a); cbn; lia. Qed.

Lemma cnt_addset : forall g y l, (In y l \/ g y = false) -> cnt g (addset y l) = cnt g l.
Proof.
  intros g y l H. unfold addset. destruct (mem y l) eqn:E; [reflexivity|].
  apply mem_nIn in E. destruct H as [H|H]; [contradiction|].
  rewrite cnt_app. unfold cnt at 2. cbn. rewrite H. cbn. lia.
Qed.

Lemma cnt_unionset : forall g a l, (forall y, In y a -> In y l \/ g y = false) ->
  cnt g (unionset l a) = cnt g l.
Proof.
  intros g. induction a as [|y a IH]; intros l H; [reflexivity|].
  rewrite unionset_cons, IH.
  - apply cnt_addset. apply H. left. reflexivity.
  - intros z Hz. destruct (H z (or_intror Hz)) as [H1|H1]; [left|right; exact H1].
    apply In_addset. right. exact H1.
Qed.

(* exactly one element flips from false to true *)
Lemma cnt_flip : forall g g' t l, NoDup l -> In t l -> g t = false -> g' t = true ->
  (forall u, u <> t -> g' u = g u) -> cnt g' l = S (cnt g l).
Proof.
  intros g g' t l Hnd. induction Hnd as [|a l Ha Hl IH]; intros Hin Hg Hg' Hext; [destruct Hin|].
  unfold cnt in *. cbn. destruct Hin as [->|Hin].
  - rewrite Hg, Hg'. cbn. f_equal. f_equal. apply filter_ext_in.
    intros u Hu. apply Hext. intros ->. contradiction.
  - assert (a <> t) by (intros ->; contradiction).
    rewrite (Hext a H). destruct (g a); cbn; rewrite IH; auto.
Qed.

Lemma cnt_lt : forall g t l, In t l -> g t = false -> cnt g l < length l.
Proof.
  intros g t l. induction l as [|a l IH]; intros Hin Hg; [destruct Hin|].
  unfold cnt in *. cbn. destruct Hin as [->|Hin].
  - rewrite Hg. pose proof (cnt_le g l). unfold cnt in *. lia.
  - specialize (IH Hin Hg). destruct (g a); cbn; lia.
Qed.

Lemma cnt_lt2 : forall g t u l, In t l -> In u l -> t <> u -> g t = false -> g u = false ->
  cnt g l + 2 <= length l.
Proof.
  intros g t u l. induction l as [|a l IH]; intros Ht Hu Hne Hgt Hgu; [destruct Ht|].
  unfold cnt in *. cbn. destruct Ht as [->|Ht], Hu as [->|Hu].
  - congruence.
  - rewrite Hgt. pose proof (@cnt_lt g u l Hu Hgu). unfold cnt in *. lia.
  - rewrite Hgu. pose proof (@cnt_lt g t l Ht Hgt). unfold cnt in *. lia.
  - specialize (IH Ht Hu Hne Hgt Hgu). destruct (g a); cbn; lia.
Qed.

Lemma NoDup_lt_length : forall l n, NoDup l -> (forall x, In x l -> x < n) -> length l <= n.
Proof.
  intros l n Hnd H. rewrite <- (seq_length n 0). apply NoDup_incl_length; [exact Hnd|].
  intros x Hx. apply in_seq. specialize (H x Hx). lia.
Qed.

(* ------------------------------------------------------------------------------------------------ *)
(* 2. find_key / del_key                                                                             *)
(* ------------------------------------------------------------------------------------------------ *)

Lemma find_key_del_same : forall k rem, find_key k (del_key k rem) = None.
Proof.
  intros k rem. unfold find_key, del_key. induction rem as [|[k' p] rem IH]; [reflexivity|].
  cbn. destruct (N.eqb k' k) eqn:E; cbn; [exact IH|]. rewrite E. exact IH.
Qed.

Lemma find_key_del_other : forall k k' rem, k <> k' -> find_key k (del_key k' rem) = find_key k rem.
Proof.
  intros k k' rem Hne. unfold find_key, del_key. induction rem as [|[k2 p] rem IH]; [reflexivity|].
  cbn. destruct (N.eqb k2 k') eqn:E; cbn.
  - apply N.eqb_eq in E. subst k2. destruct (N.eqb k' k) eqn:E2; [apply N.eqb_eq in E2; congruence|].
    exact IH.
  - destruct (N.eqb k2 k); [reflexivity|exact IH].
Qed.

Lemma find_key_hd : forall k p rem, find_key k ((k, p) :: rem) = Some p.
Proof. intros. unfold find_key. cbn. rewrite N.eqb_refl. reflexivity. Qed.

Lemma find_key_Some_In : forall k p t, find_key k t = Some p -> In (k, p) t.
Proof.
  intros k p t. unfold find_key. induction t as [|[k' q] t IH]; cbn; [discriminate|].
  destruct (N.eqb k' k) eqn:E.
  - cbn. intros H. injection H as <-. apply N.eqb_eq in E. subst. left. reflexivity.
  - intros H. right. apply IH. exact H.
Qed.

Lemma find_key_In : forall k p t, NoDup (map fst t) -> In (k, p) t -> find_key k t = Some p.
Proof.
  intros k p t. unfold find_key. induction t as [|[k' q] t IH]; cbn; intros Hnd Hin; [destruct Hin|].
  inversion Hnd as [|x l Hx Hl]; subst. destruct Hin as [Hin|Hin].
  - injection Hin as -> ->. rewrite N.eqb_refl. reflexivity.
  - destruct (N.eqb k' k) eqn:E.
    + apply N.eqb_eq in E. subst k'. exfalso. apply Hx. apply in_map_iff. exists (k, p). auto.
    + apply IH; assumption.
Qed.

(* ------------------------------------------------------------------------------------------------ *)
(* 3. the structural invariant                                                                       *)
(* ------------------------------------------------------------------------------------------------ *)

Definition fin (p : phase) : bool := match p with PAfter | PDone => true | _ => false end.
(* a worker is inside runTask for the task *)
Definition midp (p : phase) : bool :=
  match p with PTaken | PRun | PEnded _ | PAfter => true | _ => false end.

Definition cfg_ok (c : cfg) : Prop :=
  (Z.of_nat (length (c_ts c)) <= c_maxd c)%Z /\ forall t, In t (c_ts c) -> NoDup (map fst t).

Section Inv.
Variable c : cfg.

Definition keys_of (j : tid) : task := nth j (c_ts c) [].
Definition kperm (j : tid) (k : key) : option perm := find_key k (keys_of j).
Definition nonread (j : tid) (k : key) : Prop := exists p, kperm j k = Some p /\ is_read p = false.
Definition isread (j : tid) (k : key) : Prop := exists p, kperm j k = Some p /\ is_read p = true.

Definition curT := option (tid * list (key * perm)).

(* task j has gone through its Run iteration for key k *)
Definition reg (cur : curT) (nx : nat) (j : tid) (k : key) : Prop :=
  j < nx /\ kperm j k <> None /\ forall rem, cur = Some (j, rem) -> find_key k rem = None.

(* number of dependencies of x that already went through their Notify region *)
Definition nnot (T : tid -> trec) (x : tid) : nat :=
  cnt (fun t => negb (mem x (blocked (T t)))) (dset (T x)).

Record SI (T : tid -> trec) (nd : key -> option tid) (cur : curT) (nx : nat) : Prop := mkSI {
  b_blank : forall t, nx <= t -> T t = blank;
  b_nonone : forall t, t < nx -> ph (T t) <> PNone;
  b_next : nx <= length (c_ts c);
  b_exec : forall t, executed (T t) = true <-> ph (T t) = PDone;
  b_done : forall t, ph (T t) = PDone -> blocked (T t) = [] /\ reading (T t) = [];
  b_blk : forall t x, In x (blocked (T t)) -> ph (T x) = PReg /\ In t (dset (T x));
  b_blnd : forall t, NoDup (blocked (T t));
  b_rd : forall r o, In r (readers (T o)) <-> In o (reading (T r));
  b_rdlt : forall r o, In o (reading (T r)) -> o < r;
  b_dslt : forall t x, In t (dset (T x)) -> t < x;
  b_dsnd : forall x, NoDup (dset (T x));
  b_ds9 : forall t x, In t (dset (T x)) -> ph (T x) = PReg -> In x (blocked (T t)) \/ ph (T t) = PDone;
  c_cur : forall j rem, cur = Some (j, rem) ->
            nx = S j /\ ph (T j) = PReg /\ forall k p, find_key k rem = Some p -> kperm j k = Some p;
  d_cur : forall j rem, cur = Some (j, rem) -> deps (T j) = (c_maxd c - Z.of_nat (nnot T j))%Z;
  d_wait : forall x, ph (T x) = PReg -> (forall rem, cur <> Some (x, rem)) ->
            deps (T x) = (Z.of_nat (length (dset (T x))) - Z.of_nat (nnot T x))%Z /\ (0 < deps (T x))%Z;
  n_own : forall k o, nd k = Some o -> reg cur nx o k;
  n_reg : forall t k, reg cur nx t k -> exists o, nd k = Some o /\
            (t < o -> nonread o k) /\
            (o < t -> isread t k /\ (In o (reading (T t)) \/ fin (ph (T t)) = true));
  q_ord : forall i j k, i < j -> reg cur nx i k -> reg cur nx j k -> (nonread i k \/ nonread j k) ->
            fin (ph (T i)) = true \/
            (ph (T j) = PReg /\ exists o, i <= o /\ o < j /\ reg cur nx o k /\ (o = i \/ nonread o k) /\
                                          In j (blocked (T o)))
}.

Definition SIs (s : state) : Prop := SI (tasks s) (nodes s) (cursor s) (next s).

Lemma SI_init : SIs init.
Proof.
  unfold SIs, init; cbn. constructor; cbn; try (intros; try lia; try tauto; try discriminate; fail).
  - intros t. split; discriminate.
  - intros; constructor.
  - intros; constructor.
  - intros t k (H & _). lia.
  - intros i j k _ (H & _). lia.
Qed.


Ltac dSI I :=
  destruct I as [Bblank Bnonone Bnext Bexec Bdone Bblk Bblnd Brd Brdlt Bdslt Bdsnd Bds9 Ccur Dcur Dwait
                 Nown Nreg Qord].

(* ---- 3a. changing only phases (inside the worker part of the life cycle) ---- *)

Definition same_data (r r' : trec) : Prop :=
  deps r' = deps r /\ blocked r' = blocked r /\ readers r' = readers r /\ reading r' = reading r /\
  executed r' = executed r /\ dset r' = dset r.

Lemma nnot_ext : forall T T' x, (forall y, blocked (T' y) = blocked (T y)) -> dset (T' x) = dset (T x) ->
  nnot T' x = nnot T x.
Proof.
  intros T T' x Hb Hd. unfold nnot. rewrite Hd. apply cnt_ext_in. intros y _. rewrite Hb. reflexivity.
Qed.

Lemma SI_ext : forall T T' nd cur nx,
  SI T nd cur nx ->
  (forall x, same_data (T x) (T' x)) ->
  (forall x, ph (T' x) = PReg <-> ph (T x) = PReg) ->
  (forall x, ph (T' x) = PNone <-> ph (T x) = PNone) ->
  (forall x, ph (T' x) = PDone <-> ph (T x) = PDone) ->
  (forall x, fin (ph (T x)) = true -> fin (ph (T' x)) = true) ->
  SI T' nd cur nx.
Proof.
  intros T T' nd cur nx I Hsd Hreg Hnone Hdone Hfin.
  assert (Hdeps : forall x, deps (T' x) = deps (T x)) by (intros x; apply (Hsd x)).
  assert (Hblk : forall x, blocked (T' x) = blocked (T x)) by (intros x; apply (Hsd x)).
  assert (Hrds : forall x, readers (T' x) = readers (T x)) by (intros x; apply (Hsd x)).
  assert (Hrdg : forall x, reading (T' x) = reading (T x)) by (intros x; apply (Hsd x)).
  assert (Hexe : forall x, executed (T' x) = executed (T x)) by (intros x; apply (Hsd x)).
  assert (Hds : forall x, dset (T' x) = dset (T x)) by (intros x; apply (Hsd x)).
  assert (Hnn : forall x, nnot T' x = nnot T x) by (intros x; apply nnot_ext; auto).
  dSI I. constructor.
  - intros t Ht. specialize (Bblank t Ht).
    specialize (Hdeps t); specialize (Hblk t); specialize (Hrds t); specialize (Hrdg t);
    specialize (Hexe t); specialize (Hds t).
    assert (Hp : ph (T' t) = PNone) by (apply Hnone; rewrite Bblank; reflexivity).
    rewrite Bblank in *. destruct (T' t). cbn in *. subst. reflexivity.
  - intros t Ht H. apply Hnone in H. exact (Bnonone t Ht H).
  - exact Bnext.
  - intros t. rewrite Hexe, Hdone. apply Bexec.
  - intros t H. rewrite Hblk, Hrdg. apply Bdone. apply Hdone. exact H.
  - intros t x. rewrite Hblk, Hds, Hreg. apply Bblk.
  - intros t. rewrite Hblk. apply Bblnd.
  - intros r o. rewrite Hrds, Hrdg. apply Brd.
  - intros r o. rewrite Hrdg. apply Brdlt.
  - intros t x. rewrite Hds. apply Bdslt.
  - intros x. rewrite Hds. apply Bdsnd.
  - intros t x. rewrite Hds, Hreg, Hblk, Hdone. apply Bds9.
  - intros j rem H. rewrite Hreg. apply (Ccur j rem H).
  - intros j rem H. rewrite Hdeps, Hnn. apply (Dcur j rem H).
  - intros x. rewrite Hreg, Hdeps, Hnn, Hds. apply Dwait.
  - exact Nown.
  - intros t k H. destruct (Nreg t k H) as (o & Ho & H1 & H2). exists o. split; [exact Ho|].
    split; [exact H1|]. intros Hlt. destruct (H2 Hlt) as (Hr & Hd). split; [exact Hr|].
    rewrite Hrdg. destruct Hd as [Hd|Hd]; [left; exact Hd|right; apply Hfin; exact Hd].
  - intros i j k Hij Hi Hj Hnr. destruct (Qord i j k Hij Hi Hj Hnr) as [H|(Hp & o & H1 & H2 & H3 & H4 & H5)].
    + left. apply Hfin. exact H.
    + right. split; [apply Hreg; exact Hp|]. exists o. rewrite Hblk. auto.
Qed.

Definition actp (p : phase) : bool :=
  match p with PNone | PReg | PDone => false | _ => true end.

Lemma upd_same : forall A (f : nat -> A) x v, upd f x v x = v.
Proof. intros. unfold upd. rewrite Nat.eqb_refl. reflexivity. Qed.
Lemma upd_other : forall A (f : nat -> A) x v y, x <> y -> upd f x v y = f y.
Proof. intros. unfold upd. destruct (Nat.eqb x y) eqn:E; [apply Nat.eqb_eq in E; contradiction|reflexivity]. Qed.

Lemma SI_ph_only : forall T nd cur nx t p',
  SI T nd cur nx -> actp (ph (T t)) = true -> actp p' = true ->
  (fin (ph (T t)) = true -> fin p' = true) ->
  SI (upd T t (set_ph (T t) p')) nd cur nx.
Proof.
  intros T nd cur nx t p' I Ha Ha' Hf. apply SI_ext with (T := T); [exact I|..];
    intros x; destruct (Nat.eq_dec t x) as [->|Hne];
    rewrite ?upd_same, ?upd_other by exact Hne; unfold same_data; cbn; try tauto.
  - split; intros H; rewrite H in *; discriminate.
  - split; intros H; rewrite H in *; discriminate.
  - split; intros H; rewrite H in *; discriminate.
Qed.

(* ---- 3b. LRunBegin ---- *)

Lemma reg_runbegin_iff : forall nx keys t k,
  keys_of nx = keys ->
  (reg (Some (nx, keys)) (S nx) t k <-> reg None nx t k).
Proof.
  intros nx keys t k Hk. unfold reg. split.
  - intros (H1 & H2 & H3). assert (t <> nx).
    { intros ->. apply H2. unfold kperm. rewrite Hk. apply (H3 keys). reflexivity. }
    split; [lia|]. split; [exact H2|]. intros rem Hr. discriminate.
  - intros (H1 & H2 & _). split; [lia|]. split; [exact H2|]. intros rem Hr. injection Hr as -> _. lia.
Qed.

Lemma SI_runbegin : forall T nd nx keys,
  SI T nd None nx -> nth_error (c_ts c) nx = Some keys ->
  SI (upd T nx (fresh (c_maxd c))) nd (Some (nx, keys)) (S nx).
Proof.
  intros T nd nx keys I Hnth. dSI I.
  assert (Hkeys : keys_of nx = keys) by (unfold keys_of; apply nth_error_nth; exact Hnth).
  assert (Hbl : T nx = blank) by (apply Bblank; lia).
  set (T' := upd T nx (fresh (c_maxd c))).
  assert (Hsame : T' nx = fresh (c_maxd c)) by (apply upd_same).
  assert (Hoth : forall x, x <> nx -> T' x = T x) by (intros x Hx; apply upd_other; auto).
  assert (Hblk : forall y, blocked (T' y) = blocked (T y)).
  { intros y. destruct (Nat.eq_dec y nx) as [->|Hy]; [rewrite Hsame, Hbl; reflexivity|rewrite Hoth; auto]. }
  assert (Hrdg : forall y, reading (T' y) = reading (T y)).
  { intros y. destruct (Nat.eq_dec y nx) as [->|Hy]; [rewrite Hsame, Hbl; reflexivity|rewrite Hoth; auto]. }
  assert (Hrds : forall y, readers (T' y) = readers (T y)).
  { intros y. destruct (Nat.eq_dec y nx) as [->|Hy]; [rewrite Hsame, Hbl; reflexivity|rewrite Hoth; auto]. }
  assert (Hds : forall y, dset (T' y) = dset (T y)).
  { intros y. destruct (Nat.eq_dec y nx) as [->|Hy]; [rewrite Hsame, Hbl; reflexivity|rewrite Hoth; auto]. }
  assert (Hexe : forall y, executed (T' y) = executed (T y)).
  { intros y. destruct (Nat.eq_dec y nx) as [->|Hy]; [rewrite Hsame, Hbl; reflexivity|rewrite Hoth; auto]. }
  assert (Hph : forall y, y <> nx -> ph (T' y) = ph (T y)) by (intros y Hy; rewrite Hoth; auto).
  assert (Hphn : ph (T' nx) = PReg) by (rewrite Hsame; reflexivity).
  assert (Hphn0 : ph (T nx) = PNone) by (rewrite Hbl; reflexivity).
  assert (Hnn : forall x, nnot T' x = nnot T x) by (intros x; apply nnot_ext; auto).
  constructor.
  - intros t Ht. rewrite Hoth by lia. apply Bblank. lia.
  - intros t Ht. destruct (Nat.eq_dec t nx) as [->|Hy]; [rewrite Hphn; discriminate|].
    rewrite Hph by auto. apply Bnonone. lia.
  - apply nth_error_Some. rewrite Hnth. discriminate.
  - intros t. rewrite Hexe. destruct (Nat.eq_dec t nx) as [->|Hy].
    + rewrite Hphn, Hbl. cbn. split; discriminate.
    + rewrite Hph by auto. apply Bexec.
  - intros t. rewrite Hblk, Hrdg. destruct (Nat.eq_dec t nx) as [->|Hy].
    + rewrite Hphn. discriminate.
    + rewrite Hph by auto. apply Bdone.
  - intros t x. rewrite Hblk, Hds. intros H. destruct (Bblk t x H) as (H1 & H2).
    split; [|exact H2]. rewrite Hph; [exact H1|]. intros ->. congruence.
  - intros t. rewrite Hblk. apply Bblnd.
  - intros r o. rewrite Hrds, Hrdg. apply Brd.
  - intros r o. rewrite Hrdg. apply Brdlt.
  - intros t x. rewrite Hds. apply Bdslt.
  - intros x. rewrite Hds. apply Bdsnd.
  - intros t x. rewrite Hds, Hblk. intros H Hp.
    assert (Hx : x <> nx). { intros ->. rewrite Hbl in H. destruct H. }
    rewrite Hph in Hp by exact Hx. destruct (Bds9 t x H Hp) as [H1|H1]; [left; exact H1|right].
    rewrite Hph; [exact H1|]. intros ->. congruence.
  - intros j rem H. injection H as <- <-. split; [reflexivity|]. split; [exact Hphn|].
    intros k p Hf. unfold kperm. rewrite Hkeys. exact Hf.
  - intros j rem H. injection H as <- <-. rewrite Hnn. rewrite Hsame. cbn [deps fresh].
    unfold nnot. rewrite Hbl. cbn. lia.
  - intros x Hp Hc.
    assert (Hx : x <> nx). { intros ->. apply (Hc keys). reflexivity. }
    rewrite Hph in Hp by exact Hx. rewrite Hnn, Hds, (Hoth x Hx). apply Dwait; [exact Hp|].
    intros rem. discriminate.
  - intros k o H. apply reg_runbegin_iff; [exact Hkeys|]. apply Nown. exact H.
  - intros t k H. apply reg_runbegin_iff in H; [|exact Hkeys].
    assert (Ht : t <> nx) by (destruct H; lia).
    destruct (Nreg t k H) as (o & Ho & H1 & H2). exists o. rewrite Hrdg, (Hph t Ht). auto.
  - intros i j k Hij Hi Hj Hnr.
    apply reg_runbegin_iff in Hi; [|exact Hkeys]. apply reg_runbegin_iff in Hj; [|exact Hkeys].
    assert (Hi' : i <> nx) by (destruct Hi; lia). assert (Hj' : j <> nx) by (destruct Hj; lia).
    rewrite (Hph i Hi'), (Hph j Hj').
    destruct (Qord i j k Hij Hi Hj Hnr) as [H|(Hp & o & H1 & H2 & H3 & H4 & H5)]; [left; exact H|right].
    split; [exact Hp|]. exists o. rewrite Hblk.
    split; [exact H1|]. split; [exact H2|]. split; [apply reg_runbegin_iff; [exact Hkeys|exact H3]|].
    split; assumption.
Qed.

(* ---- 3c. LRunEnd ---- *)

Lemma reg_runend_iff : forall nx j t k, reg (Some (j, [])) nx t k <-> reg None nx t k.
Proof.
  intros nx j t k. unfold reg. split; intros (H1 & H2 & H3); (split; [exact H1|]); (split; [exact H2|]).
  - intros rem Hr. discriminate.
  - intros rem Hr. injection Hr as _ <-. reflexivity.
Qed.

Lemma cnt_full : forall g l, cnt g l = length l -> forall x, In x l -> g x = true.
Proof.
  intros g l H x Hx. destruct (g x) eqn:E; [reflexivity|].
  pose proof (@cnt_lt g x l Hx E). lia.
Qed.

Lemma SI_runend : forall T nd nx j p',
  SI T nd (Some (j, [])) nx ->
  let d' := (deps (T j) - (c_maxd c - Z.of_nat (length (dset (T j)))))%Z in
  ((p' = PReg /\ 0 < d') \/ (p' = PQueued /\ d' <= 0))%Z ->
  SI (upd T j (set_ph (set_deps (T j) d') p')) nd None nx.
Proof.
  intros T nd nx j p' I d' Hcase. dSI I.
  destruct (Ccur j [] eq_refl) as (Hnx & Hpj & _).
  pose proof (Dcur j [] eq_refl) as Hdj.
  assert (Hd' : d' = (Z.of_nat (length (dset (T j))) - Z.of_nat (nnot T j))%Z) by (unfold d'; lia).
  clearbody d'.
  set (T' := upd T j (set_ph (set_deps (T j) d') p')).
  assert (Hsame : T' j = set_ph (set_deps (T j) d') p') by (apply upd_same).
  assert (Hoth : forall x, x <> j -> T' x = T x) by (intros x Hx; apply upd_other; auto).
  assert (Hblk : forall y, blocked (T' y) = blocked (T y)).
  { intros y. destruct (Nat.eq_dec y j) as [->|Hy]; [rewrite Hsame; reflexivity|rewrite Hoth; auto]. }
  assert (Hrdg : forall y, reading (T' y) = reading (T y)).
  { intros y. destruct (Nat.eq_dec y j) as [->|Hy]; [rewrite Hsame; reflexivity|rewrite Hoth; auto]. }
  assert (Hrds : forall y, readers (T' y) = readers (T y)).
  { intros y. destruct (Nat.eq_dec y j) as [->|Hy]; [rewrite Hsame; reflexivity|rewrite Hoth; auto]. }
  assert (Hds : forall y, dset (T' y) = dset (T y)).
  { intros y. destruct (Nat.eq_dec y j) as [->|Hy]; [rewrite Hsame; reflexivity|rewrite Hoth; auto]. }
  assert (Hexe : forall y, executed (T' y) = executed (T y)).
  { intros y. destruct (Nat.eq_dec y j) as [->|Hy]; [rewrite Hsame; reflexivity|rewrite Hoth; auto]. }
  assert (Hph : forall y, y <> j -> ph (T' y) = ph (T y)) by (intros y Hy; rewrite Hoth; auto).
  assert (Hphj : ph (T' j) = p') by (rewrite Hsame; reflexivity).
  assert (Hdepj : deps (T' j) = d') by (rewrite Hsame; reflexivity).
  assert (Hnn : forall x, nnot T' x = nnot T x) by (intros x; apply nnot_ext; auto).
  (* when j becomes executable nobody has it in a blocked map *)
  assert (Hfree : p' = PQueued -> forall t, ~ In j (blocked (T t))).
  { intros Hq t Hin. destruct Hcase as [(Hc & _)|(_ & Hc)]; [congruence|].
    destruct (Bblk t j Hin) as (_ & Hd).
    assert (Hfull : nnot T j = length (dset (T j))).
    { assert (nnot T j <= length (dset (T j))) by apply cnt_le. lia. }
    pose proof (cnt_full _ _ Hfull t Hd) as Hg. cbn beta in Hg.
    apply negb_true_iff, mem_nIn in Hg. contradiction. }
  assert (Hp'reg : forall y, ph (T' y) = PReg -> ph (T y) = PReg).
  { intros y. destruct (Nat.eq_dec y j) as [->|Hy]; [auto|rewrite Hph; auto]. }
  assert (Hp'done : forall y, ph (T' y) = PDone <-> ph (T y) = PDone).
  { intros y. destruct (Nat.eq_dec y j) as [->|Hy]; [|rewrite Hph; tauto].
    rewrite Hphj, Hpj. destruct Hcase as [(-> & _)|(-> & _)]; split; discriminate. }
  assert (Hfin : forall y, fin (ph (T' y)) = fin (ph (T y))).
  { intros y. destruct (Nat.eq_dec y j) as [->|Hy]; [|rewrite Hph; auto].
    rewrite Hphj, Hpj. destruct Hcase as [(-> & _)|(-> & _)]; reflexivity. }
  constructor.
  - intros t Ht. rewrite Hoth by lia. apply Bblank. exact Ht.
  - intros t Ht. destruct (Nat.eq_dec t j) as [->|Hy].
    + rewrite Hphj. destruct Hcase as [(-> & _)|(-> & _)]; discriminate.
    + rewrite Hph by auto. apply Bnonone. exact Ht.
  - exact Bnext.
  - intros t. rewrite Hexe, Hp'done. apply Bexec.
  - intros t. rewrite Hblk, Hrdg, Hp'done. apply Bdone.
  - intros t x. rewrite Hblk, Hds. intros H. destruct (Bblk t x H) as (H1 & H2). split; [|exact H2].
    destruct (Nat.eq_dec x j) as [->|Hy]; [|rewrite Hph; auto].
    rewrite Hphj. destruct Hcase as [(-> & _)|(Hq & _)]; [reflexivity|].
    exfalso. exact (Hfree Hq t H).
  - intros t. rewrite Hblk. apply Bblnd.
  - intros r o. rewrite Hrds, Hrdg. apply Brd.
  - intros r o. rewrite Hrdg. apply Brdlt.
  - intros t x. rewrite Hds. apply Bdslt.
  - intros x. rewrite Hds. apply Bdsnd.
  - intros t x. rewrite Hds, Hblk, Hp'done. intros H Hp. apply Bds9; [exact H|]. apply Hp'reg. exact Hp.
  - intros j0 rem H. discriminate.
  - intros j0 rem H. discriminate.
  - intros x Hp _. rewrite Hnn, Hds. destruct (Nat.eq_dec x j) as [->|Hy].
    + rewrite Hdepj. rewrite Hphj in Hp. destruct Hcase as [(_ & Hc)|(Hc & _)]; [|congruence].
      split; [exact Hd'|exact Hc].
    + rewrite (Hoth x Hy). apply Dwait; [rewrite <- Hph; auto|]. intros rem Hr. injection Hr as -> _. auto.
  - intros k o H. apply reg_runend_iff with (j := j). apply Nown. exact H.
  - intros t k H. apply reg_runend_iff with (j := j) in H.
    destruct (Nreg t k H) as (o & Ho & H1 & H2). exists o. rewrite Hrdg, Hfin. auto.
  - intros i j0 k Hij Hi Hj Hnr.
    apply reg_runend_iff with (j := j) in Hi. apply reg_runend_iff with (j := j) in Hj.
    rewrite Hfin.
    destruct (Qord i j0 k Hij Hi Hj Hnr) as [H|(Hp & o & H1 & H2 & H3 & H4 & H5)]; [left; exact H|right].
    split.
    + destruct (Nat.eq_dec j0 j) as [->|Hy]; [|rewrite Hph; auto].
      rewrite Hphj. destruct Hcase as [(-> & _)|(Hq & _)]; [reflexivity|].
      exfalso. exact (Hfree Hq o H5).
    + exists o. rewrite Hblk.
      split; [exact H1|]. split; [exact H2|]. split; [apply reg_runend_iff in H3; exact H3|].
      split; assumption.
Qed.

(* ---- 3d. LUnread ---- *)

Lemma SI_unread : forall T nd cur nx t r,
  SI T nd cur nx -> ph (T t) = PAfter -> In r (reading (T t)) ->
  let Ta := upd T r (set_readers (T r) (delset t (readers (T r)))) in
  SI (upd Ta t (set_reading (Ta t) (delset r (reading (Ta t))))) nd cur nx.
Proof.
  intros T nd cur nx t r I Hpt Hin Ta. dSI I.
  assert (Hrt : r < t) by (apply Brdlt; exact Hin).
  assert (Htnx : t < nx).
  { destruct (Nat.lt_ge_cases t nx) as [H|H]; [exact H|]. rewrite (Bblank t H) in Hpt. discriminate. }
  assert (HTat : Ta t = T t) by (unfold Ta; apply upd_other; lia).
  set (T' := upd Ta t (set_reading (Ta t) (delset r (reading (Ta t))))).
  assert (Ht : T' t = set_reading (T t) (delset r (reading (T t)))).
  { unfold T'. rewrite upd_same, HTat. reflexivity. }
  assert (Hr : T' r = set_readers (T r) (delset t (readers (T r)))).
  { unfold T'. rewrite upd_other by lia. unfold Ta. apply upd_same. }
  assert (Hoth : forall x, x <> t -> x <> r -> T' x = T x).
  { intros x H1 H2. unfold T'. rewrite upd_other by auto. unfold Ta. apply upd_other. auto. }
  assert (Hsd : forall x, deps (T' x) = deps (T x) /\ blocked (T' x) = blocked (T x) /\
                          executed (T' x) = executed (T x) /\ ph (T' x) = ph (T x) /\
                          dset (T' x) = dset (T x)).
  { intros x. destruct (Nat.eq_dec x t) as [->|H1]; [rewrite Ht; cbn; tauto|].
    destruct (Nat.eq_dec x r) as [->|H2]; [rewrite Hr; cbn; tauto|]. rewrite Hoth by auto. tauto. }
  assert (Hdeps : forall x, deps (T' x) = deps (T x)) by (intros x; apply (Hsd x)).
  assert (Hblk : forall x, blocked (T' x) = blocked (T x)) by (intros x; apply (Hsd x)).
  assert (Hexe : forall x, executed (T' x) = executed (T x)) by (intros x; apply (Hsd x)).
  assert (Hph : forall x, ph (T' x) = ph (T x)) by (intros x; apply (Hsd x)).
  assert (Hds : forall x, dset (T' x) = dset (T x)) by (intros x; apply (Hsd x)).
  assert (Hnn : forall x, nnot T' x = nnot T x) by (intros x; apply nnot_ext; auto).
  assert (Hrdg : forall x o, In o (reading (T' x)) <-> In o (reading (T x)) /\ ~ (x = t /\ o = r)).
  { intros x o. destruct (Nat.eq_dec x t) as [->|H1].
    - rewrite Ht. cbn. rewrite In_delset. intuition.
    - assert (reading (T' x) = reading (T x)) as ->.
      { destruct (Nat.eq_dec x r) as [->|H2]; [rewrite Hr; reflexivity|rewrite Hoth; auto]. }
      intuition. }
  assert (Hrds : forall o x, In x (readers (T' o)) <-> In x (readers (T o)) /\ ~ (x = t /\ o = r)).
  { intros o x. destruct (Nat.eq_dec o r) as [->|H1].
    - rewrite Hr. cbn. rewrite In_delset. intuition.
    - assert (readers (T' o) = readers (T o)) as ->.
      { destruct (Nat.eq_dec o t) as [->|H2]; [rewrite Ht; reflexivity|rewrite Hoth; auto]. }
      intuition. }
  constructor.
  - intros x Hx. rewrite Hoth by lia. apply Bblank. exact Hx.
  - intros x Hx. rewrite Hph. apply Bnonone. exact Hx.
  - exact Bnext.
  - intros x. rewrite Hexe, Hph. apply Bexec.
  - intros x Hx. rewrite Hph in Hx. rewrite Hblk. destruct (Bdone x Hx) as (H1 & H2). split; [exact H1|].
    destruct (reading (T' x)) as [|o l] eqn:E; [reflexivity|].
    assert (Ho : In o (reading (T' x))) by (rewrite E; left; reflexivity).
    apply Hrdg in Ho. rewrite H2 in Ho. destruct Ho as ([] & _).
  - intros u x. rewrite Hblk, Hds, Hph. apply Bblk.
  - intros u. rewrite Hblk. apply Bblnd.
  - intros x o. rewrite Hrds, Hrdg, Brd. tauto.
  - intros x o H. apply Hrdg in H. apply Brdlt. tauto.
  - intros u x. rewrite Hds. apply Bdslt.
  - intros x. rewrite Hds. apply Bdsnd.
  - intros u x. rewrite Hds, Hblk, !Hph. apply Bds9.
  - intros j rem H. rewrite Hph. apply (Ccur j rem H).
  - intros j rem H. rewrite Hdeps, Hnn. apply (Dcur j rem H).
  - intros x. rewrite Hph, Hdeps, Hnn, Hds. apply Dwait.
  - exact Nown.
  - intros x k H. destruct (Nreg x k H) as (o & Ho & H1 & H2). exists o. split; [exact Ho|].
    split; [exact H1|]. intros Hlt. destruct (H2 Hlt) as (Hr' & Hd). split; [exact Hr'|].
    rewrite Hph. destruct Hd as [Hd|Hd]; [|right; exact Hd].
    destruct (Nat.eq_dec x t) as [->|Hx]; [right; rewrite Hpt; reflexivity|].
    left. apply Hrdg. split; [exact Hd|]. tauto.
  - intros i j k Hij Hi Hj Hnr. rewrite !Hph.
    destruct (Qord i j k Hij Hi Hj Hnr) as [H|(Hp & o & H1 & H2 & H3 & H4 & H5)]; [left; exact H|right].
    split; [exact Hp|]. exists o. rewrite Hblk. auto.
Qed.

(* ---- 3e. LNotify ---- *)

Lemma nnot_lt_of_blocked : forall T x t, In t (dset (T x)) -> In x (blocked (T t)) ->
  nnot T x < length (dset (T x)).
Proof.
  intros T x t Hd Hb. unfold nnot. apply cnt_lt with (t := t); [exact Hd|].
  apply negb_false_iff. apply mem_In. exact Hb.
Qed.

Lemma nnot_lt2_of_blocked : forall T x t u, t <> u ->
  In t (dset (T x)) -> In x (blocked (T t)) -> In u (dset (T x)) -> In x (blocked (T u)) ->
  nnot T x + 2 <= length (dset (T x)).
Proof.
  intros T x t u Hne Hd Hb Hd' Hb'. unfold nnot. apply cnt_lt2 with (t := t) (u := u); auto;
    apply negb_false_iff; apply mem_In; assumption.
Qed.

Lemma nnot_le : forall T x, nnot T x <= length (dset (T x)).
Proof. intros. unfold nnot. apply cnt_le. Qed.

(* the task record after the Notify region, field by field *)
Definition notifyT (T : tid -> trec) (t : tid) : tid -> trec :=
  let bl := blocked (T t) in
  let ready := fun x => Z.leb (deps (T x) - 1) 0 in
  let Ta := fun x =>
    if mem x bl then
      let r := set_deps (T x) (deps (T x) - 1) in
      if ready x then set_ph r PQueued else r
    else T x in
  let rt := Ta t in
  upd Ta t (mkT (deps rt) [] (readers rt) [] true PDone (dset rt)).

Lemma notify_tasks : forall s t, tasks (notify s t) = notifyT (tasks s) t.
Proof. reflexivity. Qed.

Lemma SI_notify : forall T nd cur nx t,
  (Z.of_nat (length (c_ts c)) <= c_maxd c)%Z ->
  SI T nd cur nx -> ph (T t) = PAfter -> reading (T t) = [] ->
  SI (notifyT T t) nd cur nx.
Proof.
  intros T nd cur nx t Hmaxd I Hpt Hrt. pose proof I as I0. dSI I.
  set (bl := blocked (T t)).
  set (ready := fun x => Z.leb (deps (T x) - 1) 0).
  assert (Htnx : t < nx).
  { destruct (Nat.lt_ge_cases t nx) as [H|H]; [exact H|]. rewrite (Bblank t H) in Hpt. discriminate. }
  assert (Hbl : forall x, In x bl -> ph (T x) = PReg /\ In t (dset (T x)) /\ t < x).
  { intros x Hx. destruct (Bblk t x Hx) as (H1 & H2). split; [exact H1|]. split; [exact H2|].
    apply Bdslt. exact H2. }
  set (T' := notifyT T t).
  assert (Ht : T' t = mkT (deps (T t)) [] (readers (T t)) [] true PDone (dset (T t))).
  { unfold T', notifyT. rewrite upd_same. fold bl.
    destruct (mem t bl) eqn:E; [|reflexivity]. apply mem_In in E. apply Hbl in E. lia. }
  assert (Hin : forall x, In x bl -> T' x =
            let r := set_deps (T x) (deps (T x) - 1) in if ready x then set_ph r PQueued else r).
  { intros x Hx. assert (t <> x) by (apply Hbl in Hx; lia).
    unfold T', notifyT. rewrite upd_other by auto. fold bl. apply mem_In in Hx. rewrite Hx. reflexivity. }
  assert (Hout : forall x, x <> t -> ~ In x bl -> T' x = T x).
  { intros x H1 Hx. unfold T', notifyT. rewrite upd_other by auto. fold bl. apply mem_nIn in Hx.
    rewrite Hx. reflexivity. }
  (* data fields *)
  assert (Hblk : forall x, blocked (T' x) = if Nat.eqb x t then [] else blocked (T x)).
  { intros x. destruct (Nat.eqb x t) eqn:E.
    - apply Nat.eqb_eq in E. subst. rewrite Ht. reflexivity.
    - apply Nat.eqb_neq in E. destruct (in_dec Nat.eq_dec x bl) as [Hx|Hx].
      + rewrite (Hin x Hx). cbn zeta. destruct (ready x); reflexivity.
      + rewrite Hout; auto. }
  assert (Hrds : forall x, readers (T' x) = readers (T x)).
  { intros x. destruct (Nat.eq_dec x t) as [->|E]; [rewrite Ht; reflexivity|].
    destruct (in_dec Nat.eq_dec x bl) as [Hx|Hx]; [|rewrite Hout; auto].
    rewrite (Hin x Hx). cbn zeta. destruct (ready x); reflexivity. }
  assert (Hrdg : forall x, reading (T' x) = reading (T x)).
  { intros x. destruct (Nat.eq_dec x t) as [->|E]; [rewrite Ht, Hrt; reflexivity|].
    destruct (in_dec Nat.eq_dec x bl) as [Hx|Hx]; [|rewrite Hout; auto].
    rewrite (Hin x Hx). cbn zeta. destruct (ready x); reflexivity. }
  assert (Hds : forall x, dset (T' x) = dset (T x)).
  { intros x. destruct (Nat.eq_dec x t) as [->|E]; [rewrite Ht; reflexivity|].
    destruct (in_dec Nat.eq_dec x bl) as [Hx|Hx]; [|rewrite Hout; auto].
    rewrite (Hin x Hx). cbn zeta. destruct (ready x); reflexivity. }
  assert (Hexe : forall x, x <> t -> executed (T' x) = executed (T x)).
  { intros x E.
    destruct (in_dec Nat.eq_dec x bl) as [Hx|Hx]; [|rewrite Hout; auto].
    rewrite (Hin x Hx). cbn zeta. destruct (ready x); reflexivity. }
  assert (Hdeps : forall x, deps (T' x) = if mem x bl then (deps (T x) - 1)%Z else deps (T x)).
  { intros x. destruct (mem x bl) eqn:E.
    - apply mem_In in E. rewrite (Hin x E). cbn zeta. destruct (ready x); reflexivity.
    - apply mem_nIn in E. destruct (Nat.eq_dec x t) as [->|E2]; [rewrite Ht; reflexivity|]. rewrite Hout; auto. }
  assert (Hph : forall x, ph (T' x) =
            if Nat.eqb x t then PDone else if mem x bl && ready x then PQueued else ph (T x)).
  { intros x. destruct (Nat.eqb x t) eqn:E.
    - apply Nat.eqb_eq in E. subst. rewrite Ht. reflexivity.
    - apply Nat.eqb_neq in E. destruct (mem x bl) eqn:E2.
      + apply mem_In in E2. rewrite (Hin x E2). cbn zeta. destruct (ready x); reflexivity.
      + apply mem_nIn in E2. rewrite Hout; auto. }
  (* a blocked task that also waits for somebody else, or is still being registered, is not ready *)
  assert (NR1 : forall x u, In x bl -> u <> t -> In x (blocked (T u)) -> ready x = false).
  { intros x u Hx Hu Hxu. destruct (Hbl x Hx) as (Hpx & Hdx & _). destruct (Bblk u x Hxu) as (_ & Hdu).
    pose proof (@nnot_lt2_of_blocked T x t u (not_eq_sym Hu) Hdx Hx Hdu Hxu) as Hc.
    unfold ready. apply Z.leb_gt.
    destruct cur as [[j rem]|] eqn:Ecur.
    - destruct (Nat.eq_dec x j) as [->|Hxj].
      + destruct (Ccur j rem eq_refl) as (Hnx & _). pose proof (Dcur j rem eq_refl) as Hd.
        assert (length (dset (T j)) <= j) by (apply NoDup_lt_length; [apply Bdsnd|intros y Hy; apply Bdslt; exact Hy]).
        lia.
      + assert (Hnc : forall rem0, Some (j, rem) <> Some (x, rem0)) by (intros rem0 H; injection H; auto).
        destruct (Dwait x Hpx Hnc) as (Hd & _). lia.
    - assert (Hnc : forall rem0, @None (tid * list (key * perm)) <> Some (x, rem0)) by (intros; discriminate).
      destruct (Dwait x Hpx Hnc) as (Hd & _). lia. }
  assert (NR2 : forall x rem, In x bl -> cur = Some (x, rem) -> ready x = false).
  { intros x rem Hx Hc. destruct (Hbl x Hx) as (Hpx & Hdx & _).
    pose proof (@nnot_lt_of_blocked T x t Hdx Hx) as Hlt.
    destruct (Ccur x rem Hc) as (Hnx & _). pose proof (Dcur x rem Hc) as Hd.
    assert (length (dset (T x)) <= x) by (apply NoDup_lt_length; [apply Bdsnd|intros y Hy; apply Bdslt; exact Hy]).
    unfold ready. apply Z.leb_gt. lia. }
  assert (Hnn : forall x, nnot T' x = if mem x bl then S (nnot T x) else nnot T x).
  { intros x. unfold nnot. rewrite Hds. destruct (mem x bl) eqn:E.
    - apply mem_In in E. destruct (Hbl x E) as (_ & Hdx & _).
      apply cnt_flip with (t := t); [apply Bdsnd|exact Hdx|..].
      + apply negb_false_iff. apply mem_In. exact E.
      + rewrite Hblk, Nat.eqb_refl. reflexivity.
      + intros u Hu. rewrite Hblk. apply Nat.eqb_neq in Hu. rewrite Hu. reflexivity.
    - apply cnt_ext_in. intros u _. rewrite Hblk. destruct (Nat.eqb u t) eqn:E2; [|reflexivity].
      apply Nat.eqb_eq in E2. subst u. fold bl. rewrite E. reflexivity. }
  assert (Hreg' : forall x, ph (T' x) = PReg -> ph (T x) = PReg /\ (In x bl -> ready x = false)).
  { intros x. rewrite Hph. destruct (Nat.eqb x t); [discriminate|].
    destruct (mem x bl) eqn:E; cbn.
    - destruct (ready x); [discriminate|]. auto.
    - intros H. split; [exact H|]. intros Hx. apply mem_In in Hx. congruence. }
  assert (Hdone' : forall x, ph (T' x) = PDone <-> x = t \/ ph (T x) = PDone).
  { intros x. rewrite Hph. destruct (Nat.eqb x t) eqn:E.
    - apply Nat.eqb_eq in E. tauto.
    - apply Nat.eqb_neq in E. destruct (mem x bl) eqn:E2; cbn.
      + apply mem_In in E2. destruct (Hbl x E2) as (Hpx & _). rewrite Hpx.
        destruct (ready x); split; intros H; try discriminate; destruct H; try discriminate; contradiction.
      + split; [auto|]. intros [H|H]; [contradiction|exact H]. }
  assert (Hfin' : forall x, fin (ph (T x)) = true -> fin (ph (T' x)) = true).
  { intros x Hf. rewrite Hph. destruct (Nat.eqb x t); [reflexivity|].
    destruct (mem x bl) eqn:E2; cbn; [|exact Hf].
    apply mem_In in E2. destruct (Hbl x E2) as (Hpx & _). rewrite Hpx in Hf. discriminate. }
  assert (Hkeep : forall x u, In x (blocked (T u)) -> u <> t -> ph (T' x) = PReg).
  { intros x u Hxu Hu. destruct (Bblk u x Hxu) as (Hpx & _). rewrite Hph.
    destruct (Nat.eqb x t) eqn:E; [apply Nat.eqb_eq in E; subst; congruence|].
    destruct (mem x bl) eqn:E2; cbn; [|exact Hpx].
    apply mem_In in E2. rewrite (NR1 x u E2 Hu Hxu). exact Hpx. }
  constructor.
  - intros x Hx. rewrite Hout; [apply Bblank; exact Hx|lia|].
    intros Hb. apply Hbl in Hb. rewrite (Bblank x Hx) in Hb. destruct Hb as (Hb & _). discriminate.
  - intros x Hx. rewrite Hph. destruct (Nat.eqb x t); [discriminate|].
    destruct (mem x bl && ready x); [discriminate|]. apply Bnonone. exact Hx.
  - exact Bnext.
  - intros x. rewrite Hdone'. destruct (Nat.eq_dec x t) as [->|E].
    + rewrite Ht. cbn. tauto.
    + rewrite Hexe by exact E. rewrite Bexec. tauto.
  - intros x Hx. rewrite Hblk, Hrdg. apply Hdone' in Hx. destruct (Nat.eqb x t) eqn:E.
    + apply Nat.eqb_eq in E. subst. auto.
    + apply Nat.eqb_neq in E. destruct Hx as [Hx|Hx]; [contradiction|]. apply Bdone. exact Hx.
  - intros u x. rewrite Hblk, Hds. destruct (Nat.eqb u t) eqn:E; [intros []|]. apply Nat.eqb_neq in E.
    intros H. split; [apply (Hkeep x u H E)|apply (Bblk u x H)].
  - intros u. rewrite Hblk. destruct (Nat.eqb u t); [constructor|apply Bblnd].
  - intros r o. rewrite Hrds, Hrdg. apply Brd.
  - intros r o. rewrite Hrdg. apply Brdlt.
  - intros u x. rewrite Hds. apply Bdslt.
  - intros x. rewrite Hds. apply Bdsnd.
  - intros u x. rewrite Hds, Hblk, Hdone'. intros Hd Hp. apply Hreg' in Hp. destruct Hp as (Hp & _).
    destruct (Nat.eqb u t) eqn:E; [apply Nat.eqb_eq in E; right; left; exact E|].
    destruct (Bds9 u x Hd Hp) as [H|H]; [left; exact H|right; right; exact H].
  - intros j rem Hc. destruct (Ccur j rem Hc) as (H1 & H2 & H3). split; [exact H1|]. split; [|exact H3].
    rewrite Hph. destruct (Nat.eqb j t) eqn:E; [apply Nat.eqb_eq in E; subst; congruence|].
    destruct (mem j bl) eqn:E2; cbn; [|exact H2]. apply mem_In in E2. rewrite (NR2 j rem E2 Hc). exact H2.
  - intros j rem Hc. rewrite Hdeps, Hnn, (Dcur j rem Hc). destruct (mem j bl); lia.
  - intros x Hp Hc. apply Hreg' in Hp. destruct Hp as (Hp & Hnr). rewrite Hdeps, Hnn, Hds.
    destruct (Dwait x Hp Hc) as (H1 & H2). destruct (mem x bl) eqn:E; [|auto].
    apply mem_In in E. specialize (Hnr E). unfold ready in Hnr. apply Z.leb_gt in Hnr. lia.
  - exact Nown.
  - intros x k H. destruct (Nreg x k H) as (o & Ho & H1 & H2). exists o. split; [exact Ho|].
    split; [exact H1|]. intros Hlt. destruct (H2 Hlt) as (Hr' & Hd). split; [exact Hr'|].
    rewrite Hrdg. destruct Hd as [Hd|Hd]; [left; exact Hd|right; apply Hfin'; exact Hd].
  - intros i j k Hij Hi Hj Hnr.
    destruct (Qord i j k Hij Hi Hj Hnr) as [H|(Hp & o & H1 & H2 & H3 & H4 & H5)]; [left; apply Hfin'; exact H|].
    destruct (Nat.eq_dec o t) as [->|Hot].
    + left. destruct (Nat.eq_dec i t) as [->|Hit]; [rewrite Hph, Nat.eqb_refl; reflexivity|].
      destruct H4 as [H4|H4]; [congruence|].
      assert (Hlt : i < t) by lia.
      destruct (Qord i t k Hlt Hi H3 (or_intror H4)) as [H|(Hp' & _)]; [apply Hfin'; exact H|congruence].
    + right. split; [apply (Hkeep j o H5 Hot)|]. exists o. rewrite Hblk.
      apply Nat.eqb_neq in Hot. rewrite Hot. auto.
Qed.

(* ---- 3f. LRunKey ---- *)

Lemma mem_addset_other : forall x j l, x <> j -> mem x (addset j l) = mem x l.
Proof.
  intros x j l H. destruct (mem x l) eqn:E.
  - apply mem_In. apply In_addset. right. apply mem_In. exact E.
  - apply mem_nIn. rewrite In_addset. apply mem_nIn in E. tauto.
Qed.

(* who gets task j added to its blocked map in the iteration for a key owned by o *)
Definition bset (T : tid -> trec) (j o : tid) (p : perm) (x : tid) : bool :=
  (negb (is_read p) && mem x (delset j (readers (T o)))) || (Nat.eqb x o && negb (executed (T o))).

(* the task records after one Run iteration for a key owned by o (o <> j), field by field *)
Definition rkT (T : tid -> trec) (j o : tid) (p : perm) (x : tid) : trec :=
  mkT (deps (T x))
      (if bset T j o p x then addset j (blocked (T x)) else blocked (T x))
      (if is_read p && Nat.eqb x o then addset j (readers (T x)) else readers (T x))
      (if is_read p && Nat.eqb x j then addset o (reading (T x)) else reading (T x))
      (executed (T x))
      (ph (T x))
      (if Nat.eqb x j then
         let d1 := if is_read p then dset (T j) else unionset (dset (T j)) (delset j (readers (T o))) in
         if executed (T o) then d1 else addset o d1
       else dset (T x)).

Lemma trec_eta : forall r, r = mkT (deps r) (blocked r) (readers r) (reading r) (executed r) (ph r) (dset r).
Proof. destruct r; reflexivity. Qed.

Lemma upd_eq : forall A (f : nat -> A) x v y, upd f x v y = if Nat.eqb x y then v else f y.
Proof. reflexivity. Qed.

Lemma run_key_spec : forall s j k p rem' o, nodes s k = Some o -> o <> j ->
  (forall x, tasks (run_key s j k p rem') x = rkT (tasks s) j o p x) /\
  nodes (run_key s j k p rem') = (if is_read p then nodes s else updk (nodes s) k (Some j)) /\
  cursor (run_key s j k p rem') = Some (j, rem') /\
  next (run_key s j k p rem') = next s /\ queue (run_key s j k p rem') = queue s /\
  busy (run_key s j k p rem') = busy s /\ err (run_key s j k p rem') = err s /\
  log (run_key s j k p rem') = log s /\
  broken (run_key s j k p rem') =
    (broken s || (negb (is_read p) && existsb (fun x => executed (tasks s x)) (delset j (readers (tasks s o))))).
Proof.
  intros s j k p rem' o Hn Hoj. unfold run_key. rewrite Hn.
  assert (Eoj : Nat.eqb o j = false) by (apply Nat.eqb_neq; exact Hoj).
  assert (Ejo : Nat.eqb j o = false) by (apply Nat.eqb_neq; auto).
  destruct (is_read p) eqn:Erd.
  - (* read *)
    rewrite !upd_same. rewrite (upd_other _ _ (not_eq_sym Hoj)). cbn [executed set_readers].
    destruct (executed (tasks s o)) eqn:Eex; cbn [negb fst snd tasks nodes cursor next queue busy err log broken].
    + split; [|rewrite !orb_false_r; tauto].
      intros x. unfold rkT, bset. rewrite Erd, Eex. cbn [negb andb orb]. rewrite andb_false_r. cbn [orb].
      rewrite !upd_eq. rewrite (Nat.eqb_sym x o), (Nat.eqb_sym x j).
      destruct (Nat.eqb o x) eqn:E1.
      { apply Nat.eqb_eq in E1; subst x. rewrite ?Ejo, ?Eoj. cbn. reflexivity. }
      destruct (Nat.eqb j x) eqn:E2.
      { apply Nat.eqb_eq in E2; subst x. cbn. reflexivity. }
      apply trec_eta.
    + split; [|rewrite !orb_false_r; tauto].
      intros x. unfold rkT, bset. rewrite Erd, Eex. cbn [negb andb orb]. rewrite andb_true_r.
      rewrite !upd_eq. rewrite (Nat.eqb_sym x o), (Nat.eqb_sym x j).
      destruct (Nat.eqb j x) eqn:E2.
      { apply Nat.eqb_eq in E2; subst x. rewrite ?Eoj, ?Ejo, ?Nat.eqb_refl. cbn.
        rewrite ?Eoj, ?Ejo, ?Nat.eqb_refl. cbn. reflexivity. }
      destruct (Nat.eqb o x) eqn:E1.
      { apply Nat.eqb_eq in E1; subst x. cbn. rewrite ?Ejo, ?Nat.eqb_refl. cbn. reflexivity. }
      cbn. apply trec_eta.
  - (* not read *)
    set (rs := delset j (readers (tasks s o))).
    assert (Hjrs : mem j rs = false).
    { apply mem_nIn. unfold rs. rewrite In_delset. tauto. }
    cbn [negb andb]. rewrite Hjrs.
    assert (Hexo : executed (upd (fun x => if mem x rs then set_blocked (tasks s x) (addset j (blocked (tasks s x))) else tasks s x) j
                     (set_dset (tasks s j) (unionset (dset (tasks s j)) rs)) o)
                   = executed (tasks s o)).
    { rewrite upd_other by auto. destruct (mem o rs); reflexivity. }
    rewrite Hexo.
    destruct (executed (tasks s o)) eqn:Eex; cbn [negb fst snd tasks nodes cursor next queue busy err log broken].
    + split; [|rewrite !orb_false_r; tauto].
      intros x. unfold rkT, bset. rewrite Erd, Eex. cbn [negb andb orb]. rewrite andb_false_r, orb_false_r.
      fold rs. rewrite !upd_eq. rewrite (Nat.eqb_sym x j).
      destruct (Nat.eqb j x) eqn:E2.
      { apply Nat.eqb_eq in E2; subst x. rewrite Hjrs. cbn. reflexivity. }
      destruct (mem x rs); cbn; [reflexivity|apply trec_eta].
    + split; [|rewrite !orb_false_r; tauto].
      intros x. unfold rkT, bset. rewrite Erd, Eex. cbn [negb andb orb]. rewrite andb_true_r.
      fold rs. rewrite !upd_eq. rewrite (Nat.eqb_sym x j), (Nat.eqb_sym x o).
      destruct (Nat.eqb j x) eqn:E2.
      { apply Nat.eqb_eq in E2; subst x. rewrite ?Hjrs, ?Eoj. cbn. rewrite ?Eoj, ?Ejo, ?Nat.eqb_refl, ?Hjrs. cbn.
        rewrite ?Eoj, ?Ejo, ?Nat.eqb_refl, ?Hjrs. cbn. reflexivity. }
      destruct (Nat.eqb o x) eqn:E1.
      { apply Nat.eqb_eq in E1; subst x. cbn. rewrite ?Ejo, ?Nat.eqb_refl. rewrite ?orb_true_r.
        destruct (mem o rs) eqn:E3; cbn.
        - assert (Hidem : addset j (addset j (blocked (tasks s o))) = addset j (blocked (tasks s o))).
          { unfold addset at 1. assert (mem j (addset j (blocked (tasks s o))) = true) as ->; [|reflexivity].
            apply mem_In. apply In_addset. left. reflexivity. }
          rewrite Hidem. reflexivity.
        - reflexivity. }
      rewrite orb_false_r. destruct (mem x rs); cbn; [reflexivity|apply trec_eta].
Qed.

Lemma reg_runkey_iff : forall nx j rem k p t k0,
  nx = S j -> find_key k rem = Some p -> kperm j k = Some p ->
  (reg (Some (j, del_key k rem)) nx t k0 <-> reg (Some (j, rem)) nx t k0 \/ (t = j /\ k0 = k)).
Proof.
  intros nx j rem k p t k0 Hnx Hf Hk. unfold reg. split.
  - intros (H1 & H2 & H3). destruct (Nat.eq_dec t j) as [->|Ht].
    + destruct (N.eq_dec k0 k) as [->|Hk0]; [right; auto|]. left. split; [exact H1|]. split; [exact H2|].
      intros rem0 Hr. injection Hr as <-. rewrite <- (find_key_del_other rem Hk0). apply H3. reflexivity.
    + left. split; [exact H1|]. split; [exact H2|]. intros rem0 Hr. injection Hr as -> _. contradiction.
  - intros [(H1 & H2 & H3)|(-> & ->)].
    + split; [exact H1|]. split; [exact H2|]. intros rem0 Hr. injection Hr as -> <-.
      destruct (N.eq_dec k0 k) as [->|Hk0]; [apply find_key_del_same|].
      rewrite find_key_del_other by exact Hk0. apply H3. reflexivity.
    + split; [lia|]. split; [congruence|]. intros rem0 Hr. injection Hr as <-. apply find_key_del_same.
Qed.

Lemma nonread_perm : forall j k p, kperm j k = Some p -> (nonread j k <-> is_read p = false).
Proof.
  intros j k p H. unfold nonread. split.
  - intros (p' & H1 & H2). congruence.
  - intros H2. exists p. auto.
Qed.

Lemma isread_perm : forall j k p, kperm j k = Some p -> (isread j k <-> is_read p = true).
Proof.
  intros j k p H. unfold isread. split.
  - intros (p' & H1 & H2). congruence.
  - intros H2. exists p. auto.
Qed.

Lemma isread_not_nonread : forall j k, isread j k -> nonread j k -> False.
Proof. intros j k (p & H1 & H2) (p' & H3 & H4). congruence. Qed.

Lemma updk_same : forall A (f : N -> A) x v, updk f x v x = v.
Proof. intros. unfold updk. rewrite N.eqb_refl. reflexivity. Qed.
Lemma updk_other : forall A (f : N -> A) x v y, x <> y -> updk f x v y = f y.
Proof. intros. unfold updk. destruct (N.eqb x y) eqn:E; [apply N.eqb_eq in E; contradiction|reflexivity]. Qed.

(* the key has no owner yet *)
Lemma SI_runkey_none : forall T nd nx j rem k p,
  SI T nd (Some (j, rem)) nx -> find_key k rem = Some p -> nd k = None ->
  SI T (updk nd k (Some j)) (Some (j, del_key k rem)) nx.
Proof.
  intros T nd nx j rem k p I Hf Hnd. dSI I.
  destruct (Ccur j rem eq_refl) as (Hnx & Hpj & Hkp).
  pose proof (Hkp k p Hf) as Hk.
  assert (Hreg : forall t k0, reg (Some (j, del_key k rem)) nx t k0 <->
                              reg (Some (j, rem)) nx t k0 \/ (t = j /\ k0 = k)).
  { intros. apply reg_runkey_iff with (p := p); assumption. }
  assert (Hnok : forall t, ~ reg (Some (j, rem)) nx t k).
  { intros t H. destruct (Nreg t k H) as (o & Ho & _). congruence. }
  constructor; try assumption.
  - intros j0 rem0 H. injection H as <- <-. split; [exact Hnx|]. split; [exact Hpj|].
    intros k0 p0 H0. destruct (N.eq_dec k0 k) as [->|Hk0]; [rewrite find_key_del_same in H0; discriminate|].
    rewrite find_key_del_other in H0 by exact Hk0. apply Hkp. exact H0.
  - intros j0 rem0 H. injection H as <- <-. apply (Dcur j rem eq_refl).
  - intros x Hp Hc. apply Dwait; [exact Hp|]. intros rem0 H. injection H as -> _. apply (Hc (del_key k rem)). reflexivity.
  - intros k0 o H. apply Hreg. destruct (N.eq_dec k k0) as [<-|Hk0].
    + rewrite updk_same in H. injection H as <-. right. auto.
    + rewrite updk_other in H by exact Hk0. left. apply Nown. exact H.
  - intros t k0 H. apply Hreg in H. destruct H as [H|(-> & ->)].
    + assert (k <> k0) by (intros <-; exact (Hnok t H)). rewrite updk_other by assumption. apply Nreg. exact H.
    + exists j. rewrite updk_same. split; [reflexivity|]. split; intros; lia.
  - intros i j0 k0 Hij Hi Hj Hnr. apply Hreg in Hi. apply Hreg in Hj.
    destruct Hi as [Hi|(-> & ->)]; [|destruct Hj as [(Hj & _)|(-> & _)]; lia].
    destruct Hj as [Hj|(-> & ->)]; [|exfalso; exact (Hnok i Hi)].
    destruct (Qord i j0 k0 Hij Hi Hj Hnr) as [H|(Hp & o & H1 & H2 & H3 & H4 & H5)]; [left; exact H|right].
    split; [exact Hp|]. exists o. split; [exact H1|]. split; [exact H2|].
    split; [apply Hreg; left; exact H3|]. auto.
Qed.

(* the key is owned by task o *)
Lemma SI_runkey_some : forall T nd nx j rem k p o,
  SI T nd (Some (j, rem)) nx -> find_key k rem = Some p -> nd k = Some o ->
  o <> j /\
  existsb (fun x => executed (T x)) (delset j (readers (T o))) = false /\
  SI (rkT T j o p) (if is_read p then nd else updk nd k (Some j)) (Some (j, del_key k rem)) nx.
Proof.
  intros T nd nx j rem k p o I Hf Hnd. pose proof I as I0. dSI I.
  destruct (Ccur j rem eq_refl) as (Hnx & Hpj & Hkp).
  pose proof (Hkp k p Hf) as Hk.
  assert (Hreg : forall t k0, reg (Some (j, del_key k rem)) nx t k0 <->
                              reg (Some (j, rem)) nx t k0 \/ (t = j /\ k0 = k)).
  { intros. apply reg_runkey_iff with (p := p); assumption. }
  pose proof (Nown k o Hnd) as Hrego.
  assert (Hoj : o < j).
  { destruct Hrego as (H1 & H2 & H3). destruct (Nat.eq_dec o j) as [->|Hne]; [|lia].
    rewrite (H3 rem eq_refl) in Hf. discriminate. }
  assert (Hnoj : ~ reg (Some (j, rem)) nx j k).
  { intros (_ & _ & H). rewrite (H rem eq_refl) in Hf. discriminate. }
  set (rs := delset j (readers (T o))).
  (* readers are alive *)
  assert (Hreader : forall x, In x (readers (T o)) -> o < x /\ x < nx /\ ph (T x) <> PDone /\ executed (T x) = false).
  { intros x Hx. apply Brd in Hx. split; [apply Brdlt; exact Hx|].
    assert (Hnd' : ph (T x) <> PDone).
    { intros Hd. destruct (Bdone x Hd) as (_ & Hr). rewrite Hr in Hx. destruct Hx. }
    split; [|split; [exact Hnd'|]].
    - destruct (Nat.lt_ge_cases x nx) as [H|H]; [exact H|]. rewrite (Bblank x H) in Hx. destruct Hx.
    - destruct (executed (T x)) eqn:E; [|reflexivity]. apply Bexec in E. contradiction. }
  assert (Hbs : forall x, bset T j o p x = true ->
            x <> j /\ x < j /\ ph (T x) <> PDone /\
            ((is_read p = false /\ In x (readers (T o))) \/ (x = o /\ executed (T o) = false))).
  { intros x Hx. unfold bset in Hx. apply orb_true_iff in Hx. destruct Hx as [Hx|Hx].
    - apply andb_true_iff in Hx. destruct Hx as (H1 & H2). apply negb_true_iff in H1.
      apply mem_In, In_delset in H2. destruct H2 as (H2 & H3). destruct (Hreader x H3) as (H4 & H5 & H6 & _).
      split; [exact H2|]. split; [lia|]. split; [exact H6|]. left. auto.
    - apply andb_true_iff in Hx. destruct Hx as (H1 & H2). apply Nat.eqb_eq in H1. subst x.
      apply negb_true_iff in H2. split; [lia|]. split; [exact Hoj|]. split; [|right; auto].
      intros Hd. apply Bexec in Hd. congruence. }
  assert (Hbs_rs : is_read p = false -> forall x, In x (readers (T o)) -> x <> j -> bset T j o p x = true).
  { intros Hr x Hx Hne. unfold bset. rewrite Hr. cbn. apply orb_true_iff. left. apply mem_In, In_delset. auto. }
  assert (Hbs_o : executed (T o) = false -> bset T j o p o = true).
  { intros He. unfold bset. rewrite He, Nat.eqb_refl. cbn. apply orb_true_r. }
  set (T' := rkT T j o p).
  assert (Hdeps : forall x, deps (T' x) = deps (T x)) by reflexivity.
  assert (Hexe : forall x, executed (T' x) = executed (T x)) by reflexivity.
  assert (Hph : forall x, ph (T' x) = ph (T x)) by reflexivity.
  assert (Hblk : forall u x, In x (blocked (T' u)) <-> In x (blocked (T u)) \/ (x = j /\ bset T j o p u = true)).
  { intros u x. unfold T', rkT. cbn [blocked]. destruct (bset T j o p u).
    - rewrite In_addset. intuition.
    - intuition. discriminate. }
  assert (Hblknd : forall u, NoDup (blocked (T' u))).
  { intros u. unfold T', rkT. cbn [blocked]. destruct (bset T j o p u); [apply NoDup_addset|]; apply Bblnd. }
  assert (Hrds : forall u x, In x (readers (T' u)) <-> In x (readers (T u)) \/ (x = j /\ u = o /\ is_read p = true)).
  { intros u x. unfold T', rkT. cbn [readers]. destruct (is_read p); cbn [andb].
    - destruct (Nat.eqb u o) eqn:E.
      + apply Nat.eqb_eq in E. rewrite In_addset. intuition.
      + apply Nat.eqb_neq in E. intuition.
    - intuition. discriminate. }
  assert (Hrdg : forall x u, In u (reading (T' x)) <-> In u (reading (T x)) \/ (x = j /\ u = o /\ is_read p = true)).
  { intros x u. unfold T', rkT. cbn [reading]. destruct (is_read p); cbn [andb].
    - destruct (Nat.eqb x j) eqn:E.
      + apply Nat.eqb_eq in E. rewrite In_addset. intuition.
      + apply Nat.eqb_neq in E. intuition.
    - intuition. discriminate. }
  assert (Hdsx : forall x, x <> j -> dset (T' x) = dset (T x)).
  { intros x Hx. unfold T', rkT. cbn [dset]. apply Nat.eqb_neq in Hx. rewrite Hx. reflexivity. }
  set (d1 := if is_read p then dset (T j) else unionset (dset (T j)) rs).
  assert (Hdsj : dset (T' j) = if executed (T o) then d1 else addset o d1).
  { unfold T', rkT. cbn [dset]. rewrite Nat.eqb_refl. reflexivity. }
  assert (Hd1 : forall u, In u d1 <-> In u (dset (T j)) \/ (is_read p = false /\ In u rs)).
  { intros u. unfold d1. destruct (is_read p).
    - intuition. discriminate.
    - rewrite In_unionset. intuition. }
  assert (Hdsj_in : forall u, In u (dset (T' j)) <-> In u (dset (T j)) \/ bset T j o p u = true).
  { intros u. rewrite Hdsj. split.
    - intros H. assert (H' : In u d1 \/ (u = o /\ executed (T o) = false)).
      { destruct (executed (T o)); [left; exact H|]. apply In_addset in H. destruct H; auto. }
      destruct H' as [H'|(-> & He)]; [|right; apply Hbs_o; exact He].
      apply Hd1 in H'. destruct H' as [H'|(Hr & H')]; [left; exact H'|right].
      apply In_delset in H'. apply Hbs_rs; tauto.
    - intros [H|H].
      + assert (In u d1) by (apply Hd1; left; exact H).
        destruct (executed (T o)); [assumption|apply In_addset; right; assumption].
      + destruct (Hbs u H) as (Hne & _ & _ & [(Hr & Hu)|(-> & He)]).
        * assert (In u d1) by (apply Hd1; right; split; [exact Hr|apply In_delset; auto]).
          destruct (executed (T o)); [assumption|apply In_addset; right; assumption].
        * rewrite He. apply In_addset. left. reflexivity. }
  assert (Hdsnd : forall x, NoDup (dset (T' x))).
  { intros x. destruct (Nat.eq_dec x j) as [->|Hx]; [|rewrite Hdsx by exact Hx; apply Bdsnd].
    rewrite Hdsj. assert (NoDup d1).
    { unfold d1. destruct (is_read p); [apply Bdsnd|apply NoDup_unionset; apply Bdsnd]. }
    destruct (executed (T o)); [assumption|apply NoDup_addset; assumption]. }
  (* dependency counting is unchanged *)
  assert (Hmemx : forall x u, x <> j -> mem x (blocked (T' u)) = mem x (blocked (T u))).
  { intros x u Hx. unfold T', rkT. cbn [blocked]. destruct (bset T j o p u); [|reflexivity].
    apply mem_addset_other. exact Hx. }
  assert (Hnnx : forall x, x <> j -> nnot T' x = nnot T x).
  { intros x Hx. unfold nnot. rewrite Hdsx by exact Hx. apply cnt_ext_in. intros u _. rewrite Hmemx by exact Hx.
    reflexivity. }
  assert (Hgnew : forall u, bset T j o p u = true -> negb (mem j (blocked (T' u))) = false).
  { intros u Hu. apply negb_false_iff, mem_In, Hblk. right. auto. }
  assert (Hnnj : nnot T' j = nnot T j).
  { unfold nnot. set (g' := fun t => negb (mem j (blocked (T' t)))).
    assert (E1 : cnt g' (dset (T' j)) = cnt g' (dset (T j))).
    { rewrite Hdsj.
      assert (Ed1 : cnt g' d1 = cnt g' (dset (T j))).
      { unfold d1. destruct (is_read p) eqn:Er; [reflexivity|]. apply cnt_unionset.
        intros y Hy. right. apply Hgnew. apply In_delset in Hy. apply Hbs_rs; tauto. }
      destruct (executed (T o)) eqn:Ee; [exact Ed1|]. rewrite cnt_addset; [exact Ed1|].
      right. apply Hgnew. apply Hbs_o. reflexivity. }
    transitivity (cnt g' (dset (T j))); [exact E1|]. apply cnt_ext_in. intros u Hu. unfold g'. f_equal.
    destruct (mem j (blocked (T u))) eqn:E.
    - apply mem_In, Hblk. left. apply mem_In. exact E.
    - apply mem_nIn. rewrite Hblk. intros [H|(_ & H)]; [apply mem_nIn in E; contradiction|].
      destruct (Hbs u H) as (_ & _ & Hnd' & _).
      destruct (Bds9 u j Hu Hpj) as [H'|H']; [apply mem_nIn in E; contradiction|contradiction]. }
  split; [lia|]. split.
  { apply not_true_is_false. intros H. apply existsb_exists in H. destruct H as (x & Hx & He).
    apply In_delset in Hx. destruct Hx as (_ & Hx). destruct (Hreader x Hx) as (_ & _ & _ & H). congruence. }
  constructor.
  - intros x Hx. assert (Hb : bset T j o p x = false).
    { destruct (bset T j o p x) eqn:E; [|reflexivity]. apply Hbs in E. lia. }
    unfold T', rkT. rewrite Hb. assert (Nat.eqb x o = false) as -> by (apply Nat.eqb_neq; lia).
    assert (Nat.eqb x j = false) as -> by (apply Nat.eqb_neq; lia). rewrite !andb_false_r.
    rewrite <- trec_eta. apply Bblank. exact Hx.
  - intros x Hx. rewrite Hph. apply Bnonone. exact Hx.
  - exact Bnext.
  - intros x. rewrite Hexe, Hph. apply Bexec.
  - intros x Hx. rewrite Hph in Hx. destruct (Bdone x Hx) as (H1 & H2). split.
    + destruct (blocked (T' x)) as [|y l] eqn:E; [reflexivity|].
      assert (Hy : In y (blocked (T' x))) by (rewrite E; left; reflexivity).
      apply Hblk in Hy. rewrite H1 in Hy. destruct Hy as [[]|(_ & Hy)]. apply Hbs in Hy. tauto.
    + destruct (reading (T' x)) as [|y l] eqn:E; [reflexivity|].
      assert (Hy : In y (reading (T' x))) by (rewrite E; left; reflexivity).
      apply Hrdg in Hy. rewrite H2 in Hy. destruct Hy as [[]|(-> & _)]. congruence.
  - intros u x Hx. rewrite Hph. apply Hblk in Hx. destruct Hx as [Hx|(-> & Hx)].
    + destruct (Bblk u x Hx) as (H1 & H2). split; [exact H1|].
      destruct (Nat.eq_dec x j) as [->|Hne]; [apply Hdsj_in; left; exact H2|rewrite Hdsx; auto].
    + split; [exact Hpj|]. apply Hdsj_in. right. exact Hx.
  - exact Hblknd.
  - intros r u. rewrite Hrds, Hrdg, Brd. tauto.
  - intros r u H. apply Hrdg in H. destruct H as [H|(-> & -> & _)]; [apply Brdlt; exact H|exact Hoj].
  - intros u x H. destruct (Nat.eq_dec x j) as [->|Hne].
    + apply Hdsj_in in H. destruct H as [H|H]; [apply Bdslt; exact H|]. apply Hbs in H. tauto.
    + rewrite Hdsx in H by exact Hne. apply Bdslt. exact H.
  - exact Hdsnd.
  - intros u x Hd Hp. rewrite Hph in *. rewrite Hblk. destruct (Nat.eq_dec x j) as [->|Hne].
    + apply Hdsj_in in Hd. destruct Hd as [Hd|Hd]; [|left; right; auto].
      destruct (Bds9 u j Hd Hp) as [H|H]; [left; left; exact H|right; exact H].
    + rewrite Hdsx in Hd by exact Hne.
      destruct (Bds9 u x Hd Hp) as [H|H]; [left; left; exact H|right; exact H].
  - intros j0 rem0 H. injection H as <- <-. split; [exact Hnx|]. split; [exact Hpj|].
    intros k0 p0 H0. destruct (N.eq_dec k0 k) as [->|Hk0]; [rewrite find_key_del_same in H0; discriminate|].
    rewrite find_key_del_other in H0 by exact Hk0. apply Hkp. exact H0.
  - intros j0 rem0 H. injection H as <- <-. rewrite Hdeps, Hnnj. apply (Dcur j rem eq_refl).
  - intros x Hp Hc. assert (Hx : x <> j) by (intros ->; apply (Hc (del_key k rem)); reflexivity).
    rewrite Hdeps, Hnnx, Hdsx by exact Hx. apply Dwait; [exact Hp|]. intros rem0 H. injection H as -> _. auto.
  - intros k0 o0 H. apply Hreg. destruct (is_read p) eqn:Er; [left; apply Nown; exact H|].
    destruct (N.eq_dec k k0) as [<-|Hk0].
    + rewrite updk_same in H. injection H as <-. right. auto.
    + rewrite updk_other in H by exact Hk0. left. apply Nown. exact H.
  - intros t k0 H. apply Hreg in H. destruct H as [H|(-> & ->)].
    + destruct (Nreg t k0 H) as (o' & Ho' & H1 & H2).
      assert (Hkeep : (exists o2, (if is_read p then nd else updk nd k (Some j)) k0 = Some o2 /\ o2 = o') \/
                      (is_read p = false /\ k0 = k)).
      { destruct (is_read p) eqn:Er; [left; exists o'; auto|].
        destruct (N.eq_dec k k0) as [<-|Hk0]; [right; auto|]. left. exists o'. rewrite updk_other by exact Hk0. auto. }
      destruct Hkeep as [(o2 & Ho2 & ->)|(Er & ->)].
      * exists o'. split; [exact Ho2|]. split; [exact H1|]. intros Hlt. destruct (H2 Hlt) as (H3 & H4).
        split; [exact H3|]. rewrite Hph. destruct H4 as [H4|H4]; [left; apply Hrdg; left; exact H4|right; exact H4].
      * rewrite Er. exists j. rewrite updk_same. split; [reflexivity|].
        assert (t <> j) by (intros ->; exact (Hnoj H)). destruct H as (Ht & _).
        split; [intros _; apply (@nonread_perm j k p Hk); exact Er|intros; lia].
    + destruct (is_read p) eqn:Er.
      * exists o. split; [exact Hnd|]. split; [intros; lia|]. intros _.
        split; [apply (@isread_perm j k p Hk); exact Er|]. left. apply Hrdg. right. auto.
      * exists j. rewrite updk_same. split; [reflexivity|]. split; intros; lia.
  - intros i j0 k0 Hij Hi Hj Hnr. rewrite !Hph. apply Hreg in Hi. apply Hreg in Hj.
    destruct Hi as [Hi|(-> & ->)]; [|destruct Hj as [(Hj & _)|(-> & _)]; lia].
    destruct Hj as [Hj|(-> & ->)].
    + destruct (Qord i j0 k0 Hij Hi Hj Hnr) as [H|(Hp & o' & H1 & H2 & H3 & H4 & H5)]; [left; exact H|right].
      split; [exact Hp|]. exists o'. split; [exact H1|]. split; [exact H2|].
      split; [apply Hreg; left; exact H3|]. split; [exact H4|]. apply Hblk. left. exact H5.
    + (* the new pair: i was registered on k before, j registers now *)
      assert (Hwit : forall w, i <= w -> w < j -> reg (Some (j, rem)) nx w k -> (w = i \/ nonread w k) ->
                bset T j o p w = true ->
                ph (T j) = PReg /\ exists o', i <= o' /\ o' < j /\ reg (Some (j, del_key k rem)) nx o' k /\
                   (o' = i \/ nonread o' k) /\ In j (blocked (T' o'))).
      { intros w H1 H2 H3 H4 H5. split; [exact Hpj|]. exists w. split; [exact H1|]. split; [exact H2|].
        split; [apply Hreg; left; exact H3|]. split; [exact H4|]. apply Hblk. right. auto. }
      destruct (Nreg i k Hi) as (o' & Ho' & H1 & H2). assert (o' = o) by congruence. subst o'.
      destruct (lt_eq_lt_dec i o) as [[Hlt|Heq]|Hgt].
      * specialize (H1 Hlt). destruct (executed (T o)) eqn:Ee.
        -- left. apply Bexec in Ee.
           destruct (Qord i o k Hlt Hi Hrego (or_intror H1)) as [H|(Hp & _)]; [exact H|congruence].
        -- right. apply (Hwit o); auto; lia.
      * subst i. destruct (executed (T o)) eqn:Ee.
        -- left. apply Bexec in Ee. rewrite Ee. reflexivity.
        -- right. apply (Hwit o); auto.
      * destruct (H2 Hgt) as (Hri & Hd).
        assert (Er : is_read p = false).
        { destruct Hnr as [Hnr|Hnr]; [exfalso; exact (@isread_not_nonread _ _ Hri Hnr)|].
          apply (@nonread_perm j k p Hk). exact Hnr. }
        destruct Hd as [Hd|Hd]; [|left; exact Hd]. right.
        apply (Hwit i); auto. apply Hbs_rs; [exact Er|apply Brd; exact Hd|lia].
Qed.

(* ------------------------------------------------------------------------------------------------ *)
(* 4. queue, worker count and event-log invariants                                                   *)
(* ------------------------------------------------------------------------------------------------ *)

Definition prebegin (p : phase) : bool :=
  match p with PNone | PReg | PQueued | PTaken => true | _ => false end.

Definition is_beg (t : tid) (e : event) : bool :=
  match e with EvBegin t' => Nat.eqb t t' | _ => false end.

(* the sticky error as a function of the log (newest event first): the oldest EvErr *)
Fixpoint first_err (l : list event) : option esrc :=
  match l with
  | [] => None
  | e :: l' =>
      match first_err l' with
      | Some x => Some x
      | None => match e with EvErr x => Some x | _ => None end
      end
  end.

(* tasks i < j share key k and at least one of them is not a plain reader of k (the code's notion) *)
Definition confl (i j : tid) (k : key) : Prop :=
  kperm i k <> None /\ kperm j k <> None /\ (nonread i k \/ nonread j k).

Definition ord_ok (l : list event) : Prop :=
  forall l1 j l2, l = l1 ++ EvBegin j :: l2 ->
  forall i k, i < j -> confl i j k -> In (EvEnd i true) l2.

Definition noBeginAfterErr (l : list event) : Prop :=
  forall l1 e l2, l = l1 ++ EvErr e :: l2 -> forall t, ~ In (EvBegin t) l1.

(* f of a task ends only after it began *)
Definition end_after_begin (l : list event) : Prop :=
  forall l1 t ok l2, l = l1 ++ EvEnd t ok :: l2 -> In (EvBegin t) l2.

Record PI (s : state) : Prop := mkPI {
  q_nd : NoDup (queue s);
  q_ph : forall t, In t (queue s) <-> ph (tasks s t) = PQueued;
  q_busy : busy s = cnt (fun t => midp (ph (tasks s t))) (seq 0 (next s));
  l_pre : forall t, prebegin (ph (tasks s t)) = true -> ~ In (EvBegin t) (log s);
  l_once : forall t, length (filter (is_beg t) (log s)) <= 1;
  l_run : forall t, ph (tasks s t) = PRun -> In (EvBegin t) (log s);
  l_endbeg : end_after_begin (log s);
  l_end : forall t ok, ph (tasks s t) = PEnded ok -> In (EvEnd t ok) (log s);
  l_fin : forall t, fin (ph (tasks s t)) = true -> err s <> None \/ In (EvEnd t true) (log s);
  l_ord : ord_ok (log s);
  l_err1 : err s = first_err (log s);
  l_err2 : noBeginAfterErr (log s);
  l_err3 : forall t, In (EvErr (ETask t)) (log s) -> In (EvEnd t false) (log s)
}.

Ltac dPI P :=
  destruct P as [Qnd Qph Qbusy Lpre Lonce Lrun Lendbeg Lend Lfin Lord Lerr1 Lerr2 Lerr3].

Lemma PI_init : PI init.
Proof.
  constructor; cbn; try (intros; try tauto; try discriminate; try lia; fail).
  - constructor.
  - intros t. split; [intros []|discriminate].
  - intros l1 j ok l2 H. destruct l1; discriminate.
  - intros l1 j l2 H. destruct l1; discriminate.
  - intros l1 e l2 H. destruct l1; discriminate.
Qed.

Lemma eab_cons_other : forall e l, (forall t ok, e <> EvEnd t ok) -> end_after_begin l -> end_after_begin (e :: l).
Proof.
  intros e l He H l1 t ok l2 Heq. destruct l1 as [|a l1]; cbn in Heq.
  - injection Heq as Heq _. exfalso. exact (He t ok Heq).
  - injection Heq as _ Heq. exact (H l1 t ok l2 Heq).
Qed.

Lemma eab_cons_end : forall t ok l, In (EvBegin t) l -> end_after_begin l -> end_after_begin (EvEnd t ok :: l).
Proof.
  intros t ok l Hin H l1 t' ok' l2 Heq. destruct l1 as [|a l1]; cbn in Heq.
  - injection Heq as <- <- <-. exact Hin.
  - injection Heq as _ Heq. exact (H l1 t' ok' l2 Heq).
Qed.

Lemma first_err_none : forall l, first_err l = None -> forall e, ~ In (EvErr e) l.
Proof.
  induction l as [|a l IH]; cbn; intros H e; [tauto|].
  destruct (first_err l) eqn:E; [discriminate|]. intros [Ha|Ha]; [subst a; discriminate|].
  exact (IH eq_refl e Ha).
Qed.

Lemma first_err_cons_other : forall e l, (forall x, e <> EvErr x) -> first_err (e :: l) = first_err l.
Proof.
  intros e l H. cbn. destruct (first_err l); [reflexivity|]. destruct e; try reflexivity.
  exfalso. exact (H e eq_refl).
Qed.

Lemma first_err_cons_err : forall x l, first_err (EvErr x :: l) = cas_err (first_err l) x.
Proof. intros x l. cbn. destruct (first_err l); reflexivity. Qed.

Lemma ord_ok_cons_other : forall e l, (forall t, e <> EvBegin t) -> ord_ok l -> ord_ok (e :: l).
Proof.
  intros e l He H l1 j l2 Heq. destruct l1 as [|a l1]; cbn in Heq.
  - injection Heq as Heq _. exfalso. exact (He j Heq).
  - injection Heq as _ Heq. exact (H l1 j l2 Heq).
Qed.

Lemma nbae_cons_nonbegin : forall e l, (forall t, e <> EvBegin t) -> noBeginAfterErr l -> noBeginAfterErr (e :: l).
Proof.
  intros e l He H l1 x l2 Heq t Hin. destruct l1 as [|a l1]; cbn in Heq; [destruct Hin|].
  injection Heq as -> Heq. destruct Hin as [Hin|Hin]; [exact (He t Hin)|]. exact (H l1 x l2 Heq t Hin).
Qed.

Lemma nbae_cons_begin : forall t l, first_err l = None -> noBeginAfterErr (EvBegin t :: l).
Proof.
  intros t l Hn l1 x l2 Heq. exfalso. destruct l1 as [|a l1]; cbn in Heq; [discriminate|].
  injection Heq as _ Heq. apply (first_err_none l Hn x). rewrite Heq. apply in_or_app. right. left. reflexivity.
Qed.

Lemma filter_nil_of_notin : forall t l, ~ In (EvBegin t) l -> filter (is_beg t) l = [].
Proof.
  intros t l. induction l as [|e l IH]; intros H; [reflexivity|]. cbn.
  destruct (is_beg t e) eqn:E.
  - exfalso. apply H. left. destruct e; try discriminate. cbn in E. apply Nat.eqb_eq in E. subst. reflexivity.
  - apply IH. intros Hin. apply H. right. exact Hin.
Qed.

Lemma NoDup_app_disj : forall (l1 l2 : list nat), NoDup l1 -> NoDup l2 ->
  (forall x, In x l1 -> ~ In x l2) -> NoDup (l1 ++ l2).
Proof.
  intros l1 l2 H1 H2 Hd. induction H1 as [|a l1 Ha Hl IH]; cbn; [exact H2|].
  constructor.
  - rewrite in_app_iff. intros [H|H]; [contradiction|]. exact (Hd a (or_introl eq_refl) H).
  - apply IH. intros x Hx. apply Hd. right. exact Hx.
Qed.

(* the queue / worker-count part only depends on the phases *)
Lemma Q_keep : forall s s',
  PI s -> (forall x, (ph (tasks s' x) = PQueued <-> ph (tasks s x) = PQueued) /\
                     midp (ph (tasks s' x)) = midp (ph (tasks s x))) ->
  next s' = next s -> queue s' = queue s -> busy s' = busy s ->
  NoDup (queue s') /\ (forall t, In t (queue s') <-> ph (tasks s' t) = PQueued) /\
  busy s' = cnt (fun t => midp (ph (tasks s' t))) (seq 0 (next s')).
Proof.
  intros s s' P H Hn Hq Hb. dPI P. rewrite Hn, Hq, Hb. split; [exact Qnd|]. split.
  - intros t. rewrite Qph. symmetry. apply (H t).
  - rewrite Qbusy. apply cnt_ext_in. intros x _. symmetry. apply (H x).
Qed.

(* steps that change neither phases nor queue/log/err *)
Lemma PI_same_ph : forall s s',
  PI s -> (forall x, ph (tasks s' x) = ph (tasks s x)) ->
  next s' = next s -> queue s' = queue s -> busy s' = busy s -> err s' = err s -> log s' = log s ->
  PI s'.
Proof.
  intros s s' P Hph Hn Hq Hb He Hl.
  destruct (@Q_keep s s' P) as (Q1 & Q2 & Q3); auto.
  { intros x. rewrite Hph. tauto. }
  dPI P. constructor; try assumption; rewrite ?Hl, ?He; try assumption; intros t; rewrite Hph; auto.
Qed.

(* ------------------------------------------------------------------------------------------------ *)
(* 5. the global invariant and its preservation, label by label                                      *)
(* ------------------------------------------------------------------------------------------------ *)

Definition Inv (s : state) : Prop := SIs s /\ PI s /\ broken s = false.

Lemma NoDup_snoc_q : forall (q : list tid) t, ~ In t q -> NoDup q -> NoDup (q ++ [t]).
Proof.
  induction q as [|a q IH]; intros t Hn Hq; cbn.
  - constructor; [intros []|constructor].
  - inversion Hq as [|x l Hx Hl]; subst. constructor.
    + rewrite in_app_iff. cbn. intros [H|[H|[]]]; [exact (Hx H)|subst; apply Hn; left; reflexivity].
    + apply IH; [intros H; apply Hn; right; exact H|exact Hl].
Qed.

Lemma ph_upd_set_ph : forall T t p' x,
  ph (upd T t (set_ph (T t) p') x) = if Nat.eqb t x then p' else ph (T x).
Proof. intros. unfold upd. destruct (Nat.eqb t x); reflexivity. Qed.

Lemma lt_next_of_ph : forall s t, SIs s -> ph (tasks s t) <> PNone -> t < next s.
Proof.
  intros s t I H. destruct (Nat.lt_ge_cases t (next s)) as [Hlt|Hge]; [exact Hlt|].
  exfalso. apply H. unfold SIs in I. dSI I. rewrite (Bblank t Hge). reflexivity.
Qed.

(* a registered task that left the PReg phase is registered on all of its keys *)
Lemma reg_of_started : forall s t k, SIs s -> t < next s -> ph (tasks s t) <> PReg -> kperm t k <> None ->
  reg (cursor s) (next s) t k.
Proof.
  intros s t k I Hlt Hp Hk. split; [exact Hlt|]. split; [exact Hk|].
  intros rem Hc. exfalso. apply Hp. unfold SIs in I. dSI I. apply (Ccur t rem Hc).
Qed.

Lemma reg_of_earlier : forall s i t k, SIs s -> i < t -> t < next s -> kperm i k <> None ->
  reg (cursor s) (next s) i k.
Proof.
  intros s i t k I Hit Hlt Hk. split; [lia|]. split; [exact Hk|].
  intros rem Hc. exfalso. unfold SIs in I. dSI I. destruct (Ccur i rem Hc) as (Hn & _). lia.
Qed.

Lemma Inv_LStop : forall s s', Inv s -> step c s LStop = Some s' -> Inv s'.
Proof.
  intros s s' (I & P & Hb) Hs. cbn in Hs. injection Hs as <-. split; [exact I|]. split; [|exact Hb].
  destruct (@Q_keep s (mkS (tasks s) (nodes s) (cursor s) (next s) (queue s) (busy s) (cas_err (err s) EStop)
                         (broken s) (EvErr EStop :: log s)) P) as (Q1 & Q2 & Q3); try reflexivity.
  { intros x. cbn. tauto. }
  dPI P. constructor; cbn [tasks queue busy next err log]; try assumption.
  - intros t H [Hin|Hin]; [discriminate|]. exact (Lpre t H Hin).
  - intros t H. right. apply Lrun. exact H.
  - apply eab_cons_other; [intros; discriminate|exact Lendbeg].
  - intros t ok H. right. apply Lend. exact H.
  - intros t _. left. destruct (err s); discriminate.
  - apply ord_ok_cons_other; [intros; discriminate|exact Lord].
  - rewrite first_err_cons_err, Lerr1. reflexivity.
  - apply nbae_cons_nonbegin; [intros; discriminate|exact Lerr2].
  - intros t [H|H]; [discriminate|]. right. apply Lerr3. exact H.
Qed.

Lemma cnt_seq_flip : forall g g' t n, t < n -> g t = false -> g' t = true ->
  (forall u, u <> t -> g' u = g u) -> cnt g' (seq 0 n) = S (cnt g (seq 0 n)).
Proof.
  intros g g' t n Ht H1 H2 H3. apply cnt_flip with (t := t); auto.
  - apply seq_NoDup.
  - apply in_seq. lia.
Qed.

Lemma Inv_LTake : forall s s', Inv s -> step c s LTake = Some s' -> Inv s'.
Proof.
  intros s s' (I & P & Hb) Hs. unfold step in Hs.
  destruct (queue s) as [|t q] eqn:Eq; [discriminate|].
  destruct (Nat.ltb (busy s) (c_nw c)); [|discriminate]. injection Hs as <-.
  assert (Hpt : ph (tasks s t) = PQueued) by (apply (q_ph P); rewrite Eq; left; reflexivity).
  split; [|split].
  - unfold SIs. cbn. apply SI_ph_only; [exact I|rewrite Hpt; reflexivity|reflexivity|rewrite Hpt; discriminate].
  - assert (Htn : t < next s) by (apply lt_next_of_ph; [exact I|rewrite Hpt; discriminate]).
    dPI P. rewrite Eq in Qnd. inversion Qnd as [|x l Hx Hl]; subst.
    constructor; cbn [tasks queue busy next err log]; try assumption.
    + intros x. rewrite ph_upd_set_ph. destruct (Nat.eqb t x) eqn:E.
      * apply Nat.eqb_eq in E. subst x. split; [contradiction|discriminate].
      * apply Nat.eqb_neq in E. rewrite <- Qph, Eq. cbn. intuition.
    + rewrite Qbusy. symmetry. apply cnt_seq_flip with (t := t); [exact Htn|rewrite Hpt; reflexivity|..].
      * rewrite ph_upd_set_ph, Nat.eqb_refl. reflexivity.
      * intros u Hu. rewrite ph_upd_set_ph. apply not_eq_sym, Nat.eqb_neq in Hu. rewrite Hu. reflexivity.
    + intros x. rewrite ph_upd_set_ph. destruct (Nat.eqb t x) eqn:E; [|apply Lpre].
      apply Nat.eqb_eq in E. subst x. intros _. apply Lpre. rewrite Hpt. reflexivity.
    + intros x. rewrite ph_upd_set_ph. destruct (Nat.eqb t x); [discriminate|apply Lrun].
    + intros x ok. rewrite ph_upd_set_ph. destruct (Nat.eqb t x); [discriminate|apply Lend].
    + intros x. rewrite ph_upd_set_ph. destruct (Nat.eqb t x); [discriminate|apply Lfin].
  - cbn. rewrite Hb, Hpt. reflexivity.
Qed.

Lemma Inv_LCheck : forall s s' t, Inv s -> step c s (LCheck t) = Some s' -> Inv s'.
Proof.
  intros s s' t (I & P & Hb) Hs. unfold step in Hs.
  destruct (ph (tasks s t)) eqn:Hpt; try discriminate.
  assert (Htn : t < next s) by (apply lt_next_of_ph; [exact I|rewrite Hpt; discriminate]).
  destruct (err s) eqn:Ee; injection Hs as <-; unfold with_task; rewrite <- Ee.
  - (* the sticky error is set: skip *)
    split; [|split; [|exact Hb]].
    + unfold SIs. cbn. apply SI_ph_only; [exact I|rewrite Hpt; reflexivity|reflexivity|reflexivity].
    + match goal with |- PI ?s1 => destruct (@Q_keep s s1 P) as (Q1 & Q2 & Q3); try reflexivity end.
      { intros x. cbn. rewrite ph_upd_set_ph. destruct (Nat.eqb t x) eqn:E; [|tauto].
        apply Nat.eqb_eq in E. subst x. rewrite Hpt. split; [split; discriminate|reflexivity]. }
      dPI P. constructor; cbn [tasks queue busy next err log]; try assumption.
      * intros x. rewrite ph_upd_set_ph. destruct (Nat.eqb t x); [discriminate|apply Lpre].
      * intros x. rewrite ph_upd_set_ph. destruct (Nat.eqb t x); [discriminate|apply Lrun].
      * intros x ok. rewrite ph_upd_set_ph. destruct (Nat.eqb t x); [discriminate|apply Lend].
      * intros x. rewrite ph_upd_set_ph. destruct (Nat.eqb t x); [intros _; left; rewrite Ee; discriminate|apply Lfin].
  - (* f starts *)
    split; [|split; [|exact Hb]].
    + unfold SIs. cbn. apply SI_ph_only; [exact I|rewrite Hpt; reflexivity|reflexivity|rewrite Hpt; discriminate].
    + match goal with |- PI ?s1 => destruct (@Q_keep s s1 P) as (Q1 & Q2 & Q3); try reflexivity end.
      { intros x. cbn. rewrite ph_upd_set_ph. destruct (Nat.eqb t x) eqn:E; [|tauto].
        apply Nat.eqb_eq in E. subst x. rewrite Hpt. split; [split; discriminate|reflexivity]. }
      pose proof P as P0. dPI P. constructor; cbn [tasks queue busy next err log]; try assumption.
      * intros x. rewrite ph_upd_set_ph. destruct (Nat.eqb t x) eqn:E; [discriminate|].
        apply Nat.eqb_neq in E. intros H [Hin|Hin]; [injection Hin; auto|]. exact (Lpre x H Hin).
      * intros x. cbn. destruct (Nat.eqb x t) eqn:E; [|apply Lonce].
        apply Nat.eqb_eq in E. subst x. rewrite filter_nil_of_notin; [cbn; lia|].
        apply Lpre. rewrite Hpt. reflexivity.
      * intros x. rewrite ph_upd_set_ph. destruct (Nat.eqb t x) eqn:E.
        -- apply Nat.eqb_eq in E. subst x. intros _. left. reflexivity.
        -- intros H. right. apply Lrun. exact H.
      * apply eab_cons_other; [intros; discriminate|exact Lendbeg].
      * intros x ok. rewrite ph_upd_set_ph. destruct (Nat.eqb t x); [discriminate|].
        intros H. right. apply Lend. exact H.
      * intros x. rewrite ph_upd_set_ph. destruct (Nat.eqb t x); [discriminate|]. intros H.
        destruct (Lfin x H) as [H'|H']; [left; exact H'|right; right; exact H'].
      * (* the order invariant: every earlier conflicting task has ended successfully *)
        intros l1 j l2 Heq. destruct l1 as [|a l1]; cbn in Heq.
        -- injection Heq as <- <-. intros i k Hit (Hki & Hkt & Hnr).
           assert (Hri : reg (cursor s) (next s) i k) by (apply reg_of_earlier with (t := t); auto).
           assert (Hrt : reg (cursor s) (next s) t k) by (apply reg_of_started; auto; rewrite Hpt; discriminate).
           pose proof I as I1. unfold SIs in I1. dSI I1.
           destruct (Qord i t k Hit Hri Hrt Hnr) as [H|(H & _)]; [|congruence].
           destruct (Lfin i H) as [H'|H']; [congruence|exact H'].
        -- injection Heq as _ Heq. exact (Lord l1 j l2 Heq).
      * rewrite first_err_cons_other; [exact Lerr1|intros; discriminate].
      * apply nbae_cons_begin. rewrite <- Lerr1. exact Ee.
      * intros x [H|H]; [discriminate|]. right. apply Lerr3. exact H.
Qed.

Lemma Inv_LFEnd : forall s s' t ok, Inv s -> step c s (LFEnd t ok) = Some s' -> Inv s'.
Proof.
  intros s s' t ok (I & P & Hb) Hs. unfold step in Hs.
  destruct (ph (tasks s t)) eqn:Hpt; try discriminate. injection Hs as <-. unfold with_task.
  split; [|split; [|exact Hb]].
  - unfold SIs. cbn. apply SI_ph_only; [exact I|rewrite Hpt; reflexivity|reflexivity|rewrite Hpt; discriminate].
  - match goal with |- PI ?s1 => destruct (@Q_keep s s1 P) as (Q1 & Q2 & Q3); try reflexivity end.
    { intros x. cbn. rewrite ph_upd_set_ph. destruct (Nat.eqb t x) eqn:E; [|tauto].
      apply Nat.eqb_eq in E. subst x. rewrite Hpt. split; [split; discriminate|reflexivity]. }
    dPI P. constructor; cbn [tasks queue busy next err log]; try assumption.
    + intros x. rewrite ph_upd_set_ph. destruct (Nat.eqb t x) eqn:E; [discriminate|].
      intros H [Hin|Hin]; [discriminate|]. exact (Lpre x H Hin).
    + intros x. rewrite ph_upd_set_ph. destruct (Nat.eqb t x) eqn:E; [discriminate|].
      intros H. right. apply Lrun. exact H.
    + apply eab_cons_end; [apply Lrun; exact Hpt|exact Lendbeg].
    + intros x ok'. rewrite ph_upd_set_ph. destruct (Nat.eqb t x) eqn:E.
      * apply Nat.eqb_eq in E. subst x. intros H. injection H as <-. left. reflexivity.
      * intros H. right. apply Lend. exact H.
    + intros x. rewrite ph_upd_set_ph. destruct (Nat.eqb t x); [discriminate|]. intros H.
      destruct (Lfin x H) as [H'|H']; [left; exact H'|right; right; exact H'].
    + apply ord_ok_cons_other; [intros; discriminate|exact Lord].
    + rewrite first_err_cons_other; [exact Lerr1|intros; discriminate].
    + apply nbae_cons_nonbegin; [intros; discriminate|exact Lerr2].
    + intros x [H|H]; [discriminate|]. right. apply Lerr3. exact H.
Qed.

Lemma Inv_LSetErr : forall s s' t, Inv s -> step c s (LSetErr t) = Some s' -> Inv s'.
Proof.
  intros s s' t (I & P & Hb) Hs. unfold step in Hs.
  destruct (ph (tasks s t)) as [| | | | |ok| |] eqn:Hpt; try discriminate.
  assert (HQ : forall e l, let s1 := with_task s t (set_ph (tasks s t) PAfter) e l in
             NoDup (queue s1) /\ (forall t, In t (queue s1) <-> ph (tasks s1 t) = PQueued) /\
             busy s1 = cnt (fun t => midp (ph (tasks s1 t))) (seq 0 (next s1))).
  { intros e l s1. apply (@Q_keep s s1 P); try reflexivity.
    intros x. cbn. rewrite ph_upd_set_ph. destruct (Nat.eqb t x) eqn:E; [|tauto].
    apply Nat.eqb_eq in E. subst x. rewrite Hpt. split; [split; discriminate|reflexivity]. }
  assert (HI : forall e l, SIs (with_task s t (set_ph (tasks s t) PAfter) e l)).
  { intros e l. unfold SIs. cbn.
    apply SI_ph_only; [exact I|rewrite Hpt; reflexivity|reflexivity|rewrite Hpt; discriminate]. }
  destruct ok; injection Hs as <-; (split; [apply HI|split; [|exact Hb]]).
  - destruct (HQ (err s) (log s)) as (Q1 & Q2 & Q3). unfold with_task in *.
    dPI P. constructor; cbn [tasks queue busy next err log]; try assumption.
    + intros x. rewrite ph_upd_set_ph. destruct (Nat.eqb t x); [discriminate|apply Lpre].
    + intros x. rewrite ph_upd_set_ph. destruct (Nat.eqb t x); [discriminate|apply Lrun].
    + intros x ok. rewrite ph_upd_set_ph. destruct (Nat.eqb t x); [discriminate|apply Lend].
    + intros x. rewrite ph_upd_set_ph. destruct (Nat.eqb t x) eqn:E; [|apply Lfin].
      apply Nat.eqb_eq in E. subst x. intros _. right. apply Lend. exact Hpt.
  - destruct (HQ (cas_err (err s) (ETask t)) (EvErr (ETask t) :: log s)) as (Q1 & Q2 & Q3). unfold with_task in *.
    dPI P. constructor; cbn [tasks queue busy next err log]; try assumption.
    + intros x. rewrite ph_upd_set_ph. destruct (Nat.eqb t x); [discriminate|].
      intros H [Hin|Hin]; [discriminate|]. exact (Lpre x H Hin).
    + intros x. rewrite ph_upd_set_ph. destruct (Nat.eqb t x); [discriminate|].
      intros H. right. apply Lrun. exact H.
    + apply eab_cons_other; [intros; discriminate|exact Lendbeg].
    + intros x ok. rewrite ph_upd_set_ph. destruct (Nat.eqb t x); [discriminate|].
      intros H. right. apply Lend. exact H.
    + intros x _. left. destruct (err s); discriminate.
    + apply ord_ok_cons_other; [intros; discriminate|exact Lord].
    + rewrite first_err_cons_err, Lerr1. reflexivity.
    + apply nbae_cons_nonbegin; [intros; discriminate|exact Lerr2].
    + intros x [H|H].
      * injection H as <-. right. apply Lend. exact Hpt.
      * right. apply Lerr3. exact H.
Qed.

Lemma Inv_LRunBegin : forall s s', Inv s -> step c s LRunBegin = Some s' -> Inv s'.
Proof.
  intros s s' (I & P & Hb) Hs. unfold step in Hs.
  destruct (cursor s) eqn:Ec; [discriminate|].
  destruct (nth_error (c_ts c) (next s)) as [keys|] eqn:En; [|discriminate]. injection Hs as <-.
  assert (Hbl : tasks s (next s) = blank).
  { unfold SIs in I. dSI I. apply Bblank. lia. }
  assert (Hphx : forall x, ph (upd (tasks s) (next s) (fresh (c_maxd c)) x) =
                           if Nat.eqb (next s) x then PReg else ph (tasks s x)).
  { intros x. unfold upd. destruct (Nat.eqb (next s) x); reflexivity. }
  split; [|split; [|exact Hb]].
  - unfold SIs in *. cbn. rewrite Ec in I. apply SI_runbegin; assumption.
  - dPI P. constructor; cbn [tasks queue busy next err log]; try assumption.
    + intros x. rewrite Hphx. destruct (Nat.eqb (next s) x) eqn:E; [|apply Qph].
      apply Nat.eqb_eq in E. subst x. rewrite Qph, Hbl. cbn. split; discriminate.
    + rewrite Qbusy. rewrite seq_S, cnt_app. cbn [plus].
      assert (E1 : cnt (fun t => midp (ph (upd (tasks s) (next s) (fresh (c_maxd c)) t))) [next s] = 0).
      { unfold cnt. cbn. rewrite Hphx, Nat.eqb_refl. reflexivity. }
      rewrite E1, Nat.add_0_r. apply cnt_ext_in. intros x Hx. apply in_seq in Hx. rewrite Hphx.
      assert (Nat.eqb (next s) x = false) as -> by (apply Nat.eqb_neq; lia). reflexivity.
    + intros x. rewrite Hphx. destruct (Nat.eqb (next s) x) eqn:E; [|apply Lpre].
      apply Nat.eqb_eq in E. subst x. intros _. apply Lpre. rewrite Hbl. reflexivity.
    + intros x. rewrite Hphx. destruct (Nat.eqb (next s) x); [discriminate|apply Lrun].
    + intros x ok. rewrite Hphx. destruct (Nat.eqb (next s) x); [discriminate|apply Lend].
    + intros x. rewrite Hphx. destruct (Nat.eqb (next s) x); [discriminate|apply Lfin].
Qed.

Lemma Inv_LRunKey : forall s s' k, Inv s -> step c s (LRunKey k) = Some s' -> Inv s'.
Proof.
  intros s s' k (I & P & Hb) Hs. unfold step in Hs.
  destruct (cursor s) as [[j rem]|] eqn:Ec; [|discriminate].
  destruct (find_key k rem) as [p|] eqn:Ef; [|discriminate]. injection Hs as <-.
  unfold SIs in I. rewrite Ec in I.
  destruct (nodes s k) as [o|] eqn:En.
  - destruct (@SI_runkey_some _ _ _ _ _ _ _ _ I Ef En) as (Hoj & Hex & I').
    destruct (@run_key_spec s j k p (del_key k rem) o En Hoj) as (Ht & Hn & Hc & Hnx & Hq & Hbu & He & Hl & Hbr).
    split; [|split].
    + unfold SIs. rewrite Hn, Hc, Hnx.
      apply SI_ext with (T := rkT (tasks s) j o p); [exact I'|..]; intros x; rewrite Ht;
        unfold same_data; tauto.
    + apply PI_same_ph with (s := s); try assumption. intros x. rewrite Ht. reflexivity.
    + rewrite Hbr, Hb, Hex. destruct (is_read p); reflexivity.
  - unfold run_key. rewrite En. split; [|split; [|exact Hb]].
    + unfold SIs. cbn. apply SI_runkey_none with (p := p); assumption.
    + apply PI_same_ph with (s := s); try assumption; reflexivity.
Qed.

Lemma set_ph_same : forall r, set_ph r (ph r) = r.
Proof. destruct r; reflexivity. Qed.

Lemma Inv_LRunEnd : forall s s', Inv s -> step c s LRunEnd = Some s' -> Inv s'.
Proof.
  intros s s' (I & P & Hb) Hs. unfold step in Hs.
  destruct (cursor s) as [[j [|kp rem]]|] eqn:Ec; try discriminate.
  unfold SIs in I. rewrite Ec in I.
  assert (Hpj : ph (tasks s j) = PReg).
  { pose proof I as I1. dSI I1. apply (Ccur j [] eq_refl). }
  set (d' := (deps (tasks s j) - (c_maxd c - Z.of_nat (length (dset (tasks s j)))))%Z) in *.
  destruct (Z.ltb 0 d') eqn:Ed; injection Hs as <-.
  - apply Z.ltb_lt in Ed. split; [|split; [|exact Hb]].
    + unfold SIs. cbn.
      assert (E : set_deps (tasks s j) d' = set_ph (set_deps (tasks s j) d') PReg).
      { rewrite <- Hpj. change (ph (tasks s j)) with (ph (set_deps (tasks s j) d')).
        symmetry. apply set_ph_same. }
      rewrite E. apply SI_runend; [exact I|]. left. split; [reflexivity|exact Ed].
    + apply PI_same_ph with (s := s); try assumption; try reflexivity.
      intros x. cbn. unfold upd. destruct (Nat.eqb j x) eqn:E; [|reflexivity].
      apply Nat.eqb_eq in E. subst x. reflexivity.
  - apply Z.ltb_ge in Ed. split; [|split].
    + unfold SIs. cbn. apply SI_runend; [exact I|]. right. split; [reflexivity|exact Ed].
    + assert (Hphx : forall x, ph (upd (tasks s) j (set_ph (set_deps (tasks s j) d') PQueued) x) =
                               if Nat.eqb j x then PQueued else ph (tasks s x)).
      { intros x. unfold upd. destruct (Nat.eqb j x); reflexivity. }
      dPI P. constructor; cbn [tasks queue busy next err log]; try assumption.
      * apply NoDup_snoc; [exact Qnd|]. rewrite Qph, Hpj. discriminate.
      * intros x. rewrite Hphx, in_app_iff. cbn. destruct (Nat.eqb j x) eqn:E.
        -- apply Nat.eqb_eq in E. tauto.
        -- apply Nat.eqb_neq in E. rewrite Qph. intuition.
      * rewrite Qbusy. apply cnt_ext_in. intros x _. rewrite Hphx. destruct (Nat.eqb j x) eqn:E; [|reflexivity].
        apply Nat.eqb_eq in E. subst x. rewrite Hpj. reflexivity.
      * intros x. rewrite Hphx. destruct (Nat.eqb j x) eqn:E; [|apply Lpre].
        apply Nat.eqb_eq in E. subst x. intros _. apply Lpre. rewrite Hpj. reflexivity.
      * intros x. rewrite Hphx. destruct (Nat.eqb j x); [discriminate|apply Lrun].
      * intros x ok. rewrite Hphx. destruct (Nat.eqb j x); [discriminate|apply Lend].
      * intros x. rewrite Hphx. destruct (Nat.eqb j x); [discriminate|apply Lfin].
    + cbn. rewrite Hb, Hpj. reflexivity.
Qed.

Lemma Inv_LUnread : forall s s' t r, Inv s -> step c s (LUnread t r) = Some s' -> Inv s'.
Proof.
  intros s s' t r (I & P & Hb) Hs. unfold step in Hs.
  destruct (ph (tasks s t)) eqn:Hpt; try discriminate.
  destruct (mem r (reading (tasks s t))) eqn:Hm; [|discriminate]. injection Hs as <-.
  apply mem_In in Hm. split; [|split; [|exact Hb]].
  - unfold SIs. cbn. apply SI_unread; assumption.
  - apply PI_same_ph with (s := s); try assumption; try reflexivity.
    intros x. cbn. unfold upd. destruct (Nat.eqb t x) eqn:E1.
    + apply Nat.eqb_eq in E1. subst x. destruct (Nat.eqb r t) eqn:E3; [apply Nat.eqb_eq in E3; subst r|]; reflexivity.
    + destruct (Nat.eqb r x) eqn:E2; [apply Nat.eqb_eq in E2; subst r|]; reflexivity.
Qed.

Lemma notifyT_ph : forall T t, ~ In t (blocked (T t)) -> forall x,
  ph (notifyT T t x) =
    if Nat.eqb x t then PDone
    else if mem x (blocked (T t)) && Z.leb (deps (T x) - 1) 0 then PQueued else ph (T x).
Proof.
  intros T t Hn x. unfold notifyT. rewrite upd_eq, (Nat.eqb_sym t x).
  destruct (Nat.eqb x t) eqn:E; [reflexivity|].
  destruct (mem x (blocked (T t))); cbn; [|reflexivity].
  destruct (Z.leb (deps (T x) - 1) 0); reflexivity.
Qed.

Lemma Inv_LNotify : forall s s' t,
  (Z.of_nat (length (c_ts c)) <= c_maxd c)%Z -> Inv s -> step c s (LNotify t) = Some s' -> Inv s'.
Proof.
  intros s s' t Hmaxd (I & P & Hb) Hs. unfold step in Hs.
  destruct (ph (tasks s t)) eqn:Hpt; try discriminate.
  destruct (reading (tasks s t)) eqn:Hrt; [|discriminate]. injection Hs as <-.
  set (bl := blocked (tasks s t)).
  set (ready := fun x => Z.leb (deps (tasks s x) - 1) 0).
  assert (Hbl : forall x, In x bl -> ph (tasks s x) = PReg /\ x <> t).
  { intros x Hx. pose proof I as I1. unfold SIs in I1. dSI I1. destruct (Bblk t x Hx) as (H1 & H2).
    split; [exact H1|]. apply Bdslt in H2. lia. }
  assert (Hnt : ~ In t bl). { intros H. apply Hbl in H. tauto. }
  assert (Hphx : forall x, ph (tasks (notify s t) x) =
            if Nat.eqb x t then PDone else if mem x bl && ready x then PQueued else ph (tasks s x)).
  { intros x. rewrite notify_tasks. apply notifyT_ph. exact Hnt. }
  assert (Htn : t < next s) by (apply lt_next_of_ph; [exact I|rewrite Hpt; discriminate]).
  split; [|split].
  - unfold SIs. rewrite notify_tasks. cbn. apply SI_notify; assumption.
  - dPI P. constructor; try (rewrite notify_tasks); cbn [notify tasks queue busy next err log]; fold bl ready.
    + apply NoDup_app_disj; [exact Qnd| |].
      * apply NoDup_filter. unfold SIs in I. dSI I. apply Bblnd.
      * intros x Hx Hf. apply filter_In in Hf. destruct Hf as (Hf & _). apply Hbl in Hf.
        apply Qph in Hx. destruct Hf. congruence.
    + intros x. rewrite <- notify_tasks, Hphx. rewrite in_app_iff, filter_In, Qph.
      destruct (Nat.eqb x t) eqn:E.
      * apply Nat.eqb_eq in E. subst x. split; [|discriminate]. intros [H|(H & _)]; [congruence|contradiction].
      * destruct (mem x bl) eqn:E2; cbn [andb].
        -- apply mem_In in E2. destruct (ready x); [tauto|]. destruct (Hbl x E2) as (Hp & _). rewrite Hp.
           split; [intros [H|(_ & H)]; discriminate|discriminate].
        -- apply mem_nIn in E2. tauto.
    + assert (Hc : cnt (fun x => midp (ph (tasks s x))) (seq 0 (next s)) =
                   S (cnt (fun x => midp (ph (notifyT (tasks s) t x))) (seq 0 (next s)))).
      { apply cnt_seq_flip with (t := t); [exact Htn|..].
        - rewrite <- notify_tasks, Hphx, Nat.eqb_refl. reflexivity.
        - rewrite Hpt. reflexivity.
        - intros u Hu. rewrite <- notify_tasks, Hphx. apply Nat.eqb_neq in Hu. rewrite Hu.
          destruct (mem u bl) eqn:E2; cbn [andb]; [|reflexivity]. apply mem_In in E2.
          destruct (Hbl u E2) as (Hp & _). rewrite Hp. destruct (ready u); reflexivity. }
      rewrite Qbusy, Hc. reflexivity.
    + intros x. rewrite <- notify_tasks, Hphx. destruct (Nat.eqb x t); [discriminate|].
      destruct (mem x bl) eqn:E2; cbn [andb]; [|apply Lpre]. apply mem_In in E2.
      destruct (Hbl x E2) as (Hp & _). intros _. apply Lpre. rewrite Hp. reflexivity.
    + exact Lonce.
    + intros x. rewrite <- notify_tasks, Hphx. destruct (Nat.eqb x t); [discriminate|].
      destruct (mem x bl && ready x); [discriminate|apply Lrun].
    + exact Lendbeg.
    + intros x ok. rewrite <- notify_tasks, Hphx. destruct (Nat.eqb x t); [discriminate|].
      destruct (mem x bl && ready x); [discriminate|apply Lend].
    + intros x. rewrite <- notify_tasks, Hphx. destruct (Nat.eqb x t) eqn:E.
      * apply Nat.eqb_eq in E. subst x. intros _. apply Lfin. rewrite Hpt. reflexivity.
      * destruct (mem x bl && ready x); [discriminate|apply Lfin].
    + exact Lord.
    + exact Lerr1.
    + exact Lerr2.
    + exact Lerr3.
  - cbn [notify broken]. rewrite Hb. cbn [orb]. apply not_true_is_false. intros H.
    apply existsb_exists in H. destruct H as (x & Hx & H). fold bl in Hx. destruct (Hbl x Hx) as (Hp & _).
    rewrite Hp in H. cbn in H. rewrite andb_false_r in H. discriminate.
Qed.

Lemma Inv_LRot : forall s s', Inv s -> step c s LRot = Some s' -> Inv s'.
Proof.
  intros s s' (I & P & Hb) Hs. unfold step in Hs.
  destruct (queue s) as [|t q] eqn:Eq; [discriminate|]. injection Hs as <-.
  split; [exact I|]. split; [|exact Hb].
  dPI P. rewrite Eq in Qnd. constructor; cbn [tasks queue busy next err log]; try assumption.
  - inversion Qnd as [|x l Hx Hl]; subst. apply NoDup_snoc_q; assumption.
  - intros x. rewrite <- Qph, Eq. rewrite in_app_iff. cbn. tauto.
Qed.

(* ---- all labels ---- *)

Lemma Inv_init : Inv init.
Proof. split; [apply SI_init|]. split; [apply PI_init|reflexivity]. Qed.

Lemma Inv_step : forall s l s',
  (Z.of_nat (length (c_ts c)) <= c_maxd c)%Z -> Inv s -> step c s l = Some s' -> Inv s'.
Proof.
  intros s l s' Hmaxd HI Hs. destruct l.
  - eapply Inv_LRunBegin; eassumption.
  - eapply Inv_LRunKey; eassumption.
  - eapply Inv_LRunEnd; eassumption.
  - eapply Inv_LTake; eassumption.
  - eapply Inv_LCheck; eassumption.
  - eapply Inv_LFEnd; eassumption.
  - eapply Inv_LSetErr; eassumption.
  - eapply Inv_LUnread; eassumption.
  - eapply Inv_LNotify; eassumption.
  - eapply Inv_LStop; eassumption.
  - eapply Inv_LRot; eassumption.
Qed.

Lemma Inv_steps : forall s tr s',
  (Z.of_nat (length (c_ts c)) <= c_maxd c)%Z -> steps c s tr s' -> Inv s -> Inv s'.
Proof.
  intros s tr s' Hmaxd H. induction H as [s|s tr s1 l s2 H IH Hs]; intros HI; [exact HI|].
  eapply Inv_step; [exact Hmaxd|apply IH; exact HI|exact Hs].
Qed.

Lemma Inv_reachable : forall s,
  (Z.of_nat (length (c_ts c)) <= c_maxd c)%Z -> reachable c s -> Inv s.
Proof. intros s Hmaxd (tr & H). eapply Inv_steps; [exact Hmaxd|exact H|apply Inv_init]. Qed.

(* ------------------------------------------------------------------------------------------------ *)
(* 6. progress (no deadlock)                                                                         *)
(* ------------------------------------------------------------------------------------------------ *)

Lemma cnt_pos_ex : forall g l, 0 < cnt g l -> exists x, In x l /\ g x = true.
Proof.
  intros g l. unfold cnt. induction l as [|a l IH]; cbn; [lia|].
  destruct (g a) eqn:E.
  - intros _. exists a. auto.
  - intros H. destruct (IH H) as (x & Hx & Hg). exists x. auto.
Qed.

Lemma cnt_lt_ex : forall g l, cnt g l < length l -> exists x, In x l /\ g x = false.
Proof.
  intros g l. unfold cnt. induction l as [|a l IH]; cbn; [lia|].
  destruct (g a) eqn:E.
  - cbn. intros H. destruct IH as (x & Hx & Hg); [lia|]. exists x. auto.
  - intros _. exists a. auto.
Qed.

Lemma cnt_zero_all : forall g l, cnt g l = 0 -> forall x, In x l -> g x = false.
Proof.
  intros g l. unfold cnt. induction l as [|a l IH]; cbn; intros H x Hx; [destruct Hx|].
  destruct (g a) eqn:E; [discriminate|]. destruct Hx as [->|Hx]; [exact E|apply IH; assumption].
Qed.

Definition enabled (s : state) : Prop := exists l s', l <> LStop /\ step c s l = Some s'.

Lemma progress : forall s, 1 <= c_nw c -> Inv s -> all_done c s \/ enabled s.
Proof.
  intros s Hnw (I & P & Hb). pose proof I as I0. unfold SIs in I. dSI I. pose proof P as P0. dPI P.
  destruct (cursor s) as [[j rem]|] eqn:Ec.
  { right. destruct rem as [|[k p] rem].
    - exists LRunEnd. unfold step. rewrite Ec.
      destruct (Z.ltb 0 (deps (tasks s j) - (c_maxd c - Z.of_nat (length (dset (tasks s j))))))%Z; eexists; (split; [discriminate|reflexivity]).
    - exists (LRunKey k). unfold step. rewrite Ec, find_key_hd. eexists; (split; [discriminate|reflexivity]). }
  destruct (Nat.eq_dec (next s) (length (c_ts c))) as [Hnx|Hnx].
  2:{ right. exists LRunBegin. unfold step. rewrite Ec.
      destruct (nth_error (c_ts c) (next s)) eqn:En; [eexists; (split; [discriminate|reflexivity])|].
      apply nth_error_None in En. lia. }
  (* some worker is inside runTask *)
  destruct (Nat.eq_dec (busy s) 0) as [Hbz|Hbz].
  2:{ right. assert (Hpos : 0 < cnt (fun t => midp (ph (tasks s t))) (seq 0 (next s))) by lia.
      destruct (cnt_pos_ex _ _ Hpos) as (t & _ & Hm). cbn beta in Hm.
      destruct (ph (tasks s t)) as [| | | | |ok| |] eqn:Hpt; try discriminate.
      - exists (LCheck t). unfold step. rewrite Hpt. destruct (err s); eexists; (split; [discriminate|reflexivity]).
      - exists (LFEnd t true). unfold step. rewrite Hpt. eexists; (split; [discriminate|reflexivity]).
      - exists (LSetErr t). unfold step. rewrite Hpt. destruct ok; eexists; (split; [discriminate|reflexivity]).
      - destruct (reading (tasks s t)) as [|r l] eqn:Hr.
        + exists (LNotify t). unfold step. rewrite Hpt, Hr. eexists; (split; [discriminate|reflexivity]).
        + exists (LUnread t r). unfold step. rewrite Hpt, Hr.
          assert (mem r (r :: l) = true) as -> by (apply mem_In; left; reflexivity). eexists; (split; [discriminate|reflexivity]). }
  destruct (queue s) as [|t q] eqn:Eq.
  2:{ right. exists LTake. unfold step. rewrite Eq.
      assert (Nat.ltb (busy s) (c_nw c) = true) as -> by (apply Nat.ltb_lt; lia). eexists; (split; [discriminate|reflexivity]). }
  (* nothing queued, no worker busy: every task went through Notify *)
  left. split; [exact Ec|]. split; [exact Hnx|]. rewrite <- Hnx.
  assert (Hnomid : forall t, t < next s -> midp (ph (tasks s t)) = false).
  { intros t Ht. apply (cnt_zero_all (fun t => midp (ph (tasks s t))) (seq 0 (next s))); [lia|].
    apply in_seq. lia. }
  intros j. induction j as [j IH] using lt_wf_ind. intros Hj.
  pose proof (Hnomid j Hj) as Hm. pose proof (Bnonone j Hj) as Hnn.
  destruct (ph (tasks s j)) eqn:Hpj; try discriminate; try reflexivity; try congruence.
  - (* PReg: waits for an earlier task that is done *)
    exfalso. assert (Hnc : forall rem, @None (tid * list (key * perm)) <> Some (j, rem)) by (intros; discriminate).
    destruct (Dwait j Hpj Hnc) as (Hd & Hpos).
    assert (Hlt : nnot (tasks s) j < length (dset (tasks s j))) by lia.
    destruct (cnt_lt_ex _ _ Hlt) as (u & Hu & Hg). cbn beta in Hg.
    apply negb_false_iff, mem_In in Hg. pose proof (Bdslt u j Hu) as Huj.
    assert (Hdu : ph (tasks s u) = PDone) by (apply IH; lia).
    destruct (Bdone u Hdu) as (Hbu & _). rewrite Hbu in Hg. destruct Hg.
  - (* PQueued: would be in the queue *)
    exfalso. apply (proj2 (Qph j)) in Hpj. rewrite ?Eq in Hpj. destruct Hpj.
Qed.

(* ------------------------------------------------------------------------------------------------ *)
(* 7. conflicts of the property text vs. the per-key relation used by the invariant                  *)
(* ------------------------------------------------------------------------------------------------ *)

Lemma conflict_with_confl : forall excl i j ti tj,
  (forall t, In t (c_ts c) -> NoDup (map fst t)) ->
  (forall p, excl p = true -> is_read p = false) ->
  nth_error (c_ts c) i = Some ti -> nth_error (c_ts c) j = Some tj ->
  conflict_with excl ti tj = true -> exists k, confl i j k.
Proof.
  intros excl i j ti tj Hnd Hex Hi Hj Hc. unfold conflict_with in Hc.
  apply existsb_exists in Hc. destruct Hc as ([k pa] & Ha & Hc).
  apply existsb_exists in Hc. destruct Hc as ([k' pb] & Hb' & Hc). cbn [fst snd] in Hc.
  apply andb_true_iff in Hc. destruct Hc as (Hk & He). apply N.eqb_eq in Hk. subst k'.
  assert (Hki : kperm i k = Some pa).
  { unfold kperm, keys_of. rewrite (nth_error_nth _ _ _ Hi). apply find_key_In; [|exact Ha].
    apply Hnd. eapply nth_error_In; exact Hi. }
  assert (Hkj : kperm j k = Some pb).
  { unfold kperm, keys_of. rewrite (nth_error_nth _ _ _ Hj). apply find_key_In; [|exact Hb'].
    apply Hnd. eapply nth_error_In; exact Hj. }
  exists k. split; [congruence|]. split; [congruence|].
  apply orb_true_iff in He. destruct He as [He|He]; [left|right].
  - exists pa. split; [exact Hki|apply Hex; exact He].
  - exists pb. split; [exact Hkj|apply Hex; exact He].
Qed.

Lemma more_than_read_not_read : forall p, more_than_read p = true -> is_read p = false.
Proof.
  intros p H. unfold more_than_read in H. apply andb_true_iff in H. destruct H as (_ & H).
  apply negb_true_iff in H. exact H.
Qed.

End Inv.

(* ------------------------------------------------------------------------------------------------ *)
(* 8. statements over all traces                                                                     *)
(* ------------------------------------------------------------------------------------------------ *)

Ltac dSI I :=
  destruct I as [Bblank Bnonone Bnext Bexec Bdone Bblk Bblnd Brd Brdlt Bdslt Bdsnd Bds9 Ccur Dcur Dwait
                 Nown Nreg Qord].
Ltac dPI P :=
  destruct P as [Qnd Qph Qbusy Lpre Lonce Lrun Lendbeg Lend Lfin Lord Lerr1 Lerr2 Lerr3].

Lemma reachable_Inv : forall c tr s, cfg_ok c -> steps c init tr s -> Inv c s.
Proof. intros c tr s (Hm & _) H. apply Inv_reachable; [exact Hm|exists tr; exact H]. Qed.

(* which label wrote which event *)
Lemma log_run_key : forall s j k p rem', log (run_key s j k p rem') = log s.
Proof.
  intros. unfold run_key. destruct (nodes s k); [|reflexivity].
  destruct (is_read p); cbn [executed set_readers negb];
  match goal with |- context [if negb ?b then _ else _] => destruct b end; reflexivity.
Qed.

Lemma step_log : forall c s l s', step c s l = Some s' ->
  log s' = log s \/
  (exists t, l = LCheck t /\ log s' = EvBegin t :: log s) \/
  (exists t ok, l = LFEnd t ok /\ log s' = EvEnd t ok :: log s) \/
  (exists t, l = LSetErr t /\ log s' = EvErr (ETask t) :: log s) \/
  (l = LStop /\ log s' = EvErr EStop :: log s).
Proof.
  intros c s l s' H. destruct l; unfold step in H.
  - destruct (cursor s); [discriminate|]. destruct (nth_error (c_ts c) (next s)); [|discriminate].
    injection H as <-. left. reflexivity.
  - destruct (cursor s) as [[j rem]|]; [|discriminate]. destruct (find_key k rem); [|discriminate].
    injection H as <-. left. apply log_run_key.
  - destruct (cursor s) as [[j [|kp rem]]|]; try discriminate.
    match type of H with (if ?b then _ else _) = _ => destruct b end; injection H as <-; left; reflexivity.
  - destruct (queue s); [discriminate|]. destruct (Nat.ltb (busy s) (c_nw c)); [|discriminate].
    injection H as <-. left. reflexivity.
  - destruct (ph (tasks s t)); try discriminate. destruct (err s); injection H as <-.
    + left. reflexivity.
    + right. left. exists t. auto.
  - destruct (ph (tasks s t)); try discriminate. injection H as <-. right. right. left. exists t, ok. auto.
  - destruct (ph (tasks s t)) as [| | | | |ok| |]; try discriminate. destruct ok; injection H as <-.
    + left. reflexivity.
    + right. right. right. left. exists t. auto.
  - destruct (ph (tasks s t)); try discriminate. destruct (mem r (reading (tasks s t))); [|discriminate].
    injection H as <-. left. reflexivity.
  - destruct (ph (tasks s t)); try discriminate. destruct (reading (tasks s t)); [|discriminate].
    injection H as <-. left. reflexivity.
  - injection H as <-. right. right. right. right. auto.
  - destruct (queue s); [discriminate|]. injection H as <-. left. reflexivity.
Qed.

Lemma log_from_labels : forall c tr s, steps c init tr s ->
  (forall t ok, In (EvEnd t ok) (log s) -> In (LFEnd t ok) tr) /\
  (In (EvErr EStop) (log s) -> In LStop tr).
Proof.
  intros c tr s H. remember init as s0 eqn:E0. induction H as [s|s tr s1 l s2 H IH Hs].
  - subst s. cbn. split; [intros t ok []|intros []].
  - specialize (IH E0). destruct IH as (IH1 & IH2).
    destruct (step_log _ _ _ Hs) as [Hl|[(t & -> & Hl)|[(t & ok & -> & Hl)|[(t & -> & Hl)|(-> & Hl)]]]];
      rewrite Hl; split.
    + intros t ok Hin. apply in_or_app. left. apply IH1. exact Hin.
    + intros Hin. apply in_or_app. left. apply IH2. exact Hin.
    + intros t' ok [Hin|Hin]; [discriminate|]. apply in_or_app. left. apply IH1. exact Hin.
    + intros [Hin|Hin]; [discriminate|]. apply in_or_app. left. apply IH2. exact Hin.
    + intros t' ok' [Hin|Hin].
      * injection Hin as <- <-. apply in_or_app. right. left. reflexivity.
      * apply in_or_app. left. apply IH1. exact Hin.
    + intros [Hin|Hin]; [discriminate|]. apply in_or_app. left. apply IH2. exact Hin.
    + intros t' ok [Hin|Hin]; [discriminate|]. apply in_or_app. left. apply IH1. exact Hin.
    + intros [Hin|Hin]; [discriminate|]. apply in_or_app. left. apply IH2. exact Hin.
    + intros t' ok [Hin|Hin]; [discriminate|]. apply in_or_app. left. apply IH1. exact Hin.
    + intros _. apply in_or_app. right. left. reflexivity.
Qed.

Lemma first_err_some_in : forall l e, first_err l = Some e -> In (EvErr e) l.
Proof.
  induction l as [|a l IH]; cbn; intros e H; [discriminate|].
  destruct (first_err l) eqn:E.
  - injection H as <-. right. apply IH. reflexivity.
  - destruct a; try discriminate. injection H as <-. left. reflexivity.
Qed.

(* no Stop and no failing f in the trace: the sticky error is never set *)
Lemma err_none_of_trace : forall c tr s, cfg_ok c -> steps c init tr s ->
  ~ In LStop tr -> (forall t, ~ In (LFEnd t false) tr) -> err s = None.
Proof.
  intros c tr s Hc H Hstop Hfail. destruct (reachable_Inv Hc H) as (_ & P & _).
  destruct (log_from_labels H) as (L1 & L2).
  destruct (err s) as [e|] eqn:Ee; [|reflexivity]. exfalso.
  rewrite (l_err1 P) in Ee. apply first_err_some_in in Ee. destruct e as [t|].
  - apply (Hfail t). apply L1. apply (l_err3 P). exact Ee.
  - apply Hstop. apply L2. exact Ee.
Qed.

Lemma filter_beg_pos : forall t l, In (EvBegin t) l -> 1 <= length (filter (is_beg t) l).
Proof.
  intros t l. induction l as [|e l IH]; cbn; intros H; [destruct H|].
  destruct H as [->|H].
  - cbn. rewrite Nat.eqb_refl. cbn. lia.
  - specialize (IH H). destruct (is_beg t e); cbn; lia.
Qed.

(* C08_no_broken *)
Lemma exec_no_broken : forall c tr s, cfg_ok c -> steps c init tr s -> broken s = false.
Proof. intros c tr s Hc H. apply (reachable_Inv Hc H). Qed.

(* C08_once *)
Lemma exec_once : forall c tr s, cfg_ok c -> steps c init tr s ->
  forall t l1 l2, log s = l1 ++ EvBegin t :: l2 -> ~ In (EvBegin t) l1 /\ ~ In (EvBegin t) l2.
Proof.
  intros c tr s Hc H t l1 l2 Heq. destruct (reachable_Inv Hc H) as (_ & P & _).
  pose proof (l_once P t) as Ho. rewrite Heq, filter_app, app_length in Ho. cbn in Ho.
  rewrite Nat.eqb_refl in Ho. cbn in Ho.
  split; intros Hin; apply filter_beg_pos in Hin; lia.
Qed.

(* C08_order for the executor's own notion of conflict (anything that is not exactly Read is exclusive) *)
Lemma exec_order_gen : forall excl c tr s,
  (forall p, excl p = true -> is_read p = false) ->
  cfg_ok c -> steps c init tr s ->
  forall i j ti tj, i < j ->
    nth_error (c_ts c) i = Some ti -> nth_error (c_ts c) j = Some tj ->
    conflict_with excl ti tj = true ->
  forall l1 l2, log s = l1 ++ EvBegin j :: l2 ->
    In (EvEnd i true) l2 /\ exists l3 l4, l2 = l3 ++ EvEnd i true :: l4 /\ In (EvBegin i) l4.
Proof.
  intros excl c tr s Hex Hc H i j ti tj Hij Hi Hj Hcf l1 l2 Heq.
  destruct (reachable_Inv Hc H) as (_ & P & _).
  destruct (@conflict_with_confl c excl i j ti tj (proj2 Hc) Hex Hi Hj Hcf) as (k & Hk).
  pose proof (l_ord P) as Ho. unfold ord_ok in Ho.
  pose proof (Ho l1 j l2 Heq i k Hij Hk) as Hin. split; [exact Hin|].
  apply in_split in Hin. destruct Hin as (l3 & l4 & E). exists l3, l4. split; [exact E|].
  pose proof (l_endbeg P) as Hb. unfold end_after_begin in Hb.
  apply Hb with (l1 := l1 ++ EvBegin j :: l3) (ok := true).
  rewrite Heq, E. rewrite <- app_assoc. reflexivity.
Qed.

(* C08_progress *)
Lemma exec_progress : forall c tr s, cfg_ok c -> 1 <= c_nw c -> steps c init tr s ->
  all_done c s \/ exists l s', l <> LStop /\ step c s l = Some s'.
Proof. intros c tr s Hc Hnw H. apply progress; [exact Hnw|apply (reachable_Inv Hc H)]. Qed.

(* conversely the final states are exactly the states in which nothing but Stop can happen *)
Lemma exec_done_stuck : forall c tr s, cfg_ok c -> steps c init tr s -> all_done c s ->
  forall l, l <> LStop -> step c s l = None.
Proof.
  intros c tr s Hc H (Hcur & Hnx & Hd) l Hl. destruct (reachable_Inv Hc H) as (I & P & _).
  assert (Hph : forall t, ph (tasks s t) = PDone \/ ph (tasks s t) = PNone).
  { intros t. destruct (Nat.lt_ge_cases t (length (c_ts c))) as [Ht|Ht]; [left; apply Hd; exact Ht|right].
    pose proof I as I1. unfold SIs in I1. dSI I1. rewrite Bblank by lia. reflexivity. }
  destruct l; unfold step; rewrite ?Hcur; try reflexivity.
  - rewrite Hnx. assert (nth_error (c_ts c) (length (c_ts c)) = None) as -> by (apply nth_error_None; lia).
    reflexivity.
  - destruct (queue s) as [|t q] eqn:Eq; [reflexivity|]. exfalso.
    assert (Hq : ph (tasks s t) = PQueued) by (apply (q_ph P); rewrite Eq; left; reflexivity).
    destruct (Hph t) as [H1|H1]; congruence.
  - destruct (Hph t) as [H1|H1]; rewrite H1; reflexivity.
  - destruct (Hph t) as [H1|H1]; rewrite H1; reflexivity.
  - destruct (Hph t) as [H1|H1]; rewrite H1; reflexivity.
  - destruct (Hph t) as [H1|H1]; rewrite H1; reflexivity.
  - destruct (Hph t) as [H1|H1]; rewrite H1; reflexivity.
  - contradiction.
  - destruct (queue s) as [|t q] eqn:Eq; [reflexivity|]. exfalso.
    assert (Hq : ph (tasks s t) = PQueued) by (apply (q_ph P); rewrite Eq; left; reflexivity).
    destruct (Hph t) as [H1|H1]; congruence.
Qed.

(* C08_all_run *)
Lemma exec_all_run : forall c tr s, cfg_ok c -> 1 <= c_nw c -> steps c init tr s ->
  (forall l, l <> LStop -> step c s l = None) ->
  all_done c s /\
  (~ In LStop tr -> (forall t, ~ In (LFEnd t false) tr) ->
   err s = None /\ forall j, j < length (c_ts c) -> In (EvBegin j) (log s) /\ In (EvEnd j true) (log s)).
Proof.
  intros c tr s Hc Hnw H Hstuck.
  assert (Hd : all_done c s).
  { destruct (exec_progress Hc Hnw H) as [Hd|(l & s' & Hl & Hs)]; [exact Hd|]. rewrite (Hstuck l Hl) in Hs. discriminate. }
  split; [exact Hd|]. intros Hstop Hfail.
  pose proof (err_none_of_trace Hc H Hstop Hfail) as He. split; [exact He|].
  intros j Hj. destruct (reachable_Inv Hc H) as (_ & P & _). destruct Hd as (_ & _ & Hd).
  assert (Hend : In (EvEnd j true) (log s)).
  { destruct (l_fin P j) as [H1|H1]; [rewrite (Hd j Hj); reflexivity|congruence|exact H1]. }
  split; [|exact Hend]. apply in_split in Hend. destruct Hend as (l1 & l2 & E).
  pose proof (l_endbeg P) as Hb. unfold end_after_begin in Hb.
  rewrite E. apply in_or_app. right. right. apply (Hb l1 j true l2 E).
Qed.

(* C08_first_error *)
Lemma exec_first_error : forall c tr s, cfg_ok c -> steps c init tr s ->
  err s = first_err (log s) /\
  (forall l1 e l2, log s = l1 ++ EvErr e :: l2 -> forall t, ~ In (EvBegin t) l1) /\
  (forall t, In (EvErr (ETask t)) (log s) -> In (EvEnd t false) (log s) /\ In (LFEnd t false) tr) /\
  (In (EvErr EStop) (log s) -> In LStop tr).
Proof.
  intros c tr s Hc H. destruct (reachable_Inv Hc H) as (_ & P & _). destruct (log_from_labels H) as (L1 & L2).
  split; [apply (l_err1 P)|]. split; [apply (l_err2 P)|]. split; [|exact L2].
  intros t Hin. pose proof (l_err3 P t Hin) as He. split; [exact He|apply L1; exact He].
Qed.

(* the channel never holds more than #tasks entries: with capacity items >= #tasks a send never blocks *)
Lemma exec_queue_bound : forall c tr s, cfg_ok c -> steps c init tr s ->
  length (queue s) <= length (c_ts c).
Proof.
  intros c tr s Hc H. destruct (reachable_Inv Hc H) as (I & P & _).
  transitivity (next s); [|pose proof I as I1; unfold SIs in I1; dSI I1; exact Bnext].
  dPI P. apply NoDup_lt_length; [exact Qnd|]. intros x Hx. apply Qph in Hx.
  apply lt_next_of_ph with (c := c); [exact I|rewrite Hx; discriminate].
Qed.

(* ------------------------------------------------------------------------------------------------ *)
(* 9. executable replay is a trace; decidable all_done (for the non-vacuity examples)                *)
(* ------------------------------------------------------------------------------------------------ *)

Lemma steps_cons : forall c s l s1 tr s2, step c s l = Some s1 -> steps c s1 tr s2 -> steps c s (l :: tr) s2.
Proof.
  intros c s l s1 tr s2 Hs H. induction H as [s1|s1 tr s2 l' s3 H IH Hs'].
  - change [l] with ([] ++ [l]). eapply steps_snoc; [apply steps_nil|exact Hs].
  - change (l :: tr ++ [l']) with ((l :: tr) ++ [l']). eapply steps_snoc; [apply IH; exact Hs|exact Hs'].
Qed.

Lemma run_labels_steps : forall c ls s s', run_labels c s ls = Some s' -> steps c s ls s'.
Proof.
  intros c ls. induction ls as [|l ls IH]; cbn; intros s s' H.
  - injection H as <-. constructor.
  - destruct (step c s l) as [s1|] eqn:E; [|discriminate]. eapply steps_cons; [exact E|apply IH; exact H].
Qed.

Lemma run_labels_witness : forall c ls (P : state -> Prop),
  match run_labels c init ls with Some s => P s | None => False end ->
  exists s, steps c init ls s /\ P s.
Proof.
  intros c ls P H. destruct (run_labels c init ls) as [s|] eqn:E; [|destruct H].
  exists s. split; [apply run_labels_steps; exact E|exact H].
Qed.

Definition is_done (p : phase) : bool := match p with PDone => true | _ => false end.
Definition all_doneb (c : cfg) (s : state) : bool :=
  match cursor s with None => true | Some _ => false end &&
  Nat.eqb (next s) (length (c_ts c)) &&
  forallb (fun j => is_done (ph (tasks s j))) (seq 0 (length (c_ts c))).

Lemma all_doneb_ok : forall c s, all_doneb c s = true -> all_done c s.
Proof.
  intros c s H. unfold all_doneb in H. apply andb_true_iff in H. destruct H as (H & H3).
  apply andb_true_iff in H. destruct H as (H1 & H2). split; [destruct (cursor s); [discriminate|reflexivity]|].
  split; [apply Nat.eqb_eq; exact H2|]. intros j Hj. rewrite forallb_forall in H3.
  assert (Hin : In j (seq 0 (length (c_ts c)))) by (apply in_seq; lia). specialize (H3 j Hin).
  destruct (ph (tasks s j)); try discriminate. reflexivity.
Qed.

Definition keys_nodup (ts : list task) : bool :=
  forallb (fun t => Nat.eqb (length (nodup N.eq_dec (map fst t))) (length t)) ts.

Lemma nodup_len_NoDup : forall (l : list N), length (nodup N.eq_dec l) = length l -> NoDup l.
Proof.
  induction l as [|a l IH]; cbn; intros H; [constructor|].
  destruct (in_dec N.eq_dec a l) as [Hin|Hin].
  - exfalso. pose proof (NoDup_incl_length (NoDup_nodup N.eq_dec l) (fun x Hx => proj1 (nodup_In N.eq_dec l x) Hx)). lia.
  - cbn in H. constructor; [exact Hin|]. apply IH. lia.
Qed.

Lemma cfg_ok_b : forall c, Z.leb (Z.of_nat (length (c_ts c))) (c_maxd c) && keys_nodup (c_ts c) = true -> cfg_ok c.
Proof.
  intros c H. apply andb_true_iff in H. destruct H as (H1 & H2). split; [apply Z.leb_le; exact H1|].
  intros t Ht. unfold keys_nodup in H2. rewrite forallb_forall in H2. specialize (H2 t Ht).
  apply Nat.eqb_eq in H2. apply nodup_len_NoDup. rewrite map_length. exact H2.
Qed.

Lemma conflict_spec_conflict : forall a b, conflict_spec a b = true -> conflict a b = true.
Proof.
  intros a b H. unfold conflict_spec, conflict, conflict_with in *.
  apply existsb_exists in H. destruct H as (kp & Hkp & H). apply existsb_exists. exists kp. split; [exact Hkp|].
  apply existsb_exists in H. destruct H as (kq & Hkq & H). apply existsb_exists. exists kq. split; [exact Hkq|].
  apply andb_true_iff in H. destruct H as (H1 & H2). apply andb_true_iff. split; [exact H1|].
  apply orb_true_iff in H2. apply orb_true_iff.
  destruct H2 as [H2|H2]; [left|right]; rewrite (more_than_read_not_read _ H2); reflexivity.
Qed.
