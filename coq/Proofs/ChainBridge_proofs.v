(* Bridge between the block-execution model (Model/Chain.v) and the theory of the state view
   (Proofs/Tstate_proofs.v):
   1. [reach s s']: s' is obtained from s by a history of get/insert/remove operations (no rollback),
      so that rollback_restores, write_confinement, run_view_ok ... apply to run_ops / run_actions /
      sub_balance / add_balance / execute_tx;
   2. [agree]-preservation: two views that agree (same scope, same pending maps, same values under
      every read-declared key) produce the same outputs/results and still agree. *)
From stdpp Require Import gmap.
From Coq Require Import NArith ZArith Lia.
From HV Require Import Lib.Bytes Lib.U64 Model.Keys Model.Tstate Model.Fees Model.TxStatic Model.Chain
                       Proofs.Tstate_proofs.
Local Open Scope N_scope.

(* ------------------------------------------------------------------ 1. reach *)

Definition norb (h : hop) : Prop := match h with HRb _ => False | _ => True end.

Lemma norb_above n h : norb h -> above n h.
Proof. destruct h; cbn; tauto. Qed.

Lemma Forall_norb_above n hs : Forall norb hs -> Forall (above n) hs.
Proof. intros H. eapply Forall_impl; [exact H|]. intros h Hh. apply norb_above, Hh. Qed.

Definition reach (s s' : view) : Prop := exists hs, Forall norb hs /\ s' = fst (run s hs).

Lemma reach_refl s : reach s s.
Proof. exists []. split; [constructor | reflexivity]. Qed.

Lemma reach_trans s1 s2 s3 : reach s1 s2 -> reach s2 s3 -> reach s1 s3.
Proof.
  intros [h1 [F1 E1]] [h2 [F2 E2]]. exists (h1 ++ h2). split.
  - apply Forall_app. split; assumption.
  - rewrite run_app. rewrite <- E1. exact E2.
Qed.

Lemma reach_insert s k v : reach s (fst (insert s k v)).
Proof.
  exists [HIns k v]. split; [repeat constructor|].
  cbn [run step]. destruct (insert s k v) as [s' e]. reflexivity.
Qed.

Lemma reach_remove s k : reach s (fst (remove s k)).
Proof.
  exists [HRem k]. split; [repeat constructor|].
  cbn [run step]. destruct (remove s k) as [s' e]. reflexivity.
Qed.

Lemma reach_view_ok s s' : reach s s' -> view_ok s -> view_ok s'.
Proof. intros [hs [_ ->]] Hok. apply run_view_ok, Hok. Qed.

Lemma reach_env s s' : reach s s' ->
  v_ts s' = v_ts s /\ v_base s' = v_base s /\ v_scope s' = v_scope s.
Proof. intros [hs [_ ->]]. apply run_env. Qed.

(* a checkpoint taken at [s] is restored by rolling back whatever was reached from it *)
Lemma reach_rollback s s' : reach s s' -> view_ok s ->
  let r := rollback s' (op_index s) in
  pending r = pending s /\ writes r = writes s /\ ops r = ops s /\ op_index r = op_index s
  /\ (forall k, vis r k = vis s k) /\ view_ok r.
Proof.
  intros [hs [F ->]] Hok. apply rollback_restores; [exact Hok | apply Forall_norb_above, F].
Qed.

(* keys that are not write-declared keep their visible value and stay out of the pending map *)
Lemma reach_confined s s' k : reach s s' -> view_ok s -> scope_has (v_scope s) k pWrite = false ->
  vis s' k = vis s k /\ pending s' !! k = None.
Proof. intros [hs [_ ->]] Hok Hw. apply write_confinement; assumption. Qed.

Lemma reach_sub_balance s k a : reach s (fst (sub_balance s k a)).
Proof.
  unfold sub_balance. destruct (get s k) as [v|e]; [|apply reach_refl].
  destruct (parse_u64 v) as [bal|]; [|apply reach_refl].
  destruct (bal <? a); [apply reach_refl|].
  destruct (bal - a =? 0).
  - pose proof (reach_remove s k) as H. destruct (remove s k) as [s' [e|]]; exact H.
  - pose proof (reach_insert s k (be64 (bal - a))) as H. destruct (insert s k (be64 (bal - a))) as [s' [e|]]; exact H.
Qed.

Lemma reach_add_balance s k a : reach s (fst (add_balance s k a)).
Proof.
  unfold add_balance.
  destruct (match get s k with
            | inl v => match parse_u64 v with Some b => inl b | None => inr AEOther end
            | inr ENotFound => inl 0
            | inr e => inr (aerr_of e)
            end) as [bal|e]; [|apply reach_refl].
  destruct (add_chk bal a) as [nbal|]; [|apply reach_refl].
  pose proof (reach_insert s k (be64 nbal)) as H. destruct (insert s k (be64 nbal)) as [s' [e|]]; exact H.
Qed.

Lemma reach_run_ops ops : forall s out, reach s (fst (run_ops s ops out)).
Proof.
  induction ops as [|o ops IH]; intros s out; cbn [run_ops]; [apply reach_refl|].
  destruct o as [k|k v|k| |from to value memo_ok].
  - destruct (get s k) as [v|[| |]]; try apply reach_refl; apply IH.
  - pose proof (reach_insert s k v) as H. destruct (insert s k v) as [s' [e|]]; cbn [fst] in *.
    + exact H.
    + eapply reach_trans; [exact H | apply IH].
  - pose proof (reach_remove s k) as H. destruct (remove s k) as [s' [e|]]; cbn [fst] in *.
    + exact H.
    + eapply reach_trans; [exact H | apply IH].
  - apply reach_refl.
  - destruct (value =? 0); [apply reach_refl|].
    destruct (negb memo_ok); [apply reach_refl|].
    pose proof (reach_sub_balance s from value) as H1.
    destruct (sub_balance s from value) as [s1 [sb|e]]; cbn [fst] in *; [|exact H1].
    pose proof (reach_add_balance s1 to value) as H2.
    destruct (add_balance s1 to value) as [s2 [rb|e]]; cbn [fst] in *.
    + eapply reach_trans; [exact H1|]. eapply reach_trans; [exact H2 | apply IH].
    + eapply reach_trans; [exact H1 | exact H2].
Qed.

(* run_actions: either every action ran (reach), or the view was rolled back to [start] from a
   reached view *)
Lemma run_actions_shape acts : forall s start outs s' ok ec outs',
  run_actions s start acts outs = (s', ok, ec, outs') ->
  (ok = true /\ reach s s') \/ (ok = false /\ exists s'', reach s s'' /\ s' = rollback s'' start).
Proof.
  induction acts as [|a acts IH]; intros s start outs s' ok ec outs' H; cbn [run_actions] in H.
  - inversion H; subst. left. split; [reflexivity | apply reach_refl].
  - pose proof (reach_run_ops (a_ops a) s []) as Hr.
    destruct (run_ops s (a_ops a) []) as [s1 [out|e]]; cbn [fst] in Hr.
    + destruct (IH _ _ _ _ _ _ _ H) as [[-> Hre] | [-> [s'' [Hre ->]]]].
      * left. split; [reflexivity | eapply reach_trans; eassumption].
      * right. split; [reflexivity|]. exists s''. split; [eapply reach_trans; eassumption | reflexivity].
    + inversion H; subst. right. split; [reflexivity|]. exists s1. split; [exact Hr | reflexivity].
Qed.

(* ------------------------------------------------------------------ 2. agree *)

Lemma agree_refl s : agree s s.
Proof. unfold agree. repeat split; reflexivity. Qed.

Lemma agree_insert' s1 s2 k v : agree s1 s2 ->
  forall s1' e1 s2' e2, insert s1 k v = (s1', e1) -> insert s2 k v = (s2', e2) -> e1 = e2 /\ agree s1' s2'.
Proof.
  intros Hag s1' e1 s2' e2 H1 H2. destruct (agree_insert s1 s2 k v Hag) as [He Ha].
  rewrite H1, H2 in He, Ha. cbn [fst snd] in *. auto.
Qed.

Lemma agree_remove' s1 s2 k : agree s1 s2 ->
  forall s1' e1 s2' e2, remove s1 k = (s1', e1) -> remove s2 k = (s2', e2) -> e1 = e2 /\ agree s1' s2'.
Proof.
  intros Hag s1' e1 s2' e2 H1 H2. destruct (agree_remove s1 s2 k Hag) as [He Ha].
  rewrite H1, H2 in He, Ha. cbn [fst snd] in *. auto.
Qed.

Lemma agree_sub_balance s1 s2 k a : agree s1 s2 ->
  snd (sub_balance s1 k a) = snd (sub_balance s2 k a) /\ agree (fst (sub_balance s1 k a)) (fst (sub_balance s2 k a)).
Proof.
  intros Hag. unfold sub_balance. rewrite <- (agree_get _ _ k Hag).
  destruct (get s1 k) as [v|e]; [|cbn; auto].
  destruct (parse_u64 v) as [bal|]; [|cbn; auto].
  destruct (bal <? a); [cbn; auto|].
  destruct (bal - a =? 0).
  - destruct (remove s1 k) as [s1' e1] eqn:R1, (remove s2 k) as [s2' e2] eqn:R2.
    destruct (agree_remove' _ _ _ Hag _ _ _ _ R1 R2) as [-> Ha]. destruct e2; cbn; auto.
  - destruct (insert s1 k (be64 (bal - a))) as [s1' e1] eqn:R1, (insert s2 k (be64 (bal - a))) as [s2' e2] eqn:R2.
    destruct (agree_insert' _ _ _ _ Hag _ _ _ _ R1 R2) as [-> Ha]. destruct e2; cbn; auto.
Qed.

Lemma agree_add_balance s1 s2 k a : agree s1 s2 ->
  snd (add_balance s1 k a) = snd (add_balance s2 k a) /\ agree (fst (add_balance s1 k a)) (fst (add_balance s2 k a)).
Proof.
  intros Hag. unfold add_balance. rewrite <- (agree_get _ _ k Hag).
  destruct (match get s1 k with
            | inl v => match parse_u64 v with Some b => inl b | None => inr AEOther end
            | inr ENotFound => inl 0
            | inr e => inr (aerr_of e)
            end) as [bal|e]; [|cbn; auto].
  destruct (add_chk bal a) as [nbal|]; [|cbn; auto].
  destruct (insert s1 k (be64 nbal)) as [s1' e1] eqn:R1, (insert s2 k (be64 nbal)) as [s2' e2] eqn:R2.
  destruct (agree_insert' _ _ _ _ Hag _ _ _ _ R1 R2) as [-> Ha]. destruct e2; cbn; auto.
Qed.

Lemma agree_run_ops ops : forall s1 s2 out, agree s1 s2 ->
  snd (run_ops s1 ops out) = snd (run_ops s2 ops out) /\ agree (fst (run_ops s1 ops out)) (fst (run_ops s2 ops out)).
Proof.
  induction ops as [|o ops IH]; intros s1 s2 out Hag; cbn [run_ops]; [cbn; auto|].
  destruct o as [k|k v|k| |from to value memo_ok].
  - rewrite <- (agree_get _ _ k Hag). destruct (get s1 k) as [v|[| |]]; try (cbn; auto); apply IH, Hag.
  - destruct (insert s1 k v) as [s1' e1] eqn:R1, (insert s2 k v) as [s2' e2] eqn:R2.
    destruct (agree_insert' _ _ _ _ Hag _ _ _ _ R1 R2) as [-> Ha]. destruct e2; [cbn; auto | apply IH, Ha].
  - destruct (remove s1 k) as [s1' e1] eqn:R1, (remove s2 k) as [s2' e2] eqn:R2.
    destruct (agree_remove' _ _ _ Hag _ _ _ _ R1 R2) as [-> Ha]. destruct e2; [cbn; auto | apply IH, Ha].
  - cbn; auto.
  - destruct (value =? 0); [cbn; auto|]. destruct (negb memo_ok); [cbn; auto|].
    destruct (agree_sub_balance s1 s2 from value Hag) as [E1 A1].
    destruct (sub_balance s1 from value) as [t1 r1], (sub_balance s2 from value) as [t2 r2]. cbn [fst snd] in E1, A1. subst r2.
    destruct r1 as [sb|e]; [|cbn; auto].
    destruct (agree_add_balance t1 t2 to value A1) as [E2 A2].
    destruct (add_balance t1 to value) as [u1 q1], (add_balance t2 to value) as [u2 q2]. cbn [fst snd] in E2, A2. subst q2.
    destruct q1 as [rb|e]; [apply IH, A2 | cbn; auto].
Qed.

Lemma agree_op_index s1 s2 : agree s1 s2 -> op_index s1 = op_index s2.
Proof. intros (_ & _ & Ho & _). unfold op_index. rewrite Ho. reflexivity. Qed.

Lemma agree_run_actions acts : forall s1 s2 start outs, agree s1 s2 ->
  let '(s1', ok1, ec1, o1) := run_actions s1 start acts outs in
  let '(s2', ok2, ec2, o2) := run_actions s2 start acts outs in
  ok1 = ok2 /\ ec1 = ec2 /\ o1 = o2 /\ agree s1' s2'.
Proof.
  induction acts as [|a acts IH]; intros s1 s2 start outs Hag; cbn [run_actions]; [auto|].
  destruct (agree_run_ops (a_ops a) s1 s2 [] Hag) as [E A].
  destruct (run_ops s1 (a_ops a) []) as [t1 r1], (run_ops s2 (a_ops a) []) as [t2 r2]. cbn [fst snd] in E, A. subst r2.
  destruct r1 as [out|e].
  - apply IH, A.
  - split; [reflexivity|]. split; [reflexivity|]. split; [reflexivity|]. apply agree_rollback, A.
Qed.

Lemma agree_get_balance s1 s2 k : agree s1 s2 -> get_balance s1 k = get_balance s2 k.
Proof. intros Hag. unfold get_balance. rewrite (agree_get _ _ k Hag). reflexivity. Qed.

Lemma agree_pre_execute r fm t u s1 s2 ts : agree s1 s2 -> pre_execute r fm t u s1 ts = pre_execute r fm t u s2 ts.
Proof. intros Hag. unfold pre_execute. rewrite (agree_get_balance _ _ _ Hag). reflexivity. Qed.

(* execute_tx on agreeing views: same verdict and result, and the final views agree *)
Lemma agree_execute_tx t u f s1 s2 : agree s1 s2 ->
  match execute_tx t u f s1, execute_tx t u f s2 with
  | Some (s1', r1), Some (s2', r2) => r1 = r2 /\ agree s1' s2'
  | None, None => True
  | _, _ => False
  end.
Proof.
  intros Hag. unfold execute_tx.
  assert (Hd : match (if t_morpheus t then
                  match sub_balance s1 (t_sponsor_key t) f with (x, inl _) => Some x | (_, inr _) => None end
                else match get s1 (t_sponsor_key t) with
                     | inl v => match parse_u64 v with
                                | None => None
                                | Some b => if b <? f then None else
                                    match insert s1 (t_sponsor_key t) (be64 (b - f)) with (x, None) => Some x | (_, Some _) => None end
                                end
                     | inr _ => None
                     end),
               (if t_morpheus t then
                  match sub_balance s2 (t_sponsor_key t) f with (x, inl _) => Some x | (_, inr _) => None end
                else match get s2 (t_sponsor_key t) with
                     | inl v => match parse_u64 v with
                                | None => None
                                | Some b => if b <? f then None else
                                    match insert s2 (t_sponsor_key t) (be64 (b - f)) with (x, None) => Some x | (_, Some _) => None end
                                end
                     | inr _ => None
                     end) with
               | Some a, Some b => agree a b
               | None, None => True
               | _, _ => False
               end).
  { destruct (t_morpheus t).
    - destruct (agree_sub_balance s1 s2 (t_sponsor_key t) f Hag) as [E A].
      destruct (sub_balance s1 (t_sponsor_key t) f) as [a ra], (sub_balance s2 (t_sponsor_key t) f) as [b rb].
      cbn [fst snd] in E, A. subst rb. destruct ra; [exact A | exact I].
    - rewrite <- (agree_get _ _ (t_sponsor_key t) Hag). destruct (get s1 (t_sponsor_key t)) as [v|e]; [|exact I].
      destruct (parse_u64 v) as [b|]; [|exact I]. destruct (b <? f); [exact I|].
      destruct (insert s1 (t_sponsor_key t) (be64 (b - f))) as [a e1] eqn:R1,
               (insert s2 (t_sponsor_key t) (be64 (b - f))) as [c e2] eqn:R2.
      destruct (agree_insert' _ _ _ _ Hag _ _ _ _ R1 R2) as [-> Ha]. destruct e2; [exact I | exact Ha]. }
  destruct (if t_morpheus t then _ else _) as [a|]; destruct (if t_morpheus t then _ else _) as [b|]; try tauto.
  pose proof (agree_run_actions (t_actions t) a b (op_index a) [] Hd) as H.
  rewrite <- (agree_op_index _ _ Hd).
  destruct (run_actions a (op_index a) (t_actions t) []) as [[[a' ok1] ec1] o1].
  destruct (run_actions b (op_index a) (t_actions t) []) as [[[b' ok2] ec2] o2].
  destruct H as (-> & -> & -> & Ha). auto.
Qed.
