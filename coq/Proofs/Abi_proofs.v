(* Abi_proofs.v — proofs for C29.
   Part A: linear codec round trip (dec after enc).
   Part B: the reflected type (canon t) and the native type t produce the same bytes.
   Part C: NewABI's description of t, read back by getReflectType, is canon t. *)
From Coq Require Import List NArith ZArith Bool String Ascii Lia.
From Coq Require Import DecimalString DecimalN DecimalPos.
From Coq Require Import ZifyN ZifyNat ZifyBool.
Import ListNotations.
From HV Require Import Lib.Bytes Model.Abi.
Local Open Scope N_scope.

(* ================================================================== Part A *)

Lemma take_app (a r : bytes) : take (List.length a) (a ++ r) = Some (a, r).
Proof.
  induction a as [|x a IH]; cbn [List.length take app]; [reflexivity|].
  now rewrite IH.
Qed.

Lemma be_length k n : List.length (be k n) = k.
Proof.
  revert n; induction k as [|k IH]; intros n; cbn [be]; [reflexivity|].
  rewrite app_length, IH. cbn. lia.
Qed.

Lemma unbe_snoc a b : unbe (a ++ [b]) = unbe a * 256 + b.
Proof. unfold unbe. rewrite fold_left_app. reflexivity. Qed.

Lemma unbe_be k n : n < 256 ^ N.of_nat k -> unbe (be k n) = n.
Proof.
  revert n; induction k as [|k IH]; intros n Hn.
  - cbn in *. change (unbe []) with 0. lia.
  - cbn [be]. rewrite unbe_snoc, IH.
    + pose proof (N.div_mod n 256 ltac:(lia)). lia.
    + rewrite Nat2N.inj_succ, N.pow_succ_r' in Hn.
      apply N.div_lt_upper_bound; lia.
Qed.

Lemma pow256_vals :
  pow256 1 = 256%Z /\ pow256 2 = 65536%Z /\ pow256 4 = 4294967296%Z /\ pow256 8 = 18446744073709551616%Z.
Proof. vm_compute. auto. Qed.

Lemma npow_vals :
  256 ^ N.of_nat 1 = 256 /\ 256 ^ N.of_nat 2 = 65536 /\ 256 ^ N.of_nat 4 = 4294967296
  /\ 256 ^ N.of_nat 8 = 18446744073709551616.
Proof. vm_compute. auto. Qed.

Lemma zmod_neg z M : (- M <= z < 0)%Z -> (z mod M = z + M)%Z.
Proof.
  intros H. symmetry. apply Z.mod_unique with (q := (-1)%Z); lia.
Qed.

(* integers: k bytes, modulus M = 256^k *)
Lemma int_roundtrip (k : nat) (M : Z) (sg : bool) (z : Z) (rest : bytes) :
  pow256 k = M -> Z.of_N (256 ^ N.of_nat k) = M -> (2 <= M)%Z -> (M mod 2 = 0)%Z ->
  (if sg then (Z.leb (- (M / 2)) z && Z.ltb z (M / 2))%Z else (Z.leb 0 z && Z.ltb z M)%Z) = true ->
  match take k (be k (Z.to_N (z mod M)) ++ rest) with
  | Some (h, r) =>
      let u := Z.of_N (unbe h) in
      Some (VNum (if sg && Z.leb M (2 * u) then (u - M)%Z else u), r)
  | None => None
  end = Some (VNum z, rest).
Proof.
  intros HM HN H2 Hev Hr.
  pose proof (take_app (be k (Z.to_N (z mod M))) rest) as Ht.
  rewrite be_length in Ht. rewrite Ht. cbn zeta.
  assert (Hlt : (0 <= z mod M < M)%Z) by (apply Z.mod_pos_bound; lia).
  rewrite unbe_be by (remember (256 ^ N.of_nat k) as W; lia).
  rewrite Z2N.id by lia.
  pose proof (Z.div_mod M 2 ltac:(lia)) as Hd.
  destruct sg; cbn [andb]; cbn [andb] in Hr.
  - apply andb_true_iff in Hr as [Hr1 Hr2]. apply Z.leb_le in Hr1. apply Z.ltb_lt in Hr2.
    destruct (Z.leb_spec 0 z) as [Hz|Hz].
    + rewrite Z.mod_small by lia.
      destruct (Z.leb_spec M (2 * z)); [lia | reflexivity].
    + rewrite zmod_neg by lia.
      destruct (Z.leb_spec M (2 * (z + M))); [|lia].
      replace (z + M - M)%Z with z by lia. reflexivity.
  - apply andb_true_iff in Hr as [Hr1 Hr2]. apply Z.leb_le in Hr1. apply Z.ltb_lt in Hr2.
    rewrite Z.mod_small by lia. reflexivity.
Qed.

Lemma dec_enc_prim p v bs rest :
  wt_prim p v = true -> enc_prim p v = Some bs -> dec_prim p (bs ++ rest) = Some (v, rest).
Proof.
  destruct pow256_vals as (P1 & P2 & P4 & P8).
  destruct npow_vals as (N1 & N2 & N4 & N8).
  intros Hw He.
  destruct p; destruct v as [z|b|s|l]; try discriminate Hw; cbn [enc_prim] in He;
    try (injection He as <-; unfold dec_prim; cbn [prim_bytes prim_signed wt_prim] in *).
  - apply (int_roundtrip 1 256 false z rest P1); [rewrite N1| |reflexivity|rewrite <- P1]; try reflexivity; try lia; exact Hw.
  - apply (int_roundtrip 2 65536 false z rest P2); [rewrite N2| |reflexivity|rewrite <- P2]; try reflexivity; try lia; exact Hw.
  - apply (int_roundtrip 4 4294967296 false z rest P4); [rewrite N4| |reflexivity|rewrite <- P4]; try reflexivity; try lia; exact Hw.
  - apply (int_roundtrip 8 18446744073709551616 false z rest P8); [rewrite N8| |reflexivity|rewrite <- P8]; try reflexivity; try lia; exact Hw.
  - apply (int_roundtrip 1 256 true z rest P1); [rewrite N1| |reflexivity|rewrite <- P1]; try reflexivity; try lia; exact Hw.
  - apply (int_roundtrip 2 65536 true z rest P2); [rewrite N2| |reflexivity|rewrite <- P2]; try reflexivity; try lia; exact Hw.
  - apply (int_roundtrip 4 4294967296 true z rest P4); [rewrite N4| |reflexivity|rewrite <- P4]; try reflexivity; try lia; exact Hw.
  - apply (int_roundtrip 8 18446744073709551616 true z rest P8); [rewrite N8| |reflexivity|rewrite <- P8]; try reflexivity; try lia; exact Hw.
  - destruct b; reflexivity.
  - cbn [wt_prim] in Hw. apply andb_true_iff in Hw as [Hl _].
    rewrite Hl in He. injection He as <-. unfold dec_prim.
    cbn [app take].
    assert (Hu : unbe [(len s / 256) mod 256; len s mod 256] = len s).
    { unfold unbe. cbn [fold_left]. apply N.leb_le in Hl.
      rewrite (N.mod_small (len s / 256)) by (apply N.div_lt_upper_bound; lia).
      pose proof (N.div_mod (len s) 256 ltac:(lia)). lia. }
    rewrite Hu. unfold len. rewrite Nat2N.id, take_app. reflexivity.
Qed.

Local Arguments be : simpl never.
Local Arguments take : simpl never.
Local Arguments unbe : simpl never.

(* sequences *)
Lemma enc_seq_length_le f l bs :
  enc_seq true f l = Some bs -> (List.length l <= List.length bs)%nat.
Proof.
  revert bs; induction l as [|v l IH]; intros bs H; cbn [enc_seq] in H.
  - injection H as <-. cbn. lia.
  - destruct (f v) as [b|]; [|discriminate]. destruct (enc_seq true f l) as [bs'|]; [|discriminate].
    cbn [andb] in H. destruct b as [|x b]; [discriminate|]. injection H as <-.
    specialize (IH _ eq_refl). cbn [List.length app]. rewrite app_length. lia.
Qed.

Lemma dec_enc_seq strict (f : value -> option bytes) (g : bytes -> option (value * bytes)) l :
  Forall (fun v => forall b rest, f v = Some b -> g (b ++ rest) = Some (v, rest)) l ->
  forall bs rest, enc_seq strict f l = Some bs ->
  dec_seq strict g (List.length l) (bs ++ rest) = Some (l, rest).
Proof.
  induction 1 as [|v l Hv _ IH]; intros bs rest He; cbn [enc_seq] in He.
  - injection He as <-. reflexivity.
  - destruct (f v) as [b|] eqn:Hf; [|discriminate]. destruct (enc_seq strict f l) as [bs'|] eqn:Hs; [|discriminate].
    cbn [List.length dec_seq].
    destruct (strict && match b with [] => true | _ => false end) eqn:Hz; [discriminate|].
    injection He as <-. rewrite <- app_assoc, (Hv _ _ eq_refl).
    replace (strict && (List.length (bs' ++ rest) =? List.length (b ++ bs' ++ rest))%nat) with false.
    + now rewrite (IH _ _ eq_refl).
    + symmetry. destruct strict; [|reflexivity]. cbn [andb] in *. destruct b as [|x b]; [discriminate|].
      apply Nat.eqb_neq. cbn [List.length app]. rewrite !app_length. lia.
Qed.

Lemma forallb_Forall {A} (p : A -> bool) l : forallb p l = true -> Forall (fun x => p x = true) l.
Proof. rewrite forallb_forall. apply Forall_forall. Qed.

(* the round trip, by mutual induction on types / field lists *)
Definition dec_enc_P (t : ty) : Prop :=
  forall v bs rest, wt t v = true -> enc t v = Some bs -> dec t (bs ++ rest) = Some (v, rest).
Definition dec_enc_P0 (fs : fields) : Prop :=
  forall vs bs rest, wt_fields fs vs = true -> enc_fields fs vs = Some bs -> dec_fields fs (bs ++ rest) = Some (vs, rest).

Lemma dec_enc_mut : (forall t, dec_enc_P t) /\ (forall fs, dec_enc_P0 fs).
Proof.
  apply ty_fields_ind; unfold dec_enc_P, dec_enc_P0.
  - (* TPrim *) intros p v bs rest Hw He. cbn [wt enc dec] in *. now apply dec_enc_prim.
  - (* TAddress *) intros v bs rest Hw He. cbn [wt enc dec] in *.
    destruct v as [| | |l]; try discriminate. apply andb_true_iff in Hw as [Hl Hall].
    rewrite Hl in He.
    assert (H33 : List.length l = 33%nat) by (apply N.eqb_eq in Hl; unfold len in Hl; lia).
    rewrite <- H33.
    rewrite (dec_enc_seq false (enc_prim U8) (dec_prim U8) l) with (bs := bs); [reflexivity| |exact He].
    apply forallb_Forall in Hall. eapply Forall_impl; [|exact Hall].
    intros a Ha b r Hb. cbn beta in Ha. now apply dec_enc_prim.
  - (* TNamed *) intros nm p v bs rest Hw He. cbn [wt enc dec] in *. now apply dec_enc_prim.
  - (* TSlice *) intros t IH v bs rest Hw He. cbn [wt enc dec] in *.
    destruct v as [| | |l]; try discriminate. apply andb_true_iff in Hw as [Hl Hall].
    apply N.leb_le in Hl.
    destruct (max_int32 <? len l) eqn:Hmx; [apply N.ltb_lt in Hmx; lia|].
    destruct (enc_seq true (enc t) l) as [be_|] eqn:Hs; [|discriminate].
    assert (Hbs : be 4 (len l) ++ be_ = bs) by congruence. subst bs. clear He.
    rewrite <- app_assoc.
    pose proof (take_app (be 4 (len l)) (be_ ++ rest)) as Ht. rewrite be_length in Ht. rewrite Ht.
    cbn zeta.
    destruct npow_vals as (_ & _ & N4 & _).
    rewrite unbe_be by (rewrite N4; unfold max_int32 in Hl; lia).
    rewrite Hmx.
    pose proof (enc_seq_length_le _ _ _ Hs) as Hle.
    destruct (len (be_ ++ rest) <? len l) eqn:Hlt.
    { apply N.ltb_lt in Hlt. unfold len in Hlt. rewrite app_length in Hlt. lia. }
    unfold len at 1. rewrite Nat2N.id.
    rewrite (dec_enc_seq true (enc t) (dec t) l) with (bs := be_); [reflexivity| |exact Hs].
    apply forallb_Forall in Hall. eapply Forall_impl; [|exact Hall].
    intros a Ha b r Hb. cbn beta in Ha. now apply IH.
  - (* TArray *) intros n t IH v bs rest Hw He. cbn [wt enc dec] in *.
    destruct v as [| | |l]; try discriminate. apply andb_true_iff in Hw as [Hl Hall].
    rewrite Hl in He. apply N.eqb_eq in Hl. subst n. unfold len. rewrite Nat2N.id.
    rewrite (dec_enc_seq false (enc t) (dec t) l) with (bs := bs); [reflexivity| |exact He].
    apply forallb_Forall in Hall. eapply Forall_impl; [|exact Hall].
    intros a Ha b r Hb. cbn beta in Ha. now apply IH.
  - (* TStruct *) intros nm fs IH v bs rest Hw He. cbn [wt enc dec] in *.
    destruct v as [| | |l]; try discriminate. now rewrite (IH _ _ _ Hw He).
  - (* FNil *) intros vs bs rest Hw He. cbn [wt_fields enc_fields dec_fields] in *.
    destruct vs; [|discriminate]. injection He as <-. reflexivity.
  - (* FCons *) intros i t IHt rest_f IHf vs bs rest Hw He. cbn [wt_fields enc_fields dec_fields] in *.
    destruct (f_ser i).
    + destruct vs as [|v vs]; [discriminate|]. apply andb_true_iff in Hw as [Hwv Hwr].
      destruct (enc t v) as [a|] eqn:Ha; [|discriminate].
      destruct (enc_fields rest_f vs) as [b|] eqn:Hb; [|discriminate]. injection He as <-.
      rewrite <- app_assoc, (IHt _ _ _ Hwv Ha), (IHf _ _ _ Hwr Hb). reflexivity.
    + now apply IHf.
Qed.

Lemma dec_enc t v bs rest :
  wt t v = true -> enc t v = Some bs -> dec t (bs ++ rest) = Some (v, rest).
Proof. apply (proj1 dec_enc_mut). Qed.

(* a well-typed value is rejected by the codec only for a slice of zero-length elements *)

(* ================================================================== Part B *)

Fixpoint nser (fs : fields) : nat :=
  match fs with FNil => O | FCons i _ r => ((if f_ser i then 1 else 0) + nser r)%nat end.

Lemma nser_fapp a b : nser (fapp a b) = (nser a + nser b)%nat.
Proof. induction a as [|i t r IH]; cbn [fapp nser]; [reflexivity | rewrite IH; lia]. Qed.

Lemma wt_fields_len fs : forall vs, wt_fields fs vs = true -> List.length vs = nser fs.
Proof.
  induction fs as [|i t r IH]; intros vs H; cbn [wt_fields nser] in *.
  - destruct vs; [reflexivity | discriminate].
  - destruct (f_ser i).
    + destruct vs as [|v vs]; [discriminate|]. apply andb_true_iff in H as [_ H].
      cbn [List.length]. rewrite (IH _ H). reflexivity.
    + now apply IH.
Qed.

Lemma enc_fields_app f1 f2 : forall l1 l2, List.length l1 = nser f1 ->
  enc_fields (fapp f1 f2) (l1 ++ l2) =
  match enc_fields f1 l1, enc_fields f2 l2 with Some a, Some b => Some (a ++ b) | _, _ => None end.
Proof.
  induction f1 as [|i t r IH]; intros l1 l2 Hl; cbn [fapp enc_fields nser] in *.
  - destruct l1; [|discriminate]. cbn [app]. destruct (enc_fields f2 l2); reflexivity.
  - destruct (f_ser i).
    + destruct l1 as [|v l1]; [discriminate|]. cbn [app]. cbn [List.length] in Hl.
      rewrite IH by lia.
      destruct (enc t v) as [a|]; [|reflexivity].
      destruct (enc_fields r l1) as [b|]; [|reflexivity].
      destruct (enc_fields f2 l2) as [c|]; [|reflexivity].
      now rewrite app_assoc.
    + apply IH. lia.
Qed.

Definition cvl_Q0 (fs : fields) : Prop :=
  forall vs, wt_fields fs vs = true -> List.length (canon_vals fs vs) = nser (canon_fields fs).
Definition cvl_Q (t : ty) : Prop := match t with TStruct _ fs => cvl_Q0 fs | _ => True end.

Lemma canon_vals_len_mut : (forall t, cvl_Q t) /\ (forall fs, cvl_Q0 fs).
Proof.
  apply ty_fields_ind; unfold cvl_Q, cvl_Q0; try (intros; exact I).
  - intros nm fs IH. exact IH.
  - intros vs H. reflexivity.
  - intros i t IHt r IHr vs H. cbn [wt_fields canon_vals canon_fields] in *.
    destruct (f_ser i); [|now apply IHr].
    destruct vs as [|v vs]; [discriminate|]. apply andb_true_iff in H as [Hv Hr].
    assert (Hdef : List.length (canon_val t v :: canon_vals r vs)
                   = nser (FCons (rfield (jname i)) (canon t) (canon_fields r))).
    { cbn [List.length nser rfield f_ser]. rewrite (IHr _ Hr). reflexivity. }
    destruct t as [p| |nm p|t'|n t'|nm fs']; try exact Hdef.
    destruct (f_emb i); [|exact Hdef].
    cbn [wt] in Hv. destruct v as [| | |l]; try discriminate.
    rewrite app_length, nser_fapp, (IHt _ Hv), (IHr _ Hr). reflexivity.
Qed.

Lemma enc_seq_map strict (f g : value -> option bytes) (h : value -> value) l :
  Forall (fun v => f (h v) = g v) l -> enc_seq strict f (map h l) = enc_seq strict g l.
Proof.
  induction 1 as [|v l Hv _ IH]; cbn [map enc_seq]; [reflexivity|]. now rewrite Hv, IH.
Qed.

Definition bytes_P (t : ty) : Prop := forall v, wt t v = true -> enc (canon t) (canon_val t v) = enc t v.
Definition bytes_P0 (fs : fields) : Prop :=
  forall vs, wt_fields fs vs = true -> enc_fields (canon_fields fs) (canon_vals fs vs) = enc_fields fs vs.

Lemma canon_bytes_mut : (forall t, bytes_P t) /\ (forall fs, bytes_P0 fs).
Proof.
  apply ty_fields_ind; unfold bytes_P, bytes_P0; try (intros; reflexivity).
  - (* TSlice *) intros t IH v Hw. cbn [wt canon canon_val enc] in *.
    destruct v as [| | |l]; try discriminate. apply andb_true_iff in Hw as [_ Hall].
    unfold len. rewrite map_length.
    rewrite (enc_seq_map true (enc (canon t)) (enc t) (canon_val t) l); [reflexivity|].
    apply forallb_Forall in Hall. eapply Forall_impl; [|exact Hall]. intros a Ha. now apply IH.
  - (* TArray *) intros n t IH v Hw. cbn [wt canon canon_val enc] in *.
    destruct v as [| | |l]; try discriminate. apply andb_true_iff in Hw as [_ Hall].
    unfold len. rewrite map_length.
    rewrite (enc_seq_map false (enc (canon t)) (enc t) (canon_val t) l); [reflexivity|].
    apply forallb_Forall in Hall. eapply Forall_impl; [|exact Hall]. intros a Ha. now apply IH.
  - (* TStruct *) intros nm fs IH v Hw. cbn [wt canon canon_val enc] in *.
    destruct v as [| | |l]; try discriminate. now apply IH.
  - (* FNil *) intros vs Hw. cbn [wt_fields] in Hw. destruct vs; [reflexivity | discriminate].
  - (* FCons *) intros i t IHt r IHr vs Hw. cbn [wt_fields canon_fields canon_vals enc_fields] in *.
    destruct (f_ser i); [|now apply IHr].
    destruct vs as [|v vs]; [discriminate|]. apply andb_true_iff in Hw as [Hv Hr].
    assert (Hdef : enc_fields (FCons (rfield (jname i)) (canon t) (canon_fields r)) (canon_val t v :: canon_vals r vs)
                   = match enc t v, enc_fields r vs with Some a, Some b => Some (a ++ b) | _, _ => None end).
    { cbn [enc_fields rfield f_ser]. now rewrite (IHt _ Hv), (IHr _ Hr). }
    destruct t as [p| |nm p|t'|n t'|nm fs']; try exact Hdef.
    destruct (f_emb i); [|exact Hdef].
    cbn [wt] in Hv. destruct v as [| | |l]; try discriminate.
    rewrite enc_fields_app by (apply (proj1 canon_vals_len_mut (TStruct nm fs')); exact Hv).
    specialize (IHt (VList l) Hv). cbn [canon canon_val enc] in IHt.
    rewrite IHt, (IHr _ Hr). reflexivity.
Qed.

Lemma canon_bytes t v : wt t v = true -> enc (canon t) (canon_val t v) = enc t v.
Proof. apply (proj1 canon_bytes_mut). Qed.

(* the flattened value is a value of the reflected type *)
Lemma wt_fields_app f1 f2 : forall l1 l2, wt_fields f1 l1 = true -> wt_fields f2 l2 = true ->
  wt_fields (fapp f1 f2) (l1 ++ l2) = true.
Proof.
  induction f1 as [|i t r IH]; intros l1 l2 H1 H2; cbn [fapp wt_fields] in *.
  - destruct l1; [exact H2 | discriminate].
  - destruct (f_ser i).
    + destruct l1 as [|v l1]; [discriminate|]. apply andb_true_iff in H1 as [Hv Hr]. cbn [app].
      rewrite Hv. cbn [andb]. now apply IH.
    + now apply IH.
Qed.

Definition cwt_P (t : ty) : Prop := forall v, wt t v = true -> wt (canon t) (canon_val t v) = true.
Definition cwt_P0 (fs : fields) : Prop :=
  forall vs, wt_fields fs vs = true -> wt_fields (canon_fields fs) (canon_vals fs vs) = true.

Lemma canon_wt_mut : (forall t, cwt_P t) /\ (forall fs, cwt_P0 fs).
Proof.
  apply ty_fields_ind; unfold cwt_P, cwt_P0; try (intros; assumption).
  - intros t IH v Hw. cbn [wt canon canon_val] in *.
    destruct v as [| | |l]; try discriminate. apply andb_true_iff in Hw as [Hl Hall].
    unfold len in *. rewrite map_length, Hl. cbn [andb].
    rewrite forallb_forall in *. intros x Hx. apply in_map_iff in Hx as (y & <- & Hy). apply IH. now apply Hall.
  - intros n t IH v Hw. cbn [wt canon canon_val] in *.
    destruct v as [| | |l]; try discriminate. apply andb_true_iff in Hw as [Hl Hall].
    unfold len in *. rewrite map_length, Hl. cbn [andb].
    rewrite forallb_forall in *. intros x Hx. apply in_map_iff in Hx as (y & <- & Hy). apply IH. now apply Hall.
  - intros nm fs IH v Hw. cbn [wt canon canon_val] in *.
    destruct v as [| | |l]; try discriminate. now apply IH.
  - intros vs _. reflexivity.
  - intros i t IHt r IHr vs Hw. cbn [wt_fields canon_fields canon_vals] in *.
    destruct (f_ser i); [|now apply IHr].
    destruct vs as [|v vs]; [discriminate|]. apply andb_true_iff in Hw as [Hv Hr].
    assert (Hdef : wt_fields (FCons (rfield (jname i)) (canon t) (canon_fields r)) (canon_val t v :: canon_vals r vs) = true).
    { cbn [wt_fields rfield f_ser]. now rewrite (IHt _ Hv), (IHr _ Hr). }
    destruct t as [p| |nm p|t'|n t'|nm fs']; try exact Hdef.
    destruct (f_emb i); [|exact Hdef].
    cbn [wt] in Hv. destruct v as [| | |l]; try discriminate.
    specialize (IHt (VList l) Hv). cbn [canon canon_val wt] in IHt.
    apply wt_fields_app; [exact IHt | now apply IHr].
Qed.

Lemma canon_wt t v : wt t v = true -> wt (canon t) (canon_val t v) = true.
Proof. apply (proj1 canon_wt_mut). Qed.

(* ================================================================== Part C *)
Local Open Scope string_scope.

(* induction principle that also hands out the hypothesis for the field list of an (embedded) struct field *)
Lemma ty_fields_ind_emb (P : ty -> Prop) (P0 : fields -> Prop) :
  (forall p, P (TPrim p)) -> P TAddress -> (forall nm p, P (TNamed nm p)) ->
  (forall t, P t -> P (TSlice t)) -> (forall n t, P t -> P (TArray n t)) ->
  (forall nm fs, P0 fs -> P (TStruct nm fs)) ->
  P0 FNil ->
  (forall i t r, P t -> (forall nm fs', t = TStruct nm fs' -> P0 fs') -> P0 r -> P0 (FCons i t r)) ->
  (forall t, P t) /\ (forall fs, P0 fs).
Proof.
  intros Hp Ha Hn Hs Har Hst Hnil Hcons.
  assert (H : (forall t, P t /\ (forall nm fs', t = TStruct nm fs' -> P0 fs')) /\ (forall fs, P0 fs)).
  { apply ty_fields_ind.
    - intros p. split; [apply Hp | intros nm fs' E; discriminate E].
    - split; [apply Ha | intros nm fs' E; discriminate E].
    - intros nm p. split; [apply Hn | intros nm' fs' E; discriminate E].
    - intros t [IH _]. split; [now apply Hs | intros nm fs' E; discriminate E].
    - intros n t [IH _]. split; [now apply Har | intros nm fs' E; discriminate E].
    - intros nm fs IH. split; [now apply Hst | intros nm' fs' E; injection E as _ <-; exact IH].
    - exact Hnil.
    - intros i t [IHt IHe] r IHr. now apply Hcons. }
  split; [intros t; apply (proj1 H) | apply (proj2 H)].
Qed.

(* ---- the supported universe and admissible struct names *)
Definition builtin_names : list string :=
  ["string"; "uint8"; "uint16"; "uint32"; "uint64"; "int8"; "int16"; "int32"; "int64"; "Address"].

Definition good_name (nm : string) : bool :=
  negb (mem_str nm builtin_names) &&
  match nm with String c _ => negb (Ascii.eqb "[" c) | EmptyString => false end.

Fixpoint sup (t : ty) : bool :=
  match t with
  | TPrim p => negb (prim_eqb p PBool)
  | TAddress => true
  | TNamed _ _ => false
  | TSlice t' => sup t'
  | TArray _ t' => sup t'
  | TStruct nm fs => good_name nm && sup_fields fs
  end
with sup_fields (fs : fields) : bool :=
  match fs with
  | FNil => true
  | FCons i t r => (if f_ser i then sup t else true) && sup_fields r
  end.

(* struct types NewABI has to describe for t: reachable through serialized fields, embedded structs flattened *)
Fixpoint reach (t : ty) : list ty :=
  match t with
  | TSlice t' => reach t'
  | TArray _ t' => reach t'
  | TStruct nm fs => TStruct nm fs :: reach_fields fs
  | _ => []
  end
with reach_fields (fs : fields) : list ty :=
  match fs with
  | FNil => []
  | FCons i t r =>
      if f_ser i then
        (match t with
         | TStruct _ fs' => if f_emb i then reach_fields fs' else reach t
         | _ => reach t
         end) ++ reach_fields r
      else reach_fields r
  end.

Definition is_struct (t : ty) : Prop := exists nm fs, t = TStruct nm fs.

(* struct names identify struct types *)
Definition consistent (T : ty) : Prop :=
  forall n f1 f2, In (TStruct n f1) (reach T) -> In (TStruct n f2) (reach T) -> f1 = f2.

(* ---- strings *)
Fixpoint no_rb (s : string) : bool :=
  match s with EmptyString => true | String c s' => negb (Ascii.eqb c "]") && no_rb s' end.

Lemma no_rb_uint d : no_rb (NilEmpty.string_of_uint d) = true.
Proof. induction d; cbn; auto. Qed.

Lemma split_rb_app ds s : no_rb ds = true -> split_rb (ds ++ String "]" s) = Some (ds, s).
Proof.
  induction ds as [|c ds IH]; intros H; cbn [append split_rb].
  - reflexivity.
  - cbn [no_rb] in H. apply andb_true_iff in H as [Hc Hr]. apply negb_true_iff in Hc. rewrite Hc, (IH Hr). reflexivity.
Qed.

Lemma dec_string_nonempty n : dec_string n <> "".
Proof.
  unfold dec_string. intros H.
  assert (Hn : N.to_uint n <> Decimal.Nil).
  { destruct n as [|p]; cbn; [discriminate | apply Unsigned.to_uint_nonnil]. }
  destruct (N.to_uint n); try (cbn in H; discriminate H). now apply Hn.
Qed.

Lemma parse_array_ok n s : s <> "" -> parse_array ("[" ++ dec_string n ++ "]" ++ s) = Some (n, s).
Proof.
  intros Hs. cbn [append parse_array]. change (Ascii.eqb "[" "[") with true. cbn iota.
  change (String "]" s) with (String "]" s).
  rewrite split_rb_app by apply no_rb_uint.
  pose proof (dec_string_nonempty n) as Hd.
  destruct (dec_string n) as [|c r] eqn:E; [congruence|].
  destruct s as [|c' s']; [congruence|].
  rewrite <- E. unfold dec_string. rewrite NilEmpty.usu, DecimalN.Unsigned.of_to. reflexivity.
Qed.

Lemma drop_prefix_array n s : drop_prefix "[]" ("[" ++ dec_string n ++ "]" ++ s) = None.
Proof.
  cbn [append drop_prefix]. change (Ascii.eqb "[" "[") with true. cbn iota.
  pose proof (dec_string_nonempty n) as Hd. pose proof (no_rb_uint (N.to_uint n)) as Hr.
  fold (dec_string n) in Hr.
  destruct (dec_string n) as [|c r]; [congruence|]. cbn [append no_rb] in *.
  apply andb_true_iff in Hr as [Hc _]. apply negb_true_iff in Hc. rewrite Ascii.eqb_sym, Hc. reflexivity.
Qed.

Lemma reflect_slice f a s : reflect (S f) a ("[]" ++ s) = option_map TSlice (reflect f a s).
Proof. reflexivity. Qed.

Lemma reflect_array f a n s : s <> "" ->
  reflect (S f) a ("[" ++ dec_string n ++ "]" ++ s) = option_map (TArray n) (reflect f a s).
Proof.
  intros Hs.
  pose proof (drop_prefix_array n s) as Hd. pose proof (parse_array_ok n s Hs) as Hp.
  cbn [append] in Hd, Hp |- *.
  cbn [reflect]. cbn [String.eqb]. change (Ascii.eqb "[" "s") with false. change (Ascii.eqb "[" "u") with false.
  change (Ascii.eqb "[" "i") with false. change (Ascii.eqb "[" "A") with false. cbn iota.
  rewrite Hd, Hp. reflexivity.
Qed.

Lemma mem_builtin_false nm : mem_str nm builtin_names = false ->
  String.eqb nm "string" = false /\ String.eqb nm "uint8" = false /\ String.eqb nm "uint16" = false /\
  String.eqb nm "uint32" = false /\ String.eqb nm "uint64" = false /\ String.eqb nm "int8" = false /\
  String.eqb nm "int16" = false /\ String.eqb nm "int32" = false /\ String.eqb nm "int64" = false /\
  String.eqb nm "Address" = false.
Proof.
  unfold builtin_names. cbn [mem_str]. intros H.
  repeat (apply orb_false_iff in H as [? H]). repeat split; assumption.
Qed.

Lemma reflect_struct f a nm : good_name nm = true ->
  reflect (S f) a nm =
  match lookup nm a with
  | None => None
  | Some fl => option_map (TStruct nm) (reflect_fields (reflect f a) fl)
  end.
Proof.
  unfold good_name. intros H. apply andb_true_iff in H as [Hb Hc]. apply negb_true_iff in Hb.
  destruct (mem_builtin_false nm Hb) as (E1 & E2 & E3 & E4 & E5 & E6 & E7 & E8 & E9 & E10).
  cbn [reflect]. rewrite E1, E2, E3, E4, E5, E6, E7, E8, E9, E10.
  destruct nm as [|c r]; [discriminate|]. apply negb_true_iff in Hc.
  cbn [drop_prefix parse_array]. rewrite Hc. reflexivity.
Qed.

Lemma reflect_fields_app r l1 l2 :
  reflect_fields r (l1 ++ l2) =
  match reflect_fields r l1, reflect_fields r l2 with Some a, Some b => Some (fapp a b) | _, _ => None end.
Proof.
  induction l1 as [|[fn ft] l1 IH]; cbn [app reflect_fields].
  - destruct (reflect_fields r l2); reflexivity.
  - rewrite IH. destruct (r ft); [|reflexivity].
    destruct (reflect_fields r l1); [|reflexivity]. destruct (reflect_fields r l2); reflexivity.
Qed.

Lemma tyname_nonempty t : sup t = true -> tyname t <> "".
Proof.
  destruct t as [p| |nm p|t'|n t'|nm fs]; cbn [sup tyname]; intros H.
  - destruct p; discriminate.
  - discriminate.
  - discriminate.
  - discriminate.
  - discriminate.
  - apply andb_true_iff in H as [H _]. unfold good_name in H. apply andb_true_iff in H as [_ H].
    destruct nm; [discriminate H | discriminate].
Qed.

(* ---- C1: any ABI holding the descriptions of the reachable structs rebuilds canon t *)
Definition abi_has (a : list abitype) (l : list ty) : Prop :=
  forall n fs, In (TStruct n fs) l -> lookup n a = Some (fst (desc_fields fs)).

Definition refl_P (t : ty) : Prop :=
  forall a fuel, (height t < fuel)%nat -> sup t = true -> abi_has a (reach t) ->
  reflect fuel a (tyname t) = Some (canon t).
Definition refl_P0 (fs : fields) : Prop :=
  forall a f, (height_fields fs < f)%nat -> sup_fields fs = true -> abi_has a (reach_fields fs) ->
  reflect_fields (reflect f a) (fst (desc_fields fs)) = Some (canon_fields fs).

Lemma abi_has_app a l1 l2 : abi_has a (l1 ++ l2) -> abi_has a l1 /\ abi_has a l2.
Proof. unfold abi_has. intros H. split; intros n fs Hi; apply H, in_or_app; auto. Qed.

Lemma reflect_mut : (forall t, refl_P t) /\ (forall fs, refl_P0 fs).
Proof.
  apply ty_fields_ind_emb; unfold refl_P, refl_P0.
  - intros p a fuel Hf Hs _. destruct fuel as [|f]; [lia|]. destruct p; try reflexivity; discriminate Hs.
  - intros a fuel Hf _ _. destruct fuel as [|f]; [lia|]. reflexivity.
  - intros nm p a fuel _ Hs _. discriminate Hs.
  - intros t IH a fuel Hf Hs Ha. destruct fuel as [|f]; [lia|]. cbn [height sup reach tyname canon] in *.
    rewrite reflect_slice, IH; [reflexivity | lia | assumption | assumption].
  - intros n t IH a fuel Hf Hs Ha. destruct fuel as [|f]; [lia|]. cbn [height sup reach tyname canon] in *.
    rewrite reflect_array by now apply tyname_nonempty.
    rewrite IH; [reflexivity | lia | assumption | assumption].
  - intros nm fs IH a fuel Hf Hs Ha. destruct fuel as [|f]; [lia|]. cbn [height sup reach tyname canon] in *.
    apply andb_true_iff in Hs as [Hn Hs].
    rewrite reflect_struct by assumption.
    rewrite (Ha nm fs (or_introl eq_refl)).
    rewrite IH; [reflexivity | lia | assumption |].
    intros n' fs' Hi. apply Ha. now right.
  - intros a f _ _ _. reflexivity.
  - intros i t r IHt IHe IHr a f Hf Hs Ha. cbn [height_fields sup_fields reach_fields desc_fields canon_fields] in *.
    destruct (desc_fields r) as [fr mr] eqn:Er. cbn [fst] in IHr.
    apply andb_true_iff in Hs as [Hst Hsr].
    destruct (f_ser i).
    + apply abi_has_app in Ha as [Hat Har].
      assert (Hr : reflect_fields (reflect f a) fr = Some (canon_fields r)) by (apply IHr; [lia | assumption | assumption]).
      assert (Hdef : (height t < f)%nat -> abi_has a (reach t) ->
                reflect_fields (reflect f a) ((jname i, tyname t) :: fr)
                = Some (FCons (rfield (jname i)) (canon t) (canon_fields r))).
      { intros Hh Hh2. cbn [reflect_fields]. rewrite (IHt a f Hh Hst Hh2), Hr. reflexivity. }
      destruct t as [p| |nm p|t'|n t'|nm fs']; cbn [fst]; try (apply Hdef; [lia | assumption]).
      destruct (f_emb i); cbn [fst]; [|apply Hdef; [lia | assumption]].
      destruct (desc_fields fs') as [fe me] eqn:Ee. cbn [fst].
      rewrite reflect_fields_app, Hr.
      specialize (IHe nm fs' eq_refl a f). rewrite Ee in IHe. cbn [fst] in IHe.
      cbn [height sup] in *. apply andb_true_iff in Hst as [_ Hst].
      rewrite IHe; [reflexivity | lia | assumption | assumption].
    + cbn [fst]. apply IHr; [lia | assumption | assumption].
Qed.

(* ---- C2: NewABI's work list describes every reachable struct *)
Local Close Scope string_scope.

Lemma base_shape t : match base t with TSlice _ | TArray _ _ => False | _ => True end.
Proof. induction t as [p| |nm p|t' IH|n t' IH|nm fs]; cbn [base]; auto. Qed.

Lemma reach_base t : reach t = reach (base t).
Proof. induction t as [p| |nm p|t' IH|n t' IH|nm fs]; cbn [base reach]; auto. Qed.

Lemma reach_structs_mut :
  (forall t, Forall is_struct (reach t)) /\ (forall fs, Forall is_struct (reach_fields fs)).
Proof.
  apply ty_fields_ind_emb; cbn [reach reach_fields]; try (intros; constructor); auto.
  - exists nm, fs. reflexivity.
  - intros i t r IHt IHe IHr. destruct (f_ser i); [|exact IHr].
    apply Forall_app. split; [|exact IHr].
    destruct t as [p| |nm p|t'|n t'|nm fs']; try exact IHt.
    destruct (f_emb i); [now apply (IHe nm fs') | exact IHt].
Qed.

(* children of a struct (otherStructsSeen) are structs, and generate exactly the rest of reach *)
Lemma children_mut :
  (forall t : ty, True) /\
  (forall fs, Forall is_struct (snd (desc_fields fs)) /\ reach_fields fs = flat_map reach (snd (desc_fields fs))).
Proof.
  apply ty_fields_ind_emb; try (intros; exact I).
  - split; [constructor | reflexivity].
  - intros i t r _ IHe [IHr1 IHr2]. cbn [desc_fields reach_fields].
    destruct (desc_fields r) as [fr mr] eqn:Er. cbn [snd] in IHr1, IHr2.
    destruct (f_ser i); [|cbn [snd]; auto].
    assert (Hdef : Forall is_struct (snd ((jname i, tyname t) :: fr,
                       (match base t with TStruct _ _ => [base t] | _ => [] end) ++ mr)) /\
                   reach t ++ reach_fields r =
                   flat_map reach (snd ((jname i, tyname t) :: fr,
                       (match base t with TStruct _ _ => [base t] | _ => [] end) ++ mr))).
    { cbn [snd]. rewrite flat_map_app, <- IHr2, (reach_base t). pose proof (base_shape t) as Hb.
      destruct (base t) as [p| |nm p|t'|n t'|nm fs'] eqn:Eb; try contradiction; cbn [flat_map app reach];
        try (split; [exact IHr1 | reflexivity]).
      split; [constructor; [exists nm, fs'; reflexivity | exact IHr1] | now rewrite app_nil_r]. }
    destruct t as [p| |nm p|t'|n t'|nm fs']; try exact Hdef.
    destruct (f_emb i).
    + destruct (IHe nm fs' eq_refl) as [IHe1 IHe2].
      destruct (desc_fields fs') as [fe me]. cbn [snd] in *.
      split; [apply Forall_app; auto | rewrite flat_map_app, IHe2, IHr2; reflexivity].
    + cbn [snd base] in *. exact Hdef.
Qed.

Lemma children_structs fs : Forall is_struct (snd (desc_fields fs)).
Proof. apply (proj2 children_mut). Qed.

Lemma reach_children fs : reach_fields fs = flat_map reach (snd (desc_fields fs)).
Proof. apply (proj2 children_mut). Qed.

Lemma reach_self t : is_struct t -> In t (reach t).
Proof. intros (nm & fs & ->). left. reflexivity. Qed.

Lemma child_in_reach fs c : In c (snd (desc_fields fs)) -> In c (reach_fields fs).
Proof.
  intros Hc. rewrite reach_children. apply in_flat_map. exists c. split; [exact Hc|].
  apply reach_self. pose proof (children_structs fs) as H. rewrite Forall_forall in H. now apply H.
Qed.

Lemma reach_trans_mut :
  (forall t x, In x (reach t) -> incl (reach x) (reach t)) /\
  (forall fs x, In x (reach_fields fs) -> incl (reach x) (reach_fields fs)).
Proof.
  apply ty_fields_ind_emb; cbn [reach reach_fields]; try (intros; contradiction); auto.
  - intros nm fs IH x [<-|Hx]; [apply incl_refl|]. apply incl_tl. now apply IH.
  - intros i t r IHt IHe IHr x Hx. destruct (f_ser i); [|now apply IHr].
    apply in_app_or in Hx as [Hx|Hx]; [apply incl_appl | apply incl_appr; now apply IHr].
    destruct t as [p| |nm p|t'|n t'|nm fs']; try (now apply IHt).
    destruct (f_emb i); [now apply (IHe nm fs') | now apply IHt].
Qed.

Lemma reach_trans t x : In x (reach t) -> incl (reach x) (reach t).
Proof. apply (proj1 reach_trans_mut). Qed.

Lemma reach_count_mut :
  (forall t, List.length (reach t) <= nstructs t)%nat /\
  (forall fs, List.length (reach_fields fs) <= nstructs_fields fs)%nat.
Proof.
  apply ty_fields_ind_emb; cbn [reach reach_fields nstructs nstructs_fields List.length]; try lia; auto.
  - intros i t r IHt IHe IHr. destruct (f_ser i); [|lia]. rewrite app_length.
    destruct t as [p| |nm p|t'|n t'|nm fs']; try lia.
    destruct (f_emb i); [|lia]. specialize (IHe nm fs' eq_refl). cbn [nstructs]. lia.
Qed.

Lemma mem_str_In s l : mem_str s l = true <-> In s l.
Proof.
  induction l as [|x l IH]; cbn [mem_str In]; [split; [discriminate | contradiction]|].
  rewrite orb_true_iff, IH, String.eqb_eq. split; intros [H|H]; auto.
Qed.

Lemma lookup_in n a : In n (map fst a) -> exists fl, lookup n a = Some fl /\ In (n, fl) a.
Proof.
  induction a as [|[m fl] a IH]; cbn [map fst In lookup]; [contradiction|].
  intros H. destruct (String.eqb_spec m n) as [->|Hne].
  - exists fl. split; [reflexivity | now left].
  - destruct H as [H|H]; [contradiction|]. destruct (IH H) as (fl' & H1 & H2). exists fl'. split; [exact H1 | now right].
Qed.

Section Loop.
  Variable T : ty.

  Definition Inv (left : list ty) (seen : list string) (acc : list abitype) : Prop :=
    Forall (fun x => In x (reach T)) left /\
    (forall n, In n seen <-> In n (map fst acc)) /\
    (forall n fl, In (n, fl) acc ->
       exists fs, In (TStruct n fs) (reach T) /\ fl = fst (desc_fields fs) /\ incl (snd (desc_fields fs)) left) /\
    NoDup seen /\ incl seen (map tyname (reach T)).

  Lemma desc_loop_inv : forall f left seen acc,
    Inv left seen acc -> (List.length (reach T) <= List.length seen + f)%nat ->
    exists left', incl left left' /\
      Inv left' (fst (desc_loop f left seen acc)) (snd (desc_loop f left seen acc)) /\
      Forall (fun x => In (tyname x) (fst (desc_loop f left seen acc))) left'.
  Proof.
    induction f as [|f IH]; intros left seen acc HI Hlen.
    - cbn [desc_loop fst snd]. exists left. split; [apply incl_refl|]. split; [exact HI|].
      destruct HI as (H1 & _ & _ & H4 & H5).
      assert (Hall : incl (map tyname (reach T)) seen).
      { apply NoDup_length_incl; [exact H4 | rewrite map_length; lia | exact H5]. }
      rewrite Forall_forall in *. intros x Hx. apply Hall, in_map, H1, Hx.
    - cbn [desc_loop].
      destruct (find (fun t => negb (mem_str (tyname t) seen)) left) as [x|] eqn:Ef.
      + apply find_some in Ef as [Hx Hm]. apply negb_true_iff in Hm.
        destruct HI as (H1 & H2 & H3 & H4 & H5).
        assert (HxT : In x (reach T)) by (rewrite Forall_forall in H1; now apply H1).
        assert (Hxs : is_struct x).
        { pose proof (proj1 reach_structs_mut T) as Hs. rewrite Forall_forall in Hs. now apply Hs. }
        destruct Hxs as (nm & fs & ->). cbn [tyname] in Hm.
        destruct (desc_fields fs) as [fl more] eqn:Ed.
        assert (Hnot : ~ In nm seen) by (intros Hc; apply mem_str_In in Hc; congruence).
        destruct (IH (left ++ more) (nm :: seen) (acc ++ [(nm, fl)])) as (left' & Hl1 & Hl2 & Hl3).
        * repeat split.
          -- apply Forall_app. split; [exact H1|]. apply Forall_forall. intros c Hc.
             apply (reach_trans T (TStruct nm fs) HxT). cbn [reach]. right.
             apply child_in_reach. rewrite Ed. exact Hc.
          -- rewrite map_app, in_app_iff. cbn [map fst In]. intros [<-|Hn]; [right; now left | left; now apply H2].
          -- rewrite map_app, in_app_iff. cbn [map fst In]. intros [Hn|[<-|[]]]; [right; now apply H2 | now left].
          -- intros n fl' Hin. apply in_app_or in Hin as [Hin|[Hin|[]]].
             ++ destruct (H3 n fl' Hin) as (fs0 & Ha & Hb & Hc). exists fs0. repeat split; auto. now apply incl_appl.
             ++ injection Hin as <- <-. exists fs. rewrite Ed. repeat split; auto. cbn [snd]. apply incl_appr, incl_refl.
          -- constructor; assumption.
          -- intros n [<-|Hn]; [|now apply H5]. change nm with (tyname (TStruct nm fs)). now apply in_map.
        * cbn [List.length]. lia.
        * exists left'. split; [|split; assumption]. intros y Hy. apply Hl1, in_or_app. now left.
      + cbn [fst snd]. exists left. split; [apply incl_refl|]. split; [exact HI|].
        apply Forall_forall. intros x Hx. pose proof (find_none _ _ Ef x Hx) as Hm.
        apply negb_false_iff in Hm. now apply mem_str_In.
  Qed.

  Hypothesis Tstruct : is_struct T.
  Hypothesis Tcons : consistent T.

  (* closure: the names of all reachable structs are seen once every element of the final work list is *)
  Section Closure.
    Variables (left' : list ty) (seen' : list string) (acc' : list abitype).
    Hypothesis HI : Inv left' seen' acc'.
    Hypothesis Hdone : Forall (fun x => In (tyname x) seen') left'.

    Let Sn (x : ty) : Prop := In (tyname x) seen'.

    Lemma seen_children n fs : In (TStruct n fs) (reach T) -> In n seen' -> Forall Sn (snd (desc_fields fs)).
    Proof.
      intros Hr Hs. destruct HI as (_ & H2 & H3 & _ & _).
      apply H2 in Hs. apply in_map_iff in Hs as ([n' fl] & Hn & Hin). cbn [fst] in Hn. subst n'.
      destruct (H3 n fl Hin) as (fs0 & Ha & _ & Hc).
      rewrite (Tcons n fs fs0 Hr Ha).
      apply Forall_forall. intros c Hcin. rewrite Forall_forall in Hdone. apply Hdone, Hc, Hcin.
    Qed.

    Lemma closure_mut :
      (forall t, incl (reach t) (reach T) -> (is_struct (base t) -> Sn (base t)) -> Forall Sn (reach t)) /\
      (forall fs, incl (reach_fields fs) (reach T) -> Forall Sn (snd (desc_fields fs)) -> Forall Sn (reach_fields fs)).
    Proof.
      apply ty_fields_ind_emb; cbn [reach reach_fields base]; try solve [intros; constructor]; auto.
      - intros nm fs IH Hinc Hb.
        assert (Hself : Sn (TStruct nm fs)) by (apply Hb; exists nm, fs; reflexivity).
        constructor; [exact Hself|]. apply IH.
        + intros y Hy. apply Hinc. now right.
        + apply (seen_children nm); [apply Hinc; now left | exact Hself].
      - intros i t r IHt IHe IHr Hinc Hch. cbn [desc_fields] in Hch.
        destruct (desc_fields r) as [fr mr] eqn:Er. cbn [snd] in IHr.
        destruct (f_ser i); [|cbn [snd] in Hch; now apply IHr].
        apply incl_app_inv in Hinc as [Hi1 Hi2].
        assert (Hdef : incl (reach t) (reach T) ->
                       Forall Sn ((match base t with TStruct _ _ => [base t] | _ => [] end) ++ mr) ->
                       Forall Sn (reach t ++ reach_fields r)).
        { intros Hi Hf. apply Forall_app in Hf as [Hf1 Hf2]. apply Forall_app. split; [|now apply IHr].
          apply IHt; [exact Hi|]. intros (nm & fs' & Eb). rewrite Eb in Hf1. rewrite Eb. now inversion Hf1. }
        destruct t as [p| |nm p|t'|n t'|nm fs']; cbn [snd] in Hch; try (now apply Hdef).
        destruct (f_emb i).
        + destruct (desc_fields fs') as [fe me] eqn:Ee. cbn [snd] in Hch.
          apply Forall_app in Hch as [Hc1 Hc2]. apply Forall_app. split; [|now apply IHr].
          specialize (IHe nm fs' eq_refl). rewrite Ee in IHe. now apply IHe.
        + cbn [snd base] in *. apply Hdef; [exact Hi1|]. exact Hch.
    Qed.

    Lemma all_seen x : In T left' -> In x (reach T) -> In (tyname x) seen'.
    Proof.
      intros HT Hx.
      assert (H : Forall Sn (reach T)).
      { apply (proj1 closure_mut); [apply incl_refl|]. intros _.
        destruct Tstruct as (nm & fs & E). rewrite E. cbn [base]. rewrite <- E.
        rewrite Forall_forall in Hdone. now apply Hdone. }
      rewrite Forall_forall in H. now apply H.
    Qed.
  End Closure.

  Lemma describe_has : abi_has (describe T) (reach T).
  Proof.
    unfold describe, new_abi. cbn [fold_left].
    destruct (desc_loop_inv (S (nstructs T)) [T] [] []) as (left' & Hl & HI & Hdone).
    - repeat split.
      + constructor; [now apply reach_self | constructor].
      + intros [].
      + intros [].
      + intros n fl [].
      + constructor.
      + intros n [].
    - pose proof (proj1 reach_count_mut T). cbn [List.length]. lia.
    - intros n fs Hin.
      pose proof (all_seen left' _ _ HI Hdone (TStruct n fs) (Hl T (or_introl eq_refl)) Hin) as Hs.
      cbn [tyname] in Hs.
      destruct HI as (_ & H2 & H3 & _ & _).
      apply H2 in Hs. destruct (lookup_in _ _ Hs) as (fl & Hlk & Hfl).
      destruct (H3 n fl Hfl) as (fs0 & Ha & Hb & _).
      rewrite Hlk, Hb, (Tcons n fs fs0 Hin Ha). reflexivity.
  Qed.
End Loop.

Theorem describe_reflect t :
  is_struct t -> sup t = true -> consistent t ->
  forall fuel, (height t < fuel)%nat -> reflect fuel (describe t) (tyname t) = Some (canon t).
Proof.
  intros Hs Hsup Hc fuel Hf.
  apply (proj1 reflect_mut); [exact Hf | exact Hsup | now apply describe_has].
Qed.

(* ================================================================== end to end: dynamic.Marshal / Unmarshal *)

Lemma describe_lookup_root t : is_struct t -> consistent t -> exists fl, lookup (tyname t) (describe t) = Some fl.
Proof.
  intros Hs Hc. destruct Hs as (nm & fs & E). subst t.
  eexists. apply (describe_has (TStruct nm fs)); [exists nm, fs; reflexivity | exact Hc | now left].
Qed.

Lemma dyn_marshal_native t id outs v fuel :
  is_struct t -> sup t = true -> consistent t -> (height t < fuel)%nat -> wt t v = true ->
  dyn_marshal fuel (ABI [(id, tyname t)] outs (describe t)) (tyname t) (canon_val t v)
  = option_map (cons id) (enc t v).
Proof.
  intros Hs Hsup Hc Hf Hw. unfold dyn_marshal. cbn [abi_types abi_actions find_id].
  destruct (describe_lookup_root t Hs Hc) as (fl & ->).
  rewrite (describe_reflect t Hs Hsup Hc fuel Hf), String.eqb_refl, (canon_bytes t v Hw).
  destruct (enc t v); reflexivity.
Qed.

Lemma dyn_unmarshal_native t id acts outs v fuel bs rest :
  is_struct t -> sup t = true -> consistent t -> (height t < fuel)%nat -> wt t v = true ->
  enc t v = Some bs ->
  dyn_unmarshal fuel (ABI acts outs (describe t)) [(id, tyname t)] (id :: bs ++ rest) = Some (canon_val t v).
Proof.
  intros Hs Hsup Hc Hf Hw He. unfold dyn_unmarshal. cbn [abi_types find_name].
  rewrite N.eqb_refl, (describe_reflect t Hs Hsup Hc fuel Hf).
  rewrite (dec_enc (canon t) (canon_val t v) bs rest); [reflexivity | now apply canon_wt |].
  now rewrite canon_bytes.
Qed.
