(* Abi_proofs.v — proofs for C29.
   Part A: linear codec round trip (dec after enc).
   Part B: the reflected type (canon t) and the native type t produce the same bytes.
   Part C: NewABI's description of t, read back by getReflectType, is canon t. *)
From Coq Require Import List NArith ZArith Bool String Ascii Lia.
From Coq Require Import DecimalString DecimalN DecimalPos.
From Coq Require Import ZifyN ZifyNat ZifyBool.
Import ListNotations.
From HV Require Import Lib.Bytes Model.Abi.
Local Open Scope N_scope.

(* ================================================================== Part A *)

Lemma take_app (a r : bytes) : take (List.length a) (a ++ r) = Some (a, r).
Proof.
  induction a as [|x a IH]; cbn [List.length take app]; [reflexivity|].
  now rewrite IH.
Qed.

Lemma be_length k n : List.length (be k n) = k.
Proof.
  revert n; induction k as [|k IH]; intros n; cbn [be]; [reflexivity|].
  rewrite app_length, IH. cbn. lia.
Qed.

Lemma unbe_snoc a b : unbe (a ++ [b]) = unbe a * 256 + b.
Proof. unfold unbe. rewrite fold_left_app. reflexivity. Qed.

Lemma unbe_be k n : n < 256 ^ N.of_nat k -> unbe (be k n) = n.
Proof.
  revert n; induction k as [|k IH]; intros n Hn.
  - cbn in *. change (unbe []) with 0. lia.
  - cbn [be]. rewrite unbe_snoc, IH.
    + pose proof (N.div_mod n 256 ltac:(lia)). lia.
    + rewrite Nat2N.inj_succ, N.pow_succ_r' in Hn.
      apply N.div_lt_upper_bound; lia.
Qed.

Lemma pow256_vals :
  pow256 1 = 256%Z /\ pow256 2 = 65536%Z /\ pow256 4 = 4294967296%Z /\ pow256 8 = 18446744073709551616%Z.
Proof. vm_compute. auto. Qed.

Lemma npow_vals :
  256 ^ N.of_nat 1 = 256 /\ 256 ^ N.of_nat 2 = 65536 /\ 256 ^ N.of_nat 4 = 4294967296
  /\ 256 ^ N.of_nat 8 = 18446744073709551616.
Proof. vm_compute. auto. Qed.

Lemma zmod_neg z M : (- M <= z < 0)%Z -> (z mod M = z + M)%Z.
Proof.
  intros H. symmetry. apply Z.mod_unique with (q := (-1)%Z); lia.
Qed.

(* integers: k bytes, modulus M = 256^k *)
Lemma int_roundtrip (k : nat) (M : Z) (sg : bool) (z : Z) (rest : bytes) :
  pow256 k = M -> Z.of_N (256 ^ N.of_nat k) = M -> (2 <= M)%Z -> (M mod 2 = 0)%Z ->
  (if sg then (Z.leb (- (M / 2)) z && Z.ltb z (M / 2))%Z else (Z.leb 0 z && Z.ltb z M)%Z) = true ->
  match take k (be k (Z.to_N (z mod M)) ++ rest) with
  | Some (h, r) =>
      let u := Z.of_N (unbe h) in
      Some (VNum (if sg && Z.leb M (2 * u) then (u - M)%Z else u), r)
  | None => None
  end = Some (VNum z, rest).
Proof.
  intros HM HN H2 Hev Hr.
  pose proof (take_app (be k (Z.to_N (z mod M))) rest) as Ht.
  rewrite be_length in Ht. rewrite Ht. cbn zeta.
  assert (Hlt : (0 <= z mod M < M)%Z) by (apply Z.mod_pos_bound; lia).
  rewrite unbe_be by (remember (256 ^ N.of_nat k) as W; lia).
  rewrite Z2N.id by lia.
  pose proof (Z.div_mod M 2 ltac:(lia)) as Hd.
  destruct sg; cbn [andb]; cbn [andb] in Hr.
  - apply andb_true_iff in Hr as [Hr1 Hr2]. apply Z.leb_le in Hr1. apply Z.ltb_lt in Hr2.
    destruct (Z.leb_spec 0 z) as [Hz|Hz].
    + rewrite Z.mod_small by lia.
      destruct (Z.leb_spec M (2 * z)); [lia | reflexivity].
    + rewrite zmod_neg by lia.
      destruct (Z.leb_spec M (2 * (z + M))); [|lia].
      replace (z + M - M)%Z with z by lia. reflexivity.
  - apply andb_true_iff in Hr as [Hr1 Hr2]. apply Z.leb_le in Hr1. apply Z.ltb_lt in Hr2.
    rewrite Z.mod_small by lia. reflexivity.
Qed.

Lemma dec_enc_prim p v bs rest :
  wt_prim p v = true -> enc_prim p v = Some bs -> dec_prim p (bs ++ rest) = Some (v, rest).
Proof.
  destruct pow256_vals as (P1 & P2 & P4 & P8).
  destruct npow_vals as (N1 & N2 & N4 & N8).
  intros Hw He.
  destruct p; destruct v as [z|b|s|l]; try discriminate Hw; cbn [enc_prim] in He;
    try (injection He as <-; unfold dec_prim; cbn [prim_bytes prim_signed wt_prim] in *).
  - apply (int_roundtrip 1 256 false z rest P1); [rewrite N1| |reflexivity|rewrite <- P1]; try reflexivity; try lia; exact Hw.
  - apply (int_roundtrip 2 65536 false z rest P2); [rewrite N2| |reflexivity|rewrite <- P2]; try reflexivity; try lia; exact Hw.
  - apply (int_roundtrip 4 4294967296 false z rest P4); [rewrite N4| |reflexivity|rewrite <- P4]; try reflexivity; try lia; exact Hw.
  - apply (int_roundtrip 8 18446744073709551616 false z rest P8); [rewrite N8| |reflexivity|rewrite <- P8]; try reflexivity; try lia; exact Hw.
  - apply (int_roundtrip 1 256 true z rest P1); [rewrite N1| |reflexivity|rewrite <- P1]; try reflexivity; try lia; exact Hw.
  - apply (int_roundtrip 2 65536 true z rest P2); [rewrite N2| |reflexivity|rewrite <- P2]; try reflexivity; try lia; exact Hw.
  - apply (int_roundtrip 4 4294967296 true z rest P4); [rewrite N4| |reflexivity|rewrite <- P4]; try reflexivity; try lia; exact Hw.
  - apply (int_roundtrip 8 18446744073709551616 true z rest P8); [rewrite N8| |reflexivity|rewrite <- P8]; try reflexivity; try lia; exact Hw.
  - destruct b; reflexivity.
  - cbn [wt_prim] in Hw. apply andb_true_iff in Hw as [Hl _].
    rewrite Hl in He. injection He as <-. unfold dec_prim.
    cbn [app take].
    assert (Hu : unbe [(len s / 256) mod 256; len s mod 256] = len s).
    { unfold unbe. cbn [fold_left]. apply N.leb_le in Hl.
      rewrite (N.mod_small (len s / 256)) by (apply N.div_lt_upper_bound; lia).
      pose proof (N.div_mod (len s) 256 ltac:(lia)). lia. }
    rewrite Hu. unfold len. rewrite Nat2N.id, take_app. reflexivity.
Qed.

Local Arguments be : simpl never.
Local Arguments take : simpl never.
Local Arguments unbe : simpl never.

(* sequences *)
Lemma enc_seq_length_le f l bs :
  enc_seq true f l = Some bs -> (List.length l <= List.length bs)%nat.
Proof.
  revert bs; induction l as [|v l IH]; intros bs H; cbn [enc_seq] in H.
  - injection H as <-. cbn. lia.
  - destruct (f v) as [b|]; [|discriminate]. destruct (enc_seq true f l) as [bs'|]; [|discriminate].
    cbn [andb] in H. destruct b as [|x b]; [discriminate|]. injection H as <-.
    specialize (IH _ eq_refl). cbn [List.length app]. rewrite app_length. lia.
Qed.

Lemma dec_enc_seq strict (f : value -> option bytes) (g : bytes -> option (value * bytes)) l :
  Forall (fun v => forall b rest, f v = Some b -> g (b ++ rest) = Some (v, rest)) l ->
  forall bs rest, enc_seq strict f l = Some bs ->
  dec_seq strict g (List.length l) (bs ++ rest) = Some (l, rest).
Proof.
  induction 1 as [|v l Hv _ IH]; intros bs rest He; cbn [enc_seq] in He.
  - injection He as <-. reflexivity.
  - destruct (f v) as [b|] eqn:Hf; [|discriminate]. destruct (enc_seq strict f l) as [bs'|] eqn:Hs; [|discriminate].
    cbn [List.length dec_seq].
    destruct (strict && match b with [] => true | _ => false end) eqn:Hz; [discriminate|].
    injection He as <-. rewrite <- app_assoc, (Hv _ _ eq_refl).
    replace (strict && (List.length (bs' ++ rest) =? List.length (b ++ bs' ++ rest))%nat) with false.
    + now rewrite (IH _ _ eq_refl).
    + symmetry. destruct strict; [|reflexivity]. cbn [andb] in *. destruct b as [|x b]; [discriminate|].
      apply Nat.eqb_neq. cbn [List.length app]. rewrite !app_length. lia.
Qed.

Lemma forallb_Forall {A} (p : A -> bool) l : forallb p l = true -> Forall (fun x => p x = true) l.
Proof. rewrite forallb_forall. apply Forall_forall. Qed.

(* the round trip, by mutual induction on types / field lists *)
Definition dec_enc_P (t : ty) : Prop :=
  forall v bs rest, wt t v = true -> enc t v = Some bs -> dec t (bs ++ rest) = Some (v, rest).
Definition dec_enc_P0 (fs : fields) : Prop :=
  forall vs bs rest, wt_fields fs vs = true -> enc_fields fs vs = Some bs -> dec_fields fs (bs ++ rest) = Some (vs, rest).

Lemma dec_enc_mut : (forall t, dec_enc_P t) /\ (forall fs, dec_enc_P0 fs).
Proof.
  apply ty_fields_ind; unfold dec_enc_P, dec_enc_P0.
  - (* TPrim *) intros p v bs rest Hw He. cbn [wt enc dec] in *. now apply dec_enc_prim.
  - (* TAddress *) intros v bs rest Hw He. cbn [wt enc dec] in *.
    destruct v as [| | |l]; try discriminate. apply andb_true_iff in Hw as [Hl Hall].
    rewrite Hl in He.
    assert (H33 : List.length l = 33%nat) by (apply N.eqb_eq in Hl; unfold len in Hl; lia).
    rewrite <- H33.
    rewrite (dec_enc_seq false (enc_prim U8) (dec_prim U8) l) with (bs := bs); [reflexivity| |exact He].
    apply forallb_Forall in Hall. eapply Forall_impl; [|exact Hall].
    intros a Ha b r Hb. cbn beta in Ha. now apply dec_enc_prim.
  - (* TNamed *) intros nm p v bs rest Hw He. cbn [wt enc dec] in *. now apply dec_enc_prim.
  - (* TSlice *) intros t IH v bs rest Hw He. cbn [wt enc dec] in *.
    destruct v as [| | |l]; try discriminate. apply andb_true_iff in Hw as [Hl Hall].
    apply N.leb_le in Hl.
    destruct (max_int32 <? len l) eqn:Hmx; [apply N.ltb_lt in Hmx; lia|].
    destruct (enc_seq true (enc t) l) as [be_|] eqn:Hs; [|discriminate].
    assert (Hbs : be 4 (len l) ++ be_ = bs) by congruence. subst bs. clear He.
    rewrite <- app_assoc.
    pose proof (take_app (be 4 (len l)) (be_ ++ rest)) as Ht. rewrite be_length in Ht. rewrite Ht.
    cbn zeta.
    destruct npow_vals as (_ & _ & N4 & _).
    rewrite unbe_be by (rewrite N4; unfold max_int32 in Hl; lia).
    rewrite Hmx.
    pose proof (enc_seq_length_le _ _ _ Hs) as Hle.
    destruct (len (be_ ++ rest) <? len l) eqn:Hlt.
    { apply N.ltb_lt in Hlt. unfold len in Hlt. rewrite app_length in Hlt. lia. }
    unfold len at 1. rewrite Nat2N.id.
    rewrite (dec_enc_seq true (enc t) (dec t) l) with (bs := be_); [reflexivity| |exact Hs].
    apply forallb_Forall in Hall. eapply Forall_impl; [|exact Hall].
    intros a Ha b r Hb. cbn beta in Ha. now apply IH.
  - (* TArray *) intros n t IH v bs rest Hw He. cbn [wt enc dec] in *.
    destruct v as [| | |l]; try discriminate. apply andb_true_iff in Hw as [Hl Hall].
    rewrite Hl in He. apply N.eqb_eq in Hl. subst n. unfold len. rewrite Nat2N.id.
    rewrite (dec_enc_seq false (enc t) (dec t) l) with (bs := bs); [reflexivity| |exact He].
    apply forallb_Forall in Hall. eapply Forall_impl; [|exact Hall].
    intros a Ha b r Hb. cbn beta in Ha. now apply IH.
  - (* TStruct *) intros nm fs IH v bs rest Hw He. cbn [wt enc dec] in *.
    destruct v as [| | |l]; try discriminate. now rewrite (IH _ _ _ Hw He).
  - (* FNil *) intros vs bs rest Hw He. cbn [wt_fields enc_fields dec_fields] in *.
    destruct vs; [|discriminate]. injection He as <-. reflexivity.
  - (* FCons *) intros i t IHt rest_f IHf vs bs rest Hw He. cbn [wt_fields enc_fields dec_fields] in *.
    destruct (f_ser i).
    + destruct vs as [|v vs]; [discriminate|]. apply andb_true_iff in Hw as [Hwv Hwr].
      destruct (enc t v) as [a|] eqn:Ha; [|discriminate].
      destruct (enc_fields rest_f vs) as [b|] eqn:Hb; [|discriminate]. injection He as <-.
      rewrite <- app_assoc, (IHt _ _ _ Hwv Ha), (IHf _ _ _ Hwr Hb). reflexivity.
    + now apply IHf.
Qed.

Lemma dec_enc t v bs rest :
  wt t v = true -> enc t v = Some bs -> dec t (bs ++ rest) = Some (v, rest).
Proof. apply (proj1 dec_enc_mut). Qed.

(* a well-typed value is rejected by the codec only for a slice of zero-length elements *)

(* ================================================================== Part B *)

Fixpoint nser (fs : fields) : nat :=
  match fs with FNil => O | FCons i _ r => ((if f_ser i then 1 else 0) + nser r)%nat end.

Lemma nser_fapp a b : nser (fapp a b) = (nser a + nser b)%nat.
Proof. induction a as [|i t r IH]; cbn [fapp nser]; [reflexivity | rewrite IH; lia]. Qed.

Lemma wt_fields_len fs : forall vs, wt_fields fs vs = true -> List.length vs = nser fs.
Proof.
  induction fs as [|i t r IH]; intros vs H; cbn [wt_fields nser] in *.
  - destruct vs; [reflexivity | discriminate].
  - destruct (f_ser i).
    + destruct vs as [|v vs]; [discriminate|]. apply andb_true_iff in H as [_ H].
      cbn [List.length]. rewrite (IH _ H). reflexivity.
    + now apply IH.
Qed.

Lemma enc_fields_app f1 f2 : forall l1 l2, List.length l1 = nser f1 ->
  enc_fields (fapp f1 f2) (l1 ++ l2) =
  match enc_fields f1 l1, enc_fields f2 l2 with Some a, Some b => Some (a ++ b) | _, _ => None end.
Proof.
  induction f1 as [|i t r IH]; intros l1 l2 Hl; cbn [fapp enc_fields nser] in *.
  - destruct l1; [|discriminate]. cbn [app]. destruct (enc_fields f2 l2); reflexivity.
  - destruct (f_ser i).
    + destruct l1 as [|v l1]; [discriminate|]. cbn [app]. cbn [List.length] in Hl.
      rewrite IH by lia.
      destruct (enc t v) as [a|]; [|reflexivity].
      destruct (enc_fields r l1) as [b|]; [|reflexivity].
      destruct (enc_fields f2 l2) as [c|]; [|reflexivity].
      now rewrite app_assoc.
    + apply IH. lia.
Qed.

Definition cvl_Q0 (fs : fields) : Prop :=
  forall vs, wt_fields fs vs = true -> List.length (canon_vals fs vs) = nser (canon_fields fs).
Definition cvl_Q (t : ty) : Prop := match t with TStruct _ fs => cvl_Q0 fs | _ => True end.

Lemma canon_vals_len_mut : (forall t, cvl_Q t) /\ (forall fs, cvl_Q0 fs).
Proof.
  apply ty_fields_ind; unfold cvl_Q, cvl_Q0; try (intros; exact I).
  - intros nm fs IH. exact IH.
  - intros vs H. reflexivity.
  - intros i t IHt r IHr vs H. cbn [wt_fields canon_vals canon_fields] in *.
    destruct (f_ser i); [|now apply IHr].
    destruct vs as [|v vs]; [discriminate|]. apply andb_true_iff in H as [Hv Hr].
    assert (Hdef : List.length (canon_val t v :: canon_vals r vs)
                   = nser (FCons (rfield (jname i)) (canon t) (canon_fields r))).
    { cbn [List.length nser rfield f_ser]. rewrite (IHr _ Hr). reflexivity. }
    destruct t as [p| |nm p|t'|n t'|nm fs']; try exact Hdef.
    destruct (f_emb i); [|exact Hdef].
    cbn [wt] in Hv. destruct v as [| | |l]; try discriminate.
    rewrite app_length, nser_fapp, (IHt _ Hv), (IHr _ Hr). reflexivity.
Qed.

Lemma enc_seq_map strict (f g : value -> option bytes) (h : value -> value) l :
  Forall (fun v => f (h v) = g v) l -> enc_seq strict f (map h l) = enc_seq strict g l.
Proof.
  induction 1 as [|v l Hv _ IH]; cbn [map enc_seq]; [reflexivity|]. now rewrite Hv, IH.
Qed.

Definition bytes_P (t : ty) : Prop := forall v, wt t v = true -> enc (canon t) (canon_val t v) = enc t v.
Definition bytes_P0 (fs : fields) : Prop :=
  forall vs, wt_fields fs vs = true -> enc_fields (canon_fields fs) (canon_vals fs vs) = enc_fields fs vs.

Lemma canon_bytes_mut : (forall t, bytes_P t) /\ (forall fs, bytes_P0 fs).
Proof.
  apply ty_fields_ind; unfold bytes_P, bytes_P0; try (intros; reflexivity).
  - (* TSlice *) intros t IH v Hw. cbn [wt canon canon_val enc] in *.
    destruct v as [| | |l]; try discriminate. apply andb_true_iff in Hw as [_ Hall].
    unfold len. rewrite map_length.
    rewrite (enc_seq_map true (enc (canon t)) (enc t) (canon_val t) l); [reflexivity|].
    apply forallb_Forall in Hall. eapply Forall_impl; [|exact Hall]. intros a Ha. now apply IH.
  - (* TArray *) intros n t IH v Hw. cbn [wt canon canon_val enc] in *.
    destruct v as [| | |l]; try discriminate. apply andb_true_iff in Hw as [_ Hall].
    unfold len. rewrite map_length.
    rewrite (enc_seq_map false (enc (canon t)) (enc t) (canon_val t) l); [reflexivity|].
    apply forallb_Forall in Hall. eapply Forall_impl; [|exact Hall]. intros a Ha. now apply IH.
  - (* TStruct *) intros nm fs IH v Hw. cbn [wt canon canon_val enc] in *.
    destruct v as [| | |l]; try discriminate. now apply IH.
  - (* FNil *) intros vs Hw. cbn [wt_fields] in Hw. destruct vs; [reflexivity | discriminate].
  - (* FCons *) intros i t IHt r IHr vs Hw. cbn [wt_fields canon_fields canon_vals enc_fields] in *.
    destruct (f_ser i); [|now apply IHr].
    destruct vs as [|v vs]; [discriminate|]. apply andb_true_iff in Hw as [Hv Hr].
    assert (Hdef : enc_fields (FCons (rfield (jname i)) (canon t) (canon_fields r)) (canon_val t v :: canon_vals r vs)
                   = match enc t v, enc_fields r vs with Some a, Some b => Some (a ++ b) | _, _ => None end).
    { cbn [enc_fields rfield f_ser]. now rewrite (IHt _ Hv), (IHr _ Hr). }
    destruct t as [p| |nm p|t'|n t'|nm fs']; try exact Hdef.
    destruct (f_emb i); [|exact Hdef].
    cbn [wt] in Hv. destruct v as [| | |l]; try discriminate.
    rewrite enc_fields_app by (apply (proj1 canon_vals_len_mut (TStruct nm fs')); exact Hv).
    specialize (IHt (VList l) Hv). cbn [canon canon_val enc] in IHt.
    rewrite IHt, (IHr _ Hr). reflexivity.
Qed.

Lemma canon_bytes t v : wt t v = true -> enc (canon t) (canon_val t v) = enc t v.
Proof. apply (proj1 canon_bytes_mut). Qed.

(* the flattened value is a value of the reflected type *)
Lemma wt_fields_app f1 f2 : forall l1 l2, wt_fields f1 l1 = true -> wt_fields f2 l2 = true ->
  wt_fields (fapp f1 f2) (l1 ++ l2) = true.
Proof.
  induction f1 as [|i t r IH]; intros l1 l2 H1 H2; cbn [fapp wt_fields] in *.
  - destruct l1; [exact H2 | discriminate].
  - destruct (f_ser i).
    + destruct l1 as [|v l1]; [discriminate|]. apply andb_true_iff in H1 as [Hv Hr]. cbn [app].
      rewrite Hv. cbn [andb]. now apply IH.
    + now apply IH.
Qed.

Definition cwt_P (t : ty) : Prop := forall v, wt t v = true -> wt (canon t) (canon_val t v) = true.
Definition cwt_P0 (fs : fields) : Prop :=
  forall vs, wt_fields fs vs = true -> wt_fields (canon_fields fs) (canon_vals fs vs) = true.

Lemma canon_wt_mut : (forall t, cwt_P t) /\ (forall fs, cwt_P0 fs).
Proof.
  apply ty_fields_ind; unfold cwt_P, cwt_P0; try (intros; assumption).
  - intros t IH v Hw. cbn [wt canon canon_val] in *.
    destruct v as [| | |l]; try discriminate. apply andb_true_iff in Hw as [Hl Hall].
    unfold len in *. rewrite map_length, Hl. cbn [andb].
    rewrite forallb_forall in *. intros x Hx. apply in_map_iff in Hx as (y & <- & Hy). apply IH. now apply Hall.
  - intros n t IH v Hw. cbn [wt canon canon_val] in *.
    destruct v as [| | |l]; try discriminate. apply andb_true_iff in Hw as [Hl Hall].
    unfold len in *. rewrite map_length, Hl. cbn [andb].
    rewrite forallb_forall in *. intros x Hx. apply in_map_iff in Hx as (y & <- & Hy). apply IH. now apply Hall.
  - intros nm fs IH v Hw. cbn [wt canon canon_val] in *.
    destruct v as [| | |l]; try discriminate. now apply IH.
  - intros vs _. reflexivity.
  - intros i t IHt r IHr vs Hw. cbn [wt_fields canon_fields canon_vals] in *.
    destruct (f_ser i); [|now apply IHr].
    destruct vs as [|v vs]; [discriminate|]. apply andb_true_iff in Hw as [Hv Hr].
    assert (Hdef : wt_fields (FCons (rfield (jname i)) (canon t) (canon_fields r)) (canon_val t v :: canon_vals r vs) = true).
    { cbn [wt_fields rfield f_ser]. now rewrite (IHt _ Hv), (IHr _ Hr). }
    destruct t as [p| |nm p|t'|n t'|nm fs']; try exact Hdef.
    destruct (f_emb i); [|exact Hdef].
    cbn [wt] in Hv. destruct v as [| | |l]; try discriminate.
    specialize (IHt (VList l) Hv). cbn [canon canon_val wt] in IHt.
    apply wt_fields_app; [exact IHt | now apply IHr].
Qed.

Lemma canon_wt t v : wt t v = true -> wt (canon t) (canon_val t v) = true.
Proof. apply (proj1 canon_wt_mut). Qed.
