(* Abi_proofs.v — proofs for C29 (in progress). *)
From Coq Require Import List NArith ZArith Bool String Ascii Lia.
Import ListNotations.
From HV Require Import Lib.Bytes Model.Abi.

Lemma fapp_nil_r fs : fapp fs FNil = fs.
Proof. induction fs as [|i t r IH]; cbn [fapp]; [reflexivity | now rewrite IH]. Qed.
