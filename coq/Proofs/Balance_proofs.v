(* Proofs about Model/Balance.v: format/parse round trip and the exact behaviour of parse_balance. *)
From Coq Require Import List Arith NArith Bool Lia ZifyN ZifyNat ZifyBool.
Import ListNotations.
From HV Require Import Model.Balance.
Local Open Scope N_scope.

(* ---- digit strings and their values ------------------------------------------------------- *)

Definition is_digit (c : N) : Prop := 48 <= c /\ c <= 57.
Definition all_digits (s : text) : Prop := Forall is_digit s.

(* Horner value of a digit string, starting from n *)
Fixpoint dval_from (n : N) (s : text) : N :=
  match s with
  | [] => n
  | c :: r => dval_from (n * 10 + (c - 48)) r
  end.
Definition dval (s : text) : N := dval_from 0 s.

Fixpoint p10 (k : nat) : N := match k with O => 1 | S k' => 10 * p10 k' end.

Lemma p10_pow k : p10 k = 10 ^ N.of_nat k.
Proof.
  induction k as [|k IH]; [reflexivity|].
  rewrite Nat2N.inj_succ, N.pow_succ_r', <- IH. reflexivity.
Qed.

Lemma p10_pos k : 0 < p10 k.
Proof. induction k as [|k IH]; cbn [p10]; lia. Qed.

Lemma p10_add a b : p10 (a + b) = p10 a * p10 b.
Proof. induction a as [|a IH]; cbn [p10 Nat.add]; [lia | rewrite IH; lia]. Qed.

Lemma p10_mono a b : (a <= b)%nat -> p10 a <= p10 b.
Proof.
  intros H. replace b with (a + (b - a))%nat by lia. rewrite p10_add.
  pose proof (p10_pos (b - a)). pose proof (p10_pos a). nia.
Qed.

Lemma p10_9 : p10 9 = 1000000000.
Proof. reflexivity. Qed.

Lemma dval_from_split s : forall n, dval_from n s = n * p10 (length s) + dval s.
Proof.
  induction s as [|c r IH]; intros n.
  - cbn. lia.
  - unfold dval. cbn [dval_from length p10]. rewrite (IH (n * 10 + (c - 48))), (IH (0 * 10 + (c - 48))).
    lia.
Qed.

Lemma dval_cons c r : dval (c :: r) = (c - 48) * p10 (length r) + dval r.
Proof. unfold dval at 1. cbn [dval_from]. rewrite dval_from_split. lia. Qed.

Lemma dval_app a b : dval (a ++ b) = dval a * p10 (length b) + dval b.
Proof.
  induction a as [|c a IH]; [cbn [app]; change (dval []) with 0; lia|].
  cbn [app]. rewrite !dval_cons, IH, app_length, p10_add. lia.
Qed.

Lemma dval_bound s : all_digits s -> dval s < p10 (length s).
Proof.
  induction s as [|c r IH]; intros H; [cbn; lia|].
  inversion H as [|c' r' [Hc1 Hc2] Hr]; subst.
  rewrite dval_cons. cbn [length p10]. specialize (IH Hr).
  assert (Hm : (c - 48) * p10 (length r) <= 9 * p10 (length r)) by (apply N.mul_le_mono_r; lia).
  lia.
Qed.

Lemma dval_from_ge s : forall n, n <= dval_from n s.
Proof.
  induction s as [|c r IH]; intros n; cbn [dval_from]; [lia|].
  specialize (IH (n * 10 + (c - 48))). lia.
Qed.

Lemma dval_zeros k s : dval (repeat 48 k ++ s) = dval s.
Proof.
  induction k as [|k IH]; [reflexivity|].
  cbn [repeat app]. rewrite dval_cons, IH. lia.
Qed.

Lemma all_digits_zeros k : all_digits (repeat 48 k).
Proof. induction k as [|k IH]; constructor; [unfold is_digit; lia | exact IH]. Qed.

Lemma mul10_spec k : forall v, mul10 k v = v * p10 k.
Proof.
  induction k as [|k IH]; intros v; cbn [mul10 p10]; [lia|]. rewrite IH. lia.
Qed.

(* ---- strconv.ParseUint -------------------------------------------------------------------- *)

Lemma digit_test c : is_digit c -> (48 <=? c) && (c <=? 57) = true.
Proof. intros [H1 H2]. apply andb_true_iff. split; apply N.leb_le; assumption. Qed.

Lemma digit_test_inv c : (48 <=? c) && (c <=? 57) = true -> is_digit c.
Proof. intros H. apply andb_true_iff in H. destruct H as [H1 H2]. apply N.leb_le in H1, H2. split; assumption. Qed.

Lemma parse_uint_loop_digits s : forall n,
  all_digits s -> n < two64 ->
  parse_uint_loop s n = if dval_from n s <? two64 then POk (dval_from n s) else PRange.
Proof.
  unfold two64. induction s as [|c r IH]; intros n Hd Hn.
  - cbn [parse_uint_loop dval_from]. destruct (N.ltb_spec n 18446744073709551616); [reflexivity | lia].
  - inversion Hd as [|c' r' Hc Hr]; subst.
    cbn [parse_uint_loop dval_from]. rewrite (digit_test c Hc). destruct Hc as [Hc1 Hc2].
    pose proof (dval_from_ge r (n * 10 + (c - 48))) as Hge.
    unfold cutoff, two64.
    destruct (N.leb_spec 1844674407370955162 n) as [Hcut|Hcut].
    + destruct (N.ltb_spec (dval_from (n * 10 + (c - 48)) r) 18446744073709551616); [lia | reflexivity].
    + destruct (N.leb_spec 18446744073709551616 (n * 10 + (c - 48))) as [Hov|Hov].
      * destruct (N.ltb_spec (dval_from (n * 10 + (c - 48)) r) 18446744073709551616); [lia | reflexivity].
      * apply IH; [exact Hr | exact Hov].
Qed.

Lemma parse_uint_loop_ok s : forall n v, parse_uint_loop s n = POk v -> all_digits s.
Proof.
  induction s as [|c r IH]; intros n v H; [constructor|].
  cbn [parse_uint_loop] in H.
  destruct ((48 <=? c) && (c <=? 57)) eqn:E; [|discriminate H].
  constructor; [apply digit_test_inv; exact E|].
  destruct (cutoff <=? n); [discriminate H|].
  destruct (two64 <=? n * 10 + (c - 48)); [discriminate H|].
  exact (IH _ _ H).
Qed.

Lemma parse_uint_digits s :
  all_digits s ->
  parse_uint s = match s with
                 | [] => PSyntax
                 | _ => if dval s <? two64 then POk (dval s) else PRange
                 end.
Proof.
  intros H. destruct s as [|c r]; [reflexivity|].
  unfold parse_uint. apply parse_uint_loop_digits; [exact H | unfold two64; lia].
Qed.

Lemma parse_uint_ok s v : parse_uint s = POk v -> all_digits s /\ s <> [].
Proof.
  destruct s as [|c r]; [discriminate|]. unfold parse_uint. intros H.
  split; [exact (parse_uint_loop_ok _ _ _ H) | discriminate].
Qed.

(* ---- fmt %d ------------------------------------------------------------------------------- *)

Lemma log2_div10 n : 10 <= n -> N.log2 (n / 10) < N.log2 n.
Proof.
  intros Hn.
  assert (H1 : n / 10 <= n / 2) by (apply N.div_le_compat_l; lia).
  apply N.log2_le_mono in H1.
  assert (H2 : N.log2 (n / 2) = N.log2 n - 1).
  { change 2 with (2 ^ 1). rewrite <- N.shiftr_div_pow2. apply N.log2_shiftr. }
  assert (H3 : 3 <= N.log2 n) by (change 3 with (N.log2 10); apply N.log2_le_mono; exact Hn).
  lia.
Qed.

(* what digits_fuel produces in front of acc *)
Lemma digits_fuel_spec f : forall n acc,
  (N.to_nat (N.log2 n) < f)%nat ->
  exists ds, digits_fuel f n acc = ds ++ acc /\ all_digits ds /\ ds <> [] /\ dval ds = n /\
             (length ds = 1%nat \/ p10 (length ds - 1) <= n).
Proof.
  induction f as [|f IH]; intros n acc Hf; [lia|].
  cbn [digits_fuel]. destruct (N.ltb_spec n 10) as [Hlt|Hge].
  - exists [48 + n]. split; [reflexivity|]. split; [constructor; [unfold is_digit; lia | constructor]|].
    split; [discriminate|]. split; [|left; reflexivity].
    rewrite dval_cons. cbn [length p10]. change (dval []) with 0. lia.
  - pose proof (log2_div10 n Hge) as Hlog.
    destruct (IH (n / 10) ((48 + n mod 10) :: acc) ltac:(lia)) as (ds & Heq & Hd & Hne & Hv & Hlen).
    exists (ds ++ [48 + n mod 10]). pose proof (N.mod_lt n 10 ltac:(lia)) as Hm.
    split; [rewrite Heq, <- app_assoc; reflexivity|].
    split; [apply Forall_app; split; [exact Hd | constructor; [unfold is_digit; lia | constructor]]|].
    split; [destruct ds; discriminate|].
    split.
    + rewrite dval_app, Hv, dval_cons. cbn [length p10]. change (dval []) with 0.
      pose proof (N.div_mod n 10 ltac:(lia)). lia.
    + right. rewrite app_length. cbn [length]. replace (length ds + 1 - 1)%nat with (length ds) by lia.
      pose proof (N.div_mod n 10 ltac:(lia)) as Hdm.
      destruct Hlen as [H1|Hp].
      * rewrite H1. cbn [p10]. lia.
      * destruct (length ds) as [|k] eqn:El; [destruct ds; [contradiction | discriminate]|].
        cbn [p10]. replace (S k - 1)%nat with k in Hp by lia. lia.
Qed.

Lemma digits_spec n :
  all_digits (digits n) /\ digits n <> [] /\ dval (digits n) = n /\
  (length (digits n) = 1%nat \/ p10 (length (digits n) - 1) <= n).
Proof.
  unfold digits.
  destruct (digits_fuel_spec (S (N.to_nat (N.log2 n))) n [] ltac:(lia)) as (ds & Heq & H).
  rewrite Heq, app_nil_r. exact H.
Qed.

Lemma digits_length_le n k : n < p10 k -> (1 <= k)%nat -> (length (digits n) <= k)%nat.
Proof.
  intros Hn Hk. destruct (digits_spec n) as (_ & _ & _ & [H1|Hp]); [lia|].
  destruct (Nat.le_gt_cases (length (digits n)) k) as [|Hgt]; [assumption|].
  exfalso. assert (Hm : p10 k <= p10 (length (digits n) - 1)) by (apply p10_mono; lia). lia.
Qed.

(* ---- strings.Cut -------------------------------------------------------------------------- *)

Lemma digit_not_dot c : is_digit c -> (c =? 46) = false.
Proof. intros [H1 H2]. apply N.eqb_neq. lia. Qed.

Lemma cut_dot_digits_dot w f : all_digits w -> cut_dot (w ++ 46 :: f) = (w, f).
Proof.
  induction w as [|c w IH]; intros H; [reflexivity|].
  inversion H as [|c' w' Hc Hw]; subst.
  cbn [app cut_dot]. rewrite (digit_not_dot c Hc), (IH Hw). reflexivity.
Qed.

Lemma cut_dot_digits w : all_digits w -> cut_dot w = (w, []).
Proof.
  induction w as [|c w IH]; intros H; [reflexivity|].
  inversion H as [|c' w' Hc Hw]; subst.
  cbn [cut_dot]. rewrite (digit_not_dot c Hc), (IH Hw). reflexivity.
Qed.

(* the input is the whole part, optionally followed by '.' and the fractional part *)
Lemma cut_dot_shape s : forall w f, cut_dot s = (w, f) -> (s = w /\ f = []) \/ s = w ++ 46 :: f.
Proof.
  induction s as [|c r IH]; intros w f H.
  - injection H as <- <-. left. split; reflexivity.
  - cbn [cut_dot] in H. destruct (N.eqb_spec c 46) as [-> | Hc].
    + injection H as <- <-. right. reflexivity.
    + destruct (cut_dot r) as [a b] eqn:E. injection H as <- <-.
      destruct (IH a b eq_refl) as [[-> ->] | ->]; [left; split; reflexivity | right; reflexivity].
Qed.

(* ---- ParseBalance ------------------------------------------------------------------------- *)

(* the body of parse_balance after the whole part has been parsed *)
Definition parse_rest (whole_units : N) (frac : text) : pres :=
  if Nat.ltb decimals (length frac) then PSyntax
  else
    let frac_res :=
      match frac with
      | [] => POk 0
      | _ => match parse_uint frac with
             | POk f => POk (mul10 (decimals - length frac) f)
             | e => e
             end
      end in
    match frac_res with
    | PSyntax => PSyntax
    | PRange => PRange
    | POk frac_units =>
        if (max_u64 - frac_units) / unit_ <? whole_units then PRange
        else POk (whole_units * unit_ + frac_units)
    end.

(* the body of parse_balance after strings.Cut *)
Definition parse_parts (whole0 frac : text) : pres :=
  let whole := match whole0, frac with
               | [], _ :: _ => [48]
               | _, _ => whole0
               end in
  match parse_uint whole with
  | PSyntax => PSyntax
  | PRange => PRange
  | POk whole_units => parse_rest whole_units frac
  end.

Lemma parse_balance_parts s : parse_balance s = parse_parts (fst (cut_dot s)) (snd (cut_dot s)).
Proof. unfold parse_balance. destruct (cut_dot s) as [w f]. reflexivity. Qed.

(* the exact amount denoted by digit strings w "." f *)
Definition amount (w f : text) : N := dval w * unit_ + dval f * p10 (9 - length f).

(* the exact result on digit strings *)
Definition parts_result (w f : text) : pres :=
  match w, f with
  | [], [] => PSyntax
  | _, _ =>
      if two64 <=? dval w then PRange
      else if Nat.ltb 9 (length f) then PSyntax
      else if amount w f <? two64 then POk (amount w f) else PRange
  end.

Lemma overflow_check w f :
  f < unit_ ->
  ((max_u64 - f) / unit_ <? w) = negb (w * unit_ + f <? two64).
Proof.
  unfold unit_, max_u64, two64. intros Hf.
  destruct (N.ltb_spec ((18446744073709551615 - f) / 1000000000) w) as [H|H];
  destruct (N.ltb_spec (w * 1000000000 + f) 18446744073709551616) as [H'|H']; try reflexivity; exfalso.
  - assert (Hw : w <= (18446744073709551615 - f) / 1000000000).
    { apply N.div_le_lower_bound; lia. }
    lia.
  - assert (Hw : (18446744073709551615 - f) / 1000000000 < w).
    { apply N.div_lt_upper_bound; lia. }
    lia.
Qed.

Lemma frac_units_bound f :
  all_digits f -> (length f <= 9)%nat -> dval f * p10 (9 - length f) < unit_.
Proof.
  intros Hd Hl. pose proof (dval_bound f Hd) as Hb.
  change unit_ with (p10 9). replace 9%nat with (length f + (9 - length f))%nat at 2 by lia.
  rewrite p10_add. apply N.mul_lt_mono_pos_r; [apply p10_pos | exact Hb].
Qed.

Lemma parse_rest_exact wu f :
  all_digits f ->
  parse_rest wu f =
    if Nat.ltb 9 (length f) then PSyntax
    else let v := wu * unit_ + dval f * p10 (9 - length f) in
         if v <? two64 then POk v else PRange.
Proof.
  intros Hf. unfold parse_rest, decimals.
  destruct (Nat.ltb_spec 9 (length f)) as [Hlong|Hshort]; [reflexivity|].
  assert (Hfu : dval f * p10 (9 - length f) < unit_) by (apply frac_units_bound; [exact Hf | lia]).
  cbv zeta.
  destruct f as [|c fr].
  - change (dval []) with 0 in *. rewrite N.mul_0_l.
    rewrite (overflow_check wu 0 ltac:(unfold unit_; lia)).
    destruct (wu * unit_ + 0 <? two64); reflexivity.
  - set (f := c :: fr) in *.
    assert (Hpu : parse_uint f = POk (dval f)).
    { rewrite (parse_uint_digits f Hf). unfold f at 1.
      pose proof (dval_bound f Hf) as Hb.
      assert (Hp : p10 (length f) <= p10 9) by (apply p10_mono; lia).
      rewrite p10_9 in Hp. unfold two64.
      destruct (N.ltb_spec (dval f) 18446744073709551616); [reflexivity | lia]. }
    rewrite Hpu, mul10_spec.
    rewrite (overflow_check wu _ Hfu).
    destruct (wu * unit_ + dval f * p10 (9 - length f) <? two64); reflexivity.
Qed.

Lemma parse_parts_exact w f :
  all_digits w -> all_digits f -> parse_parts w f = parts_result w f.
Proof.
  intros Hw Hf. unfold parse_parts, parts_result.
  destruct w as [|c wr].
  - destruct f as [|d fr]; [reflexivity|].
    (* ".f": the whole part is read as "0" *)
    change (parse_uint [48]) with (POk 0). cbv beta iota.
    rewrite (parse_rest_exact 0 (d :: fr) Hf). unfold amount. change (dval []) with 0.
    unfold two64. cbn [N.leb N.compare]. reflexivity.
  - cbv beta iota zeta.
    assert (Hpu : parse_uint (c :: wr) = if dval (c :: wr) <? two64 then POk (dval (c :: wr)) else PRange).
    { rewrite (parse_uint_digits (c :: wr) Hw). reflexivity. }
    rewrite Hpu.
    destruct (N.ltb_spec (dval (c :: wr)) two64) as [Hlt|Hge];
      destruct (N.leb_spec two64 (dval (c :: wr))) as [Hle|Hnle]; try lia; [|reflexivity].
    rewrite (parse_rest_exact (dval (c :: wr)) f Hf). reflexivity.
Qed.

Lemma parse_parts_ok w f v : parse_parts w f = POk v -> all_digits w /\ all_digits f.
Proof.
  unfold parse_parts. intros H.
  set (whole := match w, f with [], _ :: _ => [48] | _, _ => w end) in H.
  destruct (parse_uint whole) as [wu| |] eqn:Ew; try discriminate H.
  apply parse_uint_ok in Ew. destruct Ew as [Hwd Hwne].
  assert (Hw : all_digits w).
  { subst whole. destruct w; [constructor|]. destruct f; exact Hwd. }
  split; [exact Hw|].
  unfold parse_rest in H.
  destruct (Nat.ltb decimals (length f)); [discriminate H|].
  destruct f as [|c fr]; [constructor|].
  destruct (parse_uint (c :: fr)) as [fu| |] eqn:Ef; try discriminate H.
  apply parse_uint_ok in Ef. exact (proj1 Ef).
Qed.

(* ---- the three results about parse_balance ------------------------------------------------ *)

Lemma parse_balance_dot_exact w f :
  all_digits w -> all_digits f -> parse_balance (w ++ 46 :: f) = parts_result w f.
Proof.
  intros Hw Hf. rewrite parse_balance_parts, (cut_dot_digits_dot w f Hw). cbn [fst snd].
  apply parse_parts_exact; assumption.
Qed.

Lemma parse_balance_int_exact w :
  all_digits w -> parse_balance w = parts_result w [].
Proof.
  intros Hw. rewrite parse_balance_parts, (cut_dot_digits w Hw). cbn [fst snd].
  apply parse_parts_exact; [assumption | constructor].
Qed.

Lemma parts_result_ok w f v :
  parts_result w f = POk v ->
  (w <> [] \/ f <> []) /\ (length f <= 9)%nat /\ v = amount w f /\ v < two64.
Proof.
  unfold parts_result. intros H.
  assert (Hne : w <> [] \/ f <> []).
  { destruct w; [destruct f; [discriminate H | right; discriminate] | left; discriminate]. }
  assert (H' : (if two64 <=? dval w then PRange
                else if Nat.ltb 9 (length f) then PSyntax
                else if amount w f <? two64 then POk (amount w f) else PRange) = POk v).
  { destruct w; destruct f; try exact H. discriminate H. }
  clear H. destruct (two64 <=? dval w); [discriminate H'|].
  destruct (Nat.ltb_spec 9 (length f)); [discriminate H'|].
  destruct (N.ltb_spec (amount w f) two64); [|discriminate H'].
  injection H' as <-. repeat split; try assumption; lia.
Qed.

Lemma parse_balance_sound s v :
  parse_balance s = POk v ->
  exists w f, (s = w /\ f = [] \/ s = w ++ 46 :: f) /\
              all_digits w /\ all_digits f /\ (w <> [] \/ f <> []) /\ (length f <= 9)%nat /\
              v = amount w f /\ v < two64.
Proof.
  intros H. rewrite parse_balance_parts in H.
  destruct (cut_dot s) as [w f] eqn:Ec. cbn [fst snd] in H.
  destruct (parse_parts_ok w f v H) as [Hw Hf].
  rewrite (parse_parts_exact w f Hw Hf) in H.
  exists w, f. split; [exact (cut_dot_shape s w f Ec)|].
  split; [exact Hw|]. split; [exact Hf|]. exact (parts_result_ok w f v H).
Qed.

Lemma format_parse b : b < two64 -> parse_balance (format_balance b) = POk b.
Proof.
  unfold two64. intros Hb. unfold format_balance.
  destruct (digits_spec (b / unit_)) as (Hwd & Hwne & Hwv & _).
  destruct (digits_spec (b mod unit_)) as (Hfd & Hfne & Hfv & _).
  assert (Hmod : b mod unit_ < unit_) by (apply N.mod_lt; unfold unit_; lia).
  assert (Hfl : (length (digits (b mod unit_)) <= 9)%nat).
  { apply digits_length_le; [rewrite p10_9; exact Hmod | lia]. }
  set (W := digits (b / unit_)) in *. set (F := digits (b mod unit_)) in *.
  unfold pad_zeros, decimals. set (k := (9 - length F)%nat).
  assert (Hfrac : all_digits (repeat 48 k ++ F)) by (apply Forall_app; split; [apply all_digits_zeros | exact Hfd]).
  assert (Hlen : length (repeat 48 k ++ F) = 9%nat) by (rewrite app_length, repeat_length; subst k; lia).
  cbn [app]. rewrite (parse_balance_dot_exact W _ Hwd Hfrac).
  unfold parts_result.
  assert (Hres : forall X : pres, match W, repeat 48 k ++ F with [], [] => PSyntax | _, _ => X end = X).
  { intros X. destruct W; [contradiction | reflexivity]. }
  rewrite Hres. unfold amount. rewrite Hlen, Hwv, dval_zeros, Hfv. cbn [Nat.sub p10]. rewrite N.mul_1_r.
  pose proof (N.div_mod b unit_ ltac:(unfold unit_; lia)) as Hdm.
  assert (Hq : b / unit_ <= b) by (apply N.div_le_upper_bound; unfold unit_; lia).
  unfold two64. destruct (N.leb_spec 18446744073709551616 (b / unit_)) as [|_]; [lia|].
  destruct (Nat.ltb_spec 9 9) as [|_]; [lia|].
  replace (b / unit_ * unit_ + b mod unit_) with b by lia.
  destruct (N.ltb_spec b 18446744073709551616); [reflexivity | lia].
Qed.

Lemma amount_pow w f :
  amount w f = dval w * 10 ^ 9 + dval f * 10 ^ (9 - N.of_nat (length f)).
Proof.
  unfold amount. rewrite p10_pow, Nat2N.inj_sub. reflexivity.
Qed.
