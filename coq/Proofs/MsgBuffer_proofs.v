(* Proofs about Model/MsgBuffer.v: batch codec round trip, size accounting, and the delivery
   invariants of the buffer over all operation sequences. *)
From Coq Require Import List Arith NArith Bool Lia ZifyN ZifyNat ZifyBool.
Import ListNotations.
From HV Require Import Lib.Bytes Lib.Varint Model.MsgBuffer.
Local Open Scope N_scope.

(* ---- batch codec -------------------------------------------------------------------------- *)

Definition small_msgs (ms : list bytes) : Prop := Forall (fun m => blen m < 2 ^ 64) ms.

Lemma encode_batch_length ms : N.of_nat (length (encode_batch ms)) = batch_size ms.
Proof.
  induction ms as [|m r IH]; [reflexivity|].
  cbn [encode_batch batch_size length]. rewrite !app_length, Nat2N.inj_succ, !Nat2N.inj_add, IH.
  rewrite uvarint_enc_length. unfold entry_size, blen. lia.
Qed.

Lemma batch_size_app a b : batch_size (a ++ b) = batch_size a + batch_size b.
Proof. induction a as [|m r IH]; cbn [app batch_size]; [reflexivity | rewrite IH; lia]. Qed.

Lemma firstn_len_app (m rest : bytes) : firstn (length m) (m ++ rest) = m.
Proof.
  replace (length m) with (length m + 0)%nat by lia. rewrite firstn_app_2. cbn [firstn]. apply app_nil_r.
Qed.

Lemma skipn_len_app (m rest : bytes) : skipn (length m) (m ++ rest) = rest.
Proof.
  rewrite skipn_app, skipn_all, Nat.sub_diag. reflexivity.
Qed.

Lemma blen_app_ge (m rest : bytes) : (blen (m ++ rest) <? blen m) = false.
Proof. apply N.ltb_ge. unfold blen. rewrite app_length. lia. Qed.

Lemma read_bytes_enc m rest :
  blen m < 2 ^ 64 -> read_bytes (uvarint_enc (blen m) ++ m ++ rest) = Some (m, rest).
Proof.
  intros Hm. unfold read_bytes. rewrite (read_uint_enc 64 (blen m) (m ++ rest) ltac:(lia) Hm).
  rewrite blen_app_ge. unfold blen. rewrite Nat2N.id, firstn_len_app, skipn_len_app. reflexivity.
Qed.

Lemma count_bytes_fuel_enc ms : forall f,
  small_msgs ms -> (length (encode_batch ms) < f)%nat ->
  count_bytes_fuel f (encode_batch ms) = Some (N.of_nat (length ms)).
Proof.
  induction ms as [|m r IH]; intros f Hs Hf.
  - destruct f; reflexivity.
  - destruct f as [|f]; [lia|].
    inversion Hs as [|m' r' Hm Hr]; subst.
    cbn [encode_batch count_bytes_fuel]. unfold batch_tag at 1. rewrite N.eqb_refl.
    rewrite (read_uint_enc 64 (blen m) (m ++ encode_batch r) ltac:(lia) Hm).
    rewrite blen_app_ge. unfold blen at 1. rewrite Nat2N.id, skipn_len_app.
    cbn [encode_batch length] in Hf. rewrite !app_length in Hf.
    rewrite (IH f Hr ltac:(lia)). cbn [length]. rewrite Nat2N.inj_succ. f_equal. apply N.add_1_r.
Qed.

Lemma read_entries_enc ms :
  small_msgs ms -> read_entries (length ms) (encode_batch ms) = Some (ms, []).
Proof.
  induction ms as [|m r IH]; intros Hs; [reflexivity|].
  inversion Hs as [|m' r' Hm Hr]; subst.
  cbn [length read_entries encode_batch skipn].
  rewrite (read_bytes_enc m (encode_batch r) Hm), (IH Hr). reflexivity.
Qed.

Lemma parse_encode ms : small_msgs ms -> parse_batch (encode_batch ms) = Some ms.
Proof.
  intros Hs. destruct ms as [|m0 rest]; [reflexivity|].
  inversion Hs as [|m' r' Hm Hr]; subst.
  cbn [encode_batch]. unfold parse_batch.
  set (X := uvarint_enc (blen m0) ++ m0 ++ encode_batch rest).
  assert (Htag : read_uint 32 (batch_tag :: X) = UvOk 10 X).
  { change (batch_tag :: X) with (uvarint_enc 10 ++ X). apply read_uint_enc; [lia | reflexivity]. }
  rewrite Htag. cbv beta iota zeta.
  change (10 mod 8) with 2. change (10 / 8) with 1. cbn [N.eqb Pos.eqb orb negb].
  subst X. rewrite (read_bytes_enc m0 (encode_batch rest) Hm).
  unfold count_bytes. rewrite (count_bytes_fuel_enc rest (S (length (encode_batch rest))) Hr ltac:(lia)).
  rewrite Nat2N.id, (read_entries_enc rest Hr). reflexivity.
Qed.

(* ---- one step ----------------------------------------------------------------------------- *)

Definition qlen (s : st) : N := N.of_nat (length (queue s)).

Record inv (cap max : N) (s : st) : Prop := mkinv {
  inv_size : psize s = batch_size (pending s);
  inv_max : psize s <= max;
  inv_closed : closed s = true -> pending s = [];
  inv_queue : qlen s <= cap
}.

Lemma inv_init cap max : inv cap max init.
Proof. split; cbn; try lia; reflexivity. Qed.

Ltac step_destruct H :=
  unfold step, clear_pending in H;
  repeat match type of H with
         | context [if ?c then _ else _] => let E := fresh "E" in destruct c eqn:E
         | context [match pending ?s with _ => _ end] => let E := fresh "Ep" in destruct (pending s) eqn:E
         | context [match queue ?s with _ => _ end] => let E := fresh "Eq" in destruct (queue s) eqn:E
         end;
  inversion H; subst; clear H.

Lemma step_inv cap max s o s1 ou :
  inv cap max s -> step cap max s o = (s1, ou) -> inv cap max s1.
Proof.
  intros [Hsz Hmax Hcl Hq] H. unfold qlen in *. destruct o; step_destruct H;
    try (split; cbn [pending psize queue closed qlen]; unfold qlen; cbn [pending psize queue closed];
         try assumption; try reflexivity; try lia; try discriminate; fail).
  all: split; unfold qlen; cbn [pending psize queue closed app batch_size]; rewrite ?app_length; cbn [length].
  all: try (intros Hc; congruence).
  all: try apply N.ltb_ge in E0; try apply N.ltb_ge in E1; try apply N.ltb_lt in E2.
  all: rewrite ?batch_size_app; cbn [batch_size]; try lia.
  all: try assumption.
  all: try (intros _; apply Hcl; reflexivity).
  all: try (intros Hc; congruence).
  all: try (cbn [length] in Hq; lia).
  all: try (match goal with He : pending _ = [] |- _ => rewrite He end; exact Hsz).
Qed.

(* what a flush carries *)
Lemma step_flush cap max s o s1 ou b enq :
  step cap max s o = (s1, ou) -> o_flush ou = Some (b, enq) ->
  b = pending s /\ enq = (qlen s <? cap) /\ closed s = false.
Proof.
  intros H Hf. unfold qlen. destruct o; step_destruct H; cbn [o_flush] in Hf; try discriminate Hf;
    injection Hf as <- <-; repeat split; try reflexivity; try assumption; try congruence.
Qed.

(* messages: flushed ++ pending' = pending ++ accepted *)
Lemma step_messages cap max s o s1 ou :
  step cap max s o = (s1, ou) ->
  concat (map fst (flush_of (s, o, ou))) ++ pending s1 = pending s ++ accepted_of (s, o, ou).
Proof.
  intros H. destruct o; step_destruct H; unfold flush_of, accepted_of;
    cbn [snd o_flush o_code map concat fst pending app N.eqb c_ok c_closed c_too_large Pos.eqb];
    rewrite ?app_nil_r; try reflexivity.
  all: try assumption.
  all: try (match goal with He : pending _ = _ |- _ => rewrite He end; rewrite ?app_nil_r; reflexivity).
Qed.

(* queue: received ++ queue' = queue ++ encodings of the batches enqueued *)
Lemma step_queue cap max s o s1 ou :
  step cap max s o = (s1, ou) ->
  recv_of (s, o, ou) ++ queue s1 = queue s ++ map encode_batch (enqueued (flush_of (s, o, ou))).
Proof.
  intros H. destruct o; step_destruct H; unfold recv_of, flush_of, enqueued;
    cbn [snd fst o_flush o_recv map filter queue app]; rewrite ?app_nil_r; try reflexivity.
  all: try assumption.
  all: try (match goal with He : queue _ = _ |- _ => rewrite He end; reflexivity).
Qed.

Lemma step_send_code cap max s m s1 ou :
  step cap max s (OSend m) = (s1, ou) ->
  (o_code ou = c_ok <-> closed s = false /\ entry_size m <= max).
Proof.
  intros H. step_destruct H; cbn [o_code]; unfold c_ok, c_closed, c_too_large;
    try apply N.ltb_lt in E0; try apply N.ltb_ge in E0; split; try discriminate; try lia; try tauto.
  all: intros [? ?]; try discriminate; try lia.
Qed.

Lemma step_timer cap max s s1 ou :
  step cap max s OTimer = (s1, ou) -> closed s = false -> pending s1 = [].
Proof.
  intros H Hc. step_destruct H; cbn [pending]; try congruence; reflexivity.
Qed.

Lemma step_close cap max s s1 ou :
  step cap max s OClose = (s1, ou) ->
  closed s1 = true /\ pending s1 = [] \/ (closed s = true /\ s1 = s /\ o_code ou = c_closed).
Proof.
  intros H. step_destruct H; cbn [pending closed o_code];
    first [left; split; reflexivity | right; repeat split; (reflexivity || assumption)].
Qed.

(* ---- runs --------------------------------------------------------------------------------- *)

Lemma run_cons cap max s o r :
  run cap max s (o :: r) =
    let '(s1, ou) := step cap max s o in
    let '(tr, sf) := run cap max s1 r in ((s, o, ou) :: tr, sf).
Proof. reflexivity. Qed.

Lemma run_inv cap max ops : forall s tr sf,
  inv cap max s -> run cap max s ops = (tr, sf) ->
  inv cap max sf /\ Forall (fun e => inv cap max (fst (fst e))) tr.
Proof.
  induction ops as [|o r IH]; intros s tr sf Hi H.
  - injection H as <- <-. split; [exact Hi | constructor].
  - rewrite run_cons in H. destruct (step cap max s o) as [s1 ou] eqn:Es.
    destruct (run cap max s1 r) as [tr1 sf1] eqn:Er. injection H as <- <-.
    destruct (IH s1 tr1 sf1 (step_inv _ _ _ _ _ _ Hi Es) Er) as [H1 H2].
    split; [exact H1 | constructor; [exact Hi | exact H2]].
Qed.

(* every trace entry is a step of the model *)
Lemma run_steps cap max ops : forall s tr sf,
  run cap max s ops = (tr, sf) ->
  Forall (fun e => exists s1, step cap max (fst (fst e)) (snd (fst e)) = (s1, snd e)) tr.
Proof.
  induction ops as [|o r IH]; intros s tr sf H.
  - injection H as <- <-. constructor.
  - rewrite run_cons in H. destruct (step cap max s o) as [s1 ou] eqn:Es.
    destruct (run cap max s1 r) as [tr1 sf1] eqn:Er. injection H as <- <-.
    constructor; [exists s1; exact Es | exact (IH s1 tr1 sf1 Er)].
Qed.

Lemma flushes_cons e tr : flushes (e :: tr) = flush_of e ++ flushes tr.
Proof. reflexivity. Qed.
Lemma accepted_cons e tr : accepted (e :: tr) = accepted_of e ++ accepted tr.
Proof. reflexivity. Qed.
Lemma received_cons e tr : received (e :: tr) = recv_of e ++ received tr.
Proof. reflexivity. Qed.

Lemma enqueued_app a b : enqueued (a ++ b) = enqueued a ++ enqueued b.
Proof. unfold enqueued. rewrite filter_app, map_app. reflexivity. Qed.

Lemma run_messages cap max ops : forall s tr sf,
  run cap max s ops = (tr, sf) ->
  concat (map fst (flushes tr)) ++ pending sf = pending s ++ accepted tr.
Proof.
  induction ops as [|o r IH]; intros s tr sf H.
  - injection H as <- <-. cbn. rewrite app_nil_r. reflexivity.
  - rewrite run_cons in H. destruct (step cap max s o) as [s1 ou] eqn:Es.
    destruct (run cap max s1 r) as [tr1 sf1] eqn:Er. injection H as <- <-.
    rewrite flushes_cons, accepted_cons, map_app, concat_app, <- app_assoc.
    rewrite (IH s1 tr1 sf1 Er), !app_assoc. f_equal. exact (step_messages _ _ _ _ _ _ Es).
Qed.

Lemma run_queue cap max ops : forall s tr sf,
  run cap max s ops = (tr, sf) ->
  received tr ++ queue sf = queue s ++ map encode_batch (enqueued (flushes tr)).
Proof.
  induction ops as [|o r IH]; intros s tr sf H.
  - injection H as <- <-. cbn. rewrite app_nil_r. reflexivity.
  - rewrite run_cons in H. destruct (step cap max s o) as [s1 ou] eqn:Es.
    destruct (run cap max s1 r) as [tr1 sf1] eqn:Er. injection H as <- <-.
    rewrite flushes_cons, received_cons, enqueued_app, map_app, <- app_assoc.
    rewrite (IH s1 tr1 sf1 Er), !app_assoc. f_equal. exact (step_queue _ _ _ _ _ _ Es).
Qed.

(* every flush in a run from a good state: batch = the pending list of a good state *)
Lemma run_flushes cap max ops s tr sf :
  inv cap max s -> run cap max s ops = (tr, sf) ->
  Forall (fun e => forall b enq, o_flush (snd e) = Some (b, enq) ->
                   batch_size b <= max /\ enq = (qlen (fst (fst e)) <? cap) /\ qlen (fst (fst e)) <= cap) tr.
Proof.
  intros Hi H. destruct (run_inv _ _ _ _ _ _ Hi H) as [_ Hinv].
  pose proof (run_steps _ _ _ _ _ _ H) as Hst.
  rewrite Forall_forall in *. intros e Hin b enq Hf.
  destruct (Hst e Hin) as [s1 Hs]. destruct (step_flush _ _ _ _ _ _ _ _ Hs Hf) as (-> & -> & _).
  destruct (Hinv e Hin) as [Hsz Hmax _ Hq]. split; [|split; [reflexivity | exact Hq]].
  rewrite <- Hsz. exact Hmax.
Qed.

Lemma in_flushes tr b enq :
  In (b, enq) (flushes tr) -> exists e, In e tr /\ o_flush (snd e) = Some (b, enq).
Proof.
  unfold flushes. rewrite in_flat_map. intros (e & Hin & Hf). exists e. split; [exact Hin|].
  unfold flush_of in Hf. destruct (o_flush (snd e)) as [p|]; [|contradiction].
  destruct Hf as [->|[]]. reflexivity.
Qed.

(* ---- statements about runs from the initial state ------------------------------------------- *)

Lemma once_in_order cap max ops tr sf :
  run cap max init ops = (tr, sf) ->
  concat (map fst (flushes tr)) ++ pending sf = accepted tr /\
  (closed sf = true -> concat (map fst (flushes tr)) = accepted tr).
Proof.
  intros H. pose proof (run_messages _ _ _ _ _ _ H) as Hm. cbn [pending init app] in Hm.
  split; [exact Hm|]. intros Hc.
  destruct (run_inv _ _ _ _ _ _ (inv_init cap max) H) as [[_ _ Hcl _] _].
  rewrite (Hcl Hc), app_nil_r in Hm. exact Hm.
Qed.

Lemma delivery cap max ops tr sf :
  run cap max init ops = (tr, sf) ->
  received tr ++ queue sf = map encode_batch (enqueued (flushes tr)).
Proof. intros H. exact (run_queue _ _ _ _ _ _ H). Qed.

Lemma drop_only_when_full cap max ops tr sf :
  run cap max init ops = (tr, sf) ->
  forall s o ou b enq, In (s, o, ou) tr -> o_flush ou = Some (b, enq) ->
  (enq = false <-> qlen s = cap) /\ b = pending s.
Proof.
  intros H s o ou b enq Hin Hf.
  pose proof (run_flushes _ _ _ _ _ _ (inv_init cap max) H) as Hfl.
  rewrite Forall_forall in Hfl. destruct (Hfl _ Hin b enq Hf) as (_ & He & Hq). cbn [fst snd] in *.
  pose proof (run_steps _ _ _ _ _ _ H) as Hst. rewrite Forall_forall in Hst.
  destruct (Hst _ Hin) as [s1 Hs]. cbn [fst snd] in Hs.
  destruct (step_flush _ _ _ _ _ _ _ _ Hs Hf) as (Hb & _ & _).
  split; [|exact Hb]. rewrite He. destruct (N.ltb_spec (qlen s) cap); split; intros; try lia; try discriminate; reflexivity.
Qed.

Lemma batch_bounded cap max ops tr sf :
  run cap max init ops = (tr, sf) ->
  forall b enq, In (b, enq) (flushes tr) -> N.of_nat (length (encode_batch b)) <= max.
Proof.
  intros H b enq Hin. destruct (in_flushes _ _ _ Hin) as (e & He & Hf).
  pose proof (run_flushes _ _ _ _ _ _ (inv_init cap max) H) as Hfl.
  rewrite Forall_forall in Hfl. destruct (Hfl _ He b enq Hf) as (Hb & _ & _).
  rewrite encode_batch_length. exact Hb.
Qed.

(* every item ever placed in the queue is the encoding of a flushed batch, within the limit *)
Lemma queue_items_bounded cap max ops tr sf :
  run cap max init ops = (tr, sf) ->
  forall x, In x (received tr ++ queue sf) ->
  exists b, x = encode_batch b /\ N.of_nat (length x) <= max /\ In (b, true) (flushes tr).
Proof.
  intros H x Hin. rewrite (delivery _ _ _ _ _ H) in Hin.
  apply in_map_iff in Hin. destruct Hin as (b & <- & Hb).
  unfold enqueued in Hb. apply in_map_iff in Hb. destruct Hb as ([b' enq] & Hfst & Hf).
  cbn [fst] in Hfst. subst b'. apply filter_In in Hf. destruct Hf as [Hf He]. cbn [snd] in He. subst enq.
  exists b. split; [reflexivity|]. split; [exact (batch_bounded _ _ _ _ _ H b true Hf) | exact Hf].
Qed.

(* ---- Close racing with the timer callback (lock-level model) -------------------------------- *)

Lemma close_timer_deadlock :
  exists acts s, lrun linit acts = Some s /\ l_closer s <> CDone /\ forall a, lstep s a = None.
Proof.
  exists race_schedule. eexists. split; [vm_compute; reflexivity|].
  split; [discriminate|]. intros a. destruct a; reflexivity.
Qed.

(* without the timer firing inside Close, Close returns *)
Lemma close_without_race :
  exists s, lrun linit [ACloseLock; ACloseStop; ADispExit; ACloseReturn] = Some s /\ l_closer s = CDone.
Proof. eexists. split; [vm_compute; reflexivity | reflexivity]. Qed.

(* if the callback completes before Close takes the mutex, Close returns as well *)
Lemma close_after_callback :
  exists s, lrun linit [ATimerFire; AHandlerLock; AHandlerUnlock; ACloseLock; ACloseStop; ADispExit; ACloseReturn] = Some s
            /\ l_closer s = CDone.
Proof. eexists. split; [vm_compute; reflexivity | reflexivity]. Qed.
