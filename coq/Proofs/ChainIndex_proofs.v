(* ChainIndex_proofs.v — invariants and proofs for Model/ChainIndex.v *)
From Coq Require Import List NArith Bool Lia.
From Coq Require Import ZifyN ZifyNat ZifyBool.
Import ListNotations.
From HV Require Import Lib.AssocN Model.ChainIndex.
Local Open Scope N_scope.

(* ------------------------------------------------------------------ accept is total *)
Lemma accept_ok s b : snd (accept s b) = E_ok.
Proof.
  unfold accept. destruct (prunes (s_W s) (bh b)); [|reflexivity].
  destruct (aget (bh b - s_W s) (d_hid (s_db s))); reflexivity.
Qed.

Lemma prunes_spec W h : prunes W h = true <-> W <> 0 /\ W < h.
Proof. unfold prunes. lia. Qed.

Lemma accept_W s b : s_W (fst (accept s b)) = s_W s.
Proof.
  unfold accept. destruct (prunes (s_W s) (bh b)); [|reflexivity].
  destruct (aget (bh b - s_W s) (d_hid (s_db s))); reflexivity.
Qed.

Lemma accept_last s b : get_last (fst (accept s b)) = Some (bh b).
Proof.
  unfold accept, get_last. destruct (prunes (s_W s) (bh b)); [|reflexivity].
  destruct (aget (bh b - s_W s) (d_hid (s_db s))); reflexivity.
Qed.

(* [stored s b]: the block bytes of b sit under b's height *)
Definition stored (s : st) (b : block) : Prop := aget (bh b) (d_blk (s_db s)) = Some b.

Lemma accept_stored_new s b : stored (fst (accept s b)) b.
Proof.
  unfold accept, stored. destruct (prunes (s_W s) (bh b)) eqn:Hp.
  - apply prunes_spec in Hp.
    destruct (aget (bh b - s_W s) (d_hid (s_db s))) as [did|]; cbn [fst s_db d_blk write_block set_last delete_height].
    + rewrite aget_adel_ne by lia. apply aget_aput_eq.
    + apply aget_aput_eq.
  - cbn [fst s_db d_blk write_block set_last]. apply aget_aput_eq.
Qed.

(* ------------------------------------------------------------------ the window *)
Definition inwinP (W last h : N) : Prop := h = 0 \/ W = 0 \/ last < h + W.
Definition last0 (l : option N) : N := match l with Some l => l | None => 0 end.

Lemma accept_stored_old s b' b :
  (bh b' = bh b -> b' = b) -> inwinP (s_W s) (bh b') (bh b) -> stored s b -> stored (fst (accept s b')) b.
Proof.
  intros Hsame Hwin Hst. unfold accept, stored in *.
  assert (Hput : aget (bh b) (aput (bh b') b' (d_blk (s_db s))) = Some b).
  { rewrite aget_aput. destruct (bh b =? bh b') eqn:E; [|exact Hst].
    apply N.eqb_eq in E. rewrite Hsame by congruence. reflexivity. }
  destruct (prunes (s_W s) (bh b')) eqn:Hp.
  - apply prunes_spec in Hp.
    destruct (aget (bh b' - s_W s) (d_hid (s_db s))) as [did|]; cbn [fst s_db d_blk write_block set_last delete_height].
    + rewrite aget_adel_ne; [exact Hput|]. unfold inwinP in Hwin. lia.
    + exact Hput.
  - cbn [fst s_db d_blk write_block set_last]. exact Hput.
Qed.

Lemma save_stored_old s b' b :
  (bh b' = bh b -> b' = b) -> stored s b -> stored (fst (save_historical s b')) b.
Proof.
  intros Hsame Hst. unfold save_historical, stored in *. cbn [fst s_db d_blk write_block].
  rewrite aget_aput. destruct (bh b =? bh b') eqn:E; [|exact Hst].
  apply N.eqb_eq in E. rewrite Hsame by congruence. reflexivity.
Qed.

Lemma save_stored_new s b : stored (fst (save_historical s b)) b.
Proof. unfold save_historical, stored. cbn [fst s_db d_blk write_block]. apply aget_aput_eq. Qed.

(* victims of the startup cleanup *)
Definition vcond (thr h : N) : bool := (h <? thr) && negb (h =? 0).

Lemma victims_In thr d h i : In (h, i) (victims thr d) <-> In (h, i) (d_hid d) /\ vcond thr h = true.
Proof. unfold victims. rewrite filter_In. cbn [fst]. unfold vcond. tauto. Qed.

Lemma memN_vhs thr d h :
  memN h (map fst (victims thr d)) = true <-> vcond thr h = true /\ exists i, aget h (d_hid d) = Some i.
Proof.
  rewrite memN_In, in_map_iff. split.
  - intros [[h' i] [Hfst Hin]]. cbn [fst] in Hfst. subst h'. apply victims_In in Hin. destruct Hin as [Hin Hc].
    split; [exact Hc|]. apply In_keys_aget. apply in_map_iff. exists (h, i). auto.
  - intros [Hc [i Hi]]. exists (h, i). split; [reflexivity|]. apply victims_In. split; [|exact Hc].
    apply aget_In. exact Hi.
Qed.

Lemma memN_vids thr d i : NoDup (akeys (d_hid d)) ->
  memN i (map snd (victims thr d)) = true <-> exists h, vcond thr h = true /\ aget h (d_hid d) = Some i.
Proof.
  intros Hnd. rewrite memN_In, in_map_iff. split.
  - intros [[h i'] [Hsnd Hin]]. cbn [snd] in Hsnd. subst i'. apply victims_In in Hin. destruct Hin as [Hin Hc].
    exists h. split; [exact Hc|]. apply In_aget_nodup; assumption.
  - intros [h [Hc Hi]]. exists (h, i). split; [reflexivity|]. apply victims_In. split; [|exact Hc].
    apply aget_In. exact Hi.
Qed.

Lemma cleanup_last W d : d_last (cleanup W d) = d_last d.
Proof. unfold cleanup. destruct (_ || _); reflexivity. Qed.

Lemma cleanup_stored W s b :
  inwinP W (last0 (get_last s)) (bh b) -> stored s b -> stored (mkSt W (cleanup W (s_db s))) b.
Proof.
  intros Hwin Hst. unfold stored, cleanup in *. cbn [s_db].
  fold (last0 (d_last (s_db s))). unfold get_last in Hwin.
  destruct ((W =? 0) || (last0 (d_last (s_db s)) <=? W)) eqn:E; [exact Hst|].
  cbn [d_blk]. rewrite aget_adel_many.
  destruct (memN (bh b) (map fst (victims (last0 (d_last (s_db s)) - W) (s_db s)))) eqn:Em; [|exact Hst].
  apply memN_vhs in Em. destruct Em as [Hc _]. unfold vcond in Hc. unfold inwinP in Hwin. lia.
Qed.

(* the height stays inside the window at every later accept / restart *)
Fixpoint survives (W : N) (last : option N) (ops : list op) (h : N) : Prop :=
  match ops with
  | [] => True
  | OAccept b :: r => inwinP W (bh b) h /\ survives W (Some (bh b)) r h
  | OSave _ :: r => survives W last r h
  | ORestart W' F :: r =>
      if F =? 0 then survives W last r h else inwinP W' (last0 last) h /\ survives W' last r h
  end.

Lemma run_cons s o ops : run s (o :: ops) = run (fst (step s o)) ops.
Proof. reflexivity. Qed.

Lemma run_app s a b : run s (a ++ b) = run (run s a) b.
Proof. unfold run. apply fold_left_app. Qed.

Lemma stored_run ops : forall s b,
  (forall b', In b' (blocks_of ops) -> bh b' = bh b -> b' = b) ->
  stored s b -> survives (s_W s) (get_last s) ops (bh b) -> stored (run s ops) b.
Proof.
  induction ops as [|o r IH]; intros s b Hsame Hst Hsv; [exact Hst|].
  rewrite run_cons. destruct o as [b'|b'|W' F]; cbn [step survives blocks_of] in *.
  - destruct Hsv as [Hw Hsv]. apply IH.
    + intros x Hx. apply Hsame. right. exact Hx.
    + apply accept_stored_old; [apply Hsame; left; reflexivity | exact Hw | exact Hst].
    + rewrite accept_W, accept_last. exact Hsv.
  - apply IH.
    + intros x Hx. apply Hsame. right. exact Hx.
    + apply save_stored_old; [apply Hsame; left; reflexivity | exact Hst].
    + exact Hsv.
  - unfold restart. destruct (F =? 0); cbn [fst].
    + apply IH; assumption.
    + destruct Hsv as [Hw Hsv]. apply IH; [exact Hsame | apply cleanup_stored; assumption |].
      cbn [s_W]. unfold get_last. cbn [s_db]. rewrite cleanup_last. exact Hsv.
Qed.

(* ------------------------------------------------------------------ the database invariant *)
Definition chain_wf (bs : list block) : Prop :=
  forall b1 b2, In b1 bs -> In b2 bs -> (bh b1 = bh b2 \/ bid b1 = bid b2) -> b1 = b2.

Record Inv (bs : list block) (d : db) : Prop := mkInv {
  inv_blk : forall h b, aget h (d_blk d) = Some b -> In b bs /\ bh b = h;
  inv_hid : forall h i, aget h (d_hid d) = Some i <-> exists b, aget h (d_blk d) = Some b /\ bid b = i;
  inv_idh : forall i h, aget i (d_idh d) = Some h <-> aget h (d_hid d) = Some i;
  inv_nd : NoDup (akeys (d_hid d))
}.

Lemma inv_empty bs : Inv bs empty_db.
Proof.
  constructor; cbn.
  - discriminate.
  - intros h i. split; [discriminate | intros [b [H _]]; discriminate].
  - intros i h. split; discriminate.
  - constructor.
Qed.

Lemma inv_set_last bs h d : Inv bs d -> Inv bs (set_last h d).
Proof. intros [H1 H2 H3 H4]. constructor; assumption. Qed.

Lemma inv_write bs b d : chain_wf bs -> In b bs -> Inv bs d -> Inv bs (write_block b d).
Proof.
  intros Hwf Hb [H1 H2 H3 H4]. constructor; cbn [write_block d_blk d_hid d_idh].
  - intros h x. rewrite aget_aput. destruct (h =? bh b) eqn:E.
    + apply N.eqb_eq in E. intros Hx. injection Hx as <-. auto.
    + apply H1.
  - intros h i. rewrite !aget_aput. destruct (h =? bh b) eqn:E.
    + split.
      * intros Hx. injection Hx as <-. exists b. auto.
      * intros [x [Hx Hi]]. injection Hx as <-. subst. reflexivity.
    + apply H2.
  - intros i h. rewrite !aget_aput. destruct (i =? bid b) eqn:Ei; destruct (h =? bh b) eqn:Eh.
    + apply N.eqb_eq in Ei, Eh. subst. tauto.
    + apply N.eqb_eq in Ei. apply N.eqb_neq in Eh. subst i. split.
      * intros Hx. injection Hx as Hx. congruence.
      * intros Hx. exfalso. apply H2 in Hx. destruct Hx as [x [Hx Hi]]. apply H1 in Hx. destruct Hx as [Hx Hh].
        assert (x = b) by (apply Hwf; auto). subst x. congruence.
    + apply N.eqb_neq in Ei. apply N.eqb_eq in Eh. subst h. split.
      * intros Hx. exfalso. apply H3 in Hx. apply H2 in Hx. destruct Hx as [x [Hx Hi]]. apply H1 in Hx. destruct Hx as [Hx Hh].
        assert (x = b) by (apply Hwf; auto). subst x. congruence.
      * intros Hx. injection Hx as Hx. congruence.
    + apply H3.
  - apply nodup_aput. exact H4.
Qed.

Lemma inv_delete_height bs h did d :
  Inv bs d -> aget h (d_hid d) = Some did -> Inv bs (delete_height h did d).
Proof.
  intros [H1 H2 H3 H4] Hd. constructor; cbn [delete_height d_blk d_hid d_idh].
  - intros k x. rewrite aget_adel. destruct (h =? k); [discriminate | apply H1].
  - intros k i. rewrite !aget_adel. destruct (h =? k).
    + split; [discriminate | intros [x [Hx _]]; discriminate].
    + apply H2.
  - intros i k. rewrite !aget_adel. destruct (did =? i) eqn:Ei; destruct (h =? k) eqn:Eh.
    + split; discriminate.
    + apply N.eqb_eq in Ei. apply N.eqb_neq in Eh. subst i. split; [discriminate|].
      intros Hx. apply H3 in Hx. apply H3 in Hd. congruence.
    + apply N.eqb_neq in Ei. apply N.eqb_eq in Eh. subst k. split; [|discriminate].
      intros Hx. apply H3 in Hx. congruence.
    + apply H3.
  - apply nodup_adel. exact H4.
Qed.

Lemma inv_cleanup bs W d : Inv bs d -> Inv bs (cleanup W d).
Proof.
  intros [H1 H2 H3 H4]. unfold cleanup. destruct (_ || _); [constructor; assumption|].
  set (thr := _ - W).
  constructor; cbn [d_blk d_hid d_idh].
  - intros h b. rewrite aget_adel_many. destruct (memN h _); [discriminate | apply H1].
  - intros h i. rewrite !aget_adel_many. destruct (memN h _).
    + split; [discriminate | intros [x [Hx _]]; discriminate].
    + apply H2.
  - intros i h. rewrite !aget_adel_many.
    destruct (memN i (map snd (victims thr d))) eqn:Ei; destruct (memN h (map fst (victims thr d))) eqn:Eh.
    + split; discriminate.
    + split; [discriminate|]. intros Hx. exfalso.
      apply memN_vids in Ei; [|exact H4]. destruct Ei as [h' [Hc Hi]].
      assert (h' = h) by (apply H3 in Hi; apply H3 in Hx; congruence). subst h'.
      assert (memN h (map fst (victims thr d)) = true) by (apply memN_vhs; eauto). congruence.
    + split; [|discriminate]. intros Hx. exfalso.
      apply memN_vhs in Eh. destruct Eh as [Hc [i' Hi']]. apply H3 in Hx.
      assert (i' = i) by congruence. subst i'.
      assert (memN i (map snd (victims thr d)) = true) by (apply memN_vids; eauto). congruence.
    + apply H3.
  - apply nodup_adel_many. exact H4.
Qed.

Lemma inv_step bs s o : chain_wf bs -> incl (blocks_of [o]) bs -> Inv bs (s_db s) -> Inv bs (s_db (fst (step s o))).
Proof.
  intros Hwf Hincl Hinv. destruct o as [b|b|W F]; cbn [step].
  - assert (Hb : In b bs) by (apply Hincl; left; reflexivity).
    unfold accept. destruct (prunes (s_W s) (bh b)) eqn:Hp.
    + apply prunes_spec in Hp.
      destruct (aget (bh b - s_W s) (d_hid (s_db s))) as [did|] eqn:Hd; cbn [fst s_db].
      * apply inv_delete_height; [apply inv_write; auto using inv_set_last|].
        cbn [write_block set_last d_hid]. rewrite aget_aput_ne by lia. exact Hd.
      * apply inv_write; auto using inv_set_last.
    + cbn [fst s_db]. apply inv_write; auto using inv_set_last.
  - assert (Hb : In b bs) by (apply Hincl; left; reflexivity).
    cbn [save_historical fst s_db]. apply inv_write; auto.
  - unfold restart. destruct (F =? 0); cbn [fst s_db]; [exact Hinv | apply inv_cleanup; exact Hinv].
Qed.

Lemma inv_run bs ops : forall s, chain_wf bs -> incl (blocks_of ops) bs -> Inv bs (s_db s) -> Inv bs (s_db (run s ops)).
Proof.
  induction ops as [|o r IH]; intros s Hwf Hincl Hinv; [exact Hinv|].
  rewrite run_cons. apply IH; [exact Hwf | |].
  - intros x Hx. apply Hincl. destruct o; cbn [blocks_of]; auto using in_cons.
  - apply inv_step; [exact Hwf | | exact Hinv].
    intros x Hx. apply Hincl. destruct o; cbn [blocks_of] in *; [destruct Hx as [<-|[]]; left; reflexivity ..| destruct Hx].
Qed.

Lemma inv_reach W0 ops : chain_wf (blocks_of ops) -> Inv (blocks_of ops) (s_db (run (init W0) ops)).
Proof. intros Hwf. apply inv_run; [exact Hwf | apply incl_refl | apply inv_empty]. Qed.

(* ------------------------------------------------------------------ retrievable through all four getters *)
Definition retrievable (s : st) (b : block) : Prop :=
  get_block_by_height s (bh b) = Some b /\ get_id_at_height s (bh b) = Some (bid b) /\
  get_id_height s (bid b) = Some (bh b) /\ get_block s (bid b) = Some b.

Lemma stored_retrievable bs s b : Inv bs (s_db s) -> stored s b -> retrievable s b.
Proof.
  intros [H1 H2 H3 H4] Hst. unfold stored in Hst. unfold retrievable, get_block, get_block_by_height, get_id_at_height, get_id_height.
  assert (Hh : aget (bh b) (d_hid (s_db s)) = Some (bid b)) by (apply H2; eauto).
  assert (Hi : aget (bid b) (d_idh (s_db s)) = Some (bh b)) by (apply H3; exact Hh).
  rewrite Hi. auto.
Qed.

Lemma blocks_of_app a b : blocks_of (a ++ b) = blocks_of a ++ blocks_of b.
Proof.
  induction a as [|o a IH]; [reflexivity|]. destruct o; cbn [app blocks_of]; rewrite IH; reflexivity.
Qed.

Definition writes (o : op) (b : block) : Prop := o = OAccept b \/ o = OSave b.

Lemma step_write_stored s o b : writes o b -> stored (fst (step s o)) b.
Proof. intros [->| ->]; cbn [step]; [apply accept_stored_new | apply save_stored_new]. Qed.

Theorem window_general W0 pre wr post b :
  writes wr b ->
  chain_wf (blocks_of (pre ++ wr :: post)) ->
  (let s1 := run (init W0) (pre ++ [wr]) in survives (s_W s1) (get_last s1) post (bh b)) ->
  retrievable (run (init W0) (pre ++ wr :: post)) b.
Proof.
  intros Hwr Hwf Hsv. cbn zeta in Hsv.
  apply stored_retrievable with (bs := blocks_of (pre ++ wr :: post)); [apply inv_reach; exact Hwf|].
  replace (pre ++ wr :: post) with ((pre ++ [wr]) ++ post) by (rewrite <- app_assoc; reflexivity).
  rewrite run_app. apply stored_run.
  - intros b' Hb' Hh. apply Hwf; [| | left; exact Hh].
    + rewrite blocks_of_app. apply in_or_app. right. destruct Hwr as [->| ->]; cbn [blocks_of]; right; exact Hb'.
    + rewrite blocks_of_app. apply in_or_app. right. destruct Hwr as [->| ->]; cbn [blocks_of]; left; reflexivity.
  - rewrite run_app. cbn [run fold_left]. apply step_write_stored. exact Hwr.
  - exact Hsv.
Qed.

(* ---- the literal statement: one window, accepted heights never decrease ---- *)
Fixpoint mono (last : option N) (ops : list op) : Prop :=
  match ops with
  | [] => True
  | OAccept b :: r => last0 last <= bh b /\ mono (Some (bh b)) r
  | OSave _ :: r => mono last r
  | ORestart _ _ :: r => mono last r
  end.

Definition same_window (W : N) (ops : list op) : Prop := forall W' F, In (ORestart W' F) ops -> W' = W.

Fixpoint final_last (last : option N) (ops : list op) : option N :=
  match ops with
  | [] => last
  | OAccept b :: r => final_last (Some (bh b)) r
  | _ :: r => final_last last r
  end.

Lemma step_last s o : get_last (fst (step s o)) = final_last (get_last s) [o].
Proof.
  destruct o as [b|b|W F]; cbn [step final_last].
  - apply accept_last.
  - reflexivity.
  - unfold restart. destruct (F =? 0); [reflexivity|]. unfold get_last. cbn [fst s_db]. apply cleanup_last.
Qed.

Lemma final_last_cons last o r : final_last last (o :: r) = final_last (final_last last [o]) r.
Proof. destruct o; reflexivity. Qed.

Lemma run_last ops : forall s, get_last (run s ops) = final_last (get_last s) ops.
Proof.
  induction ops as [|o r IH]; intros s; [reflexivity|].
  rewrite run_cons, IH, step_last, <- final_last_cons. reflexivity.
Qed.

Lemma step_W_same W s o : s_W s = W -> same_window W [o] -> s_W (fst (step s o)) = W.
Proof.
  intros HW Hsw. destruct o as [b|b|W' F]; cbn [step].
  - rewrite accept_W. exact HW.
  - exact HW.
  - unfold restart. destruct (F =? 0); [exact HW|]. cbn [fst s_W]. apply (Hsw W' F). left. reflexivity.
Qed.

Lemma run_W_same W ops : forall s, s_W s = W -> same_window W ops -> s_W (run s ops) = W.
Proof.
  induction ops as [|o r IH]; intros s HW Hsw; [exact HW|].
  rewrite run_cons. apply IH.
  - apply step_W_same; [exact HW|]. intros W' F [H|[]]. apply (Hsw W' F). left. exact H.
  - intros W' F H. apply (Hsw W' F). right. exact H.
Qed.

Lemma mono_le ops : forall last, mono last ops -> last0 last <= last0 (final_last last ops).
Proof.
  induction ops as [|o r IH]; intros last Hm; [cbn; lia|].
  destruct o as [b|b|W F]; cbn [mono final_last] in *.
  - destruct Hm as [Hle Hm]. apply IH in Hm. cbn [last0] in Hm. lia.
  - apply IH. exact Hm.
  - apply IH. exact Hm.
Qed.

Lemma mono_app a : forall last b, mono last (a ++ b) -> mono (final_last last a) b.
Proof.
  induction a as [|o a IH]; intros last b Hm; [exact Hm|].
  destruct o as [x|x|W F]; cbn [app mono final_last] in *.
  - destruct Hm as [_ Hm]. apply IH. exact Hm.
  - apply IH. exact Hm.
  - apply IH. exact Hm.
Qed.

Lemma inwinP_le W l l' h : l' <= l -> inwinP W l h -> inwinP W l' h.
Proof. unfold inwinP. lia. Qed.

Lemma mono_survives W post : forall last h,
  same_window W post -> mono last post ->
  inwinP W (last0 (final_last last post)) h -> survives W last post h.
Proof.
  induction post as [|o r IH]; intros last h Hsw Hm Hw; [exact I|].
  assert (Hsw' : same_window W r) by (intros W' F H; apply (Hsw W' F); right; exact H).
  destruct o as [b|b|W' F]; cbn [mono final_last survives] in *.
  - destruct Hm as [Hle Hm]. split; [|apply IH; assumption].
    apply inwinP_le with (l := last0 (final_last (Some (bh b)) r)); [|exact Hw].
    apply mono_le in Hm. exact Hm.
  - apply IH; assumption.
  - assert (W' = W) by (apply (Hsw W' F); left; reflexivity). subst W'.
    destruct (F =? 0); [apply IH; assumption|]. split; [|apply IH; assumption].
    apply inwinP_le with (l := last0 (final_last last r)); [|exact Hw]. apply mono_le. exact Hm.
Qed.

Lemma blocks_of_split ops b : In b (blocks_of ops) ->
  exists pre wr post, ops = pre ++ wr :: post /\ writes wr b.
Proof.
  induction ops as [|o r IH]; cbn [blocks_of]; [intros []|].
  destruct o as [x|x|W F]; cbn [blocks_of].
  - intros [->|H].
    + exists [], (OAccept b), r. split; [reflexivity | left; reflexivity].
    + destruct (IH H) as [pre [wr [post [-> Hw]]]]. exists (OAccept x :: pre), wr, post. auto.
  - intros [->|H].
    + exists [], (OSave b), r. split; [reflexivity | right; reflexivity].
    + destruct (IH H) as [pre [wr [post [-> Hw]]]]. exists (OSave x :: pre), wr, post. auto.
  - intros H. destruct (IH H) as [pre [wr [post [-> Hw]]]]. exists (ORestart W F :: pre), wr, post. auto.
Qed.

Theorem window_monotone W ops b :
  chain_wf (blocks_of ops) -> same_window W ops -> mono None ops ->
  In b (blocks_of ops) ->
  inwinP W (last0 (get_last (run (init W) ops))) (bh b) ->
  retrievable (run (init W) ops) b.
Proof.
  intros Hwf Hsw Hm Hin Hw.
  destruct (blocks_of_split ops b Hin) as [pre [wr [post [-> Hwr]]]].
  apply window_general; [exact Hwr | exact Hwf |]. cbn zeta.
  assert (Hsw1 : same_window W (pre ++ [wr])).
  { intros W' F H. apply (Hsw W' F). apply in_app_or in H. apply in_or_app. destruct H as [H|[H|[]]]; [left; exact H | right; left; exact H]. }
  assert (Hsw2 : same_window W post).
  { intros W' F H. apply (Hsw W' F). apply in_or_app. right. right. exact H. }
  rewrite (run_W_same W) by (auto; reflexivity).
  replace (pre ++ wr :: post) with ((pre ++ [wr]) ++ post) in Hm, Hw by (rewrite <- app_assoc; reflexivity).
  apply mono_survives; [exact Hsw2 | |].
  - rewrite run_last. apply mono_app. exact Hm.
  - rewrite run_app, run_last in Hw. exact Hw.
Qed.

(* ------------------------------------------------------------------ consistency of the three mappings *)
Theorem consistent_reach W0 ops :
  chain_wf (blocks_of ops) ->
  let s := run (init W0) ops in
  (forall h i, get_id_at_height s h = Some i <-> get_id_height s i = Some h) /\
  (forall h i, get_id_at_height s h = Some i ->
     exists b, get_block_by_height s h = Some b /\ bh b = h /\ bid b = i /\ get_block s i = Some b /\ In b (blocks_of ops)) /\
  (forall h b, get_block_by_height s h = Some b -> bh b = h /\ get_id_at_height s h = Some (bid b)) /\
  (forall i b, get_block s i = Some b -> bid b = i /\ get_id_height s i = Some (bh b) /\ get_block_by_height s (bh b) = Some b).
Proof.
  intros Hwf s. pose proof (inv_reach W0 ops Hwf) as [H1 H2 H3 H4]. fold s in H1, H2, H3, H4.
  unfold get_id_at_height, get_id_height, get_block_by_height, get_block, get_id_height, get_block_by_height.
  split; [|split; [|split]].
  - intros h i. symmetry. apply H3.
  - intros h i Hh. destruct (proj1 (H2 h i) Hh) as [b [Hb Hi]]. exists b.
    destruct (H1 h b Hb) as [Hin Hbh]. apply H3 in Hh. rewrite Hh. auto.
  - intros h b Hb. destruct (H1 h b Hb) as [Hin Hbh]. split; [exact Hbh|]. apply H2. eauto.
  - intros i b. destruct (aget i (d_idh (s_db s))) as [h|] eqn:Ei; [|discriminate].
    intros Hb. destruct (H1 h b Hb) as [Hin Hbh]. apply H3 in Ei. apply H2 in Ei. destruct Ei as [b' [Hb' Hi]].
    assert (b' = b) by congruence. subst. auto.
Qed.

(* ------------------------------------------------------------------ the retention bound *)
Definition keys_hid (s : st) : list N := akeys (d_hid (s_db s)).

Lemma In_keys_aput {V} k k' (v : V) m : In k (akeys (aput k' v m)) -> k = k' \/ In k (akeys m).
Proof.
  unfold aput. cbn [akeys map fst]. intros [H|H]; [left; congruence|]. right.
  fold (akeys (adel k' m)) in H. unfold adel in H. rewrite akeys_afilter in H. apply filter_In in H. tauto.
Qed.

Lemma In_keys_adel {V} k k' (m : amap V) : In k (akeys (adel k' m)) -> k <> k' /\ In k (akeys m).
Proof.
  unfold adel. rewrite akeys_afilter. intros H. apply filter_In in H. destruct H as [H E]. split; [|exact H].
  intros ->. rewrite N.eqb_refl in E. discriminate.
Qed.

Lemma In_keys_adel_many {V} k ks (m : amap V) : In k (akeys (adel_many ks m)) -> memN k ks = false /\ In k (akeys m).
Proof.
  unfold adel_many. rewrite akeys_afilter. intros H. apply filter_In in H. destruct H as [H E]. split; [|exact H].
  destruct (memN k ks); [discriminate | reflexivity].
Qed.

(* keys of the height->id prefix after each op *)
Lemma keys_accept s b h : In h (keys_hid (fst (accept s b))) ->
  (h = bh b \/ In h (keys_hid s)) /\ (prunes (s_W s) (bh b) = true -> h <> bh b - s_W s).
Proof.
  unfold accept, keys_hid. destruct (prunes (s_W s) (bh b)) eqn:Hp.
  - destruct (aget (bh b - s_W s) (d_hid (s_db s))) as [did|] eqn:Hd; cbn [fst s_db write_block set_last delete_height d_hid].
    + intros H. apply In_keys_adel in H. destruct H as [Hne H]. apply In_keys_aput in H. split; [exact H | intros _; exact Hne].
    + intros H. apply In_keys_aput in H. split; [exact H|]. intros _ ->.
      apply prunes_spec in Hp. destruct H as [H|H]; [lia|].
      apply aget_None_keys in Hd. contradiction.
  - cbn [fst s_db write_block set_last d_hid]. intros H. apply In_keys_aput in H. split; [exact H | discriminate].
Qed.

Lemma nd_step s o : NoDup (keys_hid s) -> NoDup (keys_hid (fst (step s o))).
Proof.
  unfold keys_hid. intros H. destruct o as [b|b|W F]; cbn [step].
  - unfold accept. destruct (prunes _ _); [destruct (aget _ _)|]; cbn [fst s_db write_block set_last delete_height d_hid];
      auto using nodup_aput, nodup_adel.
  - cbn [save_historical fst s_db write_block d_hid]. auto using nodup_aput.
  - unfold restart. destruct (F =? 0); [exact H|]. cbn [fst s_db]. unfold cleanup.
    destruct (_ || _); [exact H|]. cbn [d_hid]. auto using nodup_adel_many.
Qed.

(* nothing is stored above the last accepted height *)
Definition noabove (s : st) : Prop := forall h, In h (keys_hid s) -> h <= last0 (get_last s).

Fixpoint upward (last : option N) (ops : list op) : Prop :=
  match ops with
  | [] => True
  | OAccept b :: r => last0 last <= bh b /\ upward (Some (bh b)) r
  | OSave b :: r => bh b <= last0 last /\ upward last r
  | ORestart _ _ :: r => upward last r
  end.

Lemma keys_cleanup W d h : In h (akeys (d_hid (cleanup W d))) ->
  In h (akeys (d_hid d)) /\
  (W <> 0 -> W < last0 (d_last d) -> h = 0 \/ last0 (d_last d) - W <= h).
Proof.
  unfold cleanup. fold (last0 (d_last d)). destruct ((W =? 0) || (last0 (d_last d) <=? W)) eqn:E.
  - intros H. split; [exact H | lia].
  - cbn [d_hid]. intros H. apply In_keys_adel_many in H. destruct H as [Hm H]. split; [exact H|]. intros _ _.
    destruct (vcond (last0 (d_last d) - W) h) eqn:Hc.
    + exfalso. apply In_keys_aget in H. assert (memN h (map fst (victims (last0 (d_last d) - W) d)) = true) by (apply memN_vhs; auto).
      congruence.
    + unfold vcond in Hc. lia.
Qed.

Lemma noabove_run ops : forall s, upward (get_last s) ops -> noabove s -> noabove (run s ops).
Proof.
  induction ops as [|o r IH]; intros s Hup Hna; [exact Hna|].
  rewrite run_cons. destruct o as [b|b|W F]; cbn [upward] in Hup.
  - destruct Hup as [Hle Hup]. apply IH; cbn [step]; [rewrite accept_last; exact Hup|].
    intros h Hh. rewrite accept_last. cbn [last0]. apply keys_accept in Hh. destruct Hh as [[->|Hh] _]; [lia|].
    apply Hna in Hh. lia.
  - destruct Hup as [Hle Hup]. apply IH; cbn [step]; [exact Hup|].
    intros h Hh. unfold keys_hid, save_historical in Hh. cbn [fst s_db write_block d_hid] in Hh.
    apply In_keys_aput in Hh. unfold get_last, save_historical. cbn [fst s_db write_block d_last].
    destruct Hh as [->|Hh]; [exact Hle | apply Hna; exact Hh].
  - apply IH; cbn [step]; unfold restart; destruct (F =? 0); cbn [fst]; try assumption.
    + unfold get_last. cbn [s_db]. rewrite cleanup_last. exact Hup.
    + intros h Hh. unfold keys_hid in Hh. cbn [s_db] in Hh. apply keys_cleanup in Hh. destruct Hh as [Hh _].
      unfold get_last. cbn [s_db]. rewrite cleanup_last. apply Hna. exact Hh.
Qed.

(* invariant between a restart (last accepted l0 at that time) and the following consecutive accepts *)
Definition JJ (W l0 : N) (s : st) : Prop :=
  forall h, In h (keys_hid s) -> h = 0 \/ h + W = l0 \/ (h <= last0 (get_last s) /\ last0 (get_last s) < h + W).

Fixpoint consec (last : option N) (bs : list block) : Prop :=
  match bs with
  | [] => True
  | b :: r => match last with Some l => bh b = l + 1 | None => True end /\ consec (Some (bh b)) r
  end.

Lemma JJ_restart W F s : W <> 0 -> F <> 0 -> noabove s ->
  JJ W (last0 (get_last s)) (fst (restart s W F)) /\ get_last (fst (restart s W F)) = get_last s
  /\ s_W (fst (restart s W F)) = W.
Proof.
  intros HW HF Hna. unfold restart. destruct (F =? 0) eqn:E; [lia|]. cbn [fst s_W].
  split; [|split; [unfold get_last; cbn [s_db]; apply cleanup_last | reflexivity]].
  intros h Hh. unfold keys_hid in Hh. cbn [s_db] in Hh. apply keys_cleanup in Hh. destruct Hh as [Hh Hc].
  apply Hna in Hh. unfold get_last in *. cbn [s_db]. rewrite cleanup_last. lia.
Qed.

Lemma JJ_accepts W l0 bs : forall s, W <> 0 -> s_W s = W ->
  (get_last s = None -> forall h, In h (keys_hid s) -> h = 0) ->
  JJ W l0 s -> consec (get_last s) bs -> JJ W l0 (run s (map OAccept bs)).
Proof.
  induction bs as [|b r IH]; intros s HW HsW Hnone HJ Hc; [exact HJ|].
  cbn [map]. rewrite run_cons. cbn [step]. cbn [consec] in Hc. destruct Hc as [Hb Hc].
  apply IH; [exact HW | rewrite accept_W; exact HsW | rewrite accept_last; discriminate | | rewrite accept_last; exact Hc].
  intros h Hh. rewrite accept_last. cbn [last0]. apply keys_accept in Hh. destruct Hh as [[->|Hh] Hne]; [lia|].
  rewrite HsW in Hne. rewrite prunes_spec in Hne.
  destruct (get_last s) as [l|] eqn:El.
  - apply HJ in Hh. rewrite El in Hh. cbn [last0] in Hh. lia.
  - left. apply Hnone; [reflexivity | exact Hh].
Qed.

Lemma JJ_count W l0 s : W <> 0 -> NoDup (keys_hid s) -> JJ W l0 s -> (retained s <= N.to_nat W + 1)%nat.
Proof.
  intros HW Hnd HJ. unfold retained. fold (keys_hid s).
  set (nz := filter (fun h => negb (h =? 0)) (keys_hid s)).
  assert (Hnd' : NoDup nz) by (apply NoDup_filter; exact Hnd).
  rewrite (filter_split_length (fun h => h + W =? l0) nz).
  assert (H1 : (length (filter (fun h => h + W =? l0) nz) <= 1)%nat).
  { destruct (l0 <? W) eqn:E.
    - assert (filter (fun h => h + W =? l0) nz = []) as ->; [|cbn; lia].
      destruct (filter _ nz) as [|y t] eqn:Ef; [reflexivity|]. exfalso.
      assert (Hy : In y (filter (fun h => h + W =? l0) nz)) by (rewrite Ef; left; reflexivity).
      apply filter_In in Hy. lia.
    - erewrite filter_ext; [apply (NoDup_filter_eq_length nz (l0 - W)); exact Hnd'|].
      intros a. cbn beta. lia. }
  assert (H2 : (length (filter (fun x => negb (x + W =? l0)) nz) <= N.to_nat W)%nat).
  { apply NoDup_interval_length with (a := last0 (get_last s) + 1 - W).
    - apply NoDup_filter. exact Hnd'.
    - intros x Hx. apply filter_In in Hx. destruct Hx as [Hx Hne]. unfold nz in Hx. apply filter_In in Hx.
      destruct Hx as [Hx Hnz]. apply HJ in Hx. lia. }
  lia.
Qed.

Lemma nd_run ops : forall s, NoDup (keys_hid s) -> NoDup (keys_hid (run s ops)).
Proof. induction ops as [|o r IH]; intros s H; [exact H|]. rewrite run_cons. apply IH. apply nd_step. exact H. Qed.

Theorem bound_after_restart W0 pre W F bs :
  W <> 0 -> F <> 0 -> upward None pre ->
  let s1 := run (init W0) (pre ++ [ORestart W F]) in
  consec (get_last s1) bs ->
  (retained (run s1 (map OAccept bs)) <= N.to_nat W + 1)%nat.
Proof.
  intros HW HF Hup s1 Hc.
  set (s0 := run (init W0) pre).
  assert (Hna : noabove s0) by (apply noabove_run; [exact Hup | intros h []]).
  assert (Hs1 : s1 = fst (restart s0 W F)) by (unfold s1; rewrite run_app; reflexivity).
  destruct (JJ_restart W F s0 HW HF Hna) as [HJ [Hl HsW]]. rewrite <- Hs1 in HJ, Hl, HsW.
  apply JJ_count with (l0 := last0 (get_last s0)); [exact HW | apply nd_run; apply nd_run; constructor |].
  apply JJ_accepts; [exact HW | exact HsW | | exact HJ | exact Hc].
  intros Hnone h Hh. rewrite Hs1 in Hh. unfold restart in Hh. destruct (F =? 0) eqn:E; [lia|].
  unfold keys_hid in Hh. cbn [fst s_db] in Hh. apply keys_cleanup in Hh. destruct Hh as [Hh _].
  apply Hna in Hh. rewrite Hl in Hnone. rewrite Hnone in Hh. cbn [last0] in Hh. lia.
Qed.

(* decidable version of chain_wf for the witnesses *)
Fixpoint chain_wfb (t : list block) : bool :=
  match t with
  | [] => true
  | b :: r => forallb (fun b' => block_eqb b b' || (negb (bh b =? bh b') && negb (bid b =? bid b'))) r && chain_wfb r
  end.

Lemma block_eqb_eq a b : block_eqb a b = true <-> a = b.
Proof.
  destruct a as [h1 i1 d1], b as [h2 i2 d2]. unfold block_eqb. cbn [bh bid bdata].
  rewrite !andb_true_iff, !N.eqb_eq. split; [intros [[-> ->] ->]; reflexivity | intros H; injection H; auto].
Qed.

Lemma chain_wfb_spec t : chain_wfb t = true -> chain_wf t.
Proof.
  induction t as [|b r IH]; intros H b1 b2 H1 H2 Hor; [destruct H1|].
  cbn [chain_wfb] in H. apply andb_true_iff in H. destruct H as [Hf Hr]. rewrite forallb_forall in Hf.
  assert (Hone : forall x, In x r -> (bh b = bh x \/ bid b = bid x) -> b = x).
  { intros x Hx Hc. specialize (Hf x Hx). apply orb_true_iff in Hf. destruct Hf as [Hf|Hf]; [apply block_eqb_eq; exact Hf|]. lia. }
  destruct H1 as [<-|H1], H2 as [<-|H2].
  - reflexivity.
  - apply Hone; assumption.
  - symmetry. apply Hone; [assumption|]. destruct Hor; [left|right]; congruence.
  - apply IH; assumption.
Qed.
