(* Refinement of the EMap model (Model/EMap.v) to a finite map id -> expiry (entries with expiry 0 are
   never tracked; the first expiry offered for an id wins). *)
From Coq Require Import List NArith ZArith Bool Arith Lia Permutation Sorted.
From Coq Require Import ZifyN ZifyNat ZifyBool.
Import ListNotations.
From HV Require Import Model.Heap Model.EMap Proofs.Heap_proofs.

Notation hwfZ := (hwf Z true).
Notation contsZ := (conts Z).

Definition bucket_binds (p : Z * list N) : list (N * Z) := map (fun id => (id, fst p)) (snd p).
Definition tbinds (ts : list (Z * list N)) : list (N * Z) := flat_map bucket_binds ts.
Definition binds (e : emap) : list (N * Z) := tbinds (em_times e).
Definition keys (ts : list (Z * list N)) : list Z := map fst ts.
Definition link (ts : list (Z * list N)) (c : N * Z * Z) : Prop :=
  exists ids, times_get ts (snd c) = Some ids /\ In (fst (fst c)) ids.

Record emwf (e : emap) : Prop := mkW {
  w_heap : hwfZ (em_bh e);
  w_keys : NoDup (keys (em_times e));
  w_vals : Permutation (map (fun c => snd c) (contsZ (em_bh e))) (keys (em_times e));
  w_link : Forall (link (em_times e)) (contsZ (em_bh e));
  w_nodup : NoDup (map fst (binds e));
  w_seen : forall id, mem_id id (em_seen e) = true <-> In id (map fst (binds e));
  w_nz : ~ In 0%Z (keys (em_times e))
}.

(* ---------- association list of buckets ---------- *)
Lemma times_get_in ts t l : times_get ts t = Some l -> In (t, l) ts.
Proof.
  induction ts as [|[t' b] ts IH]; cbn [times_get]; [discriminate|].
  destruct (Z.eqb_spec t' t) as [->|Hn]; [intros [= ->]; now left|]. intros H. right. now apply IH.
Qed.
Lemma times_get_none ts t : times_get ts t = None -> ~ In t (keys ts).
Proof.
  induction ts as [|[t' b] ts IH]; cbn [times_get keys map fst]; [tauto|].
  destruct (Z.eqb_spec t' t) as [->|Hn]; [discriminate|]. intros H [E|Hin]; [congruence|]. now apply IH.
Qed.
Lemma times_get_key ts t l : times_get ts t = Some l -> In t (keys ts).
Proof. intros H. apply times_get_in in H. unfold keys. now apply (in_map fst) in H. Qed.

Lemma keys_append ts t id : keys (times_append ts t id) = keys ts.
Proof.
  unfold keys. induction ts as [|[t' b] ts IH]; cbn [times_append]; [reflexivity|].
  destruct (Z.eqb t' t); cbn [map fst]; [reflexivity|]. now rewrite IH.
Qed.
Lemma get_append ts t id t' :
  times_get (times_append ts t id) t' =
  if Z.eqb t' t then option_map (fun l => l ++ [id]) (times_get ts t) else times_get ts t'.
Proof.
  induction ts as [|[k b] ts IH]; cbn [times_append times_get].
  - now destruct (Z.eqb t' t).
  - destruct (Z.eqb_spec k t) as [Hk|Hk]; cbn [times_get].
    + destruct (Z.eqb_spec t' t) as [Ht|Ht].
      * destruct (Z.eqb_spec k t') as [_|Hn]; [reflexivity|congruence].
      * destruct (Z.eqb_spec k t') as [Hn|_]; [congruence|reflexivity].
    + destruct (Z.eqb_spec k t') as [Hk'|Hk'].
      * destruct (Z.eqb_spec t' t) as [Ht|_]; [congruence|reflexivity].
      * exact IH.
Qed.
Lemma binds_append ts t id l : times_get ts t = Some l ->
  Permutation (tbinds (times_append ts t id)) ((id, t) :: tbinds ts).
Proof.
  induction ts as [|[k b] ts IH]; cbn [times_get times_append]; [discriminate|].
  destruct (Z.eqb_spec k t) as [Hk|Hk].
  - subst k. intros _. cbn [tbinds flat_map]. unfold bucket_binds at 1 3. cbn [fst snd]. rewrite map_app. cbn [map].
    rewrite <- app_assoc. cbn [app]. symmetry. apply Permutation_middle.
  - intros H. cbn [tbinds flat_map]. eapply perm_trans; [apply Permutation_app_head, IH, H|].
    symmetry. apply Permutation_middle.
Qed.

Lemma keys_del ts t : keys (times_del ts t) = filter (fun k => negb (Z.eqb k t)) (keys ts).
Proof.
  unfold times_del, keys. induction ts as [|[k b] ts IH]; [reflexivity|]. cbn [filter map fst].
  destruct (Z.eqb k t); cbn [negb map fst]; now rewrite IH.
Qed.
Lemma get_del ts t t' : times_get (times_del ts t) t' = if Z.eqb t' t then None else times_get ts t'.
Proof.
  unfold times_del. induction ts as [|[k b] ts IH]; cbn [filter times_get fst].
  - now destruct (Z.eqb t' t).
  - destruct (Z.eqb_spec k t) as [Hk|Hk]; cbn [negb times_get].
    + rewrite IH. destruct (Z.eqb_spec t' t) as [Ht|Ht]; [reflexivity|].
      destruct (Z.eqb_spec k t') as [Hn|_]; [congruence|reflexivity].
    + destruct (Z.eqb_spec k t') as [Hk'|Hk'].
      * destruct (Z.eqb_spec t' t) as [Ht|_]; [congruence|reflexivity].
      * exact IH.
Qed.
Lemma filter_all_true' {X} (f : X -> bool) (l : list X) : (forall z, In z l -> f z = true) -> filter f l = l.
Proof.
  induction l as [|h t IH]; intros H; [reflexivity|]. cbn [filter]. rewrite (H h (or_introl eq_refl)).
  f_equal. apply IH. intros z Hz. apply H. now right.
Qed.
Lemma del_perm ts t l : NoDup (keys ts) -> times_get ts t = Some l -> Permutation ts ((t, l) :: times_del ts t).
Proof.
  unfold times_del. induction ts as [|[k b] ts IH]; cbn [times_get keys map fst filter]; [discriminate|].
  intros Hnd. apply NoDup_cons_iff in Hnd as [Hn Hnd].
  destruct (Z.eqb_spec k t) as [Hk|Hk]; cbn [negb].
  - subst k. intros Hb. injection Hb as Hb. subst b. apply perm_skip. rewrite filter_all_true'; [reflexivity|].
    intros [k2 b2] Hz. cbn [fst]. destruct (Z.eqb_spec k2 t) as [Hk2|]; [|reflexivity]. subst k2.
    exfalso. apply Hn. unfold keys. now apply (in_map fst) in Hz.
  - intros H. eapply perm_trans; [apply perm_skip, IH; assumption|apply perm_swap].
Qed.

Lemma tbinds_perm ts ts' : Permutation ts ts' -> Permutation (tbinds ts) (tbinds ts').
Proof. intros H. unfold tbinds. now apply Permutation_flat_map. Qed.

Lemma binds_key ts id t : In (id, t) (tbinds ts) -> In t (keys ts).
Proof.
  unfold tbinds. rewrite in_flat_map. intros ([k b] & Hin & Hb). unfold bucket_binds in Hb. cbn [fst snd] in Hb.
  apply in_map_iff in Hb as (x & [= _ <-] & _). unfold keys. now apply (in_map fst) in Hin.
Qed.

Lemma binds_of_bucket ts t l id : In (t, l) ts -> In id l -> In (id, t) (tbinds ts).
Proof.
  intros Hin Hid. unfold tbinds. rewrite in_flat_map. exists (t, l). split; [assumption|].
  unfold bucket_binds. cbn [fst snd]. now apply (in_map (fun id => (id, t))).
Qed.

(* ---------- seen ---------- *)
Lemma mem_id_in id l : mem_id id l = true <-> In id l.
Proof.
  unfold mem_id. rewrite existsb_exists. split.
  - intros (y & Hy & E). apply N.eqb_eq in E. now subst.
  - intros H. exists id. split; [assumption|apply N.eqb_refl].
Qed.
Lemma mem_remove_ids id s l : mem_id id (remove_ids s l) = true <-> (mem_id id s = true /\ ~ In id l).
Proof.
  rewrite !mem_id_in. unfold remove_ids. rewrite filter_In, negb_true_iff.
  split; intros [H1 H2]; (split; [assumption|]).
  - intros Hin. apply mem_id_in in Hin. congruence.
  - destruct (mem_id id l) eqn:E; [|reflexivity]. apply mem_id_in in E. contradiction.
Qed.

Lemma emwf_new : emwf em_new.
Proof.
  constructor; cbn.
  - apply hwf_nil.
  - constructor.
  - constructor.
  - constructor.
  - constructor.
  - intros id. split; [discriminate|tauto].
  - tauto.
Qed.

Definition holds (r : list (N * Z)) (id : N) : Prop := In id (map fst r).

(* ---------- add ---------- *)
Lemma add1_spec e id t : emwf e ->
  emwf (em_add1 e id t) /\
  (((t = 0%Z \/ holds (binds e) id) /\ em_add1 e id t = e) \/
   (t <> 0%Z /\ ~ holds (binds e) id /\ Permutation (binds (em_add1 e id t)) ((id, t) :: binds e))).
Proof.
  intros H. unfold em_add1.
  destruct (Z.eqb_spec t 0) as [Ht|Ht]; [split; [assumption|left; auto]|].
  destruct (mem_id id (em_seen e)) eqn:Es.
  { split; [assumption|]. left. split; [right; now apply (w_seen e H)|reflexivity]. }
  assert (Hnot : ~ holds (binds e) id).
  { intros Hh. apply (w_seen e H) in Hh. congruence. }
  destruct H as [W1 W2 W3 W4 W5 W6 W7].
  destruct (times_get (em_times e) t) as [l|] eqn:Eg.
  - (* existing bucket *)
    pose proof (binds_append (em_times e) t id l Eg) as Hp.
    split; [|right; auto].
    constructor; cbn [em_bh em_seen em_times binds]; rewrite ?keys_append; auto.
    + rewrite Forall_forall in *. intros c Hc. destruct (W4 c Hc) as (ids & G & Hin).
      unfold link. rewrite get_append. destruct (Z.eqb_spec (snd c) t) as [E|E].
      * rewrite E in G. rewrite G. cbn. exists (ids ++ [id]). split; [reflexivity|]. apply in_or_app. now left.
      * exists ids. auto.
    + eapply Permutation_NoDup; [symmetry; apply (Permutation_map fst Hp)|]. cbn [map fst].
      constructor; assumption.
    + intros x. cbn [mem_id existsb]. fold (mem_id x (em_seen e)).
      rewrite (Permutation_in' (eq_refl x) (Permutation_map fst Hp)). cbn [map fst In].
      rewrite orb_true_iff, N.eqb_eq, W6. unfold binds. intuition congruence.
  - (* new bucket and heap entry *)
    set (en := mkE id t t (length (em_bh e))).
    assert (Hfresh : ih_has (em_bh e) id = false).
    { destruct (ih_has (em_bh e) id) eqn:E; [|reflexivity]. exfalso. apply Hnot.
      apply ih_has_true in E. unfold ids_of in E. apply in_map_iff in E as (x & Ex & Hx).
      rewrite Forall_forall in W4. destruct (W4 (cont Z x)) as (ids & G & Hin); [unfold conts; now apply in_map|].
      cbn [cont fst snd] in *. rewrite Ex in Hin. unfold holds, binds.
      apply times_get_in in G.
      apply (in_map fst _ (id, e_val x)), (binds_of_bucket _ _ ids); assumption. }
    destruct (push_fresh Z true (em_bh e) en W1 eq_refl Hfresh) as [Hw' Hp].
    pose proof (times_get_none _ _ Eg) as Hk.
    split; [|right; split; [assumption|split; [assumption|reflexivity]]].
    constructor; cbn [em_bh em_seen em_times binds tbinds flat_map keys map fst].
    + exact Hw'.
    + constructor; assumption.
    + eapply perm_trans; [apply (Permutation_map (fun c => snd c) Hp)|]. cbn [map cont snd en e_val]. now apply perm_skip.
    + eapply Permutation_Forall; [symmetry; exact Hp|]. constructor.
      * exists [id]. cbn [cont fst snd en e_val e_id times_get]. rewrite Z.eqb_refl. split; [reflexivity|now left].
      * rewrite Forall_forall in *. intros c Hc. destruct (W4 c Hc) as (ids & G & Hin).
        exists ids. split; [|assumption]. cbn [times_get]. destruct (Z.eqb_spec t (snd c)) as [E|E]; [|assumption].
        exfalso. apply Hk. rewrite E. eapply times_get_key; eassumption.
    + unfold bucket_binds at 1. cbn [fst snd map app]. constructor; assumption.
    + intros x. cbn [mem_id existsb]. fold (mem_id x (em_seen e)). unfold bucket_binds at 1. cbn [fst snd map app In].
      rewrite orb_true_iff, N.eqb_eq, W6. unfold binds, tbinds. intuition congruence.
    + intros [E|Hin]; [congruence|contradiction].
Qed.

(* ---------- membership ---------- *)
Lemma any_spec e ids : emwf e -> (em_any e ids = true <-> exists id, In id ids /\ holds (binds e) id).
Proof.
  intros H. unfold em_any. rewrite existsb_exists. split; intros (id & H1 & H2); exists id; (split; [assumption|]);
    now apply (w_seen e H).
Qed.

(* ---------- SetMin ---------- *)
Definition le_snd (a b : N * Z) : Prop := (snd a <= snd b)%Z.

Lemma set_min_loop_spec t : forall fuel e, emwf e -> length (em_bh e) < fuel ->
  let r := em_set_min_loop fuel e t in
  emwf (fst r) /\
  exists rp, snd r = map fst rp /\ Permutation (binds e) (rp ++ binds (fst r)) /\
             Forall (fun p => (snd p < t)%Z) rp /\ Forall (fun p => (t <= snd p)%Z) (binds (fst r)) /\
             StronglySorted le_snd rp.
Proof.
  induction fuel as [|f IH]; intros e H Hf; [lia|]. cbn [em_set_min_loop].
  (* every tracked expiry is a key of the heap, and the root holds the least one *)
  assert (Hmin : forall b, heap_first (em_bh e) = Some b -> forall p, In p (binds e) -> (e_val b <= snd p)%Z).
  { intros b Hb [id tp] Hp. cbn [snd]. apply binds_key in Hp.
    eapply Permutation_in in Hp; [|symmetry; apply (w_vals e H)].
    apply in_map_iff in Hp as (c & Ec & Hc). unfold conts in Hc. apply in_map_iff in Hc as (x & <- & Hx).
    cbn [cont snd] in Ec. subst tp. apply (first_min Z true (em_bh e) b x (w_heap e H) Hb Hx). }
  destruct (heap_first (em_bh e)) as [b|] eqn:Hb.
  - specialize (Hmin b eq_refl). destruct (Z.leb_spec t (e_val b)) as [L|L].
    + cbn [fst snd]. split; [assumption|]. exists []. cbn [map app]. split; [reflexivity|]. split; [reflexivity|].
      split; [constructor|]. split; [|constructor]. apply Forall_forall. intros p Hp. specialize (Hmin p Hp). lia.
    + destruct (pop_spec Z true (em_bh e) b (w_heap e H) Hb) as (b' & _ & _ & Hw' & Hp).
      set (bh' := fst (heap_pop true (em_bh e))) in *.
      set (tb := e_val b) in *.
      assert (Hinb : In (cont Z b) (contsZ (em_bh e))).
      { unfold conts. apply in_map. eapply nth_error_In. exact Hb. }
      pose proof (w_link e H) as Hl. rewrite Forall_forall in Hl. destruct (Hl _ Hinb) as (l & Hg & _).
      cbn [cont snd] in Hg. fold tb in Hg. rewrite Hg.
      set (e' := mkEM bh' (remove_ids (em_seen e) l) (times_del (em_times e) tb)).
      pose proof (del_perm (em_times e) tb l (w_keys e H) Hg) as Hdp.
      assert (Hbp : Permutation (binds e) (bucket_binds (tb, l) ++ binds e')).
      { unfold binds. cbn [e' em_times]. apply (tbinds_perm _ _ Hdp). }
      assert (Hvals : Permutation (tb :: map (fun c => snd c) (contsZ bh')) (tb :: keys (times_del (em_times e) tb))).
      { eapply perm_trans; [symmetry; apply (Permutation_map (fun c => snd c) Hp)|].
        eapply perm_trans; [apply (w_vals e H)|]. apply (Permutation_map fst Hdp). }
      assert (Hnk : ~ In tb (keys (times_del (em_times e) tb))).
      { rewrite keys_del, filter_In. intros [_ E]. now rewrite Z.eqb_refl in E. }
      assert (He' : emwf e').
      { destruct H as [W1 W2 W3 W4 W5 W6 W7]. constructor; cbn [e' em_bh em_seen em_times].
        - exact Hw'.
        - rewrite keys_del. now apply NoDup_filter.
        - now apply Permutation_cons_inv in Hvals.
        - eapply Permutation_Forall in W4; [|exact Hp]. apply Forall_inv_tail in W4.
          rewrite Forall_forall in *. intros c Hc. destruct (W4 c Hc) as (ids & G & Hin). exists ids.
          split; [|assumption]. rewrite get_del. destruct (Z.eqb_spec (snd c) tb) as [E|E]; [|assumption].
          exfalso. apply Hnk. eapply Permutation_in; [apply (Permutation_cons_inv Hvals)|]. rewrite <- E. now apply in_map.
        - eapply Permutation_NoDup in W5; [|apply (Permutation_map fst Hbp)]. rewrite map_app in W5.
          clear - W5. induction (map fst (bucket_binds (tb, l))) as [|h tl IHl]; [assumption|].
          cbn [app] in W5. apply NoDup_cons_iff in W5 as [_ W5]. now apply IHl.
        - intros x. rewrite mem_remove_ids, W6.
          rewrite (Permutation_in' (eq_refl x) (Permutation_map fst Hbp)), map_app, in_app_iff.
          assert (Hbl : map fst (bucket_binds (tb, l)) = l).
          { unfold bucket_binds. cbn [fst snd]. rewrite map_map. cbn [fst]. apply map_id. }
          rewrite Hbl. eapply Permutation_NoDup in W5; [|apply (Permutation_map fst Hbp)]. rewrite map_app, Hbl in W5.
          split.
          + intros [[Hx|Hx] Hn]; [contradiction|assumption].
          + intros Hx. split; [now right|]. intros Hxl. clear - W5 Hx Hxl.
            induction l as [|h tl IHl]; [contradiction|]. cbn [app] in W5. apply NoDup_cons_iff in W5 as [Hn W5].
            destruct Hxl as [->|Hxl]; [apply Hn; apply in_or_app; now right|now apply IHl].
        - rewrite keys_del, filter_In. intros [Hin _]. contradiction. }
      assert (Hlen : length bh' < f).
      { apply Permutation_length in Hp. unfold conts in Hp. cbn [length] in Hp. rewrite !map_length in Hp. lia. }
      specialize (IH e' He' Hlen). cbn zeta in IH.
      destruct (em_set_min_loop f e' t) as [e'' r] eqn:El. cbn [fst snd] in *.
      destruct IH as (I1 & rp & I2 & I3 & I4 & I5 & I6). split; [exact I1|].
      exists (bucket_binds (tb, l) ++ rp).
      assert (Hbl : map fst (bucket_binds (tb, l)) = l).
      { unfold bucket_binds. cbn [fst snd]. rewrite map_map. cbn [fst]. apply map_id. }
      split; [now rewrite map_app, Hbl, I2|].
      split; [rewrite <- app_assoc; eapply perm_trans; [exact Hbp|]; now apply Permutation_app_head|].
      assert (Hall : Forall (fun p => snd p = tb) (bucket_binds (tb, l))).
      { unfold bucket_binds. cbn [fst snd]. apply Forall_forall. intros p Hp'. apply in_map_iff in Hp' as (x & <- & _). reflexivity. }
      split; [apply Forall_app; split; [|assumption]; eapply Forall_impl; [|exact Hall]; cbn; intros; lia|].
      split; [assumption|].
      (* sorted: the bucket's entries all carry tb, everything evicted later is >= tb *)
      assert (Hrest : Forall (fun p => (tb <= snd p)%Z) rp).
      { apply Forall_forall. intros p Hp'. apply Hmin. eapply Permutation_in; [symmetry; exact Hbp|].
        apply in_or_app. right. eapply Permutation_in; [symmetry; exact I3|]. apply in_or_app. now left. }
      clear - Hall Hrest I6. induction (bucket_binds (tb, l)) as [|h tl IHl]; [assumption|].
      apply Forall_cons_iff in Hall as [Hh Hall]. cbn [app]. constructor; [now apply IHl|].
      apply Forall_app. split.
      * eapply Forall_impl; [|exact Hall]. unfold le_snd. cbn. intros. lia.
      * eapply Forall_impl; [|exact Hrest]. unfold le_snd. cbn. intros. lia.
  - cbn [fst snd]. split; [assumption|]. exists []. cbn [map app]. split; [reflexivity|]. split; [reflexivity|].
    split; [constructor|]. split; [|constructor].
    assert (Hnil : em_bh e = []) by (destruct (em_bh e); [reflexivity|discriminate]).
    pose proof (w_vals e H) as Hv. rewrite Hnil in Hv. cbn in Hv. apply Permutation_nil in Hv.
    apply Forall_forall. intros [id tp] Hp. apply binds_key in Hp. rewrite Hv in Hp. contradiction.
Qed.

Lemma set_min_spec e t : emwf e ->
  let r := em_set_min e t in
  emwf (fst r) /\
  exists rp, snd r = map fst rp /\ Permutation (binds e) (rp ++ binds (fst r)) /\
             Forall (fun p => (snd p < t)%Z) rp /\ Forall (fun p => (t <= snd p)%Z) (binds (fst r)) /\
             StronglySorted le_snd rp.
Proof. intros H. apply set_min_loop_spec; [assumption|lia]. Qed.

(* ---------- all operation sequences ---------- *)
Inductive mop := MAdd (id : N) (t : Z) | MSetMin (t : Z) | MAny (ids : list N).
Inductive mout := MUnit | MIds (l : list N) | MBool (b : bool).

Definition em_step (e : emap) (o : mop) : emap * mout :=
  match o with
  | MAdd id t => (em_add1 e id t, MUnit)
  | MSetMin t => let r := em_set_min e t in (fst r, MIds (snd r))
  | MAny ids => (e, MBool (em_any e ids))
  end.
Fixpoint em_run (e : emap) (ops : list mop) : emap * list mout :=
  match ops with
  | [] => (e, [])
  | o :: rest => let '(e1, r) := em_step e o in let '(e2, rs) := em_run e1 rest in (e2, r :: rs)
  end.

(* Add(items) is a sequence of single adds *)
Lemma em_add_run e xs : em_add e xs = fst (em_run e (map (fun p => MAdd (fst p) (snd p)) xs)).
Proof.
  unfold em_add. revert e. induction xs as [|p xs IH]; intros e; cbn [fold_left map em_run em_step]; [reflexivity|].
  rewrite IH. now destruct (em_run (em_add1 e (fst p) (snd p)) _).
Qed.

(* specification: the state is a finite map id -> expiry (list of bindings with unique ids, up to permutation) *)
Definition mspec_step (r : list (N * Z)) (o : mop) (out : mout) (r' : list (N * Z)) : Prop :=
  match o with
  | MAdd id t => out = MUnit /\
      (((t = 0%Z \/ holds r id) /\ Permutation r' r) \/ (t <> 0%Z /\ ~ holds r id /\ Permutation r' ((id, t) :: r)))
  | MSetMin t => exists rp, out = MIds (map fst rp) /\ Permutation r (rp ++ r') /\
      Forall (fun p => (snd p < t)%Z) rp /\ Forall (fun p => (t <= snd p)%Z) r' /\ StronglySorted le_snd rp
  | MAny ids => (exists b, out = MBool b /\ (b = true <-> exists id, In id ids /\ holds r id)) /\ Permutation r' r
  end.
Fixpoint mspec_trace (r : list (N * Z)) (ops : list mop) (outs : list mout) : Prop :=
  match ops, outs with
  | [], [] => NoDup (map fst r)
  | o :: ops', out :: outs' => NoDup (map fst r) /\ exists r', mspec_step r o out r' /\ mspec_trace r' ops' outs'
  | _, _ => False
  end.

Lemma em_step_refines e o : emwf e ->
  emwf (fst (em_step e o)) /\ mspec_step (binds e) o (snd (em_step e o)) (binds (fst (em_step e o))).
Proof.
  intros H. destruct o as [id t|t|ids]; cbn [em_step fst snd mspec_step].
  - destruct (add1_spec e id t H) as [H' [[Hc ->]|(H1 & H2 & H3)]]; split; auto.
  - destruct (set_min_spec e t H) as (H' & rp & S1 & S2 & S3 & S4 & S5). split; [assumption|].
    exists rp. rewrite S1. auto.
  - split; [assumption|]. split; [|reflexivity]. exists (em_any e ids). split; [reflexivity|now apply any_spec].
Qed.

Theorem emap_refines : forall ops e, emwf e -> mspec_trace (binds e) ops (snd (em_run e ops)).
Proof.
  induction ops as [|o ops IH]; intros e H; cbn [em_run].
  - cbn. apply (w_nodup e H).
  - destruct (em_step_refines e o H) as [H' Hs]. destruct (em_step e o) as [e1 r]. cbn [fst snd] in *.
    specialize (IH e1 H'). destruct (em_run e1 ops) as [e2 rs]. cbn [snd] in *.
    split; [apply (w_nodup e H)|]. exists (binds e1). auto.
Qed.

(* Contains(items, marker, stop) marks exactly the unmarked positions holding a tracked id (all of them, or
   only the first one when stop is set); stated for the membership test it is built on *)
Lemma seen_spec e id : emwf e -> (mem_id id (em_seen e) = true <-> holds (binds e) id).
Proof. intros H. apply (w_seen e H). Qed.
