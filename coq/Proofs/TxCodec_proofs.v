(* Proofs for C15 over Model/TxCodec.v:
     - decoding is canonical: decode bs = Ok m -> encode m = bs  (per-field lemmas p_*, composed with opt_field_canon
       along the sequential form of the generated decoding loop), for Base, SerializeTx, Transaction (+ the
       unsigned-bytes slicing), BatchedTransactions, Block, Result, ExecutionResults;
     - the concrete parsers (TypeParser, Transfer/linearcodec, the auth formats) are canonical;
     - round trip: decode (encode m) = Ok m for valid m (field_rt / opt_field_rt: a field is either omitted with
       its default or read back, and later fields start with a larger tag byte). *)
From Coq Require Import List ZArith NArith Bool Lia ZifyN ZifyNat ZifyBool.
Import ListNotations.
From HV Require Import Lib.Bytes Lib.U64 Lib.Varint Lib.Canoto Model.TxCodec.
Local Open Scope N_scope.

(* ---- generic field lemmas ----------------------------------------------------------------- *)

Lemma opt_field_canon {A} (tg : bytes) f (parse : bytes -> res (A * bytes)) dflt minf bs v m r
      (encf : A -> bytes) :
  (forall b v r, wf_bytes b -> parse b = Ok (v, r) -> tg ++ b = encf v ++ r) ->
  encf dflt = [] ->
  wf_bytes bs -> opt_field tg f parse dflt minf bs = Ok (v, m, r) ->
  bs = encf v ++ r /\ wf_bytes r.
Proof.
  intros Hp Hd Hwf. unfold opt_field. destruct (has_prefix bs tg) eqn:Ep.
  - unfold bind. destruct (parse (skipn (length tg) bs)) as [[v' r']|] eqn:E; [|discriminate].
    intros H; inversion H; subst.
    pose proof (has_prefix_split bs tg Ep) as Hs.
    pose proof (Hp _ _ _ (wf_skipn _ _ Hwf) E) as Heq.
    assert (Hbs : bs = encf v ++ r) by (rewrite Hs; exact Heq).
    split; [exact Hbs|]. rewrite Hbs in Hwf. apply wf_app in Hwf. tauto.
  - intros H; inversion H; subst. rewrite Hd. split; [reflexivity | exact Hwf].
Qed.

Lemma is_nil_false {A} (l : list A) : is_nil l = false -> l <> [].
Proof. destruct l; [discriminate | intros _ H; discriminate H]. Qed.

(* field encoders *)
Definition enc_int_field (tg : bytes) (z : Z) : bytes := if (z =? 0)%Z then [] else tg ++ enc_int64 z.
Definition enc_uint_field (tg : bytes) (v : N) : bytes := if v =? 0 then [] else tg ++ enc_uint v.
Definition enc_bool_field (tg : bytes) (b : bool) : bytes := if b then tg ++ [1] else [].

Lemma p_int64 tg b z r : wf_bytes b -> read_int64_nz b = Ok (z, r) -> tg ++ b = enc_int_field tg z ++ r.
Proof.
  intros Hwf. unfold read_int64_nz, bind. destruct (read_int64 b) as [[z' r']|] eqn:E; [|discriminate].
  destruct (Z.eqb_spec z' 0) as [|Hz]; [discriminate|]. intros H; inversion H; subst.
  unfold enc_int_field. destruct (Z.eqb_spec z 0) as [|_]; [contradiction|].
  rewrite (read_int64_canon _ _ _ Hwf E), <- app_assoc. reflexivity.
Qed.

Lemma p_uint64 tg b v r : wf_bytes b -> read_uint64_nz b = Ok (v, r) -> tg ++ b = enc_uint_field tg v ++ r.
Proof.
  intros Hwf. unfold read_uint64_nz, bind. destruct (read_uvar 64 b) as [[v' r']|] eqn:E; [|discriminate].
  destruct (N.eqb_spec v' 0) as [|Hz]; [discriminate|]. intros H; inversion H; subst.
  unfold enc_uint_field, enc_uint. destruct (N.eqb_spec v 0) as [|_]; [contradiction|].
  destruct (read_uvar_canon _ _ _ _ Hwf E) as [Hb _]. rewrite Hb, <- app_assoc. reflexivity.
Qed.

Lemma p_fint64 tg b v r : wf_bytes b -> read_fint64_nz b = Ok (v, r) -> tg ++ b = enc_fint_field tg v ++ r.
Proof.
  intros Hwf. unfold read_fint64_nz, bind. destruct (read_fint64 b) as [[v' r']|] eqn:E; [|discriminate].
  destruct (N.eqb_spec v' 0) as [|Hz]; [discriminate|]. intros H; inversion H; subst.
  unfold enc_fint_field. destruct (N.eqb_spec v 0) as [|_]; [contradiction|].
  rewrite (read_fint64_canon _ _ _ Hwf E), <- app_assoc. reflexivity.
Qed.

Lemma p_fixed tg n b v r : wf_bytes b -> read_fixed_bytes n b = Ok (v, r) -> tg ++ b = enc_fixed_field tg v ++ r.
Proof.
  intros Hwf H. destruct (read_fixed_bytes_canon _ _ _ _ Hwf H) as (Hb & _ & Hz).
  unfold enc_fixed_field. rewrite Hz, Hb, <- app_assoc. reflexivity.
Qed.

Lemma p_bytes tg b v r : wf_bytes b -> read_bytes_nz b = Ok (v, r) -> tg ++ b = enc_msg_field tg v ++ r.
Proof.
  intros Hwf. unfold read_bytes_nz, bind. destruct (read_bytes b) as [[v' r']|] eqn:E; [|discriminate].
  destruct (is_nil v') eqn:En; [discriminate|]. intros H; inversion H; subst.
  unfold enc_msg_field. rewrite En.
  destruct (read_bytes_canon _ _ _ Hwf E) as [Hb _]. rewrite Hb, <- app_assoc. reflexivity.
Qed.

Lemma p_msg {A} tg (dec : bytes -> res A) (enc : A -> bytes) b a r :
  (forall m a, wf_bytes m -> dec m = Ok a -> enc a = m) ->
  wf_bytes b -> read_msg dec b = Ok (a, r) -> tg ++ b = enc_msg_field tg (enc a) ++ r.
Proof.
  intros Hdec Hwf. unfold read_msg, bind. destruct (read_bytes b) as [[m r']|] eqn:E; [|discriminate].
  destruct (is_nil m) eqn:En; [discriminate|].
  destruct (dec m) as [a'|] eqn:Ed; [|discriminate]. intros H; inversion H; subst.
  destruct (read_bytes_wf _ _ _ Hwf E) as [Hwm _].
  rewrite (Hdec _ _ Hwm Ed). unfold enc_msg_field. rewrite En.
  destruct (read_bytes_canon _ _ _ Hwf E) as [Hb _]. rewrite Hb, <- app_assoc. reflexivity.
Qed.

Lemma p_repeated tg b es r : wf_bytes b -> read_repeated tg b = Ok (es, r) -> tg ++ b = enc_repeated tg es ++ r.
Proof.
  intros Hwf H. destruct (read_repeated_canon _ _ _ _ Hwf H) as (e & es' & -> & Hb).
  rewrite Hb. cbn [enc_repeated flat_map]. rewrite <- !app_assoc. reflexivity.
Qed.

Lemma p_bool tg b v r : wf_bytes b -> read_bool_nz b = Ok (v, r) -> tg ++ b = enc_bool_field tg v ++ r.
Proof.
  intros Hwf. unfold read_bool_nz, read_bool, bind. destruct b as [|x b']; [discriminate|].
  destruct (N.ltb_spec 1 x) as [|Hx]; [discriminate|].
  destruct (N.eqb_spec x 1) as [->|Hx1]; [|discriminate].
  intros H; inversion H; subst. unfold enc_bool_field. rewrite <- app_assoc. reflexivity.
Qed.

(* reading a repeated field hands back well-formed entries *)
Lemma read_more_wf fuel tg : forall bs es r,
  wf_bytes bs -> read_more fuel tg bs = Ok (es, r) -> Forall wf_bytes es.
Proof.
  induction fuel as [|fuel IH]; intros bs es r Hwf H; cbn [read_more] in H.
  - inversion H; subst. constructor.
  - destruct (has_prefix bs tg) eqn:Ep.
    + unfold bind in H.
      destruct (read_bytes (skipn (length tg) bs)) as [[e r1]|] eqn:E1; [|discriminate].
      destruct (read_more fuel tg r1) as [[es' r2]|] eqn:E2; [|discriminate].
      inversion H; subst.
      destruct (read_bytes_wf _ _ _ (wf_skipn _ _ Hwf) E1) as [He Hr1].
      constructor; [exact He | exact (IH _ _ _ Hr1 E2)].
    + inversion H; subst. constructor.
Qed.

Lemma read_repeated_wf tg b es r : wf_bytes b -> read_repeated tg b = Ok (es, r) -> Forall wf_bytes es.
Proof.
  intros Hwf. unfold read_repeated, bind.
  destruct (read_bytes b) as [[e r1]|] eqn:E1; [|discriminate].
  destruct (read_more (length r1) tg r1) as [[es' r2]|] eqn:E2; [|discriminate].
  intros H; inversion H; subst.
  destruct (read_bytes_wf _ _ _ Hwf E1) as [He Hr1].
  constructor; [exact He | exact (read_more_wf _ _ _ _ _ Hr1 E2)].
Qed.

Lemma opt_field_repeated_wf tg f minf bs es m r :
  wf_bytes bs -> opt_field tg f (read_repeated tg) [] minf bs = Ok (es, m, r) -> Forall wf_bytes es.
Proof.
  intros Hwf. unfold opt_field. destruct (has_prefix bs tg).
  - unfold bind. destruct (read_repeated tg (skipn (length tg) bs)) as [[v' r']|] eqn:E; [|discriminate].
    intros H; inversion H; subst. exact (read_repeated_wf _ _ _ _ (wf_skipn _ _ Hwf) E).
  - intros H; inversion H; subst. constructor.
Qed.

(* ---- Base --------------------------------------------------------------------------------- *)

Ltac step3 H v m r E :=
  match type of H with
  | bind ?X _ = Ok _ => destruct X as [[[v m] r]|] eqn:E; [cbn [bind] in H | discriminate H]
  end.
Ltac step1 H v E :=
  match type of H with
  | bind ?X _ = Ok _ => destruct X as [v|] eqn:E; [cbn [bind] in H | discriminate H]
  end.

Lemma decode_base_canon bs b : wf_bytes bs -> decode_base bs = Ok b -> encode_base b = bs.
Proof.
  intros Hwf H. unfold decode_base in H.
  step3 H ts m1 r1 E1. step3 H ch m2 r2 E2. step3 H fee m3 r3 E3. step1 H u EL. destruct u.
  inversion H; subst b. clear H.
  destruct (opt_field_canon _ _ _ 0%Z _ _ _ _ _ (enc_int_field (tag 1 WT_VARINT)) (p_int64 _) eq_refl Hwf E1) as [H1 W1].
  destruct (opt_field_canon _ _ _ (zeros 32) _ _ _ _ _ (enc_fixed_field (tag 2 WT_LEN)) (p_fixed _ 32) eq_refl W1 E2) as [H2 W2].
  destruct (opt_field_canon _ _ _ 0 _ _ _ _ _ (enc_fint_field (tag 3 WT_I64)) (p_fint64 _) eq_refl W2 E3) as [H3 W3].
  apply leftover_ok in EL. subst.
  unfold encode_base. cbn [b_ts b_chain b_fee]. rewrite app_nil_r. reflexivity.
Qed.

(* ---- small list / byte helpers ------------------------------------------------------------- *)

Lemma blen_app (a b : bytes) : blen (a ++ b) = blen a + blen b.
Proof. unfold blen. rewrite app_length. lia. Qed.

Lemma take_app_exact (a b : bytes) : take (blen (a ++ b) - blen b) (a ++ b) = a.
Proof.
  unfold take. rewrite blen_app. replace (blen a + blen b - blen b) with (blen a) by lia.
  unfold blen. rewrite Nat2N.id.
  replace (length a) with (length a + 0)%nat by lia. rewrite firstn_app_2. cbn [firstn]. apply app_nil_r.
Qed.

Lemma wf_enc_bytes_inv (b : bytes) : wf_bytes (enc_bytes b) -> wf_bytes b.
Proof. unfold enc_bytes. intros H. apply wf_app in H. tauto. Qed.

Lemma wf_enc_msg_field_inv tg (b : bytes) : wf_bytes (enc_msg_field tg b) -> wf_bytes b.
Proof.
  unfold enc_msg_field. destruct b as [|x b]; cbn [is_nil]; [intros _; constructor|].
  intros H. apply wf_app in H. destruct H as [_ H]. apply wf_enc_bytes_inv. exact H.
Qed.

Lemma wf_enc_repeated_inv tg es : wf_bytes (enc_repeated tg es) -> Forall wf_bytes es.
Proof.
  induction es as [|e es IH]; intros H; [constructor|].
  cbn [enc_repeated flat_map] in H. apply wf_app in H. destruct H as [H1 H2].
  apply wf_app in H1. destruct H1 as [_ H1].
  constructor; [apply wf_enc_bytes_inv; exact H1 | apply IH; exact H2].
Qed.

(* ---- SerializeTx --------------------------------------------------------------------------- *)

Lemma decode_stx_canon bs s : wf_bytes bs -> decode_stx bs = Ok s -> encode_stx s = bs.
Proof.
  intros Hwf H. unfold decode_stx in H.
  step3 H b m1 r1 E1. step3 H acts m2 r2 E2. step3 H auth m3 r3 E3. step1 H u EL. destruct u.
  inversion H; subst s. clear H.
  destruct (opt_field_canon _ _ _ base_zero _ _ _ _ _
              (fun b => enc_msg_field (tag 1 WT_LEN) (encode_base b))
              (fun b v r => p_msg _ decode_base encode_base b v r decode_base_canon) eq_refl Hwf E1) as [H1 W1].
  destruct (opt_field_canon _ _ _ [] _ _ _ _ _ (enc_repeated (tag 2 WT_LEN)) (p_repeated _) eq_refl W1 E2) as [H2 W2].
  destruct (opt_field_canon _ _ _ [] _ _ _ _ _ (enc_msg_field (tag 3 WT_LEN)) (p_bytes _) eq_refl W2 E3) as [H3 W3].
  apply leftover_ok in EL. subst.
  unfold encode_stx. cbn [s_base s_actions s_auth]. rewrite app_nil_r. reflexivity.
Qed.

Lemma decode_stx_wf bs s : wf_bytes bs -> decode_stx bs = Ok s ->
  Forall wf_bytes (s_actions s) /\ wf_bytes (s_auth s).
Proof.
  intros Hwf H. pose proof (decode_stx_canon _ _ Hwf H) as Hc. rewrite <- Hc in Hwf.
  unfold encode_stx in Hwf. apply wf_app in Hwf. destruct Hwf as [_ Hwf].
  apply wf_app in Hwf. destruct Hwf as [Ha Hu]. split.
  - apply (wf_enc_repeated_inv _ _ Ha).
  - apply (wf_enc_msg_field_inv _ _ Hu).
Qed.

(* ---- Transaction, batch, block -------------------------------------------------------------- *)

Section TxProofs.
  Variables (A U : Type).
  Variable parse_action : bytes -> option A.
  Variable action_bytes : A -> bytes.
  Variable parse_auth : bytes -> option U.
  Variable auth_bytes : U -> bytes.

  Notation txT := (tx A U).
  Notation dec_tx := (decode_tx A U parse_action parse_auth).
  Notation enc_tx := (encode_tx A U action_bytes auth_bytes).
  Notation unsigned := (unsigned_of A action_bytes).

  (* NewTransaction(t.Base, t.Actions, t.Auth).Bytes(): the re-encoding from the parsed parts *)
  Definition reenc_tx (t : txT) : bytes := enc_tx (x_base t) (x_actions t) (x_auth t).

  Definition auth_suffix (au : bytes) : N := blen (tag 3 WT_LEN) + (uvarint_len (blen au) + blen au).

  (* what an accepted transaction consists of (no hypothesis on the parsers) *)
  Lemma decode_tx_inv bs t : dec_tx bs = Ok t ->
    exists s, decode_stx bs = Ok s /\ parse_actions A parse_action (s_actions s) = Ok (x_actions t) /\
      parse_auth (s_auth s) = Some (x_auth t) /\ x_base t = s_base s /\ x_bytes t = bs /\
      x_unsigned t = (if is_nil (s_auth s) then bs else take (blen bs - auth_suffix (s_auth s)) bs).
  Proof.
    unfold decode_tx. intros H. step1 H s Es. step1 H acts Ea.
    destruct (parse_auth (s_auth s)) as [au|] eqn:Eu; [|discriminate H].
    exists s. fold (auth_suffix (s_auth s)) in H.
    destruct (is_nil (s_auth s)) eqn:En.
    - inversion H; subst t. cbn. repeat split; reflexivity || assumption.
    - destruct (blen bs <? auth_suffix (s_auth s)); [discriminate H|].
      inversion H; subst t. cbn. repeat split; reflexivity || assumption.
  Qed.

  Lemma decode_tx_bytes bs t : dec_tx bs = Ok t -> x_bytes t = bs.
  Proof. intros H. destruct (decode_tx_inv _ _ H) as (s & _ & _ & _ & _ & Hb & _). exact Hb. Qed.

  Lemma auth_suffix_len au : auth_suffix au = blen (tag 3 WT_LEN ++ enc_bytes au).
  Proof.
    unfold auth_suffix, enc_bytes. rewrite !blen_app. rewrite <- uvarint_enc_length. reflexivity.
  Qed.

  Hypothesis action_canon : forall b a, wf_bytes b -> parse_action b = Some a -> action_bytes a = b.
  Hypothesis auth_canon : forall b u, wf_bytes b -> parse_auth b = Some u -> auth_bytes u = b.

  Lemma parse_actions_canon l : forall acts, Forall wf_bytes l ->
    parse_actions A parse_action l = Ok acts -> map action_bytes acts = l.
  Proof.
    induction l as [|b l IH]; intros acts Hwf H; cbn [parse_actions] in H.
    - inversion H; subst. reflexivity.
    - inversion Hwf as [|b' l' Hb Hl]; subst.
      destruct (parse_action b) as [a|] eqn:Ea; [|discriminate H].
      step1 H as' Eas. inversion H; subst acts. cbn [map].
      rewrite (action_canon _ _ Hb Ea), (IH _ Hl eq_refl). reflexivity.
  Qed.

  (* the parts of an accepted transaction are exactly the parts of the decoded SerializeTx *)
  Lemma decode_tx_stx bs t : wf_bytes bs -> dec_tx bs = Ok t ->
    exists s, decode_stx bs = Ok s /\ encode_stx s = bs /\
      s = mkStx (x_base t) (map action_bytes (x_actions t)) (auth_bytes (x_auth t)) /\
      x_unsigned t = (if is_nil (s_auth s) then bs else take (blen bs - auth_suffix (s_auth s)) bs).
  Proof.
    intros Hwf H. destruct (decode_tx_inv _ _ H) as (s & Hs & Ha & Hu & Hb & _ & Hun).
    exists s. destruct (decode_stx_wf _ _ Hwf Hs) as [Wa Wu].
    split; [exact Hs|]. split; [exact (decode_stx_canon _ _ Hwf Hs)|]. split; [|exact Hun].
    rewrite (parse_actions_canon _ _ Wa Ha), (auth_canon _ _ Wu Hu), Hb. destruct s; reflexivity.
  Qed.

  Lemma decode_tx_canon bs t : wf_bytes bs -> dec_tx bs = Ok t -> reenc_tx t = bs.
  Proof.
    intros Hwf H. destruct (decode_tx_stx _ _ Hwf H) as (s & _ & Hc & Hs & _).
    unfold reenc_tx, encode_tx. rewrite <- Hs. exact Hc.
  Qed.

  (* the signed message: sliced off the accepted bytes = encoding of base + actions without auth;
     the accepted bytes = signed message ++ auth field *)
  Lemma decode_tx_unsigned bs t : wf_bytes bs -> dec_tx bs = Ok t ->
    x_unsigned t = unsigned (x_base t) (x_actions t) /\
    bs = x_unsigned t ++ enc_msg_field (tag 3 WT_LEN) (auth_bytes (x_auth t)).
  Proof.
    intros Hwf H. destruct (decode_tx_stx _ _ Hwf H) as (s & _ & Hc & Hs & Hun).
    rewrite Hun. clear Hun. rewrite Hs in *. clear Hs. cbn [s_auth].
    unfold unsigned_of. unfold encode_stx in *. cbn [s_base s_actions s_auth] in *.
    set (F1 := enc_msg_field (tag 1 WT_LEN) (encode_base (x_base t))) in *.
    set (F2 := enc_repeated (tag 2 WT_LEN) (map action_bytes (x_actions t))) in *.
    change (enc_msg_field (tag 3 WT_LEN) []) with (@nil N). rewrite app_nil_r.
    unfold enc_msg_field at 1 in Hc. unfold enc_msg_field.
    destruct (is_nil (auth_bytes (x_auth t))) eqn:En.
    - rewrite app_nil_r in *. split; [symmetry; exact Hc | reflexivity].
    - rewrite auth_suffix_len. rewrite app_assoc in Hc. clear H Hwf. subst bs.
      rewrite take_app_exact. split; reflexivity.
  Qed.

  (* ---- entries of batches and blocks ---- *)

  Lemma decode_entries_bytes es : forall os ts,
    decode_entries A U parse_action parse_auth es = Ok os -> no_nil A U os = Ok ts ->
    map x_bytes ts = es /\ Forall (fun t => dec_tx (x_bytes t) = Ok t) ts.
  Proof.
    induction es as [|e es IH]; intros os ts Hd Hn; cbn [decode_entries] in Hd.
    - inversion Hd; subst os. cbn in Hn. inversion Hn; subst. split; [reflexivity | constructor].
    - step1 Hd o Eo. step1 Hd os' Eos. inversion Hd; subst os. clear Hd.
      destruct (is_nil e) eqn:En.
      + inversion Eo; subst o. cbn [no_nil] in Hn. discriminate Hn.
      + step1 Eo t Et. inversion Eo; subst o. cbn [no_nil] in Hn. step1 Hn ts' Ets.
        inversion Hn; subst ts. destruct (IH _ _ eq_refl Ets) as [Hm Hf].
        pose proof (decode_tx_bytes _ _ Et) as Hb. cbn [map]. split.
        * rewrite Hb, Hm. reflexivity.
        * constructor; [rewrite Hb; exact Et | exact Hf].
  Qed.

  Lemma entries_reenc ts : Forall wf_bytes (map x_bytes ts) ->
    Forall (fun t => dec_tx (x_bytes t) = Ok t) ts -> map reenc_tx ts = map x_bytes ts.
  Proof.
    induction ts as [|t ts IH]; intros Hwf Hf; [reflexivity|].
    cbn [map] in *. inversion Hwf as [|? ? Hw Hws]; subst. inversion Hf as [|? ? Ht Hts]; subst.
    rewrite (decode_tx_canon _ _ Hw Ht), (IH Hws Hts). reflexivity.
  Qed.

  (* ---- batch ---- *)

  Lemma decode_batch_canon bs ts : wf_bytes bs ->
    decode_batch A U parse_action parse_auth bs = Ok ts ->
    encode_batch A U ts = bs /\
    enc_repeated (tag 1 WT_LEN) (map reenc_tx ts) = bs /\
    Forall (fun t => dec_tx (x_bytes t) = Ok t) ts.
  Proof.
    intros Hwf H. unfold decode_batch in H.
    step3 H es m1 r1 E1. step1 H os Eo. step1 H u EL. destruct u.
    destruct (opt_field_canon _ _ _ [] _ _ _ _ _ (enc_repeated (tag 1 WT_LEN)) (p_repeated _) eq_refl Hwf E1) as [H1 W1].
    apply leftover_ok in EL. subst r1. rewrite app_nil_r in H1.
    destruct (decode_entries_bytes _ _ _ Eo H) as [Hm Hf].
    assert (Hes : Forall wf_bytes es) by (apply (wf_enc_repeated_inv (tag 1 WT_LEN)); rewrite <- H1; exact Hwf).
    unfold encode_batch. rewrite entries_reenc by (rewrite ?Hm; assumption).
    rewrite Hm. repeat split; auto.
  Qed.

  (* ---- block ---- *)

  Lemma decode_ctx_canon bs c : wf_bytes bs -> decode_ctx bs = Ok c -> encode_ctx c = bs.
  Proof.
    intros Hwf H. unfold decode_ctx in H. step3 H h m1 r1 E1. step1 H u EL. destruct u.
    inversion H; subst c. clear H.
    destruct (opt_field_canon _ _ _ 0 _ _ _ _ _ (enc_uint_field (tag 1 WT_VARINT)) (p_uint64 _) eq_refl Hwf E1) as [H1 W1].
    apply leftover_ok in EL. subst. rewrite app_nil_r. reflexivity.
  Qed.

  Definition reenc_block (k : block A U) : bytes :=
    encode_block A U (k_parent k) (k_ts k) (k_height k) (k_ctx k) (k_txs k) (k_root k).

  Lemma decode_block_canon bs k : wf_bytes bs ->
    decode_block A U parse_action parse_auth bs = Ok k ->
    reenc_block k = bs /\ k_bytes k = bs /\
    map reenc_tx (k_txs k) = map x_bytes (k_txs k) /\
    Forall (fun t => dec_tx (x_bytes t) = Ok t) (k_txs k).
  Proof.
    intros Hwf H. unfold decode_block in H.
    step3 H prnt m1 r1 E1. step3 H ts m2 r2 E2. step3 H h m3 r3 E3. step3 H ctx m4 r4 E4.
    step3 H es m5 r5 E5. step1 H os Eo. step3 H root m6 r6 E6. step1 H u EL. destruct u.
    step1 H txs En. inversion H; subst k. clear H.
    destruct (opt_field_canon _ _ _ (zeros 32) _ _ _ _ _ (enc_fixed_field (tag 1 WT_LEN)) (p_fixed _ 32) eq_refl Hwf E1) as [H1 W1].
    destruct (opt_field_canon _ _ _ 0 _ _ _ _ _ (enc_fint_field (tag 2 WT_I64)) (p_fint64 _) eq_refl W1 E2) as [H2 W2].
    destruct (opt_field_canon _ _ _ 0 _ _ _ _ _ (enc_fint_field (tag 3 WT_I64)) (p_fint64 _) eq_refl W2 E3) as [H3 W3].
    destruct (opt_field_canon _ _ _ None _ _ _ _ _
                (fun c => enc_msg_field (tag 4 WT_LEN) (encode_ctx c))
                (fun b v r => p_msg _ decode_ctx encode_ctx b v r decode_ctx_canon) eq_refl W3 E4) as [H4 W4].
    destruct (opt_field_canon _ _ _ [] _ _ _ _ _ (enc_repeated (tag 5 WT_LEN)) (p_repeated _) eq_refl W4 E5) as [H5 W5].
    destruct (opt_field_canon _ _ _ (zeros 32) _ _ _ _ _ (enc_fixed_field (tag 6 WT_LEN)) (p_fixed _ 32) eq_refl W5 E6) as [H6 W6].
    apply leftover_ok in EL. subst r6.
    destruct (decode_entries_bytes _ _ _ Eo En) as [Hm Hf].
    assert (Hes : Forall wf_bytes es).
    { apply (wf_enc_repeated_inv (tag 5 WT_LEN)). rewrite H5 in W4. apply wf_app in W4. tauto. }
    unfold reenc_block, encode_block. cbn [k_parent k_ts k_height k_ctx k_txs k_root k_bytes].
    split; [|split; [reflexivity|split; [apply entries_reenc; rewrite ?Hm; assumption | exact Hf]]].
    rewrite Hm. subst. rewrite app_nil_r. reflexivity.
  Qed.
End TxProofs.

(* ---- Result / ExecutionResults -------------------------------------------------------------- *)

Lemma read_fints_canon n : forall bs vs r,
  wf_bytes bs -> read_fints n bs = Ok (vs, r) -> bs = flat_map enc_fint64 vs ++ r /\ length vs = n.
Proof.
  induction n as [|n IH]; intros bs vs r Hwf H; cbn [read_fints] in H.
  - inversion H; subst. split; reflexivity.
  - unfold bind in H. destruct (read_fint64 bs) as [[v r1]|] eqn:E1; [|discriminate H].
    destruct (read_fints n r1) as [[vs' r2]|] eqn:E2; [|discriminate H].
    inversion H; subst vs r. clear H.
    pose proof (read_fint64_canon _ _ _ Hwf E1) as H1.
    assert (W1 : wf_bytes r1) by (rewrite H1 in Hwf; apply wf_app in Hwf; tauto).
    destruct (IH _ _ _ W1 E2) as [H2 HL]. cbn [flat_map length].
    split; [|rewrite HL; reflexivity]. rewrite H1, H2, <- app_assoc. reflexivity.
Qed.

Lemma p_dims tg b vs r : wf_bytes b -> read_dims b = Ok (vs, r) -> tg ++ b = enc_dims_field tg vs ++ r.
Proof.
  intros Hwf. unfold read_dims, bind. destruct (read_bytes b) as [[m r']|] eqn:E; [|discriminate].
  destruct (read_fints 5 m) as [[vs' rest]|] eqn:Ef; [|discriminate].
  destruct (is_nil rest) eqn:En; cbn [negb]; [|discriminate].
  destruct (dims_is_zero vs') eqn:Ez; [discriminate|]. intros H; inversion H; subst vs' r'. clear H.
  destruct (read_bytes_wf _ _ _ Hwf E) as [Wm _].
  destruct (read_fints_canon _ _ _ _ Wm Ef) as [Hm _].
  destruct rest; [|discriminate En]. rewrite app_nil_r in Hm.
  unfold enc_dims_field. rewrite Ez, <- Hm.
  destruct (read_bytes_canon _ _ _ Hwf E) as [Hb _]. rewrite Hb, <- app_assoc. reflexivity.
Qed.

Lemma decode_result_canon bs r : wf_bytes bs -> decode_result bs = Ok r -> encode_result r = bs.
Proof.
  intros Hwf H. unfold decode_result in H.
  step3 H ok m1 r1 E1. step3 H er m2 r2 E2. step3 H outs m3 r3 E3. step3 H units m4 r4 E4.
  step3 H fee m5 r5 E5. step1 H u EL. destruct u. inversion H; subst r. clear H.
  destruct (opt_field_canon _ _ _ false _ _ _ _ _ (enc_bool_field (tag 1 WT_VARINT)) (p_bool _) eq_refl Hwf E1) as [H1 W1].
  destruct (opt_field_canon _ _ _ [] _ _ _ _ _ (enc_msg_field (tag 2 WT_LEN)) (p_bytes _) eq_refl W1 E2) as [H2 W2].
  destruct (opt_field_canon _ _ _ [] _ _ _ _ _ (enc_repeated (tag 3 WT_LEN)) (p_repeated _) eq_refl W2 E3) as [H3 W3].
  destruct (opt_field_canon _ _ _ dims_zero _ _ _ _ _ (enc_dims_field (tag 4 WT_LEN)) (p_dims _) eq_refl W3 E4) as [H4 W4].
  destruct (opt_field_canon _ _ _ 0 _ _ _ _ _ (enc_fint_field (tag 5 WT_I64)) (p_fint64 _) eq_refl W4 E5) as [H5 W5].
  apply leftover_ok in EL. subst.
  unfold encode_result. cbn [rs_success rs_error rs_outputs rs_units rs_fee]. rewrite app_nil_r. reflexivity.
Qed.

Definition enc_result_entry (o : option result) : bytes :=
  match o with None => [] | Some r => encode_result r end.

Lemma decode_result_entries_canon es : forall os,
  Forall wf_bytes es -> decode_result_entries es = Ok os -> map enc_result_entry os = es.
Proof.
  induction es as [|e es IH]; intros os Hwf H; cbn [decode_result_entries] in H.
  - inversion H; subst. reflexivity.
  - inversion Hwf as [|? ? He Hes]; subst.
    step1 H o Eo. step1 H os' Eos. inversion H; subst os. clear H. cbn [map].
    rewrite (IH _ Hes eq_refl). f_equal.
    destruct (is_nil e) eqn:En.
    + inversion Eo; subst o. destruct e; [reflexivity | discriminate En].
    + step1 Eo r Er. inversion Eo; subst o. cbn [enc_result_entry].
      apply decode_result_canon; assumption.
Qed.

Lemma decode_results_canon bs e : wf_bytes bs -> decode_results bs = Ok e -> encode_results e = bs.
Proof.
  intros Hwf H. unfold decode_results in H.
  step3 H es m1 r1 E1. step1 H os Eo. step3 H pr m2 r2 E2. step3 H co m3 r3 E3. step1 H u EL. destruct u.
  inversion H; subst e. clear H.
  destruct (opt_field_canon _ _ _ [] _ _ _ _ _ (enc_repeated (tag 1 WT_LEN)) (p_repeated _) eq_refl Hwf E1) as [H1 W1].
  destruct (opt_field_canon _ _ _ dims_zero _ _ _ _ _ (enc_dims_field (tag 2 WT_LEN)) (p_dims _) eq_refl W1 E2) as [H2 W2].
  destruct (opt_field_canon _ _ _ dims_zero _ _ _ _ _ (enc_dims_field (tag 3 WT_LEN)) (p_dims _) eq_refl W2 E3) as [H3 W3].
  apply leftover_ok in EL. subst r3.
  assert (Hes : Forall wf_bytes es).
  { apply (wf_enc_repeated_inv (tag 1 WT_LEN)). rewrite H1 in Hwf. apply wf_app in Hwf. tauto. }
  unfold encode_results. cbn [er_results er_prices er_consumed].
  fold enc_result_entry. rewrite (decode_result_entries_canon _ _ Hes Eo).
  subst. rewrite app_nil_r. reflexivity.
Qed.

(* ---- concrete parsers: TypeParser, Transfer (linearcodec), the auth formats ------------------ *)

Lemma be_enc_dec (l : bytes) : wf_bytes l -> be_enc (length l) (be_dec l) = l.
Proof.
  induction l as [|b l IH] using rev_ind; intros Hwf; [reflexivity|].
  apply wf_app in Hwf. destruct Hwf as [Hl Hb]. inversion Hb as [|? ? Hb' _]; subst.
  rewrite app_length. cbn [length]. rewrite Nat.add_1_r. cbn [be_enc]. rewrite be_dec_app.
  assert (Hd : (be_dec l * 256 + b) / 256 = be_dec l).
  { rewrite N.div_add_l by lia. rewrite N.div_small by exact Hb'. lia. }
  assert (Hm : (be_dec l * 256 + b) mod 256 = b).
  { rewrite N.add_comm, N.mod_add by lia. apply N.mod_small. exact Hb'. }
  rewrite Hd, Hm, (IH Hl). reflexivity.
Qed.

Lemma blen_take n bs : n <= blen bs -> blen (take n bs) = n.
Proof. intros H. unfold blen at 1. rewrite take_length by exact H. lia. Qed.

Lemma blen_drop n bs : blen (drop n bs) = blen bs - n.
Proof. unfold blen, drop. rewrite skipn_length. lia. Qed.

Lemma wf_take n bs : wf_bytes bs -> wf_bytes (take n bs).
Proof. apply wf_firstn. Qed.
Lemma wf_drop n bs : wf_bytes bs -> wf_bytes (drop n bs).
Proof. apply wf_skipn. Qed.

(* UnmarshalTransfer accepts only Transfer.Bytes() of the value it returns *)
Lemma parse_transfer_canon b t : wf_bytes b -> parse_transfer b = Some t -> transfer_bytes t = b.
Proof.
  intros Hwf H. unfold parse_transfer in H. destruct b as [|id p]; [discriminate H|].
  inversion Hwf as [|? ? _ Wp]; subst.
  destruct (N.eqb_spec id TransferID) as [->|]; cbn [negb] in H; [|discriminate H].
  destruct (N.ltb_spec (blen p) AddressLen) as [|L1]; [discriminate H|].
  set (p1 := drop AddressLen p) in *.
  destruct (N.ltb_spec (blen p1) 8) as [|L2]; [discriminate H|].
  set (p2 := drop 8 p1) in *.
  destruct (N.ltb_spec (blen p2) 4) as [|L3]; [discriminate H|].
  set (p3 := drop 4 p2) in *.
  destruct (MaxInt32 <? be_dec (take 4 p2)); [discriminate H|].
  destruct (N.ltb_spec (blen p3) (be_dec (take 4 p2))) as [|L4]; [discriminate H|].
  destruct (N.eqb_spec (blen p3) (be_dec (take 4 p2))) as [L5|]; cbn [negb] in H; [|discriminate H].
  destruct (MaxMemoSize <? be_dec (take 4 p2)); [discriminate H|].
  inversion H; subst t. clear H. unfold transfer_bytes. cbn [tr_to tr_value tr_memo app].
  f_equal. rewrite L5.
  pose proof (take_length 8 p1 L2) as T8. change (N.to_nat 8) with 8%nat in T8.
  pose proof (take_length 4 p2 L3) as T4. change (N.to_nat 4) with 4%nat in T4.
  rewrite <- T8 at 1. rewrite be_enc_dec by (apply wf_take, wf_drop; exact Wp).
  rewrite <- T4 at 1. rewrite be_enc_dec by (apply wf_take, wf_drop, wf_drop; exact Wp).
  subst p3. rewrite take_drop. subst p2. rewrite take_drop. subst p1. apply take_drop.
Qed.

(* codec.TypeParser dispatches on the first byte and hands the whole slice to the decoder *)
Lemma type_parser_canon {T} (bytes_of : T -> bytes) (reg : list (N * (bytes -> option T))) :
  Forall (fun e => forall b a, wf_bytes b -> snd e b = Some a -> bytes_of a = b) reg ->
  forall b a, wf_bytes b -> type_parser reg b = Some a -> bytes_of a = b.
Proof.
  intros Hreg b a Hwf H. unfold type_parser in H. destruct b as [|id p]; [discriminate H|].
  destruct (lookup id reg) as [f|] eqn:El; [|discriminate H].
  revert El. induction Hreg as [|[i g] reg' Hg _ IH]; cbn [lookup]; [discriminate|].
  destruct (i =? id); [|exact IH]. intros E; inversion E; subst g. exact (Hg _ _ Hwf H).
Qed.

Lemma morpheus_action_canon b a : wf_bytes b -> morpheus_action_parser b = Some a -> transfer_bytes a = b.
Proof.
  unfold morpheus_action_parser. apply type_parser_canon.
  constructor; [|constructor]. cbn [snd]. exact parse_transfer_canon.
Qed.

(* the auth formats: an auth is its byte string *)
Lemma parse_fixed_auth_canon id size extra b a : parse_fixed_auth id size extra b = Some a -> a = b.
Proof.
  unfold parse_fixed_auth. destruct (negb (blen b =? size)); [discriminate|].
  destruct b as [|i p]; [discriminate|]. destruct (negb (i =? id)); [discriminate|].
  destruct (extra (i :: p)); [|discriminate]. intros H; inversion H; reflexivity.
Qed.

Definition auth_id_bytes (a : bytes) : bytes := a.

Lemma morpheus_auth_canon bls_ok b a : wf_bytes b -> morpheus_auth_parser bls_ok b = Some a -> auth_id_bytes a = b.
Proof.
  unfold morpheus_auth_parser. apply (type_parser_canon auth_id_bytes).
  repeat constructor; cbn [snd]; intros b' a' _ H'; exact (parse_fixed_auth_canon _ _ _ _ _ H').
Qed.

(* ---- packaging for Props/C15.v -------------------------------------------------------------- *)

(* a parser is canonical when it accepts only the canonical bytes of the value it returns *)
Definition canonical_parser {T} (parse : bytes -> option T) (bytes_of : T -> bytes) : Prop :=
  forall b a, wf_bytes b -> parse b = Some a -> bytes_of a = b.

Definition wf_bytesb (bs : bytes) : bool := forallb (fun b => b <? 256) bs.
Lemma wf_bytesb_ok bs : wf_bytesb bs = true -> wf_bytes bs.
Proof.
  unfold wf_bytesb, wf_bytes. rewrite forallb_forall, Forall_forall.
  intros H x Hx. apply N.ltb_lt. exact (H x Hx).
Qed.

(* ============================================================================================ *)
(* ---- round trip: decode (encode m) = Ok m for valid m --------------------------------------- *)

Definition hd_gt (k : N) (bs : bytes) : Prop := match bs with [] => True | b :: _ => k < b end.

Lemma hd_gt_no_prefix k bs : hd_gt k bs -> has_prefix bs [k] = false.
Proof.
  destruct bs as [|b bs]; cbn [hd_gt has_prefix]; [reflexivity|].
  intros H. destruct (N.eqb_spec b k); [lia | reflexivity].
Qed.

(* [F] is the encoding of the field with one-byte tag [t] holding [v]: either omitted (v is the default)
   or the tag followed by a body from which [parse] reads v back, whatever follows (as long as what
   follows does not start with a tag <= t) *)
Definition field_rt {A} (t : N) (parse : bytes -> res (A * bytes)) (dflt : A) (F : bytes) (v : A) : Prop :=
  (F = [] /\ v = dflt) \/
  (exists body, F = t :: body /\ forall rest, hd_gt t rest -> parse (body ++ rest) = Ok (v, rest)).

Lemma opt_field_rt {A} t f (parse : bytes -> res (A * bytes)) dflt minf F v rest :
  field_rt t parse dflt F v -> hd_gt t rest ->
  exists m, opt_field [t] f parse dflt minf (F ++ rest) = Ok (v, m, rest).
Proof.
  intros [[-> ->] | (body & -> & Hp)] Hr; unfold opt_field.
  - cbn [app]. rewrite (hd_gt_no_prefix _ _ Hr). eexists; reflexivity.
  - cbn [app has_prefix]. rewrite N.eqb_refl. cbn [andb length skipn].
    rewrite (Hp _ Hr). cbn [bind]. eexists; reflexivity.
Qed.

Lemma field_rt_hd {A} k t (parse : bytes -> res (A * bytes)) dflt F v rest :
  field_rt t parse dflt F v -> k < t -> hd_gt k rest -> hd_gt k (F ++ rest).
Proof.
  intros [[-> _] | (body & -> & _)] Hk Hr; cbn [app hd_gt]; assumption.
Qed.

(* ---- primitives ---- *)

Lemma read_uvar_enc bits n rest :
  bits <= 64 -> n < 2 ^ bits -> read_uvar bits (uvarint_enc n ++ rest) = Ok (n, rest).
Proof. intros Hb Hn. unfold read_uvar. rewrite read_uint_enc by assumption. reflexivity. Qed.

Lemma firstn_len_app (m rest : bytes) : firstn (length m) (m ++ rest) = m.
Proof.
  replace (length m) with (length m + 0)%nat by lia. rewrite firstn_app_2. cbn [firstn]. apply app_nil_r.
Qed.
Lemma skipn_len_app (m rest : bytes) : skipn (length m) (m ++ rest) = rest.
Proof. rewrite skipn_app, skipn_all, Nat.sub_diag. reflexivity. Qed.
Lemma take_blen_app (m rest : bytes) : take (blen m) (m ++ rest) = m.
Proof. unfold take, blen. rewrite Nat2N.id. apply firstn_len_app. Qed.
Lemma drop_blen_app (m rest : bytes) : drop (blen m) (m ++ rest) = rest.
Proof. unfold drop, blen. rewrite Nat2N.id. apply skipn_len_app. Qed.
Lemma blen_app_ltb (m rest : bytes) : (blen (m ++ rest) <? blen m) = false.
Proof. apply N.ltb_ge. rewrite blen_app. lia. Qed.

Lemma read_bytes_enc b rest : blen b < 2 ^ 64 -> read_bytes (enc_bytes b ++ rest) = Ok (b, rest).
Proof.
  intros Hb. unfold read_bytes, enc_bytes. rewrite <- app_assoc, read_uvar_enc by (assumption || lia).
  cbn [bind]. rewrite blen_app_ltb, take_blen_app, drop_blen_app. reflexivity.
Qed.

Lemma le_enc_length n : forall v, length (le_enc n v) = n.
Proof. induction n as [|n IH]; intros v; cbn [le_enc length]; [reflexivity | rewrite IH; reflexivity]. Qed.

Lemma le_dec_enc n : forall v, le_dec (le_enc n v) = v mod 256 ^ N.of_nat n.
Proof.
  induction n as [|n IH]; intros v.
  - cbn. rewrite N.mod_1_r. reflexivity.
  - cbn [le_enc le_dec]. rewrite IH.
    replace (N.of_nat (S n)) with (N.succ (N.of_nat n)) by lia.
    rewrite N.pow_succ_r'.
    assert (Hp : 256 ^ N.of_nat n <> 0) by (apply N.pow_nonzero; lia).
    rewrite N.mod_mul_r by lia. lia.
Qed.

Lemma read_fint64_enc v rest : v < 2 ^ 64 -> read_fint64 (enc_fint64 v ++ rest) = Ok (v, rest).
Proof.
  intros Hv. unfold read_fint64, enc_fint64.
  assert (HL : blen (le_enc 8 v) = 8) by (unfold blen; rewrite le_enc_length; reflexivity).
  destruct (N.ltb_spec (blen (le_enc 8 v ++ rest)) 8) as [Hlt|_]; [rewrite blen_app in Hlt; lia|].
  rewrite <- HL at 1 2. rewrite take_blen_app, drop_blen_app, le_dec_enc.
  change (256 ^ N.of_nat 8) with (2 ^ 64). rewrite N.mod_small by exact Hv. reflexivity.
Qed.

Definition int64_ok (z : Z) : bool := ((-9223372036854775808 <=? z) && (z <? 9223372036854775808))%Z.

Lemma zigzag_fits z : int64_ok z = true -> zigzag z < 2 ^ 64.
Proof.
  unfold int64_ok. rewrite andb_true_iff, Z.leb_le, Z.ltb_lt. intros [H1 H2].
  change (2 ^ 64) with 18446744073709551616. unfold zigzag. destruct (Z.leb_spec 0 z); lia.
Qed.

(* ---- field kinds ---- *)

Lemma frt_int t z : int64_ok z = true -> field_rt t read_int64_nz 0%Z (enc_int_field [t] z) z.
Proof.
  intros Hz. unfold enc_int_field. destruct (Z.eqb_spec z 0) as [->|Hnz]; [left; split; reflexivity|].
  right. exists (enc_int64 z). split; [reflexivity|]. intros rest _.
  unfold read_int64_nz, read_int64, enc_int64.
  rewrite read_uvar_enc by (lia || apply zigzag_fits; exact Hz). cbn [bind].
  rewrite unzigzag_zigzag. destruct (Z.eqb_spec z 0); [contradiction | reflexivity].
Qed.

Lemma frt_uint t v : v < 2 ^ 64 -> field_rt t read_uint64_nz 0 (enc_uint_field [t] v) v.
Proof.
  intros Hv. unfold enc_uint_field. destruct (N.eqb_spec v 0) as [->|Hnz]; [left; split; reflexivity|].
  right. exists (enc_uint v). split; [reflexivity|]. intros rest _.
  unfold read_uint64_nz, enc_uint. rewrite read_uvar_enc by (lia || exact Hv). cbn [bind].
  destruct (N.eqb_spec v 0); [contradiction | reflexivity].
Qed.

Lemma frt_fint t v : v < 2 ^ 64 -> field_rt t read_fint64_nz 0 (enc_fint_field [t] v) v.
Proof.
  intros Hv. unfold enc_fint_field. destruct (N.eqb_spec v 0) as [->|Hnz]; [left; split; reflexivity|].
  right. exists (enc_fint64 v). split; [reflexivity|]. intros rest _.
  unfold read_fint64_nz. rewrite read_fint64_enc by exact Hv. cbn [bind].
  destruct (N.eqb_spec v 0); [contradiction | reflexivity].
Qed.

Lemma all_zero_zeros (v : bytes) : all_zero v = true -> v = zeros (length v).
Proof.
  induction v as [|b v IH]; [reflexivity|]. cbn [all_zero forallb length zeros repeat].
  rewrite andb_true_iff, N.eqb_eq. intros [-> H]. f_equal. apply IH. exact H.
Qed.

Lemma frt_fixed t (n : nat) v : length v = n -> N.of_nat n < 2 ^ 64 ->
  field_rt t (read_fixed_bytes (N.of_nat n)) (zeros n) (enc_fixed_field [t] v) v.
Proof.
  intros HL Hn. unfold enc_fixed_field. destruct (all_zero v) eqn:Ez.
  - left. split; [reflexivity|]. rewrite <- HL. apply all_zero_zeros. exact Ez.
  - right. exists (enc_bytes v). split; [reflexivity|]. intros rest _.
    assert (Hb : blen v = N.of_nat n) by (unfold blen; rewrite HL; reflexivity).
    unfold read_fixed_bytes, enc_bytes. rewrite <- app_assoc, read_uvar_enc by (lia || rewrite Hb; exact Hn).
    cbn [bind]. rewrite Hb, N.eqb_refl. cbn [negb]. rewrite <- Hb.
    rewrite blen_app_ltb, take_blen_app, drop_blen_app, Ez. reflexivity.
Qed.

Lemma frt_bytes t b : blen b < 2 ^ 64 -> field_rt t read_bytes_nz [] (enc_msg_field [t] b) b.
Proof.
  intros Hb. unfold enc_msg_field. destruct b as [|x b']; [left; split; reflexivity|].
  right. exists (enc_bytes (x :: b')). split; [reflexivity|]. intros rest _.
  unfold read_bytes_nz. rewrite read_bytes_enc by exact Hb. reflexivity.
Qed.

Lemma frt_msg {A} t (dec : bytes -> res A) (enc : A -> bytes) dflt a :
  (enc a = [] -> a = dflt) -> blen (enc a) < 2 ^ 64 -> dec (enc a) = Ok a ->
  field_rt t (read_msg dec) dflt (enc_msg_field [t] (enc a)) a.
Proof.
  intros Hd Hb Hdec. unfold enc_msg_field. destruct (enc a) as [|x m] eqn:Em.
  - left. split; [reflexivity | apply Hd; reflexivity].
  - right. exists (enc_bytes (x :: m)). split; [reflexivity|]. intros rest _.
    unfold read_msg. rewrite read_bytes_enc by exact Hb. cbn [bind is_nil]. rewrite Hdec. reflexivity.
Qed.

Definition small_list (es : list bytes) : Prop := Forall (fun e => blen e < 2 ^ 64) es.

Lemma read_more_enc t : forall es fuel rest,
  hd_gt t rest -> (length es <= fuel)%nat -> small_list es ->
  read_more fuel [t] (enc_repeated [t] es ++ rest) = Ok (es, rest).
Proof.
  induction es as [|e es IH]; intros fuel rest Hr Hf Hs.
  - cbn [enc_repeated flat_map app]. destruct fuel; cbn [read_more]; [reflexivity|].
    rewrite (hd_gt_no_prefix _ _ Hr). reflexivity.
  - destruct fuel as [|fuel]; [cbn [length] in Hf; lia|]. inversion Hs as [|? ? He Hes]; subst.
    cbn [enc_repeated flat_map]. fold (enc_repeated [t] es). rewrite <- !app_assoc.
    cbn [app read_more has_prefix]. rewrite N.eqb_refl. cbn [andb length skipn].
    rewrite read_bytes_enc by exact He. cbn [bind].
    rewrite (IH fuel rest Hr ltac:(cbn [length] in Hf; lia) Hes). reflexivity.
Qed.

Lemma enc_repeated_length t es : (length es <= length (enc_repeated [t] es))%nat.
Proof.
  induction es as [|e es IH]; [reflexivity|]. cbn [enc_repeated flat_map length].
  fold (enc_repeated [t] es). rewrite app_length. cbn [app length]. lia.
Qed.

Lemma frt_repeated t es : small_list es -> field_rt t (read_repeated [t]) [] (enc_repeated [t] es) es.
Proof.
  intros Hs. destruct es as [|e es]; [left; split; reflexivity|]. inversion Hs as [|? ? He Hes]; subst.
  right. exists (enc_bytes e ++ enc_repeated [t] es). split; [reflexivity|]. intros rest Hr.
  unfold read_repeated. rewrite <- app_assoc, read_bytes_enc by exact He. cbn [bind].
  rewrite read_more_enc; [reflexivity | exact Hr | | exact Hes].
  rewrite app_length. pose proof (enc_repeated_length t es). lia.
Qed.

Lemma frt_bool t b : field_rt t read_bool_nz false (enc_bool_field [t] b) b.
Proof.
  destruct b; [|left; split; reflexivity]. right. exists [1]. split; [reflexivity|]. intros rest _. reflexivity.
Qed.

Definition dims_ok (d : list N) : bool := (length d =? 5)%nat && forallb (fun v => v <? 2 ^ 64) d.

Lemma read_fints_enc d : forall rest, Forall (fun v => v < 2 ^ 64) d ->
  read_fints (length d) (flat_map enc_fint64 d ++ rest) = Ok (d, rest).
Proof.
  induction d as [|v d IH]; intros rest Hd; [reflexivity|]. inversion Hd as [|? ? Hv Hd']; subst.
  cbn [length read_fints flat_map]. rewrite <- app_assoc, read_fint64_enc by exact Hv. cbn [bind].
  rewrite (IH rest Hd'). reflexivity.
Qed.

Lemma dims_is_zero_eq d : length d = 5%nat -> dims_is_zero d = true -> d = dims_zero.
Proof.
  intros HL Hz. do 5 (destruct d as [|? d]; [discriminate HL|]). destruct d; [|discriminate HL].
  unfold dims_is_zero in Hz. cbn [forallb] in Hz. rewrite !andb_true_iff, !N.eqb_eq in Hz.
  destruct Hz as (-> & -> & -> & -> & -> & _). reflexivity.
Qed.

Lemma frt_dims t d : dims_ok d = true -> field_rt t read_dims dims_zero (enc_dims_field [t] d) d.
Proof.
  unfold dims_ok. rewrite andb_true_iff, Nat.eqb_eq, forallb_forall. intros [HL Hall].
  assert (Hd : Forall (fun v => v < 2 ^ 64) d).
  { apply Forall_forall. intros x Hx. apply N.ltb_lt. exact (Hall x Hx). }
  unfold enc_dims_field. destruct (dims_is_zero d) eqn:Ez.
  - left. split; [reflexivity | apply dims_is_zero_eq; assumption].
  - right. exists (enc_bytes (flat_map enc_fint64 d)). split; [reflexivity|]. intros rest _.
    assert (Hlen : blen (flat_map enc_fint64 d) < 2 ^ 64).
    { do 5 (destruct d as [|? d]; [discriminate HL|]). destruct d; [|discriminate HL].
      unfold blen. cbn [flat_map]. rewrite !app_length. unfold enc_fint64. rewrite !le_enc_length.
      cbn [length]. change (2 ^ 64) with 18446744073709551616. lia. }
    unfold read_dims. rewrite read_bytes_enc by exact Hlen. cbn [bind].
    rewrite <- (app_nil_r (flat_map enc_fint64 d)). rewrite <- HL at 1.
    rewrite read_fints_enc by exact Hd. cbn [bind is_nil negb]. rewrite Ez. reflexivity.
Qed.

Ltac hd_solve := repeat (eapply field_rt_hd; [eassumption | lia |]); exact I.
Ltac rt_field R m E :=
  match goal with
  | |- context [opt_field [?t] ?f ?p ?d ?mf (?F ++ ?rest)] =>
      destruct (opt_field_rt t f p d mf F _ rest R ltac:(hd_solve)) as [m E]; rewrite E; cbn [bind]; clear E
  end.

(* ---- Base ---- *)

Definition valid_base (b : base) : bool :=
  int64_ok (b_ts b) && (length (b_chain b) =? 32)%nat && (b_fee b <? 2 ^ 64).

Lemma encode_base_fields b :
  encode_base b = enc_int_field [8] (b_ts b) ++ enc_fixed_field [18] (b_chain b) ++ enc_fint_field [25] (b_fee b) ++ [].
Proof. unfold encode_base. rewrite app_nil_r. reflexivity. Qed.

Lemma decode_base_rt b : valid_base b = true -> decode_base (encode_base b) = Ok b.
Proof.
  unfold valid_base. rewrite !andb_true_iff, Nat.eqb_eq, N.ltb_lt. intros [[Hts Hch] Hfee].
  pose proof (frt_int 8 _ Hts) as R1.
  pose proof (frt_fixed 18 32 _ Hch ltac:(cbn; lia)) as R2.
  pose proof (frt_fint 25 _ Hfee) as R3.
  rewrite encode_base_fields. unfold decode_base.
  change (tag 1 WT_VARINT) with [8]. change (tag 2 WT_LEN) with [18]. change (tag 3 WT_I64) with [25].
  rt_field R1 m1 E1. rt_field R2 m2 E2. rt_field R3 m3 E3. cbn [leftover bind]. destruct b; reflexivity.
Qed.

Lemma smallb_list es : forallb (fun e => blen e <? 2 ^ 64) es = true -> small_list es.
Proof.
  rewrite forallb_forall. intros H. apply Forall_forall. intros x Hx. apply N.ltb_lt. exact (H x Hx).
Qed.

(* ---- Result / ExecutionResults ---- *)

Definition valid_result (r : result) : bool :=
  (blen (rs_error r) <? 2 ^ 64) && forallb (fun e => blen e <? 2 ^ 64) (rs_outputs r) &&
  dims_ok (rs_units r) && (rs_fee r <? 2 ^ 64).

Lemma encode_result_fields r :
  encode_result r = enc_bool_field [8] (rs_success r) ++ enc_msg_field [18] (rs_error r) ++
    enc_repeated [26] (rs_outputs r) ++ enc_dims_field [34] (rs_units r) ++ enc_fint_field [41] (rs_fee r) ++ [].
Proof. unfold encode_result. rewrite app_nil_r. destruct (rs_success r); reflexivity. Qed.

Lemma decode_result_rt r : valid_result r = true -> decode_result (encode_result r) = Ok r.
Proof.
  unfold valid_result. rewrite !andb_true_iff, !N.ltb_lt. intros [[[Her Hout] Hun] Hfee].
  pose proof (frt_bool 8 (rs_success r)) as R1.
  pose proof (frt_bytes 18 _ Her) as R2.
  pose proof (frt_repeated 26 _ (smallb_list _ Hout)) as R3.
  pose proof (frt_dims 34 _ Hun) as R4.
  pose proof (frt_fint 41 _ Hfee) as R5.
  rewrite encode_result_fields. unfold decode_result.
  change (tag 1 WT_VARINT) with [8]. change (tag 2 WT_LEN) with [18]. change (tag 3 WT_LEN) with [26].
  change (tag 4 WT_LEN) with [34]. change (tag 5 WT_I64) with [41].
  rt_field R1 m1 E1. rt_field R2 m2 E2. rt_field R3 m3 E3. rt_field R4 m4 E4. rt_field R5 m5 E5.
  cbn [leftover bind]. destruct r; reflexivity.
Qed.

(* a present entry must not be the all-zero Result: canoto writes it as an empty entry, which reads back as nil *)
Definition valid_entry (o : option result) : bool :=
  match o with
  | None => true
  | Some r => valid_result r && negb (is_nil (encode_result r)) && (blen (encode_result r) <? 2 ^ 64)
  end.

Definition valid_results (e : exec_results) : bool :=
  forallb valid_entry (er_results e) && dims_ok (er_prices e) && dims_ok (er_consumed e).

Lemma decode_result_entries_rt os : forallb valid_entry os = true ->
  decode_result_entries (map enc_result_entry os) = Ok os /\ small_list (map enc_result_entry os).
Proof.
  induction os as [|o os IH]; intros H; [split; [reflexivity | constructor]|].
  cbn [forallb] in H. apply andb_true_iff in H. destruct H as [Ho Hos].
  destruct (IH Hos) as [IH1 IH2]. cbn [map decode_result_entries]. rewrite IH1. split.
  - destruct o as [r|]; cbn [enc_result_entry valid_entry] in *; [|reflexivity].
    rewrite !andb_true_iff in Ho. destruct Ho as [[Hv Hn] _]. apply negb_true_iff in Hn. rewrite Hn.
    rewrite (decode_result_rt _ Hv). reflexivity.
  - constructor; [|exact IH2]. destruct o as [r|]; cbn [enc_result_entry valid_entry] in *.
    + rewrite !andb_true_iff in Ho. destruct Ho as [_ Hl]. apply N.ltb_lt. exact Hl.
    + cbn. lia.
Qed.

Lemma encode_results_fields e :
  encode_results e = enc_repeated [10] (map enc_result_entry (er_results e)) ++
    enc_dims_field [18] (er_prices e) ++ enc_dims_field [26] (er_consumed e) ++ [].
Proof. unfold encode_results. rewrite app_nil_r. reflexivity. Qed.

Lemma decode_results_rt e : valid_results e = true -> decode_results (encode_results e) = Ok e.
Proof.
  unfold valid_results. rewrite !andb_true_iff. intros [[Hen Hp] Hc].
  destruct (decode_result_entries_rt _ Hen) as [Hd Hs].
  pose proof (frt_repeated 10 _ Hs) as R1.
  pose proof (frt_dims 18 _ Hp) as R2.
  pose proof (frt_dims 26 _ Hc) as R3.
  rewrite encode_results_fields. unfold decode_results.
  change (tag 1 WT_LEN) with [10]. change (tag 2 WT_LEN) with [18]. change (tag 3 WT_LEN) with [26].
  rt_field R1 m1 E1. rewrite Hd. cbn [bind]. rt_field R2 m2 E2. rt_field R3 m3 E3.
  cbn [leftover bind]. destruct e; reflexivity.
Qed.

(* ---- SerializeTx ---- *)

Lemma uvarint_enc_fuel_length f : forall n, (length (uvarint_enc_fuel f n) <= S f)%nat.
Proof.
  induction f as [|f IH]; intros n; cbn [uvarint_enc_fuel]; [cbn; lia|].
  destruct (n <? 128); cbn [length]; [lia|]. specialize (IH (n / 128)). lia.
Qed.

Lemma uvarint_enc_short n : n < 2 ^ 64 -> blen (uvarint_enc n) <= 65.
Proof.
  intros Hn. unfold blen, uvarint_enc.
  pose proof (uvarint_enc_fuel_length (S (N.to_nat (N.log2 n))) n) as HL.
  assert (N.log2 n < 64).
  { destruct (N.eqb_spec n 0) as [->|Hnz]; [cbn; lia|]. apply N.log2_lt_pow2; lia. }
  lia.
Qed.

Lemma encode_base_small b : valid_base b = true -> blen (encode_base b) < 2 ^ 64.
Proof.
  unfold valid_base. rewrite !andb_true_iff, Nat.eqb_eq, N.ltb_lt. intros [[Hts Hch] Hfee].
  rewrite encode_base_fields, !blen_app.
  assert (H1 : blen (enc_int_field [8] (b_ts b)) <= 66).
  { unfold enc_int_field. destruct (b_ts b =? 0)%Z; [cbn; lia|]. rewrite blen_app.
    pose proof (uvarint_enc_short _ (zigzag_fits _ Hts)). unfold enc_int64. change (blen [8]) with 1. lia. }
  assert (H2 : blen (enc_fixed_field [18] (b_chain b)) <= 99).
  { unfold enc_fixed_field. destruct (all_zero (b_chain b)); [cbn; lia|]. unfold enc_bytes. rewrite !blen_app.
    assert (Hb : blen (b_chain b) = 32) by (unfold blen; rewrite Hch; reflexivity).
    pose proof (uvarint_enc_short (blen (b_chain b)) ltac:(rewrite Hb; cbn; lia)).
    change (blen [18]) with 1. lia. }
  assert (H3 : blen (enc_fint_field [25] (b_fee b)) <= 9).
  { unfold enc_fint_field. destruct (b_fee b =? 0); [cbn; lia|]. rewrite blen_app. unfold enc_fint64.
    change (blen [25]) with 1. unfold blen. rewrite le_enc_length. lia. }
  change (blen []) with 0. change (2 ^ 64) with 18446744073709551616. lia.
Qed.

Lemma encode_base_nil b : valid_base b = true -> encode_base b = [] -> b = base_zero.
Proof.
  unfold valid_base. rewrite !andb_true_iff, Nat.eqb_eq. intros [[_ Hch] _] He.
  unfold encode_base in He. destruct b as [ts ch fee]. cbn [b_ts b_chain b_fee] in *.
  destruct (Z.eqb_spec ts 0) as [->|]; [|discriminate He].
  destruct (all_zero ch) eqn:Ez; [|discriminate He].
  destruct (N.eqb_spec fee 0) as [->|]; [|discriminate He].
  unfold base_zero. f_equal. rewrite (all_zero_zeros _ Ez), Hch. reflexivity.
Qed.

Definition valid_stx (s : stx) : bool :=
  valid_base (s_base s) && forallb (fun e => blen e <? 2 ^ 64) (s_actions s) && (blen (s_auth s) <? 2 ^ 64).

Lemma encode_stx_fields s :
  encode_stx s = enc_msg_field [10] (encode_base (s_base s)) ++ enc_repeated [18] (s_actions s) ++
    enc_msg_field [26] (s_auth s) ++ [].
Proof. unfold encode_stx. rewrite app_nil_r. reflexivity. Qed.

Lemma decode_stx_rt s : valid_stx s = true -> decode_stx (encode_stx s) = Ok s.
Proof.
  unfold valid_stx. rewrite !andb_true_iff, N.ltb_lt. intros [[Hb Ha] Hu].
  pose proof (frt_msg 10 decode_base encode_base base_zero (s_base s)
                (encode_base_nil _ Hb) (encode_base_small _ Hb) (decode_base_rt _ Hb)) as R1.
  pose proof (frt_repeated 18 _ (smallb_list _ Ha)) as R2.
  pose proof (frt_bytes 26 _ Hu) as R3.
  rewrite encode_stx_fields. unfold decode_stx.
  change (tag 1 WT_LEN) with [10]. change (tag 2 WT_LEN) with [18]. change (tag 3 WT_LEN) with [26].
  rt_field R1 m1 E1. rt_field R2 m2 E2. rt_field R3 m3 E3.
  cbn [leftover bind]. destruct s; reflexivity.
Qed.

(* ---- Transaction, batch, block ---- *)

Section TxRoundTrip.
  Variables (A U : Type).
  Variable parse_action : bytes -> option A.
  Variable action_bytes : A -> bytes.
  Variable parse_auth : bytes -> option U.
  Variable auth_bytes : U -> bytes.

  Notation dec_tx := (decode_tx A U parse_action parse_auth).
  Notation enc_tx := (encode_tx A U action_bytes auth_bytes).
  Notation unsigned := (unsigned_of A action_bytes).

  (* a structured transaction that can be built and parsed back: the base is in range, the parsers read
     back what Bytes() writes, and no component is 2^64 bytes long *)
  Definition valid_tx_parts (b : base) (acts : list A) (au : U) : Prop :=
    valid_base b = true /\
    Forall (fun a => parse_action (action_bytes a) = Some a /\ blen (action_bytes a) < 2 ^ 64) acts /\
    parse_auth (auth_bytes au) = Some au /\ blen (auth_bytes au) < 2 ^ 64.

  Lemma parse_actions_rt acts :
    Forall (fun a => parse_action (action_bytes a) = Some a /\ blen (action_bytes a) < 2 ^ 64) acts ->
    parse_actions A parse_action (map action_bytes acts) = Ok acts /\
    forallb (fun e => blen e <? 2 ^ 64) (map action_bytes acts) = true.
  Proof.
    induction 1 as [|a acts [Hp Hl] _ [IH1 IH2]]; [split; reflexivity|].
    cbn [map parse_actions forallb]. rewrite Hp, IH1, IH2. cbn [bind]. split; [reflexivity|].
    apply andb_true_iff. split; [apply N.ltb_lt; exact Hl | reflexivity].
  Qed.

  Lemma blen_app_ltb_r (a b : bytes) : (blen (a ++ b) <? blen b) = false.
  Proof. apply N.ltb_ge. rewrite blen_app. lia. Qed.

  Lemma decode_tx_rt b acts au : valid_tx_parts b acts au ->
    dec_tx (enc_tx b acts au) = Ok (mkTxm b acts au (unsigned b acts) (enc_tx b acts au)).
  Proof.
    intros (Hb & Ha & Hu & Hul). destruct (parse_actions_rt _ Ha) as [Hpa Hsm].
    unfold decode_tx, encode_tx.
    rewrite decode_stx_rt.
    2:{ unfold valid_stx. cbn [s_base s_actions s_auth]. rewrite Hb, Hsm. cbn [andb]. apply N.ltb_lt. exact Hul. }
    cbn [bind s_base s_actions s_auth]. rewrite Hpa. cbn [bind]. rewrite Hu.
    unfold unsigned_of, encode_stx. cbn [s_base s_actions s_auth].
    set (F1 := enc_msg_field (tag 1 WT_LEN) (encode_base b)).
    set (F2 := enc_repeated (tag 2 WT_LEN) (map action_bytes acts)).
    change (enc_msg_field (tag 3 WT_LEN) []) with (@nil N).
    destruct (auth_bytes au) as [|x l] eqn:Eau; cbn [is_nil].
    - change (enc_msg_field (tag 3 WT_LEN) []) with (@nil N). reflexivity.
    - fold (auth_suffix (x :: l)). rewrite auth_suffix_len.
      change (enc_msg_field (tag 3 WT_LEN) (x :: l)) with (tag 3 WT_LEN ++ enc_bytes (x :: l)).
      set (F3 := tag 3 WT_LEN ++ enc_bytes (x :: l)).
      rewrite app_nil_r, (app_assoc F1 F2 F3). rewrite blen_app_ltb_r, take_app_exact. reflexivity.
  Qed.

  (* entries: transactions that carry well-formed cached bytes *)
  Definition cached_ok (t : tx A U) : Prop :=
    dec_tx (x_bytes t) = Ok t /\ x_bytes t <> [] /\ blen (x_bytes t) < 2 ^ 64.

  Lemma decode_entries_rt ts : Forall cached_ok ts ->
    decode_entries A U parse_action parse_auth (map x_bytes ts) = Ok (map Some ts) /\
    no_nil A U (map Some ts) = Ok ts /\ small_list (map x_bytes ts).
  Proof.
    induction 1 as [|t ts (Hd & Hn & Hl) _ (IH1 & IH2 & IH3)]; [repeat split; constructor|].
    cbn [map decode_entries no_nil]. rewrite IH1, IH2.
    destruct (x_bytes t) as [|x l] eqn:Ex; [contradiction|]. cbn [is_nil]. rewrite Hd. cbn [bind].
    repeat split. constructor; assumption.
  Qed.

  Lemma decode_batch_rt ts : Forall cached_ok ts ->
    decode_batch A U parse_action parse_auth (encode_batch A U ts) = Ok ts.
  Proof.
    intros H. destruct (decode_entries_rt _ H) as (Hd & Hn & Hs).
    pose proof (frt_repeated 10 _ Hs) as R1.
    unfold decode_batch, encode_batch. change (tag 1 WT_LEN) with [10].
    rewrite <- (app_nil_r (enc_repeated [10] (map x_bytes ts))).
    rt_field R1 m1 E1. rewrite Hd. cbn [bind leftover]. exact Hn.
  Qed.

  Definition valid_ctx (c : option N) : bool :=
    match c with None => true | Some h => negb (h =? 0) && (h <? 2 ^ 64) end.

  Lemma decode_ctx_rt h : h <> 0 -> h < 2 ^ 64 -> decode_ctx (encode_ctx (Some h)) = Ok (Some h).
  Proof.
    intros Hnz Hh. pose proof (frt_uint 8 _ Hh) as R1.
    unfold decode_ctx, encode_ctx. change (tag 1 WT_VARINT) with [8].
    fold (enc_uint_field [8] h). rewrite <- (app_nil_r (enc_uint_field [8] h)).
    rt_field R1 m1 E1. reflexivity.
  Qed.

  Lemma frt_ctx t c : valid_ctx c = true ->
    field_rt t (read_msg decode_ctx) None (enc_msg_field [t] (encode_ctx c)) c.
  Proof.
    intros Hv. destruct c as [h|]; [|left; split; reflexivity].
    cbn [valid_ctx] in Hv. apply andb_true_iff in Hv. destruct Hv as [Hnz Hh].
    apply negb_true_iff, N.eqb_neq in Hnz. apply N.ltb_lt in Hh.
    apply (frt_msg t decode_ctx encode_ctx None (Some h)).
    - cbn [encode_ctx]. destruct (N.eqb_spec h 0); [contradiction | discriminate].
    - cbn [encode_ctx]. destruct (N.eqb_spec h 0); [contradiction|]. rewrite blen_app.
      pose proof (uvarint_enc_short h Hh). unfold enc_uint. change (blen (tag 1 WT_VARINT)) with 1.
      change (2 ^ 64) with 18446744073709551616. lia.
    - apply decode_ctx_rt; assumption.
  Qed.

  Definition valid_block_parts (prnt : bytes) (ts h : N) (ctx : option N) (txs : list (tx A U)) (root : bytes) : Prop :=
    length prnt = 32%nat /\ ts < 2 ^ 64 /\ h < 2 ^ 64 /\ valid_ctx ctx = true /\ Forall cached_ok txs /\
    length root = 32%nat.

  Lemma decode_block_rt prnt ts h ctx txs root : valid_block_parts prnt ts h ctx txs root ->
    decode_block A U parse_action parse_auth (encode_block A U prnt ts h ctx txs root) =
      Ok (mkBlock prnt ts h ctx txs root (encode_block A U prnt ts h ctx txs root)).
  Proof.
    intros (Hp & Hts & Hh & Hc & Htx & Hr). destruct (decode_entries_rt _ Htx) as (Hd & Hn & Hs).
    pose proof (frt_fixed 10 32 _ Hp ltac:(cbn; lia)) as R1.
    pose proof (frt_fint 17 _ Hts) as R2.
    pose proof (frt_fint 25 _ Hh) as R3.
    pose proof (frt_ctx 34 _ Hc) as R4.
    pose proof (frt_repeated 42 _ Hs) as R5.
    pose proof (frt_fixed 50 32 _ Hr ltac:(cbn; lia)) as R6.
    unfold decode_block. set (bs := encode_block A U prnt ts h ctx txs root) at 2.
    unfold encode_block.
    change (tag 1 WT_LEN) with [10]. change (tag 2 WT_I64) with [17]. change (tag 3 WT_I64) with [25].
    change (tag 4 WT_LEN) with [34]. change (tag 5 WT_LEN) with [42]. change (tag 6 WT_LEN) with [50].
    rewrite <- (app_nil_r (enc_fixed_field [50] root)).
    rt_field R1 m1 E1. rt_field R2 m2 E2. rt_field R3 m3 E3. rt_field R4 m4 E4. rt_field R5 m5 E5.
    rewrite Hd. cbn [bind]. rt_field R6 m6 E6. cbn [leftover bind]. rewrite Hn. cbn [bind].
    subst bs. unfold encode_block. rewrite app_nil_r. reflexivity.
  Qed.
End TxRoundTrip.

(* ---- the MorpheusVM parsers read back what Bytes() writes ---- *)

Definition valid_transfer (t : transfer) : bool :=
  (length (tr_to t) =? 33)%nat && (tr_value t <? 2 ^ 64) && (blen (tr_memo t) <=? 256).

Lemma take_n_app n (a rest : bytes) : blen a = n -> take n (a ++ rest) = a.
Proof. intros <-. apply take_blen_app. Qed.
Lemma drop_n_app n (a rest : bytes) : blen a = n -> drop n (a ++ rest) = rest.
Proof. intros <-. apply drop_blen_app. Qed.
Lemma ltb_n_app n (a rest : bytes) : blen a = n -> (blen (a ++ rest) <? n) = false.
Proof. intros <-. apply blen_app_ltb. Qed.

Lemma parse_transfer_rt t : valid_transfer t = true -> parse_transfer (transfer_bytes t) = Some t.
Proof.
  unfold valid_transfer. rewrite !andb_true_iff, Nat.eqb_eq, N.ltb_lt, N.leb_le. intros [[Hto Hv] Hm].
  destruct t as [to v memo]. cbn [tr_to tr_value tr_memo] in *.
  unfold transfer_bytes, parse_transfer. cbn [tr_to tr_value tr_memo app].
  change (TransferID =? TransferID) with true. cbn [negb]. cbv zeta.
  assert (Bto : blen to = AddressLen) by (unfold blen; rewrite Hto; reflexivity).
  assert (B8 : blen (be_enc 8 v) = 8) by (unfold blen; rewrite be_enc_length; reflexivity).
  assert (B4 : blen (be_enc 4 (blen memo)) = 4) by (unfold blen at 1; rewrite be_enc_length; reflexivity).
  rewrite (ltb_n_app _ _ _ Bto). rewrite ?(drop_n_app _ _ _ Bto). rewrite ?(take_n_app _ _ _ Bto).
  rewrite (ltb_n_app _ _ _ B8). rewrite ?(drop_n_app _ _ _ B8). rewrite ?(take_n_app _ _ _ B8).
  rewrite (ltb_n_app _ _ _ B4). rewrite ?(drop_n_app _ _ _ B4). rewrite ?(take_n_app _ _ _ B4).
  rewrite !be_dec_enc.
  change (256 ^ N.of_nat 4) with 4294967296. change (256 ^ N.of_nat 8) with (2 ^ 64).
  rewrite (N.mod_small (blen memo)) by lia. rewrite (N.mod_small v) by exact Hv.
  unfold MaxInt32, MaxMemoSize.
  destruct (N.ltb_spec 2147483647 (blen memo)) as [|_]; [lia|].
  rewrite N.ltb_irrefl, N.eqb_refl. cbn [negb].
  destruct (N.ltb_spec 256 (blen memo)) as [|_]; [lia|]. reflexivity.
Qed.

Lemma transfer_bytes_small t : valid_transfer t = true -> blen (transfer_bytes t) < 2 ^ 64.
Proof.
  unfold valid_transfer. rewrite !andb_true_iff, Nat.eqb_eq, N.leb_le. intros [[Hto _] Hm].
  unfold transfer_bytes. rewrite !blen_app. unfold blen at 2 3 4. rewrite !be_enc_length, Hto.
  change (blen [TransferID]) with 1. change (2 ^ 64) with 18446744073709551616. lia.
Qed.

Lemma morpheus_action_rt t : valid_transfer t = true -> morpheus_action_parser (transfer_bytes t) = Some t.
Proof. intros H. unfold morpheus_action_parser. cbn -[parse_transfer]. apply parse_transfer_rt. exact H. Qed.

(* the three auth formats: type id, exact size, (BLS) key accepted by the library *)
Definition valid_auth (bls_ok : bytes -> bool) (a : bytes) : bool :=
  match a with
  | [] => false
  | id :: _ =>
      ((id =? 0) && (blen a =? ED25519Size)) || ((id =? 1) && (blen a =? SECP256R1Size)) ||
      ((id =? 2) && (blen a =? BLSSize) && bls_ok a)
  end.

Lemma morpheus_auth_rt bls_ok a : valid_auth bls_ok a = true -> morpheus_auth_parser bls_ok a = Some a.
Proof.
  unfold valid_auth, morpheus_auth_parser, type_parser. destruct a as [|id p]; [discriminate|].
  rewrite !orb_true_iff, !andb_true_iff, !N.eqb_eq. intros [[[-> Hl] | [-> Hl]] | [[-> Hl] Hb]];
    cbn [lookup N.eqb Pos.eqb]; unfold parse_fixed_auth; rewrite Hl, N.eqb_refl; cbn [negb N.eqb Pos.eqb]; [reflexivity..|].
  rewrite Hb. reflexivity.
Qed.

Lemma valid_auth_small bls_ok a : valid_auth bls_ok a = true -> blen a < 2 ^ 64.
Proof.
  unfold valid_auth. destruct a as [|id p]; [discriminate|].
  rewrite !orb_true_iff, !andb_true_iff, !N.eqb_eq. unfold ED25519Size, SECP256R1Size, BLSSize.
  change (2 ^ 64) with 18446744073709551616. intros [[[_ Hl] | [_ Hl]] | [[_ Hl] _]]; lia.
Qed.

Lemma morpheus_valid_tx_parts bls_ok b acts au :
  valid_base b = true -> forallb valid_transfer acts = true -> valid_auth bls_ok au = true ->
  valid_tx_parts transfer bytes morpheus_action_parser transfer_bytes (morpheus_auth_parser bls_ok) auth_id_bytes b acts au.
Proof.
  intros Hb Ha Hu. unfold valid_tx_parts. split; [exact Hb|]. split; [|split].
  - apply Forall_forall. intros a Hin. rewrite forallb_forall in Ha. specialize (Ha a Hin).
    split; [apply morpheus_action_rt | apply transfer_bytes_small]; exact Ha.
  - apply morpheus_auth_rt. exact Hu.
  - apply (valid_auth_small bls_ok). exact Hu.
Qed.
