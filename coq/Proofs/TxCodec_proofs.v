(* Proofs for C15: decoding is canonical (decode bs = Ok m -> encode m = bs). *)
From Coq Require Import List ZArith NArith Bool Lia ZifyN ZifyNat ZifyBool.
Import ListNotations.
From HV Require Import Lib.Bytes Lib.U64 Lib.Varint Lib.Canoto Model.TxCodec.
Local Open Scope N_scope.

(* ---- generic field lemmas ----------------------------------------------------------------- *)

Lemma opt_field_canon {A} (tg : bytes) f (parse : bytes -> res (A * bytes)) dflt minf bs v m r
      (encf : A -> bytes) :
  (forall b v r, wf_bytes b -> parse b = Ok (v, r) -> tg ++ b = encf v ++ r) ->
  encf dflt = [] ->
  wf_bytes bs -> opt_field tg f parse dflt minf bs = Ok (v, m, r) ->
  bs = encf v ++ r /\ wf_bytes r.
Proof.
  intros Hp Hd Hwf. unfold opt_field. destruct (has_prefix bs tg) eqn:Ep.
  - unfold bind. destruct (parse (skipn (length tg) bs)) as [[v' r']|] eqn:E; [|discriminate].
    intros H; inversion H; subst.
    pose proof (has_prefix_split bs tg Ep) as Hs.
    pose proof (Hp _ _ _ (wf_skipn _ _ Hwf) E) as Heq.
    assert (Hbs : bs = encf v ++ r) by (rewrite Hs; exact Heq).
    split; [exact Hbs|]. rewrite Hbs in Hwf. apply wf_app in Hwf. tauto.
  - intros H; inversion H; subst. rewrite Hd. split; [reflexivity | exact Hwf].
Qed.

Lemma is_nil_false {A} (l : list A) : is_nil l = false -> l <> [].
Proof. destruct l; [discriminate | intros _ H; discriminate H]. Qed.

(* field encoders *)
Definition enc_int_field (tg : bytes) (z : Z) : bytes := if (z =? 0)%Z then [] else tg ++ enc_int64 z.
Definition enc_uint_field (tg : bytes) (v : N) : bytes := if v =? 0 then [] else tg ++ enc_uint v.
Definition enc_bool_field (tg : bytes) (b : bool) : bytes := if b then tg ++ [1] else [].

Lemma p_int64 tg b z r : wf_bytes b -> read_int64_nz b = Ok (z, r) -> tg ++ b = enc_int_field tg z ++ r.
Proof.
  intros Hwf. unfold read_int64_nz, bind. destruct (read_int64 b) as [[z' r']|] eqn:E; [|discriminate].
  destruct (Z.eqb_spec z' 0) as [|Hz]; [discriminate|]. intros H; inversion H; subst.
  unfold enc_int_field. destruct (Z.eqb_spec z 0) as [|_]; [contradiction|].
  rewrite (read_int64_canon _ _ _ Hwf E), <- app_assoc. reflexivity.
Qed.

Lemma p_uint64 tg b v r : wf_bytes b -> read_uint64_nz b = Ok (v, r) -> tg ++ b = enc_uint_field tg v ++ r.
Proof.
  intros Hwf. unfold read_uint64_nz, bind. destruct (read_uvar 64 b) as [[v' r']|] eqn:E; [|discriminate].
  destruct (N.eqb_spec v' 0) as [|Hz]; [discriminate|]. intros H; inversion H; subst.
  unfold enc_uint_field, enc_uint. destruct (N.eqb_spec v 0) as [|_]; [contradiction|].
  destruct (read_uvar_canon _ _ _ _ Hwf E) as [Hb _]. rewrite Hb, <- app_assoc. reflexivity.
Qed.

Lemma p_fint64 tg b v r : wf_bytes b -> read_fint64_nz b = Ok (v, r) -> tg ++ b = enc_fint_field tg v ++ r.
Proof.
  intros Hwf. unfold read_fint64_nz, bind. destruct (read_fint64 b) as [[v' r']|] eqn:E; [|discriminate].
  destruct (N.eqb_spec v' 0) as [|Hz]; [discriminate|]. intros H; inversion H; subst.
  unfold enc_fint_field. destruct (N.eqb_spec v 0) as [|_]; [contradiction|].
  rewrite (read_fint64_canon _ _ _ Hwf E), <- app_assoc. reflexivity.
Qed.

Lemma p_fixed tg n b v r : wf_bytes b -> read_fixed_bytes n b = Ok (v, r) -> tg ++ b = enc_fixed_field tg v ++ r.
Proof.
  intros Hwf H. destruct (read_fixed_bytes_canon _ _ _ _ Hwf H) as (Hb & _ & Hz).
  unfold enc_fixed_field. rewrite Hz, Hb, <- app_assoc. reflexivity.
Qed.

Lemma p_bytes tg b v r : wf_bytes b -> read_bytes_nz b = Ok (v, r) -> tg ++ b = enc_msg_field tg v ++ r.
Proof.
  intros Hwf. unfold read_bytes_nz, bind. destruct (read_bytes b) as [[v' r']|] eqn:E; [|discriminate].
  destruct (is_nil v') eqn:En; [discriminate|]. intros H; inversion H; subst.
  unfold enc_msg_field. rewrite En.
  destruct (read_bytes_canon _ _ _ Hwf E) as [Hb _]. rewrite Hb, <- app_assoc. reflexivity.
Qed.

Lemma p_msg {A} tg (dec : bytes -> res A) (enc : A -> bytes) b a r :
  (forall m a, wf_bytes m -> dec m = Ok a -> enc a = m) ->
  wf_bytes b -> read_msg dec b = Ok (a, r) -> tg ++ b = enc_msg_field tg (enc a) ++ r.
Proof.
  intros Hdec Hwf. unfold read_msg, bind. destruct (read_bytes b) as [[m r']|] eqn:E; [|discriminate].
  destruct (is_nil m) eqn:En; [discriminate|].
  destruct (dec m) as [a'|] eqn:Ed; [|discriminate]. intros H; inversion H; subst.
  destruct (read_bytes_wf _ _ _ Hwf E) as [Hwm _].
  rewrite (Hdec _ _ Hwm Ed). unfold enc_msg_field. rewrite En.
  destruct (read_bytes_canon _ _ _ Hwf E) as [Hb _]. rewrite Hb, <- app_assoc. reflexivity.
Qed.

Lemma p_repeated tg b es r : wf_bytes b -> read_repeated tg b = Ok (es, r) -> tg ++ b = enc_repeated tg es ++ r.
Proof.
  intros Hwf H. destruct (read_repeated_canon _ _ _ _ Hwf H) as (e & es' & -> & Hb).
  rewrite Hb. cbn [enc_repeated flat_map]. rewrite <- !app_assoc. reflexivity.
Qed.

Lemma p_bool tg b v r : wf_bytes b -> read_bool_nz b = Ok (v, r) -> tg ++ b = enc_bool_field tg v ++ r.
Proof.
  intros Hwf. unfold read_bool_nz, read_bool, bind. destruct b as [|x b']; [discriminate|].
  destruct (N.ltb_spec 1 x) as [|Hx]; [discriminate|].
  destruct (N.eqb_spec x 1) as [->|Hx1]; [|discriminate].
  intros H; inversion H; subst. unfold enc_bool_field. rewrite <- app_assoc. reflexivity.
Qed.

(* reading a repeated field hands back well-formed entries *)
Lemma read_more_wf fuel tg : forall bs es r,
  wf_bytes bs -> read_more fuel tg bs = Ok (es, r) -> Forall wf_bytes es.
Proof.
  induction fuel as [|fuel IH]; intros bs es r Hwf H; cbn [read_more] in H.
  - inversion H; subst. constructor.
  - destruct (has_prefix bs tg) eqn:Ep.
    + unfold bind in H.
      destruct (read_bytes (skipn (length tg) bs)) as [[e r1]|] eqn:E1; [|discriminate].
      destruct (read_more fuel tg r1) as [[es' r2]|] eqn:E2; [|discriminate].
      inversion H; subst.
      destruct (read_bytes_wf _ _ _ (wf_skipn _ _ Hwf) E1) as [He Hr1].
      constructor; [exact He | exact (IH _ _ _ Hr1 E2)].
    + inversion H; subst. constructor.
Qed.

Lemma read_repeated_wf tg b es r : wf_bytes b -> read_repeated tg b = Ok (es, r) -> Forall wf_bytes es.
Proof.
  intros Hwf. unfold read_repeated, bind.
  destruct (read_bytes b) as [[e r1]|] eqn:E1; [|discriminate].
  destruct (read_more (length r1) tg r1) as [[es' r2]|] eqn:E2; [|discriminate].
  intros H; inversion H; subst.
  destruct (read_bytes_wf _ _ _ Hwf E1) as [He Hr1].
  constructor; [exact He | exact (read_more_wf _ _ _ _ _ Hr1 E2)].
Qed.

Lemma opt_field_repeated_wf tg f minf bs es m r :
  wf_bytes bs -> opt_field tg f (read_repeated tg) [] minf bs = Ok (es, m, r) -> Forall wf_bytes es.
Proof.
  intros Hwf. unfold opt_field. destruct (has_prefix bs tg).
  - unfold bind. destruct (read_repeated tg (skipn (length tg) bs)) as [[v' r']|] eqn:E; [|discriminate].
    intros H; inversion H; subst. exact (read_repeated_wf _ _ _ _ (wf_skipn _ _ Hwf) E).
  - intros H; inversion H; subst. constructor.
Qed.

(* ---- Base --------------------------------------------------------------------------------- *)

Ltac step3 H v m r E :=
  match type of H with
  | bind ?X _ = Ok _ => destruct X as [[[v m] r]|] eqn:E; [cbn [bind] in H | discriminate H]
  end.
Ltac step1 H v E :=
  match type of H with
  | bind ?X _ = Ok _ => destruct X as [v|] eqn:E; [cbn [bind] in H | discriminate H]
  end.

Lemma decode_base_canon bs b : wf_bytes bs -> decode_base bs = Ok b -> encode_base b = bs.
Proof.
  intros Hwf H. unfold decode_base in H.
  step3 H ts m1 r1 E1. step3 H ch m2 r2 E2. step3 H fee m3 r3 E3. step1 H u EL. destruct u.
  inversion H; subst b. clear H.
  destruct (opt_field_canon _ _ _ 0%Z _ _ _ _ _ (enc_int_field (tag 1 WT_VARINT)) (p_int64 _) eq_refl Hwf E1) as [H1 W1].
  destruct (opt_field_canon _ _ _ (zeros 32) _ _ _ _ _ (enc_fixed_field (tag 2 WT_LEN)) (p_fixed _ 32) eq_refl W1 E2) as [H2 W2].
  destruct (opt_field_canon _ _ _ 0 _ _ _ _ _ (enc_fint_field (tag 3 WT_I64)) (p_fint64 _) eq_refl W2 E3) as [H3 W3].
  apply leftover_ok in EL. subst.
  unfold encode_base. cbn [b_ts b_chain b_fee]. rewrite app_nil_r. reflexivity.
Qed.
