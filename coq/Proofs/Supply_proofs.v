(* Proofs for C06: the token supply ([Model/Supply.v]) is conserved by Transfer actions, decreases by exactly
   the fee in every included transaction, hence by the sum of the fees over a block / a history of blocks.

   Structure
     1. finite-map facts: [overlay], [supply] (map_fold), [wf_state];
     2. the visible map of a view as a gmap ([vmap]); Insert / Remove / Rollback on it;
     3. SubBalance / AddBalance / Transfer / the action loop / Transaction.Execute on [vmap];
     4. run_tx: the transaction's view only holds the DECLARED keys of the parent; it [agree]s with the view
        over the whole parent (ChainBridge: agree_execute_tx), whose [vmap] is the whole state;
     5. run_txs, execute_block, run_chain. *)
From stdpp Require Import gmap.
From Coq Require Import NArith ZArith Lia ZifyN ZifyNat ZifyBool.
From HV Require Import Lib.Bytes Lib.U64 Model.Keys Model.Tstate Model.Fees Model.TxStatic Model.Chain
                       Model.ChainHistory Model.Supply
                       Proofs.Tstate_proofs Proofs.ChainBridge_proofs Proofs.Header_proofs.
Local Open Scope N_scope.

(* ------------------------------------------------------------------ 1. finite maps *)

Lemma overlay_lookup (d : gmap key (option val)) (m : gmap key val) k :
  overlay d m !! k = match d !! k with Some ov => ov | None => m !! k end.
Proof.
  unfold overlay. rewrite lookup_union, lookup_omap, map_filter_lookup.
  destruct (d !! k) as [[v|]|] eqn:E; cbn.
  - destruct (m !! k); cbn; [|reflexivity].
    rewrite option_guard_False by (cbn; congruence). reflexivity.
  - destruct (m !! k); cbn; [|reflexivity].
    rewrite option_guard_False by (cbn; congruence). reflexivity.
  - destruct (m !! k); cbn; [|reflexivity].
    rewrite option_guard_True by (cbn; exact E). reflexivity.
Qed.

Lemma post_data_overlay p o : post_data p o = overlay (o_diff o) (p_data p).
Proof. reflexivity. Qed.

Lemma overlay_empty (m : gmap key val) : overlay ∅ m = m.
Proof. apply map_eq. intros k. rewrite overlay_lookup, lookup_empty. reflexivity. Qed.

Lemma overlay_union (d1 d2 : gmap key (option val)) (m : gmap key val) : overlay (d1 ∪ d2) m = overlay d1 (overlay d2 m).
Proof.
  apply map_eq. intros k. rewrite !overlay_lookup.
  destruct (d1 !! k) as [ov|] eqn:E1.
  - rewrite (lookup_union_Some_l _ _ _ _ E1). reflexivity.
  - rewrite (lookup_union_r _ _ _ E1). reflexivity.
Qed.

Lemma supply_empty : supply ∅ = 0.
Proof. apply map_fold_empty. Qed.

Lemma supply_insert_None (m : gmap key val) (k : key) (v : val) : m !! k = None -> supply (<[k:=v]> m) = be_dec v + supply m.
Proof. intros H. unfold supply. apply (map_fold_insert_L (fun _ v acc => be_dec v + acc)); [intros; lia | exact H]. Qed.

Lemma supply_delete (m : gmap key val) (k : key) (v : val) : m !! k = Some v -> supply m = be_dec v + supply (delete k m).
Proof.
  intros H. rewrite <- (insert_delete m k v H) at 1. apply supply_insert_None, lookup_delete.
Qed.

Lemma supply_insert_Some (m : gmap key val) (k : key) (v0 v : val) : m !! k = Some v0 ->
  supply (<[k:=v]> m) + be_dec v0 = be_dec v + supply m.
Proof.
  intros H. assert (Hm : m = <[k:=v0]> (delete k m)) by (symmetry; apply insert_delete, H).
  assert (Hn : delete k m !! k = None) by apply lookup_delete.
  revert Hm Hn. generalize (delete k m). intros m' -> Hn.
  rewrite insert_insert, !supply_insert_None by exact Hn. lia.
Qed.

Lemma wf_empty : wf_state ∅.
Proof. intros k v H. rewrite lookup_empty in H. discriminate. Qed.

Lemma wf_insert (m : gmap key val) k v : wf_state m -> length v = 8%nat -> be_dec v <= MaxU64 -> wf_state (<[k:=v]> m).
Proof.
  intros Hm Hl Hv k' v' H. destruct (decide (k = k')) as [->|Hne].
  - rewrite lookup_insert in H. inversion H; subst. auto.
  - rewrite lookup_insert_ne in H by exact Hne. apply (Hm _ _ H).
Qed.

Lemma wf_insert_be64 (m : gmap key val) k x : wf_state m -> x <= MaxU64 -> wf_state (<[k:=be64 x]> m).
Proof. intros Hm Hx. apply wf_insert; [exact Hm | apply be64_length | rewrite be64_roundtrip; lia]. Qed.

Lemma wf_delete (m : gmap key val) k : wf_state m -> wf_state (delete k m).
Proof.
  intros Hm k' v' H. destruct (decide (k = k')) as [->|Hne].
  - rewrite lookup_delete in H. discriminate.
  - rewrite lookup_delete_ne in H by exact Hne. apply (Hm _ _ H).
Qed.

(* ------------------------------------------------------------------ 2. the visible map of a view *)

Lemma vmap_lookup s k : vmap s !! k = vis s k.
Proof. unfold vmap, vis, vis_of, under_of. rewrite !overlay_lookup. reflexivity. Qed.

Lemma vmap_ext s1 s2 : (forall k, vis s1 k = vis s2 k) -> vmap s1 = vmap s2.
Proof. intros H. apply map_eq. intros k. rewrite !vmap_lookup. apply H. Qed.

Lemma vmap_insert s k v s' : insert s k v = (s', None) -> vmap s' = <[k:=v]> (vmap s).
Proof.
  intros H. destruct (insert_vis _ _ _ _ H) as [V1 V2]. apply map_eq. intros k'. rewrite vmap_lookup.
  destruct (decide (k = k')) as [<-|Hne].
  - rewrite lookup_insert. exact V1.
  - rewrite lookup_insert_ne by exact Hne. rewrite vmap_lookup. apply V2, Hne.
Qed.

Lemma vmap_remove s k s' : remove s k = (s', None) -> vmap s' = delete k (vmap s).
Proof.
  intros H. destruct (remove_vis _ _ _ H) as [V1 V2]. apply map_eq. intros k'. rewrite vmap_lookup.
  destruct (decide (k = k')) as [<-|Hne].
  - rewrite lookup_delete. exact V1.
  - rewrite lookup_delete_ne by exact Hne. rewrite vmap_lookup. apply V2, Hne.
Qed.

Lemma get_inl_vmap s k v : get s k = inl v -> vmap s !! k = Some v.
Proof.
  rewrite vmap_lookup. unfold get. destruct (negb (check s k pRead)); [discriminate|].
  destruct (vis s k); intros H; inversion H; reflexivity.
Qed.

Lemma get_notfound_vmap s k : get s k = inr ENotFound -> vmap s !! k = None.
Proof.
  rewrite vmap_lookup. unfold get. destruct (negb (check s k pRead)); [discriminate|].
  destruct (vis s k); [discriminate | reflexivity].
Qed.

Lemma parse_u64_inv v b : parse_u64 v = Some b -> b = be_dec v.
Proof. unfold parse_u64. destruct (Nat.eqb (length v) 8); intros H; inversion H; reflexivity. Qed.

(* a checkpoint taken at s is restored, as a map, by rolling back anything reached from s *)
Lemma vmap_rollback s s' : reach s s' -> view_ok s ->
  vmap (rollback s' (op_index s)) = vmap s /\ view_ok (rollback s' (op_index s)).
Proof.
  intros Hr Hok. destruct (reach_rollback s s' Hr Hok) as (_ & _ & _ & _ & Hv & Hok').
  split; [apply vmap_ext, Hv | exact Hok'].
Qed.

(* ------------------------------------------------------------------ 3. balances, transfers, transactions *)

(* SubBalance (delete at zero) *)
Lemma sub_balance_ok s k a s' nb : wf_state (vmap s) -> sub_balance s k a = (s', inl nb) ->
  supply (vmap s') + a = supply (vmap s) /\ wf_state (vmap s').
Proof.
  intros Hwf. unfold sub_balance. destruct (get s k) as [v|e] eqn:G; [|intros H; inversion H].
  pose proof (get_inl_vmap _ _ _ G) as Hk. destruct (Hwf _ _ Hk) as [_ Hv].
  destruct (parse_u64 v) as [bal|] eqn:P; [|intros H; inversion H].
  apply parse_u64_inv in P. subst bal.
  destruct (N.ltb_spec (be_dec v) a) as [L|L]; [intros H; inversion H|]. cbv zeta.
  destruct (N.eqb_spec (be_dec v - a) 0) as [Hz|Hz].
  - destruct (remove s k) as [s1 [e|]] eqn:R; intros H; inversion H; subst.
    rewrite (vmap_remove _ _ _ R). split; [|apply wf_delete, Hwf].
    rewrite (supply_delete _ _ _ Hk). lia.
  - destruct (insert s k (be64 (be_dec v - a))) as [s1 [e|]] eqn:I; intros H; inversion H; subst.
    rewrite (vmap_insert _ _ _ _ I). split; [|apply wf_insert_be64; [exact Hwf | lia]].
    pose proof (supply_insert_Some _ _ _ (be64 (be_dec v - a)) Hk) as Hs.
    rewrite be64_roundtrip in Hs by lia. lia.
Qed.

Lemma sub_balance_err s k a s' e : sub_balance s k a = (s', inr e) -> s' = s.
Proof.
  unfold sub_balance. destruct (get s k) as [v|e0]; [|intros H; inversion H; reflexivity].
  destruct (parse_u64 v) as [bal|]; [|intros H; inversion H; reflexivity].
  destruct (bal <? a); [intros H; inversion H; reflexivity|]. cbv zeta.
  destruct (bal - a =? 0).
  - destruct (remove s k) as [s1 [e1|]] eqn:R; intros H; inversion H; subst.
    destruct (remove_fail _ _ _ _ R) as [-> _]. reflexivity.
  - destruct (insert s k (be64 (bal - a))) as [s1 [e1|]] eqn:I; intros H; inversion H; subst.
    apply (insert_fail _ _ _ _ _ I).
Qed.

(* AddBalance (checked add) *)
Lemma add_balance_ok s k a s' nb : wf_state (vmap s) -> add_balance s k a = (s', inl nb) ->
  supply (vmap s') = supply (vmap s) + a /\ wf_state (vmap s').
Proof.
  intros Hwf. unfold add_balance. destruct (get s k) as [v|e] eqn:G.
  - pose proof (get_inl_vmap _ _ _ G) as Hk.
    destruct (parse_u64 v) as [bal|] eqn:P; [|intros H; inversion H].
    apply parse_u64_inv in P. subst bal.
    destruct (add_chk (be_dec v) a) as [nbal|] eqn:A; [|intros H; inversion H].
    apply add_chk_Some in A. destruct A as [-> Hle].
    destruct (insert s k (be64 (be_dec v + a))) as [s1 [e|]] eqn:I; intros H; inversion H; subst.
    rewrite (vmap_insert _ _ _ _ I). split; [|apply wf_insert_be64; assumption].
    pose proof (supply_insert_Some _ _ _ (be64 (be_dec v + a)) Hk) as Hs.
    rewrite be64_roundtrip in Hs by exact Hle. lia.
  - destruct e; try (intros H; inversion H; fail).
    pose proof (get_notfound_vmap _ _ G) as Hk.
    destruct (add_chk 0 a) as [nbal|] eqn:A; [|intros H; inversion H].
    apply add_chk_Some in A. destruct A as [-> Hle].
    destruct (insert s k (be64 (0 + a))) as [s1 [e|]] eqn:I; intros H; inversion H; subst.
    rewrite (vmap_insert _ _ _ _ I). split; [|apply wf_insert_be64; assumption].
    rewrite (supply_insert_None _ _ _ Hk), be64_roundtrip by exact Hle. lia.
Qed.

(* a list of Transfer operations that succeeds conserves the supply *)
Lemma run_ops_transfers ops : Forall is_transfer ops -> forall s out s' res,
  wf_state (vmap s) -> run_ops s ops out = (s', inl res) ->
  supply (vmap s') = supply (vmap s) /\ wf_state (vmap s').
Proof.
  induction 1 as [|o ops Ho _ IH]; intros s out s' res Hwf H; cbn [run_ops] in H.
  - inversion H; subst. auto.
  - destruct o as [k|k v|k| |from to value memo_ok]; try contradiction.
    destruct (value =? 0); [inversion H|]. destruct (negb memo_ok); [inversion H|].
    destruct (sub_balance s from value) as [s1 [sb|e]] eqn:S; [|inversion H].
    destruct (sub_balance_ok _ _ _ _ _ Hwf S) as [E1 W1].
    destruct (add_balance s1 to value) as [s2 [rb|e]] eqn:A; [|inversion H].
    destruct (add_balance_ok _ _ _ _ _ W1 A) as [E2 W2].
    destruct (IH _ _ _ _ W2 H) as [E3 W3]. split; [lia | exact W3].
Qed.

(* the action loop when every action succeeds *)
Lemma run_actions_ok acts : Forall transfer_action acts -> forall s start outs s' ec outs',
  wf_state (vmap s) -> run_actions s start acts outs = (s', true, ec, outs') ->
  supply (vmap s') = supply (vmap s) /\ wf_state (vmap s').
Proof.
  induction 1 as [|a acts Ha _ IH]; intros s start outs s' ec outs' Hwf H; cbn [run_actions] in H.
  - inversion H; subst. auto.
  - destruct (run_ops s (a_ops a) []) as [s1 [out|e]] eqn:R; [|inversion H].
    destruct (run_ops_transfers _ Ha _ _ _ _ Hwf R) as [E1 W1].
    destruct (IH _ _ _ _ _ _ W1 H) as [E2 W2]. split; [lia | exact W2].
Qed.

(* the action loop of Transaction.Execute from its checkpoint: all actions succeed, or everything they did
   is rolled back *)
Lemma run_actions_supply acts s s' ok ec outs' : Forall transfer_action acts -> view_ok s -> wf_state (vmap s) ->
  run_actions s (op_index s) acts [] = (s', ok, ec, outs') ->
  supply (vmap s') = supply (vmap s) /\ wf_state (vmap s') /\ view_ok s'.
Proof.
  intros Ha Hok Hwf H. destruct (run_actions_shape _ _ _ _ _ _ _ _ H) as [[-> Hr] | [-> (s'' & Hr & ->)]].
  - destruct (run_actions_ok _ Ha _ _ _ _ _ _ Hwf H) as [E W]. split; [exact E|]. split; [exact W|].
    apply (reach_view_ok _ _ Hr Hok).
  - destruct (vmap_rollback _ _ Hr Hok) as [E Hok']. rewrite E. auto.
Qed.

(* the fee deduction of the state/balance handler (plain Insert, no delete at zero) *)
Lemma deduct_plain_ok s k f v s1 : wf_state (vmap s) -> get s k = inl v -> (be_dec v <? f) = false ->
  insert s k (be64 (be_dec v - f)) = (s1, None) ->
  supply (vmap s1) + f = supply (vmap s) /\ wf_state (vmap s1).
Proof.
  intros Hwf G L I. pose proof (get_inl_vmap _ _ _ G) as Hk. destruct (Hwf _ _ Hk) as [_ Hv].
  rewrite (vmap_insert _ _ _ _ I). split; [|apply wf_insert_be64; [exact Hwf | lia]].
  pose proof (supply_insert_Some _ _ _ (be64 (be_dec v - f)) Hk) as Hs.
  rewrite be64_roundtrip in Hs by lia. lia.
Qed.

(* Transaction.Execute: the supply decreases by exactly the fee, whatever the actions do *)
Lemma execute_tx_supply t u f s s' res : transfer_tx t -> view_ok s -> wf_state (vmap s) ->
  execute_tx t u f s = Some (s', res) ->
  supply (vmap s') + f = supply (vmap s) /\ wf_state (vmap s') /\ view_ok s' /\ res_fee res = f.
Proof.
  intros Ht Hok Hwf. unfold execute_tx.
  assert (Hd : forall s1,
    (if t_morpheus t
     then match sub_balance s (t_sponsor_key t) f with (x, inl _) => Some x | (_, inr _) => None end
     else match get s (t_sponsor_key t) with
          | inl v => match parse_u64 v with
                     | None => None
                     | Some b => if b <? f then None else
                         match insert s (t_sponsor_key t) (be64 (b - f)) with (x, None) => Some x | (_, Some _) => None end
                     end
          | inr _ => None
          end) = Some s1 ->
    supply (vmap s1) + f = supply (vmap s) /\ wf_state (vmap s1) /\ view_ok s1).
  { intros s1. destruct (t_morpheus t).
    - pose proof (reach_sub_balance s (t_sponsor_key t) f) as Hr.
      destruct (sub_balance s (t_sponsor_key t) f) as [x [nb|e]] eqn:S; intros H; inversion H; subst.
      destruct (sub_balance_ok _ _ _ _ _ Hwf S) as [E W]. cbn [fst] in Hr.
      split; [exact E|]. split; [exact W | apply (reach_view_ok _ _ Hr Hok)].
    - destruct (get s (t_sponsor_key t)) as [v|e] eqn:G; [|discriminate].
      destruct (parse_u64 v) as [b|] eqn:P; [|discriminate]. apply parse_u64_inv in P. subst b.
      destruct (be_dec v <? f) eqn:L; [discriminate|].
      pose proof (insert_view_ok s (t_sponsor_key t) (be64 (be_dec v - f)) Hok) as Hok1.
      destruct (insert s (t_sponsor_key t) (be64 (be_dec v - f))) as [x [e|]] eqn:I; intros H; inversion H; subst.
      destruct (deduct_plain_ok _ _ _ _ _ Hwf G L I) as [E W]. auto. }
  destruct (if t_morpheus t then _ else _) as [s1|]; [|discriminate].
  destruct (Hd s1 eq_refl) as (E1 & W1 & Hok1).
  destruct (run_actions s1 (op_index s1) (t_actions t) []) as [[[s2 ok] ec] outs] eqn:R.
  intros H. inversion H; subst. cbn [res_fee].
  destruct (run_actions_supply _ _ _ _ _ _ Ht Hok1 W1 R) as (E2 & W2 & Hok2).
  split; [lia|]. auto.
Qed.

(* Transaction.Execute keeps the view's block diff and storage *)
Lemma execute_tx_env t u f s s' res : execute_tx t u f s = Some (s', res) ->
  v_ts s' = v_ts s /\ v_base s' = v_base s.
Proof.
  unfold execute_tx.
  assert (Hd : forall s1,
    (if t_morpheus t
     then match sub_balance s (t_sponsor_key t) f with (x, inl _) => Some x | (_, inr _) => None end
     else match get s (t_sponsor_key t) with
          | inl v => match parse_u64 v with
                     | None => None
                     | Some b => if b <? f then None else
                         match insert s (t_sponsor_key t) (be64 (b - f)) with (x, None) => Some x | (_, Some _) => None end
                     end
          | inr _ => None
          end) = Some s1 -> reach s s1).
  { intros s1. destruct (t_morpheus t).
    - pose proof (reach_sub_balance s (t_sponsor_key t) f) as Hr.
      destruct (sub_balance s (t_sponsor_key t) f) as [x [nb|e]]; intros H; inversion H; subst. exact Hr.
    - destruct (get s (t_sponsor_key t)) as [v|e]; [|discriminate].
      destruct (parse_u64 v) as [b|]; [|discriminate]. destruct (b <? f); [discriminate|].
      pose proof (reach_insert s (t_sponsor_key t) (be64 (b - f))) as Hr.
      destruct (insert s (t_sponsor_key t) (be64 (b - f))) as [x [e|]]; intros H; inversion H; subst. exact Hr. }
  destruct (if t_morpheus t then _ else _) as [s1|]; [|discriminate].
  destruct (reach_env _ _ (Hd s1 eq_refl)) as (T1 & B1 & _).
  destruct (run_actions s1 (op_index s1) (t_actions t) []) as [[[s2 ok] ec] outs] eqn:R.
  intros H. inversion H; subst.
  destruct (run_actions_shape _ _ _ _ _ _ _ _ R) as [[-> Hr] | [-> (s'' & Hr & ->)]].
  - destruct (reach_env _ _ Hr) as (T2 & B2 & _). split; congruence.
  - destruct (reach_env _ _ Hr) as (T2 & B2 & _).
    destruct (rollback_spec s'' (op_index s1)) as (T3 & B3 & _). split; congruence.
Qed.

(* ------------------------------------------------------------------ 4. one task of the block *)

(* the whole data state after the diff of the block so far *)
Definition dstate (parent : gmap key val) (st : tstate) : gmap key val := overlay (ts_changed st) parent.

Lemma dstate_new parent : dstate parent ts_new = parent.
Proof. apply overlay_empty. Qed.

Lemma readable_declared sk k : scope_has (ScopeKeys sk) k pRead = true -> is_Some (sk !! k).
Proof.
  cbn [scope_has]. unfold keys_has. destruct (sk !! k) as [p|]; [eauto|]. cbn. discriminate.
Qed.

Lemma fetch_lookup parent sk k : is_Some (sk !! k) -> fetch parent sk !! k = parent !! k.
Proof.
  intros Hs. unfold fetch. rewrite map_filter_lookup. destruct (parent !! k) as [v|]; cbn; [|reflexivity].
  rewrite option_guard_True by (cbn; exact Hs). reflexivity.
Qed.

Lemma tx_views_agree parent st sk :
  agree (new_view st (ScopeKeys sk) (fetch parent sk)) (new_view st (ScopeKeys sk) parent).
Proof.
  apply agree_new. intros k Hr. unfold under_of. destruct (ts_changed st !! k); [reflexivity|].
  apply fetch_lookup, readable_declared, Hr.
Qed.

Lemma vmap_full_view parent st sc : vmap (new_view st sc parent) = dstate parent st.
Proof. unfold vmap, new_view, dstate. cbn [pending v_ts v_base]. apply overlay_empty. Qed.

Lemma dstate_commit parent s : v_base s = parent -> dstate parent (commit s) = vmap s.
Proof.
  intros Hb. unfold dstate, vmap, commit. cbn [ts_changed]. rewrite overlay_union, Hb. reflexivity.
Qed.

Lemma run_tx_supply r fm parent ts st t sk u st' x : transfer_tx t -> wf_state (dstate parent st) ->
  run_tx r fm parent ts st t sk u = (st', x) ->
  wf_state (dstate parent st')
  /\ match x with
     | inl res => supply (dstate parent st') + res_fee res = supply (dstate parent st)
     | inr _ => st' = st
     end.
Proof.
  intros Ht Hwf. unfold run_tx.
  set (s := new_view st (ScopeKeys sk) (fetch parent sk)).
  set (sh := new_view st (ScopeKeys sk) parent).
  pose proof (tx_views_agree parent st sk) as Hag. fold s sh in Hag.
  destruct (pre_execute r fm t u s ts) as [e f] eqn:P.
  destruct (N.eqb_spec e 0) as [->|Hne].
  2:{ destruct e; [contradiction|]. intros H; inversion H; subst. auto. }
  pose proof (agree_execute_tx t u f s sh Hag) as Hx.
  destruct (execute_tx t u f s) as [[s' res]|] eqn:E1.
  2:{ intros H; inversion H; subst. auto. }
  destruct (execute_tx t u f sh) as [[sh' res']|] eqn:E2; [|contradiction].
  destruct Hx as [<- Hag']. intros H; inversion H; subst. clear H.
  assert (Hwfh : wf_state (vmap sh)) by (unfold sh; rewrite vmap_full_view; exact Hwf).
  destruct (execute_tx_supply t u f sh sh' res Ht (view_ok_new _ _ _) Hwfh E2) as (Es & Ws & _ & Ef).
  destruct (execute_tx_env _ _ _ _ _ _ E1) as [T1 _].
  destruct (execute_tx_env _ _ _ _ _ _ E2) as [T2 B2].
  assert (Hc : dstate parent (commit s') = vmap sh').
  { rewrite <- (dstate_commit parent sh' B2). unfold dstate, commit. cbn [ts_changed].
    destruct Hag' as (_ & Hp & _). rewrite Hp, T1, T2. reflexivity. }
  rewrite Hc. split; [exact Ws|]. rewrite Ef. unfold sh in Es. rewrite vmap_full_view in Es. exact Es.
Qed.

(* ------------------------------------------------------------------ 5. blocks and histories *)

Lemma run_txs_supply r fm parent ts : forall ptxs st st' rs fails,
  Forall (fun p : tx * gmap key perm * dims => transfer_tx p.1.1) ptxs -> wf_state (dstate parent st) ->
  run_txs r fm parent ts st ptxs = (st', rs, fails) ->
  wf_state (dstate parent st') /\ supply (dstate parent st') + fees rs = supply (dstate parent st).
Proof.
  induction ptxs as [|[[t sk] u] rest IH]; intros st st' rs fails Hall Hwf H; cbn [run_txs] in H.
  - inversion H; subst. unfold fees. cbn. split; [exact Hwf | lia].
  - inversion Hall as [|? ? Ht Hrest]; subst. cbn [fst] in Ht.
    destruct (run_tx r fm parent ts st t sk u) as [st1 [res|e]] eqn:R;
      destruct (run_tx_supply _ _ _ _ _ _ _ _ _ _ Ht Hwf R) as [W1 E1];
      destruct (run_txs r fm parent ts st1 rest) as [[st2 rs2] fails2] eqn:R2;
      inversion H; subst; destruct (IH _ _ _ _ Hrest W1 R2) as [W2 E2].
    + split; [exact W2|]. unfold fees in *. cbn [map fold_right]. lia.
    + split; [exact W2 | exact E2].
Qed.

Lemma prepare_txs r : forall txs fm ptxs fm',
  prepare r fm txs = inl (ptxs, fm') -> map (fun p : tx * gmap key perm * dims => p.1.1) ptxs = txs.
Proof.
  induction txs as [|t txs IH]; intros fm ptxs fm' H; cbn [prepare] in H.
  - inversion H; reflexivity.
  - destruct (state_keys t) as [sk|]; [|discriminate]. destruct (units r t sk) as [u|]; [|discriminate].
    destruct (consume fm u (r_max_units r)) as [[[] d] fm1]; [|discriminate].
    destruct (prepare r fm1 txs) as [[l fm2]|e] eqn:P; [|discriminate].
    inversion H; subst. cbn [map fst]. f_equal. apply (IH _ _ _ P).
Qed.

(* one accepted block *)
Lemma block_supply r mk p b o : transfer_block b -> wf_state (p_data p) ->
  execute_block r mk p b = inl o ->
  supply (post_data p o) + fees (o_results o) = supply (p_data p) /\ wf_state (post_data p o).
Proof.
  intros Hb Hwf H.
  destruct (execute_block_inv _ _ _ _ _ H) as (_ & _ & _ & _ & _ & _ & _ & ptxs & fm' & st & rs & P & R & ->).
  rewrite post_data_overlay. cbn [o_diff o_results].
  assert (Hall : Forall (fun p : tx * gmap key perm * dims => transfer_tx p.1.1) ptxs).
  { apply Forall_map. rewrite (prepare_txs _ _ _ _ _ P). exact Hb. }
  assert (Hwf0 : wf_state (dstate (p_data p) ts_new)) by (rewrite dstate_new; exact Hwf).
  destruct (run_txs_supply _ _ _ _ _ _ _ _ _ Hall Hwf0 R) as [W E]. rewrite dstate_new in E.
  split; [exact E | exact W].
Qed.

(* any history of accepted blocks *)
Lemma chain_supply r mk : forall bs p p' os, Forall transfer_block bs -> wf_state (p_data p) ->
  run_chain r mk p bs = Some (p', os) ->
  supply (p_data p') + chain_fees os = supply (p_data p) /\ wf_state (p_data p').
Proof.
  induction bs as [|b bs IH]; intros p p' os Hall Hwf H; cbn [run_chain] in H.
  - inversion H; subst. unfold chain_fees. cbn. split; [lia | exact Hwf].
  - inversion Hall as [|? ? Hb Hrest]; subst.
    destruct (execute_block r mk p b) as [o|e] eqn:E; [|discriminate].
    destruct (block_supply _ _ _ _ _ Hb Hwf E) as [E1 W1].
    destruct (run_chain r mk (next_parent p o) bs) as [[p1 os1]|] eqn:Rc; [|discriminate].
    inversion H; subst. destruct (IH (next_parent p o) _ _ Hrest W1 Rc) as [E2 W2]. cbn [next_parent p_data] in E2.
    split; [|exact W2]. unfold chain_fees in *. cbn [map fold_right]. lia.
Qed.

(* one Transfer through a view: conserved on success, restorable on failure *)
Lemma transfer_conserves s from to value memo_ok out s' x : view_ok s -> wf_state (vmap s) ->
  run_ops s [OTransfer from to value memo_ok] out = (s', x) ->
  match x with
  | inl _ => supply (vmap s') = supply (vmap s) /\ wf_state (vmap s')
  | inr _ => vmap (rollback s' (op_index s)) = vmap s
  end.
Proof.
  intros Hok Hwf H. destruct x as [res|e].
  - apply (run_ops_transfers [OTransfer from to value memo_ok]) with (out := out) (res := res); auto.
    constructor; [exact I | constructor].
  - pose proof (reach_run_ops [OTransfer from to value memo_ok] s out) as Hr. rewrite H in Hr. cbn [fst] in Hr.
    apply (vmap_rollback _ _ Hr Hok).
Qed.

(* ------------------------------------------------------------------ 6. the supply as a sum over a list of accounts
   (the form Check/C06_check.v evaluates: a duplicate-free universe covering every present key) *)

Lemma fold_left_add_right (l : list N) : fold_left N.add l 0 = fold_right N.add 0 l.
Proof.
  assert (H : forall acc, fold_left N.add l acc = acc + fold_right N.add 0 l).
  { induction l as [|x l IH]; intros acc; cbn [fold_left fold_right]; [lia|]. rewrite IH. lia. }
  rewrite H. lia.
Qed.

Lemma supply_universe (l : list key) : forall (m : gmap key val),
  NoDup l -> (forall k, is_Some (m !! k) -> In k l) ->
  fold_right N.add 0 (map (fun k => match m !! k with Some v => be_dec v | None => 0 end) l) = supply m.
Proof.
  induction l as [|k l IH]; intros m Hnd Hcov.
  - assert (Hm : m = ∅).
    { apply map_empty. intros k. destruct (m !! k) as [v|] eqn:E; [|reflexivity].
      exfalso. apply (Hcov k). rewrite E. eauto. }
    subst m. cbn. symmetry. apply supply_empty.
  - inversion Hnd as [|? ? Hnin Hnd']; subst. cbn [map fold_right].
    assert (Hrest : map (fun k' => match m !! k' with Some v => be_dec v | None => 0 end) l
                    = map (fun k' => match delete k m !! k' with Some v => be_dec v | None => 0 end) l).
    { apply map_ext_in. intros k' Hin. rewrite lookup_delete_ne; [reflexivity|]. intros ->. apply Hnin, elem_of_list_In, Hin. }
    rewrite Hrest, (IH (delete k m) Hnd').
    + destruct (m !! k) as [v|] eqn:E.
      * rewrite (supply_delete m k v E). reflexivity.
      * rewrite delete_notin by exact E. lia.
    + intros k' [v Hs]. destruct (decide (k = k')) as [->|Hne].
      * rewrite lookup_delete in Hs. discriminate.
      * rewrite lookup_delete_ne in Hs by exact Hne.
        destruct (Hcov k' (ex_intro _ v Hs)) as [->|Hin]; [contradiction | exact Hin].
Qed.
