(* Correspondence + executable property oracle for C38 (fee bonds). *)
From Coq Require Import List NArith ZArith Bool.
Import ListNotations.
From HV Require Import Lib.Harness Model.Bond.
Local Open Scope N_scope.

(* observed after every operation: result code (0 ok/true, 1 false, 2 error), the tx list handed to the
   inner DSMR (BuildChunk only, None when it was not called), the pending balance of every account
   0..nacc-1 read from the bonder db, the fee record of every tx 0..ntx-1 read from the bonder db *)
Record out := mkO { o_rc : N; o_bonded : option (list N); o_pend : list N; o_fees : list (option N) }.

Record case := mk { c_table : list txinfo; c_nacc : N; c_ops : list op; c_outs : list out }.

Definition info_of (tbl : list txinfo) : table := fun t => nth (N.to_nat t) tbl (mkTx 0 0 0%Z).

Definition rangeN (n : N) : list N := map N.of_nat (seq 0 (N.to_nat n)).

Fixpoint listN_eqb (a b : list N) : bool :=
  match a, b with
  | [], [] => true
  | x :: a', y :: b' => (x =? y) && listN_eqb a' b'
  | _, _ => false
  end.

Definition optN_eqb (a b : option N) : bool :=
  match a, b with
  | None, None => true
  | Some x, Some y => x =? y
  | _, _ => false
  end.

Fixpoint listO_eqb (a b : list (option N)) : bool :=
  match a, b with
  | [], [] => true
  | x :: a', y :: b' => optN_eqb x y && listO_eqb a' b'
  | _, _ => false
  end.

Definition optL_eqb (a b : option (list N)) : bool :=
  match a, b with
  | None, None => true
  | Some x, Some y => listN_eqb x y
  | _, _ => false
  end.

Definition out_eqb (a b : out) : bool :=
  (o_rc a =? o_rc b) && optL_eqb (o_bonded a) (o_bonded b) && listN_eqb (o_pend a) (o_pend b)
  && listO_eqb (o_fees a) (o_fees b).

Fixpoint outs_eqb (a b : list out) : bool :=
  match a, b with
  | [], [] => true
  | x :: a', y :: b' => out_eqb x y && outs_eqb a' b'
  | _, _ => false
  end.

(* ---- model = implementation ---------------------------------------------------------- *)

Definition snapshot (nacc ntx : N) (b : bst) (rc : N) (bonded : option (list N)) : out :=
  mkO rc bonded (map (b_pend b) (rangeN nacc)) (map (fun t => lookup t (b_recs b)) (rangeN ntx)).

Fixpoint model_outs (info : table) (nacc ntx : N) (s : nst) (ops : list op) : list out :=
  match ops with
  | [] => []
  | o :: r =>
      let '(s', (rc, bonded)) := step info s o in
      snapshot nacc ntx (n_b s') rc bonded :: model_outs info nacc ntx s' r
  end.

Definition check_case (c : case) : bool :=
  let info := info_of (c_table c) in
  let ntx := N.of_nat (length (c_table c)) in
  outs_eqb (model_outs info (c_nacc c) ntx n_init (c_ops c)) (c_outs c).

(* ---- the property, evaluated on the implementation's outputs --------------------------
   Ghost set B of (tx, fee): the txs bonded so far that were neither accepted nor expired (nor
   unbonded directly), with fee = size * fee rate of the call that bonded them.  The property says:
   after every operation  pending(a) = sum of the fees in B of a's txs  (never above max(a) when a
   tx is admitted; 0 when B has no tx of a), fee record of t = B(t), and Bond admits a tx iff it is
   already in B or its fee still fits under the sponsor's maximum. *)

Definition sp_pend (info : table) (B : list (N * N)) (a : N) : N :=
  fold_right (fun tf acc => if tx_sponsor (info (fst tf)) =? a then snd tf + acc else acc) 0 B.

Definition sp_fee (B : list (N * N)) (t : N) : option N :=
  match find (fun tf => fst tf =? t) B with Some tf => Some (snd tf) | None => None end.

Definition sp_try (info : table) (B : list (N * N)) (mx : N -> N) (t rate : N) (ge : bool)
  : list (N * N) * N :=
  match sp_fee B t with
  | Some _ => (B, 0)
  | None =>
      if ge then (B, 2) else
      let a := tx_sponsor (info t) in
      let fee := tx_size (info t) * rate in
      if (fee <? U64) && (sp_pend info B a + fee <? U64) && (sp_pend info B a + fee <=? mx a)
      then ((t, fee) :: B, 0) else (B, 1)
  end.

Fixpoint sp_build (info : table) (B : list (N * N)) (mx : N -> N) (txs : list N) (rate : N) (ge : bool)
  (bonded : list N) : list (N * N) * option (list N) :=
  match txs with
  | [] => (B, Some bonded)
  | t :: r =>
      let '(B', rc) := sp_try info B mx t rate ge in
      if rc =? 2 then (B', None)
      else sp_build info B' mx r rate ge (if rc =? 0 then bonded ++ [t] else bonded)
  end.

Definition sp_snapshot (info : table) (nacc ntx : N) (B : list (N * N)) (rc : N) (bonded : option (list N)) : out :=
  mkO rc bonded (map (sp_pend info B) (rangeN nacc)) (map (sp_fee B) (rangeN ntx)).

Fixpoint sp_outs (info : table) (nacc ntx : N) (B : list (N * N)) (mx : N -> N) (ops : list op) : list out :=
  match ops with
  | [] => []
  | o :: r =>
      match o with
      | OSetMax a m =>
          sp_snapshot info nacc ntx B 0 None :: sp_outs info nacc ntx B (upd mx a m) r
      | OBond t rate ge =>
          let '(B', rc) := sp_try info B mx t rate ge in
          sp_snapshot info nacc ntx B' rc None :: sp_outs info nacc ntx B' mx r
      | OUnbond t =>
          let B' := filter (fun tf => negb (fst tf =? t)) B in
          sp_snapshot info nacc ntx B' 0 None :: sp_outs info nacc ntx B' mx r
      | OBuild txs rate ge de =>
          let '(B', bonded) := sp_build info B mx txs rate ge [] in
          let rc := match bonded with None => 2 | Some _ => if de then 2 else 0 end in
          sp_snapshot info nacc ntx B' rc bonded :: sp_outs info nacc ntx B' mx r
      | OAccept ts chunks de =>
          let B' := if de then B else
            filter (fun tf => negb (tx_expiry (info (fst tf)) <? ts)%Z
                              && negb (existsb (N.eqb (fst tf)) (concat chunks))) B in
          sp_snapshot info nacc ntx B' (if de then 2 else 0) None :: sp_outs info nacc ntx B' mx r
      end
  end.

(* a tx bonded directly through the Bonder is unknown to the node's expiry heap, so "accepted or
   expired" is not defined for it: the ghost set is only meaningful for histories that do not mix
   direct Bond calls with the node's Accept (the driver never mixes them). *)
Definition is_direct_bond (o : op) : bool := match o with OBond _ _ _ => true | _ => false end.
Definition is_accept (o : op) : bool := match o with OAccept _ _ _ => true | _ => false end.

Definition spec_ok (c : case) : bool :=
  let info := info_of (c_table c) in
  let ntx := N.of_nat (length (c_table c)) in
  if existsb is_direct_bond (c_ops c) && existsb is_accept (c_ops c) then true
  else outs_eqb (sp_outs info (c_nacc c) ntx [] (fun _ => 0) (c_ops c)) (c_outs c).

(* self-test: the same tx bonded twice through the node, then expired *)
Definition st_table := [mkTx 0 10 5%Z].
Definition st_ops := [OSetMax 0 100; OBuild [0; 0] 2 false false; OAccept 6%Z [] false].
Definition selftest_good : case := mk st_table 1 st_ops
  [mkO 0 None [0] [None]; mkO 0 (Some [0; 0]) [20] [Some 20]; mkO 0 None [0] [None]].
Definition selftest_bad : case := mk st_table 1 st_ops
  [mkO 0 None [0] [None]; mkO 0 (Some [0; 0]) [40] [Some 20]; mkO 0 None [20] [None]].
