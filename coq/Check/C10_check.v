(* Correspondence + executable property oracle for C10. *)
From Coq Require Import List ZArith NArith Bool.
Import ListNotations.
From HV Require Import Lib.Bytes Lib.Harness Model.TxStatic.
Local Open Scope Z_scope.

(* kind: 0 validitywindow.VerifyTimestamp(e, t, div, W)
         1 Base.Execute(rules, t)
         2 Transaction.PreExecute(..., t)            (fee/balance checks made to always pass)
         3 PreExecutor.PreExecute (mempool admission): the code reads time.Now() itself; the driver
           brackets the call: t = clock before, t2 = clock after, so t <= now <= t2.
   c_impl: error class (Model.TxStatic numbering, 99 = any other error). *)
Record case := mk {
  c_kind : N;
  c_e : Z; c_t : Z; c_t2 : Z; c_div : Z; c_W : Z;
  c_chain_tx : bytes; c_chain_r : bytes; c_max : N;
  c_actions : list (Z * Z); c_auth : Z * Z;
  c_impl : N }.

Definition to_range (p : Z * Z) : vrange := mkRange (fst p) (snd p).
Definition rules_of (c : case) : srules := mkRules (c_chain_r c) (c_W c) (c_max c).
Definition tx_of (c : case) : stx := mkTx (c_e c) (c_chain_tx c) (map to_range (c_actions c)) (to_range (c_auth c)).

(* model = implementation *)
Definition check_case (c : case) : bool :=
  match c_kind c with
  | 0%N => N.eqb (verify_timestamp (c_e c) (c_t c) (c_div c) (c_W c)) (c_impl c)
  | 1%N => N.eqb (base_execute (rules_of c) (c_e c) (c_chain_tx c) (c_t c)) (c_impl c)
  | 2%N => N.eqb (pre_execute_static (rules_of c) (tx_of c) (c_t c)) (c_impl c)
  | 3%N =>
      let a := admit_static (rules_of c) (tx_of c) (c_t c) in
      let b := admit_static (rules_of c) (tx_of c) (c_t2 c) in
      if N.eqb a b then N.eqb a (c_impl c) else true
  | _ => false
  end.

(* ---- the property, evaluated on the implementation's answer, over mathematical integers ---- *)
Definition fits64 (z : Z) : bool := (MinI64 <=? z) && (z <=? MaxI64).
Definition act_at (t : Z) (p : Z * Z) : bool :=
  ((fst p <? 0) || (fst p <=? t)) && ((snd p <? 0) || (t <=? snd p)).

Definition aligned (c : case) : bool := c_e c mod c_div c =? 0.
Definition in_interval (c : case) (t : Z) : bool := (t <=? c_e c) && (c_e c <=? t + c_W c).
Definition chain_same (c : case) : bool := bytes_eqb (c_chain_tx c) (c_chain_r c).
Definition count_fits (c : case) : bool := (N.of_nat (length (c_actions c)) <=? c_max c)%N.

(* the clauses that apply to each entry point *)
Definition cond (c : case) (t : Z) : bool :=
  match c_kind c with
  | 0%N => aligned c && in_interval c t
  | 1%N => aligned c && in_interval c t && chain_same c
  | _ => aligned c && in_interval c t && chain_same c && count_fits c &&
         forallb (act_at t) (c_actions c) && act_at t (c_auth c)
  end.

(* a returned error class must name a clause that really fails (for kinds 0-2) *)
Definition class_justified (c : case) : bool :=
  let t := c_t c in
  match c_impl c with
  | 0%N => true
  | 1%N => negb (chain_same c) && negb (N.eqb (c_kind c) 0)
  | 2%N => negb (aligned c)
  | 3%N => c_e c <? t
  | 4%N => (t + c_W c <? c_e c) || negb (fits64 (t + c_W c))
  | 5%N => negb (count_fits c) && (2 <=? c_kind c)%N
  | 6%N => negb (forallb (act_at t) (c_actions c)) && (2 <=? c_kind c)%N
  | 7%N => negb (act_at t (c_auth c)) && (2 <=? c_kind c)%N
  | _ => false
  end.

Definition spec_ok (c : case) : bool :=
  let ok := N.eqb (c_impl c) 0 in
  match c_kind c with
  | 3%N =>
      (* admitted -> executable at some instant of [t, t2]; executable throughout [t, t2] -> admitted *)
      let lo := c_t c in let hi := c_t2 c in
      let admitted_sound :=
        aligned c && (lo <=? c_e c) && (c_e c <=? hi + c_W c) && chain_same c && count_fits c &&
        forallb (fun p => ((fst p <? 0) || (fst p <=? hi)) && ((snd p <? 0) || (lo <=? snd p))) (c_actions c ++ [c_auth c]) in
      (implb ok admitted_sound) &&
      (implb (cond c lo && cond c hi && fits64 (hi + c_W c)) ok)
  | _ =>
      (if fits64 (c_t c + c_W c) then Bool.eqb ok (cond c (c_t c))
       else if 0 <=? c_W c then negb ok else true) &&
      class_justified c
  end.

(* comparator self-test *)
Definition selftest_good : case :=
  mk 2 5000 5000 0 1000 60000 [7%N] [7%N] 2 [(-1, -1)] (-1, 5000) 0.
Definition selftest_bad : case :=
  mk 2 5000 5001 0 1000 60000 [7%N] [7%N] 2 [(-1, -1)] (-1, 5000) 0.
