(* Trace validation + executable property oracle for C26 (internal/workers).

   A case: the pool shape (worker count, serial or parallel), the jobs (per task: does it fail), and the
   event trace observed from the real pool.  Events are appended under one mutex, so a causal order of the
   Go program is an order of the trace; "call" events are logged before the call, "return" events after.
   Every condition below holds for every trace of the unchanged code (the schedule is not controlled).

   [check_case] = [check_stmts] && [lts_accepts]:
   [lts_accepts]: TRACE INCLUSION — the observed trace of a parallel pool is the visible part of a run of the LTS
   Model/Workers.v (the acceptor Model/WorkersAccept.v interleaves the unobservable labels and replays the LTS
   label by label; Proofs/WorkersAccept_proofs.v: an accepted trace is a trace of the LTS, [accepts_sound]);
   [check_stmts]: the log-level statements the theorems prove, evaluated on the trace (jobs strictly one after
   the other, a job's tasks start only after the previous job was closed and all its tasks ended, at most [nw]
   tasks open, a single worker / the serial pool skip exactly the tasks after the first failure, shutdown rules).
   [spec_ok] = the property text evaluated on the trace. *)
From Coq Require Import List NArith Bool Arith.
Import ListNotations.
From HV Require Import Lib.Harness Model.Workers Model.WorkersAccept.

Inductive ev :=
| ENewCall (j : nat)            (* about to call NewJob for input job j *)
| ENew (j : nat) (ok : bool)    (* NewJob returned (ok = no error) *)
| EGo (j i : nat)               (* about to call Go for task i of job j *)
| EDoneCall (j : nat)           (* about to call Done *)
| EBeg (j i : nat) | EEnd (j i : nat) (ok : bool)
| ECallback (j : nat)           (* the function given to Done ran *)
| EWait (j : nat) (r : N)       (* Wait returned: 0 nil, 1 ErrShutdown, 2+i the error of task i of this job *)
| EStopCall | EStopRet
| ESeenShut.                    (* somebody saw shouldShutdown = true *)

Record case := mk { c_nw : nat; c_serial : bool; c_jobs : list (list bool); c_evs : list ev; c_hang : bool;
                    c_mj : nat (* maxJobs, the capacity of the pool's queue *) }.

Fixpoint idx_from (p : ev -> bool) (i : nat) (l : list ev) : option nat :=
  match l with [] => None | e :: l' => if p e then Some i else idx_from p (S i) l' end.
Definition idx p l := idx_from p 0 l.
Definition cnt (p : ev -> bool) (l : list ev) : nat := length (filter p l).
Definition lt_opt (a b : option nat) : bool :=
  match a, b with Some x, Some y => Nat.ltb x y | _, _ => false end.
Definition has (o : option nat) : bool := match o with Some _ => true | None => false end.
(* [before p q l]: every event satisfying p comes before every event satisfying q *)
Fixpoint before (p q : ev -> bool) (seenq : bool) (l : list ev) : bool :=
  match l with
  | [] => true
  | e :: l' => negb (p e && seenq) && before p q (seenq || q e) l'
  end.

Definition is_newcall j e := match e with ENewCall a => Nat.eqb a j | _ => false end.
Definition is_new j e := match e with ENew a _ => Nat.eqb a j | _ => false end.
Definition is_newok j e := match e with ENew a true => Nat.eqb a j | _ => false end.
Definition is_go j i e := match e with EGo a b => Nat.eqb a j && Nat.eqb b i | _ => false end.
Definition is_donecall j e := match e with EDoneCall a => Nat.eqb a j | _ => false end.
Definition is_beg j i e := match e with EBeg a b => Nat.eqb a j && Nat.eqb b i | _ => false end.
Definition is_end j i e := match e with EEnd a b _ => Nat.eqb a j && Nat.eqb b i | _ => false end.
Definition is_begj j e := match e with EBeg a _ => Nat.eqb a j | _ => false end.
Definition is_endj j e := match e with EEnd a _ _ => Nat.eqb a j | _ => false end.
Definition is_failj j e := match e with EEnd a _ false => Nat.eqb a j | _ => false end.
Definition is_wait j e := match e with EWait a _ => Nat.eqb a j | _ => false end.
Definition is_cb j e := match e with ECallback a => Nat.eqb a j | _ => false end.
Definition is_stopcall e := match e with EStopCall => true | _ => false end.
Definition is_stopret e := match e with EStopRet => true | _ => false end.
Definition is_activity e := match e with EBeg _ _ | EEnd _ _ _ => true | _ => false end.
Definition is_known e := match e with EStopRet | ESeenShut | ENew _ false => true | _ => false end.
Definition job_of e := match e with
  | ENewCall j | ENew j _ | EGo j _ | EDoneCall j | EBeg j _ | EEnd j _ _ | ECallback j | EWait j _ => Some j
  | _ => None end.

Definition wait_res (j : nat) (evs : list ev) : option N :=
  match find (is_wait j) evs with Some (EWait _ r) => Some r | _ => None end.
Definition accepted (j : nat) (evs : list ev) : bool := has (idx (is_newok j) evs).

(* the client protocol as the driver follows it, and basic shape *)
Definition wf (jobs : list (list bool)) (evs : list ev) : bool :=
  let nj := length jobs in
  forallb (fun e => match job_of e with Some j => Nat.ltb j nj | None => true end) evs &&
  Nat.leb (cnt is_stopcall evs) 1 &&
  forallb (fun j =>
    let fl := nth j jobs [] in
    let nt := length fl in
    Nat.eqb (cnt (is_newcall j) evs) 1 && Nat.eqb (cnt (is_new j) evs) 1 &&
    lt_opt (idx (is_newcall j) evs) (idx (is_new j) evs) &&
    (Nat.eqb j 0 || lt_opt (idx (is_newcall (pred j)) evs) (idx (is_newcall j) evs)) &&
    (if accepted j evs then
       Nat.eqb (cnt (is_donecall j) evs) 1 && Nat.eqb (cnt (is_wait j) evs) 1 &&
       lt_opt (idx (is_new j) evs) (idx (is_donecall j) evs) &&
       lt_opt (idx (is_donecall j) evs) (idx (is_wait j) evs) &&
       forallb (fun i =>
         Nat.eqb (cnt (is_go j i) evs) 1 &&
         lt_opt (idx (is_new j) evs) (idx (is_go j i) evs) && lt_opt (idx (is_go j i) evs) (idx (is_donecall j) evs) &&
         (* at most once, after its Go, end after begin with the right outcome *)
         Nat.leb (cnt (is_beg j i) evs) 1 && Nat.eqb (cnt (is_end j i) evs) (cnt (is_beg j i) evs) &&
         (negb (has (idx (is_beg j i) evs)) ||
            (lt_opt (idx (is_go j i) evs) (idx (is_beg j i) evs) && lt_opt (idx (is_beg j i) evs) (idx (is_end j i) evs))) &&
         forallb (fun e => match e with EEnd a b ok => negb (Nat.eqb a j && Nat.eqb b i) || Bool.eqb ok (negb (nth i fl false)) | _ => true end) evs)
       (seq 0 nt) &&
       forallb (fun e => match e with EBeg a b | EEnd a b _ | EGo a b => negb (Nat.eqb a j) || Nat.ltb b nt | _ => true end) evs
     else
       (* a refused job has no handle: nothing else happens for it *)
       Nat.eqb (cnt (fun e => match job_of e with Some a => Nat.eqb a j | None => false end) evs) 2))
  (seq 0 nj).

(* outcome of one accepted job *)
Definition job_ok (exact_skip : bool) (j : nat) (fl : list bool) (evs : list ev) : bool :=
  match wait_res j evs with
  | None => false
  | Some r =>
      let ran i := has (idx (is_beg j i) evs) in
      let anyran := existsb ran (seq 0 (length fl)) in
      let failed_ran := existsb (fun i => ran i && nth i fl false) (seq 0 (length fl)) in
      (* every task activity of the job is over when Wait returns *)
      before (fun e => is_begj j e || is_endj j e) (is_wait j) false evs &&
      (if N.eqb r 1 then
         (* shutdown: nothing ran, and Stop was called before *)
         negb anyran && lt_opt (idx is_stopcall evs) (idx (is_wait j) evs)
       else
         (* an error iff some executed task failed, and then it is the error of such a task *)
         (if N.eqb r 0 then negb failed_ran
          else existsb (fun i => N.eqb r (N.of_nat (2 + i)) && ran i && nth i fl false) (seq 0 (length fl))) &&
         (* all tasks run if none fails *)
         (existsb (fun b => b) fl || forallb ran (seq 0 (length fl))) &&
         (* tasks are only skipped after a failure of an executed task *)
         (failed_ran || forallb ran (seq 0 (length fl)))) &&
      (* the Done callback runs after the job completed, never for a shutdown job *)
      Nat.leb (cnt (is_cb j) evs) 1 &&
      (negb (has (idx (is_cb j) evs)) ||
         (negb (N.eqb r 1) && before (is_endj j) (is_cb j) false evs)) &&
      (* one worker (or the serial pool): exactly the tasks up to the first failing one run, in order, and
         its error is the result *)
      (negb exact_skip || N.eqb r 1 ||
         let '(ranl, res) := serial_job fl None 0 in
         forallb (fun i => Bool.eqb (ran i) (existsb (Nat.eqb i) ranl)) (seq 0 (length fl)) &&
         N.eqb r (match res with None => 0 | Some i => N.of_nat (2 + i) end))
  end.

(* jobs run strictly one after the other *)
Definition jobs_sequential (with_done : bool) (nj : nat) (evs : list ev) : bool :=
  forallb (fun j =>
    forallb (fun i =>
      negb (accepted i evs) ||
      (before (is_endj i) (is_begj j) false evs &&
       before (is_begj i) (is_begj j) false evs &&
       (negb with_done || before (is_donecall i) (is_begj j) false evs)))
    (seq 0 j))
  (seq 0 nj).

Fixpoint conc_ok (w : nat) (open : nat) (evs : list ev) : bool :=
  match evs with
  | [] => true
  | EBeg _ _ :: l => Nat.ltb open w && conc_ok w (S open) l
  | EEnd _ _ _ :: l => conc_ok w (pred open) l
  | _ :: l => conc_ok w open l
  end.

(* shutdown: p0 = first moment at which shouldShutdown is known to be set *)
Definition shutdown_ok (nj : nat) (evs : list ev) : bool :=
  (* a refusal / a shutdown result needs a Stop call before it *)
  forallb (fun j => accepted j evs || lt_opt (idx is_stopcall evs) (idx (is_new j) evs)) (seq 0 nj) &&
  (* no task activity after Stop returned *)
  before is_activity is_stopret false evs &&
  match idx is_known evs with
  | None => true
  | Some p0 =>
      forallb (fun j =>
        (* future jobs are refused *)
        (match idx (is_newcall j) evs with Some q => Nat.ltb q p0 | None => true end || negb (accepted j evs)) &&
        (* pending jobs report shutdown: some earlier job was still open or running at p0 *)
        (negb (accepted j evs) ||
         negb (existsb (fun i => accepted i evs &&
                   (match idx (is_donecall i) evs with Some q => Nat.ltb p0 q | None => false end ||
                    existsb (fun b => b)
                      (map (fun pe => match pe with (q, e) => is_endj i e && Nat.ltb p0 q end)
                           (combine (seq 0 (length evs)) evs)))) (seq 0 j)) ||
         match wait_res j evs with Some r => N.eqb r 1 | None => false end))
      (seq 0 nj)
  end.

Definition common (c : case) : bool :=
  let nj := length (c_jobs c) in
  negb (c_hang c) && wf (c_jobs c) (c_evs c) &&
  (* Stop returned if it was called *)
  Nat.eqb (cnt is_stopret (c_evs c)) (cnt is_stopcall (c_evs c)).

Definition check_stmts (c : case) : bool :=
  let nj := length (c_jobs c) in
  let exact := c_serial c || Nat.eqb (c_nw c) 1 in
  common c &&
  forallb (fun j => negb (accepted j (c_evs c)) || job_ok exact j (nth j (c_jobs c) []) (c_evs c)) (seq 0 nj) &&
  (c_serial c || (jobs_sequential true nj (c_evs c) && shutdown_ok nj (c_evs c))) &&
  conc_ok (if c_serial c then 1 else c_nw c) 0 (c_evs c).

(* ---- trace inclusion in the LTS ------------------------------------------------------------------------ *)
Definition to_oev (e : ev) : oev :=
  match e with
  | ENewCall j => ONewCall j | ENew j ok => ONew j ok | EGo j i => OGo j i | EDoneCall j => ODoneCall j
  | EBeg j i => OBeg j i | EEnd j i ok => OEnd j i ok | ECallback j => OCallback j | EWait j r => OWait j r
  | EStopCall => OStopCall | EStopRet => OStopRet | ESeenShut => OSeenShut
  end.

(* the configuration of the LTS for a case: task ids are given in the order of the Go calls, so the k-th EGo of
   the trace names the task whose outcome is c_fail k *)
Definition go_fails (jobs : list (list bool)) (evs : list ev) : list bool :=
  flat_map (fun e => match e with EGo j i => [nth i (nth j jobs []) false] | _ => [] end) evs.
Definition cfg_of (c : case) : cfg :=
  let gf := go_fails (c_jobs c) (c_evs c) in mkC (c_nw c) (c_mj c) (fun t => nth t gf false) true.

Definition lts_accepts (c : case) : bool :=
  c_serial c || accepts (cfg_of c) (map to_oev (c_evs c)).

Definition check_case (c : case) : bool := check_stmts c && lts_accepts c.

Definition spec_ok (c : case) : bool :=
  let nj := length (c_jobs c) in
  common c &&
  forallb (fun j => negb (accepted j (c_evs c)) || job_ok false j (nth j (c_jobs c) []) (c_evs c)) (seq 0 nj) &&
  (c_serial c || (jobs_sequential false nj (c_evs c) && shutdown_ok nj (c_evs c))).

(* self test: two jobs of one task on two workers; bad = the second job starts before the first ended *)
Definition selftest_good : case :=
  mk 2 false [[false]; [false]]
     [ENewCall 0; ENew 0 true; EGo 0 0; EDoneCall 0; ENewCall 1; ENew 1 true; EGo 1 0; EDoneCall 1;
      EBeg 0 0; EEnd 0 0 true; EBeg 1 0; EWait 0 0%N; EEnd 1 0 true; EWait 1 0%N] false 4.
Definition selftest_bad : case :=
  mk 2 false [[false]; [false]]
     [ENewCall 0; ENew 0 true; EGo 0 0; EDoneCall 0; ENewCall 1; ENew 1 true; EGo 1 0; EDoneCall 1;
      EBeg 0 0; EBeg 1 0; EEnd 0 0 true; EWait 0 0%N; EEnd 1 0 true; EWait 1 0%N] false 4.

(* a trace that satisfies every statement of [check_stmts] but is not a trace of the LTS: with a queue of capacity
   one, NewJob of a third job returned while the first job was still running (the queue goroutine holds job 0,
   job 1 fills the queue, so NewJob 2 has to wait until job 0 completed) *)
Definition selftest_outside : case :=
  mk 2 false [[false]; []; []]
     [ENewCall 0; ENew 0 true; EGo 0 0; EDoneCall 0; EBeg 0 0; ENewCall 1; ENew 1 true; EDoneCall 1;
      ENewCall 2; ENew 2 true; EDoneCall 2; EEnd 0 0 true; EWait 0 0%N; EWait 1 0%N; EWait 2 0%N] false 1.
Definition selftest_inside : case :=
  mk 2 false [[false]; []; []]
     [ENewCall 0; ENew 0 true; EGo 0 0; EDoneCall 0; EBeg 0 0; ENewCall 1; ENew 1 true; EDoneCall 1;
      ENewCall 2; EEnd 0 0 true; ENew 2 true; EDoneCall 2; EWait 0 0%N; EWait 1 0%N; EWait 2 0%N] false 1.
