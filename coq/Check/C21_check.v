(* Correspondence + executable property oracle for C21 (dynamic state sync hand-over). *)
From Coq Require Import List NArith Bool.
Import ListNotations.
From HV Require Import Lib.Harness Model.Snow Check.C20_check.
Local Open Scope N_scope.

Record case := mk {
  k_cfg : cfg;
  k_Q : N;
  k_init : list event;
  k_ops : list op;
  k_obs : list (res * list event);
  k_unused : bool
}.

(* model = implementation, op by op (same comparator as C20), and the walk obeys the engine contract *)
Definition check_case (c : case) : bool :=
  eqb_list eqb_event (init_events (k_cfg c)) (k_init c)
  && eqb_list eqb_obs (run_obs (k_cfg c) (init_state (k_cfg c)) (k_ops c)) (k_obs c)
  && engine_ok (k_cfg c) (k_Q c) (k_ops c).

(* ---- the property, from the engine's point of view only ------------------------------------- *)

(* a processing block is good when it and all its processing ancestors up to the last accepted
   block are valid *)
Fixpoint goodb (fuel : nat) (es : estate) (b : N) : bool :=
  match fuel with
  | O => false
  | S f =>
    hasK b (e_proc es) && negb (e_invalid es b) &&
    ((e_parent es b =? e_last es) || (hasK (e_parent es b) (e_proc es) && goodb f es (e_parent es b)))
  end.
Definition good (es : estate) (b : N) : bool := goodb (S (length (e_blocks es))) es b.

(* [after], [exec_chain]: Model/Snow.v *)
Definition ple (es : estate) (x y : N * N) : bool :=
  (e_height es (fst x) <? e_height es (fst y)) || ((e_height es (fst x) =? e_height es (fst y)) && (fst x <=? fst y)).
Fixpoint pins (es : estate) (x : N * N) (l : list (N * N)) : list (N * N) :=
  match l with
  | [] => [x]
  | y :: r => if ple es x y then x :: l else y :: pins es x r
  end.
Definition psort (es : estate) (l : list (N * N)) : list (N * N) := fold_right (pins es) [] l.

Definition parent_ok (es : estate) (b : N) : bool :=
  (e_parent es b =? e_last es) || (hasK (e_parent es b) (e_proc es) && good es (e_parent es b)).

Definition reverify_events (es : estate) : list event :=
  flat_map (fun x : N * N =>
              let b := fst x in
              if parent_ok es b then
                if e_invalid es b then [EVerify (e_parent es b) b false]
                else [EVerify (e_parent es b) b true; NVerified b]
              else [])
           (psort es (e_proc es)).

Definition unresolved_of (es : estate) : list N :=
  map fst (filter (fun x : N * N => negb (good es (fst x))) (e_proc es)).

Definition no_chain_callbacks (evs : list event) : bool :=
  forallb (fun e => match e with
                    | EVerify _ _ _ | EAccept _ _ | NVerified _ | NAccepted _ | NRejected _ | EBuild _ _ | EBuildNil => false
                    | _ => true end) evs.

(* oracle state: phase 0 = before StartStateSync, 1 = syncing, 2 = handed over;
   [unres] = the blocks that must be reported unresolved; [lp] = the block whose accepted state the
   chain must be given as "last accepted"; [pq] = accepted, not yet processed *)
Record ost := mkOst { o_phase : N; o_unres : list N; o_lp : option N; o_pq : list N }.

Definition check_op (s : ost) (es : estate) (o : op) (rs : res) (evs : list event) : bool :=
  match o with
  | OStartSync b => eqb_res rs RUnit && eqb_list eqb_event evs [EIndex b]
  | OFinishSync t =>
    (* always completes; executes the chain from the target; re-verifies the processing blocks *)
    eqb_res rs RUnit
    && eqb_list eqb_event evs (exec_chain t (after t (e_sync es)) ++ reverify_events es)
  | OAccept h =>
    match lookup h (e_hid es) with
    | Some b =>
      if o_phase s =? 1 then eqb_res rs RUnit && eqb_list eqb_event evs [EIndex b; NPreAccepted b]
      else if (o_phase s =? 2) && memN b (o_unres s) then eqb_res rs (RErr eParentFailed) && eqb_list eqb_event evs []
      else if o_phase s =? 2 then eqb_res rs RUnit && eqb_list eqb_event evs [EIndex b]
      else true
    | None => true
    end
  | OVerify h => if o_phase s =? 1 then eqb_res rs RUnit && eqb_list eqb_event evs [] else true
  | OReject h =>
    match lookup h (e_hid es) with
    | Some b =>
      if (o_phase s =? 1) || memN b (o_unres s) then eqb_res rs RUnit && eqb_list eqb_event evs [NPreRejected b]
      else eqb_res rs RUnit && eqb_list eqb_event evs [NRejected b]
    | None => true
    end
  | OProcess =>
    match o_pq s with
    | b :: _ => eqb_res rs RUnit && match evs with [EAccept _ b'; NAccepted b''] => (b' =? b) && (b'' =? b) | _ => false end
    | [] => true
    end
  | OHealth =>
    if o_phase s =? 1 then eqb_res rs (RHealth false None false)
    else if o_phase s =? 2 then eqb_res rs (RHealth true (Some (lenN (o_unres s))) (lenN (o_unres s) =? 0))
    else true
  | OGetLastProcessed =>
    match o_lp s with
    | Some b => eqb_res rs (RId b)
    | None => eqb_res rs (RErr eNotPopulated)
    end
  | OLastAccepted => eqb_res rs (RId (e_last es))
  | OGetBlock b =>
    if o_phase s =? 2 then
      match lookup b (e_proc es) with
      | Some h => match rs with
                  | RBlk (BH h') b' v _ => (h' =? h) && (b' =? b) && Bool.eqb v (negb (memN b (o_unres s)))
                  | _ => false end
      | None => true
      end
    else true
  | _ => true
  end.

Definition next_ost (s : ost) (es : estate) (o : op) (rs : res) : ost :=
  match o, rs with
  | OStartSync _, RUnit => mkOst 1 [] (o_lp s) (o_pq s)
  | OFinishSync _, RUnit => mkOst 2 (unresolved_of es) (Some (e_last es)) []
  | OReject h, RUnit =>
    match lookup h (e_hid es) with
    | Some b => mkOst (o_phase s) (filter (fun x => negb (x =? b)) (o_unres s)) (o_lp s) (o_pq s)
    | None => s
    end
  | OAccept h, RUnit =>
    match lookup h (e_hid es) with
    | Some b => if o_phase s =? 1 then s else mkOst (o_phase s) (o_unres s) (o_lp s) (o_pq s ++ [b])
    | None => s
    end
  | OProcess, RUnit =>
    match o_pq s with
    | b :: q => mkOst (o_phase s) (o_unres s) (Some b) q
    | [] => s
    end
  | _, _ => s
  end.

Fixpoint handover_ok (s : ost) (es : estate) (ops : list op) (obs : list (res * list event)) : bool :=
  match ops, obs with
  | o :: r, (rs, evs) :: obs' =>
    check_op s es o rs evs
    && (if o_phase s =? 1 then match o with OFinishSync _ => true | _ => no_chain_callbacks evs end else true)
    && handover_ok (next_ost s es o rs) (eupd es o rs evs) r obs'
  | _, _ => true
  end.

Definition has_finish (ops : list op) : bool :=
  existsb (fun o => match o with OFinishSync _ => true | _ => false end) ops.

Definition spec_ok (c : case) : bool :=
  match erun_obs (k_Q c) (init_estate (k_cfg c)) (k_ops c) (k_obs c) with
  | None => false
  | Some _ =>
    handover_ok (mkOst 0 [] (if c_ready (k_cfg c) then Some 0 else None) []) (init_estate (k_cfg c)) (k_ops c) (k_obs c)
  end.
