(* Correspondence + executable property oracle for C34 (FormatBalance / ParseBalance). *)
From Coq Require Import List NArith Bool.
Import ListNotations.
From HV Require Import Lib.Harness Model.Balance.
Local Open Scope N_scope.

(* kind 0: FormatBalance(c_bal) = c_text; (c_bcode, c_bval) = ParseBalance(c_text) by the implementation
   kind 1: ParseBalance(c_text) = (c_code, c_val)
   codes: 0 ok, 1 strconv.ErrSyntax, 2 strconv.ErrRange, 9 other error *)
Record case := mk {
  c_kind : N; c_bal : N; c_text : list N; c_code : N; c_val : N; c_bcode : N; c_bval : N }.

Fixpoint text_eqb (a b : list N) : bool :=
  match a, b with
  | [], [] => true
  | x :: a', y :: b' => (x =? y) && text_eqb a' b'
  | _, _ => false
  end.

Definition pres_eqb (r : pres) (code val : N) : bool :=
  match r with
  | POk v => (code =? 0) && (v =? val)
  | PSyntax => code =? 1
  | PRange => code =? 2
  end.

Definition check_case (c : case) : bool :=
  match c_kind c with
  | 0 => text_eqb (format_balance (c_bal c)) (c_text c) && pres_eqb (parse_balance (c_text c)) (c_bcode c) (c_bval c)
  | 1 => pres_eqb (parse_balance (c_text c)) (c_code c) (c_val c)
  | _ => false
  end.

(* independent reading of a decimal string: split at the first '.', both parts digit strings,
   value by Horner's rule without any overflow logic *)
Definition is_digit (c : N) : bool := (48 <=? c) && (c <=? 57).
Definition dec_value (s : list N) : N := fold_left (fun acc c => acc * 10 + (c - 48)) s 0.

Fixpoint split_dot (s : list N) (acc : list N) : list N * list N :=
  match s with
  | [] => (rev acc, [])
  | c :: r => if c =? 46 then (rev acc, r) else split_dot r (c :: acc)
  end.

(* Some v: the string denotes v base units exactly; None: it is not a valid amount in range *)
Definition denotes (s : list N) : option N :=
  let '(w, f) := split_dot s [] in
  if forallb is_digit w && forallb is_digit f && negb (Nat.eqb (length w + length f) 0)
     && Nat.leb (length f) 9 then
    let v := dec_value w * 10 ^ 9 + dec_value f * 10 ^ (9 - N.of_nat (length f)) in
    if v <? 2 ^ 64 then Some v else None
  else None.

Definition spec_ok (c : case) : bool :=
  match c_kind c with
  | 0 => (c_bcode c =? 0) && (c_bval c =? c_bal c)
  | 1 => match denotes (c_text c) with
         | Some v => (c_code c =? 0) && (c_val c =? v)
         | None => negb (c_code c =? 0)
         end
  | _ => false
  end.

Definition selftest_good : case := mk 1 0 [56;46;50] 0 8200000000 0 0.
Definition selftest_bad : case := mk 1 0 [56;46;50] 0 8199999999 0 0.
