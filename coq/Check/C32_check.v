(* Correspondence + executable property oracle for C32 (pubsub MessageBuffer batching). *)
From Coq Require Import List NArith Bool.
Import ListNotations.
From HV Require Import Lib.Bytes Lib.Varint Lib.Harness Model.MsgBuffer.
Local Open Scope N_scope.

(* what the driver observed for one operation on the real MessageBuffer:
   b_code : result code (OSend: 0 ok / 1 ErrClosed / 2 ErrMessageTooLarge; OTimer: 0;
            OClose: 0 / 1 ErrClosed; ORecv: 0 item / 1 channel closed / 3 empty; 7 = the call hung)
   b_qlen : len(Queue) after the operation
   b_drop : "dropped pending message" was logged during the operation
   b_recv : ORecv: the item received *)
Record obs := mkobs { b_code : N; b_qlen : N; b_drop : bool; b_recv : option bytes }.

(* c_ops includes the driver's final Close and drain. c_parsed: (bytes, ParseBatchMessage result of the
   implementation) for every received item and for some corrupted variants. *)
(* c_race: None for ordinary cases. Some code: the driver forced the schedule "the timer fires while
   Close() is between m.l.Lock() and pendingTimer.Stop()" on a buffer with one pending message;
   code 0 = Close returned, 7 = Close never returned. *)
Record case := mk {
  c_cap : N; c_max : N; c_ops : list op; c_obs : list obs;
  c_parsed : list (bytes * option (list bytes)); c_race : option N }.

Definition opt_bytes_eqb (a b : option bytes) : bool :=
  match a, b with
  | Some x, Some y => bytes_eqb x y
  | None, None => true
  | _, _ => false
  end.

Fixpoint msgs_eqb (a b : list bytes) : bool :=
  match a, b with
  | [], [] => true
  | x :: a', y :: b' => bytes_eqb x y && msgs_eqb a' b'
  | _, _ => false
  end.

Definition opt_msgs_eqb (a b : option (list bytes)) : bool :=
  match a, b with
  | Some x, Some y => msgs_eqb x y
  | None, None => true
  | _, _ => false
  end.

(* ---- model = implementation ---------------------------------------------------------------- *)

Definition obs_of_model (s1 : st) (o : out) : obs :=
  mkobs (o_code o) (N.of_nat (length (queue s1)))
        (match o_flush o with Some (_, false) => true | _ => false end) (o_recv o).

Definition obs_eqb (a b : obs) : bool :=
  (b_code a =? b_code b) && (b_qlen a =? b_qlen b) && Bool.eqb (b_drop a) (b_drop b) &&
  opt_bytes_eqb (b_recv a) (b_recv b).

Fixpoint sim (cap max : N) (s : st) (ops : list op) (os : list obs) : bool :=
  match ops, os with
  | [], [] => true
  | o :: ops', b :: os' =>
      let '(s1, ou) := step cap max s o in
      obs_eqb (obs_of_model s1 ou) b && sim cap max s1 ops' os'
  | _, _ => false
  end.

Definition check_case (c : case) : bool :=
  match c_race c with Some code => code =? race_outcome | None => true end &&
  sim (c_cap c) (c_max c) init (c_ops c) (c_obs c) &&
  forallb (fun p => opt_msgs_eqb (parse_batch (fst p)) (snd p)) (c_parsed c).

(* ---- the property on the implementation's outputs ------------------------------------------- *)

Definition lookup_parsed (tab : list (bytes * option (list bytes))) (x : bytes) : option (list bytes) :=
  match find (fun p => bytes_eqb (fst p) x) tab with
  | Some p => snd p
  | None => None
  end.

(* spec state: cur = accepted messages not yet flushed; expq = batches (as message lists) that must
   still come out of the queue, in order; qprev = queue length before the op; cl = closed *)
Record sp := mksp { cur : list bytes; expq : list (list bytes); qprev : N; cl : bool }.

Definition spec_step (cap max : N) (tab : list (bytes * option (list bytes))) (s : sp) (o : op) (b : obs)
  : option sp :=
  let flushed := b_drop b || (qprev s <? b_qlen b) in
  (* a batch may only be dropped when the queue is full; an enqueued batch adds exactly one item *)
  let flush_ok := if b_drop b then (qprev s =? cap) && (b_qlen b =? qprev s)
                  else if flushed then b_qlen b =? qprev s + 1 else b_qlen b =? qprev s in
  let q' := if b_drop b then expq s else if flushed then expq s ++ [cur s] else expq s in
  match o with
  | OSend m =>
      if negb flush_ok then None
      else if b_code b =? 0 then
        if cl s then None
        else if flushed then Some (mksp [m] q' (b_qlen b) (cl s))
        else Some (mksp (cur s ++ [m]) q' (b_qlen b) (cl s))
      else if flushed then None else Some (mksp (cur s) (expq s) (b_qlen b) (cl s))
  | OTimer =>
      if negb flush_ok then None
      else if flushed then (if cl s then None else Some (mksp [] q' (b_qlen b) (cl s)))
      else (* waiting for the timer must flush whatever is pending *)
        match cur s with
        | [] => Some (mksp [] (expq s) (b_qlen b) (cl s))
        | _ => if cl s then Some s else None
        end
  | OClose =>
      if negb flush_ok then None
      else if b_code b =? 0 then
        if cl s then None
        else if flushed then Some (mksp [] q' (b_qlen b) true) else None
      else if (b_code b =? 1) && cl s && negb flushed then Some s else None
  | ORecv =>
      if b_drop b then None
      else match b_recv b, expq s with
           | Some x, batch :: rest =>
               if (b_code b =? 0) && (b_qlen b + 1 =? qprev s)
                  && (N.of_nat (length x) <=? max)                       (* size limit *)
                  && opt_msgs_eqb (lookup_parsed tab x) (Some batch)     (* decodes to the original messages *)
               then Some (mksp (cur s) rest (b_qlen b) (cl s)) else None
           | None, [] =>
               if (b_qlen b =? 0) && (qprev s =? 0) &&
                  (if cl s then b_code b =? 1 else b_code b =? 3)
               then Some s else None
           | _, _ => None
           end
  end.

Fixpoint spec_run (cap max : N) tab (s : sp) (ops : list op) (os : list obs) : bool :=
  match ops, os with
  | [], [] =>
      (* the driver always ends with Close and a full drain: nothing may be left anywhere *)
      cl s && match cur s, expq s with [], [] => true | _, _ => false end
  | o :: ops', b :: os' =>
      match spec_step cap max tab s o b with
      | Some s' => spec_run cap max tab s' ops' os'
      | None => false
      end
  | _, _ => false
  end.

Definition spec_ok (c : case) : bool :=
  (* The forced schedule "timer fires while Close holds the mutex" (c_race) is compared with the lock-level
     model by check_case only: the property text speaks about accepted messages and emitted batches, and in
     that schedule every accepted message has been flushed (or dropped on a full queue) before Close blocks,
     so a Close that does not return is not a violation of C32 (recorded in DESIGN.md as an observation). *)
  match c_ops c with
  | [] => true   (* raw parse cases: only the correspondence of parse_batch is checked *)
  | _ => spec_run (c_cap c) (c_max c) (c_parsed c) (mksp [] [] 0 false) (c_ops c) (c_obs c)
  end.

(* comparator self-test: two 5-byte messages at max 10 must be flushed separately *)
Definition st_ops : list op := [OSend [1;1;1;1;1]; OSend [2;2;2;2;2]; OClose; ORecv; ORecv; ORecv].
Definition selftest_good : case :=
  mk 2 10 st_ops
     [mkobs 0 0 false None; mkobs 0 1 false None; mkobs 0 2 false None;
      mkobs 0 1 false (Some [10;5;1;1;1;1;1]); mkobs 0 0 false (Some [10;5;2;2;2;2;2]); mkobs 1 0 false None]
     [([10;5;1;1;1;1;1], Some [[1;1;1;1;1]]); ([10;5;2;2;2;2;2], Some [[2;2;2;2;2]])] None.
Definition selftest_bad : case :=
  mk 2 10 st_ops
     [mkobs 0 0 false None; mkobs 0 0 false None; mkobs 0 1 false None;
      mkobs 0 0 false (Some [10;5;1;1;1;1;1;10;5;2;2;2;2;2]); mkobs 1 0 false None; mkobs 1 0 false None]
     [([10;5;1;1;1;1;1;10;5;2;2;2;2;2], Some [[1;1;1;1;1]; [2;2;2;2;2]])] None.
