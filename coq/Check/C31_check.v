(* Correspondence + executable property oracle for C31 (api/indexer.Indexer).

   Case encoding (all numbers are N):
     c_blks : block table, (height, id, timestamp, tx ids, result values);
     c_ops  : (0, block index) Notify | (1, W) close + NewIndexer with window W on the same directory;
     c_hs / c_ids / c_txs : heights / block ids / tx ids probed after every op;
     c_obs  : one row per op:
        [op error class; GetLatestBlock error class (0 ok, 1 database.ErrNotFound, 2 block not found,
         3 other); GetLatestBlock block code]
        ++ GetBlockByHeight codes (per c_hs) ++ GetBlock codes (per c_ids)
        ++ per tx of c_txs three numbers: (0,0,0) not found | (1,0,0) error | (tx id + 2, timestamp, result)
     block code: 0 = not found, table index + 1 (1000001 = a block that is not the table's). *)
From Coq Require Import List NArith Bool.
Import ListNotations.
From HV Require Import Lib.AssocN Lib.Harness Model.Indexer.
Local Open Scope N_scope.

Record case := mk {
  c_w0 : N;
  c_blks : list (N * N * N * list N * list N);
  c_ops : list (N * N);
  c_hs : list N;
  c_ids : list N;
  c_txs : list N;
  c_obs : list (list N)
}.

Definition unknown_code : N := 1000000.

Definition tbl (c : case) : list eblock :=
  map (fun t => match t with (h, i, ts, txs, res) => mkE h i ts txs res end) (c_blks c).

Definition dummy : eblock := mkE 0 0 0 [] [].
Definition nthN {A} (l : list A) (i : N) (d : A) : A := nth (N.to_nat i) l d.

Definition dec_op (t : list eblock) (o : N * N) : iop :=
  if fst o =? 0 then INotify (nthN t (snd o) dummy) else IRestart (snd o).

Fixpoint listN_eqb (a b : list N) : bool :=
  match a, b with
  | [], [] => true
  | x :: a', y :: b' => (x =? y) && listN_eqb a' b'
  | _, _ => false
  end.

Definition eblock_eqb (a b : eblock) : bool :=
  (eh a =? eh b) && (eid a =? eid b) && (ets a =? ets b) && listN_eqb (etxs a) (etxs b) && listN_eqb (eres a) (eres b).

Fixpoint index_of (t : list eblock) (b : eblock) (i : N) : N :=
  match t with
  | [] => unknown_code
  | x :: r => if eblock_eqb x b then i else index_of r b (N.succ i)
  end.

Definition enc_blk (t : list eblock) (o : option eblock) : N :=
  match o with None => 0 | Some b => index_of t b 0 + 1 end.

Definition enc_tx (a : txans) : list N :=
  match a with
  | TxNone => [0; 0; 0]
  | TxErr => [1; 0; 0]
  | TxFound tx ts r => [tx + 2; ts; r]
  end.

(* ---------------- model side ---------------- *)
Definition model_row (t : list eblock) (hs ids txs : list N) (s : ist) : list N :=
  [0; fst (get_latest s); enc_blk t (snd (get_latest s))]
  ++ map (fun h => enc_blk t (get_by_height s h)) hs
  ++ map (fun i => enc_blk t (get_block s i)) ids
  ++ flat_map (fun x => enc_tx (get_tx s x)) txs.

Fixpoint model_rows (t : list eblock) (hs ids txs : list N) (s : ist) (ops : list iop) : list (list N) :=
  match ops with
  | [] => []
  | o :: r => let s' := istep s o in model_row t hs ids txs s' :: model_rows t hs ids txs s' r
  end.

Fixpoint rows_eqb (a b : list (list N)) : bool :=
  match a, b with
  | [], [] => true
  | x :: a', y :: b' => listN_eqb x y && rows_eqb a' b'
  | _, _ => false
  end.

Definition check_case (c : case) : bool :=
  let t := tbl c in
  rows_eqb (model_rows t (c_hs c) (c_ids c) (c_txs c) (init (c_w0 c)) (map (dec_op t) (c_ops c))) (c_obs c).

(* ---------------- property side: reference bookkeeping, independent of the model ---------------- *)
(* the highest notified height; [top] never decreases, whatever the delivery order *)
Definition top_after (top : option N) (h : N) : N :=
  match top with None => h | Some l => N.max l h end.

(* the notified blocks whose height is in (top - W, top]; a later block at a height replaces the
   earlier; a block delivered below the window is not kept and removes nothing *)
Definition live_notify (W : N) (top : option N) (b : eblock) (live : list eblock) : list eblock :=
  let top' := top_after top (eh b) in
  filter (fun x => top' <? eh x + W) (b :: filter (fun x => negb (eh x =? eh b)) live).

Definition live_restart (W : N) (last : option N) (live : list eblock) : list eblock :=
  match last with
  | None => live
  | Some l => filter (fun x => l <? eh x + W) live
  end.

Definition find_h (live : list eblock) (h : N) : option eblock := find (fun x => eh x =? h) live.
Definition find_id (live : list eblock) (i : N) : option eblock := find (fun x => eid x =? i) live.

Fixpoint pos_in (t : N) (l : list N) (i : nat) : option nat :=
  match l with
  | [] => None
  | x :: r => if x =? t then Some i else pos_in t r (S i)
  end.

Fixpoint find_tx (live : list eblock) (t : N) : list N :=
  match live with
  | [] => [0; 0; 0]
  | b :: r =>
      match pos_in t (etxs b) 0 with
      | Some p => [t + 2; ets b; nth p (eres b) unknown_code]
      | None => find_tx r t
      end
  end.

Definition expected_row (t : list eblock) (hs ids txs : list N) (last : option N) (live : list eblock) : list N :=
  (match last with
   | None => [0; 1; 0]
   | Some l => [0; 0; enc_blk t (find_h live l)]
   end)
  ++ map (fun h => enc_blk t (find_h live h)) hs
  ++ map (fun i => enc_blk t (find_id live i)) ids
  ++ flat_map (find_tx live) txs.

(* direct clauses of the property on an observed row *)
(* number of probed heights that are served *)
Definition served_count (nhs : nat) (row : list N) : N :=
  N.of_nat (length (filter (fun c => negb (c =? 0)) (firstn nhs (skipn 3 row)))).
(* the height of the block GetLatestBlock returned *)
Definition latest_h (t : list eblock) (row : list N) : option N :=
  let c := nth 2 row 0 in
  if (c =? 0) || (N.of_nat (length t) <? c) then None else Some (eh (nthN t (c - 1) dummy)).
Definition not_backwards (t : list eblock) (prev row : list N) : bool :=
  match latest_h t prev, latest_h t row with
  | Some a, Some c => a <=? c
  | Some _, None => false
  | None, _ => true
  end.

Fixpoint spec_walk (t : list eblock) (hs ids txs : list N) (W : N) (top : option N) (live : list eblock)
         (prev : list N) (ops : list (N * N)) (rows : list (list N)) : bool :=
  match ops, rows with
  | [], [] => true
  | o :: ops', row :: rows' =>
      (* a restart that ENLARGES the window is outside the property (pruned blocks cannot come
         back, and what the store still holds at the old boundary is unspecified): from there on
         only the model tie (check_case) applies *)
      if negb (fst o =? 0) && (W <? snd o) then true else
      let '(W', top', live', stable) :=
        if fst o =? 0 then
          let b := nthN t (snd o) dummy in (W, Some (top_after top (eh b)), live_notify W top b live, true)
        else (snd o, top, live_restart (snd o) top live,
              (* a restart with the same window changes no answer *)
              negb (snd o =? W) || listN_eqb row prev) in
      listN_eqb row (expected_row t hs ids txs top' live') && stable
      (* whatever the delivery order: the latest block never goes backwards, at most W heights served *)
      && not_backwards t prev row && (served_count (length hs) row <=? W')
      && spec_walk t hs ids txs W' top' live' row ops' rows'
  | _, _ => false
  end.

Fixpoint nodupN (l : list N) : bool :=
  match l with
  | [] => true
  | x :: r => negb (memN x r) && nodupN r
  end.

(* accepted blocks form one chain: distinct heights, distinct ids, every transaction in one place,
   one result per transaction *)
Definition table_wf (t : list eblock) : bool :=
  nodupN (map eh t) && nodupN (map eid t) && nodupN (flat_map etxs t) &&
  forallb (fun b => Nat.eqb (length (etxs b)) (length (eres b))) t.

Definition spec_ok (c : case) : bool :=
  let t := tbl c in
  negb (table_wf t) ||
  spec_walk t (c_hs c) (c_ids c) (c_txs c) (c_w0 c) None [] (expected_row t (c_hs c) (c_ids c) (c_txs c) None [])
            (c_ops c) (c_obs c).

(* comparator self-test: W = 1, blocks 1 and 2 (one tx each), restart *)
Definition selftest_good : case :=
  mk 1 [(1, 50, 7, [10], [20]); (2, 51, 8, [11], [21])] [(0,0); (0,1); (1,1)] [0; 1; 2] [50; 51] [10; 11]
     [[0;0;1; 0;1;0; 1;0; 12;7;20; 0;0;0];
      [0;0;2; 0;0;2; 0;2; 0;0;0; 13;8;21];
      [0;0;2; 0;0;2; 0;2; 0;0;0; 13;8;21]].
(* after the restart the stale block 1 is served again *)
Definition selftest_bad : case :=
  mk 1 [(1, 50, 7, [10], [20]); (2, 51, 8, [11], [21])] [(0,0); (0,1); (1,1)] [0; 1; 2] [50; 51] [10; 11]
     [[0;0;1; 0;1;0; 1;0; 12;7;20; 0;0;0];
      [0;0;2; 0;0;2; 0;2; 0;0;0; 13;8;21];
      [0;0;2; 0;1;2; 1;2; 12;7;20; 13;8;21]].
