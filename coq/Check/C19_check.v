(* Correspondence + executable property oracle for C19 (chainindex.ChainIndex).

   Case encoding (all numbers are N):
     c_blks : block table (height, id, data); c_ops : (0, blk index, _) accept | (1, blk index, _)
     SaveHistorical | (2, W, F) restart with window W / compaction frequency F;
     c_hs / c_ids : the heights / ids probed after every op (every height/id used + unused ones;
     height 0 is always first in c_hs);
     c_obs : one row per op:
       [err class; last accepted + 1 (0 = not found); 1 if some getter returned an error other
        than not-found; #keys prefix 0; #keys prefix 1; #keys prefix 2]
       ++ GetBlockByHeight codes (per c_hs) ++ GetBlockIDAtHeight codes (per c_hs)
       ++ GetBlockIDHeight codes (per c_ids) ++ GetBlock codes (per c_ids)
     code 0 = ErrNotFound, value + 1 otherwise; a block's value is its index in c_blks
     (unknown block = 1000000).
   c_mode: 0 = accept-total + window + consistency, 1 = retention bound only, 2 = all four. *)
From Coq Require Import List NArith Bool.
Import ListNotations.
From HV Require Import Lib.AssocN Lib.Harness Model.ChainIndex.
Local Open Scope N_scope.

Record case := mk {
  c_mode : N;
  c_w0 : N;
  c_blks : list (N * N * N);
  c_ops : list (N * N * N);
  c_hs : list N;
  c_ids : list N;
  c_obs : list (list N)
}.

Definition unknown_code : N := 1000000.

Definition tbl (c : case) : list block := map (fun t => mkB (fst (fst t)) (snd (fst t)) (snd t)) (c_blks c).

Definition nthN {A} (l : list A) (i : N) (d : A) : A := nth (N.to_nat i) l d.

Definition dummy_block : block := mkB 0 0 0.

Definition dec_op (t : list block) (o : N * N * N) : op :=
  let '(k, a, b) := o in
  if k =? 0 then OAccept (nthN t a dummy_block)
  else if k =? 1 then OSave (nthN t a dummy_block)
  else ORestart a b.

Fixpoint index_of (t : list block) (b : block) (i : N) : N :=
  match t with
  | [] => unknown_code
  | x :: r => if block_eqb x b then i else index_of r b (N.succ i)
  end.

Definition enc_opt (o : option N) : N := match o with None => 0 | Some v => v + 1 end.
Definition enc_blk (t : list block) (o : option block) : N :=
  match o with None => 0 | Some b => index_of t b 0 + 1 end.

(* ---------------- model side ---------------- *)
Definition model_row (t : list block) (hs ids : list N) (s : st) (err : N) : list N :=
  [err; enc_opt (get_last s); 0;
   N.of_nat (length (d_blk (s_db s))); N.of_nat (length (d_idh (s_db s))); N.of_nat (length (d_hid (s_db s)))]
  ++ map (fun h => enc_blk t (get_block_by_height s h)) hs
  ++ map (fun h => enc_opt (get_id_at_height s h)) hs
  ++ map (fun i => enc_opt (get_id_height s i)) ids
  ++ map (fun i => enc_blk t (get_block s i)) ids.

Fixpoint model_rows (t : list block) (hs ids : list N) (s : st) (ops : list op) : list (list N) :=
  match ops with
  | [] => []
  | o :: r => let '(s', e) := step s o in model_row t hs ids s' e :: model_rows t hs ids s' r
  end.

Fixpoint listN_eqb (a b : list N) : bool :=
  match a, b with
  | [], [] => true
  | x :: a', y :: b' => (x =? y) && listN_eqb a' b'
  | _, _ => false
  end.

Fixpoint rows_eqb (a b : list (list N)) : bool :=
  match a, b with
  | [], [] => true
  | x :: a', y :: b' => listN_eqb x y && rows_eqb a' b'
  | _, _ => false
  end.

Definition check_case (c : case) : bool :=
  let t := tbl c in
  rows_eqb (model_rows t (c_hs c) (c_ids c) (init (c_w0 c)) (map (dec_op t) (c_ops c))) (c_obs c).

(* ---------------- property side (uses the implementation's rows only) ---------------- *)
Fixpoint pos_of (x : N) (l : list N) (i : nat) : option nat :=
  match l with
  | [] => None
  | y :: r => if x =? y then Some i else pos_of x r (S i)
  end.

Definition dec_opt (c : N) : option N := if c =? 0 then None else Some (c - 1).
(* unknown / out-of-table blocks decode to a block that equals no table block *)
Definition bogus_block : block := mkB 1000000000 1000000000 1000000000.
Definition dec_blk (t : list block) (c : N) : option block :=
  if c =? 0 then None else Some (nth (N.to_nat (c - 1)) t bogus_block).

Section Row.
  Variable t : list block.
  Variables hs ids : list N.
  Variable row : list N.
  Let nh := length hs.
  Let ni := length ids.
  Definition r_err := nth 0 row 99.
  Definition r_last := dec_opt (nth 1 row 0).
  Definition r_other := nth 2 row 1.
  Definition r_cnt_hid := nth 5 row 0.
  Definition r_byh (h : N) : option block :=
    match pos_of h hs 0 with Some p => dec_blk t (nth (6 + p) row 0) | None => None end.
  Definition r_idat (h : N) : option N :=
    match pos_of h hs 0 with Some p => dec_opt (nth (6 + nh + p) row 0) | None => None end.
  Definition r_idh (i : N) : option N :=
    match pos_of i ids 0 with Some p => dec_opt (nth (6 + nh + nh + p) row 0) | None => None end.
  Definition r_byid (i : N) : option block :=
    match pos_of i ids 0 with Some p => dec_blk t (nth (6 + nh + nh + ni + p) row 0) | None => None end.

  Definition optN_eqb (a b : option N) : bool :=
    match a, b with Some x, Some y => x =? y | None, None => true | _, _ => false end.
  Definition optB_eqb (a b : option block) : bool :=
    match a, b with Some x, Some y => block_eqb x y | None, None => true | _, _ => false end.

  (* a block that must be retrievable is, through all four getters *)
  Definition retrievable (b : block) : bool :=
    optB_eqb (r_byh (bh b)) (Some b) && optN_eqb (r_idat (bh b)) (Some (bid b)) &&
    optN_eqb (r_idh (bid b)) (Some (bh b)) && optB_eqb (r_byid (bid b)) (Some b).

  (* id->height, height->id, height->block agree on every retained entry *)
  Definition consistent_row : bool :=
    forallb (fun h =>
      (match r_idat h with
       | Some i => optN_eqb (r_idh i) (Some h) && (match r_byh h with Some _ => true | None => false end)
                   && (match pos_of i ids 0 with Some _ => true | None => false end)
       | None => match r_byh h with None => true | Some _ => false end
       end) &&
      (match r_byh h with
       | Some b => (bh b =? h) && optN_eqb (r_idat h) (Some (bid b))
       | None => true
       end)) hs &&
    forallb (fun i =>
      (match r_idh i with
       | Some h => optN_eqb (r_idat h) (Some i) && optB_eqb (r_byid i) (r_byh h)
                   && (match pos_of h hs 0 with Some _ => true | None => false end)
       | None => match r_byid i with None => true | Some _ => false end
       end) &&
      (match r_byid i with
       | Some b => (bid b =? i)
       | None => true
       end)) ids.

  (* at most W+1 non-genesis blocks retained (W = 0: pruning disabled, no bound claimed) *)
  Definition bound_row (W : N) : bool :=
    (W =? 0) ||
    (r_cnt_hid - (match r_idat 0 with Some _ => 1 | None => 0 end) <=? W + 1).
End Row.

(* h is inside the window (last - W, last], or genesis, or pruning is disabled *)
Definition inwin (W last h : N) : bool := (h =? 0) || (W =? 0) || (last <? h + W).

(* the history is one chain: two table blocks never share a height or an id *)
Fixpoint chain_wfb (t : list block) : bool :=
  match t with
  | [] => true
  | b :: r => forallb (fun b' => negb (bh b =? bh b') && negb (bid b =? bid b')) r && chain_wfb r
  end.

Definition add_must (b : block) (must : list block) : list block :=
  b :: filter (fun b' => negb (bh b' =? bh b)) must.

(* walk the history with the reference bookkeeping: current window, last accepted height, and the
   blocks that were written and have been inside the window ever since *)
Fixpoint spec_walk (mode : N) (wf : bool) (t : list block) (hs ids : list N)
         (W : N) (last : option N) (must : list block)
         (ops : list (N * N * N)) (rows : list (list N)) : bool :=
  match ops, rows with
  | [], [] => true
  | o :: ops', row :: rows' =>
      let '(k, a, f) := o in
      let err := r_err row in
      (* bookkeeping *)
      let '(W', last', must', total_ok) :=
        if k =? 0 then
          let b := nthN t a dummy_block in
          (W, Some (bh b), filter (fun b' => inwin W (bh b) (bh b')) (add_must b must), err =? 0)
        else if k =? 1 then
          let b := nthN t a dummy_block in
          (W, last, add_must b must, err =? 0)
        else if err =? 0 then
          let l := match last with Some l => l | None => 0 end in
          (a, last, filter (fun b' => inwin a l (bh b')) must, negb (f =? 0))
        else (W, last, must, f =? 0) in
      let total := total_ok && (r_other row =? 0) && optN_eqb (r_last row) last' in
      let window := negb wf || forallb (retrievable t hs ids row) must' in
      let consistent := negb wf || consistent_row t hs ids row in
      let bound := bound_row hs row W' in
      (if mode =? 0 then total && window && consistent
       else if mode =? 1 then bound
       else total && window && consistent && bound)
      && spec_walk mode wf t hs ids W' last' must' ops' rows'
  | _, _ => false
  end.

Definition spec_ok (c : case) : bool :=
  let t := tbl c in
  spec_walk (c_mode c) (chain_wfb t) t (c_hs c) (c_ids c) (c_w0 c) None [] (c_ops c) (c_obs c).

(* comparator self-test: W=1, accept genesis, accept 1, accept 2 (prunes 1) *)
Definition selftest_good : case :=
  mk 2 1 [(0,10,0); (1,11,0); (2,12,0)] [(0,0,0); (0,1,0); (0,2,0)] [0; 1; 2; 9] [10; 11; 12; 99]
     [[0;1;0;1;1;1; 1;0;0;0; 11;0;0;0; 1;0;0;0; 1;0;0;0];
      [0;2;0;2;2;2; 1;2;0;0; 11;12;0;0; 1;2;0;0; 1;2;0;0];
      [0;3;0;2;2;2; 1;0;3;0; 11;0;13;0; 1;0;3;0; 1;0;3;0]].
(* same, but the implementation still serves height 1 by id after pruning it *)
Definition selftest_bad : case :=
  mk 2 1 [(0,10,0); (1,11,0); (2,12,0)] [(0,0,0); (0,1,0); (0,2,0)] [0; 1; 2; 9] [10; 11; 12; 99]
     [[0;1;0;1;1;1; 1;0;0;0; 11;0;0;0; 1;0;0;0; 1;0;0;0];
      [0;2;0;2;2;2; 1;2;0;0; 11;12;0;0; 1;2;0;0; 1;2;0;0];
      [0;3;0;2;3;2; 1;0;3;0; 11;0;13;0; 1;2;3;0; 1;0;3;0]].
