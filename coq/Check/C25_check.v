(* Correspondence + executable property oracle for C25 (heap / emap / eheap). *)
From Coq Require Import List NArith ZArith Bool Arith.
Import ListNotations.
From HV Require Import Lib.Harness Model.Heap Model.EHeap Model.EMap.

(* one operation language for the three structures; a case uses the operations of its structure *)
Inductive op :=
(* internal/heap.Heap *)
| Push (id : N) (v : Z)            (* Push(&Entry{ID, Val, Item, Index: Len()}) *)
| Pop
| RemoveAt (i : nat)
(* internal/emap.EMap *)
| EAdd (xs : list (N * Z))
| Any (ids : list N)
| Contains (ids : list N) (marker : list nat) (stop : bool)
(* shared by emap and eheap *)
| SetMin (t : Z)
(* internal/eheap.ExpiryHeap *)
| HAdd (id : N) (e : Z)
| HRemove (id : N)
| HPeek
| HPop.
Arguments Push _%N _%Z.
Arguments SetMin _%Z.
Arguments HAdd _%N _%Z.
Arguments HRemove _%N.

Inductive out :=
| OU
| OE (o : option (N * Z))          (* returned entry / item: (id, value) *)
| OL (l : list (N * Z))            (* eheap.SetMin *)
| OI (l : list N)                  (* emap.SetMin *)
| OB (b : bool)
| OM (l : list nat).               (* emap.Contains marker, sorted positions *)

Record obs := mkO {
  o_out : out;
  o_len : nat;                     (* Len() (heap, eheap); 0 for emap *)
  o_has : list bool;               (* Has(id) / Any([id]) for id = 0 .. nids-1 *)
  o_first : option (N * Z);        (* First() / PeekMin(); None for emap *)
  o_items : list (N * Z * nat)     (* heap only: Items() as (ID, Val, Index) *)
}.

(* kind: 0 = min-heap, 1 = max-heap, 2 = emap, 3 = eheap *)
Record case := mk { c_kind : nat; c_nids : nat; c_ops : list op; c_obs : list obs }.

Definition P (a : N) (b : Z) : N * Z := (a, b).
Arguments P _%N _%Z.
Definition T (a : N) (b : Z) (c : nat) : N * Z * nat := (a, b, c).
Arguments T _%N _%Z _%nat.

(* ---------- equality tests ---------- *)
Fixpoint list_eqb {X} (eqb : X -> X -> bool) (a b : list X) : bool :=
  match a, b with
  | [], [] => true
  | x :: a', y :: b' => eqb x y && list_eqb eqb a' b'
  | _, _ => false
  end.
Definition opt_eqb {X} (eqb : X -> X -> bool) (a b : option X) : bool :=
  match a, b with
  | None, None => true
  | Some x, Some y => eqb x y
  | _, _ => false
  end.
Definition pair_eqb (a b : N * Z) : bool := N.eqb (fst a) (fst b) && Z.eqb (snd a) (snd b).
Definition trip_eqb (a b : N * Z * nat) : bool := pair_eqb (fst a) (fst b) && Nat.eqb (snd a) (snd b).
Definition memN (x : N) (l : list N) : bool := existsb (N.eqb x) l.
Definition memn (x : nat) (l : list nat) : bool := existsb (Nat.eqb x) l.
Definition seteq_n (a b : list nat) : bool := forallb (fun x => memn x b) a && forallb (fun x => memn x a) b.
Definition out_eqb (a b : out) : bool :=
  match a, b with
  | OU, OU => true
  | OE x, OE y => opt_eqb pair_eqb x y
  | OL x, OL y => list_eqb pair_eqb x y
  | OI x, OI y => list_eqb N.eqb x y
  | OB x, OB y => Bool.eqb x y
  | OM x, OM y => seteq_n x y
  | _, _ => false
  end.
Definition idsN (n : nat) : list N := map N.of_nat (seq 0 n).

(* ---------- model = implementation ---------- *)
Definition ent_pair {A} (e : entry A) : N * Z := (e_id e, e_val e).

(* heap over items of type unit *)
Definition hstep (mn : bool) (l : list (entry unit)) (o : op) : option (list (entry unit) * out) :=
  match o with
  | Push id v => Some (heap_push mn l (mkE id tt v (length l)), OU)
  | Pop => let '(l', r) := heap_pop mn l in Some (l', OE (option_map ent_pair r))
  | RemoveAt i => let '(l', r) := heap_remove mn l i in Some (l', OE (option_map ent_pair r))
  | _ => None
  end.
Definition hobs_match (nids : nat) (l : list (entry unit)) (r : out) (b : obs) : bool :=
  out_eqb r (o_out b)
  && Nat.eqb (length l) (o_len b)
  && list_eqb Bool.eqb (map (ih_has l) (idsN nids)) (o_has b)
  && opt_eqb pair_eqb (option_map ent_pair (heap_first l)) (o_first b)
  && list_eqb trip_eqb (map (fun e => (e_id e, e_val e, e_idx e)) l) (o_items b).
Fixpoint hcheck (mn : bool) (nids : nat) (l : list (entry unit)) (ops : list op) (os : list obs) : bool :=
  match ops, os with
  | [], [] => true
  | o :: ops', b :: os' =>
      match hstep mn l o with
      | Some (l', r) => hobs_match nids l' r b && hcheck mn nids l' ops' os'
      | None => false
      end
  | _, _ => false
  end.

Definition mstep (e : emap) (o : op) : option (emap * out) :=
  match o with
  | EAdd xs => Some (em_add e xs, OU)
  | SetMin t => let '(e', r) := em_set_min e t in Some (e', OI r)
  | Any ids => Some (e, OB (em_any e ids))
  | Contains ids marker stop => Some (e, OM (em_contains e ids marker stop))
  | _ => None
  end.
Definition mobs_match (nids : nat) (e : emap) (r : out) (b : obs) : bool :=
  out_eqb r (o_out b)
  && list_eqb Bool.eqb (map (fun id => em_any e [id]) (idsN nids)) (o_has b).
Fixpoint mcheck (nids : nat) (e : emap) (ops : list op) (os : list obs) : bool :=
  match ops, os with
  | [], [] => true
  | o :: ops', b :: os' =>
      match mstep e o with
      | Some (e', r) => mobs_match nids e' r b && mcheck nids e' ops' os'
      | None => false
      end
  | _, _ => false
  end.

Definition eh := list (entry (N * Z)).
Definition estep (h : eh) (o : op) : option (eh * out) :=
  match o with
  | HAdd id e => Some (eh_add fst snd h (id, e), OU)
  | HRemove id => let '(h', r) := eh_remove h id in Some (h', OE r)
  | SetMin t => let '(h', r) := eh_set_min fst snd h t in Some (h', OL r)
  | HPeek => Some (h, OE (eh_peek h))
  | HPop => let '(h', r) := eh_pop fst h in Some (h', OE r)
  | _ => None
  end.
Definition eobs_match (nids : nat) (h : eh) (r : out) (b : obs) : bool :=
  out_eqb r (o_out b)
  && Nat.eqb (eh_len h) (o_len b)
  && list_eqb Bool.eqb (map (eh_has h) (idsN nids)) (o_has b)
  && opt_eqb pair_eqb (eh_peek h) (o_first b).
Fixpoint echeck (nids : nat) (h : eh) (ops : list op) (os : list obs) : bool :=
  match ops, os with
  | [], [] => true
  | o :: ops', b :: os' =>
      match estep h o with
      | Some (h', r) => eobs_match nids h' r b && echeck nids h' ops' os'
      | None => false
      end
  | _, _ => false
  end.

Definition check_case (c : case) : bool :=
  match c_kind c with
  | 0 => hcheck true (c_nids c) [] (c_ops c) (c_obs c)
  | 1 => hcheck false (c_nids c) [] (c_ops c) (c_obs c)
  | 2 => mcheck (c_nids c) em_new (c_ops c) (c_obs c)
  | 3 => echeck (c_nids c) [] (c_ops c) (c_obs c)
  | _ => false
  end.

(* ---------- the property on the implementation's outputs: reference = finite map id -> value ---------- *)
Definition ref := list (N * Z).       (* unique keys; insertion order *)
Definition rget (r : ref) (id : N) : option Z :=
  match find (fun p => N.eqb (fst p) id) r with Some p => Some (snd p) | None => None end.
Definition rmem (r : ref) (id : N) : bool := match rget r id with Some _ => true | None => false end.
Definition radd (r : ref) (id : N) (v : Z) : ref := if rmem r id then r else r ++ [(id, v)].
Definition rdel (r : ref) (id : N) : ref := filter (fun p => negb (N.eqb (fst p) id)) r.
Definition below (t : Z) (p : N * Z) : bool := (snd p <? t)%Z.
Definition kz (mn : bool) (v : Z) : Z := if mn then v else (- v)%Z.
(* (id, v) is held and no held value is better *)
Definition is_best (mn : bool) (r : ref) (p : N * Z) : bool :=
  opt_eqb Z.eqb (rget r (fst p)) (Some (snd p))
  && forallb (fun q => (kz mn (snd p) <=? kz mn (snd q))%Z) r.
Fixpoint nodupN (l : list N) : bool :=
  match l with [] => true | x :: r => negb (memN x r) && nodupN r end.
Fixpoint nondecr (l : list Z) : bool :=
  match l with
  | a :: ((b :: _) as r) => (a <=? b)%Z && nondecr r
  | _ => true
  end.
(* l (ids unique) holds exactly the bindings of r *)
Definition same_bindings (l : list (N * Z)) (r : ref) : bool :=
  nodupN (map fst l) && Nat.eqb (length l) (length r)
  && forallb (fun p => opt_eqb Z.eqb (rget r (fst p)) (Some (snd p))) l.
Definition has_ok (nids : nat) (r : ref) (b : obs) : bool :=
  list_eqb Bool.eqb (map (rmem r) (idsN nids)) (o_has b).
Definition first_ok (mn : bool) (r : ref) (f : option (N * Z)) : bool :=
  match f with
  | None => match r with [] => true | _ => false end
  | Some p => is_best mn r p
  end.

(* array heap: Index = position, heap order, no duplicate ids, same bindings as the reference *)
Definition heap_shape (mn : bool) (items : list (N * Z * nat)) : bool :=
  list_eqb Nat.eqb (map snd items) (seq 0 (length items))
  && forallb (fun c =>
       match nth_error items ((c - 1) / 2), nth_error items c with
       | Some p, Some x => (kz mn (snd (fst p)) <=? kz mn (snd (fst x)))%Z
       | _, _ => false
       end) (seq 1 (length items - 1)).

Definition hspec_step (mn : bool) (r : ref) (prev : list (N * Z * nat)) (o : op) (b : obs) : bool * ref :=
  match o, o_out b with
  | Push id v, OU => (true, radd r id v)
  | Pop, OE None => (match r with [] => true | _ => false end, r)
  | Pop, OE (Some p) => (is_best mn r p, rdel r (fst p))
  | RemoveAt i, OE None => (length prev <=? i, r)
  | RemoveAt i, OE (Some p) =>
      (match nth_error prev i with Some x => pair_eqb (fst x) p | None => false end, rdel r (fst p))
  | _, _ => (false, r)
  end.
Fixpoint hspec (mn : bool) (nids : nat) (r : ref) (prev : list (N * Z * nat)) (ops : list op) (os : list obs) : bool :=
  match ops, os with
  | [], [] => true
  | o :: ops', b :: os' =>
      let '(ok, r') := hspec_step mn r prev o b in
      ok && heap_shape mn (o_items b) && same_bindings (map fst (o_items b)) r'
      && Nat.eqb (o_len b) (length r') && has_ok nids r' b
      && opt_eqb pair_eqb (o_first b) (option_map fst (hd_error (o_items b)))
      && first_ok mn r' (o_first b)
      && hspec mn nids r' (o_items b) ops' os'
  | _, _ => false
  end.

(* emap: entries with expiry 0 are never tracked; first expiry of an id wins *)
Definition madd (r : ref) (xs : list (N * Z)) : ref :=
  fold_left (fun r p => if Z.eqb (snd p) 0 then r else radd r (fst p) (snd p)) xs r.
Definition marker_spec (r : ref) (ids : list N) (marker : list nat) (stop : bool) : list nat :=
  let hits := filter (fun i => negb (memn i marker) && match nth_error ids i with Some id => rmem r id | None => false end)
                     (seq 0 (length ids)) in
  marker ++ (if stop then firstn 1 hits else hits).
Definition mspec_step (r : ref) (o : op) (b : obs) : bool * ref :=
  match o, o_out b with
  | EAdd xs, OU => (true, madd r xs)
  | SetMin t, OI l =>
      (same_bindings (map (fun id => (id, match rget r id with Some v => v | None => 0%Z end)) l) (filter (below t) r)
       && nondecr (map (fun id => match rget r id with Some v => v | None => 0%Z end) l),
       filter (fun p => negb (below t p)) r)
  | Any ids, OB x => (Bool.eqb x (existsb (rmem r) ids), r)
  | Contains ids marker stop, OM l => (seteq_n l (marker_spec r ids marker stop), r)
  | _, _ => (false, r)
  end.
Fixpoint mspec (nids : nat) (r : ref) (ops : list op) (os : list obs) : bool :=
  match ops, os with
  | [], [] => true
  | o :: ops', b :: os' =>
      let '(ok, r') := mspec_step r o b in
      ok && has_ok nids r' b && mspec nids r' ops' os'
  | _, _ => false
  end.

Definition espec_step (r : ref) (o : op) (b : obs) : bool * ref :=
  match o, o_out b with
  | HAdd id e, OU => (true, radd r id e)
  | HRemove id, OE x =>
      (opt_eqb pair_eqb x (match rget r id with Some v => Some (id, v) | None => None end), rdel r id)
  | SetMin t, OL l =>
      (same_bindings l (filter (below t) r) && nondecr (map snd l), filter (fun p => negb (below t p)) r)
  | HPeek, OE x => (first_ok true r x, r)
  | HPop, OE x => (first_ok true r x, match x with Some p => rdel r (fst p) | None => r end)
  | _, _ => (false, r)
  end.
Fixpoint espec (nids : nat) (r : ref) (ops : list op) (os : list obs) : bool :=
  match ops, os with
  | [], [] => true
  | o :: ops', b :: os' =>
      let '(ok, r') := espec_step r o b in
      ok && Nat.eqb (o_len b) (length r') && has_ok nids r' b && first_ok true r' (o_first b)
      && espec nids r' ops' os'
  | _, _ => false
  end.

Definition spec_ok (c : case) : bool :=
  match c_kind c with
  | 0 => hspec true (c_nids c) [] [] (c_ops c) (c_obs c)
  | 1 => hspec false (c_nids c) [] [] (c_ops c) (c_obs c)
  | 2 => mspec (c_nids c) [] (c_ops c) (c_obs c)
  | 3 => espec (c_nids c) [] (c_ops c) (c_obs c)
  | _ => false
  end.
