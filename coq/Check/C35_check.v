(* Correspondence + executable property oracle for C35 (DSMR Accept returns the referenced chunks). *)
From Coq Require Import List NArith Bool.
Import ListNotations.
From HV Require Import Lib.Harness Model.DsmrAccept.
Local Open Scope N_scope.

(* inputs: local status of every chunk 0..n-1, validator-set failure flag, the chunk referenced by every
   certificate of the block (in order), the peers' response script.
   observed: Accept returned nil error, the chunks of the executed block (index of each; 999 = a chunk that is
   not in the table), the chunk asked for by every GetChunkRequest the peers received (in order) *)
Record case := mk { c_stats : list lstat; c_valerr : bool; c_certs : list N; c_script : list resp;
                    c_ok : bool; c_chunks : list N; c_reqs : list N }.

Definition stat_of (l : list lstat) : N -> lstat := fun c => nth (N.to_nat c) l LMissing.
Definition rangeN (n : N) : list N := map N.of_nat (seq 0 (N.to_nat n)).

Fixpoint listN_eqb (a b : list N) : bool :=
  match a, b with
  | [], [] => true
  | x :: a', y :: b' => (x =? y) && listN_eqb a' b'
  | _, _ => false
  end.

Definition check_case (c : case) : bool :=
  let stat := stat_of (c_stats c) in
  let universe := rangeN (N.of_nat (length (c_stats c))) in
  let '(res, reqs) := accept stat universe (c_valerr c) (c_certs c) (c_script c) in
  listN_eqb reqs (c_reqs c) &&
  match res with
  | Some chunks => c_ok c && listN_eqb chunks (c_chunks c)
  | None => negb (c_ok c)
  end.

(* ---- the property on the implementation's outputs ------------------------------------ *)
Fixpoint nodupb (l : list N) : bool :=
  match l with [] => true | x :: r => negb (existsb (N.eqb x) r) && nodupb r end.

Definition is_wrong (r : resp) : bool := match r with RWrong _ => true | _ => false end.
Definition fetchable (s : lstat) : bool :=
  match s with LPendCert | LPendNoCert | LMissing => true | _ => false end.
Definition is_store_err (s : lstat) : bool := match s with LStoreErr => true | _ => false end.
Definition is_missing (s : lstat) : bool := match s with LMissing => true | _ => false end.

Definition spec_ok (c : case) : bool :=
  let stat := stat_of (c_stats c) in
  (* success => exactly the referenced chunks, in certificate order, each once *)
  (negb (c_ok c) || listN_eqb (c_chunks c) (c_certs c)) &&
  (* every missing chunk is eventually served validly (the script is finite and the peers serve the requested
     chunk afterwards), nothing else is in the way => Accept succeeds *)
  (negb (nodupb (c_certs c) && forallb (fun x => fetchable (stat x)) (c_certs c) && negb (c_valerr c)
         && negb (existsb is_wrong (c_script c))) || c_ok c) &&
  (* a storage error other than not-found fails Accept *)
  (negb (existsb (fun x => is_store_err (stat x)) (c_certs c)) || negb (c_ok c)) &&
  (* only referenced chunks that are not stored locally are requested from peers *)
  forallb (fun q => existsb (N.eqb q) (c_certs c) && is_missing (stat q)) (c_reqs c).

(* self-test: one local and one missing chunk; the peer fails once and then serves it (finding F-19) *)
Definition selftest_good : case :=
  mk [LPendCert; LMissing] false [1; 0] [RFail 0; RValid] true [1; 0] [1; 1].
Definition selftest_bad : case :=
  mk [LPendCert; LMissing] false [1; 0] [RFail 0; RValid] false [] [1; 1].
