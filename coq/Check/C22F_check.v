(* C22, forward half: while state sync runs, consensus delivers new sync targets (Syncer.UpdateSyncTarget) and every
   peer asked for history errors; once the forward-accepted blocks span more than one validity window the backfill
   is complete.  Required on the real Syncer + TimeValidityWindow: Wait returns nil, every still-valid transaction of
   the final target's ancestry (and of the next block accepted normally) is reported as a repeat, a transaction that
   was never included is not.  No model involved (the backward half is Model/Backfill.v): check_case = spec_ok. *)
From Coq Require Import List NArith Bool.
Import ListNotations.
From HV Require Import Lib.Harness.
Local Open Scope N_scope.

Record case := mkF { f_w : N; f_target : N; f_extra : N; f_wait_ok : bool; f_tracked : list bool; f_fresh : bool }.

Definition forward_complete (c : case) : bool :=
  f_wait_ok c && forallb (fun b => b) (f_tracked c) && negb (f_fresh c).

Definition check_case : case -> bool := forward_complete.
Definition spec_ok : case -> bool := forward_complete.
