(* Correspondence + executable property oracle for C12 (Transaction.Units, Manager.Consume as a block). *)
From Coq Require Import List NArith ZArith Bool.
Import ListNotations.
From HV Require Import Lib.Bytes Lib.U64 Lib.Harness Model.Fees Model.Units.
Local Open Scope N_scope.

Inductive case :=
(* Transaction.Units(bh, rules) and Transaction.StateKeys(bh) on a real chain.Transaction:
   size = len(tx.Bytes()); impl_err: 0 nil / 1 overflow / 2 ErrInvalidKeyValue / 3 other;
   impl_keys: the merged state keys, sorted by key (impl_keys_err: 0 nil / 2 ErrInvalidKeyValue / 3 other) *)
| CUnits (size : N) (r : unit_rules) (action_cu : list N) (auth_cu : N)
         (action_keys : list (list skey)) (sponsor_keys : list skey)
         (impl_err : N) (impl_units : dims) (impl_keys_err : N) (impl_keys : list skey)
(* NewManager(raw); for each step Consume(units, limit) -> (ok, dim), UnitsConsumed() after it; then Bytes().
   Byte strings are transported as (length, big-endian uint64 words). *)
| CBlock (raw_len : nat) (raw_words : list N) (limit : dims) (steps : list (dims * bool * N * dims))
         (impl_len : nat) (impl_words : list N).

Definition words_bytes (len : nat) (ws : list N) : list N := firstn len (flat_map be64 ws).
Definition list_eqb (a b : list N) : bool :=
  Nat.eqb (length a) (length b) && forallb (fun '(x, y) => N.eqb x y) (combine a b).

Fixpoint lookup (m : list skey) (k : bytes) : option N :=
  match m with
  | [] => None
  | (k', p) :: m' => if bytes_eqb k' k then Some p else lookup m' k
  end.
Definition keys_same (a b : list skey) : bool :=
  Nat.eqb (length a) (length b) &&
  forallb (fun '(k, p) => match lookup b k with Some q => N.eqb p q | None => false end) a.

(* ------------------------------------------------------------------ model = implementation *)
Fixpoint run_steps (m : manager) (l : dims) (steps : list (dims * bool * N * dims)) : manager * bool :=
  match steps with
  | [] => (m, true)
  | (u, iok, idim, ilasts) :: rest =>
      let '(ok, k, m') := consume m u l in
      let '(m'', good) := run_steps m' l rest in
      (m'', Bool.eqb ok iok && N.eqb (N.of_nat k) idim && list_eqb (units_consumed m') ilasts && good)
  end.

Definition check_case (c : case) : bool :=
  match c with
  | CUnits size r acu auth akeys skeys ierr iunits ikerr ikeys =>
      let '(err, units) := tx_units size r acu auth akeys skeys in
      N.eqb err ierr && (if N.eqb ierr 0 then list_eqb units iunits else true) &&
      match state_keys akeys skeys with
      | None => N.eqb ikerr 2
      | Some keys => N.eqb ikerr 0 && keys_same keys ikeys
      end
  | CBlock rlen rws limit steps ilen iws =>
      match decode (words_bytes rlen rws) with
      | None => false
      | Some m0 =>
          let '(m, good) := run_steps m0 limit steps in
          good && list_eqb (encode m) (words_bytes ilen iws)
      end
  end.

(* ------------------------------------------------------------------ the property on the implementation's
   outputs, written without the model's accumulators / merge / consume *)
Definition all_decl (akeys : list (list skey)) (skeys : list skey) : list skey := concat akeys ++ skeys.
Fixpoint distinct_keys (l : list skey) (seen : list bytes) : list bytes :=
  match l with
  | [] => []
  | (k, _) :: l' => if existsb (bytes_eqb k) seen then distinct_keys l' seen else k :: distinct_keys l' (k :: seen)
  end.
Definition chunks_of (k : bytes) : N :=
  let n := length k in nth (n - 2) k 0 * 256 + nth (n - 1) k 0.
Definition perm_union (decl : list skey) (k : bytes) : N :=
  fold_right (fun '(k', p) acc => if bytes_eqb k' k then N.lor p acc else acc) 0 decl.
Definition sumN (l : list N) : N := fold_right N.add 0 l.

Definition units_ok (size : N) (r : unit_rules) (acu : list N) (auth : N) (akeys : list (list skey)) (skeys : list skey)
                    (ierr : N) (iunits : dims) (ikerr : N) (ikeys : list skey) : bool :=
  let decl := all_decl akeys skeys in
  let valid := forallb (fun '(k, _) => Nat.leb 2 (length k)) decl in
  let ks := distinct_keys decl [] in
  let cu := ur_base r + sumN acu + auth in
  let rd := sumN (map (fun k => ur_key_read r + chunks_of k * ur_val_read r) ks) in
  let al := sumN (map (fun k => ur_key_alloc r + chunks_of k * ur_val_alloc r) ks) in
  let wr := sumN (map (fun k => ur_key_write r + chunks_of k * ur_val_write r) ks) in
  let fitsall := (cu <=? MaxU64) && (rd <=? MaxU64) && (al <=? MaxU64) && (wr <=? MaxU64) in
  (* units: exact sums when everything is valid and fits; an error otherwise, never a wrapped value *)
  (if valid && fitsall then N.eqb ierr 0 && list_eqb iunits [size; cu; rd; al; wr]
   else negb (N.eqb ierr 0)) &&
  (* declared keys: each distinct key once, permissions unioned; malformed key rejected *)
  (if valid then
     N.eqb ikerr 0 && Nat.eqb (length ikeys) (length ks) &&
     forallb (fun k => match lookup ikeys k with Some p => N.eqb p (perm_union decl k) | None => false end) ks
   else negb (N.eqb ikerr 0)).

(* a block: running consumption, starting from the consumption stored in the initial state (decoded from the
   raw bytes by offset, not taken from the model) *)
Definition word_at (raw : list N) (off : nat) : N := be_dec (firstn 8 (skipn off raw)).
Definition lasts_of_raw (raw : list N) : dims :=
  match raw with [] => dzero | _ => map (fun k => word_at raw (8 + 96 * k + 88)) idx5 end.

Fixpoint block_ok (cur limit : dims) (steps : list (dims * bool * N * dims)) : option dims :=
  match steps with
  | [] => Some cur
  | (u, iok, idim, ilasts) :: rest =>
      let fit k := (dget cur k + dget u k <=? MaxU64) && (dget cur k + dget u k <=? dget limit k) in
      let allfit := forallb fit idx5 in
      if iok then
        (* accepted: every dimension fits and consumption grows by exactly the units *)
        if allfit && list_eqb ilasts (map (fun k => dget cur k + dget u k) idx5) && N.eqb idim 0
        then block_ok ilasts limit rest else None
      else
        (* rejected: consumption unchanged, it really did not fit, reported dimension = first that does not fit *)
        if negb allfit && list_eqb ilasts cur &&
           (idim <? 5) && negb (fit (N.to_nat idim)) && forallb (fun k => if Nat.ltb k (N.to_nat idim) then fit k else true) idx5
        then block_ok cur limit rest else None
  end.

Definition spec_ok (c : case) : bool :=
  match c with
  | CUnits size r acu auth akeys skeys ierr iunits ikerr ikeys =>
      units_ok size r acu auth akeys skeys ierr iunits ikerr ikeys
  | CBlock rlen rws limit steps ilen iws =>
      let raw := words_bytes rlen rws in
      let iraw := words_bytes ilen iws in
      let start := lasts_of_raw raw in
      match block_ok start limit steps with
      | None => false
      | Some final =>
          (* recorded consumption = start + sum of the units of the accepted calls, within the limit *)
          let accepted := map (fun s => fst (fst (fst s))) (filter (fun s => snd (fst (fst s))) steps) in
          list_eqb final (map (fun k => dget start k + sumN (map (fun u => dget u k) accepted)) idx5) &&
          list_eqb (lasts_of_raw iraw) final &&
          forallb (fun k => if Nat.eqb (length accepted) 0 then true else dget final k <=? dget limit k) idx5 &&
          (* Consume writes nothing but lastConsumed *)
          Nat.eqb ilen 488 &&
          (match raw with
           | [] => true
           | _ => forallb (fun off => N.eqb (nth off raw 0) (nth off iraw 0))
                          (filter (fun off => negb (existsb (fun k => Nat.leb (8 + 96 * k + 88) off && Nat.ltb off (8 + 96 * k + 96)) idx5)) (seq 0 488))
           end)
      end
  end.

Definition test_rules : unit_rules := mkUR 1 5 2 20 5 10 3.
(* one action (compute 7) declaring key "ab" ++ [0;3] (3 chunks) read; sponsor declares the same key write *)
Definition selftest_good : case :=
  CUnits 100 test_rules [7] 5 [[([97;98;0;3], 1)]] [([97;98;0;3], 5)]
         0 [100; 13; 11; 35; 19] 0 [([97;98;0;3], 5)].
Definition selftest_bad : case :=
  CUnits 100 test_rules [7] 5 [[([97;98;0;3], 1)]] [([97;98;0;3], 5)]
         0 [100; 13; 22; 70; 38] 0 [([97;98;0;3], 5)].
