(* Correspondence + executable property oracle for C15. *)
From Coq Require Import List ZArith NArith Bool.
Import ListNotations.
From HV Require Import Lib.Bytes Lib.U64 Lib.Varint Lib.Canoto Lib.Harness Model.TxCodec.
Local Open Scope N_scope.

(* What the driver observed of one accepted transaction (through the real accessors):
   Base fields, Bytes() of every action and of the auth, len(UnsignedBytes()), and the comparisons
     o_cached_ok : Bytes() == the input slice, UnsignedBytes() is a prefix of Bytes(), GetID() == ToID(slice),
                   Size() == len(slice)
     o_reenc_ok  : for rebuilt := NewTransaction(Base, Actions, Auth):  rebuilt.Bytes() == Bytes(),
                   rebuilt.UnsignedBytes() == UnsignedBytes(), rebuilt.GetID() == GetID()
   (byte strings are compared in the driver to keep the Coq terms small). *)
Record tx_obs := mkObs {
  o_ts : Z; o_chain : bytes; o_fee : N;
  o_actions : list bytes; o_auth : bytes;
  o_unsigned_len : N;
  o_cached_ok : bool; o_reenc_ok : bool }.

(* accepted block header / execution results, as observed *)
Record blk_obs := mkBlkObs { bo_parent : bytes; bo_ts : N; bo_height : N; bo_ctx : option N; bo_root : bytes }.
Record res_obs := mkResObs { ro_success : bool; ro_error : bytes; ro_outputs : list bytes; ro_units : list N; ro_fee : N }.

(* kind: 0 chain.UnmarshalTx   1 BatchedTransactionSerializer.Unmarshal   2 chain.UnmarshalBlock
         3 chain.ParseExecutionResults   4 chain.UnmarshalResult
   c_bls: every (auth bytes, accepted?) pair the BLS auth decoder was asked about during the call (oracle
          for the point-decompression check of the crypto library).
   c_class: 0 accepted, otherwise the error class (Lib/Canoto.v E_*; 99 other).
   c_reenc_ok: the bytes of the value rebuilt from the parsed parts (NewTransaction / Marshal of rebuilt txs /
            NewStatelessBlock with rebuilt txs / MarshalCanoto of a copied ExecutionResults / Result) == input.
   c_flags: cached bytes == input and all ids equal the hash of the input. *)
Record case := mk {
  c_kind : N;
  c_input : bytes;
  c_bls : list (bytes * bool);
  c_class : N;
  c_txs : list tx_obs;
  c_blk : option blk_obs;
  c_results : list (option res_obs);
  c_dims : list (list N);
  c_reenc_ok : bool;
  c_flags : bool }.

Fixpoint bls_lookup (l : list (bytes * bool)) (b : bytes) : bool :=
  match l with
  | [] => false
  | (k, v) :: l' => if bytes_eqb k b then v else bls_lookup l' b
  end.

Definition aparse := morpheus_action_parser.
Definition uparse (c : case) := morpheus_auth_parser (bls_lookup (c_bls c)).
Definition ubytes (b : bytes) : bytes := b.

Definition mtx := tx transfer bytes.

Fixpoint list_eqb {S T} (eq : S -> T -> bool) (a : list S) (b : list T) : bool :=
  match a, b with
  | [], [] => true
  | x :: a', y :: b' => eq x y && list_eqb eq a' b'
  | _, _ => false
  end.

Definition tx_matches (t : mtx) (o : tx_obs) : bool :=
  (b_ts (x_base t) =? o_ts o)%Z && bytes_eqb (b_chain (x_base t)) (o_chain o) && (b_fee (x_base t) =? o_fee o) &&
  list_eqb bytes_eqb (map transfer_bytes (x_actions t)) (o_actions o) &&
  bytes_eqb (x_auth t) (o_auth o) &&
  (blen (x_unsigned t) =? o_unsigned_len o).

Definition opt_eqb {S T} (eq : S -> T -> bool) (a : option S) (b : option T) : bool :=
  match a, b with Some x, Some y => eq x y | None, None => true | _, _ => false end.

Definition res_matches (r : result) (o : res_obs) : bool :=
  Bool.eqb (rs_success r) (ro_success o) && bytes_eqb (rs_error r) (ro_error o) &&
  list_eqb bytes_eqb (rs_outputs r) (ro_outputs o) && bytes_eqb (rs_units r) (ro_units o) && (rs_fee r =? ro_fee o).

Definition on_res {T} (r : res T) (c : case) (k : T -> bool) : bool :=
  match r with
  | Err e => c_class c =? e
  | Ok v => (c_class c =? 0) && k v
  end.

(* model = implementation: same accept / error class, and the same parsed value *)
Definition check_case (c : case) : bool :=
  match c_kind c with
  | 0 => on_res (decode_tx _ _ aparse (uparse c) (c_input c)) c
           (fun t => match c_txs c with [o] => tx_matches t o | _ => false end)
  | 1 => on_res (decode_batch _ _ aparse (uparse c) (c_input c)) c
           (fun ts => list_eqb tx_matches ts (c_txs c))
  | 2 => on_res (decode_block _ _ aparse (uparse c) (c_input c)) c
           (fun b => list_eqb tx_matches (k_txs b) (c_txs c) &&
                     match c_blk c with
                     | Some o => bytes_eqb (k_parent b) (bo_parent o) && (k_ts b =? bo_ts o) && (k_height b =? bo_height o) &&
                                 opt_eqb N.eqb (k_ctx b) (bo_ctx o) && bytes_eqb (k_root b) (bo_root o)
                     | None => false
                     end)
  | 3 => on_res (decode_results (c_input c)) c
           (fun e => list_eqb (opt_eqb res_matches) (er_results e) (c_results c) &&
                     match c_dims c with
                     | [p; u] => bytes_eqb (er_prices e) p && bytes_eqb (er_consumed e) u
                     | _ => false
                     end)
  | 4 => on_res (decode_result (c_input c)) c
           (fun r => match c_results c with [Some o] => res_matches r o | _ => false end)
  | _ => false
  end.

(* The property on the implementation's outputs: whatever is accepted re-encodes, from its parsed parts,
   to exactly the input; cached bytes are the input; ids are the hash of the input; for every accepted
   transaction the signed message is the encoding of the rebuilt body without auth. *)
Definition tx_spec (o : tx_obs) : bool := o_cached_ok o && o_reenc_ok o.

Definition spec_ok (c : case) : bool :=
  if negb (c_class c =? 0) then true
  else
    c_reenc_ok c && c_flags c && forallb tx_spec (c_txs c).
