(* Correspondence + executable property oracle for C29 (ABI-driven encoding = native codec). *)
From Coq Require Import List NArith ZArith Bool String.
Import ListNotations.
From HV Require Import Lib.Bytes Lib.Harness Model.Abi.
Local Open Scope N_scope.

(* ---- decidable equalities on observables *)
Fixpoint value_eqb (a b : value) {struct a} : bool :=
  match a, b with
  | VNum x, VNum y => Z.eqb x y
  | VBool x, VBool y => Bool.eqb x y
  | VStr x, VStr y => bytes_eqb x y
  | VList x, VList y =>
      (fix go (x y : list value) : bool :=
         match x, y with
         | [], [] => true
         | a :: x', b :: y' => value_eqb a b && go x' y'
         | _, _ => false
         end) x y
  | _, _ => false
  end.

Definition opt_eqb {A} (eqb : A -> A -> bool) (a b : option A) : bool :=
  match a, b with Some x, Some y => eqb x y | None, None => true | _, _ => false end.

Definition fl_eqb (a b : list (string * string)) : bool :=
  (len a =? len b) && forallb (fun '((n1, t1), (n2, t2)) => String.eqb n1 n2 && String.eqb t1 t2) (combine a b).

Definition abity_eqb (a b : list abitype) : bool :=
  (len a =? len b) && forallb (fun '((n1, f1), (n2, f2)) => String.eqb n1 n2 && fl_eqb f1 f2) (combine a b).

Definition FUEL : nat := 40.

(* compact printing of byte sequences by the driver *)
Definition vb (b : bytes) : value := VList (map (fun x => VNum (Z.of_N x)) b).

(* the ABI the driver builds with abi.NewABI(actions, outputs) *)
Definition abi_of (acts outs : list (N * ty)) : abi :=
  let ids l := map (fun '(i, t) => (i, tyname t)) l in
  ABI (ids acts) (ids outs) (new_abi (map snd acts ++ map snd outs)).

(* registered actions / outputs (type id, type), whether the type under test is taken from the outputs, its index *)
Record ctx := Ctx { x_acts : list (N * ty); x_outs : list (N * ty); x_out : bool; x_k : nat }.

Definition root (x : ctx) : N * ty := nth (x_k x) (if x_out x then x_outs x else x_acts x) (0, TPrim U8).
Definition x_abi (x : ctx) : abi := abi_of (x_acts x) (x_outs x).
(* dynamic.UnmarshalOutput for output types, dynamic.UnmarshalAction otherwise *)
Definition x_ids (x : ctx) : list (N * string) := if x_out x then abi_outputs (x_abi x) else abi_actions (x_abi x).

Inductive case :=
(* abi.NewABI on the root types: observed Types list *)
| CDescribe (acts outs : list (N * ty)) (obs : list abitype)
(* value v of the type under test: dynamic.Marshal(abi, name, json v) (actions only) / native typeID ++ LinearCodec
   bytes / dynamic.UnmarshalAction|Output(native bytes) read back as a value / its JSON equals the JSON of the
   natively parsed value *)
| CMarshal (x : ctx) (v : value)
           (dyn : option bytes) (native : option bytes) (unm : option value) (jsoneq : bool)
(* arbitrary bytes: native LinearCodec decode of data[1:] (value, bytes consumed) / dynamic.Unmarshal* read back *)
| CDecode (x : ctx) (data : bytes) (native : option (value * N)) (dyn : option value)
(* native codec only (types outside what getReflectType supports): Bytes() and the native parser *)
| CNative (t : ty) (id : N) (v : value) (native : option bytes) (back : option value)
(* a call that returns normally when made alone panicked while other goroutines were making ABI calls: no model
   output equals that, and the property (same bytes / same value as the native codec) fails *)
| CPanicked (msg : string).

Definition check_case (c : case) : bool :=
  match c with
  | CDescribe acts outs obs => abity_eqb (new_abi (map snd acts ++ map snd outs)) obs
  | CMarshal x v dyn native unm _ =>
      let '(id, t) := root x in
      let a := x_abi x in
      let mnative := option_map (cons id) (enc t v) in
      (x_out x || opt_eqb bytes_eqb (dyn_marshal FUEL a (tyname t) (canon_val t v)) dyn)
      && opt_eqb bytes_eqb mnative native
      && match native with
         | Some nb => opt_eqb value_eqb (dyn_unmarshal FUEL a (x_ids x) nb) (option_map (canon_val t) unm)
         | None => true
         end
  | CDecode x data native dyn =>
      let '(id, t) := root x in
      let a := x_abi x in
      match data with
      | [] => true
      | _ :: body =>
          opt_eqb (fun '(v1, n1) '(v2, n2) => value_eqb v1 v2 && (n1 =? n2))
                  (match dec t body with Some (v, r) => Some (v, len body - len r) | None => None end) native
          && opt_eqb value_eqb (dyn_unmarshal FUEL a (x_ids x) data) (option_map (canon_val t) dyn)
      end
  | CNative t id v native back =>
      opt_eqb bytes_eqb (option_map (cons id) (enc t v)) native
      && match native with
         | Some (_ :: body) => opt_eqb value_eqb (match dec t body with Some (v', _) => Some v' | None => None end) back
         | _ => true
         end
  | CPanicked _ => false
  end.

(* The property on the implementation's outputs, without the model: a natively encodable value is encoded to
   the same bytes through the ABI (dynamic.Marshal exists for actions only), the bytes decode through the ABI to
   the same value, and the JSON documents agree (decided by the driver with encoding/json); a value the codec
   rejects is rejected through the ABI too.  On arbitrary bytes the ABI decoder and the native decoder agree. *)
Definition spec_ok (c : case) : bool :=
  match c with
  | CDescribe _ _ _ => true
  | CMarshal x v dyn native unm jsoneq =>
      match native with
      | Some nb => (x_out x || opt_eqb bytes_eqb dyn (Some nb)) && opt_eqb value_eqb unm (Some v) && jsoneq
      | None => match dyn with None => true | Some _ => false end
      end
  | CDecode _ data native dyn =>
      match data with
      | [] => true
      | _ => opt_eqb value_eqb dyn (option_map fst native)
      end
  | CNative _ _ v native back =>
      match native with Some _ => opt_eqb value_eqb back (Some v) | None => true end
  | CPanicked _ => false
  end.
