(* Case format and comparison shared by the block-execution properties (driver harness/drivers/chain).
   A case = one block-execution scenario + the outputs of the real Processor.Execute under several
   concurrency configurations (transaction-execution cores / fetch concurrency / signature workers). *)
From stdpp Require Import gmap.
From Coq Require Import NArith ZArith Bool.
From HV Require Import Lib.Bytes Lib.U64 Lib.Harness Model.Keys Model.Tstate Model.Fees Model.Chain.
Export Model.Chain.
Local Open Scope N_scope.

Inductive output :=
  | OutErr (cores cls sub : N) (reads : list (list N))
  | OutOk (cores : N) (results : list result) (post : list (list N * option (list N)))
          (post_h post_ts : N) (post_fee : manager) (prices consumed : list N) (reads : list (list N)).

Record case := mkCase {
  c_parent : list (list N * list N);
  c_parent_h : N; c_parent_ts : N;      (* height and timestamp stored in the parent STATE *)
  c_parent_block_ts : N;                 (* timestamp in the parent block's header *)
  c_parent_fee : manager; c_no_height : bool;
  c_rules : rules;
  c_block_ts : Z; c_block_h : N; c_root_ok : bool; c_too_late : bool; c_vw_dup : bool; c_fail_key : option (list N);
  c_txs : list tx;
  c_universe : list (list N);
  c_meta : list (list N);
  c_outs : list output }.

Definition parent_of (c : case) : parent_state :=
  mkParent (list_to_map (c_parent c)) (if c_no_height c then None else Some (c_parent_h c)) (c_parent_ts c) (c_parent_fee c).

Definition block_of (c : case) : block :=
  mkBlock (c_block_ts c) (c_block_h c) (c_root_ok c) (c_too_late c) (c_vw_dup c) (c_fail_key c) (c_txs c).

Definition meta_of (c : case) : meta_keys := mkMeta (nth 0 (c_meta c) []) (nth 1 (c_meta c) []) (nth 2 (c_meta c) []).

Definition model_out (c : case) := execute_block (c_rules c) (meta_of c) (parent_of c) (block_of c).

(* ---- boolean equalities on the projected observables ---- *)
Fixpoint list_eqb {A} (f : A -> A -> bool) (a b : list A) : bool :=
  match a, b with
  | [], [] => true
  | x :: a', y :: b' => f x y && list_eqb f a' b'
  | _, _ => false
  end.
Definition nlist_eqb := list_eqb N.eqb.
Definition oval_eqb' (a b : option (list N)) : bool :=
  match a, b with Some x, Some y => nlist_eqb x y | None, None => true | _, _ => false end.
Definition result_eqb (a b : result) : bool :=
  Bool.eqb (res_success a) (res_success b) && (res_err a =? res_err b) && (res_fee a =? res_fee b)
  && nlist_eqb (res_units a) (res_units b) && list_eqb nlist_eqb (res_outputs a) (res_outputs b).
Definition ds_eqb (a b : dim_state) : bool :=
  (ds_price a =? ds_price b) && nlist_eqb (ds_window a) (ds_window b) && (ds_last a =? ds_last b).
Definition mgr_eqb (a b : manager) : bool := (m_ts a =? m_ts b) && list_eqb ds_eqb (m_dims a) (m_dims b).

Definition post_eqb (a b : list (list N * option (list N))) : bool :=
  list_eqb (fun x y => nlist_eqb (fst x) (fst y) && oval_eqb' (snd x) (snd y)) a b.

(* model output against one implementation output *)
Definition out_matches (c : case) (o : output) : bool :=
  match model_out c, o with
  | inr (cls, sub), OutErr _ cls' sub' _ => (cls =? cls') && ((sub =? 0) || (sub =? sub'))
  | inl m, OutOk _ results post ph pts pfee prices consumed _ =>
      list_eqb result_eqb (o_results m) results
      && post_eqb (map (fun k => (k, post_value (parent_of c) m k)) (c_universe c)) post
      && (o_height m =? ph) && (o_ts m =? pts) && mgr_eqb (o_fee m) pfee
      && nlist_eqb (o_prices m) prices && nlist_eqb (o_consumed m) consumed
  | _, _ => false
  end.

Definition check_case (c : case) : bool := forallb (out_matches c) (c_outs c).

(* ---- the property on the implementation's own outputs: every configuration produced the same
        verdict, results, post-state, prices and consumption as the first (cores = 1, serial) one ---- *)
Definition out_eqb (a b : output) : bool :=
  match a, b with
  | OutErr _ cls _ _, OutErr _ cls' _ _ => cls =? cls'
  | OutOk _ r p h t f pr co _, OutOk _ r' p' h' t' f' pr' co' _ =>
      list_eqb result_eqb r r' && post_eqb p p' && (h =? h') && (t =? t') && mgr_eqb f f'
      && nlist_eqb pr pr' && nlist_eqb co co'
  | _, _ => false
  end.

Definition no_hang (o : output) : bool := match o with OutErr _ 99 _ _ => false | _ => true end.

Definition spec_ok (c : case) : bool :=
  match c_outs c with
  | [] => true
  | o :: rest => forallb (out_eqb o) rest && forallb no_hang (c_outs c)
  end.
