(* C27 — genesis state contains exactly the configured allocations and initial metadata. *)
From stdpp Require Import gmap.
From Coq Require Import NArith ZArith Bool.
From HV Require Import Lib.Bytes Lib.U64 Lib.Harness Model.Keys Model.Tstate Model.Fees Model.Chain Model.Genesis.
Local Open Scope N_scope.

Inductive goutcome := GErr (cls : N) | GOk (dump : list (list N * list N)) (root_ok : bool) (height : N).

Record case := mkGCase {
  g_allocs : list (list N * N);      (* (balance key of the address, amount), in configuration order *)
  g_min_price : list N;
  g_meta : list (list N);
  g_out : goutcome }.

Definition meta_of (c : case) : meta_keys := mkMeta (nth 0 (g_meta c) []) (nth 1 (g_meta c) []) (nth 2 (g_meta c) []).

Fixpoint nlist_eqb (a b : list N) : bool :=
  match a, b with [], [] => true | x :: a', y :: b' => (x =? y) && nlist_eqb a' b' | _, _ => false end.

(* model = implementation: same verdict, and the dump is exactly the model's committed diff *)
Definition check_case (c : case) : bool :=
  match genesis_state (meta_of c) (g_min_price c) (g_allocs c), g_out c with
  | None, GErr _ => true
  | Some m, GOk dump root_ok h =>
      forallb (fun kv => match m !! fst kv with Some (Some v) => nlist_eqb v (snd kv) | _ => false end) dump
      && (N.of_nat (length dump) =? N.of_nat (size m)) && root_ok && (h =? 0)
  | _, _ => false
  end.

(* the property, without the state view: per-address sums on an association list *)
Fixpoint sum_for (k : list N) (allocs : list (list N * N)) : N :=
  match allocs with
  | [] => 0
  | (k', b) :: rest => (if bytes_eqb k k' then b else 0) + sum_for k rest
  end.
Definition total (allocs : list (list N * N)) : N := fold_left N.add (map snd allocs) 0.
Definition mentioned (k : list N) (allocs : list (list N * N)) : bool := existsb (fun a => bytes_eqb k (fst a)) allocs.

Definition expected_fee_bytes (min_price : list N) : list N :=
  be64 0 ++ flat_map (fun k => be64 (nth k min_price 0) ++ repeat 0 88%nat) [0; 1; 2; 3; 4]%nat.

Definition spec_ok (c : case) : bool :=
  match g_out c with
  | GErr _ => MaxU64 <? total (g_allocs c)              (* rejected exactly when the supply overflows *)
  | GOk dump root_ok h =>
      (total (g_allocs c) <=? MaxU64) && root_ok && (h =? 0)
      && forallb (fun kv =>
           let k := fst kv in
           if bytes_eqb k (nth 0 (g_meta c) []) then nlist_eqb (snd kv) (be64 0)              (* height 0 *)
           else if bytes_eqb k (nth 1 (g_meta c) []) then nlist_eqb (snd kv) (be64 0)         (* timestamp 0 *)
           else if bytes_eqb k (nth 2 (g_meta c) []) then nlist_eqb (snd kv) (expected_fee_bytes (g_min_price c))
           else mentioned k (g_allocs c) && nlist_eqb (snd kv) (be64 (sum_for k (g_allocs c)))) dump
      (* every configured address and the three metadata keys are present, nothing twice *)
      && forallb (fun a => existsb (fun kv => bytes_eqb (fst kv) (fst a)) dump) (g_allocs c)
      && forallb (fun k => existsb (fun kv => bytes_eqb (fst kv) k) dump) (g_meta c)
      && (fix nodup (l : list (list N * list N)) := match l with [] => true | x :: l' => negb (existsb (fun y => bytes_eqb (fst x) (fst y)) l') && nodup l' end) dump
  end.
