(* C06 — token supply is conserved except for burned fees (reference VM).
   Cases: blocks of examples/morpheusvm Transfer transactions executed by the real Processor with the
   real morpheusvm balance handler. *)
From stdpp Require Import gmap.
From Coq Require Import NArith ZArith Bool.
From HV Require Import Lib.Bytes Lib.U64 Lib.Harness Model.Keys Model.Tstate Model.Fees Model.Chain Check.Chain_check.
Export Check.Chain_check.
Local Open Scope N_scope.

Definition sum_vals (l : list (option (list N))) : N :=
  fold_left N.add (map (fun ov => match ov with Some v => be_dec v | None => 0 end) l) 0.

Definition parent_value (c : case) (k : list N) : option (list N) :=
  match find (fun kv => bytes_eqb (fst kv) k) (c_parent c) with Some kv => Some (snd kv) | None => None end.

(* the property on the implementation's outputs: over all accounts of the scenario,
   sum of balances after the block + fees charged in the block = sum of balances before *)
Definition spec_one (c : case) (o : output) : bool :=
  match o with
  | OutErr _ _ _ _ => true
  | OutOk _ results post _ _ _ _ _ _ =>
      (sum_vals (map snd post) + fold_left N.add (map res_fee results) 0
       =? sum_vals (map (parent_value c) (c_universe c)))
      && forallb (fun kv => match snd kv with Some v => negb (be_dec v =? 0) | None => true end) post  (* no zero-balance records *)
  end.

Definition spec_ok (c : case) : bool := forallb (spec_one c) (c_outs c) && Chain_check.spec_ok c.
Definition check_case := Chain_check.check_case.
