(* C09, mempool side: the builder has no duplicate filter of its own inside ONE block (IsRepeat only looks at
   ancestors), so "no transaction id twice in one block ... the builder never produces such a block" rests on the
   mempool never handing the same item out twice during one streaming session (StartStreaming .. FinishStreaming) and
   never holding one id twice.  The cases are those of the C23 mempool driver (Check/C23_check.v); only these two
   clauses are evaluated here -- bounds, ordering and expiry of the mempool are property C23's business. *)
From Coq Require Import List NArith ZArith Bool.
Import ListNotations.
From HV Require Export Model.Heap Model.EHeap Model.Mempool Check.C23_check.
Local Open Scope N_scope.

Definition dup_trans (prev : obs) (handed : option (list N)) (o : op) (b : obs) : bool * option (list N) :=
  let hl := match handed with Some h => h | None => [] end in
  match o, o_out b with
  | OStart, RUnit => (true, Some [])
  | OPrepare _, RUnit =>
      (disjointN (ids_of (o_next b)) hl && nodupN (ids_of (o_next b)), Some (ids_of (o_next b) ++ hl))
  | OStream _, RItems v =>
      if o_fetched prev then (true, Some hl)
      else (disjointN (ids_of v) hl && nodupN (ids_of v), Some (ids_of v ++ hl))
  | OFinish _, _ => (true, None)
  | _, _ => (true, handed)
  end.

Definition dup_inv (handed : option (list N)) (b : obs) : bool :=
  nodupN (ids_of (o_fwd b))
  && match handed with Some h => disjointN h (ids_of (o_fwd b)) | None => true end.

Fixpoint dup_steps (prev : obs) (handed : option (list N)) (ops : list op) (os : list obs) : bool :=
  match ops, os with
  | [], [] => true
  | o :: ops', b :: os' =>
      let '(ok, handed') := dup_trans prev handed o b in
      ok && dup_inv handed' b && dup_steps b handed' ops' os'
  | _, _ => false
  end.

Definition no_double_handout (c : case) : bool := dup_steps obs0 None (c_ops c) (c_obs c).

Definition check_case : case -> bool := no_double_handout.
Definition spec_ok : case -> bool := no_double_handout.
