(* C24 — block execution reads exactly the declared keys from parent state.
   Same cases as the block-execution driver, with a recording (and optionally failing) parent view. *)
From stdpp Require Import gmap.
From Coq Require Import NArith ZArith Bool.
From HV Require Import Lib.Bytes Lib.U64 Lib.Harness Model.Keys Model.Tstate Model.Fees Model.Chain Check.Chain_check.
Export Check.Chain_check.
Local Open Scope N_scope.

Definition reads_of (o : output) : list (list N) :=
  match o with OutErr _ _ _ rd => rd | OutOk _ _ _ _ _ _ _ _ rd => rd end.

Definition mem (k : list N) (l : list (list N)) : bool := existsb (bytes_eqb k) l.

Fixpoint no_dup (l : list (list N)) : bool :=
  match l with [] => true | x :: l' => negb (mem x l') && no_dup l' end.

Definition subset (a b : list (list N)) : bool := forallb (fun k => mem k b) a.

Definition model_reads (c : case) := block_reads (c_rules c) (meta_of c) (parent_of c) (block_of c).

(* model vs implementation: verdict/results/post-state as for C01, and the requested keys:
   exactly the model's list (as a set, each once) when it is schedule-independent, a duplicate-free
   subset of it otherwise *)
Definition reads_match (c : case) (o : output) : bool :=
  let '(exp, exact) := model_reads c in
  let rd := reads_of o in
  no_dup rd && subset rd exp && (negb exact || subset exp rd).

Definition check_case (c : case) : bool :=
  forallb (fun o => out_matches c o && reads_match c o) (c_outs c).

(* the property on the implementation's outputs, without the execution model:
   every requested key is a metadata key or a key declared by some transaction of the block (any
   well-formed declaration, whether or not the transaction is reached), no key is requested twice,
   an injected read error on a key that was requested makes the block fail, and nothing hangs;
   a successful block's reads contain every declared key (each transaction saw the parent value) *)
Definition all_declared (c : case) : list (list N) := flat_map (fun t => map fst (tx_decls t)) (c_txs c).

Definition spec_one (c : case) (o : output) : bool :=
  let rd := reads_of o in
  no_dup rd && subset rd (c_meta c ++ all_declared c)
  && match c_fail_key c with
     | Some f => negb (mem f rd) || match o with OutErr _ _ _ _ => true | _ => false end
     | None => true
     end
  && match o with
     | OutOk _ _ _ _ _ _ _ _ _ => subset (c_meta c ++ all_declared c) rd
     | OutErr _ cls _ _ => negb (cls =? 99)
     end.

Definition spec_ok (c : case) : bool := forallb (spec_one c) (c_outs c) && Chain_check.spec_ok c.
