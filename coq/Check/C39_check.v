(* Correspondence + executable property oracle for C39. *)
From Coq Require Import List NArith Bool.
Import ListNotations.
From HV Require Import Lib.Bytes Lib.Harness Model.Prefixes.

Record case := mk { c_h : bytes; c_f : bytes; c_t : bytes; c_vm : list bytes; c_impl : bool;
  (* the call left the caller's slice intact (its whole backing array, which the driver allocates with spare
     capacity) and a second call on the same, and on a longer, view of that array answered as a fresh call does *)
  c_intact : bool }.

(* model = implementation *)
Definition check_case (c : case) : bool :=
  Bool.eqb (has_conflicting_prefixes (c_h c) (c_f c) (c_t c) (c_vm c)) (c_impl c) && c_intact c.

(* the property itself, executable and independent of the model's loop: quadratic scan of all
   ordered pairs of distinct positions *)
Fixpoint pair_scan (before : list bytes) (l : list bytes) : bool :=
  match l with
  | [] => false
  | p :: rest =>
      existsb (fun q => has_prefix q p || has_prefix p q) (before ++ rest) || pair_scan (before ++ [p]) rest
  end.

Definition spec_ok (c : case) : bool :=
  Bool.eqb (pair_scan [] ([c_h c; c_f c; c_t c] ++ c_vm c)) (c_impl c) && c_intact c.
