(* Correspondence + executable property oracle for C18 (crash recovery of the accept pipeline).

   One case = one run of the real vm.VM + snow.VM over pebble: a chain of c_n blocks is fed to a node whose
   consensus thread runs c_lag blocks ahead of the (stalled) asynchronous accepter; the node is killed at crash
   point c_kind of block c_k; the databases are probed; a fresh node is initialised over the same databases; if that
   succeeds c_post further blocks are accepted and the node is shut down cleanly. *)
From Coq Require Import List NArith Bool.
Import ListNotations.
From HV Require Import Lib.Harness Model.AcceptPipeline.
Local Open Scope N_scope.

Record case := mk {
  (* inputs *)
  c_m : N;          (* length of the reference chain (blocks available) *)
  c_n : N;          (* blocks fed to the victim *)
  c_kind : N;       (* 0 clean shutdown, 1 before index update, 2 after index update before queueing, 3 before results
                       write, 4 between results write and state commit, 5/6 after the commit before any notification,
                       7 inside the first subscriber, 8 inside the last subscriber *)
  c_k : N;          (* block at which the crash fires *)
  c_lag : N;        (* blocks the consensus thread runs ahead of the accepter *)
  c_post : N;       (* blocks to accept after recovery *)
  (* observed: crash *)
  c_fired : bool;   (* the crash point was reached *)
  c_drv_ok : bool;  (* no hang / unexpected error while driving the node *)
  c_idx : N; c_st : N; c_res : N;   (* persistent markers right after the crash *)
  c_crash_ok : bool;                (* committed root / stored results at the crash = the reference run's at those heights *)
  c_pre : list (N * N);             (* subscriber log before the crash *)
  (* observed: recovery *)
  c_rec : N;        (* Initialize: 0 ok, 1 invalid-state error, 2 results error, 3 panic, 9 other error, 10 hang *)
  c_last : N;       (* last accepted height of the recovered node *)
  c_id_ok : bool;   (* its id = id of the reference chain at that height *)
  c_proc : N;       (* height of the recovered output/accepted block (state) *)
  c_root_ok : bool; (* recovered state root = reference root at that height *)
  c_res_ok : bool;  (* recovered last execution results = reference results at that height *)
  c_rlog : list (N * N);   (* notifications during the recovered node's start-up *)
  c_post_ok : bool; (* post blocks accepted, roots match the reference *)
  c_plog : list (N * N);   (* notifications for the post blocks *)
  c_aidx : N; c_ast : N; c_ares : N;  (* markers after the final clean shutdown *)
  c_after_ok : bool (* those markers agree and the final root = the reference root at that height *)
}.

Definition NS : N := 2.   (* the two harness subscribers: first and last in the notification order *)

(* ---- the schedule the driver enforces (lock step between the consensus thread and the accepter) -------------------- *)

Definition accepted (s : state) : N :=
  match st_pend s with Some _ => N.pred (p_index (st_p s)) | None => p_index (st_p s) end.
Definition processed (s : state) : N :=
  match st_cur s with Some (h, _) => N.pred h | None => p_state (st_p s) end.

Inductive act := AStop | AStuck | ADo (l : label).

Definition choose (n kind k lag : N) (s : state) : act :=
  match st_cur s, st_queue s with
  | None, _ :: _ => ADo LTake                       (* the idle accepter receives at once *)
  | _, _ =>
    match st_pend s with
    | Some h => if (kind =? 2) && (h =? k) then AStop else ADo LEnqueue
    | None =>
      let a := accepted s in
      if (a <? n) && (a - lag <=? processed s) then
        (if (kind =? 1) && (N.succ a =? k) then AStop else ADo LIndex)
      else
        match st_cur s with
        | None => if kind =? 0 then AStop else AStuck
        | Some (h, SGot) =>
            if N.min n (h + lag) <=? a
            then (if (kind =? 3) && (h =? k) then AStop else ADo LWrite)
            else AStuck
        | Some (h, SWrote) => if (kind =? 4) && (h =? k) then AStop else ADo LCommit
        | Some (h, SCommitted j) =>
            if (h =? k) && (((kind =? 5) || (kind =? 6)) && (j =? 0) || (kind =? 7) && (j =? 1) || (kind =? 8) && (j =? NS))
            then AStop
            else if j <? NS then ADo LNotify else ADo LFinish
        end
    end
  end.

Fixpoint sim (fuel : nat) (n kind k lag : N) (s : state) : option state :=
  match fuel with
  | O => None
  | S f =>
      match choose n kind k lag s with
      | AStop => Some s
      | AStuck => None
      | ADo l => match step NS s l with Some s' => sim f n kind k lag s' | None => None end
      end
  end.

Definition pair_eqb (a b : N * N) : bool := (fst a =? fst b) && (snd a =? snd b).
Fixpoint log_eqb (a b : list (N * N)) : bool :=
  match a, b with
  | [], [] => true
  | x :: a', y :: b' => pair_eqb x y && log_eqb a' b'
  | _, _ => false
  end.

Definition markers_eqb (p : pstate) (i s r : N) : bool :=
  (p_index p =? i) && (p_state p =? s) && (p_results p =? r).

(* model = implementation, on every observable *)
Definition check_case (c : case) : bool :=
  match sim (N.to_nat (c_n c * 12 + 12)) (c_n c) (c_kind c) (c_k c) (c_lag c) (init NS) with
  | None => false
  | Some sc =>
      Bool.eqb (c_fired c) (negb (c_kind c =? 0)) && c_drv_ok c
      && markers_eqb (st_p sc) (c_idx c) (c_st c) (c_res c) && c_crash_ok c
      && log_eqb (st_log sc) (c_pre c)
      && match recover NS (crash sc) with
         | RPanic => (c_rec c =? 3) && markers_eqb (st_p sc) (c_aidx c) (c_ast c) (c_ares c)
         | RErr e => (c_rec c =? e) && markers_eqb (st_p sc) (c_aidx c) (c_ast c) (c_ares c)
         | ROk last p' rlog =>
             (c_rec c =? 0) && (c_last c =? last) && c_id_ok c && (c_proc c =? p_state p') && c_root_ok c && c_res_ok c
             && log_eqb rlog (c_rlog c)
             && match run NS (resume p' rlog) (seq_trace NS (N.to_nat (N.min (c_post c) (c_m c - last)))) with
                | None => false
                | Some sf =>
                    c_post_ok c && log_eqb (st_log sf) (rlog ++ c_plog c)
                    && markers_eqb (st_p sf) (c_aidx c) (c_ast c) (c_ares c) && c_after_ok c
                end
         end
  end.

(* ---- the property itself, on the implementation's outputs, independent of the model's step/recover ---------------- *)

Definition covers (l : list N) (top : N) : bool :=
  forallb (fun h => existsb (N.eqb h) l) (upto 1 (N.to_nat top)).

(* subscriber j received every accepted height 1..top at least once, heights never going backwards *)
Definition sub_ok (lg : list (N * N)) (top j : N) : bool :=
  covers (proj j lg) top && nondecb (proj j lg).

Definition spec_ok (c : case) : bool :=
  c_drv_ok c
  (* restarting succeeds *)
  && (c_rec c =? 0)
  (* same last accepted block, state root and last execution results as the node that never crashed *)
  && (c_last c =? c_idx c) && c_id_ok c
  && (c_proc c =? c_idx c) && c_root_ok c && c_res_ok c
  (* every accepted block delivered at least once across the restart, in height order, to each subscriber *)
  && sub_ok (c_pre c ++ c_rlog c) (c_idx c) 0 && sub_ok (c_pre c ++ c_rlog c) (c_idx c) 1
  (* and the recovered node keeps going like the reference *)
  && c_post_ok c && c_after_ok c
  && (c_aidx c =? c_idx c + N.min (c_post c) (c_m c - c_idx c)) && (c_ast c =? c_aidx c) && (c_ares c =? c_aidx c)
  && sub_ok (c_pre c ++ c_rlog c ++ c_plog c) (c_aidx c) 0 && sub_ok (c_pre c ++ c_rlog c ++ c_plog c) (c_aidx c) 1.

(* comparator self-test: a crash inside the first subscriber at block 2 of 3, no lag, one post block *)
Definition selftest_good : case :=
  mk 6 3 7 2 0 1 true true 2 2 2 true [(0,0);(1,0);(0,1);(1,1);(0,2)]
     0 2 true 2 true true [(0,2);(1,2)] true [(0,3);(1,3)] 3 3 3 true.
(* the same with the start-up notification of subscriber 1 missing *)
Definition selftest_bad : case :=
  mk 6 3 7 2 0 1 true true 2 2 2 true [(0,0);(1,0);(0,1);(1,1);(0,2)]
     0 2 true 2 true true [(0,2)] true [(0,3);(1,3)] 3 3 3 true.
