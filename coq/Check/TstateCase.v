(* Shared case format + correspondence check (model = implementation) for the tstate driver
   (properties C04 and C05).  The property oracles [spec_ok] are in C04_check.v / C05_check.v.

   One case = the lifetime of one TState over a fixed storage: a list of segments.  A segment
   opens a TStateView with a scope, runs a history of operations, and (optionally) commits.
   After every operation the driver records: the result, OpIndex, PendingChanges and a read of
   every key of the universe (through a scope wrapper that lets the observer bypass
   permissions); after the segment: KeyOperations(), TState.ChangedKeys(), TState.OpIndex(). *)
From stdpp Require Import gmap.
From Coq Require Import NArith ZArith.
From HV Require Import Lib.Bytes Lib.Harness Model.Keys Model.Tstate.
Local Open Scope N_scope.

(* compact byte strings: [rep n b] = n copies of b *)
Definition rep (n b : N) : list N := N.iter n (cons b) [].

Inductive scope_spec :=
  | SAll                                   (* state.CompletePermissions *)
  | SAdd (d : list (key * perm))           (* state.Keys built with Add, in order *)
  | SRaw (d : list (key * perm)).          (* state.Keys built by direct assignment, in order *)

(* implementation-side result of one call: error classes 1 = ErrInvalidKeyOrPermission,
   2 = ErrInvalidKeyValue, 3 = database.ErrNotFound, 4 = any other error, 8 = panic,
   9 = call skipped by the driver (restore point above OpIndex) *)
Inductive ires := IVal (v : val) | IErr (c : N) | IOk.

Record step_obs := SO { so_res : ires; so_idx : N; so_pend : N; so_vis : list (option val) }.

Record seg := Seg { sg_scope : scope_spec; sg_hist : list hop; sg_commit : bool }.

Record seg_obs := SegO {
  go_scope_ok : bool;                      (* every Keys.Add returned true *)
  go_vis0 : list (option val);             (* read of the universe through the fresh view *)
  go_steps : list step_obs;
  go_allocs : list (key * N);              (* KeyOperations() at the end of the segment *)
  go_writes : list (key * N);
  go_changed : list (key * option val);    (* TState.ChangedKeys() after the segment *)
  go_tsops : N }.                          (* TState.OpIndex() after the segment *)

Record case := mk {
  c_base : list (key * val);               (* storage *)
  c_univ : list key;                       (* observed keys *)
  c_segs : list seg;
  c_obs : list seg_obs }.

(* ---------------------------------------------------------------- comparison helpers *)

Fixpoint forallb2 {A B} (f : A -> B -> bool) (l : list A) (l' : list B) : bool :=
  match l, l' with
  | [], [] => true
  | x :: l, y :: l' => f x y && forallb2 f l l'
  | _, _ => false
  end.

Definition ires_eqb (a b : ires) : bool :=
  match a, b with
  | IVal x, IVal y => bytes_eqb x y
  | IErr x, IErr y => N.eqb x y
  | IOk, IOk => true
  | _, _ => false
  end.

Definition ovals_eqb (a b : list (option val)) : bool := forallb2 oval_eqb a b.

Definition step_obs_eqb (a b : step_obs) : bool :=
  ires_eqb (so_res a) (so_res b) && N.eqb (so_idx a) (so_idx b) && N.eqb (so_pend a) (so_pend b)
  && ovals_eqb (so_vis a) (so_vis b).

Definition on_eqb (a b : option N) : bool :=
  match a, b with Some x, Some y => N.eqb x y | None, None => true | _, _ => false end.
Definition oov_eqb (a b : option (option val)) : bool :=
  match a, b with Some x, Some y => oval_eqb x y | None, None => true | _, _ => false end.

(* an implementation map listing [l] (no duplicate keys expected) equals the model map [m] *)
Definition map_matches {V} (eqb : option V -> option V -> bool) (m : gmap key V) (l : list (key * V)) : bool :=
  let lm : gmap key V := list_to_map l in
  Nat.eqb (size lm) (length l) && Nat.eqb (size m) (length l)
  && forallb (fun kv => eqb (m !! fst kv) (Some (snd kv))) l.

(* ---------------------------------------------------------------- the model on a case *)

Definition build_scope (sp : scope_spec) : option scope :=
  match sp with
  | SAll => Some ScopeAll
  | SAdd d => match keys_add_all ∅ d with Some m => Some (ScopeKeys m) | None => None end
  | SRaw d => Some (ScopeKeys (fold_left (fun m kp => <[fst kp := snd kp]> m) d ∅))
  end.

Definition ires_of (r : res) : ires :=
  match r with
  | RVal v => IVal v
  | RErr EPerm => IErr 1
  | RErr EValue => IErr 2
  | RErr ENotFound => IErr 3
  | ROk => IOk
  end.

Definition observe (univ : list key) (s : view) (r : res) : step_obs :=
  SO (ires_of r) (op_index s) (pending_changes s) (map (vis s) univ).

Fixpoint run_obs (univ : list key) (s : view) (h : list hop) : view * list step_obs :=
  match h with
  | [] => (s, [])
  | x :: h' =>
      let '(s1, r) := step s x in
      let '(s2, os) := run_obs univ s1 h' in
      (s2, observe univ s1 r :: os)
  end.

(* one segment: returns (model agrees with the observation, TState after the segment) *)
Definition seg_match (univ : list key) (base : gmap key val) (ts : tstate) (sg : seg) (o : seg_obs)
  : bool * tstate :=
  match build_scope (sg_scope sg) with
  | None =>
      (negb (go_scope_ok o) && match go_steps o with [] => true | _ => false end
       && map_matches oov_eqb (ts_changed ts) (go_changed o) && N.eqb (ts_ops ts) (go_tsops o), ts)
  | Some sc =>
      let s0 := new_view ts sc base in
      let '(s1, os) := run_obs univ s0 (sg_hist sg) in
      let ts' := if sg_commit sg then commit s1 else ts in
      (go_scope_ok o
       && ovals_eqb (map (vis s0) univ) (go_vis0 o)
       && forallb2 step_obs_eqb os (go_steps o)
       && map_matches on_eqb (allocs s1) (go_allocs o)
       && map_matches on_eqb (writes s1) (go_writes o)
       && map_matches oov_eqb (ts_changed ts') (go_changed o)
       && N.eqb (ts_ops ts') (go_tsops o), ts')
  end.

Fixpoint segs_match (univ : list key) (base : gmap key val) (ts : tstate) (sgs : list seg) (os : list seg_obs) : bool :=
  match sgs, os with
  | [], [] => true
  | sg :: sgs', o :: os' =>
      let '(ok, ts') := seg_match univ base ts sg o in
      ok && segs_match univ base ts' sgs' os'
  | _, _ => false
  end.

Definition check_case (c : case) : bool :=
  segs_match (c_univ c) (list_to_map (c_base c)) ts_new (c_segs c) (c_obs c).

(* ---------------------------------------------------------------- helpers for the oracles:
   plain association-list maps, independent of the model's gmap machinery *)

Fixpoint alookup {V} (l : list (key * V)) (k : key) : option V :=
  match l with
  | [] => None
  | (k', v) :: l' => if bytes_eqb k' k then Some v else alookup l' k
  end.

(* value below the view according to the implementation's own ChangedKeys listing + storage *)
Definition under_l (base : list (key * val)) (changed : list (key * option val)) (k : key) : option val :=
  match alookup changed k with
  | Some ov => ov
  | None => alookup base k
  end.

(* declared permission of a key, computed directly from the declaration list *)
Definition declared (sp : scope_spec) (k : key) : N :=
  match sp with
  | SAll => 255
  | SAdd d => fold_left (fun acc kp => if bytes_eqb (fst kp) k then N.lor acc (snd kp) else acc) d 0
  | SRaw d => fold_left (fun acc kp => if bytes_eqb (fst kp) k then snd kp else acc) d 0
  end.

Definition has_bits (p req : N) : bool := N.eqb (N.land p req) req.

Fixpoint zip3 {A B C} (a : list A) (b : list B) (c : list C) : list (A * B * C) :=
  match a, b, c with
  | x :: a', y :: b', z :: c' => (x, y, z) :: zip3 a' b' c'
  | _, _, _ => []
  end.
