(* C05: correspondence (check_case, shared with C04) + executable property oracle: every
   successful access was declared with the needed permission bits (union of all declarations of
   the key), a declared access is not refused for lack of permission, every undeclared access fails
   with the permission error and changes nothing, and keys without write permission keep their
   visible value and their published entry.  Written over the declaration list directly. *)
From stdpp Require Import gmap.
From Coq Require Import NArith ZArith.
From HV Require Import Lib.Bytes Lib.Harness.
From HV Require Export Model.Keys Model.Tstate Check.TstateCase.
Local Open Scope N_scope.

Definition is_perm_err (r : ires) : bool := match r with IErr 1 => true | _ => false end.
Definition is_err (r : ires) : bool := match r with IErr _ => true | _ => false end.
Definition is_ok (r : ires) : bool := match r with IOk => true | _ => false end.
Definition is_read (r : ires) : bool := match r with IVal _ => true | IErr 3 => true | _ => false end.

Definition vis_at (univ : list key) (vis : list (option val)) (k : key) : option (option val) :=
  alookup (combine univ vis) k.

Fixpoint steps_ok (sp : scope_spec) (univ : list key) (vis0 : list (option val))
  (pidx ppend : N) (pvis : list (option val)) (h : list hop) (os : list step_obs) : bool :=
  match h, os with
  | [], [] => true
  | x :: h', o :: os' =>
      let r := so_res o in
      let unchanged := N.eqb (so_idx o) pidx && N.eqb (so_pend o) ppend && ovals_eqb (so_vis o) pvis in
      let ok1 :=
        match x with
        | HGet k =>
            let p := declared sp k in
            implb (is_read r) (has_bits p 1) && implb (negb (has_bits p 1)) (is_perm_err r)
            && implb (has_bits p 1) (negb (is_perm_err r)) && unchanged
        | HIns k v =>
            let p := declared sp k in
            let absent := match vis_at univ pvis k with Some None => true | _ => false end in
            implb (is_ok r) (has_bits p 5 && implb absent (has_bits p 3))
            && implb (negb (has_bits p 5)) (is_perm_err r)
            && implb (has_bits p 7) (negb (is_perm_err r))
            && implb (is_err r) unchanged
        | HRem k =>
            let p := declared sp k in
            implb (is_ok r) (has_bits p 5) && implb (negb (has_bits p 5)) (is_perm_err r)
            && implb (has_bits p 5) (is_ok r)
            && implb (is_err r) unchanged
        | HRb _ => true
        end in
      (* confinement: keys without write permission never change while the view lives *)
      let ok2 := forallb (fun t => match t with (k, v0, v) => has_bits (declared sp k) 5 || oval_eqb v0 v end)
                   (zip3 univ vis0 (so_vis o)) in
      ok1 && ok2 && steps_ok sp univ vis0 (so_idx o) (so_pend o) (so_vis o) h' os'
  | _, _ => false
  end.

Definition seg_ok (univ : list key) (prev : list (key * option val)) (sg : seg) (o : seg_obs) : bool :=
  let sp := sg_scope sg in
  let ks := univ ++ map fst prev ++ map fst (go_changed o) in
  let scope_expected :=
    match sp with
    | SAdd d => forallb (fun kp => Nat.leb 2 (length (fst kp))) d
    | _ => true
    end in
  Bool.eqb (go_scope_ok o) scope_expected &&
  (if go_scope_ok o then steps_ok sp univ (go_vis0 o) 0 0 (go_vis0 o) (sg_hist sg) (go_steps o)
   else match go_steps o with [] => true | _ => false end) &&
  (* nothing is published for a key that was not write-declared (or if the scope was rejected) *)
  forallb (fun k => (go_scope_ok o && has_bits (declared sp k) 5)
                    || oov_eqb (alookup (go_changed o) k) (alookup prev k)) ks.

Fixpoint segs_ok (univ : list key) (prev : list (key * option val)) (sgs : list seg) (os : list seg_obs) : bool :=
  match sgs, os with
  | [], [] => true
  | sg :: sgs', o :: os' => seg_ok univ prev sg o && segs_ok univ (go_changed o) sgs' os'
  | _, _ => false
  end.

Definition spec_ok (c : case) : bool := segs_ok (c_univ c) [] (c_segs c) (c_obs c).

(* comparator self-test: a read of an undeclared key; bad = the implementation returned the value *)
Definition st_k : key := [97; 0; 1].
Definition st_q : key := [98; 0; 1].
Definition st_seg := Seg (SAdd [(st_k, 1); (st_k, 4)]) [HGet st_q; HIns st_k [9]] true.
Definition selftest_good : case :=
  mk [(st_q, [7])] [st_k; st_q] [st_seg]
     [SegO true [None; Some [7]]
        [SO (IErr 1) 0 0 [None; Some [7]]; SO (IErr 1) 0 0 [None; Some [7]]]
        [] [] [] 0].
Definition selftest_bad : case :=
  mk [(st_q, [7])] [st_k; st_q] [st_seg]
     [SegO true [None; Some [7]]
        [SO (IVal [7]) 0 0 [None; Some [7]]; SO (IErr 1) 0 0 [None; Some [7]]]
        [] [] [] 0].
