(* C18, chain-index part: "If the node stops abruptly at any point while accepting blocks ... restarting it succeeds".
   One case = the real chainindex.ChainIndex, blocks 0..j-1 accepted, then UpdateLastAccepted(j) interrupted
   immediately before its k-th durable write (k = 0: not interrupted), then the index reopened on the same database.
   Required: it opens, its last accepted height is known and is j-1 or j (j when nothing interrupted the update),
   that block is retrievable with consistent height <-> id mappings, and the next block can be recorded.
   No model is involved: check_case and spec_ok are the same statement on the implementation's observations
   (the pipeline above the index -- queue, state commit, notifications -- is Model/AcceptPipeline.v). *)
From Coq Require Import List NArith Bool.
Import ListNotations.
From HV Require Import Lib.Harness.
Local Open Scope N_scope.

Record case := mkI {
  i_w : N; i_j : N; i_k : N;
  i_crashed : bool; i_reopen_ok : bool; i_last_known : bool; i_last : N;
  i_found : bool; i_consistent : bool; i_next_ok : bool }.

Definition index_recovers (c : case) : bool :=
  i_reopen_ok c && i_last_known c && i_found c && i_consistent c && i_next_ok c
  && (if i_crashed c then (i_last c =? i_j c - 1) || (i_last c =? i_j c) else i_last c =? i_j c).

Definition check_case : case -> bool := index_recovers.
Definition spec_ok : case -> bool := index_recovers.
