(* Correspondence + executable property oracle for C37 (DSMR chunk certificate replay protection). *)
From Coq Require Import List NArith ZArith Bool.
Import ListNotations.
From HV Require Import Lib.Harness Model.ValidityWindow Model.DsmrVerify.
Local Open Scope Z_scope.

(* one scenario: block tree over chunk certificates, window, certificates initially pending in the
   node's storage, node calls and what the real dsmr.Node answered *)
Record case := mk { c_W : Z; c_blocks : list block; c_genesis : N; c_pending : list item;
                    c_ops : list dop; c_outs : list dout }.

Definition list_eqb {A} (eq : A -> A -> bool) : list A -> list A -> bool :=
  fix go l1 l2 := match l1, l2 with
                  | [], [] => true
                  | x :: l1', y :: l2' => eq x y && go l1' l2'
                  | _, _ => false
                  end.

Definition dout_eqb (a b : dout) : bool :=
  match a, b with
  | DOutV x, DOutV y => N.eqb x y
  | DOutA x, DOutA y => N.eqb x y
  | DOutB c l v, DOutB c' l' v' => N.eqb c c' && list_eqb N.eqb l l' && N.eqb v v'
  | DOutBad, DOutBad => true
  | _, _ => false
  end.

Definition model_outs (c : case) : list dout :=
  let tree := tree_of (c_blocks c) in
  match tree (c_genesis c) with
  | Some g => drun tree (c_W c) (dsys0 tree (c_W c) g (c_pending c)) (c_ops c)
  | None => []
  end.

Definition check_case (c : case) : bool := list_eqb dout_eqb (model_outs c) (c_outs c).

(* hypotheses on the tree (NOT including the validity interval of certificates: Verify itself has
   to enforce it): ids/heights consistent, timestamps non-negative and non-decreasing, a chunk id
   determines its expiry *)
Definition block_okb (tree : index) (g : N) (all : list block) (b : block) : bool :=
  (if N.eqb (b_id b) g then (b_height b =? 0)%N && is_nil (b_items b)
   else negb (b_height b =? 0)%N &&
        match tree (b_parent b) with
        | Some p => (b_height b =? N.succ (b_height p))%N && (b_ts p <=? b_ts b)
        | None => false
        end)
  && (0 <=? b_ts b)
  && forallb (fun it => forallb (fun b' => forallb (fun it' =>
        negb (N.eqb (fst it) (fst it')) || (snd it =? snd it')) (b_items b')) all) (b_items b)
  && match tree (b_id b) with
     | Some b' => N.eqb (b_parent b') (b_parent b) && (b_height b' =? b_height b)%N && (b_ts b' =? b_ts b)
                  && list_eqb (fun x y => N.eqb (fst x) (fst y) && (snd x =? snd y)) (b_items b') (b_items b)
     | None => false
     end.

Definition tree_okb (c : case) : bool :=
  forallb (block_okb (tree_of (c_blocks c)) (c_genesis c) (c_blocks c)) (c_blocks c).

(* every block on the path to genesis keeps its certificates inside [ts, ts + W] *)
Fixpoint path_interval (tree : index) (W : Z) (fuel : nat) (b : block) : bool :=
  forallb (fun it => (b_ts b <=? snd it) && (snd it <=? b_ts b + W)) (b_items b) &&
  match fuel with
  | O => true
  | S f => if (b_height b =? 0)%N then true
           else match tree (b_parent b) with
                | Some p => path_interval tree W f p
                | None => true
                end
  end.

Definition goodb (tree : index) (W : Z) (v : N) : bool :=
  cleanb tree v &&
  match tree v with Some b => path_interval tree W (fuel_of b) b | None => false end.

(* the property on the implementation's outputs.  The calls are replayed against the engine
   contract (with the implementation's own answers); while it is respected:
   - every block Verify accepted has, along its path to genesis, no chunk id twice and no
     certificate outside [block ts, block ts + W] (in particular none with expiry < block ts);
   - every block BuildBlock produced on a verified parent contains only certificates inside the
     interval and not referenced by any ancestor, and Verify accepts it;
   - Accept never fails.                                                                       *)
Fixpoint spec_go (tree : index) (W : Z) (e : eng) (ops : list dop) (outs : list dout) : bool :=
  match ops, outs with
  | DVerify b :: ops', DOutV c :: outs' =>
      match eng_step tree e (OVerify b) (OutV c) with
      | Some e' => (negb (N.eqb c 0) || goodb tree W b) && spec_go tree W e' ops' outs'
      | None => true
      end
  | DAccept b :: ops', DOutA c :: outs' =>
      if N.eqb c 2 then spec_go tree W e ops' outs'
      else match eng_step tree e (OAccept b) OutUnit with
           | Some e' => N.eqb c 0 && spec_go tree W e' ops' outs'
           | None => true
           end
  | DBuild p ts :: ops', DOutB c certs vc :: outs' =>
      if (mem p (e_verified e) || N.eqb p (e_last e)) && is_anc tree (anc_fuel tree p) (e_last e) p
      then (negb (N.eqb c 0) ||
            match tree p with
            | Some pb =>
                N.eqb vc 0 &&
                forallb (fun x => negb (mem x (chain_ids tree (fuel_of pb) pb))) certs
            | None => false
            end) && spec_go tree W e ops' outs'
      else true
  | [], [] => true
  | _, _ => true
  end.

(* expiries of the certificates a build returned are looked up in the pending list *)
Definition build_interval_ok (c : case) : bool :=
  forallb (fun oo =>
    match oo with
    | (DBuild _ ts, DOutB 0%N certs _) =>
        forallb (fun x => match find (fun it => N.eqb (fst it) x) (c_pending c) with
                          | Some it => (ts <=? snd it) && (snd it <=? ts + c_W c)
                          | None => false
                          end) certs
    | _ => true
    end) (combine (c_ops c) (c_outs c)).

Definition spec_ok (c : case) : bool :=
  let tree := tree_of (c_blocks c) in
  if tree_okb c then
    spec_go tree (c_W c) (eng0 (c_genesis c)) (c_ops c) (c_outs c) && build_interval_ok c
  else true.

(* comparator self-test: chunk 7 (expiry 3) included at block 1 and again at block 2 *)
Definition st_blocks : list block :=
  [ mkB 0 99 0 0 []; mkB 1 0 1 1 [(7%N, 3)]; mkB 2 1 2 2 [(7%N, 3)] ].
Definition selftest_good : case :=
  mk 5 st_blocks 0%N [(7%N, 3)] [DVerify 1; DVerify 2; DAccept 1; DVerify 2]
     [DOutV 0; DOutV 1; DOutA 0; DOutV 1].
Definition selftest_bad : case :=
  mk 5 st_blocks 0%N [(7%N, 3)] [DVerify 1; DVerify 2; DAccept 1; DVerify 2]
     [DOutV 0; DOutV 1; DOutA 0; DOutV 0].
