(* Correspondence + executable property oracle for C16.
   Items are instantiated to [bool] (the validity of the signature, decided by how the driver built it)
   and [verify] to the identity. *)
From Coq Require Import List NArith Bool.
Import ListNotations.
From HV Require Import Lib.Harness Model.AuthBatch.
Local Open Scope N_scope.

Definition vid (b : bool) : bool := b.

(* Three layers of the real code:
   CEd : auth.ED25519AuthEngine.GetBatchVerifier(cores,count) driven directly: per Add the returned job
         (None = nil) run at once (Some ok), then the jobs of Done.
   CAb : chain.AuthBatch with real engines and real workers (cores = job.Workers()); [ed_batched] = the
         engines contain the ed25519 batch engine; observed: number of job.Go calls, Wait error
         (0 nil, 1 error, 2 hang).
   CEx : chain.Processor.Execute on a block (auth.DefaultEngines); res: 0 ok, 1 error wrapping
         crypto.ErrInvalidSignature, 2 any other error, 3 hang. *)
Inductive case : Type :=
| CEd (cores count : N) (valid : list bool) (adds : list (option bool)) (done : list bool)
| CAb (cores : N) (ed_batched : bool) (blk : list (N * bool)) (ngo : N) (err : N)
| CEx (cores : N) (blk : list (N * bool)) (res : N).

Definition obool_eqb (a b : option bool) : bool :=
  match a, b with
  | None, None => true
  | Some x, Some y => Bool.eqb x y
  | _, _ => false
  end.

Fixpoint list_eqb {A} (e : A -> A -> bool) (a b : list A) : bool :=
  match a, b with
  | [], [] => true
  | x :: a', y :: b' => e x y && list_eqb e a' b'
  | _, _ => false
  end.

Definition batched_of (ed_batched : bool) (t : N) : bool := ed_batched && (t =? 0).

Definition all_valid (blk : list (N * bool)) : bool := forallb (fun x => snd x) blk.

(* model = implementation *)
Definition check_case (c : case) : bool :=
  match c with
  | CEd cores count valid adds done =>
      let '(st, os) := ed_adds (ed_new cores count) valid in
      list_eqb obool_eqb (map (option_map (batch_verify vid)) os) adds &&
      list_eqb Bool.eqb (map (batch_verify vid) (ed_done st)) done
  | CAb cores edb blk ngo err =>
      let js := auth_batch_jobs (batched_of edb) cores blk in
      (N.of_nat (length js) =? ngo) &&
      (err =? (if forallb (run_job vid) js then 0 else 1))
  | CEx cores blk res =>
      let js := auth_batch_jobs (batched_of true) cores blk in
      res =? (if serial_wait vid js then 1 else 0)
  end.

Fixpoint obools (l : list (option bool)) : list bool :=
  match l with
  | [] => []
  | Some b :: r => b :: obools r
  | None :: r => obools r
  end.

(* the property on the implementation's outputs: the signature check fails iff some signature of the
   block is invalid (for the bare batch verifier: when it was created with the true count, as
   NewExecutionBlock does) *)
Definition spec_ok (c : case) : bool :=
  match c with
  | CEd cores count valid adds done =>
      if (count =? N.of_nat (length valid)) && (1 <=? cores) then
        Bool.eqb (forallb vid (obools adds) && forallb vid done) (forallb vid valid)
      else true
  | CAb cores edb blk ngo err => err =? (if all_valid blk then 0 else 1)
  | CEx cores blk res => res =? (if all_valid blk then 0 else 1)
  end.

(* comparator self-test: 8 ed25519 signatures, 2 cores: batch size 4, jobs after the 4th and the 8th Add,
   Done returns the second batch again *)
Definition selftest_good : case :=
  CEd 2 8 [true;true;true;true;true;true;false;true]
      [None;None;None;Some true;None;None;None;Some false] [false].
Definition selftest_bad : case :=
  CEd 2 8 [true;true;true;true;true;true;false;true]
      [None;None;None;Some true;None;None;None;Some false] [].
