(* C24 (fetcher part) — outcome validation + executable property oracle for internal/fetcher.

   A case is one scenario run on the real fetcher.Fetcher over a recording parent view: the parent
   state, the failing key, the Fetch calls that were made (id, key list, returned error), every Get
   call (id, returned error or map), the keys requested from the parent in the order of the GetValue
   calls, whether Stop was called, what Wait returned.  The Go schedule is not controlled: everything
   below holds for EVERY run of the unchanged code.

   [check_case]  the observed outcome is an outcome of the model (Model/Fetcher.v):
     - when no fault can occur (no Stop, the failing key is listed by nobody) the outcome of the LTS is
       schedule independent (Props/C24.v: C24_fetcher_each_key_once, C24_fetcher_get_values,
       C24_fetcher_no_lost_wakeup), so the LTS is run under its deterministic scheduler [drive] on the
       same calls and reads (as a set), Fetch / Get / Wait results are compared one by one;
     - otherwise the run of the LTS must complete without panic and each observed result must be one the
       theorems allow: a Get map is the model's [get_map] of the tx's keys and the tx does not list the
       failing key, an error is the single sticky error (the one Wait returns), ErrStopped needs a Stop
       call, the read error needs the failing key among the parent reads, reads are duplicate free
       and listed.
   [spec_ok]  the property text on the implementation's outputs, written without the model. *)
From stdpp Require Import gmap.
From Coq Require Import NArith ZArith Bool.
From HV Require Import Lib.Bytes Lib.Harness Model.Keys Model.Fetcher.
Local Open Scope N_scope.

Record fcall := mkF { f_id : N; f_keys : list (list N); f_ret : N }.   (* 0 nil, 1 ErrStopped, 2 read error *)
Record gcall := mkG { g_id : N; g_code : N; g_map : list (list N * list N) }.
  (* 0 map, 1 ErrStopped, 2 read error, 3 ErrMissingTx, 9 anything else *)

Record case := mk {
  c_par : list (list N * list N);
  c_failk : option (list N);
  c_w : nat;
  c_capn : nat;
  c_stopped : bool;
  c_fetches : list fcall;
  c_gets : list gcall;
  c_reads : list (list N);
  c_wait : N;
  c_hang : bool }.

Definition mem (k : list N) (l : list (list N)) : bool := existsb (bytes_eqb k) l.
Fixpoint no_dup (l : list (list N)) : bool :=
  match l with [] => true | x :: l' => negb (mem x l') && no_dup l' end.
Definition subset (a b : list (list N)) : bool := forallb (fun k => mem k b) a.
Definition same_set (a b : list (list N)) : bool := subset a b && subset b a.

Definition all_keys (c : case) : list (list N) := flat_map f_keys (c_fetches c).
Definition fails (c : case) (k : list N) : bool :=
  match c_failk c with Some f => bytes_eqb f k | None => false end.
Definition keys_of (c : case) (t : N) : option (list (list N)) :=
  match find (fun f => N.eqb (f_id f) t) (c_fetches c) with Some f => Some (f_keys f) | None => None end.
Definition ids_distinct (c : case) : bool :=
  (fix nd (l : list N) := match l with [] => true | x :: l' => negb (existsb (N.eqb x) l') && nd l' end)
    (map f_id (c_fetches c)).

(* can a fault occur at all? *)
Definition faulty (c : case) : bool := c_stopped c || existsb (fails c) (all_keys c).

(* ---------------------------------------------------------------------------------- model side *)
Definition cfg_of (c : case) : cfg :=
  mkC (list_to_map (c_par c)) (c_failk c) (Nat.max 1 (c_w c)) (Nat.max 1 (c_capn c)).

Definition fuel_of (c : case) : nat :=
  16 + 8 * (length (all_keys c) + length (c_fetches c) + length (c_gets c) + c_w c).

Definition bind {A B} (o : option A) (f : A -> option B) : option B :=
  match o with Some x => f x | None => None end.

Fixpoint run_fetches (cf : cfg) (n ng fuel : nat) (i : nat) (fs : list fcall) (s : state) : option state :=
  match fs with
  | [] => Some s
  | f :: fs' =>
      bind (step cf s (LFetch i (f_id f) (f_keys f)))
           (fun s' => run_fetches cf n ng fuel (S i) fs' (drive cf n ng fuel s'))
  end.
Fixpoint run_gets (cf : cfg) (n ng fuel : nat) (g : nat) (gs : list gcall) (s : state) : option state :=
  match gs with
  | [] => Some s
  | x :: gs' =>
      bind (step cf s (LGetBegin g (g_id x)))
           (fun s' => run_gets cf n ng fuel (S g) gs' (drive cf n ng fuel s'))
  end.

(* the canonical run: every Fetch, every Get, [stop], Wait *)
Definition canon (c : case) : option state :=
  let cf := cfg_of c in
  let n := length (c_fetches c) in
  let ng := length (c_gets c) in
  let fuel := fuel_of c in
  bind (run_fetches cf n ng fuel 0 (c_fetches c) (init cf)) (fun s1 =>
  bind (run_gets cf n ng fuel 0 (c_gets c) s1) (fun s2 =>
  bind (if c_stopped c then
          match step cf s2 LStop with Some s => Some (drive cf n ng fuel s) | None => Some s2 end
        else Some s2) (fun s3 =>
  bind (step cf s3 LWaitClose) (fun s4 =>
  step cf (drive cf n ng fuel s4) LWaitRet)))).

Definition ecode_N (e : option ecode) : N :=
  match e with None => 0 | Some EStopped => 1 | Some ERead => 2 end.

Definition map_matches (m : gmap (list N) (list N)) (obs : list (list N * list N)) : bool :=
  no_dup (map fst obs) && Nat.eqb (size m) (length obs) &&
  forallb (fun kv => match m !! fst kv with Some v => bytes_eqb v (snd kv) | None => false end) obs.

Definition gres_matches (r : gres) (g : gcall) : bool :=
  match r with
  | GMap m => N.eqb (g_code g) 0 && map_matches m (g_map g)
  | GErr e => N.eqb (g_code g) (ecode_N e) && negb (N.eqb (g_code g) 0)
  | GMissing => N.eqb (g_code g) 3
  end.

Fixpoint all2 {A B} (f : A -> B -> bool) (a : list A) (b : list B) : bool :=
  match a, b with
  | [], [] => true
  | x :: a', y :: b' => f x y && all2 f a' b'
  | _, _ => false
  end.

Definition fetch_rets (s : state) : list (nat * option ecode) :=
  rev (omap (fun e => match e with EvFetchRet i r => Some (i, r) | _ => None end) (log s)).
Definition wait_rets (s : state) : list (option ecode) :=
  omap (fun e => match e with EvWaitRet r => Some r | _ => None end) (log s).

(* exact comparison with the LTS run (no fault possible) *)
Definition exact_match (c : case) (s : state) : bool :=
  negb (broken s) && negb (dupid s) &&
  same_set (reads s) (c_reads c) && no_dup (c_reads c) && no_dup (reads s) &&
  all2 (fun x g => gres_matches (snd x) g) (get_results s) (c_gets c) &&
  all2 (fun x f => N.eqb (ecode_N (snd x)) (f_ret f)) (fetch_rets s) (c_fetches c) &&
  match wait_rets s with [r] => N.eqb (ecode_N r) (c_wait c) | _ => false end.

(* an outcome the theorems allow when a fault is possible *)
Definition get_allowed (c : case) (g : gcall) : bool :=
  match g_code g with
  | 0 => match keys_of c (g_id g) with
         | Some ks => negb (existsb (fails c) ks) &&
                      map_matches (get_map (c_parent (cfg_of c)) ks) (g_map g)
         | None => false
         end
  | 1 => c_stopped c && N.eqb (c_wait c) 1
  | 2 => existsb (fails c) (c_reads c) && N.eqb (c_wait c) 2
  | 3 => match find (fun f => N.eqb (f_id f) (g_id g)) (c_fetches c) with
         | Some f => negb (N.eqb (f_ret f) 0)     (* refused (or not called at all) *)
         | None => true
         end
  | _ => false
  end.

Definition faulty_match (c : case) (s : state) : bool :=
  negb (broken s) && negb (dupid s) &&
  no_dup (c_reads c) && subset (c_reads c) (all_keys c) &&
  forallb (get_allowed c) (c_gets c) &&
  forallb (fun f => match f_ret f with
                    | 0 => true
                    | 1 => c_stopped c && N.eqb (c_wait c) 1
                    | 2 => existsb (fails c) (c_reads c) && N.eqb (c_wait c) 2
                    | _ => false
                    end) (c_fetches c) &&
  match c_wait c with
  | 0 => false                           (* see below *)
  | 1 => c_stopped c
  | 2 => existsb (fails c) (c_reads c)
  | _ => false
  end.

(* [0 => false] above: in a scenario where a fault is possible Wait cannot return nil.  Stop sets the error
   (or finds one) before Wait is called; without Stop every listed key is read before the workers exit
   (they drain the closed channel), so a listed failing key is read and its error recorded. *)

Definition check_case (c : case) : bool :=
  negb (c_hang c) && ids_distinct c &&
  match canon c with
  | None => false
  | Some s => if faulty c then faulty_match c s else exact_match c s
  end.

(* ------------------------------------------------------------------------------ property side *)
Definition plookup (par : list (list N * list N)) (k : list N) : option (list N) :=
  match find (fun kv => bytes_eqb (fst kv) k) par with Some kv => Some (snd kv) | None => None end.

(* the map is exactly the parent's entries of the listed keys *)
Definition map_is_parent (par : list (list N * list N)) (ks : list (list N)) (obs : list (list N * list N)) : bool :=
  no_dup (map fst obs) &&
  forallb (fun kv => mem (fst kv) ks &&
                     match plookup par (fst kv) with Some v => bytes_eqb v (snd kv) | None => false end) obs &&
  forallb (fun k => match plookup par k with Some _ => mem k (map fst obs) | None => true end) ks.

Definition err_ok (c : case) (code : N) : bool :=
  match code with
  | 1 => c_stopped c
  | 2 => existsb (fails c) (c_reads c)      (* a read error was really produced by the parent *)
  | _ => false
  end && N.eqb (c_wait c) code.              (* one sticky error: the one Wait reports *)

Definition spec_ok (c : case) : bool :=
  negb (c_hang c) &&
  (* only listed keys are requested, each at most once *)
  no_dup (c_reads c) && subset (c_reads c) (all_keys c) &&
  (* every Get: exactly the parent's value or absence for each listed key; a failing read is never absence *)
  forallb (fun g =>
    match g_code g with
    | 0 => match keys_of c (g_id g) with
           | Some ks => negb (existsb (fails c) ks) && map_is_parent (c_par c) ks (g_map g)
           | None => false
           end
    | 3 => match find (fun f => N.eqb (f_id f) (g_id g)) (c_fetches c) with
           | Some f => negb (N.eqb (f_ret f) 0)
           | None => true
           end
    | code => err_ok c code
    end) (c_gets c) &&
  forallb (fun f => N.eqb (f_ret f) 0 || err_ok c (f_ret f)) (c_fetches c) &&
  (N.eqb (c_wait c) 0 || err_ok c (c_wait c)) &&
  (* without Stop: all listed keys are requested unless a read failed, and a failed read fails Wait *)
  (c_stopped c ||
   if existsb (fails c) (all_keys c) then N.eqb (c_wait c) 2
   else N.eqb (c_wait c) 0 && subset (all_keys c) (c_reads c) &&
        forallb (fun f => N.eqb (f_ret f) 0) (c_fetches c) &&
        forallb (fun g => N.eqb (g_code g) 0 || N.eqb (g_code g) 3) (c_gets c)).
