(* Correspondence + executable property oracle for C13 (fee market rule, window, byte layout). *)
From Coq Require Import List NArith ZArith Bool.
Import ListNotations.
From HV Require Import Lib.U64 Lib.Harness Model.Fees.
Local Open Scope N_scope.

(* one operation on a Manager, with what the implementation returned *)
Inductive mop :=
| OSetPrice (k : nat) (p : N)
| OSetLast (k : nat) (c : N)
| OConsume (d l : dims) (impl_ok : bool) (impl_dim : N)
| ONext (currTime : Z) (targets denoms mins : dims).

Inductive case :=
(* computeNextPriceWindow(previous, previousConsumed, previousPrice, target, changeDenom, minPrice, since) *)
| CNext (w : window) (consumed price target denom minp since : N) (impl_price : N) (impl_w : window)
(* same call on two windows/consumptions, all other arguments equal (monotonicity pairs) *)
| CMono (w1 : window) (c1 : N) (w2 : window) (c2 : N) (price target denom minp since : N) (impl_p1 impl_p2 : N)
(* window.Roll(w, r), window.Sum(w), window.Update(&w, slot*8, v), window.Last(&w) *)
| CWin (w : window) (r : N) (slot : nat) (v : N)
       (impl_roll : window) (impl_sum : N) (impl_upd : window) (impl_last : N)
(* NewManager(raw); ops; then Bytes(), and on NewManager(Bytes()): UnitPrices, UnitsConsumed, Window(i),
   plus the timestamp read back by the harness, and Fee(fee_in).
   Byte strings are transported as (length, big-endian uint64 words, zero padded) and expanded with
   [words_bytes]. *)
| CMgr (raw_len : nat) (raw_words : list N) (ops : list mop) (impl_len : nat) (impl_words : list N) (impl_ts : N)
       (impl_prices impl_lasts : dims) (impl_windows : list window) (fee_in : dims) (impl_fee : option N).

Definition words_bytes (len : nat) (ws : list N) : list N := firstn len (flat_map be64 ws).

Definition list_eqb (a b : list N) : bool :=
  Nat.eqb (length a) (length b) && forallb (fun '(x, y) => N.eqb x y) (combine a b).
Definition olist_eqb (a b : option N) : bool :=
  match a, b with Some x, Some y => N.eqb x y | None, None => true | _, _ => false end.
Fixpoint lists_eqb (a b : list (list N)) : bool :=
  match a, b with
  | [], [] => true
  | x :: a', y :: b' => list_eqb x y && lists_eqb a' b'
  | _, _ => false
  end.

(* ------------------------------------------------------------------ model = implementation *)
Fixpoint run_ops (m : manager) (ops : list mop) : manager * bool :=
  match ops with
  | [] => (m, true)
  | OSetPrice k p :: r => run_ops (set_unit_price m k p) r
  | OSetLast k c :: r => run_ops (set_last_consumed m k c) r
  | OConsume d l iok idim :: r =>
      let '(ok, k, m') := consume m d l in
      let '(m'', good) := run_ops m' r in
      (m'', Bool.eqb ok iok && N.eqb (N.of_nat k) idim && good)
  | ONext t tg dn mn :: r => run_ops (compute_next m t tg dn mn) r
  end.

Definition check_case (c : case) : bool :=
  match c with
  | CNext w consumed price target denom minp since ip iw =>
      let '(p, w') := compute_next_price_window w consumed price target denom minp since in
      N.eqb p ip && list_eqb w' iw
  | CMono w1 c1 w2 c2 price target denom minp since ip1 ip2 =>
      N.eqb (fst (compute_next_price_window w1 c1 price target denom minp since)) ip1 &&
      N.eqb (fst (compute_next_price_window w2 c2 price target denom minp since)) ip2
  | CWin w r slot v iroll isum iupd ilast =>
      list_eqb (roll w r) iroll && N.eqb (wsum w) isum && list_eqb (wupdate w slot v) iupd &&
      N.eqb (wlast w) ilast
  | CMgr rlen rnum ops ilen inum its iprices ilasts iwins fin ifee =>
      let raw := words_bytes rlen rnum in
      let iraw := words_bytes ilen inum in
      match decode raw with
      | None => false
      | Some m0 =>
          let '(m, good) := run_ops m0 ops in
          good && list_eqb (encode m) iraw && N.eqb (m_ts m) its &&
          list_eqb (unit_prices m) iprices && list_eqb (units_consumed m) ilasts &&
          lists_eqb (map (m_window m) idx5) iwins && olist_eqb (fee m fin) ifee
      end
  end.

(* ------------------------------------------------------------------ the property, on the implementation's
   outputs, written without the model's functions: index-based window shift, sums in N with a final min,
   the price rule in Z. *)
Definition MaxZ : Z := 18446744073709551615%Z.

(* window after [since] seconds: slot i <- old slot i+since (0 beyond the end); the parent's consumption is
   added (saturating) at slot 9-since when since < 10 *)
Definition spec_window (w : window) (consumed since : N) : window :=
  map (fun i : nat =>
         let j := N.of_nat i + since in
         let shifted := if j <? 10 then nth (N.to_nat j) w 0 else 0 in
         if (since <? 10) && N.eqb (N.of_nat i) (9 - since)
         then N.min MaxU64 (shifted + consumed) else shifted)
      (seq 0 10).
Definition spec_total (w : window) : N := N.min MaxU64 (fold_right N.add 0 w).

Definition spec_amount (prev delta target denom : Z) : Z :=
  Z.max 1 (Z.min MaxZ (prev * delta / target) / denom).
Definition spec_price (total prev target denom minp since : Z) : Z :=
  let raw :=
    if (total >? target)%Z then Z.min MaxZ (prev + spec_amount prev (total - target) target denom)
    else if (total <? target)%Z then
      let a := spec_amount prev (target - total) target denom in
      let a := if (since >? 10)%Z then Z.min MaxZ (a * (since / 10)) else a in
      Z.max 0 (prev - a)
    else prev in
  Z.max minp raw.

Definition price_ok (w : window) (consumed price target denom minp since impl_price : N) : bool :=
  let total := spec_total (spec_window w consumed since) in
  (* the exact rule needs target > 0 and denom > 0 (the Go code divides by them) *)
  (if (0 <? target) && (0 <? denom) then
     Z.eqb (Z.of_N impl_price)
           (spec_price (Z.of_N total) (Z.of_N price) (Z.of_N target) (Z.of_N denom) (Z.of_N minp) (Z.of_N since))
   else true) &&
  (* floor *)
  (minp <=? impl_price) &&
  (* direction *)
  (if target <? total then (price <=? impl_price) && ((price <? impl_price) || N.eqb price MaxU64)
   else if total <? target then
     (if minp <? price then impl_price <? price else N.eqb impl_price minp)
   else N.eqb impl_price (N.max minp price)).

(* byte layout: value at a fixed offset *)
Definition word_at (raw : list N) (off : nat) : N := be_dec (firstn 8 (skipn off raw)).
Definition spec_price_at (raw : list N) (k : nat) : N := word_at raw (8 + 96 * k).
Definition spec_window_at (raw : list N) (k : nat) : window :=
  map (fun i => word_at raw (8 + 96 * k + 8 + 8 * i)) (seq 0 10).
Definition spec_last_at (raw : list N) (k : nat) : N := word_at raw (8 + 96 * k + 88).

Definition spec_ok (c : case) : bool :=
  match c with
  | CNext w consumed price target denom minp since ip iw =>
      list_eqb iw (spec_window w consumed since) && price_ok w consumed price target denom minp since ip
  | CMono w1 c1 w2 c2 price target denom minp since ip1 ip2 =>
      let t1 := spec_total (spec_window w1 c1 since) in
      let t2 := spec_total (spec_window w2 c2 since) in
      (if t1 <=? t2 then ip1 <=? ip2 else ip2 <=? ip1)
  | CWin w r slot v iroll isum iupd ilast =>
      list_eqb iroll (map (fun i : nat => let j := N.of_nat i + r in if j <? 10 then nth (N.to_nat j) w 0 else 0) (seq 0 10)) &&
      N.eqb isum (spec_total w) &&
      list_eqb iupd (map (fun i : nat => if Nat.eqb i slot then N.min MaxU64 (nth i w 0 + v) else nth i w 0) (seq 0 10)) &&
      N.eqb ilast (nth 9 w 0)
  | CMgr rlen rnum ops ilen inum its iprices ilasts iwins fin ifee =>
      let iraw := words_bytes ilen inum in
      (* the encoded state decodes to the same prices, windows and consumption *)
      Nat.eqb (length iraw) 488 &&
      N.eqb its (word_at iraw 0) &&
      list_eqb iprices (map (spec_price_at iraw) idx5) &&
      list_eqb ilasts (map (spec_last_at iraw) idx5) &&
      lists_eqb iwins (map (spec_window_at iraw) idx5)
  end.

(* self test of the comparator *)
Definition selftest_good : case :=
  CNext [0;0;0;0;0;0;0;0;0;0] 2000 100 1000 48 100 1 102 [0;0;0;0;0;0;0;0;2000;0].
Definition selftest_bad : case :=
  CNext [0;0;0;0;0;0;0;0;0;0] 2000 100 1000 48 100 1 101 [0;0;0;0;0;0;0;0;2000;0].
