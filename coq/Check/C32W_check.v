(* C32, connection half (pubsub/connection.go writePump): what the peer receives.  One case = a burst of accepted
   messages through the real Server + Connection over a websocket; every frame is one emitted batch.  Required: the
   largest frame is within the configured maximum size, every frame decodes, the messages arrive once and in order,
   and all of them arrive (the queue is never full in these runs).  No model involved (the buffer is Model/MsgBuffer.v):
   check_case = spec_ok. *)
From Coq Require Import List NArith Bool.
Import ListNotations.
From HV Require Import Lib.Harness.
Local Open Scope N_scope.

Record case := mkW { w_max : N; w_max_frame : N; w_decode : bool; w_order : bool; w_all : bool }.

Definition frames_ok (c : case) : bool :=
  (w_max_frame c <=? w_max c) && w_decode c && w_order c && w_all c.

Definition check_case : case -> bool := frames_ok.
Definition spec_ok : case -> bool := frames_ok.
