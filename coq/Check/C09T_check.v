(* C09, expiry-interval side: the no-repeat theorem (Props/C09.v) has the hypothesis [interval_ok]: every included item
   satisfies  block timestamp <= expiry <= block timestamp + W  (the lower bound is what makes the exact-millisecond
   eviction of the accepted set safe).  In the code that is validitywindow.VerifyTimestamp / Base.Execute / PreExecute.
   The cases are those of the C10 driver (Check/C10_check.v); only this clause is evaluated here: whenever the real
   check accepts (kinds 0..2: VerifyTimestamp, Base.Execute, Transaction.PreExecute at one timestamp), the expiry lies
   in [t, t + W].  Alignment, chain id, action counts and activation ranges are property C10's business alone. *)
From Coq Require Import List NArith ZArith Bool.
Import ListNotations.
From HV Require Export Check.C10_check.
Local Open Scope Z_scope.

Definition accepted_inside_interval (c : case) : bool :=
  match c_kind c with
  | 3%N => true
  | _ =>
      (* only where the Go arithmetic is the mathematical one: t + W does not wrap int64 and the window is not
         negative (the unrestricted statement with wrap-around is C10's) *)
      if fits64 (c_t c + c_W c) && (0 <=? c_W c)
      then negb (N.eqb (c_impl c) 0) || ((c_t c <=? c_e c) && (c_e c <=? c_t c + c_W c))
      else true
  end.

Definition check_case : case -> bool := accepted_inside_interval.
Definition spec_ok : case -> bool := accepted_inside_interval.
