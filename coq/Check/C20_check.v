(* Correspondence + executable property oracle for C20 (consensus wrapper block lifecycle). *)
From Coq Require Import List NArith Bool.
Import ListNotations.
From HV Require Import Lib.Harness Model.Snow.
Local Open Scope N_scope.

Record case := mk {
  k_cfg : cfg;
  k_Q : N;                                (* bound on accepted-but-unprocessed blocks used by the walk *)
  k_init : list event;                    (* callbacks observed during VM.Initialize *)
  k_ops : list op;                        (* engine calls *)
  k_obs : list (res * list event);        (* what the implementation answered / which callbacks it made *)
  k_built_clause : bool                   (* this case checks only the built-block clause (F-21) *)
}.

(* ---- decidable equality on observations *)
Definition eqb_optN (a b : option N) : bool :=
  match a, b with Some x, Some y => x =? y | None, None => true | _, _ => false end.
Definition eqb_bref (a b : bref) : bool :=
  match a, b with BH x, BH y => x =? y | BE x, BE y => x =? y | _, _ => false end.
Definition eqb_event (a b : event) : bool :=
  match a, b with
  | EParse x, EParse y => x =? y
  | EBuild p x, EBuild q y => (p =? q) && (x =? y)
  | EBuildNil, EBuildNil => true
  | EVerify p x o, EVerify q y o' => (p =? q) && (x =? y) && Bool.eqb o o'
  | EAccept p x, EAccept q y => eqb_optN p q && (x =? y)
  | EIndex x, EIndex y => x =? y
  | NVerified x, NVerified y => x =? y
  | NAccepted x, NAccepted y => x =? y
  | NRejected x, NRejected y => x =? y
  | NPreAccepted x, NPreAccepted y => x =? y
  | NPreRejected x, NPreRejected y => x =? y
  | _, _ => false
  end.
Definition eqb_res (a b : res) : bool :=
  match a, b with
  | RUnit, RUnit => true
  | RErr x, RErr y => x =? y
  | RBlk r i v ac, RBlk r' i' v' ac' => eqb_bref r r' && (i =? i') && Bool.eqb v v' && Bool.eqb ac ac'
  | RId x, RId y => x =? y
  | RHealth r u h, RHealth r' u' h' => Bool.eqb r r' && eqb_optN u u' && Bool.eqb h h'
  | _, _ => false
  end.
Fixpoint eqb_list {A} (f : A -> A -> bool) (a b : list A) : bool :=
  match a, b with
  | [], [] => true
  | x :: a', y :: b' => f x y && eqb_list f a' b'
  | _, _ => false
  end.
Definition eqb_obs (a b : res * list event) : bool :=
  eqb_res (fst a) (fst b) && eqb_list eqb_event (snd a) (snd b).

(* model = implementation, op by op; and the walk obeys the engine contract *)
Definition check_case (c : case) : bool :=
  eqb_list eqb_event (init_events (k_cfg c)) (k_init c)
  && eqb_list eqb_obs (run_obs (k_cfg c) (init_state (k_cfg c)) (k_ops c)) (k_obs c)
  && engine_ok (k_cfg c) (k_Q c) (k_ops c).

(* ---- the property on the implementation's outputs ------------------------------------------ *)

(* lookups answered from the accepted chain / the processing set, checked against the engine's
   own bookkeeping at the time of the call *)
Definition chain_at_height (es : estate) (k : N) : option N :=
  find (fun b => e_height es b =? k) (e_chain es).

Definition lookup_ok (es : estate) (o : op) (r : res) : bool :=
  match o with
  | OGetBlock b =>
    if memN b (e_chain es) then match r with RBlk _ b' _ _ => b' =? b | _ => false end
    else match lookup b (e_proc es) with
         | Some h => match r with RBlk (BH h') b' _ _ => (h' =? h) && (b' =? b) | _ => false end
         | None => true
         end
  | OGetIDAtHeight k =>
    match chain_at_height es k with
    | Some b => match r with RId b' => b' =? b | _ => false end
    | None => true
    end
  | OGetByHeight k =>
    match chain_at_height es k with
    | Some b => match r with RBlk _ b' _ _ => b' =? b | _ => false end
    | None => true
    end
  | OLastAccepted => match r with RId b => b =? e_last es | _ => false end
  | _ => true
  end.

Fixpoint lookups_ok (Q : N) (es : estate) (ops : list op) (obs : list (res * list event)) : bool :=
  match ops, obs with
  | o :: r, (rs, evs) :: obs' => lookup_ok es o rs && lookups_ok Q (eupd es o rs evs) r obs'
  | _, _ => true
  end.

(* chain VerifyBlock / BuildBlock only on the output of a block the chain verified, built or
   was initialised with; the verified block is a child of that parent *)
Fixpoint verify_parents_ok (es : estate) (outs : list N) (tr : list event) : bool :=
  match tr with
  | [] => true
  | EVerify p b ok :: r =>
    memN p outs && (e_parent es b =? p) && Bool.eqb ok (negb (e_invalid es b))
    && verify_parents_ok es (if ok then b :: outs else outs) r
  | EBuild p b :: r => memN p outs && (e_parent es b =? p) && verify_parents_ok es (b :: outs) r
  | EBuildNil :: _ => false
  | _ :: r => verify_parents_ok es outs r
  end.

(* the accepted sequence is a chain: each block is the child of the previous one *)
Fixpoint chain_from (es : estate) (prev : N) (l : list N) : bool :=
  match l with
  | [] => true
  | b :: r => (e_parent es b =? prev) && (e_height es b =? e_height es prev + 1) && chain_from es b r
  end.

Fixpoint nodupb (l : list N) : bool :=
  match l with [] => true | x :: r => negb (memN x r) && nodupb r end.

Definition verified_parsed (es : estate) : list N :=
  map fst (filter (fun x => negb (snd x)) (e_ver es)).

(* C20 lifecycle, evaluated on a trace and the engine's decisions (normal operation only) *)
Definition lifecycle_b (tr : list event) (es : estate) : bool :=
  verify_parents_ok es [0] tr
  (* AcceptBlock: the engine's accepted blocks, in order, once each, (all of them once the queue is drained) *)
  && eqb_listN (accepts tr) (firstn (length (accepts tr)) (e_acc es))
  && (N.of_nat (length (accepts tr)) + e_pending es =? N.of_nat (length (e_acc es)))
  && chain_from es 0 (e_acc es) && nodupb (e_acc es)
  && forallb (fun b => negb (memN b (e_rej es))) (e_acc es)
  (* notifications one-to-one with decisions *)
  && eqb_listN (naccepted tr) (0 :: accepts tr)
  && eqb_listN (nrejected tr) (e_rej es)
  && eqb_listN (nverified tr) (verified_parsed es)
  && eqb_listN (npreaccepted tr) [] && eqb_listN (nprerejected tr) [].

(* the clause refuted by F-21: every successful Verify, built blocks included, is notified *)
Definition built_clause_b (tr : list event) (es : estate) : bool :=
  eqb_listN (nverified tr) (map fst (e_ver es)).

Definition no_sync (ops : list op) : bool :=
  forallb (fun o => match o with OStartSync _ | OFinishSync _ => false | _ => true end) ops.

Definition spec_ok (c : case) : bool :=
  c_ready (k_cfg c) && no_sync (k_ops c) &&
  match erun_obs (k_Q c) (init_estate (k_cfg c)) (k_ops c) (k_obs c) with
  | None => false
  | Some es =>
    let tr := k_init c ++ concat (map snd (k_obs c)) in
    if k_built_clause c then built_clause_b tr es
    else lifecycle_b tr es && lookups_ok (k_Q c) (init_estate (k_cfg c)) (k_ops c) (k_obs c)
  end.
