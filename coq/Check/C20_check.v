(* Correspondence + executable property oracle for C20 (consensus wrapper block lifecycle), including
   verification with a P-Chain block context (VerifyWithContext / BuildBlockWithContext): the engine
   calls of a case are context-aware ops [cop] (Model/Snow.v, last section). *)
From Coq Require Import List NArith Bool.
Import ListNotations.
From HV Require Import Lib.Harness Model.Snow.
Local Open Scope N_scope.

Record case := mk {
  k_cfg : cfg;
  k_Q : N;                                (* bound on accepted-but-unprocessed blocks used by the walk *)
  k_init : list event;                    (* callbacks observed during VM.Initialize *)
  k_ops : list cop;                       (* engine calls (COp o = a call without context) *)
  k_obs : list (res * list event);        (* what the implementation answered / which callbacks it made *)
  k_built_clause : bool                   (* this case checks only the built-block clause (F-21) *)
}.

(* ---- decidable equality on observations *)
Definition eqb_optN (a b : option N) : bool :=
  match a, b with Some x, Some y => x =? y | None, None => true | _, _ => false end.
Definition eqb_bref (a b : bref) : bool :=
  match a, b with BH x, BH y => x =? y | BE x, BE y => x =? y | _, _ => false end.
Definition eqb_event (a b : event) : bool :=
  match a, b with
  | EParse x, EParse y => x =? y
  | EBuild p x, EBuild q y => (p =? q) && (x =? y)
  | EBuildNil, EBuildNil => true
  | EVerify p x o, EVerify q y o' => (p =? q) && (x =? y) && Bool.eqb o o'
  | EAccept p x, EAccept q y => eqb_optN p q && (x =? y)
  | EIndex x, EIndex y => x =? y
  | NVerified x, NVerified y => x =? y
  | NAccepted x, NAccepted y => x =? y
  | NRejected x, NRejected y => x =? y
  | NPreAccepted x, NPreAccepted y => x =? y
  | NPreRejected x, NPreRejected y => x =? y
  | _, _ => false
  end.
Definition eqb_res (a b : res) : bool :=
  match a, b with
  | RUnit, RUnit => true
  | RErr x, RErr y => x =? y
  | RBlk r i v ac, RBlk r' i' v' ac' => eqb_bref r r' && (i =? i') && Bool.eqb v v' && Bool.eqb ac ac'
  | RId x, RId y => x =? y
  | RHealth r u h, RHealth r' u' h' => Bool.eqb r r' && eqb_optN u u' && Bool.eqb h h'
  | _, _ => false
  end.
Fixpoint eqb_list {A} (f : A -> A -> bool) (a b : list A) : bool :=
  match a, b with
  | [], [] => true
  | x :: a', y :: b' => f x y && eqb_list f a' b'
  | _, _ => false
  end.
Definition eqb_obs (a b : res * list event) : bool :=
  eqb_res (fst a) (fst b) && eqb_list eqb_event (snd a) (snd b).

(* model = implementation, op by op; and the walk obeys the engine contract *)
Definition check_case (c : case) : bool :=
  eqb_list eqb_event (init_events (k_cfg c)) (k_init c)
  && eqb_list eqb_obs (crun_obs (k_cfg c) (init_cstate (k_cfg c)) (k_ops c)) (k_obs c)
  && cengine_ok (k_cfg c) (k_Q c) (k_ops c).

(* the property itself (lifecycle_b, lookups_ok, notifs_ok, ctxs_ok, built_clause_b) is defined next to the
   engine contract in Model/Snow.v so that the theorems in Props/C20.v and this oracle are literally the same
   predicates.  The engine's bookkeeping only looks at the context-free call [base co] and at the answers:
     lifecycle_b   whole-trace lifecycle + notification lists = decision lists (C20_lifecycle_ctx_exec)
     lookups_ok    lookups answer from the accepted chain / processing set   (C20_lookup_ctx)
     notifs_ok     call by call: the verified / rejected notifications made during a call are exactly the
                   decisions the engine records for that call - none for a call that returned an
                   error, e.g. a Verify refused for its context                (C20_notifications_ctx)
     ctxs_ok       a verify call whose context differs from the block's inner context is refused without
                   any callback, a matching one is never refused for its context (C20_ctx_check) *)
Definition spec_ok (c : case) : bool :=
  let ops := map base (k_ops c) in
  c_ready (k_cfg c) && no_sync ops &&
  match erun_obs (k_Q c) (init_estate (k_cfg c)) ops (k_obs c) with
  | None => false
  | Some es =>
    let tr := k_init c ++ concat (map snd (k_obs c)) in
    if k_built_clause c then built_clause_b tr es
    else lifecycle_b tr es && lookups_ok (k_Q c) (init_estate (k_cfg c)) ops (k_obs c)
         && notifs_ok (init_estate (k_cfg c)) ops (k_obs c)
         && ctxs_ok (init_estate (k_cfg c)) [] (k_ops c) (k_obs c)
  end.

(* debugging aid: index of the first op on which model and implementation differ *)
Fixpoint first_diff (i : N) (a b : list (res * list event)) : option (N * option (res * list event) * option (res * list event)) :=
  match a, b with
  | [], [] => None
  | x :: a', y :: b' => if eqb_obs x y then first_diff (N.succ i) a' b' else Some (i, Some x, Some y)
  | x :: _, [] => Some (i, Some x, None)
  | [], y :: _ => Some (i, None, Some y)
  end.

Fixpoint first_guard_fail (Q : N) (i : N) (es : estate) (ops : list op) (obs : list (res * list event)) : option (N * op) :=
  match ops, obs with
  | o :: r, (rs, evs) :: obs' => if eguard Q es o then first_guard_fail Q (N.succ i) (eupd es o rs evs) r obs' else Some (i, o)
  | _, _ => None
  end.
