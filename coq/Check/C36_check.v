(* Correspondence + executable property oracle for C36 (DSMR chunk storage across restarts). *)
From Coq Require Import List NArith ZArith Bool.
Import ListNotations.
From HV Require Import Lib.Harness Model.ChunkStorage.
Local Open Scope N_scope.

(* observed after every operation.
   o_chunks: for every chunk 0..n-1 the list [pend; get; cert; dbp; dba]:
     pend = GetChunkBytes(wrong expiry) succeeded (chunk is in pendingChunkMap)
     get  = GetChunkBytes(right expiry) returned the chunk's bytes
     cert = 0 if GatherChunkCerts has no certificate for it, k+1 if it returns certificate object k
     dbp / dba = pending / accepted key present in the database with the chunk's bytes
   o_weights: pendingChunksSizes of every producer 0..np-1 (probed through CheckRateLimit)
   o_dbmin: the persisted min slot *)
Record out := mkO { o_rc : N; o_chunks : list (list N); o_weights : list N; o_dbmin : option Z }.

Record case := mk { c_table : list chunkinfo; c_nprod : N; c_ops : list op; c_outs : list out }.

Definition ci_of (tbl : list chunkinfo) : ctable := fun c => nth (N.to_nat c) tbl (mkCI 0 0%Z 0).
Definition rangeN (n : N) : list N := map N.of_nat (seq 0 (N.to_nat n)).
Definition b2n (b : bool) : N := if b then 1 else 0.

Fixpoint listN_eqb (a b : list N) : bool :=
  match a, b with
  | [], [] => true
  | x :: a', y :: b' => (x =? y) && listN_eqb a' b'
  | _, _ => false
  end.
Fixpoint listL_eqb (a b : list (list N)) : bool :=
  match a, b with
  | [], [] => true
  | x :: a', y :: b' => listN_eqb x y && listL_eqb a' b'
  | _, _ => false
  end.
Definition optZ_eqb (a b : option Z) : bool :=
  match a, b with
  | None, None => true
  | Some x, Some y => (x =? y)%Z
  | _, _ => false
  end.
Definition out_eqb (a b : out) : bool :=
  (o_rc a =? o_rc b) && listL_eqb (o_chunks a) (o_chunks b) && listN_eqb (o_weights a) (o_weights b)
  && optZ_eqb (o_dbmin a) (o_dbmin b).
Fixpoint outs_eqb (a b : list out) : bool :=
  match a, b with
  | [], [] => true
  | x :: a', y :: b' => out_eqb x y && outs_eqb a' b'
  | _, _ => false
  end.

(* ---- model = implementation ---------------------------------------------------------- *)

Definition snapshot (n np : N) (s : st) (rc : N) : out :=
  mkO rc
    (map (fun c => [b2n (obs_pending s c); b2n (obs_get s c);
                    match obs_cert s c with Some k => k + 1 | None => 0 end;
                    b2n (memN c (d_pend s)); b2n (memN c (d_acc s))]) (rangeN n))
    (map (obs_weight s) (rangeN np)) (d_min s).

Fixpoint model_outs (ci : ctable) (n np : N) (s : st) (ops : list op) : list out :=
  match ops with
  | [] => []
  | o :: r => let '(s', rc) := step ci s o in snapshot n np s' rc :: model_outs ci n np s' r
  end.

Definition check_case (c : case) : bool :=
  let n := N.of_nat (length (c_table c)) in
  outs_eqb (model_outs (ci_of (c_table c)) n (c_nprod c) s_init (c_ops c)) (c_outs c).

(* ---- the property on the implementation's outputs ------------------------------------
   At every Reopen the observations after it equal the observations before it (pending set, retrievable
   chunks, producer weights, min; certificates are memory-only by design and must all be gone), and at
   every step the memory agrees with what a restart would rebuild from the database (pending set = pending
   keys, weight = sum of the lengths of the pending chunks, persisted min = last successful SetMin).
   A SetMin that returned an error leaves storage unusable until the next restart (the caller treats it as
   fatal); steps between such an error and the next Reopen are not judged. *)

Definition nth_or (l : list N) (i : nat) : N := nth i l 0.

Definition chunks_coherent (ci : ctable) (np : N) (o : out) : bool :=
  forallb (fun row => nth_or row 0 =? nth_or row 3) (o_chunks o) &&
  listN_eqb (o_weights o)
    (map (fun p => fold_right N.add 0
            (map (fun ic => if (nth_or (snd ic) 0 =? 1) && (c_prod (ci (fst ic)) =? p) then c_len (ci (fst ic)) else 0)
                 (combine (rangeN (N.of_nat (length (o_chunks o)))) (o_chunks o))))
         (rangeN np)).

Definition same_across_reopen (before after : out) : bool :=
  listL_eqb (map (fun row => [nth_or row 0; nth_or row 1; nth_or row 3; nth_or row 4]) (o_chunks before))
            (map (fun row => [nth_or row 0; nth_or row 1; nth_or row 3; nth_or row 4]) (o_chunks after))
  && listN_eqb (o_weights before) (o_weights after)
  && optZ_eqb (o_dbmin before) (o_dbmin after)
  && forallb (fun row => nth_or row 2 =? 0) (o_chunks after).

Fixpoint spec_walk (ci : ctable) (np : N) (dirty : bool) (lastmin : option Z) (prev : out)
  (ops : list op) (outs : list out) : bool :=
  match ops, outs with
  | [], [] => true
  | o :: r, out :: r' =>
      let dirty' := match o with
                    | OSetMin _ _ => dirty || (o_rc out =? 1)
                    | OReopen => false
                    | _ => dirty
                    end in
      let lastmin' := match o with
                      | OSetMin t _ => if o_rc out =? 0 then Some t else lastmin
                      | _ => lastmin
                      end in
      (dirty' || (chunks_coherent ci np out && optZ_eqb (o_dbmin out) lastmin')) &&
      (match o with OReopen => dirty || same_across_reopen prev out | _ => true end) &&
      spec_walk ci np dirty' lastmin' out r r'
  | _, _ => false
  end.

Definition spec_ok (c : case) : bool :=
  let n := N.of_nat (length (c_table c)) in
  let np := c_nprod c in
  spec_walk (ci_of (c_table c)) np false None
    (mkO 0 (map (fun _ => [0; 0; 0; 0; 0]) (rangeN n)) (map (fun _ => 0) (rangeN np)) None)
    (c_ops c) (c_outs c).

(* self-test: save a chunk with SetMin, then reopen (the history of finding F-9) *)
Definition st_table := [mkCI 0 10%Z 100].
Definition st_ops := [OAddLocal 0 (Some 0); OSetMin 5%Z [0]; OReopen].
Definition selftest_good : case := mk st_table 1 st_ops
  [mkO 0 [[1; 1; 1; 1; 0]] [100] None; mkO 0 [[0; 1; 0; 0; 1]] [0] (Some 5%Z); mkO 0 [[0; 1; 0; 0; 1]] [0] (Some 5%Z)].
Definition selftest_bad : case := mk st_table 1 st_ops
  [mkO 0 [[1; 1; 1; 1; 0]] [100] None; mkO 0 [[0; 1; 0; 1; 1]] [0] (Some 5%Z); mkO 0 [[1; 1; 0; 1; 1]] [100] (Some 5%Z)].
