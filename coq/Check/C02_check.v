(* C02: case format and comparison for the block builder (driver harness/drivers/chain/build.go).

   A case = one run of the REAL chain.Builder.BuildBlock over a REAL mempool (behind a recording proxy) plus the
   re-verification of the built block's bytes by the REAL Processor in fresh chain objects:
     bc_base      the Chain_check case of the built block (the scenario restricted to the included transactions
                  at the built timestamp) with the outputs [builder; verifier (1,1,serial); verifier (4,4,4)]
                  (printed as bc_base0 without its transactions, which are bc_pool[bc_included])
     bc_pool      the mempool contents, by index
     bc_stream    indices in the order Mempool.Stream handed them to the builder
     bc_dup       indices the validity window reports as repeats
     bc_restored  indices handed back through Mempool.FinishStreaming
     bc_included  indices in built order
     bc_target_size, bc_hdr_h, bc_hdr_ts   TargetTxsSize, parent header height / timestamp
     bc_outcome   0 built | 1 ErrTimestampTooEarly | 2 ErrNoTxs | 3 other error

   check_case = (execute_block = the real Processor on the built block, as for C01)  AND
                (build_block, run on a schedule reconstructed from the observations, takes the builder's
                 decisions -- included / dropped / restorable, transaction by transaction -- and produces the
                 builder's outputs).
   spec_ok    = the property on the implementation's own outputs: both verifiers accepted the built block and
                produced the builder's results, post-state, metadata, unit prices and units consumed.

   The schedule.  The order in which the builder's tasks take their decisions is not observable (tasks of
   non-conflicting transactions run concurrently, and even with one core a task unblocked by its predecessor
   may be overtaken).  Observable are the stream order, the built order and what was handed back.  Facts used
   (executor semantics, C08): tasks sharing a key with a non-Read permission run in stream order; a candidate
   that is not included changes neither the diff nor the fee manager; Consume is monotone in the consumption.
   So the schedule is: the included transactions in built order, every other attempted candidate x placed
   immediately before the first included transaction that follows x in the stream and conflicts with x (else at
   the end).  There x sees the values of its keys that it saw in the real run, and at least the consumption it
   saw.  Expected decisions: included -> VIncluded; not handed back -> VRepeat / VBadKeys / VPre; handed back ->
   VUnits.  Candidates beyond the size cap must be handed back.  When some dimension's consumption reached its
   target while a handed-back candidate did not fit there, the builder may have stopped (errBlockFull) and handed
   back candidates it never ran; the handed-back candidates are then left out of the schedule (their decisions
   are not checked in that case). *)
From stdpp Require Import gmap.
From Coq Require Import NArith ZArith Bool.
From HV Require Import Lib.Bytes Lib.U64 Lib.Harness Model.Keys Model.Tstate Model.Fees Model.Chain Model.Builder.
From HV Require Export Check.Chain_check.
Export Model.Builder.
Local Open Scope N_scope.

Record bcase := mkBCase {
  bc_base0 : Chain_check.case;       (* printed with c_txs = []: the block's transactions are bc_pool[bc_included] *)
  bc_pool : list tx;
  bc_stream : list N;
  bc_dup : list N;
  bc_restored : list N;
  bc_included : list N;
  bc_target_size : N;
  bc_hdr_h : N; bc_hdr_ts : Z;
  bc_outcome : N }.

Definition memN (i : N) (l : list N) : bool := existsb (N.eqb i) l.

Definition dummy_tx : tx := mkTx 0 false 0 [] false 0 0 0 0 false [].
Definition tx_at (c : bcase) (i : N) : tx := nth (N.to_nat i) (bc_pool c) dummy_tx.

(* the Chain_check case of the built block *)
Definition bc_base (c : bcase) : Chain_check.case :=
  let b := bc_base0 c in
  mkCase (c_parent b) (c_parent_h b) (c_parent_ts b) (c_parent_block_ts b) (c_parent_fee b) (c_no_height b) (c_rules b)
         (c_block_ts b) (c_block_h b) (c_root_ok b) (c_too_late b) (c_vw_dup b) (c_fail_key b)
         (map (tx_at c) (bc_included c)) (c_universe b) (c_meta b) (c_outs b).
Definition cand_at (c : bcase) (i : N) : cand := mkCand (tx_at c i) (memN i (bc_dup c)).

(* position of i in the stream (length if absent) *)
Fixpoint pos_in (i : N) (l : list N) : nat :=
  match l with
  | [] => O
  | j :: l' => if i =? j then O else S (pos_in i l')
  end.

(* executor conflict: a shared key with a non-Read permission on either side *)
Definition conflict (a b : tx) : bool :=
  match state_keys a, state_keys b with
  | Some ka, Some kb =>
      existsb (fun kp => match kb !! fst kp with
                         | Some pb => negb (snd kp =? pRead) || negb (pb =? pRead)
                         | None => false
                         end) (map_to_list ka)
  | _, _ => false
  end.

(* slot of a non-included candidate x: number of included transactions (in built order) before the first one
   that follows x in the stream and conflicts with x *)
Fixpoint slot_of (c : bcase) (x : N) (incl : list N) : nat :=
  match incl with
  | [] => O
  | b :: rest =>
      if Nat.ltb (pos_in x (bc_stream c)) (pos_in b (bc_stream c)) && conflict (tx_at c x) (tx_at c b) then O
      else S (slot_of c x rest)
  end.

(* the schedule: extras (in stream order) with slot j, then the j-th included transaction, ... *)
Fixpoint weave (c : bcase) (extras : list N) (incl : list N) (j : nat) : list N :=
  filter (fun x => Nat.eqb (slot_of c x (bc_included c)) j) extras ++
  match incl with
  | [] => []
  | b :: rest => b :: weave c extras rest (S j)
  end.

Definition builder_out (c : bcase) : option output :=
  match c_outs (bc_base c) with o :: _ => Some o | [] => None end.

Definition attempted (c : bcase) : list N :=
  firstn (length (size_cut (bc_target_size c) 0 (map (cand_at c) (bc_stream c)))) (bc_stream c).
Definition beyond_cap (c : bcase) : list N :=
  skipn (length (size_cut (bc_target_size c) 0 (map (cand_at c) (bc_stream c)))) (bc_stream c).

(* may the builder have raised errBlockFull?  only if for some handed-back candidate x and dimension d the
   consumption reached the target and x did not fit: consumed_then[d] >= target[d] and consumed_then[d] + units(x)[d]
   > max[d] for the consumption at that time, hence also for the final (larger) consumption *)
Definition tx_units (r : rules) (t : tx) : option dims :=
  match state_keys t with Some sk => units r t sk | None => None end.
Definition stop_possible (c : bcase) : bool :=
  match builder_out c with
  | Some (OutOk _ _ _ _ _ _ _ consumed _) =>
      let r := c_rules (bc_base c) in
      existsb (fun i => memN i (bc_restored c) &&
                 match tx_units r (tx_at c i) with
                 | Some u => existsb (fun k => (dget (r_target r) k <=? dget consumed k)
                                               && (dget (r_max_units r) k <? dget consumed k + dget u k)) idx5
                 | None => false
                 end) (attempted c)
  | _ => true
  end.

Definition extras (c : bcase) : list N :=
  filter (fun i => negb (memN i (bc_included c)) && (negb (memN i (bc_restored c)) || negb (stop_possible c)))
         (attempted c).

Definition schedule (c : bcase) : list N := weave c (extras c) (bc_included c) O.

Definition verdict_ok (c : bcase) (i : N) (v : verdict) : bool :=
  if memN i (bc_included c) then match v with VIncluded => true | _ => false end
  else if memN i (bc_restored c) then match v with VUnits _ => true | _ => false end
  else match v with VRepeat | VBadKeys | VPre _ => true | _ => false end.

Fixpoint verdicts_ok (c : bcase) (sched : list N) (vs : list verdict) : bool :=
  match sched, vs with
  | [], [] => true
  | i :: s', v :: vs' => verdict_ok c i v && verdicts_ok c s' vs'
  | _, _ => false
  end.

(* a model output against an implementation output (Chain_check.out_matches with the model output given) *)
Definition out_ok_matches (cb : Chain_check.case) (m : out_ok) (o : output) : bool :=
  match o with
  | OutOk _ results post ph pts pfee prices consumed _ =>
      list_eqb result_eqb (o_results m) results
      && post_eqb (map (fun k => (k, post_value (parent_of cb) m k)) (c_universe cb)) post
      && (o_height m =? ph) && (o_ts m =? pts) && mgr_eqb (o_fee m) pfee
      && nlist_eqb (o_prices m) prices && nlist_eqb (o_consumed m) consumed
  | OutErr _ _ _ _ => false
  end.

Definition model_build (c : bcase) : build_res :=
  build_block (c_rules (bc_base c)) (parent_of (bc_base c)) (bc_hdr_h c) (bc_hdr_ts c) (c_block_ts (bc_base c))
              (map (cand_at c) (schedule c)).

Definition subset (a b : list N) : bool := forallb (fun i => memN i b) a.
Fixpoint nodup (l : list N) : bool :=
  match l with [] => true | x :: l' => negb (memN x l') && nodup l' end.

Definition builder_matches (c : bcase) : bool :=
  if negb (bc_outcome c =? 0) then true else
  (* bookkeeping of the observations *)
  nodup (bc_included c) && subset (bc_included c) (attempted c)
  && forallb (fun i => negb (memN i (bc_restored c))) (bc_included c)
  && subset (beyond_cap c) (bc_restored c)
  && forallb (fun i => i <? N.of_nat (length (bc_pool c))) (bc_stream c)
  (* the model builder on the reconstructed schedule *)
  && match model_build c, builder_out c with
     | BBuilt b m vs, Some o =>
         verdicts_ok c (schedule c) vs
         && Nat.eqb (length (b_txs b)) (length (bc_included c))
         && (b_height b =? c_block_h (bc_base c))
         && out_ok_matches (bc_base c) m o
     | _, _ => false
     end.

(* Chain_check.check_case with the verifier model evaluated once: execute_block on the built block against
   every implementation output (the builder's own and the two verifiers') *)
Definition base_matches (cb : Chain_check.case) : bool :=
  let m := model_out cb in
  forallb (fun o => match m, o with
                    | inr (cls, sub), OutErr _ cls' sub' _ => (cls =? cls') && ((sub =? 0) || (sub =? sub'))
                    | inl mo, OutOk _ _ _ _ _ _ _ _ _ => out_ok_matches cb mo o
                    | _, _ => false
                    end) (c_outs cb).

Definition case := bcase.
Definition check_case (c : bcase) : bool := base_matches (bc_base c) && builder_matches c.
Definition spec_ok (c : bcase) : bool :=
  Chain_check.spec_ok (bc_base c)
  && (negb (bc_outcome c =? 0) || match builder_out c with Some (OutOk _ _ _ _ _ _ _ _ _) => true | _ => false end).
