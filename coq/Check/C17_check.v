(* Correspondence + executable property oracle for C17. *)
From Coq Require Import List NArith ZArith Bool.
Import ListNotations.
From HV Require Import Lib.Bytes Lib.Harness Model.AuthWire.
Local Open Scope N_scope.

(* CParse : a byte string through the real parser.  via = 0: codec.TypeParser with the three auth types
            registered; via = 1,2,3: auth.UnmarshalED25519 / UnmarshalSECP256R1 / UnmarshalBLS directly.
            pkok/sigok: blst accepts bytes[1:49] / bytes[49:145] (driver, straight from the library).
            res = Some (GetTypeID, signer bytes, signature bytes); back = Bytes(); actor/sponsor = Actor()/
            Sponsor(); hpk = sha256(signer bytes) computed by the driver with crypto/sha256.
   CVerify: the auth bytes [b] (an honest auth or a mutation of one; ident = equal to the honest bytes)
            through Unmarshal and Auth.Verify on the ORIGINAL message.  lib = the underlying library's
            answer on (pk, msg, sig) taken from b (ed25519consensus.Verify / raw ecdsa.Verify without low-S /
            avalanchego bls.Verify), false when the key or signature does not decode.
   CAddr  : honest key: auth built without parsing; actor, sponsor, factory.Address(). *)
Inductive case : Type :=
| CParse (via : N) (b : bytes) (pkok sigok : bool) (res : option (N * bytes * bytes))
         (back actor sponsor hpk : bytes)
| CVerify (scheme : N) (ident : bool) (b : bytes) (pkok sigok : bool) (parsed verified lib : bool)
| CAddr (scheme : N) (pk hpk actor sponsor faddr : bytes).

Definition model_parse (via : N) (pkok sigok : bool) (b : bytes) : option auth :=
  let po := fun _ : bytes => pkok in
  let so := fun _ : bytes => sigok in
  if via =? 0 then parse_auth po so b else unmarshal_scheme po so (via - 1) b.

Definition check_case (c : case) : bool :=
  match c with
  | CParse via b pkok sigok res back act spo hpk =>
      match model_parse via pkok sigok b, res with
      | None, None => true
      | Some a, Some (id, pk, sg) =>
          (a_id a =? id) && bytes_eqb (a_pk a) pk && bytes_eqb (a_sig a) sg &&
          bytes_eqb (auth_bytes a) back &&
          bytes_eqb (actor (fun _ => hpk) a) act && bytes_eqb (sponsor (fun _ => hpk) a) spo
      | _, _ => false
      end
  | CVerify scheme ident b pkok sigok parsed verified lib =>
      match model_parse 0 pkok sigok b with
      | None => negb parsed && negb verified
      | Some a => parsed && Bool.eqb verified (auth_verify lib a)
      end
  | CAddr scheme pk hpk act spo faddr =>
      let a := mk_auth scheme pk [] in
      bytes_eqb (actor (fun _ => hpk) a) act && bytes_eqb (sponsor (fun _ => hpk) a) spo &&
      bytes_eqb (auth_address (fun _ => hpk) a) faddr
  end.

Definition hd_is (b : bytes) (x : N) : bool :=
  match b with y :: _ => y =? x | [] => false end.

(* the property on the implementation's outputs *)
Definition spec_ok (c : case) : bool :=
  match c with
  | CParse via b pkok sigok res back act spo hpk =>
      match res with
      | None => true
      | Some (id, pk, sg) =>
          (* the encoding round-trips (so it is the only encoding of this auth, no trailing bytes) *)
          bytes_eqb back b && bytes_eqb (id :: pk ++ sg) b &&
          (* addresses start with the scheme's type id and are determined by the public key *)
          bytes_eqb act (id :: hpk) && bytes_eqb spo (id :: hpk) && Nat.eqb (length act) 33 && hd_is b id
      end
  | CVerify scheme ident b pkok sigok parsed verified lib =>
      (* the honest auth verifies; nothing else built from it verifies for the same message *)
      if ident then parsed && verified else negb (parsed && verified)
  | CAddr scheme pk hpk act spo faddr =>
      bytes_eqb act (scheme :: hpk) && bytes_eqb spo (scheme :: hpk) && bytes_eqb faddr (scheme :: hpk) &&
      Nat.eqb (length act) 33
  end.

Definition selftest_good : case := CParse 1 [0;1;2] false false None [] [] [] [].
Definition selftest_bad : case := CParse 1 [0;1;2] false false (Some (0, [1], [2])) [0;1;2] [0] [0] [].
