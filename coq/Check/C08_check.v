(* Trace validation + executable property oracle for C08 (internal/executor).

   A case is a task list, a worker count and the event trace observed from the real executor (events are
   totally ordered by a global atomic sequence number, so a causal order in the Go code is an order of
   the trace).  The schedule is not controlled: the checks below hold for EVERY trace the unchanged code
   can produce, they never depend on which one occurred.

   [check_case] = [check_stmts] && [lts_accepts]:
   [lts_accepts]: TRACE INCLUSION -- the observed trace (with Wait's result appended) is the visible part of a run of
   the LTS Model/Executor.v: the acceptor Model/ExecutorAccept.v interleaves the unobservable labels and replays
   the LTS label by label; Proofs/ExecutorAccept_proofs.v: an accepted trace is a trace of the LTS ([accepts_sound]).
   [check_stmts]: the trace is a behaviour of the model (Model/Executor.v): f of task j begins only after
   every task in the model's dependency set [sdeps] of j ended successfully ([sdeps] is computed by running the
   model's own registration labels on the task list, so this compares the Go executor's observed waiting with
   the LTS's bookkeeping; the proved theorems C08_order / C08_order_code are about the conflict relations, of
   which [sdeps] is a superset -- that every LTS run respects [sdeps] itself is not a proved theorem, it is part
   of the correspondence), at most [workers] tasks are open at once, a single worker
   never starts f after a failure, nothing starts once the sticky error is known to be set, Wait returns
   the sticky error.
   [spec_ok]: the property text evaluated on the trace with its own notion of conflict (shared key, one
   side more than read), written without the model's dependency sets. *)
From Coq Require Import List NArith ZArith Bool Arith.
Import ListNotations.
From HV Require Import Lib.Harness Model.Executor Model.ExecutorAccept.

Inductive ev :=
| ERun (j : nat)              (* driver: about to call Run for task j *)
| EBeg (j : nat)              (* f of task j started *)
| EEnd (j : nat) (ok : bool)  (* f of task j is about to return (ok = returns nil) *)
| EStopCall | EStopRet        (* driver: around Stop() *)
| ESeen (x : N)               (* somebody read the executor's sticky error: 0 nil, 1 ErrStopped, 2+j error of task j *)
| EWaitCall.

Record case := mk { c_tasks : list task; c_w : nat; c_evs : list ev; c_wait : N; c_hang : bool }.

Definition is_run j e := match e with ERun i => Nat.eqb i j | _ => false end.
Definition is_beg j e := match e with EBeg i => Nat.eqb i j | _ => false end.
Definition is_end j e := match e with EEnd i _ => Nat.eqb i j | _ => false end.
Definition is_endok j e := match e with EEnd i true => Nat.eqb i j | _ => false end.
Definition is_fail e := match e with EEnd _ false => true | _ => false end.
Definition is_stopcall e := match e with EStopCall => true | _ => false end.
Definition is_errknown e := match e with EStopRet => true | ESeen x => negb (N.eqb x 0) | _ => false end.

Fixpoint idx_from (p : ev -> bool) (i : nat) (l : list ev) : option nat :=
  match l with [] => None | e :: l' => if p e then Some i else idx_from p (S i) l' end.
Definition idx p l := idx_from p 0 l.
Definition cnt (p : ev -> bool) (l : list ev) : nat := length (filter p l).
Definition lt_opt (a b : option nat) : bool :=   (* both present and a < b *)
  match a, b with Some x, Some y => Nat.ltb x y | _, _ => false end.
Definition has (o : option nat) : bool := match o with Some _ => true | None => false end.

Definition tid_ok (n : nat) (e : ev) : bool :=
  match e with ERun j | EBeg j | EEnd j _ => Nat.ltb j n | _ => true end.

(* each task: one Run call, at most one begin, end iff begin, in this order; Run calls in queue order *)
Definition wf (n : nat) (evs : list ev) : bool :=
  forallb (tid_ok n) evs &&
  forallb (fun j =>
    Nat.eqb (cnt (is_run j) evs) 1 &&
    Nat.leb (cnt (is_beg j) evs) 1 &&
    Nat.eqb (cnt (is_end j) evs) (cnt (is_beg j) evs) &&
    (negb (has (idx (is_beg j) evs)) ||
       (lt_opt (idx (is_run j) evs) (idx (is_beg j) evs) && lt_opt (idx (is_beg j) evs) (idx (is_end j) evs))) &&
    (Nat.eqb j 0 || lt_opt (idx (is_run (pred j)) evs) (idx (is_run j) evs)))
  (seq 0 n).

(* a task begins only after every task it depends on ended successfully *)
Definition deps_ok (depf : nat -> list nat) (n : nat) (evs : list ev) : bool :=
  forallb (fun j =>
    match idx (is_beg j) evs with
    | None => true
    | Some q => forallb (fun d => match idx (is_endok d) evs with Some pe => Nat.ltb pe q | None => false end) (depf j)
    end) (seq 0 n).

(* the same for the property's wording: an earlier conflicting task that ran has ended, successfully *)
Definition order_ok (depf : nat -> list nat) (n : nat) (evs : list ev) : bool :=
  forallb (fun j =>
    match idx (is_beg j) evs with
    | None => true
    | Some q => forallb (fun d => negb (has (idx (is_beg d) evs)) ||
                                  match idx (is_endok d) evs with Some pe => Nat.ltb pe q | None => false end) (depf j)
    end) (seq 0 n).

Fixpoint conc_ok (w : nat) (open : nat) (evs : list ev) : bool :=
  match evs with
  | [] => true
  | EBeg _ :: l => Nat.ltb open w && conc_ok w (S open) l
  | EEnd _ _ :: l => conc_ok w (pred open) l
  | _ :: l => conc_ok w open l
  end.

(* once the sticky error is known to be set (Stop returned, or somebody saw it) at position p0, a task
   starts later only if it was queued before p0 and everything it waited for had ended before p0 *)
Definition after_known_ok (depf : nat -> list nat) (n : nat) (evs : list ev) : bool :=
  match idx is_errknown evs with
  | None => true
  | Some p0 =>
      forallb (fun j =>
        match idx (is_beg j) evs with
        | None => true
        | Some q =>
            Nat.ltb q p0 ||
            (match idx (is_run j) evs with Some r => Nat.ltb r p0 | None => false end &&
             forallb (fun d => negb (has (idx (is_beg d) evs)) ||
                               match idx (is_end d) evs with Some pe => Nat.ltb pe p0 | None => false end) (depf j))
        end) (seq 0 n)
  end.

(* a single worker finishes runTask (including the CompareAndSwap) before it takes the next task *)
Fixpoint single_ok (failed : bool) (evs : list ev) : bool :=
  match evs with
  | [] => true
  | EBeg _ :: l => negb failed && single_ok failed l
  | EEnd _ false :: l => single_ok true l
  | _ :: l => single_ok failed l
  end.

Definition failed_task (evs : list ev) (x : N) : bool :=   (* x = 2+j and f of j ended with an error *)
  existsb (fun e => match e with EEnd j false => N.eqb x (N.of_nat (2 + j)) | _ => false end) evs.

(* every observation of the sticky error is justified by an earlier Stop call / failing end; once it
   is non-nil it never changes and it is what Wait returns *)
Fixpoint seen_ok (stopcalled stopret : bool) (failed : list N) (cur : N) (evs : list ev) (wait : N) : bool :=
  match evs with
  | [] => N.eqb cur 0 || N.eqb cur wait
  | e :: l =>
      match e with
      | EStopCall => seen_ok true stopret failed cur l wait
      | EStopRet => seen_ok stopcalled true failed cur l wait
      | EEnd j false => seen_ok stopcalled stopret (N.of_nat (2 + j) :: failed) cur l wait
      | ESeen x =>
          (if N.eqb x 0 then negb stopret && N.eqb cur 0
           else (N.eqb cur 0 || N.eqb cur x) &&
                (if N.eqb x 1 then stopcalled else existsb (N.eqb x) failed)) &&
          seen_ok stopcalled stopret failed (if N.eqb x 0 then cur else x) l wait
      | _ => seen_ok stopcalled stopret failed cur l wait
      end
  end.

Definition wait_ok (n : nat) (evs : list ev) (wait : N) : bool :=
  let stopped := existsb is_stopcall evs in
  let anyfail := existsb is_fail evs in
  (* nothing failed, not stopped: nil and every task ran *)
  ((stopped || anyfail) || (N.eqb wait 0 && forallb (fun j => Nat.eqb (cnt (is_beg j) evs) 1) (seq 0 n))) &&
  (* an error iff stopped or some executed task failed, and it is one of those *)
  (if N.eqb wait 0 then negb stopped && negb anyfail
   else if N.eqb wait 1 then stopped
   else failed_task evs wait) &&
  (* the first error wins: a task error returned although Stop was called means that task failed before Stop returned *)
  (N.eqb wait 0 || N.eqb wait 1 || negb stopped ||
   existsb (fun j => N.eqb wait (N.of_nat (2 + j)) &&
                     lt_opt (idx (fun e => match e with EEnd i false => Nat.eqb i j | _ => false end) evs)
                            (idx (fun e => match e with EStopRet => true | _ => false end) evs)) (seq 0 n)) &&
  seen_ok false false [] 0%N evs wait.

Definition common (c : case) : bool :=
  let n := length (c_tasks c) in
  negb (c_hang c) && wf n (c_evs c) && conc_ok (c_w c) 0 (c_evs c) &&
  (negb (Nat.eqb (c_w c) 1) || single_ok false (c_evs c)) &&
  wait_ok n (c_evs c) (c_wait c).

(* model acceptance, statement level *)
Definition check_stmts (c : case) : bool :=
  let n := length (c_tasks c) in
  let st := sdeps_state (c_tasks c) in
  let depf := sdeps_of st in
  common c && deps_ok depf n (c_evs c) && after_known_ok depf n (c_evs c).

(* ---- trace inclusion in the LTS ------------------------------------------------------------------------ *)
Definition to_oev (e : ev) : oev :=
  match e with
  | ERun j => ORun j | EBeg j => OBeg j | EEnd j ok => OEnd j ok | EStopCall => OStopCall | EStopRet => OStopRet
  | ESeen x => OSeen x | EWaitCall => OWaitCall
  end.
(* the driver constructs the executor with maxDependencies = 100000000 and [c_w] workers *)
Definition cfg_of (c : case) : cfg := mkC (c_tasks c) 100000000%Z (c_w c).
Definition lts_accepts (c : case) : bool :=
  accepts (cfg_of c) (map to_oev (c_evs c) ++ [OWaitRet (c_wait c)]).

Definition check_case (c : case) : bool := check_stmts c && lts_accepts c.

(* the property, with its own conflict relation *)
Definition conflicts_before (ts : list task) (j : nat) : list nat :=
  filter (fun i => conflict_spec (nth i ts []) (nth j ts [])) (seq 0 j).

Definition spec_ok (c : case) : bool :=
  let n := length (c_tasks c) in
  let depf := conflicts_before (c_tasks c) in
  common c && order_ok depf n (c_evs c) && after_known_ok depf n (c_evs c).

(* self test: task 1 writes the key task 0 writes; good = serialised, bad = overlapped *)
Definition st_tasks : list task := [[(0%N, 5%N)]; [(0%N, 5%N)]].
Definition selftest_good : case :=
  mk st_tasks 2 [ERun 0; EBeg 0; ERun 1; EEnd 0 true; EBeg 1; EEnd 1 true; EWaitCall] 0%N false.
Definition selftest_bad : case :=
  mk st_tasks 2 [ERun 0; EBeg 0; ERun 1; EBeg 1; EEnd 0 true; EEnd 1 true; EWaitCall] 0%N false.

(* a trace that satisfies every statement of [check_stmts] but is not a trace of the LTS: three independent
   tasks on two workers; the worker whose task 0 failed is the only one that can have taken task 2 (task 1 is
   still running on the other one), and it took it after its CompareAndSwap, so f of task 2 cannot begin *)
Definition st3 : list task := [[(0%N, 5%N)]; [(1%N, 5%N)]; [(2%N, 5%N)]].
Definition selftest_outside : case :=
  mk st3 2 [ERun 0; ERun 1; ERun 2; EBeg 0; EBeg 1; EEnd 0 false; EBeg 2; EEnd 1 true; EEnd 2 true; ESeen 2; EWaitCall]
     2%N false.
Definition selftest_inside : case :=
  mk st3 2 [ERun 0; ERun 1; ERun 2; EBeg 0; EBeg 1; EEnd 0 false; EEnd 1 true; EBeg 2; EEnd 2 true; ESeen 2; EWaitCall]
     2%N false.
