(* C11, builder side: a block the REAL chain.Builder hands out is treated as verified by the consensus wrapper without
   passing through Processor.Execute locally, so "verified blocks extend their parent correctly" also constrains the
   builder: height = parent height + 1, timestamp >= parent block timestamp + MinBlockGap, and + MinEmptyBlockGap when
   the block carries no transaction.  The cases are those of the C02 build driver (Check/C02_check.v); only the header
   clauses are evaluated here -- the rest of a built block's verification is property C02's business. *)
From Coq Require Import List NArith ZArith Bool.
Import ListNotations.
From HV Require Export Check.C02_check.
Local Open Scope N_scope.

Definition header_built_ok (c : bcase) : bool :=
  if negb (bc_outcome c =? 0) then true else
  let b := bc_base0 c in
  (c_block_h b =? bc_hdr_h c + 1)
  && (bc_hdr_ts c + r_min_gap (c_rules b) <=? c_block_ts b)%Z
  && match bc_included c with
     | [] => (bc_hdr_ts c + r_min_empty_gap (c_rules b) <=? c_block_ts b)%Z
     | _ => true
     end.

Definition case := bcase.
Definition check_case : case -> bool := header_built_ok.
Definition spec_ok : case -> bool := header_built_ok.
