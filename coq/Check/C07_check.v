(* C07 — no transaction is charged more than the maximum fee it signed. *)
From stdpp Require Import gmap.
From Coq Require Import NArith ZArith Bool.
From HV Require Import Lib.Bytes Lib.U64 Lib.Harness Model.Keys Model.Tstate Model.Fees Model.Chain Check.Chain_check.
Export Check.Chain_check.
Local Open Scope N_scope.

Fixpoint fees_within (txs : list tx) (rs : list result) : bool :=
  match txs, rs with
  | t :: txs', r :: rs' => (res_fee r <=? t_maxfee t) && fees_within txs' rs'
  | _, _ => true
  end.

(* the property on the implementation's outputs: every transaction of an accepted block was
   charged at most its signed maximum fee *)
Definition spec_ok (c : case) : bool :=
  forallb (fun o => match o with
                    | OutOk _ results _ _ _ _ _ _ _ => fees_within (c_txs c) results
                    | OutErr _ _ _ _ => true
                    end) (c_outs c).
Definition check_case := Chain_check.check_case.
