(* Correspondence + executable property oracle for C09 (validity window replay protection). *)
From Coq Require Import List NArith ZArith Bool.
Import ListNotations.
From HV Require Import Lib.Harness Model.ValidityWindow.
Local Open Scope Z_scope.

(* one scenario: a block tree, the window duration, a sequence of engine calls and the outputs the
   real TimeValidityWindow produced for them *)
Record case := mk { c_W : Z; c_blocks : list block; c_genesis : N; c_ops : list op; c_outs : list out }.

Definition list_eqb {A} (eq : A -> A -> bool) : list A -> list A -> bool :=
  fix go l1 l2 := match l1, l2 with
                  | [], [] => true
                  | x :: l1', y :: l2' => eq x y && go l1' l2'
                  | _, _ => false
                  end.

Definition out_eqb (a b : out) : bool :=
  match a, b with
  | OutV x, OutV y => N.eqb x y
  | OutUnit, OutUnit => true
  | OutR x, OutR y => Bool.eqb x y
  | OutI m e, OutI m' e' => Bool.eqb e e' && (e || list_eqb Bool.eqb m m')
  | OutBad, OutBad => true
  | _, _ => false
  end.

Definition model_outs (c : case) : list out :=
  let tree := tree_of (c_blocks c) in
  match tree (c_genesis c) with
  | Some g => run vf_replay tree (c_W c) (sys0 tree (c_W c) g) (c_ops c)
  | None => []
  end.

(* model = implementation on every call *)
Definition check_case (c : case) : bool := list_eqb out_eqb (model_outs c) (c_outs c).

(* hypotheses of the property on the tree, executable: heights and timestamps consistent with
   the rules, every included item inside its validity interval, an id determines its expiry.
   (The condition 0 < ts for non-genesis blocks is deliberately NOT part of it: see F-23.) *)
Definition block_okb (tree : index) (W : Z) (g : N) (all : list block) (b : block) : bool :=
  (if N.eqb (b_id b) g then (b_height b =? 0)%N
   else negb (b_height b =? 0)%N &&
        match tree (b_parent b) with
        | Some p => (b_height b =? N.succ (b_height p))%N && (b_ts p <=? b_ts b)
        | None => false
        end)
  && (0 <=? b_ts b)
  && forallb (fun it => (b_ts b <=? snd it) && (snd it <=? b_ts b + W)) (b_items b)
  && forallb (fun it => forallb (fun b' => forallb (fun it' =>
        negb (N.eqb (fst it) (fst it')) || (snd it =? snd it')) (b_items b')) all) (b_items b)
  && match tree (b_id b) with Some b' => N.eqb (b_parent b') (b_parent b) && (b_height b' =? b_height b)%N
                                         && (b_ts b' =? b_ts b) && list_eqb (fun x y => N.eqb (fst x) (fst y) && (snd x =? snd y)) (b_items b') (b_items b)
                        | None => false end.

Definition tree_okb (c : case) : bool :=
  forallb (block_okb (tree_of (c_blocks c)) (c_W c) (c_genesis c) (c_blocks c)) (c_blocks c).

(* the property itself on the implementation's outputs: whenever the calls respect the consensus
   engine contract (judged with the implementation's own answers), every block the implementation
   verified lies on a path to genesis without a repeated item id *)
Definition spec_ok (c : case) : bool :=
  let tree := tree_of (c_blocks c) in
  if tree_okb c then
    match eng_run tree (eng0 (c_genesis c)) (c_ops c) (c_outs c) with
    | Some e => forallb (cleanb tree) (e_ever e)
    | None => true
    end
  else true.

(* comparator self-test *)
Definition st_blocks : list block :=
  [ mkB 0 0 0 0 []; mkB 1 0 1 1 [(7%N, 2)]; mkB 2 1 2 2 [(7%N, 2)] ].
Definition selftest_good : case :=
  mk 5 st_blocks 0%N [OVerify 1; OVerify 2; OAccept 1; OVerify 2] [OutV 0; OutV 1; OutUnit; OutV 1].
Definition selftest_bad : case :=
  mk 5 st_blocks 0%N [OVerify 1; OVerify 2; OAccept 1; OVerify 2] [OutV 0; OutV 1; OutUnit; OutV 0].
