(* Correspondence + executable property oracle for C22 (validity-window backfill). *)
From Coq Require Import List NArith ZArith Bool.
Import ListNotations.
From HV Require Import Lib.Harness Model.ValidityWindow Model.Backfill.
Local Open Scope Z_scope.

(* One scenario.
   c_chain   : the true chain, genesis first, target last (hash-linked by parent ids);
   c_forged  : other parseable blocks (forged: different ids, arbitrary contents);
   c_local   : height from which the chain blocks are in the local index (target always is);
   c_syncer  : true = Syncer.Start + real client (constant min); false = client alone with a
               minTimestamp that changes while requests are in flight (c_min0 = initial value,
               the start block is the chain block at height c_local);
   c_resps   : per request: minTimestamp when it returns, and error (None) or the raw blocks
               served (None = unparsable bytes);
   c_honest  : for the requests answered by the real BlockFetcherHandler: request height, request
               minTimestamp, ids it served (empty = error response);
   outputs   : ids saved / received in order, completion, heights requested, IsRepeat bits for
               c_univ after the run (syncer runs). *)
Record case := mk {
  c_W : Z; c_chain : list block; c_forged : list block; c_local : N; c_syncer : bool; c_min0 : Z;
  c_resps : list (Z * option (list (option block)));
  c_honest : list (N * Z * list N);
  c_univ : list item;
  c_saved : list N; c_closed : bool; c_reqs : list N; c_bits : list bool }.

Definition list_eqb {A} (eq : A -> A -> bool) : list A -> list A -> bool :=
  fix go l1 l2 := match l1, l2 with
                  | [], [] => true
                  | x :: l1', y :: l2' => eq x y && go l1' l2'
                  | _, _ => false
                  end.

Definition parse_id (r : option block) : option block := r.
Definition to_resps (l : list (Z * option (list (option block)))) : list (resp (option block)) :=
  map (fun p => mkResp (fst p) (snd p)) l.

Definition target_of (c : case) : option block := last (map Some (c_chain c)) None.
Definition local_idx (c : case) : index :=
  fun i => match tree_of (c_chain c) i with
           | Some b => if (c_local c <=? b_height b)%N then Some b else None
           | None => None
           end.
Definition by_height (c : case) : N -> option block :=
  fun h => find (fun b => N.eqb (b_height b) h) (c_chain c).

(* model outputs: saved ids, closed, request heights, bits *)
Definition model_run (c : case) : list N * bool * list N * list bool :=
  match target_of c with
  | None => ([], false, [], [])
  | Some t =>
      if c_syncer c then
        (* the node's window exists before the syncer starts (NewTimeValidityWindow populated it
           from the same local blocks); Syncer.Start populates again on it *)
        let w0 := fst (new_window (local_idx c) (c_W c) t) in
        let r := syncer parse_id (local_idx c) w0 (c_W c) t (to_resps (c_resps c)) in
        let w := fst (fst (fst r)) in
        (map b_id (snd (fst (fst r))), snd (fst r), snd r,
         map (fun it => em_has (seen w) (fst it)) (c_univ c))
      else
        match by_height c (c_local c) with
        | Some start =>
            let r := client parse_id (to_resps (c_resps c)) (c_min0 c) start [] [] in
            (map b_id (fst (fst r)), snd (fst r), snd r, [])
        | None => ([], false, [], [])
        end
  end.

Definition is_nil {A} (l : list A) : bool := match l with [] => true | _ => false end.

(* the real handler's answers follow the handler model *)
Definition handler_ok (c : case) : bool :=
  forallb (fun h =>
    match handler_fetch (by_height c) (snd (fst h)) (S (length (c_chain c))) (fst (fst h)) [] with
    | None => is_nil (snd h)
    | Some bs => list_eqb N.eqb (map b_id bs) (snd h) && negb (is_nil (snd h))
    end) (c_honest c).

Definition check_case (c : case) : bool :=
  let m := model_run c in
  list_eqb N.eqb (fst (fst (fst m))) (c_saved c) &&
  Bool.eqb (snd (fst (fst m))) (c_closed c) &&
  list_eqb N.eqb (snd (fst m)) (c_reqs c) &&
  list_eqb Bool.eqb (snd m) (c_bits c) &&
  handler_ok c.

(* ---- the property on the implementation's outputs, written without the model ---- *)
Definition the_min (c : case) : Z :=
  if c_syncer c then match target_of c with Some t => Z.max 0 (b_ts t - c_W c) | None => 0 end
  else c_min0 c.
Definition const_min (c : case) : bool :=
  c_syncer c || forallb (fun p => fst p =? c_min0 c) (c_resps c).

(* height of the block the fetch started from, as the implementation revealed it in its first request *)
Definition start_height (c : case) : option N :=
  match c_reqs c with
  | h :: _ => Some (if (h =? two64 - 1)%N then 0%N else N.succ h)
  | [] => None
  end.

(* the true ancestors of the start block, nearest first *)
Definition true_ancestors (c : case) (sh : N) : list block :=
  rev (filter (fun b => (b_height b <? sh)%N) (c_chain c)).

Definition saved_blocks (c : case) (sh : N) : list block :=
  firstn (length (c_saved c)) (true_ancestors c sh).

Fixpoint all_but_last_ge (min : Z) (l : list block) : bool :=
  match l with
  | [] => true
  | [b] => true
  | b :: l' => (min <=? b_ts b) && all_but_last_ge min l'
  end.

Definition item_in_blocks (x : N) (bs : list block) : bool :=
  existsb (fun b => existsb (fun it => N.eqb (fst it) x && negb (snd it =? 0)) (b_items b)) bs.

Definition spec_ok (c : case) : bool :=
  match start_height c with
  | None => is_nil (c_saved c)          (* nothing was requested: nothing may be saved *)
  | Some sh =>
      let anc := true_ancestors c sh in
      let saved := saved_blocks c sh in
      (* 1. what was saved is a prefix of the true ancestry, in order (nothing forged, unlinked,
            unparsable or out of order) *)
      list_eqb N.eqb (map b_id saved) (c_saved c) &&
      (* 2. exactness w.r.t. the minimum timestamp (constant-min runs): only the last saved
            block may be below min or be genesis, and it is iff the backfill completed *)
      (if const_min c then
         all_but_last_ge (the_min c) saved &&
         match rev saved with
         | z :: _ => Bool.eqb ((b_ts z <? the_min c) || (b_height z =? 0)%N) (c_closed c)
         | [] => true
         end
       else true) &&
      (* 3. reaching genesis completes the backfill (F-22) *)
      match rev saved with
      | z :: _ => negb (b_height z =? 0)%N || c_closed c
      | [] => true
      end
  end &&
  (* 4. tracked = local + saved ancestry only, and everything saved is tracked (syncer runs) *)
  (if c_syncer c then
     let sh := match start_height c with Some sh => sh | None => 0%N end in
     let localb := filter (fun b => (c_local c <=? b_height b)%N) (c_chain c) in
     let saved := saved_blocks c sh in
     forallb (fun p => negb (snd p) || item_in_blocks (fst (fst p)) (localb ++ saved))
             (combine (c_univ c) (c_bits c)) &&
     forallb (fun p => snd p || negb (item_in_blocks (fst (fst p)) saved))
             (combine (c_univ c) (c_bits c)) &&
     (length (c_bits c) =? length (c_univ c))%nat
   else true).

(* comparator self-test: chain 0..3, W=1, target ts 3 -> min 2; only the target is local; one
   honest-looking response serves blocks 2 and 1 *)
Definition st_chain : list block :=
  [ mkB 10 99 0 0 []; mkB 11 10 1 1 [(7%N, 5)]; mkB 12 11 2 2 [(8%N, 5)]; mkB 13 12 3 3 [] ].
Definition selftest_good : case :=
  mk 1 st_chain [] 3%N true 0
     [(2, Some [Some (mkB 12 11 2 2 [(8%N, 5)]); Some (mkB 11 10 1 1 [(7%N, 5)])])] []
     [(7%N, 5); (8%N, 5); (9%N, 5)]
     [12; 11]%N true [2%N] [true; true; false].
Definition selftest_bad : case :=
  mk 1 st_chain [] 3%N true 0
     [(2, Some [Some (mkB 12 11 2 2 [(8%N, 5)]); Some (mkB 11 10 1 1 [(7%N, 5)])])] []
     [(7%N, 5); (8%N, 5); (9%N, 5)]
     [12]%N true [2%N] [true; true; false].
