(* Correspondence + executable property oracle for C28 (address text encoding, hex helpers). *)
From Coq Require Import List NArith Bool.
Import ListNotations.
From HV Require Import Lib.Bytes Lib.Harness Model.Address.
Local Open Scope N_scope.

(* kinds: 0 StringToAddress, 4 Address.UnmarshalText   (c_in = text; c_ok/c_out = result address)
          1 Address.String,  5 Address.MarshalText     (c_in = 33 address bytes; c_out = text;
                                                        c_back = implementation's parse of c_out)
          2 ToHex                                      (c_in = bytes; c_out = text; c_back = LoadHex(c_out,-1))
          3 LoadHex(s, c_exp)                          (c_in = text; c_ok/c_out = result)
   c_tab: sha256 checksums supplied by the driver: (payload, hashing.Checksum(payload, 4)) *)
Record case := mk {
  c_kind : N; c_in : list N; c_exp : option N; c_tab : list (bytes * bytes);
  c_ok : bool; c_out : list N; c_back : option bytes }.

Definition ck_of (tab : list (bytes * bytes)) (b : bytes) : bytes :=
  match find (fun p => bytes_eqb (fst p) b) tab with
  | Some p => snd p
  | None => [0; 0; 0; 0]
  end.

Definition has_ck (tab : list (bytes * bytes)) (b : bytes) : bool :=
  existsb (fun p => bytes_eqb (fst p) b) tab.

Definition opt_bytes_eqb (a b : option bytes) : bool :=
  match a, b with
  | Some x, Some y => bytes_eqb x y
  | None, None => true
  | _, _ => false
  end.

Definition impl_res (c : case) : option bytes := if c_ok c then Some (c_out c) else None.

(* model = implementation *)
Definition check_case (c : case) : bool :=
  let ck := ck_of (c_tab c) in
  match c_kind c with
  | 0 | 4 => opt_bytes_eqb (parse_address ck (c_in c)) (impl_res c)
  | 1 | 5 => c_ok c && bytes_eqb (format_address ck (c_in c)) (c_out c)
  | 2 => bytes_eqb (to_hex (c_in c)) (c_out c)
  | 3 => opt_bytes_eqb (load_hex (c_in c) (c_exp c)) (impl_res c)
  | _ => false
  end.

Definition all_bytes (b : bytes) : bool := forallb (fun x => x <? 256) b.

(* the string is (up to the optional 0x and hex digit case) the checksummed encoding of one
   33-byte address *)
Definition valid_encoding (tab : list (bytes * bytes)) (s : text) : bool :=
  let t := strip0x s in
  Nat.eqb (length t) 74 &&
  match hex_dec t with
  | Some d => bytes_eqb (skipn 33 d) (ck_of tab (firstn 33 d)) && has_ck tab (firstn 33 d)
  | None => false
  end.

(* the property itself on the implementation's outputs *)
Definition spec_ok (c : case) : bool :=
  let ck := ck_of (c_tab c) in
  match c_kind c with
  | 0 | 4 =>
      if c_ok c then
        Nat.eqb (length (c_out c)) 33 && all_bytes (c_out c) && has_ck (c_tab c) (c_out c) &&
        bytes_eqb (map lower (strip0x (c_in c))) (hex_enc (c_out c ++ ck (c_out c)))
      else negb (valid_encoding (c_tab c) (c_in c))
  | 1 | 5 => c_ok c && opt_bytes_eqb (c_back c) (Some (c_in c))
  | 2 => opt_bytes_eqb (c_back c) (Some (c_in c))
  | 3 =>
      if c_ok c then
        all_bytes (c_out c) &&
        bytes_eqb (map lower (strip0x (c_in c))) (hex_enc (c_out c)) &&
        match c_exp c with Some n => N.of_nat (length (c_out c)) =? n | None => true end
      else
        match hex_dec (strip0x (c_in c)) with
        | Some d => match c_exp c with Some n => negb (N.of_nat (length d) =? n) | None => false end
        | None => true
        end
  | _ => false
  end.

(* comparator self-test *)
Definition selftest_good : case :=
  mk 3 [48;120;65;98] None [] true [171] None.
Definition selftest_bad : case :=
  mk 3 [48;120;65;98] None [] true [172] None.
