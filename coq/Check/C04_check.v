(* C04: correspondence (check_case, shared with C05) + executable property oracle.
   [spec_ok] replays the implementation's own outputs against a plain key-value map (a function)
   with a stack of snapshots; it does not use the model of the view. *)
From stdpp Require Import gmap.
From Coq Require Import NArith ZArith.
From HV Require Import Lib.Bytes Lib.Harness.
From HV Require Export Model.Keys Model.Tstate Check.TstateCase.
Local Open Scope N_scope.

(* snapshots: (op index reported by the implementation, visible map), most recent first *)
Fixpoint find_snap (n : N) (snaps : list (N * amap)) : option amap :=
  match snaps with
  | [] => None
  | (i, m) :: rest => if N.eqb i n then Some m else find_snap n rest
  end.

Definition drop_above (n : N) (snaps : list (N * amap)) : list (N * amap) :=
  filter (fun p => N.leb (fst p) n) snaps.

(* returns (all checks passed, final visible map) *)
Fixpoint steps_ok (univ : list key) (cur : amap) (snaps : list (N * amap)) (h : list hop) (os : list step_obs)
  : bool * amap :=
  match h, os with
  | [], [] => (true, cur)
  | x :: h', o :: os' =>
      let res := so_res o in
      let '(ok1, cur', snaps1) :=
        match x, res with
        (* every read returns the value most recently written, absence if most recently deleted *)
        | HGet k, IVal v => (oval_eqb (cur k) (Some v), cur, snaps)
        | HGet k, IErr 3 => (oval_eqb (cur k) None, cur, snaps)
        | HGet k, _ => (true, cur, snaps)
        | HIns k v, IOk => (true, aupd cur k (Some v), snaps)
        | HIns k v, _ => (true, cur, snaps)
        | HRem k, IOk => (true, aupd cur k None, snaps)
        | HRem k, _ => (true, cur, snaps)
        (* rolling back to a checkpoint restores exactly the values visible at that checkpoint *)
        | HRb n, IOk =>
            match find_snap n snaps with
            | Some m => (N.eqb (so_idx o) n, m, drop_above n snaps)
            | None => (true, cur, snaps)
            end
        | HRb n, _ => (true, cur, snaps)
        end in
      let ok2 := ovals_eqb (map cur' univ) (so_vis o) in
      let '(ok3, fin) := steps_ok univ cur' ((so_idx o, cur') :: snaps1) h' os' in
      (ok1 && ok2 && ok3, fin)
  | _, _ => (false, cur)
  end.

Definition listing_keys (univ : list key) (a b : list (key * option val)) : list key :=
  univ ++ map fst a ++ map fst b.

Definition seg_ok (univ : list key) (base : list (key * val)) (prev : list (key * option val))
  (sg : seg) (o : seg_obs) : bool :=
  let und := under_l base prev in
  let ks := listing_keys univ prev (go_changed o) in
  let same_listing := forallb (fun k => oov_eqb (alookup (go_changed o) k) (alookup prev k)) ks in
  if negb (go_scope_ok o) then same_listing else
  (* a fresh view falls back to the block's pending changes and then the parent state *)
  let ok0 := ovals_eqb (map und univ) (go_vis0 o) in
  let '(ok1, fin) := steps_ok univ und [(0, und)] (sg_hist sg) (go_steps o) in
  (* committing publishes exactly the keys whose visible value differs from the underlying state *)
  let ok2 :=
    if sg_commit sg then
      forallb (fun k => oov_eqb (alookup (go_changed o) k)
                          (if oval_eqb (fin k) (und k) then alookup prev k else Some (fin k))) ks
    else same_listing in
  ok0 && ok1 && ok2.

Fixpoint segs_ok (univ : list key) (base : list (key * val)) (prev : list (key * option val))
  (sgs : list seg) (os : list seg_obs) : bool :=
  match sgs, os with
  | [], [] => true
  | sg :: sgs', o :: os' => seg_ok univ base prev sg o && segs_ok univ base (go_changed o) sgs' os'
  | _, _ => false
  end.

Definition spec_ok (c : case) : bool := segs_ok (c_univ c) (c_base c) [] (c_segs c) (c_obs c).

(* comparator self-test: the fixed history [Remove k; Insert k v; Remove k] with k in the parent;
   the bad case is the output of the code before fix 340ee66 (the parent value reappears). *)
Definition st_k : key := [97; 0; 1].
Definition st_hist : list hop := [HRem st_k; HIns st_k [9]; HRem st_k].
Definition st_seg := Seg (SAdd [(st_k, 7)]) st_hist true.
Definition selftest_good : case :=
  mk [(st_k, [7])] [st_k] [st_seg]
     [SegO true [Some [7]]
        [SO IOk 1 1 [None]; SO IOk 2 1 [Some [9]]; SO IOk 3 1 [None]]
        [] [(st_k, 0)] [(st_k, None)] 3].
Definition selftest_bad : case :=
  mk [(st_k, [7])] [st_k] [st_seg]
     [SegO true [Some [7]]
        [SO IOk 1 1 [None]; SO IOk 2 1 [Some [9]]; SO IOk 3 0 [Some [7]]]
        [] [] [] 3].
