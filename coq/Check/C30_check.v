(* Correspondence + executable property oracle for C30 (read-only action APIs vs on-chain execution). *)
From Coq Require Import List NArith Bool.
Import ListNotations.
From HV Require Import Lib.Bytes Lib.Harness Model.ActionApi.
Local Open Scope N_scope.

Fixpoint list_eqb {A} (eqb : A -> A -> bool) (a b : list A) : bool :=
  match a, b with
  | [], [] => true
  | x :: a', y :: b' => eqb x y && list_eqb eqb a' b'
  | _, _ => false
  end.

Definition outs_eqb (a b : list bytes * bool) : bool :=
  list_eqb bytes_eqb (fst a) (fst b) && Bool.eqb (snd a) (snd b).

(* two key sets denote the same state.Keys map *)
Definition keys_eqb (a b : checks) : bool :=
  forallb (fun '(k, _) => perm_of a k =? perm_of b k) (a ++ b).

Definition sim_eqb (a b : option (list (bytes * checks))) : bool :=
  match a, b with
  | None, None => true
  | Some x, Some y => list_eqb (fun '(o1, k1) '(o2, k2) => bytes_eqb o1 o2 && keys_eqb k1 k2) x y
  | _, _ => false
  end.

Fixpoint is_prefix_b (a b : list bytes) : bool :=
  match a, b with
  | [], _ => true
  | x :: a', y :: b' => bytes_eqb x y && is_prefix_b a' b'
  | _ :: _, [] => false
  end.

Record case := mk {
  c_state : store;                          (* VM state the three executions start from (fee already deducted) *)
  c_acts : list (checks * list sop);        (* per action: declared keys, script *)
  c_exec : list bytes * bool;               (* ExecuteActions: reply.Outputs, reply.Error == "" *)
  c_sim : option (list (bytes * checks));   (* SimulateActions: None = error, else per action (output, stateKeys) *)
  c_tx : list bytes * bool;                 (* Transaction.Execute, actions with their own declarations: Outputs, Success *)
  c_tx_sim : option (list bytes * bool)     (* when simulation succeeded: Transaction.Execute of the same scripts
                                               whose actions declare exactly the simulated keys *)
}.

Definition progs (c : case) : list prog := map (fun '(_, s) => script_prog s []) (c_acts c).

Definition check_case (c : case) : bool :=
  let base := s_get (c_state c) in
  outs_eqb (run_exec base [] (map (fun '(d, s) => (d, script_prog s [])) (c_acts c))) (c_exec c)
  && sim_eqb (run_sim base [] (progs c)) (c_sim c)
  && outs_eqb (run_tx (perm_of (concat (map fst (c_acts c)))) base [] (progs c)) (c_tx c)
  && match c_sim c, c_tx_sim c with
     | Some rs, Some t => outs_eqb (run_tx (perm_of (concat (map snd rs))) base [] (progs c)) t
     | None, None => true
     | _, _ => false
     end.

(* The property on the implementation's outputs (no model):
   1. the outputs ExecuteActions returned are a prefix of the transaction's outputs, and when every action
      succeeded they are all of them and the transaction succeeded;
   2. when the transaction succeeded, SimulateActions succeeded with the same outputs;
   3. when SimulateActions succeeded, the transaction declaring the reported keys succeeded with the same outputs. *)
Definition spec_ok (c : case) : bool :=
  is_prefix_b (fst (c_exec c)) (fst (c_tx c))
  && (negb (snd (c_exec c)) || outs_eqb (c_exec c) (c_tx c))
  && (negb (snd (c_tx c)) ||
      match c_sim c with Some rs => list_eqb bytes_eqb (map fst rs) (fst (c_tx c)) | None => false end)
  && match c_sim c with
     | Some rs => match c_tx_sim c with Some t => outs_eqb (map fst rs, true) t | None => false end
     | None => true
     end.
