(* Correspondence + executable property oracle for C30 (read-only action APIs vs on-chain execution). *)
From Coq Require Import List NArith Bool.
Import ListNotations.
From HV Require Import Lib.Bytes Lib.Harness.
From HV Require Export Model.ActionApi.
Local Open Scope N_scope.

(* compact printing of long byte runs in the case terms: rp n x = [x; x+1; x+2; x; x+1; ...] (n bytes) *)
Fixpoint rp_aux (n : nat) (i x : N) : bytes :=
  match n with O => [] | S n' => (x + i mod 3) :: rp_aux n' (i + 1) x end.
Definition rp (n x : N) : bytes := rp_aux (N.to_nat n) 0 x.

Fixpoint list_eqb {A} (eqb : A -> A -> bool) (a b : list A) : bool :=
  match a, b with
  | [], [] => true
  | x :: a', y :: b' => eqb x y && list_eqb eqb a' b'
  | _, _ => false
  end.

Definition outs_eqb (a b : list bytes * bool) : bool :=
  list_eqb bytes_eqb (fst a) (fst b) && Bool.eqb (snd a) (snd b).

(* two key sets denote the same state.Keys map *)
Definition keys_eqb (a b : checks) : bool :=
  forallb (fun '(k, _) => perm_of a k =? perm_of b k) (a ++ b).

Definition sim_eqb (a b : option (list (bytes * checks))) : bool :=
  match a, b with
  | None, None => true
  | Some x, Some y => list_eqb (fun '(o1, k1) '(o2, k2) => bytes_eqb o1 o2 && keys_eqb k1 k2) x y
  | _, _ => false
  end.

Fixpoint is_prefix_b (a b : list bytes) : bool :=
  match a, b with
  | [], _ => true
  | x :: a', y :: b' => bytes_eqb x y && is_prefix_b a' b'
  | _ :: _, [] => false
  end.

Record case := mk {
  c_wf : bool;                              (* the action byte strings are well formed (false: one was corrupted) *)
  c_out0 : bytes;                           (* actor tag: the script action starts its output with it *)
  c_state : store;                          (* VM state the three executions start from (fee already deducted) *)
  c_acts : list (checks * list sop);        (* per action: declared keys, script (keys resolved for the actor) *)
  c_exec : list bytes * bool;               (* ExecuteActions: reply.Outputs, reply.Error == "" (RPC error: [], false) *)
  c_sim : option (list (bytes * checks));   (* SimulateActions: None = error, else per action (output, stateKeys) *)
  c_tx : list bytes * bool;                 (* Transaction.Execute, actions with their own declarations: Outputs,
                                               Success; ([], false) when Execute returned an error (StateKeys) *)
  c_tx_sim : option (list bytes * bool);    (* when simulation succeeded: Transaction.Execute of the same scripts
                                               whose actions declare exactly the simulated keys *)
  c_exec_sim : option (list bytes * bool)   (* when simulation succeeded: ExecuteActions of the same scripts, each
                                               action declaring exactly the key set simulation reported FOR IT *)
}.

Definition acts_of (c : case) : list (checks * prog) :=
  map (fun '(d, s) => (d, script_prog s (c_out0 c))) (c_acts c).
Definition progs (c : case) : list prog := map snd (acts_of c).

Definition check_case (c : case) : bool :=
  let base := s_get (c_state c) in
  if c_wf c then
    outs_eqb (run_exec base [] (acts_of c)) (c_exec c)
    && sim_eqb (run_sim base [] (progs c)) (c_sim c)
    && outs_eqb (tx_run [] base [] (acts_of c)) (c_tx c)
    && match c_sim c, c_tx_sim c with
       | Some rs, Some t =>
           outs_eqb (tx_run [] base [] (combine (map snd rs) (progs c))) t
           && Nat.eqb (length rs) (length (progs c))
       | None, None => true
       | _, _ => false
       end
    && match c_sim c, c_exec_sim c with
       | Some rs, Some e => outs_eqb (run_exec base [] (combine (map snd rs) (progs c))) e
       | None, None => true
       | _, _ => false
       end
  else
    (* a malformed action: both handlers return an error before executing anything, no transaction parses *)
    outs_eqb ([], false) (c_exec c) && sim_eqb None (c_sim c) && outs_eqb ([], false) (c_tx c)
    && match c_tx_sim c with None => true | Some _ => false end
    && match c_exec_sim c with None => true | Some _ => false end.

(* The property on the implementation's outputs (no model).  For well-formed action lists:
   1. when the actions can form a transaction (every declared key is a valid key): the outputs ExecuteActions
      returned are a prefix of the transaction's outputs, and when every action succeeded they are all of them
      and the transaction succeeded;
   2. when the transaction succeeded, SimulateActions succeeded with the same outputs;
   3. when SimulateActions succeeded, the transaction declaring the reported keys succeeded with the same outputs;
   4. when SimulateActions succeeded, ExecuteActions with every action declaring exactly the key set reported for
      that action succeeded with the same outputs (the per-action sets are sufficient, not only their union).
   Malformed action bytes: both handlers refuse. *)
Definition decls_valid_b (c : case) : bool :=
  forallb (fun '(d, _) => forallb (fun '(k, _) => Nat.leb 2 (length k)) d) (c_acts c).

Definition spec_ok (c : case) : bool :=
  if c_wf c then
    (negb (decls_valid_b c) ||
       is_prefix_b (fst (c_exec c)) (fst (c_tx c))
       && (negb (snd (c_exec c)) || outs_eqb (c_exec c) (c_tx c)))
    && (negb (snd (c_tx c)) ||
        match c_sim c with Some rs => list_eqb bytes_eqb (map fst rs) (fst (c_tx c)) | None => false end)
    && match c_sim c with
       | Some rs => match c_tx_sim c with Some t => outs_eqb (map fst rs, true) t | None => false end
       | None => true
       end
    && match c_sim c with
       | Some rs => match c_exec_sim c with Some e => outs_eqb (map fst rs, true) e | None => false end
       | None => true
       end
  else
    negb (snd (c_exec c)) && match c_sim c with None => true | Some _ => false end.
