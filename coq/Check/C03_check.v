(* C03 — transactions are atomic and always pay their fee.
   Cases: block-execution scenarios (driver harness/drivers/chain).  check_case is the model
   correspondence of Chain_check; spec_ok replays the block on a PLAIN key-value map (no state view,
   no permissions): fee first, then all action effects or none. *)
From stdpp Require Import gmap.
From Coq Require Import NArith ZArith Bool.
From HV Require Import Lib.Bytes Lib.U64 Lib.Harness Model.Keys Model.Tstate Model.Fees Model.Chain Check.Chain_check.
Export Check.Chain_check.
Local Open Scope N_scope.

Definition amap := list (list N * option (list N)).   (* association list, first match wins *)
Fixpoint alook (m : amap) (k : list N) : option (list N) :=
  match m with
  | [] => None
  | (k', v) :: m' => if bytes_eqb k k' then v else alook m' k
  end.
Definition aset (m : amap) (k : list N) (v : option (list N)) : amap := (k, v) :: m.

(* an action on the plain map: None = the script contains a failing instruction *)
Fixpoint plain_ops (m : amap) (ops : list sop) (out : list N) : option (amap * list N) :=
  match ops with
  | [] => Some (m, out)
  | OGet k :: rest =>
      match alook m k with
      | Some v => plain_ops m rest (out ++ [1; N.of_nat (length v) mod 256] ++ v)
      | None => plain_ops m rest (out ++ [0])
      end
  | OPut k v :: rest => plain_ops (aset m k (Some v)) rest out
  | ODel k :: rest => plain_ops (aset m k None) rest out
  | OFail :: _ => None
  | OTransfer from to value _ :: rest =>
      (* plain-map reading of a successful transfer: value moves, an emptied account disappears *)
      let fb := match alook m from with Some v => be_dec v | None => 0 end in
      if (value =? 0) || (fb <? value) then None else
      let m1 := aset m from (if fb - value =? 0 then None else Some (be64 (fb - value))) in
      let tb := match alook m1 to with Some v => be_dec v | None => 0 end in
      plain_ops (aset m1 to (Some (be64 (tb + value)))) rest (out ++ [0] ++ be64 (fb - value) ++ be64 (tb + value))
  end.

(* run the first [n] actions; returns the map and the outputs *)
Fixpoint plain_actions (m : amap) (acts : list action) (n : nat) : option (amap * list (list N)) :=
  match n, acts with
  | O, _ => Some (m, [])
  | S n', a :: rest =>
      match plain_ops m (a_ops a) [] with
      | None => None
      | Some (m', out) =>
          match plain_actions m' rest n' with
          | None => None
          | Some (m'', outs) => Some (m'', out :: outs)
          end
      end
  | S _, [] => None
  end.

Definition fee_of (prices units : list N) : N :=
  fold_left N.add (map (fun k => nth k prices 0 * nth k units 0) [0; 1; 2; 3; 4]%nat) 0.

Definition bal (m : amap) (k : list N) : N := match alook m k with Some v => be_dec v | None => 0 end.

(* one included transaction with its recorded result *)
Definition plain_tx (prices : list N) (m : amap) (t : tx) (res : result) : option amap :=
  let f := res_fee res in
  if negb (f =? fee_of prices (res_units res)) then None else          (* charged exactly prices x units *)
  if bal m (t_sponsor_key t) <? f then None else
  let nb := bal m (t_sponsor_key t) - f in
  let m1 := aset m (t_sponsor_key t) (if t_morpheus t && (nb =? 0) then None else Some (be64 nb)) in   (* fee first *)
  if res_success res then
    match plain_actions m1 (t_actions t) (length (t_actions t)) with
    | Some (m2, outs) => if list_eqb nlist_eqb outs (res_outputs res) then Some m2 else None   (* all effects *)
    | None => None
    end
  else
    (* failure: outputs of the actions that ran before the failing one, and no action effect at all *)
    let n := length (res_outputs res) in
    if Nat.leb (length (t_actions t)) n then None else
    match plain_actions m1 (t_actions t) n with
    | Some (_, outs) => if list_eqb nlist_eqb outs (res_outputs res) then Some m1 else None
    | None => None
    end.

Fixpoint plain_block (prices : list N) (m : amap) (txs : list tx) (rs : list result) : option amap :=
  match txs, rs with
  | [], [] => Some m
  | t :: txs', r :: rs' =>
      match plain_tx prices m t r with
      | Some m' => plain_block prices m' txs' rs'
      | None => None
      end
  | _, _ => None
  end.

Definition spec_one (c : case) (o : output) : bool :=
  match o with
  | OutErr _ _ _ _ => true
  | OutOk _ results post _ _ _ prices _ _ =>
      match plain_block prices (map (fun kv => (fst kv, Some (snd kv))) (c_parent c)) (c_txs c) results with
      | None => false
      | Some m => post_eqb (map (fun k => (k, alook m k)) (c_universe c)) post
      end
  end.

Definition spec_ok (c : case) : bool := forallb (spec_one c) (c_outs c).
Definition check_case := Chain_check.check_case.
