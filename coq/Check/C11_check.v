(* C11 — verified blocks extend their parent correctly. *)
From stdpp Require Import gmap.
From Coq Require Import NArith ZArith Bool.
From HV Require Import Lib.Bytes Lib.U64 Lib.Harness Model.Keys Model.Tstate Model.Fees Model.Chain Check.Chain_check.
Export Check.Chain_check.
Local Open Scope N_scope.

(* the property on the implementation's outputs: a block was accepted only if its header extends
   the parent: height, minimum gap (empty-block gap without transactions), not beyond the future
   bound, recorded state root = parent root.  [c_parent_block_ts] is the timestamp in the
   parent block's HEADER (the model reads [c_parent_ts], the one stored in the parent state; they
   coincide except for the genesis block). *)
Definition header_ok (c : case) : bool :=
  negb (c_no_height c) && (c_block_h c =? c_parent_h c + 1)
  && (Z.of_N (c_parent_block_ts c) + r_min_gap (c_rules c) <=? c_block_ts c)%Z
  && (match c_txs c with [] => (Z.of_N (c_parent_block_ts c) + r_min_empty_gap (c_rules c) <=? c_block_ts c)%Z | _ => true end)
  && negb (c_too_late c) && c_root_ok c.

Definition spec_ok (c : case) : bool :=
  forallb (fun o => match o with
                    | OutOk _ _ _ ph pts _ _ _ _ =>
                        header_ok c && (ph =? c_block_h c) && (Z.of_N pts =? c_block_ts c)%Z
                    | OutErr _ _ _ _ => true
                    end) (c_outs c).
Definition check_case := Chain_check.check_case.
