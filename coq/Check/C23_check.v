(* Correspondence + executable property oracle for C23 (mempool). *)
From Coq Require Import List NArith ZArith Bool Arith.
Import ListNotations.
From HV Require Import Lib.Harness Model.Heap Model.EHeap Model.Mempool.

Definition I := mkI.
Arguments I (_ _)%N (_ _)%Z.
Arguments OSetMin _%Z.

(* what the driver observes after every operation (Verif* = read-only hooks in
   internal/mempool/export_verif.go) *)
Record obs := mkO {
  o_out : out;               (* return value of the operation *)
  o_len : nat;               (* Len() *)
  o_size : Z;                (* Size() *)
  o_has : list bool;         (* Has(id) for id = 0 .. nids-1 *)
  o_peek : option item;      (* PeekNext() *)
  o_fwd : list item;         (* VerifQueue: First()/Next() walk *)
  o_bwd : list item;         (* VerifQueue: Last()/Prev() walk *)
  o_qsize : nat;             (* VerifQueue: queue.Size() *)
  o_owned : list nat;        (* VerifOwned(s) for s = 0 .. nsp-1 *)
  o_pmin : option item;      (* VerifPeekMin: root of the expiry heap *)
  o_active : bool;           (* streamedItems != nil *)
  o_streamed : list N;       (* streamedItems, sorted *)
  o_next : list item;        (* nextStream *)
  o_fetched : bool           (* nextStreamFetched *)
}.
Arguments mkO _ _%nat _%Z _ _ _ _ _%nat _ _ _ _ _ _.

Record case := mk {
  c_max : nat; c_maxsp : nat; c_nids : nat; c_nsp : nat;
  c_ops : list op; c_obs : list obs
}.

(* ---------- equality tests ---------- *)
Definition item_eqb (a b : item) : bool :=
  N.eqb (it_id a) (it_id b) && N.eqb (it_sp a) (it_sp b) && Z.eqb (it_size a) (it_size b) && Z.eqb (it_exp a) (it_exp b).
Fixpoint list_eqb {X} (eqb : X -> X -> bool) (a b : list X) : bool :=
  match a, b with
  | [], [] => true
  | x :: a', y :: b' => eqb x y && list_eqb eqb a' b'
  | _, _ => false
  end.
Definition opt_eqb {X} (eqb : X -> X -> bool) (a b : option X) : bool :=
  match a, b with
  | None, None => true
  | Some x, Some y => eqb x y
  | _, _ => false
  end.
Definition items_eqb := list_eqb item_eqb.
Definition out_eqb (a b : out) : bool :=
  match a, b with
  | RUnit, RUnit => true
  | ROpt x, ROpt y => opt_eqb item_eqb x y
  | RItems x, RItems y => items_eqb x y
  | RNat x, RNat y => Nat.eqb x y
  | _, _ => false
  end.
Definition memN (x : N) (l : list N) : bool := existsb (N.eqb x) l.
Definition subsetN (a b : list N) : bool := forallb (fun x => memN x b) a.
Definition seteqN (a b : list N) : bool := subsetN a b && subsetN b a.
Definition idsN (n : nat) : list N := map N.of_nat (seq 0 n).

(* ---------- model = implementation, after every operation ---------- *)
Definition obs_match (c : case) (m : mp) (r : out) (b : obs) : bool :=
  out_eqb r (o_out b)
  && Nat.eqb (eh_len (mp_eh m)) (o_len b)
  && Z.eqb (mp_pending m) (o_size b)
  && list_eqb Bool.eqb (map (eh_has (mp_eh m)) (idsN (c_nids c))) (o_has b)
  && opt_eqb item_eqb (peek_next m) (o_peek b)
  && items_eqb (mp_queue m) (o_fwd b)
  && items_eqb (rev (mp_queue m)) (o_bwd b)
  && Nat.eqb (length (mp_queue m)) (o_qsize b)
  && list_eqb Nat.eqb (map (owned_get (mp_owned m)) (idsN (c_nsp c))) (o_owned b)
  && opt_eqb item_eqb (eh_peek (mp_eh m)) (o_pmin b)
  && Bool.eqb (match mp_streamed m with Some _ => true | None => false end) (o_active b)
  && seteqN (match mp_streamed m with Some s => s | None => [] end) (o_streamed b)
  && items_eqb (mp_next m) (o_next b)
  && Bool.eqb (mp_fetched m) (o_fetched b).

Fixpoint check_steps (c : case) (m : mp) (ops : list op) (os : list obs) : bool :=
  match ops, os with
  | [], [] => true
  | o :: ops', b :: os' => let '(m', r) := step m o in obs_match c m' r b && check_steps c m' ops' os'
  | _, _ => false
  end.

Definition check_case (c : case) : bool :=
  check_steps c (mp_new (c_max c) (c_maxsp c)) (c_ops c) (c_obs c).

(* ---------- the property, evaluated on the implementation's own outputs ---------- *)
Definition ids_of (l : list item) : list N := map it_id l.
Fixpoint nodupN (l : list N) : bool :=
  match l with [] => true | x :: r => negb (memN x r) && nodupN r end.
Definition count_sp (l : list item) (s : N) : nat := length (filter (fun x => N.eqb (it_sp x) s) l).
Definition sum_size (l : list item) : Z := fold_right (fun x a => (it_size x + a)%Z) 0%Z l.
Fixpoint subseq (a b : list item) : bool := (* a is a subsequence of b *)
  match a, b with
  | [], _ => true
  | _ :: _, [] => false
  | x :: a', y :: b' => if item_eqb x y then subseq a' b' else subseq a b'
  end.
Definition disjointN (a b : list N) : bool := forallb (fun x => negb (memN x b)) a.
Definition expired (t : Z) (x : item) : bool := (it_exp x <? t)%Z.

(* state part: no duplicate ids, limits, size, membership answers, list integrity *)
Definition inv_ok (c : case) (handed : option (list N)) (b : obs) : bool :=
  let q := o_fwd b in
  nodupN (ids_of q)
  && (length q <=? c_max c) && Nat.eqb (o_len b) (length q) && Nat.eqb (o_qsize b) (length q)
  && forallb (fun x => count_sp q (it_sp x) <=? c_maxsp c) q
  && Z.eqb (o_size b) (sum_size q)
  && list_eqb Bool.eqb (map (fun id => memN id (ids_of q)) (idsN (c_nids c))) (o_has b)
  && items_eqb (rev q) (o_bwd b)
  && opt_eqb item_eqb (hd_error q) (o_peek b)
  && match handed with Some h => disjointN h (ids_of q) | None => true end.

Definition restored_by (visited : list item) (script : list (bool * bool)) : list item :=
  map fst (filter (fun p => snd (snd p)) (combine visited script)).

(* transition part; ghost state = previous observation + ids handed out in the running stream *)
Definition trans_ok (prev : obs) (handed : option (list N)) (o : op) (b : obs) : bool * option (list N) :=
  let p := o_fwd prev in
  let q := o_fwd b in
  let hl := match handed with Some h => h | None => [] end in
  match o, o_out b with
  | OAdd xs, RUnit =>
      (items_eqb (firstn (length p) q) p && subseq (skipn (length p) q) xs, handed)
  | ORemove xs, RUnit =>
      (items_eqb q (filter (fun x => negb (memN (it_id x) (ids_of xs))) p), handed)
  | OPop, ROpt r =>
      (opt_eqb item_eqb r (hd_error p) && items_eqb q (tl p), handed)
  | OSetMin t, RItems r =>
      (seteqN (ids_of r) (ids_of (filter (expired t) p)) && Nat.eqb (length r) (length (filter (expired t) p))
       && forallb (fun x => existsb (item_eqb x) p) r
       && items_eqb q (filter (fun x => negb (expired t x)) p), handed)
  | OTop script, RItems v =>
      (items_eqb v (firstn (length v) p)
       && items_eqb q (rev (restored_by v script) ++ skipn (length v) p), handed)
  | OStart, RUnit => (items_eqb q p, Some [])
  | OPrepare cnt, RUnit =>
      let k := length p - length q in
      (items_eqb q (skipn k p) && items_eqb (o_next b) (firstn k p) && (k <=? cnt)
       && (Nat.eqb k cnt || Nat.eqb (length q) 0)
       && disjointN (ids_of (o_next b)) hl,
       Some (ids_of (o_next b) ++ hl))
  | OStream cnt, RItems v =>
      if o_fetched prev then
        (items_eqb v (o_next prev) && items_eqb q p, Some (hl))
      else
        let k := length v in
        (items_eqb v (firstn k p) && items_eqb q (skipn k p) && (k <=? cnt)
         && (Nat.eqb k cnt || Nat.eqb (length q) 0)
         && disjointN (ids_of v) hl && nodupN (ids_of v),
         Some (ids_of v ++ hl))
  | OFinish xs, RNat n =>
      let k := length q - length p in
      (items_eqb (skipn k q) p
       && forallb (fun x => existsb (item_eqb x) (xs ++ o_next prev)) (firstn k q)
       && Nat.eqb n (length xs + (if o_fetched prev then length (o_next prev) else 0)),
       None)
  | _, _ => (false, handed)
  end.

Definition obs0 : obs := mkO RUnit 0 0 [] None [] [] 0 [] None false [] [] false.

Fixpoint spec_steps (c : case) (prev : obs) (handed : option (list N)) (ops : list op) (os : list obs) : bool :=
  match ops, os with
  | [], [] => true
  | o :: ops', b :: os' =>
      let '(ok, handed') := trans_ok prev handed o b in
      ok && inv_ok c handed' b && spec_steps c b handed' ops' os'
  | _, _ => false
  end.

Definition spec_ok (c : case) : bool := spec_steps c obs0 None (c_ops c) (c_obs c).
