(* Correspondence + executable property oracle for C33 (fees.LargestSet). *)
From Coq Require Import List NArith ZArith Bool.
Import ListNotations.
From HV Require Import Lib.U64 Lib.Harness Model.Fees Model.LargestSet.
Local Open Scope N_scope.

Record case := mk { c_items : list dims; c_limit : dims; c_idx : list N; c_total : dims }.

Definition list_eqb (a b : list N) : bool :=
  Nat.eqb (length a) (length b) && forallb (fun '(x, y) => N.eqb x y) (combine a b).

(* model = implementation: same indices in the same order, same total *)
Definition check_case (c : case) : bool :=
  let '(idx, total) := largest_set (c_items c) (c_limit c) in
  list_eqb (map N.of_nat idx) (c_idx c) && list_eqb total (c_total c).

(* the property on the implementation's output, without the model's sort / greedy / compaction:
   - indices < n and pairwise distinct,
   - total = exact per-dimension sum of the returned items, within the limit and < 2^64,
   - the returned order is ascending in (weight, index),
   - every skipped item j did not fit on top of the returned items that precede it in (weight, index) order. *)
Definition wt (c : case) (i : nat) : Z := weight (nth i (c_items c) []) (c_limit c).
Definition before (c : case) (i j : nat) : bool :=
  (wt c i <? wt c j)%Z || ((wt c i =? wt c j)%Z && Nat.ltb i j).
Definition sum_dim (c : case) (k : nat) (sel : list nat) : N :=
  fold_right (fun i s => dget (nth i (c_items c) []) k + s) 0 sel.
Fixpoint distinct (l : list nat) : bool :=
  match l with [] => true | x :: l' => negb (existsb (Nat.eqb x) l') && distinct l' end.
Fixpoint ascending (c : case) (l : list nat) : bool :=
  match l with
  | x :: ((y :: _) as l') => before c x y && ascending c l'
  | _ => true
  end.

Definition spec_ok (c : case) : bool :=
  let n := length (c_items c) in
  let idx := map N.to_nat (c_idx c) in
  forallb (fun i => Nat.ltb i n) idx &&
  distinct idx &&
  Nat.eqb (length (c_total c)) 5 &&
  forallb (fun k => N.eqb (dget (c_total c) k) (sum_dim c k idx) &&
                    (dget (c_total c) k <=? dget (c_limit c) k) && (dget (c_total c) k <=? MaxU64)) idx5 &&
  ascending c idx &&
  forallb (fun j =>
             if existsb (Nat.eqb j) idx then true
             else
               let seen := filter (fun i => before c i j) idx in
               existsb (fun k => N.min MaxU64 (dget (c_limit c) k) <? sum_dim c k seen + dget (nth j (c_items c) []) k) idx5)
          (seq 0 n).

(* the input class of the bug fixed by bd3eac2: a non-fitting item followed (in weight order) by a fitting one;
   the pinned code returned [0] with total [6;7;0;0;0] *)
Definition selftest_good : case := mk [[6;0;0;0;0]; [6;0;0;0;0]; [0;7;0;0;0]] [10;10;0;0;0] [0;2] [6;7;0;0;0].
Definition selftest_bad : case := mk [[6;0;0;0;0]; [6;0;0;0;0]; [0;7;0;0;0]] [10;10;0;0;0] [0] [6;7;0;0;0].
