(* C40: correspondence + executable property oracle for keys/keys.go, state.Keys.Add and the
   write-time check of TStateView.Insert.  [spec_ok] recomputes the chunk arithmetic directly
   (indexing the last two bytes, Z division) without the model's functions. *)
From stdpp Require Import gmap.
From Coq Require Import NArith ZArith.
From HV Require Import Lib.Bytes Lib.Harness.
From HV Require Export Model.Keys Model.Tstate Check.TstateCase.
Local Open Scope N_scope.

Inductive case :=
  | KF (k : key) (vlen maxsize : Z) (mks mvc chunks : N)
       (o_valid : bool) (o_max o_dec o_num : option N) (o_vv o_verify : bool)
       (o_enc : option key) (o_encvv : bool) (o_encch : key) (o_encchmax : option N) (o_add : bool)
       (o_addpre : bool)   (* Keys.Add on a set that already holds the key (with Write permission, put there directly) *)
  | KI (k : key) (vlen : N) (all : bool) (p : N) (present : bool) (o_err o_get : N)
  | KH (c : TstateCase.case).   (* a whole view history (format of C04/C05) with lengths at the bounds *)

Definition okey_eqb (a b : option key) : bool := oval_eqb a b.
Definition is_some {A} (o : option A) : bool := match o with Some _ => true | None => false end.

Definition ki_view (k : key) (all : bool) (p : N) (present : bool) : view :=
  new_view ts_new (if all then ScopeAll else ScopeKeys {[k := p]})
           (if present then {[k := [1]]} else ∅).

Definition check_case (c : case) : bool :=
  match c with
  | KF k vlen maxsize mks mvc chunks o_valid o_max o_dec o_num o_vv o_verify o_enc o_encvv o_encch o_encchmax o_add o_addpre =>
      Bool.eqb (valid k) o_valid && on_eqb (max_chunks k) o_max && on_eqb (decode_chunks k) o_dec
      && on_eqb (num_chunks_z vlen) o_num && Bool.eqb (verify_value_len k vlen) o_vv
      && Bool.eqb (verify mks mvc k) o_verify && okey_eqb (encode k maxsize) o_enc
      && Bool.eqb (match encode k maxsize with Some k' => verify_value_len k' vlen | None => false end) o_encvv
      && bytes_eqb (encode_chunks k chunks) o_encch && on_eqb (max_chunks (encode_chunks k chunks)) o_encchmax
      && Bool.eqb (is_some (keys_add ∅ k 1)) o_add
      && Bool.eqb (is_some (keys_add {[k := 5]} k 1)) o_addpre
  | KI k vlen all p present o_err o_get =>
      let v := rep vlen 5 in
      let '(s', e) := insert (ki_view k all p present) k v in
      N.eqb (match e with None => 0 | Some EPerm => 1 | Some EValue => 2 | Some ENotFound => 3 end) o_err
      && N.eqb (match vis s' k with Some v' => if bytes_eqb v' v then 0 else 1 | None => 2 end) o_get
  | KH c => TstateCase.check_case c
  end.

(* ---- the property, recomputed from scratch *)
Definition klen (k : key) : N := N.of_nat (length k).
Definition suffix (k : key) : option N :=
  if N.ltb (klen k) 2 then None
  else Some (256 * nth (length k - 2) k 0 + nth (length k - 1) k 0).
Definition chunks_of (l : Z) : Z := if (l =? 0)%Z then 0%Z else (l / 64 + 1)%Z.   (* l >= 0 *)
Definition admits (k : key) (l : Z) : bool :=
  match suffix k with
  | Some c => (chunks_of l <=? Z.of_N c)%Z
  | None => false
  end.

(* every Insert that succeeded, anywhere in any history, respects the chunk bound of its key, and
   every value any view ever shows for a key of the universe respects it too unless it is the
   value the storage held for that key *)
Definition value_ok (c : TstateCase.case) (k : key) (ov : option val) : bool :=
  match ov with
  | Some v => admits k (blenZ v)
              || existsb (fun kv : key * val => bytes_eqb (fst kv) k && bytes_eqb (snd kv) v) (c_base c)
  | None => true
  end.

Definition kh_step_ok (c : TstateCase.case) (h : hop) (o : step_obs) : bool :=
  match h, so_res o with
  | HIns k v, IOk => admits k (blenZ v)
  | _, _ => true
  end
  && forallb (fun kv : key * option val => value_ok c (fst kv) (snd kv)) (combine (c_univ c) (so_vis o)).

Definition kh_ok (c : TstateCase.case) : bool :=
  forallb (fun so : seg * seg_obs =>
             forallb (fun ho : hop * step_obs => kh_step_ok c (fst ho) (snd ho))
                     (combine (sg_hist (fst so)) (go_steps (snd so))))
          (combine (c_segs c) (c_obs c)).

Definition spec_ok (c : case) : bool :=
  match c with
  | KF k vlen maxsize mks mvc chunks o_valid o_max o_dec o_num o_vv o_verify o_enc o_encvv o_encch o_encchmax o_add o_addpre =>
      let short := N.ltb (klen k) 2 in
      (* the declared chunk count is the big-endian number in the last two bytes; shorter keys are invalid *)
      Bool.eqb o_valid (negb short) && on_eqb o_max (suffix k) && on_eqb o_dec (suffix k) && Bool.eqb o_add (negb short) && Bool.eqb o_addpre (negb short)
      && on_eqb o_num (if (chunks_of vlen <=? 65535)%Z then Some (Z.to_N (chunks_of vlen)) else None)
      (* a value can be written only if its chunk count does not exceed that number *)
      && Bool.eqb o_vv (admits k vlen)
      && Bool.eqb o_verify (N.leb (klen k) mks && match suffix k with Some c => N.leb c mvc | None => false end)
      (* a key encoded for a maximum size admits every value up to that size *)
      && (if (0 <=? maxsize)%Z then
            Bool.eqb (is_some o_enc) (chunks_of maxsize <=? 65535)%Z
            && match o_enc with
               | Some k' => implb (vlen <=? maxsize)%Z o_encvv
                            && bytes_eqb (firstn (length k) k') k && Nat.eqb (length k') (length k + 2)
               | None => true
               end
          else true)
      && bytes_eqb o_encch (k ++ [chunks / 256; chunks mod 256]) && on_eqb o_encchmax (Some chunks)
  | KI k vlen all p present o_err o_get =>
      let fits := admits k (Z.of_N vlen) in
      implb (N.eqb o_err 0) fits
      && implb (negb (N.eqb o_err 0)) (negb (N.eqb o_get 0))
      && implb (N.eqb o_err 0) (N.eqb o_get 0)
      && implb (fits && (all || has_bits p 7)) (N.eqb o_err 0)
      && implb (N.ltb (klen k) 2) (negb (N.eqb o_err 0))
  | KH c => kh_ok c
  end.

Definition selftest_good : case := KI [113; 0; 1] 63 false 7 false 0 0.
Definition selftest_bad : case := KI [113; 0; 1] 64 false 7 false 0 0.
