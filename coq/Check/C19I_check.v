(* C19, crash side of "retrievable by height and by ID with mutually consistent mappings ... (after state sync or
   historical backfill)": the real chainindex.ChainIndex after accepts of blocks 0 and j (a state-sync gap), then
   SaveHistorical(h) interrupted immediately before its k-th durable write (k = 0: not interrupted), then reopened.
   Required: the index opens, and block h is either present under all four lookups (by height, id at height, height of
   id, by id) or under none of them, the answers naming block h.  No model involved: check_case = spec_ok. *)
From Coq Require Import List NArith Bool.
Import ListNotations.
From HV Require Import Lib.Harness.
Local Open Scope N_scope.

Record case := mkH {
  h_w : N; h_j : N; h_h : N; h_k : N;
  h_crashed : bool; h_reopen_ok : bool;
  h_by_height : bool; h_id_at : bool; h_height_of : bool; h_by_id : bool; h_agree : bool }.

Definition historical_consistent (c : case) : bool :=
  h_reopen_ok c && h_agree c
  && Bool.eqb (h_by_height c) (h_id_at c) && Bool.eqb (h_id_at c) (h_height_of c) && Bool.eqb (h_height_of c) (h_by_id c).

Definition check_case : case -> bool := historical_consistent.
Definition spec_ok : case -> bool := historical_consistent.
