(* Correspondence + executable property oracle for C14. *)
From Coq Require Import List ZArith NArith Bool.
Import ListNotations.
From HV Require Import Lib.Bytes Lib.U64 Lib.Varint Lib.Harness Model.Estimate.
Local Open Scope N_scope.

(* Inputs: the rules' unit parameters, what EstimateUnits reads of each action (byte length, compute
   units, keys of StateKeys(factory.Address(), CreateActionID(ids.Empty, i))), what Units reads of each
   action of the signed transaction (keys of StateKeys(auth.Actor(), CreateActionID(txID, i))),
   factory.MaxUnits(), the actual auth size / compute units, the sponsor keys, the base fields of the
   signed transaction, unit prices.
   Observed outputs: EstimateUnits, Units (None = error), len(tx.Bytes()), MulSum(prices, .) of both,
   whether GenerateTransaction itself succeeded (otherwise the tx was built with GenerateTransactionManual). *)
Record case := mk {
  c_rules : erules;
  c_ts : Z; c_chain_nz : bool; c_max_fee : N;
  c_est_actions : list est_action;
  c_tx_actions : list tx_action;
  c_auth_bw : N; c_auth_cu_max : N;
  c_auth_len : N; c_auth_cu : N;
  c_sponsor_keys : list bytes;
  c_prices : list N;
  c_gen_ok : bool;
  c_impl_est : option (list N);
  c_impl_units : option (list N);
  c_impl_size : N;
  c_impl_fee_est : option N;
  c_impl_fee_units : option N }.

Definition eq_list (a b : list N) : bool := bytes_eqb a b.
Definition eq_opt_list (a b : option (list N)) : bool :=
  match a, b with Some x, Some y => eq_list x y | None, None => true | _, _ => false end.
Definition eq_opt_N (a b : option N) : bool :=
  match a, b with Some x, Some y => N.eqb x y | None, None => true | _, _ => false end.
Definition opt_bind {A B} (o : option A) (f : A -> option B) : option B :=
  match o with Some x => f x | None => None end.

Definition model_est (c : case) := estimate_units (c_rules c) (c_est_actions c) (c_auth_bw c) (c_auth_cu_max c).
Definition model_size (c : case) :=
  signed_tx_size (c_ts c) (c_chain_nz c) (c_max_fee c) (c_tx_actions c) (c_auth_len c).
Definition model_units (c : case) :=
  tx_units (c_rules c) (model_size c) (c_tx_actions c) (c_auth_cu c) (c_sponsor_keys c).

(* model = implementation *)
Definition check_case (c : case) : bool :=
  eq_opt_list (model_est c) (c_impl_est c) &&
  N.eqb (model_size c) (c_impl_size c) &&
  eq_opt_list (model_units c) (c_impl_units c) &&
  eq_opt_N (opt_bind (model_est c) (mul_sum (c_prices c))) (c_impl_fee_est c) &&
  eq_opt_N (opt_bind (model_units c) (mul_sum (c_prices c))) (c_impl_fee_units c) &&
  (* GenerateTransaction succeeds iff the estimated fee is computable, and then MaxFee is that fee *)
  (match c_impl_fee_est c with
   | Some F => c_gen_ok c && N.eqb (c_max_fee c) F
   | None => negb (c_gen_ok c)
   end).

(* the property on the implementation's outputs: estimate >= units in every dimension, hence the budgeted
   fee covers the fee at the same prices *)
Fixpoint all_le (u e : list N) : bool :=
  match u, e with
  | [], [] => true
  | x :: u', y :: e' => (x <=? y) && all_le u' e'
  | _, _ => false
  end.

Definition spec_ok (c : case) : bool :=
  match c_impl_est c with
  | None => true        (* no estimate, no transaction generated from it *)
  | Some e =>
      match c_impl_units c with
      | None => false
      | Some u =>
          all_le u e && (N.of_nat (length e) =? 5) &&
          match c_impl_fee_est c with
          | None => true
          | Some F =>
              match c_impl_fee_units c with
              | None => false
              | Some f => (f <=? F) && (if c_gen_ok c then f <=? c_max_fee c else true)
              end
          end
      end
  end.

Definition st_rules : erules := mkER 1 5 2 20 5 10 3 [1].
Definition selftest_good : case :=
  mk st_rules 1700000060000%Z true 38700 [mkEA 46 1 [[0;7;0;1]; [0;8;0;1]]; mkEA 146 1 [[0;7;0;1]; [0;9;0;1]]]
     [mkTA 46 1 [[0;7;0;1]; [0;8;0;1]]; mkTA 146 1 [[0;7;0;1]; [0;9;0;1]]] 97 5 97 5 [[0;7;0;1]]
     [100;0;0;0;0] true (Some [387; 8; 35; 125; 65]) (Some [348; 8; 21; 75; 39]) 348 (Some 38700) (Some 34800).
Definition selftest_bad : case :=
  mk st_rules 1700000060000%Z true 38700 [mkEA 46 1 [[0;7;0;1]; [0;8;0;1]]; mkEA 146 1 [[0;7;0;1]; [0;9;0;1]]]
     [mkTA 46 1 [[0;7;0;1]; [0;8;0;1]]; mkTA 146 1 [[0;7;0;1]; [0;9;0;1]]] 97 5 97 5 [[0;7;0;1]]
     [100;0;0;0;0] true (Some [387; 8; 35; 125; 65]) (Some [347; 8; 21; 75; 39]) 348 (Some 38700) (Some 34800).
