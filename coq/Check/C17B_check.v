(* C17, verification-path side: "a transaction's id cannot be changed without the signer's key" presupposes that a
   signature that does not verify is never accepted, on whichever path block verification takes (the ed25519 batch
   verifier, AuthBatch over the worker pool, Processor.Execute).  The cases are those of the C16 driver
   (Check/C16_check.v); only the direction "some signature invalid => rejected" is evaluated here -- the converse
   (a block of valid signatures is accepted) is property C16's business alone. *)
From Coq Require Import List NArith Bool.
Import ListNotations.
From HV Require Export Check.C16_check.
Local Open Scope N_scope.

Definition invalid_rejected (c : case) : bool :=
  match c with
  | CEd cores count valid adds done =>
      if (count =? N.of_nat (length valid)) && (1 <=? cores) then
        forallb vid valid || negb (forallb vid (obools adds) && forallb vid done)
      else true
  | CAb cores edb blk ngo err => all_valid blk || negb (err =? 0)
  | CEx cores blk res => all_valid blk || negb (res =? 0)
  end.

Definition check_case : case -> bool := invalid_rejected.
Definition spec_ok : case -> bool := invalid_rejected.
