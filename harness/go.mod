module github.com/ava-labs/hypersdk/verifharness

go 1.23.7

require (
	filippo.io/edwards25519 v1.0.0
	github.com/StephenButtolph/canoto v0.15.0
	github.com/ava-labs/avalanchego v1.13.1-rc.0.0.20250414210208-c8b3f57d2a25
	github.com/ava-labs/hypersdk v0.0.0-00010101000000-000000000000
	github.com/ava-labs/hypersdk/examples/morpheusvm v0.0.0-00010101000000-000000000000
	github.com/gorilla/websocket v1.5.0
	github.com/hdevalence/ed25519consensus v0.2.0
	github.com/prometheus/client_golang v1.16.0
	go.opentelemetry.io/otel/trace v1.22.0
	go.uber.org/zap v1.26.0
	google.golang.org/protobuf v1.35.2
)

require (
	github.com/DataDog/zstd v1.5.2 // indirect
	github.com/beorn7/perks v1.0.1 // indirect
	github.com/cenkalti/backoff/v4 v4.2.1 // indirect
	github.com/cespare/xxhash/v2 v2.3.0 // indirect
	github.com/cockroachdb/errors v1.9.1 // indirect
	github.com/cockroachdb/logtags v0.0.0-20230118201751-21c54148d20b // indirect
	github.com/cockroachdb/pebble v0.0.0-20230928194634-aa077af62593 // indirect
	github.com/cockroachdb/redact v1.1.3 // indirect
	github.com/cockroachdb/tokenbucket v0.0.0-20230807174530-cc333fc44b06 // indirect
	github.com/davecgh/go-spew v1.1.1 // indirect
	github.com/getsentry/sentry-go v0.18.0 // indirect
	github.com/go-logr/logr v1.4.1 // indirect
	github.com/go-logr/stdr v1.2.2 // indirect
	github.com/gogo/protobuf v1.3.2 // indirect
	github.com/golang/protobuf v1.5.4 // indirect
	github.com/golang/snappy v0.0.5-0.20220116011046-fa5810519dcb // indirect
	github.com/google/btree v1.1.2 // indirect
	github.com/google/renameio/v2 v2.0.0 // indirect
	github.com/gorilla/rpc v1.2.0 // indirect
	github.com/grpc-ecosystem/grpc-gateway/v2 v2.16.0 // indirect
	github.com/kr/pretty v0.3.1 // indirect
	github.com/kr/text v0.2.0 // indirect
	github.com/matttproud/golang_protobuf_extensions v1.0.4 // indirect
	github.com/mr-tron/base58 v1.2.0 // indirect
	github.com/neilotoole/errgroup v0.1.6 // indirect
	github.com/onsi/ginkgo/v2 v2.13.1 // indirect
	github.com/pkg/errors v0.9.1 // indirect
	github.com/pmezard/go-difflib v1.0.0 // indirect
	github.com/prometheus/client_model v0.3.0 // indirect
	github.com/prometheus/common v0.42.0 // indirect
	github.com/prometheus/procfs v0.10.1 // indirect
	github.com/rogpeppe/go-internal v1.12.0 // indirect
	github.com/stretchr/testify v1.10.0 // indirect
	github.com/supranational/blst v0.3.14 // indirect
	go.opentelemetry.io/otel v1.22.0 // indirect
	go.opentelemetry.io/otel/exporters/otlp/otlptrace v1.22.0 // indirect
	go.opentelemetry.io/otel/exporters/otlp/otlptrace/otlptracegrpc v1.22.0 // indirect
	go.opentelemetry.io/otel/exporters/otlp/otlptrace/otlptracehttp v1.22.0 // indirect
	go.opentelemetry.io/otel/metric v1.22.0 // indirect
	go.opentelemetry.io/otel/sdk v1.22.0 // indirect
	go.opentelemetry.io/proto/otlp v1.0.0 // indirect
	go.uber.org/atomic v1.11.0 // indirect
	go.uber.org/multierr v1.11.0 // indirect
	golang.org/x/crypto v0.35.0 // indirect
	golang.org/x/exp v0.0.0-20241215155358-4a5509556b9e // indirect
	golang.org/x/net v0.36.0 // indirect
	golang.org/x/sync v0.11.0 // indirect
	golang.org/x/sys v0.30.0 // indirect
	golang.org/x/term v0.29.0 // indirect
	golang.org/x/text v0.22.0 // indirect
	gonum.org/v1/gonum v0.11.0 // indirect
	google.golang.org/genproto/googleapis/api v0.0.0-20240604185151-ef581f913117 // indirect
	google.golang.org/genproto/googleapis/rpc v0.0.0-20240827150818-7e3bb234dfed // indirect
	google.golang.org/grpc v1.66.0 // indirect
	gopkg.in/natefinch/lumberjack.v2 v2.0.0 // indirect
	gopkg.in/yaml.v3 v3.0.1 // indirect
)

replace github.com/ava-labs/hypersdk => /repo

replace github.com/ava-labs/hypersdk/examples/morpheusvm => /repo/examples/morpheusvm
