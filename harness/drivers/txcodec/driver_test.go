// Driver for C15: canonical encoding of transactions, transaction batches, blocks and results.
//
// Each case is (kind, byte string). The driver feeds the byte string to the real decoder
//
//	0 chain.UnmarshalTx   1 chain.BatchedTransactionSerializer.Unmarshal   2 chain.UnmarshalBlock
//	3 chain.ParseExecutionResults   4 chain.UnmarshalResult
//
// with the MorpheusVM parser (Transfer action; ed25519 / secp256r1 / BLS auth) and reports the error class
// or, when accepted, the parsed parts through the real accessors, the bytes rebuilt from those parts
// (NewTransaction / Marshal / NewStatelessBlock / MarshalCanoto of a copy) and whether cached bytes and ids agree.
package txcodec

import (
	"bytes"
	stded25519 "crypto/ed25519"
	"encoding/binary"
	"encoding/json"
	"errors"
	"fmt"
	"io"
	"math"
	"math/rand"
	"strings"
	"testing"

	"github.com/StephenButtolph/canoto"
	"github.com/ava-labs/avalanchego/ids"
	"github.com/ava-labs/avalanchego/snow/engine/snowman/block"

	"github.com/ava-labs/hypersdk/auth"
	"github.com/ava-labs/hypersdk/chain"
	"github.com/ava-labs/hypersdk/codec"
	"github.com/ava-labs/hypersdk/crypto/bls"
	"github.com/ava-labs/hypersdk/crypto/ed25519"
	"github.com/ava-labs/hypersdk/crypto/secp256r1"
	"github.com/ava-labs/hypersdk/examples/morpheusvm/actions"
	"github.com/ava-labs/hypersdk/fees"
	"github.com/ava-labs/hypersdk/utils"
	"github.com/ava-labs/hypersdk/verifharness/emit"
)

type input struct {
	Kind  int    `json:"kind"`
	Bytes []byte `json:"bytes"`
	Gen   string `json:"gen,omitempty"`
}

type mirror struct {
	input
	Class int    `json:"class"`
	Error string `json:"error,omitempty"`
	Reenc []byte `json:"reenc,omitempty"`
}

// ---- the parser: MorpheusVM registry, wrapped to record what the BLS decoder was asked -----------

type blsObs struct {
	b  []byte
	ok bool
}

type recParser struct {
	inner *chain.TxTypeParser
	bls   []blsObs
}

func newParser() *recParser {
	ap := codec.NewTypeParser[chain.Action]()
	up := codec.NewTypeParser[chain.Auth]()
	if err := errors.Join(
		ap.Register(&actions.Transfer{}, actions.UnmarshalTransfer),
		up.Register(&auth.ED25519{}, auth.UnmarshalED25519),
		up.Register(&auth.SECP256R1{}, auth.UnmarshalSECP256R1),
		up.Register(&auth.BLS{}, auth.UnmarshalBLS),
	); err != nil {
		panic(err)
	}
	return &recParser{inner: chain.NewTxTypeParser(ap, up)}
}

func (p *recParser) ParseAction(b []byte) (chain.Action, error) { return p.inner.ParseAction(b) }
func (p *recParser) ParseAuth(b []byte) (chain.Auth, error) {
	a, err := p.inner.ParseAuth(b)
	if len(b) == auth.BLSSize && b[0] == auth.BLSID {
		p.bls = append(p.bls, blsObs{append([]byte{}, b...), err == nil})
	}
	return a, err
}

func classify(err error) int {
	switch {
	case err == nil:
		return 0
	case errors.Is(err, io.ErrUnexpectedEOF):
		return 1
	case errors.Is(err, canoto.ErrOverflow):
		return 2
	case errors.Is(err, canoto.ErrPaddedZeroes):
		return 3
	case errors.Is(err, canoto.ErrInvalidWireType):
		return 4
	case errors.Is(err, canoto.ErrInvalidFieldOrder):
		return 5
	case errors.Is(err, canoto.ErrUnexpectedWireType):
		return 6
	case errors.Is(err, canoto.ErrZeroValue):
		return 7
	case errors.Is(err, canoto.ErrUnknownField):
		return 8
	case errors.Is(err, canoto.ErrInvalidLength):
		return 9
	case errors.Is(err, canoto.ErrInvalidBool):
		return 12
	case errors.Is(err, chain.ErrNilTxInBlock):
		return 13
	case strings.HasPrefix(err.Error(), "failed to parse action"):
		return 10
	case strings.HasPrefix(err.Error(), "failed to parse auth"):
		return 11
	default:
		return 99
	}
}

var classNames = map[int]string{0: "accept", 1: "eof", 2: "overflow", 3: "padded", 4: "invalid-wire", 5: "order", 6: "wire",
	7: "zero", 8: "unknown", 9: "length", 10: "action", 11: "auth", 12: "bool", 13: "nil-tx", 97: "panic", 99: "other"}

// ---- observations --------------------------------------------------------------------------------

func txObs(tx *chain.Transaction, slice []byte) (string, *chain.Transaction, bool) {
	acts := make([][]byte, len(tx.Actions))
	for i, a := range tx.Actions {
		acts[i] = a.Bytes()
	}
	rebuilt, err := chain.NewTransaction(tx.Base, tx.Actions, tx.Auth)
	if err != nil {
		panic(err)
	}
	cachedOK := bytes.Equal(tx.Bytes(), slice) && bytes.HasPrefix(tx.Bytes(), tx.UnsignedBytes()) &&
		tx.GetID() == utils.ToID(slice) && tx.Size() == len(slice)
	reencOK := bytes.Equal(rebuilt.Bytes(), tx.Bytes()) && bytes.Equal(rebuilt.UnsignedBytes(), tx.UnsignedBytes()) &&
		rebuilt.GetID() == tx.GetID()
	s := emit.App("mkObs", emit.Z(tx.Base.Timestamp), emit.Bytes(tx.Base.ChainID[:]), emit.N(tx.Base.MaxFee),
		emit.BytesList(acts), emit.Bytes(tx.Auth.Bytes()), emit.N(uint64(len(tx.UnsignedBytes()))),
		emit.Bool(cachedOK), emit.Bool(reencOK))
	return s, rebuilt, cachedOK && reencOK
}

func resObs(r *chain.Result) string {
	if r == nil {
		return "(@None res_obs)"
	}
	u := make([]string, len(r.Units))
	for i, v := range r.Units {
		u[i] = emit.N(v)
	}
	return emit.Some(emit.App("mkResObs", emit.Bool(r.Success), emit.Bytes(r.Error), emit.BytesList(r.Outputs), emit.List("N", u), emit.N(r.Fee)))
}

func copyResult(r *chain.Result) *chain.Result {
	if r == nil {
		return nil
	}
	c := &chain.Result{Success: r.Success, Error: append([]byte(nil), r.Error...), Units: r.Units, Fee: r.Fee}
	for _, o := range r.Outputs {
		c.Outputs = append(c.Outputs, append([]byte(nil), o...))
	}
	return c
}

func dimsList(d fees.Dimensions) string {
	u := make([]string, len(d))
	for i, v := range d {
		u[i] = emit.N(v)
	}
	return emit.List("N", u)
}

func run(in input) (c emit.Case) {
	p := newParser()
	var (
		class   int
		errText string
		txs     []string
		blk     = "(@None blk_obs)"
		results []string
		dims    []string
		reenc   []byte
		flags   = true
	)
	func() {
		defer func() {
			if r := recover(); r != nil {
				class, errText = 97, fmt.Sprint(r)
			}
		}()
		switch in.Kind {
		case 0:
			tx, err := chain.UnmarshalTx(in.Bytes, p)
			class = classify(err)
			if err != nil {
				errText = err.Error()
				return
			}
			o, rebuilt, _ := txObs(tx, in.Bytes)
			txs = append(txs, o)
			reenc = rebuilt.Bytes()
			flags = bytes.Equal(tx.Bytes(), in.Bytes)
		case 1:
			ser := &chain.BatchedTransactionSerializer{Parser: p}
			list, err := ser.Unmarshal(in.Bytes)
			class = classify(err)
			if err != nil {
				errText = err.Error()
				return
			}
			rebuiltTxs := make([]*chain.Transaction, len(list))
			for i, tx := range list {
				o, rebuilt, _ := txObs(tx, tx.Bytes())
				txs = append(txs, o)
				rebuiltTxs[i] = rebuilt
			}
			reenc = ser.Marshal(rebuiltTxs)
			flags = bytes.Equal(ser.Marshal(list), in.Bytes)
		case 2:
			b, err := chain.UnmarshalBlock(in.Bytes, p)
			class = classify(err)
			if err != nil {
				errText = err.Error()
				return
			}
			rebuiltTxs := make([]*chain.Transaction, len(b.Txs))
			for i, tx := range b.Txs {
				o, rebuilt, _ := txObs(tx, tx.Bytes())
				txs = append(txs, o)
				rebuiltTxs[i] = rebuilt
			}
			ctx := "(@None N)"
			var ctxCopy *block.Context
			if b.BlockContext != nil {
				ctx = emit.Some(emit.N(b.BlockContext.PChainHeight))
				ctxCopy = &block.Context{PChainHeight: b.BlockContext.PChainHeight}
			}
			blk = emit.Some(emit.App("mkBlkObs", emit.Bytes(b.Prnt[:]), emit.N(uint64(b.Tmstmp)), emit.N(b.Hght), ctx, emit.Bytes(b.StateRoot[:])))
			rb, err := chain.NewStatelessBlock(b.Prnt, b.Tmstmp, b.Hght, rebuiltTxs, b.StateRoot, ctxCopy)
			if err != nil {
				panic(err)
			}
			reenc = rb.GetBytes()
			flags = bytes.Equal(b.GetBytes(), in.Bytes) && b.GetID() == utils.ToID(in.Bytes) &&
				(rb.GetID() == b.GetID()) == bytes.Equal(rb.GetBytes(), b.GetBytes()) && b.Size() == len(in.Bytes) &&
				b.GetParent() == b.Prnt && b.GetTimestamp() == b.Tmstmp && b.GetHeight() == b.Hght && b.GetStateRoot() == b.StateRoot
		case 3:
			e, err := chain.ParseExecutionResults(in.Bytes)
			class = classify(err)
			if err != nil {
				errText = err.Error()
				return
			}
			cp := make([]*chain.Result, len(e.Results))
			for i, r := range e.Results {
				results = append(results, resObs(r))
				cp[i] = copyResult(r)
			}
			dims = []string{dimsList(e.UnitPrices), dimsList(e.UnitsConsumed)}
			reenc = chain.NewExecutionResults(cp, e.UnitPrices, e.UnitsConsumed).Marshal()
			flags = bytes.Equal(e.Marshal(), in.Bytes)
		case 4:
			r, err := chain.UnmarshalResult(in.Bytes)
			class = classify(err)
			if err != nil {
				errText = err.Error()
				return
			}
			results = append(results, resObs(r))
			reenc = copyResult(r).Marshal()
			flags = bytes.Equal(r.Marshal(), in.Bytes)
		}
	}()
	blsItems := make([]string, len(p.bls))
	for i, o := range p.bls {
		blsItems[i] = emit.Pair(emit.Bytes(o.b), emit.Bool(o.ok))
	}
	coq := emit.App("mk", emit.N(uint64(in.Kind)), emit.Bytes(in.Bytes), emit.List("bytes * bool", blsItems), emit.N(uint64(class)),
		emit.List("tx_obs", txs), blk, emit.List("option res_obs", results), emit.List("list N", dims), emit.Bool(class == 0 && bytes.Equal(reenc, in.Bytes)), emit.Bool(flags))
	if len(errText) > 120 {
		errText = errText[:120]
	}
	kinds := []string{"tx", "batch", "block", "results", "result"}
	sig := "noncanonical-" + kinds[in.Kind] + "-accepted"
	if class == 0 && bytes.Equal(reenc, in.Bytes) {
		sig = kinds[in.Kind] + "-cached-bytes-or-id-mismatch"
	}
	if class == 97 {
		sig = kinds[in.Kind] + "-decoder-panic"
	}
	g := in.Gen
	if i := strings.IndexByte(g, '/'); i >= 0 {
		g = g[:i]
	}
	return emit.Case{Coq: coq, JSON: mirror{input: in, Class: class, Error: errText, Reenc: reenc}, Nontrivial: len(in.Bytes) > 0,
		Kind: kinds[in.Kind] + ":" + g + ":" + classNames[class], Sig: sig}
}

// ---- wire builder (independent of canoto, allows malformed output) ----------------------------------

func uvar(v uint64, pad int) []byte {
	b := binary.AppendUvarint(nil, v)
	for i := 0; i < pad; i++ { // non-minimal: set the continuation bit and append a zero group
		b[len(b)-1] |= 0x80
		b = append(b, 0)
	}
	return b
}

func tagB(field uint32, wt int) []byte { return uvar(uint64(field)<<3|uint64(wt), 0) }

func lenField(field uint32, payload []byte, padLen int) []byte {
	out := tagB(field, 2)
	out = append(out, uvar(uint64(len(payload)), padLen)...)
	return append(out, payload...)
}

func zigzag(v int64) uint64 {
	if v >= 0 {
		return uint64(v) << 1
	}
	return ^uint64(v)<<1 | 1
}

func fint(v uint64) []byte { return binary.LittleEndian.AppendUint64(nil, v) }

func concat(parts ...[]byte) []byte {
	var out []byte
	for _, p := range parts {
		out = append(out, p...)
	}
	return out
}

// ---- valid values ---------------------------------------------------------------------------------

func seed32(i int) []byte {
	s := make([]byte, 32)
	s[0] = byte(i + 1)
	s[31] = 0x11
	return s
}

func factoryOf(t, k int) chain.AuthFactory {
	switch t {
	case 0:
		var pk ed25519.PrivateKey
		copy(pk[:], stded25519.NewKeyFromSeed(seed32(k)))
		return auth.NewED25519Factory(pk)
	case 1:
		var pk secp256r1.PrivateKey
		copy(pk[:], seed32(k))
		return &detSecp{pk: pk}
	default:
		pk, err := bls.PrivateKeyFromBytes(seed32(k))
		if err != nil {
			panic(err)
		}
		return auth.NewBLSFactory(pk)
	}
}

// detSecp: ECDSA signing draws from crypto/rand; decoding never verifies signatures, so the driver uses a
// signature derived from the message instead, to stay deterministic for a given seed.
type detSecp struct{ pk secp256r1.PrivateKey }

func (d *detSecp) Sign(msg []byte) (chain.Auth, error) {
	var sig secp256r1.Signature
	h := utils.ToID(msg)
	copy(sig[:], h[:])
	copy(sig[32:], h[:])
	return &auth.SECP256R1{Signer: d.pk.PublicKey(), Signature: sig}, nil
}
func (*detSecp) MaxUnits() (uint64, uint64) { return auth.SECP256R1Size, auth.SECP256R1ComputeUnits }
func (d *detSecp) Address() codec.Address    { return auth.NewSECP256R1Address(d.pk.PublicKey()) }

type txParts struct {
	ts      int64
	chain   ids.ID
	fee     uint64
	actions [][]byte
	auth    []byte
}

func transferBytes(r *rand.Rand) []byte {
	var to codec.Address
	to[0] = byte(r.Intn(2))
	to[1] = byte(r.Intn(4))
	memo := make([]byte, []int{0, 0, 0, 1, 1, 2, 5, 5, 81, 82, 128, 256}[r.Intn(12)])
	for i := range memo {
		memo[i] = byte(r.Intn(256))
	}
	t := &actions.Transfer{To: to, Value: []uint64{0, 1, 255, 256, math.MaxUint64}[r.Intn(5)], Memo: memo}
	return t.Bytes()
}

func genParts(r *rand.Rand) txParts {
	p := txParts{}
	p.ts = []int64{0, 1000, 1_700_000_060_000, 1_700_000_060_000, -1000, 63, 64, math.MaxInt64, math.MinInt64, 1 << 20}[r.Intn(10)]
	if r.Intn(5) != 0 {
		p.chain = ids.ID{byte(r.Intn(3)), 2, 3}
		if r.Intn(4) == 0 {
			p.chain = ids.ID{}
			p.chain[31] = 1
		}
	}
	p.fee = []uint64{0, 1, 1000, 1 << 40, math.MaxUint64}[r.Intn(5)]
	n := []int{0, 1, 1, 1, 1, 2, 2, 3}[r.Intn(8)]
	for i := 0; i < n; i++ {
		p.actions = append(p.actions, transferBytes(r))
	}
	return p
}

// signedTx serialises parts with the real code (SignRawActionBytesTx) and returns the bytes and the auth bytes.
func signedTx(r *rand.Rand, p *txParts) []byte {
	f := factoryOf([]int{0, 0, 0, 1, 1, 2}[r.Intn(6)], r.Intn(2))
	b, err := chain.SignRawActionBytesTx(chain.Base{Timestamp: p.ts, ChainID: p.chain, MaxFee: p.fee}, p.actions, f)
	if err != nil {
		panic(err)
	}
	var s chain.SerializeTx
	if err := s.UnmarshalCanoto(b); err != nil {
		panic(err)
	}
	p.auth = append([]byte{}, s.Auth...)
	return b
}

// baseWire / txWire rebuild the encoding by hand with optional defects.
type defects struct {
	padTs, padBaseLen, padActLen, padAuthLen, padChainLen, padTag int
	explicitZeroTs, explicitZeroFee, explicitZeroChain, emptyAuthField, emptyBaseField bool
	baseOrder, txOrder                                                                 []int // permutation / duplication of field order
	chainLen                                                                           int   // 0 = 32
	unknownField, wrongWire, unknownBaseField                                          bool
}

func baseWire(p txParts, d defects) []byte {
	f1, f2, f3 := []byte{}, []byte{}, []byte{}
	if p.ts != 0 || d.explicitZeroTs {
		f1 = concat(tagB(1, 0), uvar(zigzag(p.ts), d.padTs))
	}
	if p.chain != ids.Empty || d.explicitZeroChain || d.chainLen != 0 {
		n := 32
		if d.chainLen != 0 {
			n = d.chainLen
		}
		c := make([]byte, n)
		copy(c, p.chain[:])
		f2 = concat(tagB(2, 2), uvar(uint64(n), d.padChainLen), c)
	}
	if p.fee != 0 || d.explicitZeroFee {
		f3 = concat(tagB(3, 1), fint(p.fee))
	}
	fs := [][]byte{f1, f2, f3}
	order := d.baseOrder
	if order == nil {
		order = []int{0, 1, 2}
	}
	out := []byte{}
	for _, i := range order {
		out = append(out, fs[i]...)
	}
	if d.unknownBaseField {
		out = append(out, concat(tagB(4, 0), []byte{1})...)
	}
	return out
}

func txWire(p txParts, d defects) []byte {
	b := baseWire(p, d)
	f1 := []byte{}
	if len(b) != 0 || d.emptyBaseField {
		f1 = lenField(1, b, d.padBaseLen)
		if d.padTag > 0 {
			f1 = concat(uvar(1<<3|2, d.padTag), uvar(uint64(len(b)), 0), b)
		}
	}
	f2 := []byte{}
	for _, a := range p.actions {
		f2 = append(f2, lenField(2, a, d.padActLen)...)
	}
	f3 := []byte{}
	if len(p.auth) != 0 || d.emptyAuthField {
		f3 = lenField(3, p.auth, d.padAuthLen)
		if d.wrongWire {
			f3 = concat(tagB(3, 0), uvar(uint64(len(p.auth)), 0), p.auth)
		}
	}
	fs := [][]byte{f1, f2, f3}
	order := d.txOrder
	if order == nil {
		order = []int{0, 1, 2}
	}
	out := []byte{}
	for _, i := range order {
		out = append(out, fs[i]...)
	}
	if d.unknownField {
		out = append(out, lenField(4, []byte{1, 2}, 0)...)
	}
	return out
}

// ---- generators -----------------------------------------------------------------------------------

func mutateBytes(r *rand.Rand, b []byte) ([]byte, string) {
	out := append([]byte{}, b...)
	if len(out) == 0 {
		return []byte{byte(r.Intn(256))}, "insert"
	}
	pos := r.Intn(len(out))
	if r.Intn(2) == 0 && len(out) > 60 { // bias to the header / first length prefixes
		pos = r.Intn(60)
	}
	switch r.Intn(7) {
	case 0:
		out[pos] ^= 1 << uint(r.Intn(8))
		return out, "bitflip"
	case 1:
		out[pos] = byte(r.Intn(256))
		return out, "byteset"
	case 2:
		return append(out[:pos], out[pos+1:]...), "delete"
	case 3:
		ins := byte(r.Intn(256))
		return append(out[:pos], append([]byte{ins}, out[pos:]...)...), "insert"
	case 4:
		return out[:pos], "truncate"
	case 5:
		tail := [][]byte{{0}, {0x80, 0}, {0x22, 0}, {0x1a, 1, 0}, {0xff}}[r.Intn(5)]
		return append(out, tail...), "trailing"
	default:
		out[len(out)-1-r.Intn(min(len(out), 4))] ^= 0x80
		return out, "tailflip"
	}
}

func genTx(r *rand.Rand) ([]byte, string) {
	p := genParts(r)
	valid := signedTx(r, &p)
	switch r.Intn(20) {
	case 0, 1, 2, 3:
		return valid, "valid"
	case 4, 5, 6, 7:
		b, how := mutateBytes(r, valid)
		return b, "mutate/" + how
	case 8: // an action with trailing bytes / overlong memo / wrong id / truncated / empty, kept inside a well-formed tx
		if len(p.actions) == 0 {
			p.actions = [][]byte{transferBytes(r)}
		}
		i := r.Intn(len(p.actions))
		a := append([]byte{}, p.actions[i]...)
		how := ""
		switch r.Intn(6) {
		case 0:
			a, how = append(a, byte(r.Intn(2))), "trailing-byte"
		case 1:
			a, how = append(a, make([]byte, 1+r.Intn(40))...), "trailing-bytes"
		case 2:
			a[0], how = 1, "wrong-id"
		case 3:
			a, how = a[:len(a)-1-r.Intn(min(len(a)-1, 10))], "truncated"
		case 4:
			a, how = []byte{}, "empty"
		default: // memo of 257 bytes
			t := &actions.Transfer{Value: 1, Memo: make([]byte, 257+r.Intn(3))}
			a, how = t.Bytes(), "memo-too-large"
		}
		p.actions[i] = a
		return txWire(p, defects{}), "action/" + how
	case 9: // auth of the wrong size / type / empty
		how := ""
		switch r.Intn(6) {
		case 0:
			p.auth, how = p.auth[:len(p.auth)-1], "short"
		case 1:
			p.auth, how = append(append([]byte{}, p.auth...), 0), "long"
		case 2:
			p.auth, how = nil, "absent"
		case 3:
			p.auth, how = append([]byte{9}, p.auth[1:]...), "unknown-type"
		case 4:
			p.auth, how = append([]byte{byte((int(p.auth[0]) + 1) % 3)}, p.auth[1:]...), "other-type-same-len"
		default:
			a := append([]byte{}, p.auth...)
			a[1+r.Intn(len(a)-1)] ^= 1 << uint(r.Intn(8))
			p.auth, how = a, "key-or-sig-bitflip"
		}
		return txWire(p, defects{}), "auth/" + how
	case 10:
		p.auth = nil
		return txWire(p, defects{emptyAuthField: true}), "auth/explicit-empty"
	case 11: // padded varints
		d := defects{}
		how := ""
		switch r.Intn(6) {
		case 0:
			d.padTs, how = 1+r.Intn(2), "timestamp"
		case 1:
			d.padBaseLen, how = 1, "base-len"
		case 2:
			d.padActLen, how = 1, "action-len"
		case 3:
			d.padAuthLen, how = 1+r.Intn(8), "auth-len"
		case 4:
			d.padChainLen, how = 1, "chain-len"
		default:
			d.padTag, how = 1, "tag"
		}
		return txWire(p, d), "padded/" + how
	case 12: // explicit zero values
		d := defects{}
		how := ""
		switch r.Intn(4) {
		case 0:
			p.ts, d.explicitZeroTs, how = 0, true, "timestamp"
		case 1:
			p.fee, d.explicitZeroFee, how = 0, true, "fee"
		case 2:
			p.chain, d.explicitZeroChain, how = ids.Empty, true, "chain"
		default:
			p.ts, p.fee, p.chain = 0, 0, ids.Empty
			d.emptyBaseField, how = true, "empty-base"
		}
		return txWire(p, d), "zero/" + how
	case 13: // field order / duplicates
		d := defects{}
		how := ""
		switch r.Intn(6) {
		case 0:
			d.txOrder, how = [][]int{{1, 0, 2}, {0, 2, 1}, {2, 0, 1}, {2, 1, 0}}[r.Intn(4)], "tx-reordered"
		case 1:
			d.txOrder, how = [][]int{{0, 0, 1, 2}, {0, 1, 2, 2}, {0, 1, 2, 1}, {0, 1, 2, 0}}[r.Intn(4)], "tx-duplicated"
		case 2:
			d.baseOrder, how = [][]int{{1, 0, 2}, {0, 2, 1}, {2, 1, 0}}[r.Intn(3)], "base-reordered"
		case 3:
			d.baseOrder, how = [][]int{{0, 0, 1, 2}, {0, 1, 1, 2}, {0, 1, 2, 2}}[r.Intn(3)], "base-duplicated"
		case 4:
			d.txOrder, how = [][]int{{0, 1}, {0, 2}, {1, 2}, {1}, {2}, {0}, {}}[r.Intn(7)], "tx-fields-missing"
		default:
			d.baseOrder, how = [][]int{{0, 1}, {0, 2}, {1, 2}, {1}, {2}, {0}}[r.Intn(6)], "base-fields-missing"
		}
		return txWire(p, d), "order/" + how
	case 14:
		d := defects{}
		how := ""
		switch r.Intn(4) {
		case 0:
			d.unknownField, how = true, "unknown-field"
		case 1:
			d.wrongWire, how = true, "wrong-wire-type"
		case 2:
			d.unknownBaseField, how = true, "unknown-base-field"
		default:
			d.chainLen, how = []int{31, 33, 0x80, 1}[r.Intn(4)], "chain-len"
		}
		return txWire(p, d), "shape/" + how
	case 15: // hand-built without defects must equal the real encoding (checks the builder too)
		return txWire(p, defects{}), "rebuilt-valid"
	case 16:
		b, how := mutateBytes(r, valid)
		b, how2 := mutateBytes(r, b)
		return b, "mutate2/" + how + "+" + how2
	case 17: // tiny inputs
		return [][]byte{{}, {0}, {0x0a}, {0x0a, 0}, {0x12, 0}, {0x1a, 0}, {0x0a, 2, 8, 0}, {0x80}, {0xff, 0xff, 0xff, 0xff, 0x0f}, {0xff, 0xff, 0xff, 0xff, 0x1f}, {0x0b, 0}, {0x0c}, {0x0f}}[r.Intn(13)], "tiny"
	default:
		return valid, "valid"
	}
}

func genBatch(r *rand.Rand) ([]byte, string) {
	n := []int{0, 1, 2, 3}[r.Intn(4)]
	var parts [][]byte
	how := "valid"
	for i := 0; i < n; i++ {
		b, h := genTx(r)
		if r.Intn(3) != 0 {
			p := genParts(r)
			b, h = signedTx(r, &p), "valid"
		}
		if h != "valid" {
			how = "bad-entry"
		}
		parts = append(parts, b)
	}
	out := []byte{}
	for _, p := range parts {
		out = append(out, lenField(1, p, 0)...)
	}
	switch r.Intn(8) {
	case 0:
		out, how = append(out, lenField(1, nil, 0)...), "nil-entry-last"
	case 1:
		out, how = append(lenField(1, nil, 0), out...), "nil-entry-first"
	case 2:
		var h string
		out, h = mutateBytes(r, out)
		how = "mutate/" + h
	case 3:
		out, how = append(out, lenField(2, []byte{1}, 0)...), "unknown-field"
	}
	return out, how
}

func genBlock(r *rand.Rand) ([]byte, string) {
	var txs []*chain.Transaction
	p := newParser()
	n := []int{0, 1, 1, 2, 2, 3}[r.Intn(6)]
	for i := 0; i < n; i++ {
		parts := genParts(r)
		tx, err := chain.UnmarshalTx(signedTx(r, &parts), p)
		if err != nil {
			panic(err)
		}
		txs = append(txs, tx)
	}
	var parent, root ids.ID
	if r.Intn(5) != 0 {
		parent = ids.ID{1, byte(r.Intn(3))}
	}
	if r.Intn(5) != 0 {
		root = ids.ID{2, byte(r.Intn(3))}
	}
	ts := []int64{0, 1, 1_700_000_000_000, -1, math.MinInt64}[r.Intn(5)]
	h := []uint64{0, 1, 7, math.MaxUint64}[r.Intn(4)]
	var ctx *block.Context
	switch r.Intn(4) {
	case 0:
		ctx = &block.Context{PChainHeight: uint64(1 + r.Intn(300))}
	case 1:
		ctx = &block.Context{}
	}
	b, err := chain.NewStatelessBlock(parent, ts, h, txs, root, ctx)
	if err != nil {
		panic(err)
	}
	valid := b.GetBytes()
	switch r.Intn(10) {
	case 0, 1, 2:
		out, how := mutateBytes(r, valid)
		return out, "mutate/" + how
	case 3: // hand-built with defects
		f := [][]byte{}
		if parent != ids.Empty || r.Intn(3) == 0 {
			f = append(f, lenField(1, parent[:], 0))
		}
		f = append(f, concat(tagB(2, 1), fint(uint64(ts))), concat(tagB(3, 1), fint(h)))
		how := "explicit-zeros"
		switch r.Intn(5) {
		case 0:
			f = append(f, lenField(4, nil, 0))
			how = "empty-context"
		case 1:
			f = append(f, lenField(4, concat(tagB(1, 0), uvar(0, 0)), 0))
			how = "zero-context-height"
		case 2:
			f = append(f, lenField(4, concat(tagB(1, 0), uvar(5, 1)), 0))
			how = "padded-context-height"
		case 3:
			f = append(f, lenField(5, nil, 0))
			how = "nil-tx"
		}
		for _, tx := range txs {
			f = append(f, lenField(5, tx.Bytes(), 0))
		}
		if r.Intn(2) == 0 {
			f = append(f, lenField(6, root[:], 0))
		}
		if r.Intn(6) == 0 {
			r.Shuffle(len(f), func(i, j int) { f[i], f[j] = f[j], f[i] })
			how += "+shuffled"
		}
		return concat(f...), "built/" + how
	case 4: // a block whose transaction entry is non-canonical
		bad, how := genTx(r)
		f := concat(lenField(1, parent[:], 0), concat(tagB(2, 1), fint(uint64(ts))), lenField(5, bad, 0))
		return f, "bad-tx/" + how
	default:
		return valid, "valid"
	}
}

func randResult(r *rand.Rand) *chain.Result {
	res := &chain.Result{Success: r.Intn(2) == 0}
	if r.Intn(2) == 0 {
		res.Error = []byte("err")
	}
	for i := r.Intn(3); i > 0; i-- {
		res.Outputs = append(res.Outputs, make([]byte, r.Intn(3)))
	}
	if r.Intn(3) != 0 {
		res.Units = fees.Dimensions{uint64(r.Intn(3)), 0, uint64(r.Intn(2)), 0, uint64(r.Intn(300))}
	}
	res.Fee = []uint64{0, 1, 1 << 33}[r.Intn(3)]
	return res
}

func dimsWire(field uint32, vals []uint64) []byte {
	p := []byte{}
	for _, v := range vals {
		p = append(p, fint(v)...)
	}
	return lenField(field, p, 0)
}

func genResult(r *rand.Rand) ([]byte, string) {
	valid := randResult(r).Marshal()
	switch r.Intn(8) {
	case 0, 1:
		out, how := mutateBytes(r, valid)
		return out, "mutate/" + how
	case 2:
		f := [][]byte{concat(tagB(1, 0), []byte{byte(r.Intn(3))}), lenField(2, []byte("e"), 0), lenField(3, nil, 0),
			dimsWire(4, [][]uint64{{1, 2, 3, 4, 5}, {0, 0, 0, 0, 0}, {1, 2, 3, 4}, {1, 2, 3, 4, 5, 6}}[r.Intn(4)]), concat(tagB(5, 1), fint(uint64(r.Intn(2))))}
		if r.Intn(4) == 0 {
			r.Shuffle(len(f), func(i, j int) { f[i], f[j] = f[j], f[i] })
		}
		return concat(f...), "built"
	default:
		return valid, "valid"
	}
}

func genResults(r *rand.Rand) ([]byte, string) {
	var rs []*chain.Result
	for i := r.Intn(4); i > 0; i-- {
		rs = append(rs, randResult(r))
	}
	var pr, co fees.Dimensions
	if r.Intn(2) == 0 {
		pr = fees.Dimensions{100, 100, 100, 100, 100}
	}
	if r.Intn(2) == 0 {
		co = fees.Dimensions{uint64(r.Intn(3)), 0, 0, 0, 1}
	}
	valid := chain.NewExecutionResults(rs, pr, co).Marshal()
	switch r.Intn(8) {
	case 0, 1:
		out, how := mutateBytes(r, valid)
		return out, "mutate/" + how
	case 2:
		f := [][]byte{lenField(1, nil, 0), lenField(1, randResult(r).Marshal(), 0), dimsWire(2, []uint64{1, 0, 0, 0, 0}),
			dimsWire(3, [][]uint64{{0, 0, 0, 0, 0}, {1, 1, 1, 1, 1}, {1}}[r.Intn(3)])}
		if r.Intn(4) == 0 {
			r.Shuffle(len(f), func(i, j int) { f[i], f[j] = f[j], f[i] })
		}
		return concat(f...), "built"
	default:
		return valid, "valid"
	}
}

func gen(r *rand.Rand) input {
	k := r.Intn(20)
	switch {
	case k < 11:
		b, how := genTx(r)
		return input{Kind: 0, Bytes: b, Gen: how}
	case k < 13:
		b, how := genBatch(r)
		return input{Kind: 1, Bytes: b, Gen: how}
	case k < 17:
		b, how := genBlock(r)
		return input{Kind: 2, Bytes: b, Gen: how}
	case k < 18:
		b, how := genResults(r)
		return input{Kind: 3, Bytes: b, Gen: how}
	default:
		b, how := genResult(r)
		return input{Kind: 4, Bytes: b, Gen: how}
	}
}

// authCatalogue: on every run, for each auth type one well-formed transaction whose auth field (the only part the
// signature does not cover) is one byte short, one or several bytes long (zero, 0xff, a copy of itself), absent, of an
// unknown type, of another type with the same length -- each kept inside correct canoto framing.
func authCatalogue(w *emit.Writer, r *rand.Rand) {
	for at := 0; at < 3; at++ {
		p := txParts{ts: 1_700_000_060_000, chain: ids.ID{1, 2, 3}, fee: 1000, actions: [][]byte{transferBytes(r)}}
		b, err := chain.SignRawActionBytesTx(chain.Base{Timestamp: p.ts, ChainID: p.chain, MaxFee: p.fee}, p.actions, factoryOf(at, 0))
		if err != nil {
			panic(err)
		}
		var st chain.SerializeTx
		if err := st.UnmarshalCanoto(b); err != nil {
			panic(err)
		}
		a := append([]byte{}, st.Auth...)
		vars := []struct {
			how string
			v   []byte
		}{
			{"short", a[:len(a)-1]},
			{"long-00", append(append([]byte{}, a...), 0)},
			{"long-ff", append(append([]byte{}, a...), 0xff)},
			{"long-32", append(append([]byte{}, a...), make([]byte, 32)...)},
			{"doubled", append(append([]byte{}, a...), a...)},
			{"unknown-type", append([]byte{9}, a[1:]...)},
			{"other-type-same-len", append([]byte{byte((int(a[0]) + 1) % 3)}, a[1:]...)},
		}
		for _, v := range vars {
			q := p
			q.auth = v.v
			_ = w.Put(run(input{Kind: 0, Bytes: txWire(q, defects{}), Gen: fmt.Sprintf("auth-catalogue/%d/%s", at, v.how)}))
		}
	}
}

func exhaustive(w *emit.Writer, r *rand.Rand) {
	// every single-bit flip and every single-byte deletion of one valid transaction of each auth type
	for at := 0; at < 3; at++ {
		p := txParts{ts: 1_700_000_060_000, chain: ids.ID{1, 2, 3}, fee: 1000, actions: [][]byte{transferBytes(r), transferBytes(r)}}
		f := factoryOf(at, 0)
		valid, err := chain.SignRawActionBytesTx(chain.Base{Timestamp: p.ts, ChainID: p.chain, MaxFee: p.fee}, p.actions, f)
		if err != nil {
			panic(err)
		}
		for i := range valid {
			for bit := 0; bit < 8; bit++ {
				m := append([]byte{}, valid...)
				m[i] ^= 1 << uint(bit)
				_ = w.Put(run(input{Kind: 0, Bytes: m, Gen: "exhaustive-bitflip"}))
			}
			m := append(append([]byte{}, valid[:i]...), valid[i+1:]...)
			_ = w.Put(run(input{Kind: 0, Bytes: m, Gen: "exhaustive-delete"}))
		}
	}
}

func TestDriver(t *testing.T) {
	env := emit.GetEnv()
	if env.Out == "" {
		t.Skip("VERIF_OUT not set")
	}
	w, err := emit.NewWriter(env.Out)
	if err != nil {
		t.Fatal(err)
	}
	defer w.Close()
	if env.Mode == "replay" {
		raws, err := emit.ReadReplay(env.Replay)
		if err != nil {
			t.Fatal(err)
		}
		for _, raw := range raws {
			var in input
			if err := json.Unmarshal(raw, &in); err != nil {
				t.Fatal(err)
			}
			_ = w.Put(run(in))
		}
		return
	}
	r := env.Rand()
	authCatalogue(w, r)
	if env.Tier == "thorough" {
		exhaustive(w, r)
	}
	for i := 0; i < env.N; i++ {
		_ = w.Put(run(gen(r)))
	}
}
