// Driver for C39: metadata.HasConflictingPrefixes.
package metadata

import (
	"bytes"
	"encoding/json"
	"math/rand"
	"testing"

	"github.com/ava-labs/hypersdk/state/metadata"
	"github.com/ava-labs/hypersdk/verifharness/emit"
)

type input struct {
	H  []byte   `json:"h"`
	F  []byte   `json:"f"`
	T  []byte   `json:"t"`
	VM [][]byte `json:"vm"`
}

type mirror struct {
	input
	Impl   bool `json:"impl"`
	Intact bool `json:"intact"`
}

func run(in input) emit.Case {
	m := metadata.NewManager(in.H, in.F, in.T)
	// The caller's slice is a view of a larger array (spare capacity, as a registry validated incrementally has):
	// the answer must depend on the view only and the call must leave the whole array as it found it.
	n := len(in.VM)
	backing := make([][]byte, n+4)
	for i := range backing {
		if i < n {
			backing[i] = append([]byte{}, in.VM[i]...)
		} else {
			backing[i] = []byte{0xf0 + byte(i-n), 0xee}
		}
	}
	snapshot := func() [][]byte {
		c := make([][]byte, len(backing))
		for i := range backing {
			c[i] = append([]byte{}, backing[i]...)
		}
		return c
	}
	before := snapshot()
	got := metadata.HasConflictingPrefixes(m, backing[:n])
	intact := true
	for i := range backing {
		if !bytes.Equal(before[i], backing[i]) {
			intact = false
		}
	}
	// same view again, and every shorter view, against a call on a freshly allocated exact-capacity copy
	for k := 0; k <= n && intact; k++ {
		fresh := make([][]byte, k)
		for i := 0; i < k; i++ {
			fresh[i] = append([]byte{}, in.VM[i]...)
		}
		if metadata.HasConflictingPrefixes(m, backing[:k]) != metadata.HasConflictingPrefixes(m, fresh) {
			intact = false
		}
	}
	if intact && metadata.HasConflictingPrefixes(m, backing[:n]) != got {
		intact = false
	}
	for i := range backing {
		if !bytes.Equal(before[i], backing[i]) {
			intact = false
		}
	}
	coq := emit.App("mk", emit.Bytes(in.H), emit.Bytes(in.F), emit.Bytes(in.T), emit.BytesList(in.VM), emit.Bool(got), emit.Bool(intact))
	nontrivial := len(in.VM) >= 1
	kind := "noconflict"
	if got {
		kind = "conflict"
	}
	return emit.Case{Coq: coq, JSON: mirror{in, got, intact}, Nontrivial: nontrivial, Kind: kind, Sig: "prefix-conflict-answer-wrong"}
}

func randBytes(r *rand.Rand, maxLen int, alphabet int) []byte {
	n := r.Intn(maxLen + 1)
	b := make([]byte, n)
	for i := range b {
		b[i] = byte(r.Intn(alphabet))
	}
	return b
}

func gen(r *rand.Rand) input {
	alphabet := 2 + r.Intn(2)
	maxLen := 1 + r.Intn(3)
	in := input{}
	switch r.Intn(4) {
	case 0: // default metadata prefixes
		in.H, in.F, in.T = []byte{0}, []byte{2}, []byte{1}
	default:
		in.H, in.F, in.T = randBytes(r, maxLen, alphabet+1), randBytes(r, maxLen, alphabet+1), randBytes(r, maxLen, alphabet+1)
	}
	n := r.Intn(5)
	for i := 0; i < n; i++ {
		// bias towards long, distinct prefixes so that both answers occur
		b := randBytes(r, maxLen+1, alphabet+2)
		if r.Intn(3) == 0 && len(in.VM) > 0 {
			// extension or copy of an earlier one
			b = append(append([]byte{}, in.VM[r.Intn(len(in.VM))]...), randBytes(r, 1, alphabet)...)
		}
		in.VM = append(in.VM, b)
	}
	return in
}

func TestDriver(t *testing.T) {
	env := emit.GetEnv()
	if env.Out == "" {
		t.Skip("VERIF_OUT not set")
	}
	w, err := emit.NewWriter(env.Out)
	if err != nil {
		t.Fatal(err)
	}
	defer w.Close()
	if env.Mode == "replay" {
		raws, err := emit.ReadReplay(env.Replay)
		if err != nil {
			t.Fatal(err)
		}
		for _, raw := range raws {
			var in input
			if err := json.Unmarshal(raw, &in); err != nil {
				t.Fatal(err)
			}
			_ = w.Put(run(in))
		}
		return
	}
	r := env.Rand()
	if env.Tier == "thorough" {
		// exhaustive: all lists of <= 3 VM prefixes over byte strings of length <= 2 on {0,1}, default metadata prefixes replaced by {2},{3},{4}-free variants
		var univ [][]byte
		univ = append(univ, []byte{})
		for a := 0; a < 2; a++ {
			univ = append(univ, []byte{byte(a)})
			for b := 0; b < 2; b++ {
				univ = append(univ, []byte{byte(a), byte(b)})
			}
		}
		var rec func(vm [][]byte, depth int)
		rec = func(vm [][]byte, depth int) {
			_ = w.Put(run(input{H: []byte{2}, F: []byte{3}, T: []byte{1, 1, 1}, VM: append([][]byte{}, vm...)}))
			if depth == 3 {
				return
			}
			for _, u := range univ {
				rec(append(vm, u), depth+1)
			}
		}
		rec(nil, 0)
	}
	for i := 0; i < env.N; i++ {
		_ = w.Put(run(gen(r)))
	}
}
