// Driver for C08: runs the real internal/executor under many schedules and records the event trace.
//
// A case = (task list, worker count, observed trace). The trace is whatever the Go scheduler produced;
// Check/C08_check.v only contains conditions that hold for every trace of the unchanged code.
// Events are appended under one mutex, so the order of the slice is a total order consistent with
// every happens-before edge of the program.
package executor

import (
	"encoding/json"
	"errors"
	"fmt"
	"math/rand"
	"runtime"
	"strings"
	"sync"
	"testing"
	"time"

	"github.com/ava-labs/hypersdk/internal/executor"
	"github.com/ava-labs/hypersdk/state"
	"github.com/ava-labs/hypersdk/verifharness/emit"
)

type keyPerm struct {
	K int `json:"k"`
	P int `json:"p"`
}

type taskIn struct {
	Keys    []keyPerm `json:"keys"`
	Sleep   int       `json:"sleep"`    // microseconds slept inside f
	Yield   int       `json:"yield"`    // runtime.Gosched calls inside f
	Spin    int       `json:"spin"`     // busy iterations (x100) inside f
	Fail    bool      `json:"fail"`     // f returns an error
	WaitErr bool      `json:"wait_err"` // f spins until the executor's sticky error is visible (bounded)
	Gap     int       `json:"gap"`      // Gosched calls of the submitting goroutine before Run
}

type input struct {
	Tasks     []taskIn `json:"tasks"`
	Workers   int      `json:"workers"`
	Procs     int      `json:"procs"`
	StopAfter int      `json:"stop_after"` // -1: never; k: Stop() after the k-th Run call (k = len: before Wait)
	StopDelay int      `json:"stop_delay"` // microseconds slept before Stop
	Gen       string   `json:"gen"`
}

type evJ struct {
	T  string `json:"t"` // run beg end stopcall stopret seen waitcall
	J  int    `json:"j,omitempty"`
	OK bool   `json:"ok,omitempty"`
	X  int    `json:"x,omitempty"`
}

type mirror struct {
	input
	Events []evJ  `json:"events"`
	Wait   int    `json:"wait"`
	Hang   bool   `json:"hang"`
	Note   string `json:"note,omitempty"`
}

type taskErr struct{ j int }

func (e *taskErr) Error() string { return fmt.Sprintf("task %d failed", e.j) }

func errCode(err error) int {
	if err == nil {
		return 0
	}
	if errors.Is(err, executor.ErrStopped) {
		return 1
	}
	var te *taskErr
	if errors.As(err, &te) {
		return 2 + te.j
	}
	return 999999
}

type recorder struct {
	mu  sync.Mutex
	evs []evJ
}

func (r *recorder) put(e evJ) {
	r.mu.Lock()
	r.evs = append(r.evs, e)
	r.mu.Unlock()
}

// putSeen reads the sticky error and logs the observation in one critical section, so that the
// position of the event in the trace is the position of the read.
func (r *recorder) putSeen(e *executor.Executor) {
	r.mu.Lock()
	r.evs = append(r.evs, evJ{T: "seen", X: errCode(e.VerifErr())})
	r.mu.Unlock()
}

func (r *recorder) snapshot() []evJ {
	r.mu.Lock()
	defer r.mu.Unlock()
	return append([]evJ{}, r.evs...)
}

var sink int

func busy(n int) {
	x := 0
	for i := 0; i < n*100; i++ {
		x += i ^ (x >> 3)
	}
	sink += x
}

const hangTimeout = 10 * time.Second

func runCase(in input) mirror {
	old := runtime.GOMAXPROCS(in.Procs)
	defer runtime.GOMAXPROCS(old)
	rec := &recorder{}
	type result struct {
		wait int
		note string
	}
	done := make(chan result, 1)
	go func() {
		res := result{}
		defer func() {
			if p := recover(); p != nil {
				res.note = fmt.Sprintf("panic: %v", p)
				res.wait = -1
			}
			done <- res
		}()
		n := len(in.Tasks)
		e := executor.New(n, in.Workers, 100_000_000, nil)
		stop := func() {
			if in.StopDelay > 0 {
				time.Sleep(time.Duration(in.StopDelay) * time.Microsecond)
			}
			rec.putSeen(e) // what the sticky error is just before Stop: Stop must not replace it
			rec.put(evJ{T: "stopcall"})
			e.Stop()
			rec.put(evJ{T: "stopret"})
		}
		for j := range in.Tasks {
			if in.StopAfter == j {
				stop()
			}
			tk := in.Tasks[j]
			keys := make(state.Keys, len(tk.Keys))
			for _, kp := range tk.Keys {
				keys[fmt.Sprintf("key%d", kp.K)] = state.Permissions(kp.P)
			}
			for g := 0; g < tk.Gap; g++ {
				runtime.Gosched()
			}
			id := j
			rec.put(evJ{T: "run", J: id})
			e.Run(keys, func() error {
				rec.put(evJ{T: "beg", J: id})
				for y := 0; y < tk.Yield; y++ {
					runtime.Gosched()
				}
				if tk.Spin > 0 {
					busy(tk.Spin)
				}
				if tk.Sleep > 0 {
					time.Sleep(time.Duration(tk.Sleep) * time.Microsecond)
				}
				if tk.WaitErr {
					deadline := time.Now().Add(100 * time.Millisecond)
					for e.VerifErr() == nil && time.Now().Before(deadline) {
						runtime.Gosched()
					}
					rec.putSeen(e)
				}
				if tk.Fail {
					rec.put(evJ{T: "end", J: id, OK: false})
					return &taskErr{id}
				}
				rec.put(evJ{T: "end", J: id, OK: true})
				return nil
			})
		}
		if in.StopAfter == n {
			stop()
		}
		rec.putSeen(e)
		rec.put(evJ{T: "waitcall"})
		res.wait = errCode(e.Wait())
	}()
	m := mirror{input: in}
	select {
	case r := <-done:
		m.Wait = r.wait
		m.Note = r.note
		if r.note != "" {
			m.Hang = true
			m.Wait = 0
		}
	case <-time.After(hangTimeout):
		m.Hang = true
		m.Note = "hang: Run/Stop/Wait did not return"
	}
	m.Events = rec.snapshot()
	return m
}

// ---- Coq printing and a Go-side classification (only used for the finding signature) ---------------

func coqTask(t taskIn) string {
	items := make([]string, len(t.Keys))
	for i, kp := range t.Keys {
		items[i] = emit.Pair(emit.N(uint64(kp.K)), emit.N(uint64(kp.P)))
	}
	return emit.List("key * perm", items)
}

func coqEv(e evJ) string {
	switch e.T {
	case "run":
		return emit.App("ERun", fmt.Sprint(e.J))
	case "beg":
		return emit.App("EBeg", fmt.Sprint(e.J))
	case "end":
		return emit.App("EEnd", fmt.Sprint(e.J), emit.Bool(e.OK))
	case "stopcall":
		return "EStopCall"
	case "stopret":
		return "EStopRet"
	case "seen":
		return emit.App("ESeen", emit.N(uint64(e.X)))
	default:
		return "EWaitCall"
	}
}

func moreThanRead(p int) bool { return p != 0 && p != 1 }

func conflictSpec(a, b taskIn) bool {
	for _, x := range a.Keys {
		for _, y := range b.Keys {
			if x.K == y.K && (moreThanRead(x.P) || moreThanRead(y.P)) {
				return true
			}
		}
	}
	return false
}

func signature(m mirror) string {
	if m.Hang {
		if strings.HasPrefix(m.Note, "panic") {
			return "executor-panic"
		}
		return "hang"
	}
	n := len(m.Tasks)
	beg := make([]int, n)
	end := make([]int, n)
	okv := make([]bool, n)
	nbeg := make([]int, n)
	for i := range beg {
		beg[i], end[i] = -1, -1
	}
	stopped, failed := false, false
	for p, e := range m.Events {
		switch e.T {
		case "beg":
			if e.J < n {
				nbeg[e.J]++
				if beg[e.J] < 0 {
					beg[e.J] = p
				}
			}
		case "end":
			if e.J < n && end[e.J] < 0 {
				end[e.J] = p
				okv[e.J] = e.OK
			}
			if !e.OK {
				failed = true
			}
		case "stopcall":
			stopped = true
		}
	}
	for j := 0; j < n; j++ {
		if nbeg[j] > 1 {
			return "task-ran-twice"
		}
	}
	for j := 0; j < n; j++ {
		if beg[j] < 0 {
			continue
		}
		for i := 0; i < j; i++ {
			if beg[i] >= 0 && conflictSpec(m.Tasks[i], m.Tasks[j]) {
				if end[i] < 0 || end[i] > beg[j] {
					return "conflicting-tasks-overlap-or-out-of-order"
				}
				if !okv[i] {
					return "task-ran-after-conflicting-failure"
				}
			}
		}
	}
	if !stopped && !failed {
		for j := 0; j < n; j++ {
			if nbeg[j] != 1 {
				return "task-not-run"
			}
		}
		if m.Wait != 0 {
			return "wait-error-without-failure"
		}
	}
	if (stopped || failed) && m.Wait == 0 {
		return "wait-nil-after-failure-or-stop"
	}
	return "wait-error-or-skip-rule"
}

func toCase(m mirror, kind string) emit.Case {
	ts := make([]string, len(m.Tasks))
	for i, t := range m.Tasks {
		ts[i] = coqTask(t)
	}
	evs := make([]string, len(m.Events))
	for i, e := range m.Events {
		evs[i] = coqEv(e)
	}
	w := m.Wait
	if w < 0 {
		w = 999999
	}
	coq := emit.App("mk", emit.List("task", ts), fmt.Sprint(m.Workers), emit.List("ev", evs), emit.N(uint64(w)), emit.Bool(m.Hang))
	nontrivial := false
	for j := range m.Tasks {
		for i := 0; i < j; i++ {
			if conflictSpec(m.Tasks[i], m.Tasks[j]) {
				nontrivial = true
			}
		}
	}
	return emit.Case{Coq: coq, JSON: m, Nontrivial: nontrivial, Kind: kind, Sig: signature(m)}
}

// ---- generators ------------------------------------------------------------------------------------

var exclPerms = []int{3, 5, 7, 5, 5}

func exclPerm(r *rand.Rand) int {
	if r.Intn(25) == 0 {
		return 0 // state.None: the executor treats it as exclusive
	}
	return exclPerms[r.Intn(len(exclPerms))]
}

func genTasks(r *rand.Rand) ([]taskIn, string) {
	n := 2 + r.Intn(39)
	switch r.Intn(4) {
	case 0:
		n = 2 + r.Intn(5)
	case 1:
		n = 2 + r.Intn(12)
	}
	nk := 1 + r.Intn(5)
	ts := make([]taskIn, 0, n)
	kind := ""
	switch r.Intn(6) {
	case 0, 1: // random mix
		kind = "random"
		pr := 20 + r.Intn(70)
		for len(ts) < n {
			var t taskIn
			cnt := 1 + r.Intn(min(3, nk))
			if r.Intn(12) == 0 {
				cnt = 0
			}
			for _, k := range r.Perm(nk)[:cnt] {
				p := 1
				if r.Intn(100) >= pr {
					p = exclPerm(r)
				}
				t.Keys = append(t.Keys, keyPerm{k, p})
			}
			ts = append(ts, t)
		}
	case 2: // reader groups followed by a writer
		kind = "readers-then-writer"
		for len(ts) < n {
			k := r.Intn(nk)
			g := r.Intn(5)
			for i := 0; i < g && len(ts) < n; i++ {
				t := taskIn{Keys: []keyPerm{{k, 1}}}
				if nk > 1 && r.Intn(4) == 0 {
					k2 := (k + 1 + r.Intn(nk-1)) % nk
					t.Keys = append(t.Keys, keyPerm{k2, 1})
				}
				ts = append(ts, t)
			}
			if len(ts) < n {
				ts = append(ts, taskIn{Keys: []keyPerm{{k, exclPerm(r)}}})
			}
		}
	case 3: // tasks reading and writing keys owned by one earlier task
		kind = "rw-same-owner"
		if nk < 2 {
			nk = 2
		}
		var own taskIn
		for k := 0; k < nk; k++ {
			own.Keys = append(own.Keys, keyPerm{k, exclPerm(r)})
		}
		ts = append(ts, own)
		for len(ts) < n {
			var t taskIn
			perm := r.Perm(nk)
			switch r.Intn(5) {
			case 0:
				t.Keys = []keyPerm{{perm[0], 1}, {perm[1], exclPerm(r)}}
			case 1:
				t.Keys = []keyPerm{{perm[0], 1}}
			case 2:
				t.Keys = []keyPerm{{perm[0], exclPerm(r)}}
			case 3:
				t.Keys = []keyPerm{{perm[0], 1}, {perm[1], 1}}
			default:
				for k := 0; k < nk; k++ {
					t.Keys = append(t.Keys, keyPerm{k, []int{1, 1, 5}[r.Intn(3)]})
				}
			}
			ts = append(ts, t)
		}
	case 4: // one hot key
		kind = "hot-key"
		for len(ts) < n {
			p := 1
			if r.Intn(3) == 0 {
				p = exclPerm(r)
			}
			ts = append(ts, taskIn{Keys: []keyPerm{{0, p}}})
		}
	default: // writer chains on a few keys, with readers hanging off
		kind = "chains"
		for len(ts) < n {
			k := r.Intn(nk)
			t := taskIn{Keys: []keyPerm{{k, exclPerm(r)}}}
			if nk > 1 && r.Intn(3) == 0 {
				t.Keys = append(t.Keys, keyPerm{(k + 1) % nk, []int{1, 5}[r.Intn(2)]})
			}
			ts = append(ts, t)
		}
	}
	// behaviour: how long each f takes
	mode := r.Intn(4)
	for i := range ts {
		switch mode {
		case 0: // earlier tasks are slower: a missing dependency lets a later task overtake
			ts[i].Sleep = 40 + 400*(len(ts)-i)/len(ts)
		case 1:
			ts[i].Sleep = r.Intn(250)
		case 2:
			if r.Intn(2) == 0 {
				ts[i].Yield = r.Intn(6)
				ts[i].Spin = r.Intn(40)
			} else {
				ts[i].Sleep = 20 + r.Intn(150)
			}
		default:
			if r.Intn(4) == 0 {
				ts[i].Sleep = 200 + r.Intn(400)
			} else {
				ts[i].Yield = r.Intn(3)
			}
		}
		if r.Intn(6) == 0 {
			ts[i].Gap = 1 + r.Intn(4)
		}
	}
	return ts, kind
}

func genInputs(r *rand.Rand) []input {
	ts, kind := genTasks(r)
	n := len(ts)
	stopAfter, stopDelay := -1, 0
	switch r.Intn(10) {
	case 0, 1, 2: // failures
		kind += "+fail"
		nf := 1
		if r.Intn(3) == 0 {
			nf = 2 + r.Intn(2)
		}
		for i := 0; i < nf; i++ {
			ts[r.Intn(n)].Fail = true
		}
		if r.Intn(2) == 0 {
			// a long task that observes the sticky error before it fails itself
			j := r.Intn(n)
			ts[j].WaitErr = true
			ts[j].Fail = r.Intn(3) != 0
			kind += "+waiterr"
		}
	case 3, 4: // stop
		kind += "+stop"
		stopAfter = r.Intn(n + 1)
		stopDelay = []int{0, 0, 50, 200, 500}[r.Intn(5)]
		if r.Intn(2) == 0 {
			f := r.Intn(n)
			if r.Intn(2) == 0 {
				// an early, short failing task and a late Stop: the task's error is the first one
				f = r.Intn(1 + n/4)
				ts[f].Sleep, ts[f].Yield, ts[f].Spin = 0, 0, 0
				stopAfter = n
				stopDelay = 300
			}
			ts[f].Fail = true
			kind += "+fail"
		}
		if r.Intn(2) == 0 {
			j := r.Intn(n)
			ts[j].WaitErr = true
			ts[j].Fail = r.Intn(2) == 0
			kind += "+waiterr"
		}
	}
	var out []input
	for s := 0; s < 3; s++ {
		w := 1 + r.Intn(16)
		switch r.Intn(5) {
		case 0:
			w = 1
		case 1:
			w = 2
		}
		procs := []int{1, 2, 4, 8, 16}[r.Intn(5)]
		if s == 0 {
			procs = 16
			if w < 2 {
				w = 2 + r.Intn(15)
			}
		}
		cp := make([]taskIn, n)
		copy(cp, ts)
		out = append(out, input{Tasks: cp, Workers: w, Procs: procs, StopAfter: stopAfter, StopDelay: stopDelay, Gen: kind})
	}
	return out
}

func TestDriver(t *testing.T) {
	env := emit.GetEnv()
	if env.Out == "" {
		t.Skip("VERIF_OUT not set")
	}
	w, err := emit.NewWriter(env.Out)
	if err != nil {
		t.Fatal(err)
	}
	defer w.Close()
	if env.Mode == "replay" {
		raws, err := emit.ReadReplay(env.Replay)
		if err != nil {
			t.Fatal(err)
		}
		for _, raw := range raws {
			var in input
			if err := json.Unmarshal(raw, &in); err != nil {
				t.Fatal(err)
			}
			if in.Workers < 1 {
				in.Workers = 1
			}
			if in.Procs < 1 {
				in.Procs = 4
			}
			reps := 5
			for i := 0; i < reps; i++ {
				_ = w.Put(toCase(runCase(in), "replay:"+in.Gen))
			}
		}
		return
	}
	r := env.Rand()
	hangs := 0
	for w.Count() < env.N && hangs < 2 {
		for _, in := range genInputs(r) {
			m := runCase(in)
			if m.Hang {
				hangs++ // a hung executor leaks its goroutines: report it and stop generating
			}
			_ = w.Put(toCase(m, in.Gen))
			if hangs >= 2 {
				break
			}
		}
	}
}
