// Driver for C20 (block lifecycle through the consensus wrapper) and C21 (dynamic state sync
// hand-over): a real snow.VM over a harness Chain that logs every callback, driven by random
// walks of a simulated snowman engine.  The async accepter goroutine is gated inside the harness
// chain's AcceptBlock, so that "the accepter handles the next queued block" is an explicit,
// deterministic step (op "process").
package snow

import (
	"context"
	"encoding/json"
	"errors"
	"fmt"
	"math/rand"
	"sort"
	"strings"
	"sync"
	"testing"
	"time"

	"github.com/ava-labs/avalanchego/database"
	"github.com/ava-labs/avalanchego/database/memdb"
	"github.com/ava-labs/avalanchego/ids"
	"github.com/ava-labs/avalanchego/snow/engine/common"
	"github.com/ava-labs/avalanchego/snow/engine/enginetest"
	"github.com/ava-labs/avalanchego/snow/engine/snowman/block"
	"github.com/ava-labs/avalanchego/snow/snowtest"
	"github.com/ava-labs/avalanchego/utils/hashing"
	"github.com/prometheus/client_golang/prometheus"

	"github.com/ava-labs/hypersdk/chainindex"
	"github.com/ava-labs/hypersdk/event"
	hsnow "github.com/ava-labs/hypersdk/snow"
	"github.com/ava-labs/hypersdk/verifharness/emit"
)

// ---------------------------------------------------------------------------------- blocks

type HBlock struct {
	PrntID  ids.ID `json:"parentID"`
	Tmstmp  int64  `json:"timestamp"`
	Hght    uint64 `json:"height"`
	Nonce   uint64 `json:"nonce"`
	Invalid bool   `json:"invalid"`
	// inner P-Chain context (a P-Chain height); nil = the block carries none.  Part of the bytes / id.
	PCtx *uint64 `json:"pctx,omitempty"`

	role  int // 0 input, 1 output, 2 accepted
	id    ids.ID
	bytes []byte
}

func (b *HBlock) seal() *HBlock {
	bs, err := json.Marshal(b)
	if err != nil {
		panic(err)
	}
	b.bytes = bs
	b.id = hashing.ComputeHash256Array(bs)
	return b
}
func (b *HBlock) GetID() ids.ID              { return b.id }
func (b *HBlock) GetParent() ids.ID          { return b.PrntID }
func (b *HBlock) GetTimestamp() int64        { return b.Tmstmp }
func (b *HBlock) GetBytes() []byte           { return b.bytes }
func (b *HBlock) GetHeight() uint64          { return b.Hght }
func (b *HBlock) GetContext() *block.Context {
	if b.PCtx == nil {
		return nil
	}
	return &block.Context{PChainHeight: *b.PCtx}
}
func (b *HBlock) String() string             { return fmt.Sprintf("blk(%s h=%d)", b.id, b.Hght) }
func (b *HBlock) as(role int) *HBlock {
	c := *b
	c.role = role
	return &c
}

func parseHBlock(bs []byte) (*HBlock, error) {
	b := &HBlock{}
	if err := json.Unmarshal(bs, b); err != nil {
		return nil, err
	}
	return b.seal(), nil
}

type plainParser struct{}

func (plainParser) ParseBlock(_ context.Context, bs []byte) (*HBlock, error) { return parseHBlock(bs) }

// ---------------------------------------------------------------------------------- events

type ev struct {
	K   string `json:"k"`
	P   int    `json:"p"`
	B   int    `json:"b"`
	Ok  bool   `json:"ok,omitempty"`
	Nil bool   `json:"nil,omitempty"`
}

func (e ev) coq() string {
	switch e.K {
	case "parse":
		return fmt.Sprintf("EParse %d", e.B)
	case "build":
		return fmt.Sprintf("EBuild %d %d", e.P, e.B)
	case "buildnil":
		return "EBuildNil"
	case "verify":
		return fmt.Sprintf("EVerify %d %d %s", e.P, e.B, emit.Bool(e.Ok))
	case "accept":
		if e.Nil {
			return fmt.Sprintf("EAccept None %d", e.B)
		}
		return fmt.Sprintf("EAccept (Some %d) %d", e.P, e.B)
	case "index":
		return fmt.Sprintf("EIndex %d", e.B)
	case "nver":
		return fmt.Sprintf("NVerified %d", e.B)
	case "nacc":
		return fmt.Sprintf("NAccepted %d", e.B)
	case "nrej":
		return fmt.Sprintf("NRejected %d", e.B)
	case "npreacc":
		return fmt.Sprintf("NPreAccepted %d", e.B)
	case "nprerej":
		return fmt.Sprintf("NPreRejected %d", e.B)
	}
	return "EBuildNil"
}

const unknownNum = 999999
const orphanParent = 1000000

// world: numbering of blocks, the callback log, the accepter gate
type world struct {
	mu     sync.Mutex
	num    map[ids.ID]int
	blocks []*HBlock
	cur    []ev
	nonce  uint64
	open   bool
	// accepter gate.  accOrder: the blocks Accept was called on in normal operation, in call order
	// (= the order in which the async accepter must hand them to Chain.AcceptBlock); accDone: how
	// many of them Chain.AcceptBlock has handled in that order.  Chain.AcceptBlock on the next
	// expected block waits until the driver allows that block (op "process"); a call on any other
	// block is out of order - it is not held back, it is logged as it comes.
	cond     *sync.Cond
	accOrder []int
	accDone  int
	allowed  map[int]bool
	outOfOrd map[int]bool
}

func newWorld() *world {
	w := &world{num: map[ids.ID]int{}, allowed: map[int]bool{}, outOfOrd: map[int]bool{}}
	w.cond = sync.NewCond(&w.mu)
	return w
}

func (w *world) allow(b int) {
	w.mu.Lock()
	w.allowed[b] = true
	w.mu.Unlock()
	w.cond.Broadcast()
}

func (w *world) setOpen(v bool) {
	w.mu.Lock()
	w.open = v
	w.mu.Unlock()
	w.cond.Broadcast()
}

func (w *world) register(b *HBlock) int {
	w.mu.Lock()
	defer w.mu.Unlock()
	if n, ok := w.num[b.id]; ok {
		return n
	}
	n := len(w.blocks)
	w.num[b.id] = n
	w.blocks = append(w.blocks, b)
	return n
}

func (w *world) numOf(b *HBlock, wantRole int) int {
	if b == nil {
		return unknownNum
	}
	w.mu.Lock()
	defer w.mu.Unlock()
	n, ok := w.num[b.id]
	if !ok {
		return unknownNum
	}
	if wantRole >= 0 && b.role != wantRole {
		return 500000 + n // wrong kind of block handed to the chain
	}
	return n
}

func (w *world) numOfID(id ids.ID) int {
	w.mu.Lock()
	defer w.mu.Unlock()
	if n, ok := w.num[id]; ok {
		return n
	}
	return unknownNum
}

func (w *world) log(e ev) {
	w.mu.Lock()
	w.cur = append(w.cur, e)
	w.mu.Unlock()
}

func (w *world) take() []ev {
	w.mu.Lock()
	defer w.mu.Unlock()
	out := w.cur
	w.cur = nil
	return out
}

// ---------------------------------------------------------------------------------- chain

var (
	errInvalidBlock = errors.New("harness: invalid block")
	errNilParent    = errors.New("harness: nil parent output")
)

type hindex struct {
	w     *world
	inner *chainindex.ChainIndex[*HBlock]
}

func (i *hindex) UpdateLastAccepted(ctx context.Context, blk *HBlock) error {
	i.w.log(ev{K: "index", B: i.w.numOf(blk, 0)})
	return i.inner.UpdateLastAccepted(ctx, blk)
}
func (i *hindex) GetLastAcceptedHeight(ctx context.Context) (uint64, error) {
	return i.inner.GetLastAcceptedHeight(ctx)
}
func (i *hindex) GetBlock(ctx context.Context, id ids.ID) (*HBlock, error) {
	return i.inner.GetBlock(ctx, id)
}
func (i *hindex) GetBlockIDAtHeight(ctx context.Context, h uint64) (ids.ID, error) {
	return i.inner.GetBlockIDAtHeight(ctx, h)
}
func (i *hindex) GetBlockIDHeight(ctx context.Context, id ids.ID) (uint64, error) {
	return i.inner.GetBlockIDHeight(ctx, id)
}
func (i *hindex) GetBlockByHeight(ctx context.Context, h uint64) (*HBlock, error) {
	return i.inner.GetBlockByHeight(ctx, h)
}

type hchain struct {
	w       *world
	genesis *HBlock
	ready   bool
}

type hvm = hsnow.VM[*HBlock, *HBlock, *HBlock]
type hblk = hsnow.StatefulBlock[*HBlock, *HBlock, *HBlock]

func (c *hchain) Initialize(ctx context.Context, in hsnow.ChainInput, _ *hvm) (hsnow.ChainIndex[*HBlock], *HBlock, *HBlock, bool, error) {
	inner, err := chainindex.New[*HBlock](ctx, in.SnowCtx.Log, prometheus.NewRegistry(), chainindex.NewDefaultConfig(), plainParser{}, memdb.New())
	if err != nil {
		return nil, nil, nil, false, err
	}
	if err := inner.UpdateLastAccepted(ctx, c.genesis); err != nil {
		return nil, nil, nil, false, err
	}
	idx := &hindex{w: c.w, inner: inner}
	if !c.ready {
		return idx, nil, nil, false, nil
	}
	return idx, c.genesis.as(1), c.genesis.as(2), true, nil
}

func (*hchain) SetConsensusIndex(*hsnow.ConsensusIndex[*HBlock, *HBlock, *HBlock]) {}

func (c *hchain) BuildBlock(_ context.Context, bctx *block.Context, parent *HBlock) (*HBlock, *HBlock, error) {
	if parent == nil {
		c.w.log(ev{K: "buildnil"})
		return nil, nil, errNilParent
	}
	c.w.mu.Lock()
	c.w.nonce++
	nonce := c.w.nonce
	c.w.mu.Unlock()
	nb := &HBlock{PrntID: parent.id, Tmstmp: parent.Tmstmp + 1, Hght: parent.Hght + 1, Nonce: nonce}
	if bctx != nil {
		// like chain.Builder: the built block embeds the context it was built with
		h := bctx.PChainHeight
		nb.PCtx = &h
	}
	b := nb.seal()
	n := c.w.register(b)
	c.w.log(ev{K: "build", P: c.w.numOf(parent, 1), B: n})
	return b, b.as(1), nil
}

func (c *hchain) ParseBlock(_ context.Context, bs []byte) (*HBlock, error) {
	b, err := parseHBlock(bs)
	if err != nil {
		return nil, err
	}
	c.w.log(ev{K: "parse", B: c.w.numOf(b, 0)})
	return b, nil
}

func (c *hchain) VerifyBlock(_ context.Context, parent *HBlock, blk *HBlock) (*HBlock, error) {
	c.w.log(ev{K: "verify", P: c.w.numOf(parent, 1), B: c.w.numOf(blk, 0), Ok: !blk.Invalid})
	if blk.Invalid {
		return nil, errInvalidBlock
	}
	return blk.as(1), nil
}

func (c *hchain) AcceptBlock(_ context.Context, parentAcc *HBlock, out *HBlock) (*HBlock, error) {
	w := c.w
	w.mu.Lock()
	nb, known := w.num[out.id]
	inOrder := known && w.accDone < len(w.accOrder) && w.accOrder[w.accDone] == nb
	if inOrder {
		for !w.open && !w.allowed[nb] {
			w.cond.Wait()
		}
		w.accDone++
	} else if known && !w.open {
		w.outOfOrd[nb] = true
	}
	w.mu.Unlock()
	if parentAcc == nil {
		c.w.log(ev{K: "accept", Nil: true, B: c.w.numOf(out, 1)})
	} else {
		c.w.log(ev{K: "accept", P: c.w.numOf(parentAcc, 2), B: c.w.numOf(out, 1)})
	}
	return out.as(2), nil
}

// ---------------------------------------------------------------------------------- ops / results

// Ops "parseNewCtx" / "buildCtx" / "verifyCtx" are the P-Chain-context variants (C20 only): C is the
// inner context of the new block / the context given to BuildBlockWithContext / VerifyWithContext
// (nil = none / nil pointer).
type opT struct {
	K   string `json:"k"`
	A   int    `json:"a,omitempty"`
	Inv bool   `json:"inv,omitempty"`
	C   *int   `json:"c,omitempty"`
}

// baseK: the context-free call an op corresponds to
func (o opT) baseK() string {
	switch o.K {
	case "parseNewCtx":
		return "parseNew"
	case "buildCtx":
		return "build"
	case "verifyCtx":
		return "verify"
	}
	return o.K
}

func optN(c *int) string {
	if c == nil {
		return "None"
	}
	return fmt.Sprintf("(Some %d)", *c)
}

func pctxOf(c *int) *block.Context {
	if c == nil {
		return nil
	}
	return &block.Context{PChainHeight: uint64(*c)}
}

// ccoq: the op as a term of type [cop] (C20 cases)
func (o opT) ccoq() string {
	switch o.K {
	case "parseNewCtx":
		return fmt.Sprintf("CParseNew %d %s %s", o.A, emit.Bool(o.Inv), optN(o.C))
	case "buildCtx":
		return fmt.Sprintf("CBuild %s", optN(o.C))
	case "verifyCtx":
		return fmt.Sprintf("CVerify %d %s", o.A, optN(o.C))
	}
	c := o.coq()
	if strings.Contains(c, " ") {
		return "COp (" + c + ")"
	}
	return "COp " + c
}

func (o opT) coq() string {
	switch o.K {
	case "parseNew":
		return fmt.Sprintf("OParseNew %d %s", o.A, emit.Bool(o.Inv))
	case "parse":
		return fmt.Sprintf("OParse %d", o.A)
	case "build":
		return "OBuild"
	case "verify":
		return fmt.Sprintf("OVerify %d", o.A)
	case "accept":
		return fmt.Sprintf("OAccept %d", o.A)
	case "reject":
		return fmt.Sprintf("OReject %d", o.A)
	case "setPref":
		return fmt.Sprintf("OSetPref %d", o.A)
	case "process":
		return "OProcess"
	case "getBlock":
		return fmt.Sprintf("OGetBlock %d", o.A)
	case "idAtHeight":
		return fmt.Sprintf("OGetIDAtHeight %d", o.A)
	case "byHeight":
		return fmt.Sprintf("OGetByHeight %d", o.A)
	case "lastAccepted":
		return "OLastAccepted"
	case "lastProcessed":
		return "OGetLastProcessed"
	case "preferred":
		return "OGetPreferred"
	case "health":
		return "OHealth"
	case "startSync":
		return fmt.Sprintf("OStartSync %d", o.A)
	case "finishSync":
		return fmt.Sprintf("OFinishSync %d", o.A)
	}
	panic("bad op " + o.K)
}

type resT struct {
	K     string `json:"k"` // unit | err | blk | id | health
	Code  int    `json:"code,omitempty"`
	H     int    `json:"h"`  // handle, or -1 for an ephemeral object
	B     int    `json:"b"`  // block number
	V     bool   `json:"v,omitempty"`
	Acc   bool   `json:"acc,omitempty"`
	Ready bool   `json:"ready,omitempty"`
	Unres int    `json:"unres"` // -1: checker not registered
	OK    bool   `json:"ok,omitempty"`
}

func (r resT) coq() string {
	switch r.K {
	case "unit":
		return "RUnit"
	case "err":
		return fmt.Sprintf("RErr %d", r.Code)
	case "blk":
		ref := fmt.Sprintf("(BH %d)", r.H)
		if r.H < 0 {
			ref = fmt.Sprintf("(BE %d)", r.B)
		}
		return fmt.Sprintf("RBlk %s %d %s %s", ref, r.B, emit.Bool(r.V), emit.Bool(r.Acc))
	case "id":
		return fmt.Sprintf("RId %d", r.B)
	case "health":
		u := "None"
		if r.Unres >= 0 {
			u = fmt.Sprintf("(Some %d)", r.Unres)
		}
		return fmt.Sprintf("RHealth %s %s %s", emit.Bool(r.Ready), u, emit.Bool(r.OK))
	}
	panic("bad res")
}

func errCode(err error) int {
	s := err.Error()
	switch {
	case errors.Is(err, database.ErrNotFound):
		return 1
	case strings.Contains(s, "parent failed verification"):
		return 2
	case errors.Is(err, errInvalidBlock):
		return 3
	case strings.Contains(s, "can't finish dynamic state sync"):
		return 4
	case strings.Contains(s, "has not been populated"), strings.Contains(s, "has not been verified"):
		return 5
	case errors.Is(err, errNilParent):
		return 6
	case strings.Contains(s, "invalid initial accepted state"):
		return 7
	case strings.Contains(s, "duplicate health checker"):
		return 8
	case strings.Contains(s, "mismatched P-Chain context"):
		return 10
	}
	return 99
}

type cfgT struct {
	W     int  `json:"w"`
	P     int  `json:"p"`
	Ready bool `json:"ready"`
	Q     int  `json:"q"`
}

type obsT struct {
	R  resT `json:"r"`
	Ev []ev `json:"ev"`
}

// ---------------------------------------------------------------------------------- node under test

type node struct {
	t       *testing.T
	w       *world
	vm      *hvm
	ctx     context.Context
	handles map[*hblk]int
	objs    []*hblk
	heights map[int]uint64
	pending []int // block numbers accepted in normal operation and not yet processed
	initEv  []ev
	stash   *obsT // observation of the accepter step forced by an Accept on a full queue
}

func newNode(t *testing.T, cfg cfgT) (*node, error) {
	w := newWorld()
	gen := (&HBlock{}).seal()
	w.register(gen)
	ch := &hchain{w: w, genesis: gen, ready: cfg.Ready}
	vm := hsnow.NewVM[*HBlock, *HBlock, *HBlock]("v0.0.1", ch)
	n := &node{t: t, w: w, vm: vm, ctx: context.Background(), handles: map[*hblk]int{}}
	vm.AddVerifiedSub(event.SubscriptionFunc[*HBlock]{NotifyF: func(_ context.Context, b *HBlock) error {
		w.log(ev{K: "nver", B: w.numOf(b, 1)})
		return nil
	}})
	vm.AddAcceptedSub(event.SubscriptionFunc[*HBlock]{NotifyF: func(_ context.Context, b *HBlock) error {
		w.log(ev{K: "nacc", B: w.numOf(b, 2)})
		return nil
	}})
	vm.AddRejectedSub(event.SubscriptionFunc[*HBlock]{NotifyF: func(_ context.Context, b *HBlock) error {
		w.log(ev{K: "nrej", B: w.numOf(b, 1)})
		return nil
	}})
	vm.AddPreReadyAcceptedSub(event.SubscriptionFunc[*HBlock]{NotifyF: func(_ context.Context, b *HBlock) error {
		w.log(ev{K: "npreacc", B: w.numOf(b, 0)})
		return nil
	}})
	vm.AddPreRejectedSub(event.SubscriptionFunc[*HBlock]{NotifyF: func(_ context.Context, b *HBlock) error {
		w.log(ev{K: "nprerej", B: w.numOf(b, 0)})
		return nil
	}})
	snowCtx := snowtest.Context(t, ids.GenerateTestID())
	config := map[string]interface{}{
		hsnow.SnowVMConfigKey: hsnow.VMConfig{ParsedBlockCacheSize: cfg.P, AcceptedBlockWindowCache: cfg.W},
	}
	configBytes, err := json.Marshal(config)
	if err != nil {
		return nil, err
	}
	toEngine := make(chan common.Message, 1)
	if err := vm.Initialize(n.ctx, snowCtx, nil, nil, nil, configBytes, toEngine, nil, &enginetest.Sender{T: t}); err != nil {
		return nil, err
	}
	n.regHandle(vm.LastAcceptedBlock(n.ctx))
	n.initEv = w.take()
	return n, nil
}

func (n *node) close() {
	n.w.setOpen(true)
	done := make(chan struct{})
	go func() { _ = n.vm.Shutdown(n.ctx); close(done) }()
	select {
	case <-done:
	case <-time.After(10 * time.Second):
	}
}

func (n *node) regHandle(b *hblk) int {
	if h, ok := n.handles[b]; ok {
		return h
	}
	h := len(n.objs)
	n.handles[b] = h
	n.objs = append(n.objs, b)
	return h
}

func (n *node) blkRes(b *hblk, allowNew bool) resT {
	s := b.String()
	r := resT{K: "blk", B: n.w.numOfID(b.ID()), V: strings.Contains(s, "verified = true"), Acc: strings.Contains(s, "accepted = true"), Unres: -1}
	if h, ok := n.handles[b]; ok {
		r.H = h
	} else if allowNew {
		r.H = n.regHandle(b)
	} else {
		r.H = -1
	}
	return r
}

func hasParse(evs []ev) bool {
	for _, e := range evs {
		if e.K == "parse" {
			return true
		}
	}
	return false
}

func errRes(err error) resT { return resT{K: "err", Code: errCode(err), Unres: -1} }
func unitRes() resT         { return resT{K: "unit", Unres: -1} }

// exec performs one op on the real VM and returns what it observed.
func (n *node) exec(o opT) (obs obsT) {
	defer func() {
		if r := recover(); r != nil {
			obs = obsT{R: resT{K: "err", Code: 98, Unres: -1}, Ev: n.w.take()}
		}
	}()
	ctx := n.ctx
	var r resT
	switch o.K {
	case "parseNew", "parseNewCtx":
		var b *HBlock
		if o.A >= 0 && o.A < len(n.w.blocks) {
			p := n.w.blocks[o.A]
			n.w.nonce++
			b = &HBlock{PrntID: p.id, Tmstmp: p.Tmstmp + 1, Hght: p.Hght + 1, Nonce: n.w.nonce, Invalid: o.Inv}
		} else {
			n.w.nonce++
			b = &HBlock{PrntID: hashing.ComputeHash256Array([]byte(fmt.Sprintf("orphan%d", n.w.nonce))), Hght: 0, Nonce: n.w.nonce, Invalid: o.Inv}
		}
		if o.K == "parseNewCtx" && o.C != nil {
			h := uint64(*o.C)
			b.PCtx = &h
		}
		b = b.seal()
		n.w.register(b)
		blk, err := n.vm.ParseBlock(ctx, b.bytes)
		if err != nil {
			r = errRes(err)
		} else {
			r = n.blkRes(blk, hasParse(n.w.cur))
		}
	case "parse":
		if o.A < 0 || o.A >= len(n.w.blocks) {
			r = resT{K: "err", Code: 9, Unres: -1}
			break
		}
		blk, err := n.vm.ParseBlock(ctx, n.w.blocks[o.A].bytes)
		if err != nil {
			r = errRes(err)
		} else {
			r = n.blkRes(blk, hasParse(n.w.cur))
		}
	case "build", "buildCtx":
		var blk *hblk
		var err error
		if o.K == "buildCtx" {
			blk, err = n.vm.BuildBlockWithContext(ctx, pctxOf(o.C))
		} else {
			blk, err = n.vm.BuildBlock(ctx)
		}
		if err != nil {
			r = errRes(err)
		} else {
			r = n.blkRes(blk, true)
		}
	case "verify", "verifyCtx", "accept", "reject":
		if o.A < 0 || o.A >= len(n.objs) {
			r = resT{K: "err", Code: 9, Unres: -1}
			break
		}
		blk := n.objs[o.A]
		var err error
		switch o.K {
		case "verify":
			err = blk.Verify(ctx)
		case "verifyCtx":
			err = blk.VerifyWithContext(ctx, pctxOf(o.C))
		case "accept":
			wasReady := n.isReady()
			nb := n.w.numOfID(blk.ID())
			if wasReady {
				n.w.mu.Lock()
				n.w.accOrder = append(n.w.accOrder, nb)
				n.w.mu.Unlock()
			}
			if wasReady && len(n.pending) >= acceptBacklog {
				return n.acceptOnFullQueue(blk, nb)
			}
			err = blk.Accept(ctx)
			if err == nil && wasReady {
				n.pending = append(n.pending, nb)
			} else if wasReady {
				n.w.mu.Lock()
				n.w.accOrder = n.w.accOrder[:len(n.w.accOrder)-1]
				n.w.mu.Unlock()
			}
		case "reject":
			err = blk.Reject(ctx)
		}
		if err != nil {
			r = errRes(err)
		} else {
			r = unitRes()
		}
	case "setPref":
		id := ids.Empty
		if o.A >= 0 && o.A < len(n.w.blocks) {
			id = n.w.blocks[o.A].id
		}
		if err := n.vm.SetPreference(ctx, id); err != nil {
			r = errRes(err)
		} else {
			r = unitRes()
		}
	case "process":
		if len(n.pending) == 0 {
			r = resT{K: "err", Code: 9, Unres: -1}
			break
		}
		if n.stash != nil {
			// the accepter step that made room for the preceding Accept on a full queue
			st := *n.stash
			n.stash = nil
			return st
		}
		want := n.pending[0]
		n.pending = n.pending[1:]
		n.w.mu.Lock()
		ooo := n.w.outOfOrd[want]
		n.w.mu.Unlock()
		if ooo {
			// Chain.AcceptBlock already ran on this block, out of turn: the accepter will never get to it
			r = resT{K: "err", Code: 97, Unres: -1}
			break
		}
		n.w.allow(want)
		if n.waitProcessed(want, 10*time.Second) {
			r = unitRes()
		} else {
			r = resT{K: "err", Code: 97, Unres: -1}
		}
	case "getBlock":
		id := ids.Empty
		if o.A >= 0 && o.A < len(n.w.blocks) {
			id = n.w.blocks[o.A].id
		}
		blk, err := n.vm.GetBlock(ctx, id)
		if err != nil {
			r = errRes(err)
		} else {
			r = n.blkRes(blk, false)
		}
	case "idAtHeight":
		id, err := n.vm.GetBlockIDAtHeight(ctx, uint64(o.A))
		if err != nil {
			r = errRes(err)
		} else {
			r = resT{K: "id", B: n.w.numOfID(id), Unres: -1}
		}
	case "byHeight":
		blk, err := n.vm.GetBlockByHeight(ctx, uint64(o.A))
		if err != nil {
			r = errRes(err)
		} else {
			r = n.blkRes(blk, false)
		}
	case "lastAccepted":
		id, err := n.vm.LastAccepted(ctx)
		if err != nil {
			r = errRes(err)
		} else {
			r = resT{K: "id", B: n.w.numOfID(id), Unres: -1}
		}
	case "lastProcessed":
		a, err := n.vm.GetConsensusIndex().GetLastAccepted(ctx)
		if err != nil {
			r = errRes(err)
		} else {
			r = resT{K: "id", B: n.w.numOf(a, 2), Unres: -1}
		}
	case "preferred":
		a, err := n.vm.GetConsensusIndex().GetPreferredBlock(ctx)
		if err != nil {
			r = errRes(err)
		} else {
			r = resT{K: "id", B: n.w.numOf(a, 1), Unres: -1}
		}
	case "health":
		details, err := n.vm.HealthCheck(ctx)
		r = resT{K: "health", Unres: -1, OK: err == nil}
		if m, ok := details.(map[string]any); ok {
			if v, ok := m["snowVMReady"].(bool); ok {
				r.Ready = v
			}
			if v, ok := m["snowUnresolvedBlocks"].(int); ok {
				r.Unres = v
			}
		}
	case "startSync":
		if o.A < 0 || o.A >= len(n.w.blocks) {
			r = resT{K: "err", Code: 9, Unres: -1}
			break
		}
		if err := n.vm.StartStateSync(ctx, n.w.blocks[o.A]); err != nil {
			r = errRes(err)
		} else {
			r = unitRes()
		}
		n.regHandle(n.vm.LastAcceptedBlock(ctx))
	case "finishSync":
		if o.A < 0 || o.A >= len(n.w.blocks) {
			r = resT{K: "err", Code: 9, Unres: -1}
			break
		}
		b := n.w.blocks[o.A]
		// the queue is empty here (the accepter is idle): AcceptBlock calls made by the
		// re-processing run on this goroutine and must not wait for the gate
		n.w.setOpen(true)
		err := n.vm.FinishStateSync(ctx, b, b.as(1), b.as(2))
		n.w.setOpen(false)
		if err != nil {
			r = errRes(err)
		} else {
			r = unitRes()
		}
		n.regHandle(n.vm.LastAcceptedBlock(ctx))
	default:
		panic("bad op")
	}
	evs := n.w.take()
	if o.K == "finishSync" {
		evs = n.canonFinish(evs)
	}
	if evs == nil {
		evs = []ev{}
	}
	return obsT{R: r, Ev: evs}
}

// acceptBacklog: snow.VM's acceptedQueue holds 16 blocks; with the accepter goroutine held inside
// Chain.AcceptBlock of an earlier block, the 18th outstanding Accept (1 in flight + 16 queued)
// finds the queue full.
const acceptBacklog = 17

func (n *node) waitProcessed(want int, d time.Duration) bool {
	deadline := time.Now().Add(d)
	for time.Now().Before(deadline) {
		a, err := n.vm.GetConsensusIndex().GetLastAccepted(n.ctx)
		if err == nil && n.w.numOf(a, -1) == want {
			return true
		}
		time.Sleep(50 * time.Microsecond)
	}
	return false
}

// acceptOnFullQueue: Accept while acceptBacklog accepted blocks are outstanding and the accepter is
// held on the oldest one.  The queue is full, so Accept (the engine thread) must block until the
// accepter has finished the oldest block and taken the next one from the queue: the call cannot
// return before the driver lets the accepter go on.  The driver gives the call a moment (a call that
// returns by itself is recorded as it is), then allows the oldest outstanding block and waits for
// the call to return.  What happened is recorded as two engine-visible steps, in the order of the
// callbacks: "accept" (the index write) and "process" (the accepter's AcceptBlock + notification of
// the oldest block; returned by the next "process" op).  Timing only decides when the accepter is
// let go, never what is recorded on a correct VM.
func (n *node) acceptOnFullQueue(blk *hblk, nb int) obsT {
	errc := make(chan error, 1)
	go func() {
		defer func() {
			if r := recover(); r != nil {
				errc <- fmt.Errorf("panic: %v", r)
			}
		}()
		errc <- blk.Accept(n.ctx)
	}()
	res := func(err error) resT {
		if err != nil {
			return errRes(err)
		}
		return unitRes()
	}
	select {
	case err := <-errc:
		// returned although the queue is full
		if err == nil {
			n.pending = append(n.pending, nb)
		}
		return obsT{R: res(err), Ev: nonNil(n.w.take())}
	case <-time.After(40 * time.Millisecond):
	}
	head := n.pending[0]
	n.w.allow(head)
	select {
	case err := <-errc:
		if err != nil {
			return obsT{R: res(err), Ev: nonNil(n.w.take())}
		}
		ok := n.waitProcessed(head, 10*time.Second)
		n.pending = append(n.pending[1:], nb)
		var mine, accepter []ev
		for _, e := range n.w.take() {
			if e.K == "accept" || e.K == "nacc" {
				accepter = append(accepter, e)
			} else {
				mine = append(mine, e)
			}
		}
		pr := unitRes()
		if !ok {
			pr = resT{K: "err", Code: 97, Unres: -1}
		}
		n.stash = &obsT{R: pr, Ev: nonNil(accepter)}
		return obsT{R: unitRes(), Ev: nonNil(mine)}
	case <-time.After(10 * time.Second):
		// a hang: let everything through so that the walk can end, and report it
		n.w.setOpen(true)
		select {
		case <-errc:
		case <-time.After(10 * time.Second):
		}
		return obsT{R: resT{K: "err", Code: 96, Unres: -1}, Ev: nonNil(n.w.take())}
	}
}

func nonNil(evs []ev) []ev {
	if evs == nil {
		return []ev{}
	}
	return evs
}

func (n *node) isReady() bool {
	d, _ := n.vm.HealthCheck(n.ctx)
	if m, ok := d.(map[string]any); ok {
		if v, ok := m["snowVMReady"].(bool); ok {
			return v
		}
	}
	return false
}

// canonFinish: verifyProcessingBlocks sorts by height only (Go map order decides among equal
// heights); blocks of equal height are independent, so order their callback groups by block number.
func (n *node) canonFinish(evs []ev) []ev {
	cut := 0
	for i, e := range evs {
		if e.K == "accept" || e.K == "nacc" {
			cut = i + 1
		}
	}
	head, tail := evs[:cut], evs[cut:]
	type chunk struct {
		h  uint64
		b  int
		es []ev
	}
	var chunks []chunk
	for _, e := range tail {
		if e.K == "verify" || len(chunks) == 0 {
			var h uint64
			if e.B >= 0 && e.B < len(n.w.blocks) {
				h = n.w.blocks[e.B].Hght
			}
			chunks = append(chunks, chunk{h: h, b: e.B})
		}
		chunks[len(chunks)-1].es = append(chunks[len(chunks)-1].es, e)
	}
	sort.SliceStable(chunks, func(i, j int) bool {
		if chunks[i].h != chunks[j].h {
			return chunks[i].h < chunks[j].h
		}
		return chunks[i].b < chunks[j].b
	})
	out := append([]ev{}, head...)
	for _, c := range chunks {
		out = append(out, c.es...)
	}
	return out
}

// ---------------------------------------------------------------------------------- engine walk

type engine struct {
	r        *rand.Rand
	n        *node
	cfg      cfgT
	ops      []opT
	obs      []obsT
	parent   []int // by block number
	height   []uint64
	invalid  []bool
	hid      map[int]int // handle -> block
	built    map[int]bool
	proc     map[int]int // block -> handle
	last     int
	chain    []int
	rejected map[int]bool
	unver    []int // handles parsed and not (successfully) verified yet
	pending  int
	ready    bool
	started  bool
	sync     []int
	pref     int
	builtVer bool
	midReject bool
	finishErr int
	stats    map[string]int
	useCtx   bool   // C20: blocks may carry a P-Chain context, verify / build may be given one
	ictx     []*int // by block number: inner context
	ctxSig   string // first observed misbehaviour around a context check (for the case signature)
	replaying bool
}

func newEngine(r *rand.Rand, n *node, cfg cfgT) *engine {
	return &engine{r: r, n: n, cfg: cfg, parent: []int{0}, height: []uint64{0}, invalid: []bool{false},
		hid: map[int]int{0: 0}, built: map[int]bool{}, proc: map[int]int{}, chain: []int{0}, rejected: map[int]bool{},
		ready: cfg.Ready, stats: map[string]int{}, ictx: []*int{nil}}
}

func (e *engine) do(o opT) obsT {
	if o.K == "finishSync" {
		e.midReject = e.openRejection()
	}
	ob := e.n.exec(o)
	if o.K == "finishSync" && ob.R.K == "err" {
		e.finishErr = ob.R.Code
	}
	e.ops = append(e.ops, o)
	e.obs = append(e.obs, ob)
	e.stats[o.baseK()]++
	if o.K != o.baseK() {
		e.stats[o.K]++
	}
	r := ob.R
	learn := func() {
		if r.K == "blk" && r.H >= 0 {
			if _, ok := e.hid[r.H]; !ok {
				e.hid[r.H] = r.B
				if !r.V {
					e.unver = append(e.unver, r.H)
				}
			}
		}
	}
	switch o.baseK() {
	case "parseNew":
		p := o.A
		var h uint64
		if p >= 0 && p < len(e.height) {
			h = e.height[p] + 1
		}
		e.parent = append(e.parent, p)
		e.height = append(e.height, h)
		e.invalid = append(e.invalid, o.Inv)
		e.ictx = append(e.ictx, o.C)
		learn()
	case "parse":
		learn()
	case "build":
		if r.K == "blk" && r.H >= 0 && len(ob.Ev) == 1 && ob.Ev[0].K == "build" {
			p := ob.Ev[0].P
			var h uint64
			if p >= 0 && p < len(e.height) {
				h = e.height[p] + 1
			}
			e.parent = append(e.parent, p)
			e.height = append(e.height, h)
			e.invalid = append(e.invalid, false)
			e.ictx = append(e.ictx, o.C)
			e.hid[r.H] = r.B
			e.built[r.H] = true
			e.unver = append(e.unver, r.H) // a built block the engine has not issued yet
		}
	case "verify":
		if b, ok := e.hid[o.A]; ok && e.ready && b >= 0 && b < len(e.ictx) {
			// what the engine can see of a context check: a mismatching context must be refused
			// without any callback or notification, a matching one must never be reported as mismatch
			mism := !sameCtx(o.C, e.ictx[b])
			switch {
			case mism:
				e.stats["ctxMismatch"]++
				if e.ctxSig == "" && r.K == "unit" {
					e.ctxSig = "verify-with-mismatching-context-succeeded"
				} else if e.ctxSig == "" && len(ob.Ev) > 0 {
					e.ctxSig = "callbacks-or-notifications-during-a-verify-refused-for-its-context"
				}
			case r.K == "err" && r.Code == 10 && e.ctxSig == "":
				e.ctxSig = "matching-context-reported-as-mismatch"
			}
		}
		if r.K == "unit" {
			b := e.hid[o.A]
			e.proc[b] = o.A
			if e.ready && e.built[o.A] {
				e.builtVer = true
			}
		}
	case "accept":
		if r.K == "unit" {
			b := e.hid[o.A]
			delete(e.proc, b)
			e.last = b
			e.chain = append(e.chain, b)
			if e.ready {
				e.pending++
			} else {
				e.sync = append(e.sync, b)
			}
		}
	case "reject":
		if r.K == "unit" {
			b := e.hid[o.A]
			delete(e.proc, b)
			e.rejected[b] = true
		}
	case "process":
		if r.K == "unit" {
			e.pending--
		}
	case "setPref":
		e.pref = o.A
	case "startSync":
		if r.K == "unit" {
			e.ready, e.started = false, true
			e.last = o.A
			e.chain = append(e.chain, o.A)
			e.sync = []int{o.A}
		}
	case "finishSync":
		if r.K == "unit" {
			e.ready = true
		}
	}
	if o.K == "accept" && e.n.stash != nil && !e.replaying {
		// Accept on a full queue: the accepter step that made room for it is the next op
		e.do(opT{K: "process"})
	}
	return ob
}

func sameCtx(a, b *int) bool {
	if a == nil || b == nil {
		return a == nil && b == nil
	}
	return *a == *b
}

func ip(v int) *int { return &v }

// pickCtx: a context from a small universe (collisions are the norm): none, or height 1..3
func (e *engine) pickCtx() *int {
	if e.r.Intn(5) < 2 {
		return nil
	}
	return ip(1 + e.r.Intn(3))
}

// parseNewOp / buildOp: the op creating a new block, with an inner context when contexts are in use
func (e *engine) parseNewOp(p int, inv bool) opT {
	if e.useCtx && e.r.Intn(4) != 0 {
		return opT{K: "parseNewCtx", A: p, Inv: inv, C: e.pickCtx()}
	}
	return opT{K: "parseNew", A: p, Inv: inv}
}

func (e *engine) buildOp() opT {
	if e.useCtx && e.r.Intn(4) != 0 {
		return opT{K: "buildCtx", C: e.pickCtx()}
	}
	return opT{K: "build"}
}

// verifyOp: a verify call on handle h whose context matches (or not) the block's inner context
func (e *engine) verifyOp(h int, match bool) opT {
	var inner *int
	if b, ok := e.hid[h]; ok && b >= 0 && b < len(e.ictx) {
		inner = e.ictx[b]
	}
	if match {
		switch {
		case inner != nil:
			return opT{K: "verifyCtx", A: h, C: ip(*inner)}
		case e.r.Intn(2) == 0:
			return opT{K: "verifyCtx", A: h} // VerifyWithContext(nil)
		default:
			return opT{K: "verify", A: h}
		}
	}
	if inner == nil {
		return opT{K: "verifyCtx", A: h, C: ip(1 + e.r.Intn(3))}
	}
	switch e.r.Intn(3) {
	case 0:
		return opT{K: "verify", A: h} // Verify() on a block that carries a context
	case 1:
		return opT{K: "verifyCtx", A: h}
	default:
		return opT{K: "verifyCtx", A: h, C: ip(1 + (*inner+e.r.Intn(2))%3)} // a different height in 1..3
	}
}

// verify: the engine issues / verifies the block behind handle h.  With contexts in use about a
// third of the first attempts carry a mismatching context; the engine then retries with the right
// one (possibly after a second wrong one), or gives up on the block for now (it stays verifiable:
// "verify something parsed earlier" may come back to it, or a sibling gets accepted instead).
func (e *engine) verify(h int) obsT {
	if !e.useCtx {
		return e.do(opT{K: "verify", A: h})
	}
	if e.r.Intn(100) < 32 {
		ob := e.do(e.verifyOp(h, false))
		if ob.R.K == "unit" {
			return ob // (never on a correct VM while ready; during state sync contexts are ignored)
		}
		switch e.r.Intn(5) {
		case 0:
			return ob
		case 1:
			if ob2 := e.do(e.verifyOp(h, false)); ob2.R.K == "unit" {
				return ob2
			}
		}
		if e.r.Intn(4) == 0 {
			e.lookups(1)
		}
	}
	return e.do(e.verifyOp(h, true))
}

func (e *engine) procIDs() []int {
	out := make([]int, 0, len(e.proc))
	for b := range e.proc {
		out = append(out, b)
	}
	sort.Ints(out)
	return out
}

func (e *engine) inChain(b int) bool {
	for _, c := range e.chain {
		if c == b {
			return true
		}
	}
	return false
}

func (e *engine) isProc(b int) bool { _, ok := e.proc[b]; return ok }

func (e *engine) pick(xs []int) int { return xs[e.r.Intn(len(xs))] }

// verifiable: handle may be passed to Verify under the engine contract
func (e *engine) verifiable(h int) bool {
	b, ok := e.hid[h]
	if !ok || b < 0 || b >= len(e.parent) {
		return false
	}
	if e.isProc(b) || e.inChain(b) || e.rejected[b] {
		return false
	}
	p := e.parent[b]
	return e.isProc(p) || p == e.last
}

func (e *engine) lookups(k int) {
	for i := 0; i < k; i++ {
		nb := len(e.parent)
		tip := int(e.height[e.last])
		switch e.r.Intn(9) {
		case 0, 1:
			// an accepted block, biased towards old (evicted) ones
			c := e.chain[e.r.Intn(len(e.chain))]
			if e.r.Intn(2) == 0 {
				c = e.chain[e.r.Intn(1+len(e.chain)/2)]
			}
			e.do(opT{K: "getBlock", A: c})
		case 2:
			e.do(opT{K: "getBlock", A: e.r.Intn(nb + 1)})
		case 3, 4:
			e.do(opT{K: "idAtHeight", A: e.r.Intn(tip + 2)})
		case 5:
			e.do(opT{K: "byHeight", A: e.r.Intn(tip + 2)})
		case 6:
			e.do(opT{K: "lastAccepted"})
		case 7:
			e.do(opT{K: "lastProcessed"})
		case 8:
			if e.r.Intn(2) == 0 {
				e.do(opT{K: "preferred"})
			} else {
				e.do(opT{K: "health"})
			}
		}
	}
}

func (e *engine) childrenOf(p int) []int {
	var out []int
	for _, b := range e.procIDs() {
		if e.parent[b] == p {
			out = append(out, b)
		}
	}
	return out
}

// doomed: processing blocks that can no longer be accepted
func (e *engine) doomed() []int {
	var out []int
	for _, b := range e.procIDs() {
		p := e.parent[b]
		if !e.isProc(p) && p != e.last {
			out = append(out, b)
		}
	}
	return out
}

func (e *engine) rejectDoomed(all bool) {
	for {
		d := e.doomed()
		if len(d) == 0 {
			return
		}
		for _, b := range d {
			e.do(opT{K: "reject", A: e.proc[b]})
		}
		if !all {
			return
		}
	}
}

// closeRejections finishes the engine's transitive rejections: a processing block whose parent
// was rejected is rejected too.
func (e *engine) closeRejections() {
	for {
		done := true
		for _, b := range e.procIDs() {
			if e.rejected[e.parent[b]] {
				e.do(opT{K: "reject", A: e.proc[b]})
				done = false
			}
		}
		if done {
			return
		}
	}
}

func (e *engine) openRejection() bool {
	for _, b := range e.procIDs() {
		if e.rejected[e.parent[b]] {
			return true
		}
	}
	return false
}

// makeMidReject: x, z children of the last accepted block, y child of x; accept z, reject x only.
func (e *engine) makeMidReject() {
	l := e.last
	x := e.do(opT{K: "parseNew", A: l})
	e.do(opT{K: "verify", A: x.R.H})
	y := e.do(opT{K: "parseNew", A: x.R.B})
	e.do(opT{K: "verify", A: y.R.H})
	z := e.do(opT{K: "parseNew", A: l})
	e.do(opT{K: "verify", A: z.R.H})
	e.do(opT{K: "accept", A: z.R.H})
	e.do(opT{K: "reject", A: x.R.H})
}

func (e *engine) canAccept() bool { return !e.ready || e.pending < e.cfg.Q }

func (e *engine) acceptOne(b int) {
	if e.do(opT{K: "accept", A: e.proc[b]}).R.K != "unit" {
		return
	}
	if e.ready && e.r.Intn(2) == 0 {
		e.do(opT{K: "process"})
	}
	switch e.r.Intn(10) {
	case 0: // rejections delayed
	case 1:
		e.rejectDoomed(false)
	default:
		e.rejectDoomed(true)
	}
	if !e.isProc(e.pref) && e.pref != e.last {
		e.do(opT{K: "setPref", A: e.last})
	}
}

// one random engine action; returns false if nothing was enabled
func (e *engine) action(allowBuild bool, invalidPct int) {
	tipParents := append(e.procIDs(), e.last)
	switch c := e.r.Intn(100); {
	case c < 12 && allowBuild && e.ready: // build on the preference, verify, usually prefer it
		if !e.isProc(e.pref) && e.pref != e.last {
			e.do(opT{K: "setPref", A: e.last}) // the engine always has a live preference
		}
		ob := e.do(e.buildOp())
		if ob.R.K == "blk" {
			if e.r.Intn(8) != 0 {
				e.verify(ob.R.H)
				if e.r.Intn(4) != 0 && e.isProc(ob.R.B) {
					e.do(opT{K: "setPref", A: ob.R.B})
				}
			}
		}
	case c < 34: // parse a new child of a processing / last accepted block and verify it
		p := e.pick(tipParents)
		if e.r.Intn(3) == 0 && (e.isProc(e.pref) || e.pref == e.last) {
			p = e.pref // deepen the preferred branch
		}
		inv := e.r.Intn(100) < invalidPct
		ob := e.do(e.parseNewOp(p, inv))
		if ob.R.K == "blk" && ob.R.H >= 0 && e.r.Intn(6) != 0 {
			v := e.verify(ob.R.H)
			if v.R.K == "unit" && e.r.Intn(2) == 0 {
				e.do(opT{K: "setPref", A: ob.R.B})
			}
		}
	case c < 40: // verify something parsed earlier
		var cand []int
		for _, h := range e.unver {
			if e.verifiable(h) {
				cand = append(cand, h)
			}
		}
		if len(cand) > 0 {
			e.verify(e.pick(cand))
		}
	case c < 50: // re-parse a known block (processing, accepted, rejected, never verified)
		e.do(opT{K: "parse", A: e.r.Intn(len(e.parent))})
	case c < 53: // a block whose parent is unknown
		e.do(e.parseNewOp(orphanParent, false))
	case c < 56: // child of a rejected / unverified block: parse only (the engine cannot verify it)
		e.do(e.parseNewOp(e.r.Intn(len(e.parent)), e.r.Intn(4) == 0))
	case c < 72: // accept a child of the last accepted block
		kids := e.childrenOf(e.last)
		if len(kids) > 0 && e.canAccept() {
			b := e.pick(kids)
			if !e.ready && e.invalid[b] {
				return // consensus never accepts an invalid block
			}
			if e.ready && !e.n.objVerified(e.proc[b]) && e.r.Intn(3) != 0 {
				return // unresolved block: accepting it is a fatal error (tried rarely)
			}
			e.acceptOne(b)
		}
	case c < 78: // accept a whole branch
		for i := 0; i < 4; i++ {
			kids := e.childrenOf(e.last)
			if len(kids) == 0 || !e.canAccept() {
				break
			}
			b := e.pick(kids)
			if e.invalid[b] || (e.ready && !e.n.objVerified(e.proc[b])) {
				break
			}
			e.acceptOne(b)
		}
	case c < 86: // the accepter catches up
		if e.pending > 0 {
			e.do(opT{K: "process"})
		}
	case c < 92:
		e.do(opT{K: "setPref", A: e.pick(tipParents)})
	case c < 96:
		e.rejectDoomed(e.r.Intn(2) == 0)
	default:
		e.lookups(2)
	}
}

func (n *node) objVerified(h int) bool {
	if h < 0 || h >= len(n.objs) {
		return false
	}
	return strings.Contains(n.objs[h].String(), "verified = true")
}

func (e *engine) finishWalk() {
	for e.pending > 0 {
		if e.do(opT{K: "process"}).R.K != "unit" {
			break
		}
	}
	for b := 0; b < len(e.parent); b++ {
		e.do(opT{K: "getBlock", A: b})
	}
	tip := int(e.height[e.last])
	for h := 0; h <= tip+1; h++ {
		e.do(opT{K: "idAtHeight", A: h})
		if h%2 == 0 {
			e.do(opT{K: "byHeight", A: h})
		}
	}
	e.do(opT{K: "lastAccepted"})
	e.do(opT{K: "lastProcessed"})
	e.do(opT{K: "preferred"})
	e.do(opT{K: "health"})
}

// ---------------------------------------------------------------------------------- walks

type walk struct {
	Cfg   cfgT   `json:"cfg"`
	Kind  string `json:"kind"`
	Ops   []opT  `json:"ops"`
	Built bool   `json:"builtClause"` // case restricted to the built-block clause of C20 (F-21)
}

func pickCfg(r *rand.Rand, ready bool) cfgT {
	ws := []int{2, 2, 3, 3, 4, 6, 128}
	ps := []int{1, 2, 2, 3, 128}
	w := ws[r.Intn(len(ws))]
	q := 1 + r.Intn(w-1)
	if q > 6 {
		q = 1 + r.Intn(6)
	}
	return cfgT{W: w, P: ps[r.Intn(len(ps))], Ready: ready, Q: q}
}

type holder struct {
	mu sync.Mutex
	e  *engine
}

func (h *holder) set(e *engine) { h.mu.Lock(); h.e = e; h.mu.Unlock() }
func (h *holder) get() *engine  { h.mu.Lock(); defer h.mu.Unlock(); return h.e }

func genLifecycle(t *testing.T, r *rand.Rand, kind string, hd *holder) (*engine, error) {
	cfg := pickCfg(r, true)
	n, err := newNode(t, cfg)
	if err != nil {
		return nil, err
	}
	e := newEngine(r, n, cfg)
	e.useCtx = strings.HasSuffix(kind, "+ctx")
	kind = strings.TrimSuffix(kind, "+ctx")
	hd.set(e)
	steps := 40 + r.Intn(120)
	if kind == "deep" {
		steps = 120 + r.Intn(80)
	}
	for i := 0; i < steps && len(e.ops) < 420; i++ {
		e.action(kind != "parse-only", 15)
		if r.Intn(3) == 0 {
			e.lookups(1 + r.Intn(2))
		}
	}
	e.rejectDoomed(true)
	e.finishWalk()
	return e, nil
}

// genBacklog: the async accepter falls behind.  A linear chain of 20-26 verified blocks (parsed or
// built, with side forks) on top of a short normal prefix; then the engine accepts the whole chain
// while the accepter is held inside Chain.AcceptBlock of the oldest outstanding block: after 1 in
// flight + 16 queued the queue is full and every further Accept has to wait for the accepter
// (acceptOnFullQueue); lookups in between; finally the queue is drained.
func genBacklog(t *testing.T, r *rand.Rand, kind string, hd *holder) (*engine, error) {
	cfg := cfgT{W: 128, P: []int{2, 3, 128}[r.Intn(3)], Ready: true, Q: acceptBacklog + 1}
	n, err := newNode(t, cfg)
	if err != nil {
		return nil, err
	}
	e := newEngine(r, n, cfg)
	e.useCtx = strings.HasSuffix(kind, "+ctx")
	hd.set(e)
	// a short ordinary prefix, fully processed
	for i := r.Intn(12); i > 0; i-- {
		e.action(true, 10)
	}
	e.rejectDoomed(true)
	for e.pending > 0 {
		if e.do(opT{K: "process"}).R.K != "unit" {
			return e, nil
		}
	}
	// the chain to accept: continue a processing branch, then extend it
	var chain []int
	tip := e.last
	for {
		kids := e.childrenOf(tip)
		if len(kids) == 0 {
			break
		}
		tip = e.pick(kids)
		chain = append(chain, tip)
	}
	length := 20 + r.Intn(7)
	for tries := 0; len(chain) < length && tries < 4*length; tries++ {
		var ob obsT
		if r.Intn(4) == 0 {
			e.do(opT{K: "setPref", A: tip})
			ob = e.do(e.buildOp())
		} else {
			ob = e.do(e.parseNewOp(tip, false))
		}
		if ob.R.K != "blk" || ob.R.H < 0 {
			continue
		}
		if v := e.verify(ob.R.H); v.R.K != "unit" && e.verifiable(ob.R.H) {
			e.do(e.verifyOp(ob.R.H, true))
		}
		if !e.isProc(ob.R.B) {
			continue
		}
		tip = ob.R.B
		chain = append(chain, tip)
		if r.Intn(5) == 0 { // a side fork that will be rejected
			side := e.do(e.parseNewOp(e.parent[tip], r.Intn(4) == 0))
			if side.R.K == "blk" && side.R.H >= 0 && r.Intn(2) == 0 {
				e.verify(side.R.H)
			}
		}
		if r.Intn(6) == 0 {
			e.lookups(1)
		}
	}
	if !e.isProc(e.pref) && e.pref != e.last {
		e.do(opT{K: "setPref", A: e.last})
	}
	// accept the whole chain; the accepter handles a block only when the queue forces it to
	// (or, rarely, a little earlier)
	for i, b := range chain {
		if !e.isProc(b) || e.parent[b] != e.last || !e.canAccept() {
			break
		}
		if e.do(opT{K: "accept", A: e.proc[b]}).R.K != "unit" {
			break
		}
		switch c := r.Intn(12); {
		case c == 0 && e.pending > 0 && i < 6:
			e.do(opT{K: "process"})
		case c < 4:
			e.lookups(1)
		case c == 4:
			e.rejectDoomed(false)
		}
		if !e.isProc(e.pref) && e.pref != e.last {
			e.do(opT{K: "setPref", A: e.last})
		}
	}
	e.lookups(2)
	e.rejectDoomed(true)
	e.finishWalk()
	return e, nil
}

func genSync(t *testing.T, r *rand.Rand, kind string, hd *holder) (*engine, error) {
	cfg := pickCfg(r, r.Intn(4) == 0)
	n, err := newNode(t, cfg)
	if err != nil {
		return nil, err
	}
	e := newEngine(r, n, cfg)
	hd.set(e)
	// sync target: the current last accepted block, or a block some way ahead that the node only parsed
	target := 0
	if r.Intn(2) == 0 {
		p := 0
		for i := 0; i <= r.Intn(3); i++ {
			ob := e.do(opT{K: "parseNew", A: p})
			p = ob.R.B
		}
		target = p
	}
	e.do(opT{K: "health"})
	e.do(opT{K: "startSync", A: target})
	e.do(opT{K: "setPref", A: target})
	e.lookups(2)
	invalidPct := 25
	if kind == "sync-valid" {
		invalidPct = 0
	}
	during := 5 + r.Intn(40)
	for i := 0; i < during; i++ {
		e.action(false, invalidPct)
		if r.Intn(4) == 0 {
			e.lookups(1)
		}
	}
	if kind == "sync-midreject" {
		e.closeRejections()
		e.makeMidReject()
	} else {
		e.closeRejections()
	}
	// finish at the tip or at an ancestor accepted since the target
	t0 := e.sync[len(e.sync)-1]
	if r.Intn(5) < 3 && len(e.sync) > 1 {
		t0 = e.sync[r.Intn(len(e.sync))]
	}
	e.do(opT{K: "health"})
	fin := e.do(opT{K: "finishSync", A: t0})
	if fin.R.K != "unit" {
		e.lookups(4)
		return e, nil
	}
	e.do(opT{K: "health"})
	e.do(opT{K: "lastProcessed"})
	e.do(opT{K: "preferred"})
	for _, b := range e.procIDs() {
		e.do(opT{K: "getBlock", A: b})
	}
	after := 10 + r.Intn(50)
	for i := 0; i < after; i++ {
		e.action(true, invalidPct)
		if r.Intn(3) == 0 {
			e.do(opT{K: "health"})
		}
	}
	e.rejectDoomed(true)
	e.do(opT{K: "health"})
	e.finishWalk()
	return e, nil
}

func replayWalk(t *testing.T, wk walk, hd *holder) (*engine, error) {
	n, err := newNode(t, wk.Cfg)
	if err != nil {
		return nil, err
	}
	e := newEngine(rand.New(rand.NewSource(0)), n, wk.Cfg) //nolint:gosec
	e.replaying = true
	hd.set(e)
	for _, o := range wk.Ops {
		e.do(o)
	}
	return e, nil
}

func coqList(items []string, ty string) string { return emit.List(ty, items) }

func (e *engine) emit(kind string, builtClause bool, ctxOps bool) emit.Case {
	ops := make([]string, len(e.ops))
	for i, o := range e.ops {
		if ctxOps {
			ops[i] = o.ccoq()
		} else {
			ops[i] = o.coq()
		}
	}
	opTy := "op"
	if ctxOps {
		opTy = "cop"
	}
	obs := make([]string, len(e.obs))
	for i, ob := range e.obs {
		evs := make([]string, len(ob.Ev))
		for j, x := range ob.Ev {
			evs[j] = x.coq()
		}
		obs[i] = "(" + ob.R.coq() + ", " + coqList(evs, "event") + ")"
	}
	initEvs := make([]string, len(e.n.initEv))
	for j, x := range e.n.initEv {
		initEvs[j] = x.coq()
	}
	coq := emit.App("mk",
		fmt.Sprintf("(mkCfg %d %d %s)", e.cfg.W, e.cfg.P, emit.Bool(e.cfg.Ready)),
		fmt.Sprintf("%d", e.cfg.Q), coqList(initEvs, "event"),
		coqList(ops, opTy), coqList(obs, "res * list event"), emit.Bool(builtClause))
	sig := "lifecycle-or-lookup-violated"
	if e.ctxSig != "" {
		sig = e.ctxSig
	}
	e.n.w.mu.Lock()
	if len(e.n.w.outOfOrd) > 0 {
		sig = "chain-AcceptBlock-called-out-of-accept-order"
	}
	e.n.w.mu.Unlock()
	if strings.HasPrefix(kind, "sync") {
		sig = "handover-violated"
		if e.midReject && e.finishErr == 1 {
			sig = "finish-fails-not-found-while-a-processing-block-has-a-rejected-parent"
		}
	}
	if builtClause {
		sig = "built-block-verify-not-delivered-to-verified-subscribers"
	}
	nontrivial := e.stats["accept"] >= 2 && e.stats["verify"] >= 3
	type mirror struct {
		walk
		Obs []obsT `json:"obs"`
	}
	return emit.Case{Coq: coq, JSON: mirror{walk{Cfg: e.cfg, Kind: kind, Ops: e.ops, Built: builtClause}, e.obs}, Nontrivial: nontrivial, Kind: kind, Sig: sig}
}

func runWalk(t *testing.T, f func(hd *holder) (*engine, error)) *engine {
	done := make(chan struct{}, 1)
	hd := &holder{}
	go func() {
		if _, err := f(hd); err != nil {
			t.Logf("walk failed to start: %v", err)
		}
		done <- struct{}{}
	}()
	select {
	case <-done:
	case <-time.After(60 * time.Second):
		// a hang is a failing case: the observations stop short of the ops the model expects
		t.Logf("walk timed out")
		if e := hd.get(); e != nil {
			e.ops = append(e.ops[:len(e.ops):len(e.ops)], opT{K: "health"}, opT{K: "health"})
		}
	}
	return hd.get()
}

func TestDriver(t *testing.T) {
	env := emit.GetEnv()
	if env.Out == "" {
		t.Skip("VERIF_OUT not set")
	}
	w, err := emit.NewWriter(env.Out)
	if err != nil {
		t.Fatal(err)
	}
	defer w.Close()
	put := func(e *engine, kind string, builtOnly bool) {
		if e == nil {
			return
		}
		e.n.close()
		if env.Prop == "C21" {
			_ = w.Put(e.emit(kind, false, false))
			return
		}
		if !builtOnly {
			_ = w.Put(e.emit(kind, false, true))
		}
		if e.builtVer && (builtOnly || w.Count()%5 == 0) {
			_ = w.Put(e.emit(kind+"+built-clause", true, true))
		}
	}
	if env.Mode == "replay" {
		raws, err := emit.ReadReplay(env.Replay)
		if err != nil {
			t.Fatal(err)
		}
		for _, raw := range raws {
			var wk walk
			if err := json.Unmarshal(raw, &wk); err != nil {
				t.Fatal(err)
			}
			e := runWalk(t, func(hd *holder) (*engine, error) { return replayWalk(t, wk, hd) })
			put(e, wk.Kind, wk.Built)
		}
		return
	}
	r := env.Rand()
	n := env.N
	for i := 0; i < n; i++ {
		seed := r.Int63()
		var kind string
		if env.Prop == "C21" {
			kind = []string{"sync-mixed", "sync-mixed", "sync-valid", "sync-mixed", "sync-mixed", "sync-valid", "sync-midreject"}[i%7]
		} else {
			// three walks in four use P-Chain contexts (inner contexts, VerifyWithContext, BuildBlockWithContext)
			kind = []string{"mixed+ctx", "parse-only+ctx", "mixed", "deep+ctx", "mixed+ctx", "parse-only", "mixed+ctx", "deep"}[i%8]
			// the async accepter falls behind the engine (full accept queue): 6 walks in a quick run
			if i%20 == 5 {
				kind = []string{"backlog", "backlog+ctx"}[(i/20)%2]
			}
		}
		k := kind
		e := runWalk(t, func(hd *holder) (*engine, error) {
			rr := rand.New(rand.NewSource(seed)) //nolint:gosec
			if env.Prop == "C21" {
				return genSync(t, rr, k, hd)
			}
			if strings.HasPrefix(k, "backlog") {
				return genBacklog(t, rr, k, hd)
			}
			return genLifecycle(t, rr, k, hd)
		})
		put(e, kind, false)
	}
}
