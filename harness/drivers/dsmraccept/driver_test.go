// Driver for C35: the real x/dsmr.Node.Accept on a real ChunkStorage + ChunkVerifier (BLS-signed chunks), with
// chunks partly local (pending with/without certificate, accepted) and partly served by scripted peers that
// fail, return unusable or invalid chunks, a valid but different chunk, or the requested chunk.
package dsmraccept

import (
	"context"
	"encoding/json"
	"errors"
	"fmt"
	"math/rand"
	"sync"
	"testing"
	"time"

	"github.com/ava-labs/avalanchego/database"
	"github.com/ava-labs/avalanchego/database/memdb"
	"github.com/ava-labs/avalanchego/ids"
	"github.com/ava-labs/avalanchego/network/p2p"
	"github.com/ava-labs/avalanchego/network/p2p/p2ptest"
	"github.com/ava-labs/avalanchego/snow/engine/common"
	"github.com/ava-labs/avalanchego/utils/crypto/bls"
	"github.com/ava-labs/avalanchego/utils/crypto/bls/signer/localsigner"
	"github.com/ava-labs/avalanchego/utils/logging"
	"github.com/ava-labs/avalanchego/utils/wrappers"
	"github.com/ava-labs/avalanchego/vms/platformvm/warp"
	"google.golang.org/protobuf/proto"

	"github.com/ava-labs/hypersdk/codec"
	"github.com/ava-labs/hypersdk/consts"
	pb "github.com/ava-labs/hypersdk/proto/pb/dsmr"
	"github.com/ava-labs/hypersdk/utils"
	"github.com/ava-labs/hypersdk/verifharness/emit"
	"github.com/ava-labs/hypersdk/x/dsmr"
	"github.com/ava-labs/hypersdk/x/dsmr/dsmrtest"
)

// ---- inputs ----------------------------------------------------------------------------------

const (
	stPendCert = iota
	stPendNoCert
	stAccepted
	stMissing
	stStoreErr
)

var statCoq = []string{"LPendCert", "LPendNoCert", "LAccepted", "LMissing", "LStoreErr"}

type respSpec struct {
	K   string `json:"k"`             // fail | valid | wrong
	Sub int    `json:"sub,omitempty"` // fail: 0 AppError, 1 non-proto bytes, 2 truncated chunk, 3 bad signature, 4 non-validator producer, 5 expiry outside window
	W   int    `json:"w,omitempty"`   // wrong: index of the chunk served instead
}

type input struct {
	Stats  []int      `json:"stats"`
	ValErr bool       `json:"valerr"`
	Certs  []int      `json:"certs"`
	Script []respSpec `json:"script"`
	// Tight: when Accept runs, the accepting node's per-producer pending weight limit equals the largest pending
	// weight any producer has in its storage (0 when nothing is pending): signature requests for more chunks of that
	// producer would be refused, accepting a decided block that references them must still work.
	Tight bool `json:"tight,omitempty"`
}

type mirror struct {
	input
	OK     bool  `json:"ok"`
	Chunks []int `json:"chunks"`
	Reqs   []int `json:"reqs"`
}

// ---- fixed world: two validators, a pool of signed chunks --------------------------------------

const (
	networkID = uint32(23)
	poolSize  = 7 // table chunks 0..4, extra chunks 5..6 (only ever served as wrong answers)
)

var chainID = ids.ID{0xC3, 0x5}

type built struct {
	chunk dsmr.Chunk[dsmrtest.Tx]
	bytes []byte
	id    ids.ID
}

type world struct {
	sks      []*localsigner.LocalSigner
	nodeIDs  []ids.NodeID
	valid    []built
	badSig   []built // same content as valid[i] but carrying another chunk's signature
	nonVal   built   // signed by a key/producer outside the validator set
	expired  built   // validator-signed, expiry below the verifier's minimum
	byID     map[ids.ID]int
	initOnce sync.Once
	initErr  error
}

var w0 world

func marshalChunk(c dsmr.Chunk[dsmrtest.Tx]) (built, error) {
	packer := wrappers.Packer{Bytes: make([]byte, 0, 1024), MaxSize: consts.NetworkSizeLimit}
	if err := codec.LinearCodec.MarshalInto(&c, &packer); err != nil {
		return built{}, err
	}
	parsed, err := dsmr.ParseChunk[dsmrtest.Tx](packer.Bytes)
	if err != nil {
		return built{}, err
	}
	return built{chunk: parsed, bytes: packer.Bytes, id: utils.ToID(packer.Bytes)}, nil
}

// signChunk mirrors x/dsmr's unexported signChunk through the public API.
func signChunk(u dsmr.UnsignedChunk[dsmrtest.Tx], sk *localsigner.LocalSigner) (built, error) {
	packer := wrappers.Packer{Bytes: make([]byte, 0, 1024), MaxSize: consts.NetworkSizeLimit}
	if err := codec.LinearCodec.MarshalInto(u, &packer); err != nil {
		return built{}, err
	}
	msg, err := warp.NewUnsignedMessage(networkID, chainID, packer.Bytes)
	if err != nil {
		return built{}, err
	}
	sig, err := warp.NewSigner(sk, networkID, chainID).Sign(msg)
	if err != nil {
		return built{}, err
	}
	c := dsmr.Chunk[dsmrtest.Tx]{UnsignedChunk: u}
	copy(c.Signer[:], bls.PublicKeyToCompressedBytes(sk.PublicKey()))
	copy(c.Signature[:], sig)
	return marshalChunk(c)
}

func (w *world) init() {
	w.initOnce.Do(func() {
		for i := 0; i < 3; i++ {
			sk, err := localsigner.New()
			if err != nil {
				w.initErr = err
				return
			}
			w.sks = append(w.sks, sk)
			var n ids.NodeID
			n[0], n[19] = byte(0x60+i), byte(i+1)
			w.nodeIDs = append(w.nodeIDs, n)
		}
		w.byID = map[ids.ID]int{}
		mk := func(prod int, expiry int64, salt int) (built, error) {
			var txID ids.ID
			txID[0], txID[1] = byte(salt), 0x35
			return signChunk(dsmr.UnsignedChunk[dsmrtest.Tx]{
				Producer: w.nodeIDs[prod], Beneficiary: codec.Address{byte(salt)}, Expiry: expiry,
				Txs: []dsmrtest.Tx{{ID: txID, Expiry: 1_000, Sponsor: codec.Address{byte(salt)}}},
			}, w.sks[prod])
		}
		for i := 0; i < poolSize; i++ {
			b, err := mk(i%2, int64(100+10*i), i)
			if err != nil {
				w.initErr = err
				return
			}
			w.valid = append(w.valid, b)
			w.byID[b.id] = i
		}
		for i := 0; i < poolSize; i++ {
			c := w.valid[i].chunk
			other := w.valid[(i+2)%poolSize].chunk // same producer key, different message
			bad := dsmr.Chunk[dsmrtest.Tx]{UnsignedChunk: c.UnsignedChunk, Signer: c.Signer, Signature: other.Signature}
			b, err := marshalChunk(bad)
			if err != nil {
				w.initErr = err
				return
			}
			w.badSig = append(w.badSig, b)
		}
		var err error
		if w.nonVal, err = mk(2, 150, 50); err != nil {
			w.initErr = err
			return
		}
		if w.expired, err = mk(1, -5, 51); err != nil {
			w.initErr = err
			return
		}
	})
}

// ---- collaborators ---------------------------------------------------------------------------

type chainState struct {
	w      *world
	valErr bool
}

func (*chainState) GetNetworkID() uint32 { return networkID }
func (*chainState) GetSubnetID() ids.ID  { return ids.Empty }
func (*chainState) GetChainID() ids.ID   { return chainID }
func (*chainState) GetQuorumNum() uint64 { return 1 }
func (*chainState) GetQuorumDen() uint64 { return 1 }
func (c *chainState) GetCanonicalValidatorSet(context.Context) (warp.CanonicalValidatorSet, error) {
	if c.valErr {
		return warp.CanonicalValidatorSet{}, errors.New("scripted: validator set unavailable")
	}
	out := warp.CanonicalValidatorSet{}
	for i := 0; i < 2; i++ {
		pk := c.w.sks[i].PublicKey()
		out.Validators = append(out.Validators, &warp.Validator{
			PublicKey: pk, PublicKeyBytes: bls.PublicKeyToUncompressedBytes(pk), Weight: 1, NodeIDs: []ids.NodeID{c.w.nodeIDs[i]},
		})
		out.TotalWeight++
	}
	return out, nil
}
func (c *chainState) IsNodeValidator(_ context.Context, nodeID ids.NodeID, _ uint64) (bool, error) {
	return nodeID == c.w.nodeIDs[0] || nodeID == c.w.nodeIDs[1], nil
}

type rules struct{}

func (rules) GetValidityWindow() int64                     { return 10_000 }
func (rules) GetMaxAccumulatedProducerChunkWeight() uint64 { return 1 << 40 }

type ruleFactory struct{}

func (ruleFactory) GetRules(int64) dsmr.Rules { return rules{} }

// rules of the accepting node: the per-producer pending weight limit can be tightened by a scenario (input.Tight)
// after its chunk storage has been filled, so that a producer's budget is exactly exhausted when Accept runs.
type limRules struct{ lim *uint64 }

func (limRules) GetValidityWindow() int64                       { return 10_000 }
func (l limRules) GetMaxAccumulatedProducerChunkWeight() uint64 { return *l.lim }

type limRuleFactory struct{ lim *uint64 }

func (f limRuleFactory) GetRules(int64) dsmr.Rules { return limRules(f) }

var errInjected = errors.New("injected storage failure")

type faultDB struct {
	database.Database
	fail map[string]bool
}

func (f *faultDB) Get(key []byte) ([]byte, error) {
	if f.fail[string(key)] {
		return nil, errInjected
	}
	return f.Database.Get(key)
}

func acceptedKey(b built) []byte {
	k := make([]byte, 1+8+ids.IDLen)
	k[0] = 2
	e := uint64(b.chunk.Expiry)
	for i := 0; i < 8; i++ {
		k[1+i] = byte(e >> (56 - 8*i))
	}
	copy(k[9:], b.id[:])
	return k
}

// the peers: one scripted handler behind every validator node id
type peers struct {
	w      *world
	mu     sync.Mutex
	script []respSpec
	pos    int
	reqs   []int
	// the real server side of the GetChunk protocol (x/dsmr/p2p.go GetChunkHandler) over the peer's own storage,
	// which holds every valid chunk (even indices pending, odd indices accepted); "valid" answers come from it
	real       p2p.Handler
	serveFault string
}

func (*peers) AppGossip(context.Context, ids.NodeID, []byte) {}

func (p *peers) AppRequest(ctx context.Context, from ids.NodeID, deadline time.Time, requestBytes []byte) ([]byte, *common.AppError) {
	p.mu.Lock()
	defer p.mu.Unlock()
	req := pb.GetChunkRequest{}
	asked := 999
	if err := proto.Unmarshal(requestBytes, &req); err == nil {
		if id, err := ids.ToID(req.ChunkId); err == nil {
			if ix, ok := p.w.byID[id]; ok && p.w.valid[ix].chunk.Expiry == req.Expiry {
				asked = ix
			}
		}
	}
	p.reqs = append(p.reqs, asked)
	r := respSpec{K: "valid"}
	if p.pos < len(p.script) {
		r = p.script[p.pos]
		p.pos++
	}
	if asked == 999 {
		return nil, &common.AppError{Code: 1, Message: "unknown chunk requested"}
	}
	wrap := func(chunkBytes []byte) ([]byte, *common.AppError) {
		out, err := proto.Marshal(&pb.GetChunkResponse{Chunk: chunkBytes})
		if err != nil {
			return nil, &common.AppError{Code: 2, Message: err.Error()}
		}
		return out, nil
	}
	switch r.K {
	case "valid":
		want, _ := wrap(p.w.valid[asked].bytes)
		got, appErr := p.real.AppRequest(ctx, from, deadline, requestBytes)
		if appErr != nil {
			p.serveFault = fmt.Sprintf("GetChunkHandler answered a request for stored chunk %d with an error: %s", asked, appErr.Message)
			return want, nil
		}
		if string(got) != string(want) {
			p.serveFault = fmt.Sprintf("GetChunkHandler served other bytes than those of the requested stored chunk %d", asked)
			return want, nil
		}
		return got, nil
	case "wrong":
		return wrap(p.w.valid[r.W].bytes)
	default:
		switch r.Sub {
		case 0:
			return nil, &common.AppError{Code: 1, Message: "scripted: chunk is not available"}
		case 1:
			return []byte{0xff, 0xff, 0xff}, nil
		case 2:
			b := p.w.valid[asked].bytes
			return wrap(b[:len(b)/2])
		case 3:
			return wrap(p.w.badSig[asked].bytes)
		case 4:
			return wrap(p.w.nonVal.bytes)
		default:
			return wrap(p.w.expired.bytes)
		}
	}
}

// ---- one case --------------------------------------------------------------------------------

func run(t *testing.T, in input, kind string) (c emit.Case, err error) {
	defer func() {
		if r := recover(); r != nil {
			err = fmt.Errorf("panic: %v", r)
		}
	}()
	w := &w0
	w.init()
	if w.initErr != nil {
		return c, w.initErr
	}
	ctx := context.Background()
	cs := &chainState{w: w}
	fdb := &faultDB{Database: memdb.New(), fail: map[string]bool{}}
	lim := uint64(1) << 40
	verifier := dsmr.NewChunkVerifier[dsmrtest.Tx](cs, ruleFactory{})
	storage, e := dsmr.NewChunkStorage[dsmrtest.Tx](verifier, fdb, limRuleFactory{&lim})
	if e != nil {
		return c, e
	}
	certOf := func(i int) *dsmr.ChunkCertificate {
		b := w.valid[i]
		return &dsmr.ChunkCertificate{
			ChunkReference: dsmr.ChunkReference{ChunkID: b.id, Producer: b.chunk.Producer, Expiry: b.chunk.Expiry},
			Signature:      &warp.BitSetSignature{},
		}
	}
	var saved []ids.ID
	for i, s := range in.Stats {
		switch s {
		case stPendCert:
			if e := storage.AddLocalChunkWithCert(w.valid[i].chunk, certOf(i)); e != nil {
				return c, e
			}
		case stPendNoCert:
			if _, e := storage.VerifyRemoteChunk(w.valid[i].chunk); e != nil {
				return c, e
			}
		case stAccepted:
			if e := storage.AddLocalChunkWithCert(w.valid[i].chunk, certOf(i)); e != nil {
				return c, e
			}
			saved = append(saved, w.valid[i].id)
		case stStoreErr:
			fdb.fail[string(acceptedKey(w.valid[i]))] = true
		}
	}
	if len(saved) > 0 {
		if e := storage.SetMin(0, saved); e != nil {
			return c, e
		}
	}
	if in.Tight {
		pend := map[ids.NodeID]uint64{}
		isSaved := map[ids.ID]bool{}
		for _, id := range saved {
			isSaved[id] = true
		}
		lim = 0
		for i, st := range in.Stats {
			if (st == stPendCert || st == stPendNoCert) && !isSaved[w.valid[i].id] {
				pend[w.valid[i].chunk.Producer] += uint64(len(w.valid[i].bytes))
				lim = max(lim, pend[w.valid[i].chunk.Producer])
			}
		}
	}

	peerStorage, e := dsmr.NewChunkStorage[dsmrtest.Tx](dsmr.NewChunkVerifier[dsmrtest.Tx](cs, ruleFactory{}), memdb.New(), ruleFactory{})
	if e != nil {
		return c, e
	}
	var peerSaved []ids.ID
	for i, b := range w.valid {
		if e := peerStorage.AddLocalChunkWithCert(b.chunk, certOf(i)); e != nil {
			return c, e
		}
		if i%2 == 1 {
			peerSaved = append(peerSaved, b.id)
		}
	}
	if e := peerStorage.SetMin(0, peerSaved); e != nil {
		return c, e
	}
	ps := &peers{w: w, script: in.Script, real: dsmr.VerifNewGetChunkHandler[dsmrtest.Tx](peerStorage)}
	peerMap := map[ids.NodeID]p2p.Handler{w.nodeIDs[1]: ps}
	client := p2ptest.NewClientWithPeers(t, ctx, w.nodeIDs[0], ps, peerMap)
	node, e := dsmr.New[dsmrtest.Tx](
		logging.NoLog{}, w.nodeIDs[0], cs, w.sks[0].PublicKey(), warp.NewSigner(w.sks[0], networkID, chainID),
		storage, p2p.NoOpHandler{}, p2p.NoOpHandler{}, p2p.NoOpHandler{},
		client, nil, nil,
		dsmr.Block{}, dsmr.VerifNoopValidityWindow(), ruleFactory{},
	)
	if e != nil {
		return c, e
	}
	cs.valErr = in.ValErr

	blk := dsmr.Block{BlockHeader: dsmr.BlockHeader{Height: 1, Timestamp: 1}}
	for _, ci := range in.Certs {
		blk.ChunkCerts = append(blk.ChunkCerts, certOf(ci))
	}
	type result struct {
		eb  dsmr.ExecutedBlock[dsmrtest.Tx]
		err error
	}
	done := make(chan result, 1)
	go func() {
		defer func() {
			if r := recover(); r != nil {
				done <- result{err: fmt.Errorf("panic in Accept: %v", r)}
			}
		}()
		eb, err := node.Accept(ctx, blk)
		done <- result{eb, err}
	}()
	var res result
	select {
	case res = <-done:
	case <-time.After(30 * time.Second):
		return c, fmt.Errorf("Accept did not return within 30s (peers served %d requests)", len(ps.reqs))
	}
	if res.err != nil && len(res.err.Error()) > 15 && res.err.Error()[:15] == "panic in Accept" {
		return c, res.err
	}

	ok := res.err == nil
	var chunks []int
	if ok {
		for _, ch := range res.eb.Chunks {
			packer := wrappers.Packer{Bytes: make([]byte, 0, 1024), MaxSize: consts.NetworkSizeLimit}
			cc := ch
			ix := 999
			if err := codec.LinearCodec.MarshalInto(&cc, &packer); err == nil {
				if k, found := w.byID[utils.ToID(packer.Bytes)]; found {
					ix = k
				}
			}
			chunks = append(chunks, ix)
		}
	}
	ps.mu.Lock()
	reqs := append([]int{}, ps.reqs...)
	serveFault := ps.serveFault
	ps.mu.Unlock()
	if serveFault != "" {
		return c, errors.New(serveFault)
	}

	// ---- emit
	statTerms := make([]string, len(in.Stats))
	for i, s := range in.Stats {
		statTerms[i] = statCoq[s]
	}
	scriptTerms := make([]string, len(in.Script))
	hasWrong := false
	for i, r := range in.Script {
		switch r.K {
		case "valid":
			scriptTerms[i] = "RValid"
		case "wrong":
			scriptTerms[i] = emit.App("RWrong", emit.N(uint64(r.W)))
			hasWrong = true
		default:
			scriptTerms[i] = emit.App("RFail", emit.N(uint64(r.Sub)))
		}
	}
	coq := emit.App("mk", emit.List("lstat", statTerms), emit.Bool(in.ValErr), nList(in.Certs), emit.List("resp", scriptTerms),
		emit.Bool(ok), nList(chunks), nList(reqs))

	sig := "accept-observables-differ"
	if ok && !equalInts(chunks, in.Certs) {
		sig = "accept-returned-chunks-other-than-the-referenced-ones"
	}
	if !ok {
		clean := !in.ValErr && !hasWrong
		seen := map[int]bool{}
		for _, ci := range in.Certs {
			if seen[ci] || in.Stats[ci] == stAccepted || in.Stats[ci] == stStoreErr {
				clean = false
			}
			seen[ci] = true
		}
		if clean {
			sig = "accept-failed-although-every-missing-chunk-was-served-validly"
		}
	}
	return emit.Case{Coq: coq, JSON: mirror{in, ok, chunks, reqs}, Nontrivial: len(reqs) > 0, Kind: kind, Sig: sig}, nil
}

func equalInts(a, b []int) bool {
	if len(a) != len(b) {
		return false
	}
	for i := range a {
		if a[i] != b[i] {
			return false
		}
	}
	return true
}

func nList(ix []int) string {
	items := make([]string, len(ix))
	for i, v := range ix {
		items[i] = emit.N(uint64(v))
	}
	return emit.List("N", items)
}

// ---- generators -------------------------------------------------------------------------------

func gen(r *rand.Rand) (input, string) {
	n := 4 + r.Intn(2)
	in := input{Stats: make([]int, n)}
	mode := r.Intn(100)
	// mode < 60: only statuses from which Accept can succeed; otherwise anything
	for i := range in.Stats {
		x := r.Intn(100)
		switch {
		case x < 50:
			in.Stats[i] = stMissing
		case x < 75:
			in.Stats[i] = stPendCert
		case x < 87:
			in.Stats[i] = stPendNoCert
		case mode >= 60 && x < 95:
			in.Stats[i] = stAccepted
		case mode >= 60:
			in.Stats[i] = stStoreErr
		default:
			in.Stats[i] = stMissing
		}
	}
	perm := r.Perm(n)
	nc := 1 + r.Intn(n)
	if nc > 4 {
		nc = 4
	}
	in.Certs = append(in.Certs, perm[:nc]...)
	kind := "plain"
	if mode >= 60 && r.Intn(5) == 0 {
		// duplicate certificate
		in.Certs = append(in.Certs, in.Certs[r.Intn(len(in.Certs))])
		r.Shuffle(len(in.Certs), func(i, j int) { in.Certs[i], in.Certs[j] = in.Certs[j], in.Certs[i] })
		kind = "dup-cert"
	}
	if mode >= 92 {
		in.ValErr = true
		kind = "validator-set-error"
	}
	// script: runs of failures ended by a valid answer, sometimes a wrong chunk
	extras := []int{poolSize - 2, poolSize - 1}
	wrongAllowed := mode >= 75 && mode < 92
	ls := r.Intn(9)
	for i := 0; i < ls; i++ {
		x := r.Intn(100)
		switch {
		case x < 55:
			in.Script = append(in.Script, respSpec{K: "fail", Sub: r.Intn(6)})
		case wrongAllowed && x < 70 && len(extras) > 0:
			// a valid chunk nobody asked for; each extra chunk at most once (serving a chunk that is pending
			// without certificate a second time dereferences its nil certificate: documented precondition)
			in.Script = append(in.Script, respSpec{K: "wrong", W: extras[0]})
			extras = extras[1:]
			kind = "wrong-chunk"
		default:
			in.Script = append(in.Script, respSpec{K: "valid"})
		}
	}
	for _, ci := range in.Certs {
		if kind == "plain" {
			switch in.Stats[ci] {
			case stStoreErr:
				kind = "storage-error"
			case stAccepted:
				kind = "already-accepted"
			}
		}
	}
	if kind == "plain" {
		missing := false
		for _, ci := range in.Certs {
			if in.Stats[ci] == stMissing {
				missing = true
			}
		}
		switch {
		case !missing:
			kind = "all-local"
		case ls > 0:
			kind = "fetch-with-faults"
		default:
			kind = "fetch"
		}
	}
	if r.Intn(3) == 0 {
		in.Tight = true
		kind += "/tight-budget"
	}
	return in, kind
}

func put(t *testing.T, w *emit.Writer, in input, kind string) {
	c, err := run(t, in, kind)
	if err != nil {
		c = emit.Case{Coq: "(mk (@nil lstat) false (@nil N) (@nil resp) true [1%N] (@nil N))", JSON: in, Nontrivial: true, Kind: kind + ":driver-error", Sig: "dsmraccept-driver-error: " + err.Error()}
	}
	if err := w.Put(c); err != nil {
		t.Fatal(err)
	}
}

func TestDriver(t *testing.T) {
	env := emit.GetEnv()
	if env.Out == "" {
		t.Skip("VERIF_OUT not set")
	}
	w, err := emit.NewWriter(env.Out)
	if err != nil {
		t.Fatal(err)
	}
	defer w.Close()
	if env.Mode == "replay" {
		raws, err := emit.ReadReplay(env.Replay)
		if err != nil {
			t.Fatal(err)
		}
		for _, raw := range raws {
			var in input
			if err := json.Unmarshal(raw, &in); err != nil {
				t.Fatal(err)
			}
			put(t, w, in, "replay")
		}
		return
	}
	r := env.Rand()
	if env.Tier == "thorough" {
		// exhaustive: 2 chunks, every status pair from {pending+cert, pending, missing}, every certificate list of
		// length <= 2 without repetition, every script of length <= 3 over {AppError, bad signature, valid}
		sts := []int{stPendCert, stPendNoCert, stMissing}
		certLists := [][]int{{0}, {1}, {0, 1}, {1, 0}}
		alphabet := []respSpec{{K: "fail", Sub: 0}, {K: "fail", Sub: 3}, {K: "valid"}}
		var scripts [][]respSpec
		var rec func(s []respSpec, d int)
		rec = func(s []respSpec, d int) {
			scripts = append(scripts, append([]respSpec{}, s...))
			if d == 3 {
				return
			}
			for _, a := range alphabet {
				rec(append(s, a), d+1)
			}
		}
		rec(nil, 0)
		for _, s0 := range sts {
			for _, s1 := range sts {
				for _, cl := range certLists {
					for _, sc := range scripts {
						put(t, w, input{Stats: []int{s0, s1}, Certs: cl, Script: sc}, "exhaustive")
					}
				}
			}
		}
	}
	for i := 0; i < env.N; i++ {
		in, kind := gen(r)
		put(t, w, in, kind)
	}
}
