// Driver for C28 (codec address text encoding + hex helpers) and C34 (utils.FormatBalance / ParseBalance).
package textcodec

import (
	"encoding/hex"
	"encoding/json"
	"errors"
	"fmt"
	"math"
	"math/rand"
	"strconv"
	"strings"
	"testing"

	"github.com/ava-labs/avalanchego/utils/hashing"

	"github.com/ava-labs/hypersdk/codec"
	"github.com/ava-labs/hypersdk/utils"
	"github.com/ava-labs/hypersdk/verifharness/emit"
)

// ------------------------------------------------------------------------------------------ shared

// input mirror: text/bytes inputs are carried as "text" when printable ASCII, else as "hex".
type input struct {
	Kind int    `json:"kind"`
	Text string `json:"text,omitempty"`
	Hex  string `json:"hex,omitempty"`
	Exp  *int   `json:"exp,omitempty"` // C28 kind 3: expected size (nil = -1)
	Bal  uint64 `json:"bal,omitempty"` // C34 kind 0
	Gen  string `json:"gen,omitempty"`
}

func (in *input) setBytes(b []byte, asText bool) {
	printable := asText
	for _, c := range b {
		if c < 0x20 || c > 0x7e {
			printable = false
		}
	}
	if printable && len(b) > 0 {
		in.Text, in.Hex = string(b), ""
	} else {
		in.Text, in.Hex = "", fmt.Sprintf("%x", b)
		if len(b) == 0 {
			in.Hex = ""
		}
	}
}

func (in input) bytes() []byte {
	if in.Text != "" {
		return []byte(in.Text)
	}
	b, _ := hex.DecodeString(in.Hex)
	return b
}

func optBytes(b []byte, ok bool) string {
	if !ok {
		return "(@None (list N))"
	}
	return emit.Some(emit.Bytes(b))
}

// ------------------------------------------------------------------------------------------ C28

type tabEntry struct{ p, c []byte }

func coqTab(tab []tabEntry) string {
	items := make([]string, len(tab))
	for i, e := range tab {
		items[i] = emit.Pair(emit.Bytes(e.p), emit.Bytes(e.c))
	}
	return emit.List("list N * list N", items)
}

func addCk(tab []tabEntry, p []byte) []tabEntry {
	for _, e := range tab {
		if string(e.p) == string(p) {
			return tab
		}
	}
	return append(tab, tabEntry{append([]byte{}, p...), hashing.Checksum(p, 4)})
}

// the payload whose checksum the specification needs for a text input: strip one "0x", hex-decode,
// drop the last four bytes (computed independently of codec/address.go).
func specPayload(s []byte) ([]byte, bool) {
	t := string(s)
	if len(t) >= 2 && t[0] == '0' && t[1] == 'x' {
		t = t[2:]
	}
	d, err := hex.DecodeString(t)
	if err != nil || len(d) < 4 {
		return nil, false
	}
	return d[:len(d)-4], true
}

type mirror28 struct {
	input
	Ok  bool   `json:"ok"`
	Out string `json:"out_hex"`
}

func run28(in input) emit.Case {
	b := in.bytes()
	var tab []tabEntry
	var ok bool
	var out []byte
	var back []byte
	backOk := false
	exp := "(@None N)"
	nontrivial := false
	sig := "address-text"
	switch in.Kind {
	case 0, 4:
		if p, has := specPayload(b); has {
			tab = addCk(tab, p)
		}
		var a codec.Address
		var err error
		if in.Kind == 0 {
			a, err = codec.StringToAddress(string(b))
		} else {
			err = a.UnmarshalText(b)
		}
		ok = err == nil
		if ok {
			out = a[:]
			tab = addCk(tab, out)
			sig = "address-parse-accepted"
		} else {
			sig = "address-parse-rejected"
		}
		p, has := specPayload(b)
		nontrivial = has && len(p) > 0
	case 1, 5:
		var a codec.Address
		if len(b) != codec.AddressLen {
			// not an address: normalise (replay of a malformed corpus entry)
			nb := make([]byte, codec.AddressLen)
			copy(nb, b)
			b = nb
			in.setBytes(b, false)
		}
		copy(a[:], b)
		tab = addCk(tab, b)
		if in.Kind == 1 {
			out = []byte(a.String())
		} else {
			out, _ = a.MarshalText()
		}
		ok = true
		// the caller keeps the text while other addresses are formatted (and parsed) by the same goroutine: what it
		// reads afterwards is what is compared with the model and parsed back
		{
			var o codec.Address
			for i := range o {
				o[i] = a[i] ^ 0x5a
			}
			for i := 0; i < 3; i++ {
				o[len(o)-1] ^= byte(i + 1)
				t1, _ := o.MarshalText()
				_ = o.String()
				var o2 codec.Address
				_ = o2.UnmarshalText(t1)
				_, _ = codec.StringToAddress(string(t1))
			}
		}
		a2, err := codec.StringToAddress(string(out))
		if err == nil {
			back, backOk = a2[:], true
		}
		nontrivial = true
		sig = "address-format-roundtrip"
	case 2:
		out = []byte(codec.ToHex(b))
		ok = true
		d, err := codec.LoadHex(string(out), -1)
		if err == nil {
			back, backOk = d, true
			if back == nil {
				back = []byte{}
			}
		}
		nontrivial = len(b) > 0
		sig = "hex-roundtrip"
	case 3:
		e := -1
		if in.Exp != nil {
			e = *in.Exp
			if e >= 0 {
				exp = emit.Some(emit.N(uint64(e)))
			}
		}
		d, err := codec.LoadHex(string(b), e)
		ok = err == nil
		if ok {
			out = d
		}
		nontrivial = len(b) > 2
		sig = "hex-load"
	}
	coq := emit.App("mk", emit.N(uint64(in.Kind)), emit.Bytes(b), exp, coqTab(tab), emit.Bool(ok), emit.Bytes(out), optBytes(back, backOk))
	return emit.Case{Coq: coq, JSON: mirror28{in, ok, fmt.Sprintf("%x", out)}, Nontrivial: nontrivial, Kind: fmt.Sprintf("k%d:%s", in.Kind, in.Gen), Sig: sig}
}

func randAddr(r *rand.Rand) []byte {
	a := make([]byte, codec.AddressLen)
	switch r.Intn(6) {
	case 0: // all zero
	case 1:
		for i := range a {
			a[i] = 0xff
		}
	case 2: // few distinct nibbles, so that a..f and digits both occur
		alpha := []byte{0x0a, 0xa0, 0x9f, 0xf9, 0x00, 0xff, 0x10, 0xab}
		for i := range a {
			a[i] = alpha[r.Intn(len(alpha))]
		}
	default:
		r.Read(a)
	}
	return a
}

func withCk(p []byte) string {
	return hex.EncodeToString(append(append([]byte{}, p...), hashing.Checksum(p, 4)...))
}

func mixCase(r *rand.Rand, s string, mode int) string {
	b := []byte(s)
	for i, c := range b {
		if c >= 'a' && c <= 'f' {
			switch mode {
			case 0:
				b[i] = c - 32
			case 1:
				if r.Intn(2) == 0 {
					b[i] = c - 32
				}
			}
		}
	}
	return string(b)
}

var badChars = []byte{'g', 'G', 'x', 'X', ' ', '/', ':', '@', '`', '_', '-', '+', '\n', 0x00, 0x80, 0xff, 'o', 'O', 'z'}

func gen28(r *rand.Rand) input {
	in := input{}
	k := r.Intn(100)
	switch {
	case k < 62: // parse
		in.Kind = 0
		if r.Intn(3) == 0 {
			in.Kind = 4
		}
		a := randAddr(r)
		body := withCk(a)
		prefix := "0x"
		cls := r.Intn(16)
		switch cls {
		case 0:
			in.Gen = "valid"
		case 1:
			in.Gen = "valid-noprefix"
			prefix = ""
		case 2:
			in.Gen = "valid-upper"
			body = mixCase(r, body, 0)
			if r.Intn(2) == 0 {
				prefix = ""
			}
		case 3:
			in.Gen = "valid-mixed"
			body = mixCase(r, body, 1)
			if r.Intn(2) == 0 {
				prefix = ""
			}
		case 4:
			in.Gen = "prefix-variant"
			prefix = []string{"0X", "0x0x", "x", "00x", "0x ", " 0x", "0x0X"}[r.Intn(7)]
		case 5, 6:
			in.Gen = "wrong-length-valid-checksum"
			lens := []int{0, 1, 2, 3, 4, 29, 31, 32, 34, 35, 37, 40, 64, 66}
			p := make([]byte, lens[r.Intn(len(lens))])
			r.Read(p)
			if r.Intn(2) == 0 && len(p) <= 33 {
				copy(p, a) // prefix of a real address
			}
			if r.Intn(3) == 0 && len(p) > 33 {
				copy(p, a) // extension of a real address
			}
			body = withCk(p)
			if r.Intn(3) == 0 {
				body = mixCase(r, body, 1)
			}
			if r.Intn(4) == 0 {
				prefix = ""
			}
		case 7, 8:
			in.Gen = "bad-checksum"
			b := []byte(body)
			// change one nibble, anywhere or inside the checksum
			pos := r.Intn(len(b))
			if r.Intn(2) == 0 {
				pos = len(b) - 1 - r.Intn(8)
			}
			old := b[pos]
			for b[pos] == old {
				b[pos] = "0123456789abcdef"[r.Intn(16)]
			}
			body = string(b)
			if r.Intn(4) == 0 {
				// checksum of a different payload / shifted
				body = hex.EncodeToString(a) + hex.EncodeToString(hashing.Checksum(a[:32], 4))
			}
		case 9:
			in.Gen = "odd-length"
			switch r.Intn(3) {
			case 0:
				body = body[:len(body)-1]
			case 1:
				body += "0"
			default:
				body = body[1:]
			}
		case 10, 11:
			in.Gen = "non-hex"
			b := []byte(body)
			n := 1 + r.Intn(2)
			for i := 0; i < n; i++ {
				pos := r.Intn(len(b))
				if r.Intn(3) == 0 {
					pos = len(b) - 1 - r.Intn(2) // last pair / odd tail
				}
				b[pos] = badChars[r.Intn(len(badChars))]
			}
			body = string(b)
			if r.Intn(5) == 0 {
				body = body[:len(body)-1] // odd length and invalid char
			}
		case 12:
			in.Gen = "short"
			shorts := []string{"", "0", "0x", "0x0", "00", "0x00", "000000", "0x000000", "00000000", "0x00000000", withCk(nil), "0x" + withCk(nil), "x", "0xx", "0x0x"}
			body = shorts[r.Intn(len(shorts))]
			prefix = ""
		case 13:
			in.Gen = "truncated-extended"
			switch r.Intn(4) {
			case 0:
				body = body[:66] // address without checksum
			case 1:
				body = body[:len(body)-2]
			case 2:
				body += "00"
			default:
				body = "00" + body
			}
		case 14:
			in.Gen = "padded"
			switch r.Intn(3) {
			case 0:
				body += " "
			case 1:
				body += "\n"
			default:
				prefix = " " + prefix
			}
		default:
			in.Gen = "zero-padded-payload"
			// what the pre-fix code produced: short payload, zero padding would make it an address
			n := 1 + r.Intn(32)
			body = withCk(a[:n])
		}
		in.setBytes([]byte(prefix+body), true)
	case k < 75:
		in.Kind = 1
		if r.Intn(3) == 0 {
			in.Kind = 5
		}
		in.Gen = "format"
		in.setBytes(randAddr(r), false)
	case k < 83:
		in.Kind = 2
		in.Gen = "tohex"
		b := make([]byte, r.Intn(41))
		r.Read(b)
		if r.Intn(4) == 0 {
			for i := range b {
				b[i] = []byte{0, 0x0f, 0xf0, 0xff, 0x9a, 0xa9}[r.Intn(6)]
			}
		}
		in.setBytes(b, false)
	default:
		in.Kind = 3
		b := make([]byte, r.Intn(8))
		r.Read(b)
		s := hex.EncodeToString(b)
		in.Gen = "loadhex"
		switch r.Intn(8) {
		case 0:
			s = "0x" + s
		case 1:
			s = mixCase(r, s, 1)
		case 2:
			s = "0X" + s
			in.Gen = "loadhex-badprefix"
		case 3:
			if len(s) > 0 {
				bs := []byte(s)
				bs[r.Intn(len(bs))] = badChars[r.Intn(len(badChars))]
				s = string(bs)
				in.Gen = "loadhex-nonhex"
			}
		case 4:
			s += "a"
			in.Gen = "loadhex-odd"
		case 5:
			s = "0x" + mixCase(r, s, 0)
		}
		switch r.Intn(5) {
		case 0:
			e := len(b)
			in.Exp = &e
		case 1:
			e := len(b) + 1
			in.Exp = &e
		case 2:
			e := len(b) - 1
			if e >= 0 {
				in.Exp = &e
			}
		case 3:
			e := 0
			in.Exp = &e
		}
		in.setBytes([]byte(s), true)
	}
	return in
}

// ------------------------------------------------------------------------------------------ C34

type mirror34 struct {
	input
	Out   string `json:"out,omitempty"`
	Code  int    `json:"code"`
	Val   uint64 `json:"val"`
	BCode int    `json:"bcode"`
	BVal  uint64 `json:"bval"`
}

func errCode(err error) int {
	switch {
	case err == nil:
		return 0
	case errors.Is(err, strconv.ErrSyntax):
		return 1
	case errors.Is(err, strconv.ErrRange):
		return 2
	}
	return 9
}

func run34(in input) emit.Case {
	m := mirror34{input: in}
	var text []byte
	nontrivial := true
	sig := "balance"
	if in.Kind == 0 {
		s := utils.FormatBalance(in.Bal)
		text = []byte(s)
		m.Out = s
		v, err := utils.ParseBalance(s)
		m.BCode, m.BVal = errCode(err), v
		if err != nil {
			m.BVal = 0
		}
		sig = "balance-format-roundtrip"
		if m.BCode == 0 && m.BVal != in.Bal {
			sig = "balance-format-roundtrip-wrong-value"
		}
	} else {
		text = in.bytes()
		v, err := utils.ParseBalance(string(text))
		m.Code, m.Val = errCode(err), v
		if err != nil {
			m.Val = 0
		}
		nontrivial = len(text) > 0
		if m.Code == 0 {
			sig = "balance-parse-accepted"
		} else {
			sig = "balance-parse-rejected"
		}
	}
	coq := emit.App("mk", emit.N(uint64(in.Kind)), emit.N(in.Bal), emit.Bytes(text), emit.N(uint64(m.Code)), emit.N(m.Val), emit.N(uint64(m.BCode)), emit.N(m.BVal))
	return emit.Case{Coq: coq, JSON: m, Nontrivial: nontrivial, Kind: fmt.Sprintf("k%d:%s", in.Kind, in.Gen), Sig: sig}
}

var balBoundaries = []uint64{
	0, 1, 9, 10, 11, 99, 100, 999_999_999, 1_000_000_000, 1_000_000_001, 8_200_000_000, 8_199_999_999,
	1<<53 - 1, 1 << 53, 1<<53 + 1, 1<<63 - 1, 1 << 63, 1<<63 + 1, math.MaxUint64, math.MaxUint64 - 1,
	18_446_744_073_000_000_000, 18_446_744_073_709_551_614, 18_446_744_072_999_999_999,
	123_456_789, 100_000_000, 10_000_000, 1_000_000, 900_000_000, 1_999_999_999, 1<<32 - 1, 1 << 32,
}

func randBal(r *rand.Rand) uint64 {
	switch r.Intn(6) {
	case 0:
		return balBoundaries[r.Intn(len(balBoundaries))]
	case 1: // boundary +- small
		b := balBoundaries[r.Intn(len(balBoundaries))]
		d := uint64(r.Intn(3))
		if r.Intn(2) == 0 {
			return b + d
		}
		return b - d
	case 2: // k * 10^j +- 1
		v := uint64(1 + r.Intn(9))
		for j := r.Intn(19); j > 0; j-- {
			v *= 10
		}
		return v + uint64(r.Intn(3)) - 1
	case 3:
		return r.Uint64() >> uint(r.Intn(64))
	case 4: // near the top
		return math.MaxUint64 - uint64(r.Intn(2_000_000_000))
	default:
		return r.Uint64()
	}
}

func digitsStr(r *rand.Rand, n int) string {
	b := make([]byte, n)
	for i := range b {
		switch r.Intn(4) {
		case 0:
			b[i] = '0'
		case 1:
			b[i] = '9'
		default:
			b[i] = byte('0' + r.Intn(10))
		}
	}
	return string(b)
}

func gen34(r *rand.Rand) input {
	in := input{}
	if r.Intn(10) < 3 {
		in.Kind, in.Gen, in.Bal = 0, "format", randBal(r)
		return in
	}
	in.Kind = 1
	var s string
	switch r.Intn(14) {
	case 0, 1: // i.f with 0..10 fractional digits
		in.Gen = "int.frac"
		whole := strconv.FormatUint(randBal(r)/1_000_000_000, 10)
		if r.Intn(4) == 0 {
			whole = strconv.Itoa(r.Intn(20))
		}
		nf := r.Intn(11)
		s = whole + "." + digitsStr(r, nf)
		if nf > 9 {
			in.Gen = "too-many-frac"
		}
	case 2: // integers only
		in.Gen = "int"
		s = strconv.FormatUint(randBal(r)/1_000_000_000, 10)
	case 3: // overflow boundary: whole part 18446744073, fractional part around 709551615
		in.Gen = "overflow-boundary"
		fr := []string{"709551615", "709551616", "709551614", "70955161", "7095516150", "709551617", "71", "7", "8", "70955162", "709551615.0", "", "0", "999999999"}
		wh := []string{"18446744073", "18446744074", "18446744072", "018446744073", "184467440730"}
		s = wh[r.Intn(len(wh))] + "." + fr[r.Intn(len(fr))]
	case 4: // whole part near 2^64 (ParseUint overflow)
		in.Gen = "whole-overflow"
		wh := []string{"18446744073709551615", "18446744073709551616", "18446744073709551614", "1844674407370955161", "1844674407370955162", "99999999999999999999", "184467440737095516150", "00000000000000000000018446744073", "18446744073709551616x", "x18446744073709551616"}
		s = wh[r.Intn(len(wh))]
		if r.Intn(2) == 0 {
			s += "." + digitsStr(r, r.Intn(11))
		}
	case 5: // leading zeros
		in.Gen = "leading-zeros"
		s = strings.Repeat("0", 1+r.Intn(25)) + strconv.Itoa(r.Intn(100)) + "." + strings.Repeat("0", r.Intn(9)) + digitsStr(r, r.Intn(2))
	case 6: // empty parts
		in.Gen = "empty-parts"
		e := []string{"", ".", "5.", ".5", "..", "5..", ".5.", "0.", ".0", ".000000000", ".0000000000", "1..2", "1.2.3", ".999999999", "18446744073.", ". "}
		s = e[r.Intn(len(e))]
	case 7: // signs and spaces
		in.Gen = "signs"
		e := []string{"+1", "-1", "+1.5", "-0", "1.+5", "1.-5", " 1", "1 ", "1. 5", "1 .5", "+", "-", "1e9", "1E2", "0x10", "1_000", "1_0.5", "1.5_0", "١", "1,5", "1.5\n", "\t1"}
		s = e[r.Intn(len(e))]
	case 8: // non digit somewhere in a valid amount
		in.Gen = "non-digit"
		b := []byte(strconv.Itoa(r.Intn(1000)) + "." + digitsStr(r, 1+r.Intn(9)))
		bad := []byte{'/', ':', 'a', ' ', '.', '-', '+', 0x00, 0xff, 'e'}
		b[r.Intn(len(b))] = bad[r.Intn(len(bad))]
		s = string(b)
	case 9: // classic float trouble
		in.Gen = "float-trouble"
		e := []string{"8.2", "0.1", "0.3", "1.1", "2.675", "9007199.254740993", "0.000000001", "0.999999999", "4.35", "1.005", "18446744073.709551615", "0.7", "16.1", "1024.000000001", "9007199254.740993"}
		s = e[r.Intn(len(e))]
	case 10: // re-parse of a formatted balance with trailing zeros trimmed / digits appended
		in.Gen = "format-variant"
		s = utilsFormat(randBal(r))
		switch r.Intn(3) {
		case 0:
			s = strings.TrimRight(s, "0")
		case 1:
			s += "0"
		default:
			s = "0" + s
		}
	case 11: // exactly 9 and 10 fractional digits with large whole part
		in.Gen = "frac-9-10"
		s = strconv.FormatUint(randBal(r)/1_000_000_000, 10) + "." + digitsStr(r, 9+r.Intn(2))
	case 12: // overflow by one in the last fractional digits for random digit counts
		in.Gen = "overflow-by-one"
		nf := r.Intn(10)
		full := "709551615"
		fr := full[:nf]
		if nf > 0 && r.Intn(2) == 0 {
			// bump the last kept digit
			b := []byte(fr)
			if b[nf-1] < '9' {
				b[nf-1]++
			}
			fr = string(b)
		}
		s = "18446744073." + fr
	default:
		in.Gen = "random-chars"
		alpha := "0123456789..+- ex"
		b := make([]byte, r.Intn(8))
		for i := range b {
			b[i] = alpha[r.Intn(len(alpha))]
		}
		s = string(b)
	}
	in.setBytes([]byte(s), true)
	return in
}

// decimal rendering used only to build inputs (independent of utils.FormatBalance)
func utilsFormat(v uint64) string {
	return fmt.Sprintf("%d.%09d", v/1_000_000_000, v%1_000_000_000)
}

// ------------------------------------------------------------------------------------------ main

func TestDriver(t *testing.T) {
	env := emit.GetEnv()
	if env.Out == "" {
		t.Skip("VERIF_OUT not set")
	}
	w, err := emit.NewWriter(env.Out)
	if err != nil {
		t.Fatal(err)
	}
	defer w.Close()
	runOne := run28
	genOne := gen28
	if env.Prop == "C34" {
		runOne, genOne = run34, gen34
	}
	if env.Mode == "replay" {
		raws, err := emit.ReadReplay(env.Replay)
		if err != nil {
			t.Fatal(err)
		}
		for _, raw := range raws {
			var in input
			if err := json.Unmarshal(raw, &in); err != nil {
				t.Fatal(err)
			}
			_ = w.Put(runOne(in))
		}
		return
	}
	r := env.Rand()
	if env.Prop == "C34" {
		// fixed boundary set on every run
		for _, b := range balBoundaries {
			_ = w.Put(run34(input{Kind: 0, Bal: b, Gen: "format-boundary"}))
			in := input{Kind: 1, Gen: "parse-boundary"}
			in.setBytes([]byte(utilsFormat(b)), true)
			_ = w.Put(run34(in))
		}
		if env.Tier == "thorough" {
			// every fractional string of <= 3 digits after a few whole parts, and every power of ten +-1
			for _, wh := range []string{"", "0", "7", "18446744073"} {
				for n := 0; n <= 3; n++ {
					lim := 1
					for i := 0; i < n; i++ {
						lim *= 10
					}
					for v := 0; v < lim; v++ {
						in := input{Kind: 1, Gen: "exhaustive-frac"}
						f := ""
						if n > 0 {
							f = fmt.Sprintf("%0*d", n, v)
						}
						in.setBytes([]byte(wh+"."+f), true)
						_ = w.Put(run34(in))
					}
				}
			}
		}
	}
	for i := 0; i < env.N; i++ {
		_ = w.Put(runOne(genOne(r)))
	}
}
