// Driver for the fetcher part of C24: runs the real internal/fetcher (New / Fetch / Get / Stop / Wait)
// over a recording parent view and reports, per scenario, every key requested from the parent (in the
// order of the GetValue calls), the result of every Fetch, Get and Wait call.
//
// A scenario is a list of transactions (distinct ids, overlapping key lists, duplicate keys inside a
// list allowed), a parent state (present keys, some with an empty value which the view returns as a nil
// slice, and absent keys), an optional failing key (an injected read error, or a value that
// keys.NumChunks rejects), the fetcher's size parameters (channel capacity, workers), and a script:
// Fetch calls issued from the main goroutine or from their own goroutines, 0..3 concurrent Get calls
// per transaction started when its Fetch returned, Get calls for unknown ids, synchronous Get calls,
// gates that hold the parent read of chosen keys until the script releases them (so that later Fetch
// calls find those keys pending), an optional Stop, and Wait at the end.  The schedule is not
// controlled; Check/C24F_check.v only contains conditions that hold for every run of the unchanged code.
package fetcher

import (
	"context"
	"encoding/json"
	"errors"
	"fmt"
	"math/rand"
	"runtime"
	"sort"
	"sync"
	"testing"
	"time"

	"github.com/ava-labs/avalanchego/database"
	"github.com/ava-labs/avalanchego/ids"

	"github.com/ava-labs/hypersdk/internal/fetcher"
	"github.com/ava-labs/hypersdk/verifharness/emit"
)

type txIn struct {
	ID    int   `json:"id"`    // transaction id (distinct)
	Keys  []int `json:"keys"`  // key numbers, duplicates allowed
	Async bool  `json:"async"` // Fetch is called from its own goroutine
	Gets  int   `json:"gets"`  // concurrent Get calls started when Fetch returned
}

type op struct {
	T string `json:"t"` // fetch | release | get | stop | yield | sleep | getunknown
	I int    `json:"i"` // fetch/get: index into Txs; sleep: microseconds; getunknown: id
}

type input struct {
	NKeys    int    `json:"nkeys"`
	Present  []int  `json:"present"`  // per key: 0 absent, 1 present with a value, 2 present with the empty value
	Fail     int    `json:"fail"`     // failing key, -1 none
	FailMode int    `json:"failmode"` // 0 injected error, 1 oversized value (keys.NumChunks fails)
	Txs      []txIn `json:"txs"`
	Ops      []op   `json:"ops"`
	Gated    []int  `json:"gated"` // keys whose read waits for the release op
	Delay    []int  `json:"delay"` // per key: Gosched calls (<100) or microseconds-100 of sleep inside GetValue
	Workers  int    `json:"workers"`
	Cap      int    `json:"cap"`
	Procs    int    `json:"procs"`
	Gen      string `json:"gen"`
}

type kv struct {
	K int    `json:"k"`
	V []byte `json:"v"`
}

type getOut struct {
	ID   int  `json:"id"`
	Code int  `json:"code"` // 0 map, 1 ErrStopped, 2 read error, 3 ErrMissingTx, 9 other
	Map  []kv `json:"map"`
}

type mirror struct {
	input
	FetchRet []int    `json:"fetch_ret"` // per tx (in Txs order): -1 never called, 0 nil, 1 ErrStopped, 2 read error
	Gets     []getOut `json:"gets"`
	Reads    []int    `json:"reads"`
	Stopped  bool     `json:"stopped"`
	Wait     int      `json:"wait"`
	Hang     bool     `json:"hang"`
	Note     string   `json:"note,omitempty"`
}

var errInjected = errors.New("injected read failure")

func keyName(k int) string { return string([]byte{'k', byte('0' + k)}) }

func keyNum(s string) int {
	if len(s) == 2 && s[0] == 'k' {
		return int(s[1] - '0')
	}
	return 99
}

func value(k int, p int) []byte {
	if p == 2 {
		return []byte{}
	}
	return []byte{byte(10 + k), byte(k)}
}

func txID(i int) ids.ID {
	var id ids.ID
	id[0] = byte(i)
	id[1] = byte(i >> 8)
	id[31] = 7
	return id
}

// recView is the recording parent view.
type recView struct {
	in    *input
	mu    sync.Mutex
	reads []int
	gate  chan struct{}
	gated map[int]bool
	huge  []byte
}

func (v *recView) GetValue(_ context.Context, key []byte) ([]byte, error) {
	k := keyNum(string(key))
	v.mu.Lock()
	v.reads = append(v.reads, k)
	v.mu.Unlock()
	if k >= 0 && k < v.in.NKeys {
		if v.gated[k] {
			select {
			case <-v.gate:
			case <-time.After(2 * time.Second): // never needed by a generated script
			}
		}
		if d := v.in.Delay[k]; d > 0 {
			if d < 100 {
				for i := 0; i < d; i++ {
					runtime.Gosched()
				}
			} else {
				time.Sleep(time.Duration(d-100) * time.Microsecond)
			}
		}
	}
	if k == v.in.Fail {
		if v.in.FailMode == 1 {
			return v.huge, nil
		}
		return nil, errInjected
	}
	if k < 0 || k >= v.in.NKeys || v.in.Present[k] == 0 {
		return nil, database.ErrNotFound
	}
	if v.in.Present[k] == 2 {
		return nil, nil // an existing key with the empty value
	}
	return value(k, 1), nil
}

func errCode(err error) int {
	switch {
	case err == nil:
		return 0
	case errors.Is(err, fetcher.ErrStopped):
		return 1
	case errors.Is(err, errInjected), errors.Is(err, fetcher.ErrInvalidKeyValue):
		return 2
	case errors.Is(err, fetcher.ErrMissingTx):
		return 3
	}
	return 9
}

const hangTimeout = 4 * time.Second

func runCase(in input) mirror {
	old := runtime.GOMAXPROCS(in.Procs)
	defer runtime.GOMAXPROCS(old)
	m := mirror{input: in, FetchRet: make([]int, len(in.Txs))}
	for i := range m.FetchRet {
		m.FetchRet[i] = -1
	}
	view := &recView{in: &in, gate: make(chan struct{}), gated: map[int]bool{}}
	for _, k := range in.Gated {
		view.gated[k] = true
	}
	if in.Fail >= 0 && in.FailMode == 1 {
		view.huge = make([]byte, 64*65535)
	}
	var (
		resMu sync.Mutex
		gets  = map[[2]int]getOut{} // (slot group, number) -> result; groups: tx index, or 1000+op index
		note  string
	)
	doGet := func(f *fetcher.Fetcher, group, num, id int) {
		st, err := f.Get(txID(id))
		g := getOut{ID: id, Code: errCode(err)}
		if err == nil {
			if st == nil {
				g.Code = 9
			}
			for ks, v := range st {
				g.Map = append(g.Map, kv{K: keyNum(ks), V: append([]byte{}, v...)})
			}
			sort.Slice(g.Map, func(a, b int) bool { return g.Map[a].K < g.Map[b].K })
		}
		resMu.Lock()
		gets[[2]int{group, num}] = g
		resMu.Unlock()
	}
	done := make(chan struct{})
	go func() {
		defer close(done)
		defer func() {
			if p := recover(); p != nil {
				resMu.Lock()
				note = fmt.Sprintf("panic: %v", p)
				resMu.Unlock()
			}
		}()
		ctx := context.Background()
		f := fetcher.New(view, in.Cap, in.Workers)
		var fetchWG, getWG sync.WaitGroup
		released := false
		release := func() {
			if !released {
				released = true
				close(view.gate)
			}
		}
		doFetch := func(i int) {
			tx := in.Txs[i]
			ks := make([]string, len(tx.Keys))
			for j, k := range tx.Keys {
				ks[j] = keyName(k)
			}
			err := f.Fetch(ctx, txID(tx.ID), ks)
			resMu.Lock()
			m.FetchRet[i] = errCode(err)
			resMu.Unlock()
			for n := 0; n < tx.Gets; n++ {
				getWG.Add(1)
				go func(n int) {
					defer getWG.Done()
					doGet(f, i, n, tx.ID)
				}(n)
			}
		}
		for oi, o := range in.Ops {
			switch o.T {
			case "fetch":
				if in.Txs[o.I].Async {
					fetchWG.Add(1)
					go func(i int) {
						defer fetchWG.Done()
						doFetch(i)
					}(o.I)
				} else {
					doFetch(o.I)
				}
			case "release":
				release()
			case "get":
				doGet(f, 1000+oi, 0, in.Txs[o.I].ID)
			case "getunknown":
				doGet(f, 1000+oi, 0, o.I)
			case "stop":
				m.Stopped = true
				f.Stop()
			case "yield":
				runtime.Gosched()
			case "sleep":
				time.Sleep(time.Duration(o.I) * time.Microsecond)
			}
		}
		release()
		fetchWG.Wait() // contract: no Fetch call in progress when Wait is called
		m.Wait = errCode(f.Wait())
		getWG.Wait()
	}()
	select {
	case <-done:
	case <-time.After(hangTimeout):
		m.Hang = true
	}
	resMu.Lock()
	m.Note = note
	if note != "" {
		m.Hang = true // a panic is reported like a hang: the property oracle rejects the case
	}
	keysOf := make([][2]int, 0, len(gets))
	for k := range gets {
		keysOf = append(keysOf, k)
	}
	sort.Slice(keysOf, func(a, b int) bool {
		if keysOf[a][0] != keysOf[b][0] {
			return keysOf[a][0] < keysOf[b][0]
		}
		return keysOf[a][1] < keysOf[b][1]
	})
	for _, k := range keysOf {
		m.Gets = append(m.Gets, gets[k])
	}
	m.FetchRet = append([]int{}, m.FetchRet...)
	resMu.Unlock()
	view.mu.Lock()
	m.Reads = append([]int{}, view.reads...)
	view.mu.Unlock()
	return m
}

// ---- Coq term ------------------------------------------------------------------------------------

func keyBytes(k int) []byte { return []byte(keyName(k)) }

func toCase(m mirror, kind string) emit.Case {
	var par []string
	for k := 0; k < m.NKeys; k++ {
		if m.Present[k] != 0 {
			par = append(par, emit.Pair(emit.Bytes(keyBytes(k)), emit.Bytes(value(k, m.Present[k]))))
		}
	}
	var fail *string
	if m.Fail >= 0 {
		s := emit.Bytes(keyBytes(m.Fail))
		fail = &s
	}
	var fs []string
	for i, tx := range m.Txs {
		if m.FetchRet[i] < 0 {
			continue
		}
		ks := make([][]byte, len(tx.Keys))
		for j, k := range tx.Keys {
			ks[j] = keyBytes(k)
		}
		fs = append(fs, emit.App("mkF", emit.N(uint64(tx.ID)), emit.BytesList(ks), emit.N(uint64(m.FetchRet[i]))))
	}
	var gs []string
	for _, g := range m.Gets {
		var kvs []string
		for _, e := range g.Map {
			kvs = append(kvs, emit.Pair(emit.Bytes(keyBytes(e.K)), emit.Bytes(e.V)))
		}
		gs = append(gs, emit.App("mkG", emit.N(uint64(g.ID)), emit.N(uint64(g.Code)), emit.List("list N * list N", kvs)))
	}
	rd := make([][]byte, len(m.Reads))
	for i, k := range m.Reads {
		rd[i] = keyBytes(k)
	}
	coq := emit.App("mk", emit.List("list N * list N", par), emit.Option("list N", fail), emit.Nat(m.Workers),
		emit.Nat(m.Cap), emit.Bool(m.Stopped), emit.List("fcall", fs), emit.List("gcall", gs),
		emit.BytesList(rd), emit.N(uint64(m.Wait)), emit.Bool(m.Hang))
	// non-trivial: two fetched transactions share a key
	seen := map[int]int{}
	nontrivial := false
	for _, tx := range m.Txs {
		mine := map[int]bool{}
		for _, k := range tx.Keys {
			mine[k] = true
		}
		for k := range mine {
			seen[k]++
			if seen[k] > 1 {
				nontrivial = true
			}
		}
	}
	return emit.Case{Coq: coq, JSON: m, Nontrivial: nontrivial, Kind: kind, Sig: signature(m)}
}

// signature names the failure class the driver itself can see (the oracle is Check/C24F_check.v).
func signature(m mirror) string {
	if m.Note != "" {
		return "fetcher-panic"
	}
	if m.Hang {
		return "fetcher-call-never-returns"
	}
	cnt := map[int]int{}
	for _, k := range m.Reads {
		cnt[k]++
		if cnt[k] > 1 {
			return "key-read-twice-from-parent"
		}
	}
	listed := map[int]bool{}
	byID := map[int][]int{}
	for _, tx := range m.Txs {
		byID[tx.ID] = tx.Keys
		for _, k := range tx.Keys {
			listed[k] = true
		}
	}
	for _, k := range m.Reads {
		if !listed[k] {
			return "undeclared-key-read-from-parent"
		}
	}
	for _, g := range m.Gets {
		if g.Code != 0 {
			continue
		}
		want := map[int]bool{}
		for _, k := range byID[g.ID] {
			if k == m.Fail {
				return "failing-read-treated-as-absence"
			}
			if m.Present[k] != 0 {
				want[k] = true
			}
		}
		if len(want) != len(g.Map) {
			return "get-returns-wrong-key-set"
		}
		for _, e := range g.Map {
			if !want[e.K] || string(e.V) != string(value(e.K, m.Present[e.K])) {
				return "get-returns-wrong-value"
			}
		}
	}
	return "fetcher-outcome-not-allowed"
}

// ---- generators ----------------------------------------------------------------------------------

func genInput(r *rand.Rand) input {
	in := input{Fail: -1}
	in.NKeys = 1 + r.Intn(6)
	in.Present = make([]int, in.NKeys)
	in.Delay = make([]int, in.NKeys)
	for k := range in.Present {
		in.Present[k] = []int{0, 1, 1, 2}[r.Intn(4)]
	}
	n := 1 + r.Intn(12)
	switch r.Intn(4) {
	case 0:
		n = 1 + r.Intn(3)
	case 1:
		n = 2 + r.Intn(4)
	}
	shape := r.Intn(5)
	kind := []string{"random", "all-keys", "hot-key", "pairs", "dup-keys"}[shape]
	total := 0
	for i := 0; i < n; i++ {
		tx := txIn{ID: i + 1, Gets: []int{0, 1, 1, 2, 3}[r.Intn(5)]}
		switch shape {
		case 0:
			for j, c := 0, r.Intn(in.NKeys+1); j < c; j++ {
				tx.Keys = append(tx.Keys, r.Intn(in.NKeys))
			}
		case 1:
			tx.Keys = r.Perm(in.NKeys)
		case 2:
			tx.Keys = []int{0}
			if r.Intn(2) == 0 {
				tx.Keys = append(tx.Keys, r.Intn(in.NKeys))
			}
		case 3:
			k := r.Intn(in.NKeys)
			tx.Keys = []int{k, (k + 1) % in.NKeys}
		default:
			k := r.Intn(in.NKeys)
			tx.Keys = []int{k, r.Intn(in.NKeys), k}
			if r.Intn(2) == 0 {
				tx.Keys = append(tx.Keys, k)
			}
		}
		total += len(tx.Keys)
		in.Txs = append(in.Txs, tx)
	}
	if r.Intn(5) == 0 { // ids are arbitrary distinct numbers, in arbitrary order
		perm := r.Perm(n)
		for i := range in.Txs {
			in.Txs[i].ID = 100 + 7*perm[i]
		}
	}
	// timing of the parent reads
	switch r.Intn(4) {
	case 0:
		for k := range in.Delay {
			in.Delay[k] = r.Intn(5)
		}
	case 1:
		for k := range in.Delay {
			in.Delay[k] = 100 + r.Intn(200)
		}
	case 2:
		in.Delay[r.Intn(in.NKeys)] = 100 + 200 + r.Intn(500)
	}
	in.Workers = 1 + r.Intn(16)
	switch r.Intn(4) {
	case 0:
		in.Workers = 1
	case 1:
		in.Workers = 2
	}
	in.Procs = []int{1, 2, 4, 8, 16}[r.Intn(5)]
	// script
	gated := r.Intn(3) == 0
	async := !gated && r.Intn(4) == 0
	if async {
		kind += "+async"
		for i := range in.Txs {
			in.Txs[i].Async = r.Intn(2) == 0
		}
	}
	in.Cap = []int{0, 1, 2, n, n}[r.Intn(5)]
	relAt := -1
	if gated {
		kind += "+gated"
		// reads of the gated keys are held until the release: later Fetch calls find them pending
		for k := 0; k < in.NKeys; k++ {
			if r.Intn(2) == 0 {
				in.Gated = append(in.Gated, k)
			}
		}
		if len(in.Gated) == 0 {
			in.Gated = []int{r.Intn(in.NKeys)}
		}
		in.Cap = total + 1 // a Fetch call of the script never waits for room in the channel
		relAt = 1 + r.Intn(n)
	}
	fault := r.Intn(10)
	stopAt := -1
	switch {
	case fault < 3:
		kind += "+fail"
		in.Fail = r.Intn(in.NKeys)
		if r.Intn(4) == 0 {
			in.FailMode = 1
			kind += "-oversize"
		}
	case fault < 5:
		kind += "+stop"
		stopAt = r.Intn(n + 1)
		if r.Intn(3) == 0 {
			in.Fail = r.Intn(in.NKeys)
			kind += "+fail"
		}
	}
	for i := 0; i < n; i++ {
		if i == relAt {
			in.Ops = append(in.Ops, op{T: "release"})
			relAt = -1
		}
		if i == stopAt {
			if r.Intn(2) == 0 {
				in.Ops = append(in.Ops, op{T: "sleep", I: r.Intn(300)})
			}
			in.Ops = append(in.Ops, op{T: "stop"})
		}
		in.Ops = append(in.Ops, op{T: "fetch", I: i})
		switch r.Intn(8) {
		case 0:
			in.Ops = append(in.Ops, op{T: "yield"})
		case 1:
			in.Ops = append(in.Ops, op{T: "sleep", I: r.Intn(200)})
		case 2:
			// a synchronous Get of an earlier transaction: its keys are cached when the next Fetch runs
			if relAt == -1 && !in.Txs[i].Async {
				j := r.Intn(i + 1)
				if !in.Txs[j].Async {
					in.Ops = append(in.Ops, op{T: "get", I: j})
				}
			}
		case 3:
			if r.Intn(3) == 0 {
				in.Ops = append(in.Ops, op{T: "getunknown", I: 5000 + i})
			}
		}
	}
	if stopAt == n {
		in.Ops = append(in.Ops, op{T: "stop"})
	}
	in.Gen = kind
	return in
}

// exhaustive small scenarios (thorough tier): every pair of key lists over 2 keys, each fault
func enumInputs() []input {
	var out []input
	lists := [][]int{{}, {0}, {1}, {0, 1}, {1, 0}, {0, 0}, {0, 1, 0}}
	for _, a := range lists {
		for _, b := range lists {
			for fail := -1; fail < 2; fail++ {
				for _, gated := range []bool{false, true} {
					for _, w := range []int{1, 2} {
						in := input{NKeys: 2, Present: []int{1, 2}, Fail: fail, Delay: []int{0, 0}, Workers: w, Cap: 5, Procs: 4,
							Txs: []txIn{{ID: 1, Keys: a, Gets: 1}, {ID: 2, Keys: b, Gets: 2}}, Gen: "enum"}
						in.Ops = []op{{T: "fetch", I: 0}, {T: "fetch", I: 1}}
						if gated {
							in.Gated = []int{0, 1}
							in.Ops = []op{{T: "fetch", I: 0}, {T: "fetch", I: 1}, {T: "release"}}
						}
						out = append(out, in)
					}
				}
			}
		}
	}
	return out
}

func TestDriver(t *testing.T) {
	env := emit.GetEnv()
	if env.Out == "" {
		t.Skip("VERIF_OUT not set")
	}
	w, err := emit.NewWriter(env.Out)
	if err != nil {
		t.Fatal(err)
	}
	defer w.Close()
	if env.Mode == "replay" {
		raws, err := emit.ReadReplay(env.Replay)
		if err != nil {
			t.Fatal(err)
		}
		for _, raw := range raws {
			var in input
			if err := json.Unmarshal(raw, &in); err != nil {
				t.Fatal(err)
			}
			if in.Workers < 1 {
				in.Workers = 1
			}
			if in.Procs < 1 {
				in.Procs = 4
			}
			for len(in.Delay) < in.NKeys {
				in.Delay = append(in.Delay, 0)
			}
			hangs := 0
			for i := 0; i < 5 && hangs < 1; i++ {
				m := runCase(in)
				if m.Hang {
					hangs++
				}
				_ = w.Put(toCase(m, "replay:"+in.Gen))
			}
		}
		return
	}
	r := env.Rand()
	hangs := 0
	put := func(in input) {
		m := runCase(in)
		if m.Hang {
			hangs++ // a hung fetcher leaks its goroutines: report it and stop generating
		}
		_ = w.Put(toCase(m, in.Gen))
	}
	if env.Tier == "thorough" {
		for _, in := range enumInputs() {
			if hangs >= 2 {
				break
			}
			put(in)
		}
	}
	for w.Count() < env.N && hangs < 2 {
		put(genInput(r))
	}
}
