// Driver for C25: internal/heap.Heap, internal/emap.EMap and internal/eheap.ExpiryHeap driven through
// operation sequences over small universes (many ids per expiry, ids re-offered with other expiries).
package heaps

import (
	"encoding/json"
	"fmt"
	"math/rand"
	"strings"
	"testing"
	"time"

	"github.com/ava-labs/avalanchego/ids"
	"github.com/ava-labs/avalanchego/utils/set"

	"github.com/ava-labs/hypersdk/internal/eheap"
	"github.com/ava-labs/hypersdk/internal/emap"
	"github.com/ava-labs/hypersdk/internal/heap"
	"github.com/ava-labs/hypersdk/verifharness/emit"
)

type Pair struct {
	ID int   `json:"id"`
	V  int64 `json:"v"`
}

func (p *Pair) GetID() ids.ID    { return mkID(p.ID) }
func (p *Pair) GetExpiry() int64 { return p.V }

func mkID(n int) ids.ID { var id ids.ID; id[0] = byte(n); id[30] = 0x5A; return id }
func idOf(id ids.ID) int {
	if id[30] != 0x5A {
		return 255
	}
	return int(id[0])
}

func zlit(v int64) string {
	if v < 0 {
		return fmt.Sprintf("(%d)", v)
	}
	return fmt.Sprintf("%d", v)
}
func pairCoq(p Pair) string { return fmt.Sprintf("P %d %s", p.ID, zlit(p.V)) }
func pairsCoq(ps []Pair) string {
	s := make([]string, len(ps))
	for i, p := range ps {
		s[i] = pairCoq(p)
	}
	return "[" + strings.Join(s, "; ") + "]"
}
func optPair(p *Pair) string {
	if p == nil {
		return "None"
	}
	return "(Some (" + pairCoq(*p) + "))"
}
func intsCoq(xs []int, scope string) string {
	if len(xs) == 0 {
		return "[]"
	}
	s := make([]string, len(xs))
	for i, x := range xs {
		s[i] = fmt.Sprint(x)
	}
	return "[" + strings.Join(s, ";") + "]" + scope
}

type Op struct {
	Kind   string `json:"op"` // push pop removeat | eadd any contains | setmin | hadd hremove hpeek hpop
	ID     int    `json:"id,omitempty"`
	V      int64  `json:"v,omitempty"`
	I      int    `json:"i,omitempty"`
	Items  []Pair `json:"items,omitempty"`
	IDs    []int  `json:"ids,omitempty"`
	Marker []int  `json:"marker,omitempty"`
	Stop   bool   `json:"stop,omitempty"`
}

func (o Op) coq() string {
	switch o.Kind {
	case "push":
		return fmt.Sprintf("(Push %d %s)", o.ID, zlit(o.V))
	case "pop":
		return "Pop"
	case "removeat":
		return fmt.Sprintf("(RemoveAt %d)", o.I)
	case "eadd":
		return "(EAdd " + pairsCoq(o.Items) + ")"
	case "any":
		return "(Any " + intsCoq(o.IDs, "%N") + ")"
	case "contains":
		return fmt.Sprintf("(Contains %s %s %v)", intsCoq(o.IDs, "%N"), intsCoq(o.Marker, ""), o.Stop)
	case "setmin":
		return "(SetMin " + zlit(o.V) + ")"
	case "hadd":
		return fmt.Sprintf("(HAdd %d %s)", o.ID, zlit(o.V))
	case "hremove":
		return fmt.Sprintf("(HRemove %d)", o.ID)
	case "hpeek":
		return "HPeek"
	case "hpop":
		return "HPop"
	}
	panic("bad op " + o.Kind)
}

type Input struct {
	Kind int  `json:"kind"` // 0 min-heap, 1 max-heap, 2 emap, 3 eheap
	NIDs int  `json:"nids"`
	Ops  []Op `json:"ops"`
}

type obs struct {
	out   string
	ln    int
	has   []bool
	first *Pair
	items []string
}

func (b obs) coq() string {
	has := make([]string, len(b.has))
	for i, h := range b.has {
		has[i] = emit.Bool(h)
	}
	return fmt.Sprintf("(mkO %s %d [%s] %s [%s])", b.out, b.ln, strings.Join(has, ";"), optPair(b.first), strings.Join(b.items, "; "))
}

const itemTag = 1000

func entPair(e *heap.Entry[int, int64]) *Pair {
	if e == nil {
		return nil
	}
	id := idOf(e.ID)
	if e.Item != id+itemTag { // the entry must carry the item it was pushed with
		id += 100
	}
	return &Pair{id, e.Val}
}

func runHeap(in Input) []obs {
	h := heap.New[int, int64](4, in.Kind == 0)
	var out []obs
	for _, o := range in.Ops {
		b := obs{out: "OU"}
		switch o.Kind {
		case "push":
			h.Push(&heap.Entry[int, int64]{ID: mkID(o.ID), Val: o.V, Item: o.ID + itemTag, Index: h.Len()})
		case "pop":
			b.out = "(OE " + optPair(entPair(h.Pop())) + ")"
		case "removeat":
			b.out = "(OE " + optPair(entPair(h.Remove(o.I))) + ")"
		default:
			panic("op not for heap: " + o.Kind)
		}
		b.ln = h.Len()
		for i := 0; i < in.NIDs; i++ {
			has := h.Has(mkID(i))
			e, ok := h.Get(mkID(i))
			if ok != has || (ok && idOf(e.ID) != i) {
				has = !has // Get and Has must agree and return the entry of that id
			}
			b.has = append(b.has, has)
		}
		b.first = entPair(h.First())
		for _, e := range h.Items() {
			p := entPair(e)
			b.items = append(b.items, fmt.Sprintf("T %d %s %d", p.ID, zlit(p.V), e.Index))
		}
		out = append(out, b)
	}
	return out
}

func pairPtrs(ps []Pair) []*Pair {
	out := make([]*Pair, len(ps))
	for i := range ps {
		p := ps[i]
		out[i] = &p
	}
	return out
}

func idItems(xs []int) []*Pair {
	out := make([]*Pair, len(xs))
	for i, x := range xs {
		out[i] = &Pair{x, 77}
	}
	return out
}

func runEMap(in Input) []obs {
	e := emap.NewEMap[*Pair]()
	var out []obs
	for _, o := range in.Ops {
		b := obs{out: "OU"}
		switch o.Kind {
		case "eadd":
			e.Add(pairPtrs(o.Items))
		case "setmin":
			ev := e.SetMin(o.V)
			xs := make([]int, len(ev))
			for i, id := range ev {
				xs[i] = idOf(id)
			}
			b.out = "(OI " + intsCoq(xs, "%N") + ")"
		case "any":
			b.out = fmt.Sprintf("(OB %v)", e.Any(idItems(o.IDs)))
		case "contains":
			m := e.Contains(idItems(o.IDs), set.NewBits(o.Marker...), o.Stop)
			var xs []int
			for i := 0; i < len(o.IDs)+8; i++ {
				if m.Contains(i) {
					xs = append(xs, i)
				}
			}
			b.out = "(OM " + intsCoq(xs, "") + ")"
		default:
			panic("op not for emap: " + o.Kind)
		}
		for i := 0; i < in.NIDs; i++ {
			b.has = append(b.has, e.Any(idItems([]int{i})))
		}
		out = append(out, b)
	}
	return out
}

func runEHeap(in Input) []obs {
	h := eheap.New[*Pair](2)
	var out []obs
	opt := func(p *Pair, ok bool) *Pair {
		if !ok {
			return nil
		}
		c := *p
		return &c
	}
	for _, o := range in.Ops {
		b := obs{out: "OU"}
		switch o.Kind {
		case "hadd":
			h.Add(&Pair{o.ID, o.V})
		case "hremove":
			p, ok := h.Remove(mkID(o.ID))
			b.out = "(OE " + optPair(opt(p, ok)) + ")"
		case "setmin":
			rs := h.SetMin(o.V)
			ps := make([]Pair, len(rs))
			for i, p := range rs {
				ps[i] = *p
			}
			b.out = "(OL " + pairsCoq(ps) + ")"
		case "hpeek":
			p, ok := h.PeekMin()
			b.out = "(OE " + optPair(opt(p, ok)) + ")"
		case "hpop":
			p, ok := h.PopMin()
			b.out = "(OE " + optPair(opt(p, ok)) + ")"
		default:
			panic("op not for eheap: " + o.Kind)
		}
		b.ln = h.Len()
		for i := 0; i < in.NIDs; i++ {
			b.has = append(b.has, h.Has(mkID(i)))
		}
		p, ok := h.PeekMin()
		b.first = opt(p, ok)
		out = append(out, b)
	}
	return out
}

func execute(in Input) (out []obs, failure string) {
	done := make(chan struct{})
	go func() {
		defer close(done)
		defer func() {
			if r := recover(); r != nil {
				failure = fmt.Sprintf("panic: %v", r)
			}
		}()
		switch in.Kind {
		case 0, 1:
			out = runHeap(in)
		case 2:
			out = runEMap(in)
		default:
			out = runEHeap(in)
		}
	}()
	select {
	case <-done:
	case <-time.After(hangTimeout):
		return nil, "hang"
	}
	return out, failure
}

var kindNames = []string{"heap-min", "heap-max", "emap", "eheap"}

// hangTimeout bounds one case; a hang is reported as a failing case and ends the run at once (the stuck
// goroutine may be allocating without bound).
const hangTimeout = 8 * time.Second

func run(in Input, gen string) (emit.Case, bool) {
	out, failure := execute(in)
	ops := make([]string, len(in.Ops))
	for i, o := range in.Ops {
		ops[i] = o.coq()
	}
	os := make([]string, len(out))
	maxLen := 0
	for i, b := range out {
		os[i] = b.coq()
		n := 0
		for _, h := range b.has {
			if h {
				n++
			}
		}
		if n > maxLen {
			maxLen = n
		}
	}
	coq := fmt.Sprintf("(mk %d %d\n [%s]\n [%s])", in.Kind, in.NIDs, strings.Join(ops, "; "), strings.Join(os, ";\n  "))
	sig := "expiry-set-" + kindNames[in.Kind%4] + "-answer-wrong"
	if failure != "" {
		sig = "expiry-set-" + kindNames[in.Kind%4] + "-" + strings.SplitN(failure, ":", 2)[0]
	}
	mirror := struct {
		Input
		Failure string `json:"failure,omitempty"`
		Steps   int    `json:"steps_observed"`
	}{in, failure, len(out)}
	return emit.Case{Coq: coq, JSON: mirror, Nontrivial: maxLen >= 2 && len(in.Ops) >= 5, Kind: kindNames[in.Kind%4] + gen, Sig: sig}, failure == "hang"
}

// ---- generators --------------------------------------------------------------------------------

var expiries = []int64{10, 20, 30, 40}
var mins = []int64{0, 5, 10, 11, 20, 21, 30, 31, 40, 41, 50, -3, -9223372036854775807}

func genHeap(r *rand.Rand, kind int) Input {
	in := Input{Kind: kind, NIDs: 6 + r.Intn(7)}
	distinct := r.Intn(3) == 0 // strictly ordered values instead of 4 shared ones
	n := 5 + r.Intn(36)
	size := 0 // approximate
	for len(in.Ops) < n {
		x := r.Intn(100)
		switch {
		case x < 50 || (size < 3 && x < 80):
			v := expiries[r.Intn(len(expiries))]
			if distinct {
				v = int64(1 + r.Intn(30))
			}
			if r.Intn(10) == 0 {
				v = -v
			}
			in.Ops = append(in.Ops, Op{Kind: "push", ID: r.Intn(in.NIDs), V: v})
			size++
		case x < 65:
			in.Ops = append(in.Ops, Op{Kind: "pop"})
			if size > 0 {
				size--
			}
		default:
			i := r.Intn(size + 2)
			switch r.Intn(6) {
			case 0:
				i = 0
			case 1:
				i = size / 2
			case 2:
				if size > 0 {
					i = size - 1
				}
			}
			in.Ops = append(in.Ops, Op{Kind: "removeat", I: i})
			if size > 0 {
				size--
			}
		}
	}
	return in
}

func genEMap(r *rand.Rand) Input {
	in := Input{Kind: 2, NIDs: 5 + r.Intn(4)}
	n := 5 + r.Intn(36)
	times := []int64{0, 10, 20, 30, 40}
	if r.Intn(3) == 0 {
		times = []int64{0, 3, 7, 10, 15, 20, 25, 30, 40}
	}
	if r.Intn(5) == 0 {
		// every expiry other than 0 is tracked, negative ones included
		times = []int64{0, -5, -1, 1, 10, -9223372036854775808, 20}
	}
	randIDs := func(k int) []int {
		xs := make([]int, k)
		for i := range xs {
			xs[i] = r.Intn(in.NIDs)
		}
		return xs
	}
	for len(in.Ops) < n {
		x := r.Intn(100)
		switch {
		case x < 50:
			k := 1 + r.Intn(4)
			var ps []Pair
			for i := 0; i < k; i++ {
				ps = append(ps, Pair{r.Intn(in.NIDs), times[r.Intn(len(times))]})
			}
			in.Ops = append(in.Ops, Op{Kind: "eadd", Items: ps})
		case x < 75:
			in.Ops = append(in.Ops, Op{Kind: "setmin", V: mins[r.Intn(len(mins))]})
		case x < 85:
			in.Ops = append(in.Ops, Op{Kind: "any", IDs: randIDs(r.Intn(4))})
		default:
			k := 1 + r.Intn(5)
			var marker []int
			for i := 0; i < k; i++ {
				if r.Intn(4) == 0 {
					marker = append(marker, i)
				}
			}
			in.Ops = append(in.Ops, Op{Kind: "contains", IDs: randIDs(k), Marker: marker, Stop: r.Intn(2) == 0})
		}
	}
	return in
}

func genEHeap(r *rand.Rand) Input {
	in := Input{Kind: 3, NIDs: 5 + r.Intn(6)}
	n := 5 + r.Intn(36)
	distinct := r.Intn(4) == 0
	for len(in.Ops) < n {
		x := r.Intn(100)
		switch {
		case x < 50:
			v := expiries[r.Intn(len(expiries))]
			if distinct {
				v = int64(1 + r.Intn(40))
			}
			in.Ops = append(in.Ops, Op{Kind: "hadd", ID: r.Intn(in.NIDs), V: v})
		case x < 70:
			in.Ops = append(in.Ops, Op{Kind: "hremove", ID: r.Intn(in.NIDs)})
		case x < 82:
			in.Ops = append(in.Ops, Op{Kind: "setmin", V: mins[r.Intn(len(mins))]})
		case x < 90:
			in.Ops = append(in.Ops, Op{Kind: "hpop"})
		default:
			in.Ops = append(in.Ops, Op{Kind: "hpeek"})
		}
	}
	if r.Intn(2) == 0 {
		// drain: everything left comes out in expiry order, once
		in.Ops = append(in.Ops, Op{Kind: "setmin", V: 60})
	}
	return in
}

func gen(r *rand.Rand) Input {
	switch r.Intn(8) {
	case 0, 1:
		return genHeap(r, 0)
	case 2:
		return genHeap(r, 1)
	case 3, 4:
		return genEMap(r)
	default:
		return genEHeap(r)
	}
}

// exhaustive (thorough tier): every eheap op sequence of length <= depth over 3 ids / 2 expiries
func enumEHeap(w *emit.Writer, depth int) {
	var alphabet []Op
	for id := 0; id < 3; id++ {
		for _, v := range []int64{10, 20} {
			alphabet = append(alphabet, Op{Kind: "hadd", ID: id, V: v})
		}
		alphabet = append(alphabet, Op{Kind: "hremove", ID: id})
	}
	alphabet = append(alphabet, Op{Kind: "setmin", V: 15}, Op{Kind: "hpop"})
	var rec func(ops []Op)
	rec = func(ops []Op) {
		if len(ops) == depth {
			c, _ := run(Input{Kind: 3, NIDs: 3, Ops: append([]Op{}, ops...)}, "+enum")
			_ = w.Put(c)
			return
		}
		for _, o := range alphabet {
			rec(append(ops, o))
		}
	}
	rec(nil)
}

func TestDriver(t *testing.T) {
	env := emit.GetEnv()
	if env.Out == "" {
		t.Skip("VERIF_OUT not set")
	}
	w, err := emit.NewWriter(env.Out)
	if err != nil {
		t.Fatal(err)
	}
	defer w.Close()
	if env.Mode == "replay" {
		raws, err := emit.ReadReplay(env.Replay)
		if err != nil {
			t.Fatal(err)
		}
		for _, raw := range raws {
			var in Input
			if err := json.Unmarshal(raw, &in); err != nil {
				t.Fatal(err)
			}
			c, hung := run(in, "+replay")
			_ = w.Put(c)
			if hung {
				return
			}
		}
		return
	}
	r := env.Rand()
	if env.Tier == "thorough" {
		enumEHeap(w, 4)
	}
	for i := 0; i < env.N; i++ {
		c, hung := run(gen(r), "")
		_ = w.Put(c)
		if hung {
			return
		}
	}
}
