// C40: the pure functions of keys/keys.go, state.Keys.Add and the write-time check of
// TStateView.Insert.
package tstate

import (
	"context"
	"encoding/json"
	"fmt"
	"math/rand"
	"testing"

	"github.com/ava-labs/hypersdk/keys"
	"github.com/ava-labs/hypersdk/state"
	"github.com/ava-labs/hypersdk/state/tstate"
	"github.com/ava-labs/hypersdk/verifharness/emit"
)

type keysIn struct {
	Kind    string `json:"kind"` // "fun" | "ins"
	K       []byte `json:"k"`
	VLen    int    `json:"vlen"`
	MaxSize int    `json:"max_size"`
	MKS     uint32 `json:"max_key_size"`
	MVC     uint16 `json:"max_value_chunks"`
	Chunks  uint16 `json:"chunks"`
	Perm    byte   `json:"perm"`    // ins: declared permission of K ("all" scope if Scope=="all")
	Scope   string `json:"scope"`   // ins: "all" | "keys"
	Present bool   `json:"present"` // ins: K already holds a one-byte value in storage
}

type keysOut struct {
	Valid    bool   `json:"valid"`
	Max      *int   `json:"max"`
	Dec      *int   `json:"dec"`
	Num      *int   `json:"num"`
	VV       bool   `json:"vv"`
	Verify   bool   `json:"verify"`
	Enc      []byte `json:"enc"`
	EncOK    bool   `json:"enc_ok"`
	EncVV    bool   `json:"enc_vv"`
	EncCh    []byte `json:"enc_chunks"`
	EncChMax *int   `json:"enc_chunks_max"`
	Add      bool   `json:"add"`
	AddPre   bool   `json:"add_pre"`
	InsErr   int    `json:"ins_err"`
	GetKind  int    `json:"get_kind"` // ins: 0 value equal to the inserted one, 1 other value, 2 not found, 3 error
}

type keysMirror struct {
	keysIn
	Out keysOut `json:"out"`
}

var bigBuf = make([]byte, 6_000_000)

func optN(p *int) string {
	if p == nil {
		return "(@None N)"
	}
	return fmt.Sprintf("(Some %d%%N)", *p)
}

func u16p(v uint16, ok bool) *int {
	if !ok {
		return nil
	}
	x := int(v)
	return &x
}

func runKeys(in keysIn) emit.Case {
	var out keysOut
	value := bigBuf[:in.VLen]
	sig := "keys-chunk-arithmetic"
	kind := in.Kind
	var coq string
	if in.Kind == "fun" {
		out.Valid = keys.Valid(string(in.K))
		out.Max = u16p(keys.MaxChunks(clone(in.K)))
		out.Dec = u16p(keys.DecodeChunks(clone(in.K)))
		out.Num = u16p(keys.NumChunks(value))
		out.VV = keys.VerifyValue(clone(in.K), value)
		out.Verify = keys.Verify(in.MKS, in.MVC, clone(in.K))
		enc, ok := keys.Encode(clone(in.K), in.MaxSize)
		out.EncOK = ok
		if ok {
			out.Enc = clone(enc)
			out.EncVV = keys.VerifyValue(clone(enc), value)
		}
		out.EncCh = keys.EncodeChunks(clone(in.K), in.Chunks)
		out.EncChMax = u16p(keys.MaxChunks(clone(out.EncCh)))
		out.Add = state.Keys{}.Add(string(in.K), state.Permissions(in.Perm))
		// the same declaration into a set that already holds the key (put there without Add, as a decoded or literal set does)
		out.AddPre = state.Keys{string(in.K): state.Write}.Add(string(in.K), state.Permissions(in.Perm))
		encS := "(@None (list N))"
		if ok {
			encS = "(Some " + emit.Bytes(out.Enc) + ")"
		}
		coq = emit.App("KF", emit.Bytes(in.K), emit.Z(int64(in.VLen)), emit.Z(int64(in.MaxSize)),
			emit.N(uint64(in.MKS)), emit.N(uint64(in.MVC)), emit.N(uint64(in.Chunks)),
			emit.Bool(out.Valid), optN(out.Max), optN(out.Dec), optN(out.Num), emit.Bool(out.VV), emit.Bool(out.Verify),
			encS, emit.Bool(out.EncVV), emit.Bytes(out.EncCh), optN(out.EncChMax), emit.Bool(out.Add), emit.Bool(out.AddPre))
	} else {
		ctx := context.Background()
		storage := state.ImmutableStorage(map[string][]byte{})
		if in.Present {
			storage[string(in.K)] = []byte{1}
		}
		var sc state.Scope = state.CompletePermissions
		if in.Scope != "all" {
			sc = state.Keys{string(in.K): state.Permissions(in.Perm)}
		}
		bypass := new(bool)
		tsv := tstate.New(1).NewView(toggleScope{sc, bypass}, storage, 0)
		val := make([]byte, in.VLen)
		for i := range val {
			val[i] = 5
		}
		out.InsErr = errClass(tsv.Insert(ctx, clone(in.K), val))
		*bypass = true
		got, err := tsv.GetValue(ctx, clone(in.K))
		switch {
		case err == nil && string(got) == string(val):
			out.GetKind = 0
		case err == nil:
			out.GetKind = 1
		case errClass(err) == 3:
			out.GetKind = 2
		default:
			out.GetKind = 3
		}
		scS := "true"
		if in.Scope != "all" {
			scS = "false"
		}
		coq = emit.App("KI", emit.Bytes(in.K), emit.N(uint64(in.VLen)), scS, emit.N(uint64(in.Perm)), emit.Bool(in.Present),
			emit.N(uint64(out.InsErr)), emit.N(uint64(out.GetKind)))
		sig = "insert-chunk-bound"
	}
	nontrivial := len(in.K) >= 2
	return emit.Case{Coq: coq, JSON: keysMirror{in, out}, Nontrivial: nontrivial, Kind: kind, Sig: "C40:" + sig}
}

var suffixChoices = []uint16{0, 1, 2, 3, 63, 64, 65, 255, 256, 257, 1024, 65534, 65535}

func genKey(r *rand.Rand) []byte {
	if r.Intn(100) < 8 {
		return [][]byte{{}, {0}, {1}, {255}}[r.Intn(4)]
	}
	n := r.Intn(4)
	k := make([]byte, n)
	for i := range k {
		k[i] = byte(r.Intn(256))
	}
	c := suffixChoices[r.Intn(len(suffixChoices))]
	if r.Intn(100) < 20 {
		c = uint16(r.Intn(65536))
	}
	return append(k, byte(c>>8), byte(c))
}

func around(r *rand.Rand, c int) int {
	// a length around the capacity of c chunks
	cands := []int{c*64 - 65, c*64 - 64, c*64 - 63, c*64 - 2, c*64 - 1, c * 64, c*64 + 1, c*64 + 63, c*64 + 64}
	v := cands[r.Intn(len(cands))]
	if v < 0 {
		v = 0
	}
	return v
}

func genLen(r *rand.Rand, k []byte) int {
	x := r.Intn(100)
	switch {
	case x < 45 && len(k) >= 2:
		return min(around(r, int(k[len(k)-2])<<8|int(k[len(k)-1])), len(bigBuf))
	case x < 60:
		return []int{0, 1, 63, 64, 65, 127, 128}[r.Intn(7)]
	case x < 75:
		return min(around(r, 65535), len(bigBuf))
	case x < 80:
		return 5_000_000 + r.Intn(1000)
	default:
		return r.Intn(70_000)
	}
}

func genKeysCase(r *rand.Rand) keysIn {
	k := genKey(r)
	if r.Intn(100) < 30 { // TStateView.Insert
		in := keysIn{Kind: "ins", K: k, Scope: "all", Perm: 7, Present: r.Intn(4) == 0}
		if r.Intn(100) < 50 {
			in.Scope = "keys"
			if r.Intn(100) < 25 {
				in.Perm = []byte{5, 3, 1, 0, 6}[r.Intn(5)]
			}
		}
		// keep values small enough for the Coq side: choose keys with small suffixes mostly
		if len(k) >= 2 && r.Intn(100) < 85 {
			c := []uint16{0, 1, 2, 3, 63, 64, 128}[r.Intn(7)]
			k = append(clone(k[:len(k)-2]), byte(c>>8), byte(c))
			in.K = k
		}
		l := genLen(r, k)
		if l > 8400 {
			l = r.Intn(8400)
		}
		in.VLen = l
		return in
	}
	in := keysIn{Kind: "fun", K: k, VLen: genLen(r, k), Perm: permChoices[r.Intn(len(permChoices))]}
	switch x := r.Intn(100); {
	case x < 35:
		in.MaxSize = in.VLen + []int{-65, -64, -1, 0, 0, 0, 1, 63, 64, 1000}[r.Intn(10)]
	case x < 50:
		in.MaxSize = []int{-1, -63, -64, -65, -128, -6400, -4194240, -1 << 40}[r.Intn(8)]
	case x < 65:
		in.MaxSize = 65535*64 + []int{-65, -64, -1, 0, 1, 64}[r.Intn(6)]
	default:
		in.MaxSize = genLen(r, k)
	}
	in.MKS = []uint32{0, 1, 2, 3, 4, 5, 256, 1 << 20}[r.Intn(8)]
	if len(k) >= 2 && r.Intn(2) == 0 {
		c := int(k[len(k)-2])<<8 | int(k[len(k)-1])
		in.MVC = uint16(max(0, min(65535, c+r.Intn(3)-1)))
	} else {
		in.MVC = suffixChoices[r.Intn(len(suffixChoices))]
	}
	in.Chunks = suffixChoices[r.Intn(len(suffixChoices))]
	if r.Intn(4) == 0 {
		in.Chunks = uint16(r.Intn(65536))
	}
	return in
}

func driveKeys(t *testing.T, env emit.Env, w *emit.Writer) {
	if env.Mode == "replay" {
		raws, err := emit.ReadReplay(env.Replay)
		if err != nil {
			t.Fatal(err)
		}
		for _, raw := range raws {
			var probe struct {
				Segs []seg `json:"segs"`
			}
			if json.Unmarshal(raw, &probe) == nil && probe.Segs != nil {
				c, err := replayOne(raw, "C40")
				if err != nil {
					t.Fatal(err)
				}
				c.Coq = "(KH " + c.Coq + ")"
				c.Kind = "history"
				c.Sig = "C40:insert-chunk-bound-in-history"
				_ = w.Put(c)
				continue
			}
			var in keysIn
			if err := json.Unmarshal(raw, &in); err != nil {
				t.Fatal(err)
			}
			if in.VLen < 0 || in.VLen > len(bigBuf) {
				t.Fatalf("vlen out of range: %d", in.VLen)
			}
			_ = w.Put(runKeys(in))
		}
		return
	}
	r := env.Rand()
	if env.Tier == "thorough" {
		// every value length 0..70000 against keys whose suffix sits at the matching boundary
		for l := 0; l <= 70_000; l++ {
			c := l / 64
			if l%3 == 1 {
				c++
			}
			k := []byte{0x6b, byte(c >> 8), byte(c)}
			_ = w.Put(runKeys(keysIn{Kind: "fun", K: k, VLen: l, MaxSize: l + (l % 5) - 2, MKS: 3, MVC: uint16(c), Chunks: uint16(l % 65536), Perm: 7}))
		}
		// every chunk count at its exact capacity boundary
		for c := 0; c <= 65535; c += 1 {
			if c > 300 && c < 65200 && c%97 != 0 {
				continue
			}
			for _, d := range []int{-1, 0, 1} {
				l := c*64 + d
				if l < 0 {
					continue
				}
				k := []byte{byte(c >> 8), byte(c)}
				_ = w.Put(runKeys(keysIn{Kind: "fun", K: k, VLen: l, MaxSize: l, MKS: 2, MVC: uint16(c), Chunks: uint16(c), Perm: 5}))
			}
		}
		for c := 0; c <= 130; c++ {
			for _, d := range []int{-2, -1, 0, 1} {
				l := c*64 + d
				if l < 0 {
					continue
				}
				k := []byte{0x71, byte(c >> 8), byte(c)}
				_ = w.Put(runKeys(keysIn{Kind: "ins", K: k, VLen: l, Scope: "keys", Perm: 7, Present: d == 0}))
			}
		}
	}
	for i := 0; i < env.N; i++ {
		if i%4 == 3 { // a whole view history with value lengths at the chunk bounds
			c := runGenerated(r, "C40")
			c.Coq = "(KH " + c.Coq + ")"
			c.Kind = "history"
			c.Sig = "C40:insert-chunk-bound-in-history"
			_ = w.Put(c)
			continue
		}
		_ = w.Put(runKeys(genKeysCase(r)))
	}
}
